#!/bin/bash
# confirm_mutant.sh <id> <srcdir> [demo-subdir]
# Confirms a seeded change in a fresh scratch worktree of /repo (outside /repo and /verif) and stores it
# under /verif/seeded/<id>/: patch.diff, demo (zz_demo_test.go.txt), confirm.log.
#   1. patch applies to /repo HEAD, builds, the pinned suite passes with it,
#   2. the demonstration fails with it,
#   3. the demonstration passes without it.
# demo-subdir: directory (relative to the repo root) the demo test file belongs to (default "." or "pq"
# according to its package clause).
set -u
export GOFLAGS=-mod=mod GOPROXY=off GOSUMDB=off GOTOOLCHAIN=local
id=$1; src=$2
patch=$src/patch.diff
demo=$(ls $src/*demo*_test.go* 2>/dev/null | head -1)
[ -f "$patch" ] && [ -n "$demo" ] || { echo "missing patch or demo in $src"; exit 2; }
sub=${3:-}
if [ -z "$sub" ]; then
  if grep -qE '^package pq(_test)?$' "$demo"; then sub=pq; else sub=.; fi
fi
wt=/tmp/confirm-$id
pat=$(grep -oE '^func (Test[A-Za-z0-9_]+)' "$demo" | awk '{print $2}' | paste -sd'|')
pat="^($pat)\$"
git -C /repo worktree remove --force $wt >/dev/null 2>&1
rm -rf $wt
git -C /repo worktree add --detach $wt HEAD >/dev/null 2>&1 || { echo "worktree failed"; exit 2; }
out=/verif/seeded/$id; mkdir -p $out
log=$out/confirm.log; : > $log
res=0
(
  cd $wt
  echo "== base: $(git rev-parse --short HEAD)"
  git apply --check $patch || { echo "PATCH DOES NOT APPLY"; exit 3; }
  git apply $patch
  echo "== files changed:"; git status --short
  go build ./... || { echo "BUILD FAILS"; exit 3; }
  go vet . ./pq >/dev/null 2>&1 || echo "(vet reports something)"
  echo "== suite with the change:"
  go test -count=1 ./... 2>&1 | tail -8
  [ ${PIPESTATUS[0]} -eq 0 ] || { echo "SUITE FAILS WITH CHANGE"; exit 3; }
  cp $demo $sub/zz_demo_test.go
  echo "== demo with the change (expected: FAIL):"
  go test -count=1 -run "$pat" ./$sub 2>&1 | tail -15
  if [ ${PIPESTATUS[0]} -eq 0 ]; then echo "DEMO PASSES WITH CHANGE"; exit 3; fi
  git apply -R $patch
  echo "== demo without the change (expected: ok):"
  go test -count=1 -run "$pat" ./$sub 2>&1 | tail -5
  [ ${PIPESTATUS[0]} -eq 0 ] || { echo "DEMO FAILS WITHOUT CHANGE"; exit 3; }
  echo "CONFIRMED"
) >> $log 2>&1 || res=$?
git -C /repo worktree remove --force $wt >/dev/null 2>&1; rm -rf $wt
if grep -q '^CONFIRMED$' $log; then
  cp $patch $out/patch.diff; cp $demo $out/zz_demo_test.go.txt
  [ -f $src/meta.txt ] && cp $src/meta.txt $out/agent_meta.txt
  echo "$id CONFIRMED (demo dir: $sub)"
else
  echo "$id NOT CONFIRMED: $(tail -3 $log | tr '\n' ' ')"; exit 1
fi
