#!/bin/bash
# run_mutant_alt.sh <seeded-id> [property ...]: like run_mutant.sh, but in a scratch worktree (/repo itself is
# not touched, so it can run while other checks use /repo). Needs an up-to-date build of the Coq side in /verif.
set -u
id=$1; shift
ROOT=$(cd "$(dirname "$0")/.." && pwd)   # works from a snapshot of /verif (vp run) as well
props=${@:-$(echo $id | cut -c1-3)}
wt=/tmp/alt-repo-$(basename $ROOT)-$id
git -C /repo worktree remove --force $wt >/dev/null 2>&1; rm -rf $wt $ROOT/bin-alt/$(basename $wt)
git -C /repo worktree add --detach $wt HEAD >/dev/null 2>&1 || { echo "worktree failed"; exit 2; }
git -C $wt apply $ROOT/seeded/$id/patch.diff || { echo "patch does not apply"; git -C /repo worktree remove --force $wt; exit 2; }
cd $ROOT
for p in $props; do
  start=$(date +%s)
  out=$(VERIF_ALT=$wt ./check $p 2>&1); rc=$?
  end=$(date +%s)
  v=$(echo "$out" | grep -E '^VIOLATION' | head -3 | tr '\n' ';')
  echo "mutant=$id check=$p (alt) rc=$rc secs=$((end-start)) ${v:-no-violation}"
done
git -C /repo worktree remove --force $wt >/dev/null 2>&1; rm -rf $wt $ROOT/bin-alt/$(basename $wt)
