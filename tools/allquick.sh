#!/bin/bash
cd /verif
run() { for p in "$@"; do ./check $p 2>&1 | grep -E "^(VIOLATION|C[0-9]+ tier)" | cut -c1-200; done; }
run C01 C05 C09 C13 C17 &
run C02 C06 C10 C14 C18 &
run C03 C07 C11 C15 &
run C04 C08 C12 C16 &
wait
echo "== done =="
