#!/bin/bash
# run_mutant.sh <seeded-id> [--tier quick|thorough] [property ...]
# Applies /verif/seeded/<id>/patch.diff to /repo, runs the checks of the given properties (default: the
# property the change was seeded for), restores /repo. Prints one line per check.
set -u
id=$1; shift
tier=quick
if [ "${1:-}" = "--tier" ]; then tier=$2; shift 2; fi
props=${@:-$(echo $id | cut -c1-3)}
patch=/verif/seeded/$id/patch.diff
cd /verif
[ -z "$(git -C /repo status --short)" ] || { echo "/repo not clean"; exit 2; }
git -C /repo apply $patch || { echo "patch does not apply"; exit 2; }
trap 'git -C /repo checkout -- . ; git -C /repo status --short' EXIT
for p in $props; do
  start=$(date +%s)
  out=$(./check $p --tier $tier 2>&1); rc=$?
  end=$(date +%s)
  v=$(echo "$out" | grep -E '^VIOLATION' | head -3 | tr '\n' ';')
  echo "mutant=$id check=$p tier=$tier rc=$rc secs=$((end-start)) ${v:-no-violation}"
done
