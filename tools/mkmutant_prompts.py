#!/usr/bin/env python3
"""mkmutant_prompts.py <round> <prop>... : scratch worktrees /tmp/wt<round>-<prop> of /repo HEAD and self-contained
prompts /tmp/r<round>/prompt_<prop>.txt for independent sub-agents that write seeded defects (they get the property
text and the list of changes already tried, nothing else from /verif)."""
import json, glob, os, subprocess, sys
rnd, pids = sys.argv[1], sys.argv[2:]
props = {json.loads(l)['id']: json.loads(l) for l in open('/verif/properties.jsonl')}
done = {}
for f in sorted(glob.glob('/verif/seeded/*/meta.json')):
    d = json.load(open(f)); done.setdefault(d['property'], []).append(d.get('change', ''))
os.makedirs('/tmp/r%s' % rnd, exist_ok=True)
for pid in pids:
    p = props[pid]
    wt = '/tmp/wt%s-%s' % (rnd, pid)
    subprocess.run(['git', '-C', '/repo', 'worktree', 'remove', '--force', wt], capture_output=True)
    subprocess.run(['rm', '-rf', wt])
    r = subprocess.run(['git', '-C', '/repo', 'worktree', 'add', '--detach', wt, 'HEAD'], capture_output=True, text=True)
    assert r.returncode == 0, r.stderr
    os.makedirs(wt + '/_out', exist_ok=True)
    prompt = f"""You are helping to evaluate a verification framework for the Go library elastic/go-txfile (a transactional page-file storage engine with an on-disk persistent queue `pq` built on it). Your job: write ONE realistic, subtle code change ("seeded defect") to the library that BREAKS the semantic property below, while the library still compiles and its existing test suite still passes.

Your private scratch copy of the repository is the git worktree {wt} (HEAD = the current library). Work ONLY inside that directory. Do not look at or touch /verif or /repo. Do NOT use `git stash` (the stash is shared between worktrees and other people work in parallel); to toggle your change use `git diff > _out/patch.diff`, `git apply -R _out/patch.diff`, `git apply _out/patch.diff`.

Environment for every shell call: `export GOFLAGS=-mod=mod GOPROXY=off GOSUMDB=off GOTOOLCHAIN=local` (no network). Run the suite with `go build ./... && go test -count=1 ./...` from the worktree root (about 15-30 s).

THE PROPERTY ({pid}): {p['title']}
Statement: {p['statement']}
Quantified over: {p['quantifier']['text']}
Code anchors (hints where the mechanism lives): {json.dumps(p['anchors'].get('mechanism',[]))}; files {p['anchors'].get('files')}

Requirements for the change:
1. It modifies only non-test .go files of the library (no files with build tag `verif`, i.e. do not touch verif_hooks.go or pq/verif_hooks.go, and no test files). Keep it small (a few lines): the kind of mistake a maintainer could plausibly make in a refactoring, an optimisation, a reordering, an off-by-one, a forgotten case, a wrong variable. Not a blatant sabotage (no `if x == 42`, no random behaviour, no panics added on purpose).
2. The library builds, `go vet` has nothing new to say, and the COMPLETE existing test suite passes with the change (run it at least twice).
3. The change must genuinely violate the property for some input / history / schedule / crash point - and it should need something SPECIFIC to manifest (a particular sequence of operations, sizes, a configuration, a crash point, an interleaving), so that a shallow smoke test does not see it.
4. Write a demonstration: a Go test file `_out/zz_demo_test.go` (package `txfile` or `pq`, using only the library's own API / internals and the testing helpers already present in the package) that FAILS with your change and PASSES without it. The test functions must be named `Test...`. Verify both directions yourself (copy it next to the package sources to run it, and remove that copy afterwards so that the worktree contains only your change to the library).
5. The following changes have ALREADY been tried for this property - do something different in kind, in a different function and preferably in a different file; look for rarely exercised paths (options, error paths, boundary sizes, unusual but legal call sequences):
{chr(10).join('   - '+c for c in done.get(pid,[])) or '   (none)'}

Deliverables (all inside {wt}/_out/):
 - patch.diff  : `git diff` of your change against HEAD (library files only)
 - zz_demo_test.go : the demonstration test
 - meta.txt : a few lines: which function you changed and how, why the suite does not notice, what exactly is needed to make the violation manifest, and what a user would observe.
Leave the worktree with your change applied and no extra files outside _out/. If, while working, you notice behaviour of the UNMODIFIED library that itself seems to violate the property, describe it at the end of meta.txt under the heading "Side finding on HEAD" (say for each point whether you executed it or only read the code). Finish with a short summary of the above as your final answer.
"""
    open('/tmp/r%s/prompt_%s.txt' % (rnd, pid), 'w').write(prompt)
print(sorted(os.listdir('/tmp/r%s' % rnd)))
