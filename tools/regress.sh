#!/bin/bash
# regress.sh: every seeded change against the quick check of its property, in scratch worktrees of /repo
# (three lanes, properties are never shared between lanes). Run from a snapshot (vp run) or from /verif when
# nothing else rebuilds the tree meanwhile.
ROOT=$(cd "$(dirname "$0")/.." && pwd)
cd $ROOT
lane() { for p in "$@"; do for d in seeded/${p}*; do id=$(basename $d); [ -f $d/patch.diff ] || continue; tools/run_mutant_alt.sh $id $p 2>&1 | cut -c1-220; done; done; }
lane C01 C04 C07 C10 C13 C16 &
lane C02 C05 C08 C11 C14 C17 &
lane C03 C06 C09 C12 C15 C18 &
wait
echo "== regress done =="
