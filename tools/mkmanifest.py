#!/usr/bin/env python3
"""Generates /verif/MANIFEST.json from props.json (claimed checks) and properties.jsonl."""
import json, os
ROOT = os.path.dirname(os.path.dirname(os.path.abspath(__file__)))
props = json.load(open(os.path.join(ROOT, "props.json")))
allp = [json.loads(l) for l in open(os.path.join(ROOT, "properties.jsonl"))]
hooks_commits = [l.strip() for l in open(os.path.join(ROOT, "hooks_commits.txt")) if l.strip()]
checks, na = [], []
for p in allp:
    pid = p["id"]
    s = props.get(pid)
    if not s or s.get("not_applicable"):
        na.append({"property_id": pid, "reason": (s or {}).get("not_applicable", "check not built yet (work in progress; see DESIGN.md section 4 for the plan)")})
        continue
    checks.append({
        "property_id": pid,
        "quick_cmd": "./check %s --tier quick" % pid,
        "thorough_cmd": "./check %s --tier thorough" % pid,
        "evidence_file": "/verif/evidence/%s.json" % pid,
        "replay_cmd_template": "./check %s --replay {path}" % pid,
        "engine": "coq+correspondence",
        "level_claimed": {"category": "proof", "text": s["level_text"], "design_ref": s.get("design_ref", "DESIGN.md section 4, " + pid)},
        "level_note": s["level_note"],
        "technique": s["technique"],
    })
m = {
    "version": 1,
    "setup_cmd": "./setup.sh",
    "hooks": {
        "guard": "verif",
        "enable": "go build -tags verif (the harness module /verif/harness replaces github.com/elastic/go-txfile by /repo)",
        "baseline_off_cmd": "cd /repo && GOFLAGS=-mod=mod GOPROXY=off GOSUMDB=off go test -json -vet=off -count=1 -timeout 25m ./...",
        "source_commits": hooks_commits,
        "add_only": True,
    },
    "engines": [
        {"name": "coq+correspondence", "path": "/verif/check",
         "serves_properties": [c["property_id"] for c in checks],
         "kind_free_text": "Coq 8.16.1 development (coq/: executable Gallina models, proofs, property theorems), constants regenerated from /repo on every run, extracted OCaml model (bin/modelrun) run against the implementation by the Go harness (bin/verifrun, -tags verif) on a simulated disk; the harness' direct oracles search for a failing input"}],
    "checks": checks,
    "not_applicable": na,
    "notes": "All checks rebuild the harness from /repo's working tree, regenerate coq/Gen/Consts.v, run a full make of the Coq project and then the campaign. VERIF_SEED and VERIF_TIER are honoured. Known findings: known_findings.txt.",
}
json.dump(m, open(os.path.join(ROOT, "MANIFEST.json"), "w"), indent=1)
print("claimed:", [c["property_id"] for c in checks], "not claimed:", [n["property_id"] for n in na])
