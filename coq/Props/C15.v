(* C15 -- Misuse is reported as an error, never a panic, and changes nothing.
   The result type of the matrices (ekind) has no panic constructor: every lifecycle state x method
   pair yields Ok or a documented error kind (totality), and a call that yields an error leaves the
   lifecycle state of its receiver unchanged. The matrices themselves are tied to the implementation
   by executing every pair after random prefix histories. Finite case analysis = proof. *)
From VF Require Import Api.

Theorem C15_tx_misuse_changes_nothing : forall s m, tx_result s m <> KOk -> tx_next s m = s.
Proof. intros [] []; cbn; intros H; try reflexivity; exfalso; apply H; reflexivity. Qed.
Print Assumptions C15_tx_misuse_changes_nothing.

Theorem C15_finished_tx_rejects_everything_but_close : forall s m,
  (s = TxDoneRW \/ s = TxDoneRO) -> m <> MClose -> tx_result s m <> KOk.
Proof. intros s m [->| ->] Hm; destruct m; cbn; try discriminate; exfalso; apply Hm; reflexivity. Qed.

Theorem C15_readonly_tx_rejects_writes : forall m,
  In m [MAlloc; MAllocN; MFlush; MCheckpoint] -> tx_result TxRO m = KTxReadOnly.
Proof. intros m [<-|[<-|[<-|[<-|[]]]]]; reflexivity. Qed.

Theorem C15_page_misuse_changes_nothing : forall ts p m, page_result ts p m <> KOk -> page_next ts p m = p.
Proof. intros ts p m H. unfold page_next. destruct (page_result ts p m); try reflexivity. exfalso; apply H; reflexivity. Qed.

Theorem C15_page_after_finish : forall ts p m, (ts = TxDoneRW \/ ts = TxDoneRO) -> page_result ts p m <> KOk.
Proof. intros ts p m [->| ->]; destruct p, m; cbn; discriminate. Qed.

Theorem C15_page_rules :
  (forall m, m <> PBytes -> page_result TxRO PClean m = KTxReadOnly) /\
  (forall m, m <> PBytes -> page_result TxRW PFreed m = KInvalidOp) /\
  (forall m, m <> PBytes -> page_result TxRW PFlushed m = KInvalidOp) /\
  page_result TxRW PDirty PFree = KInvalidOp /\ page_result TxRW PNewDirty PFree = KInvalidOp /\
  page_result TxRW PClean PSetBytesOversize = KInvalidParam /\
  page_result TxRW PNew PBytes = KInvalidOp.
Proof.
  repeat split; try reflexivity; intros m Hm; destruct m; try reflexivity; exfalso; apply Hm; reflexivity.
Qed.
Print Assumptions C15_page_rules.

Theorem C15_queue_rules :
  (forall m, writer_result WClosed m = KWriterClosed) /\
  (forall m, m <> QDone -> reader_result RClosed m = KReaderClosed) /\
  (forall m, In m [QRead; QRNext; QAvailable] -> reader_result RIdle m = KInactiveTx) /\
  reader_result RInTx QBegin = KUnexpectedActiveTx /\
  (forall e t z, ack_result true e t z = KQueueClosed) /\   (* also an ACK of 0 events: fix D31 *)
  (forall t, ack_result false true t false = KACKEmptyQueue) /\
  ack_result false false true false = KACKTooMany.
Proof.
  repeat split; try reflexivity.
  - intros m Hm; destruct m; try reflexivity; exfalso; apply Hm; reflexivity.
  - intros m [<-|[<-|[<-|[]]]]; reflexivity.
Qed.

(* non-vacuity: some calls are valid, some are misuse *)
Example C15_ex : tx_result TxRW MAlloc = KOk /\ tx_result TxDoneRW MAlloc = KTxFinished /\ tx_misuse TxRO MAlloc = true.
Proof. repeat split. Qed.
