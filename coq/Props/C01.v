(* C01 -- Crash atomicity and durability of committed transactions.
   The disk is a function from page ids to page contents; a trace is a list of page writes, completed
   syncs and "Commit returned success" marks. The monitor (Model/CrashModel.v step, instantiated in
   Model/Monitor.v) accepts a trace iff it follows the commit protocol's write discipline:
     - a page >= 2 is only written while no header write is in flight and only if it is not a page the
       committed state can reach (its meta pages, live pages at their physical location, overwrite pages);
     - the header goes to the INACTIVE slot, validates, carries txid+1 (mod 2^64), is written only when
       no earlier write is pending, and the state it describes is completely recoverable from the
       durable disk at that moment; the active slot is never written;
     - Commit returns only after the sync that follows the header write.
   Theorem: for EVERY accepted trace, EVERY prefix and EVERY sub-list of the not yet synced page writes
   reaching the disk (a torn header = an invalid one): recovery returns exactly the last committed view,
   or - while a commit is in flight - exactly the complete view of that commit. The view is the
   allocator state + mapping + root + the content of every page a reader can reach.
   The implementation's traces are checked against the monitor on every run (extracted monitor), and
   recovery itself (recover_image) is compared with the real open path on real images. *)
From VF Require Import Monitor Crash CrashInst.

Theorem C01_crash_atomic : forall fuel evs m0 m,
  MInv fuel m0 -> mon_run fuel m0 evs = Some m ->
  forall ws, crashsub cell header hdr_of (pend m) ws ->
  mon_recover fuel (apply cell ws (dd m)) = Some (cst m) \/
  (exists c h v fp, infl m = Some (c, h, v, fp) /\ mon_recover fuel (apply cell ws (dd m)) = Some v).
Proof. exact crash_atomic_concrete. Qed.
Print Assumptions C01_crash_atomic.

(* the monitor's initial state (computed from a synced image: after creation, after an open, after a
   recovery) satisfies the invariant, and every accepted step keeps it: the theorem applies again to
   whatever is done with a recovered file *)
Theorem C01_init_invariant : forall fuel base m, mon_init fuel base = Some m -> MInv fuel m.
Proof. exact mon_init_inv. Qed.
Theorem C01_step_invariant : forall fuel m e m', MInv fuel m -> mon_step fuel m e = Some m' -> MInv fuel m'.
Proof. exact mon_step_inv. Qed.
Print Assumptions C01_step_invariant.

(* recovery depends only on the pages it reads (frame), all of them are >= 2 *)
Theorem C01_recover_frame : forall fuel (d d' : cdisk) h v fp,
  chase_full fuel d h = Some (v, fp) -> (forall p, In p fp -> d' p = d p) -> chase_full fuel d' h = Some (v, fp).
Proof. exact chase_full_frame. Qed.
Theorem C01_footprint_above_headers : forall fuel (d : cdisk) h v fp,
  chase_full fuel d h = Some (v, fp) -> forall p, In p fp -> 2 <= p.
Proof. exact chase_full_ge2. Qed.

(* the transaction id order survives the 2^64 wrap-around *)
Theorem C01_txid_order : forall t, txid_newer (nxt_txid t) t = true /\ txid_newer t (nxt_txid t) = false.
Proof. exact nxt_txid_newer. Qed.
Print Assumptions C01_txid_order.

(* the recovery of the theorem above selects its header exactly as readValidMeta's selection (Model/Meta.v
   [choose], the function the C16 theorems are about and that is validated against the implementation) *)
Theorem C01_recovery_uses_the_chosen_header : forall fuel (d : cdisk) pg0 pg1 a t,
  d 0 = Some pg0 -> d 1 = Some pg1 -> choose pg0 pg1 = SelOk a t ->
  mon_recover fuel d = option_map fst (chase_full fuel d (decode_header (if a =? 0 then pg0 else pg1))).
Proof. exact recover_uses_chosen_header. Qed.
Theorem C01_recovery_fails_without_valid_header : forall fuel (d : cdisk) pg0 pg1,
  d 0 = Some pg0 -> d 1 = Some pg1 -> choose pg0 pg1 = SelErr -> mon_recover fuel d = None.
Proof. exact recover_fails_iff_no_valid_header. Qed.
Print Assumptions C01_recovery_uses_the_chosen_header.

(* ---- the writer's scheduling queue (write.go Schedule / Sync / nextCommand): the commit protocol relies on sync = barrier ----
   For every interleaving of Schedule / Sync calls with nextCommand calls of ANY buffer sizes: what the goroutine has
   been handed so far, followed by what the queue still holds, is the sequence of writes and syncs in the order they
   were scheduled. A sync is executed after all writes scheduled before it and before every write scheduled later. *)
From VF Require Import Writer WriterProofs WriterQueue WriterQueueProofs WriterComposeProofs.
Theorem C01_writer_queue_preserves_schedule : forall (A : Type) (ops : list (qop A)) (s : wq A),
  Inv s -> buffers_ok ops ->
  let '(s', out, inp) := wq_run s ops in
  out ++ remaining s' = remaining s ++ inp /\ Inv s'.
Proof. intros A. exact queue_preserves_schedule. Qed.
Print Assumptions C01_writer_queue_preserves_schedule.

Theorem C01_writer_executes_the_schedule : forall (A : Type) (ops : list (qop A)),
  buffers_ok ops ->
  let '(s', out, inp) := wq_run wq_init ops in
  out ++ remaining s' = inp /\ (remaining s' = [] -> out = inp).
Proof. intros A. exact executed_is_schedule. Qed.
Print Assumptions C01_writer_executes_the_schedule.

(* queue + batch execution (stable sort inside a batch): at every moment the executed events are a prefix of the
   schedule and the disk holds, for every page, the last write of that prefix *)
Theorem C01_writer_executes_a_prefix_of_the_schedule : forall ops : list (qop wmsg),
  buffers_ok ops ->
  let '(s', out, inp) := wq_run wq_init ops in
  (exists rest, inp = out ++ rest) /\
  (forall d p, run_cmds d (wq_cmds wq_init ops) p = spec_disk d (writes_of out) p) /\
  (remaining s' = [] -> out = inp).
Proof. exact writer_executes_a_prefix_of_the_schedule. Qed.
Print Assumptions C01_writer_executes_a_prefix_of_the_schedule.

(* false for the variant that tests "sync due" against all queued writes and clamps to the buffer afterwards *)
Theorem C01_late_clamp_refuted : exists ops,
  buffers_ok ops /\
  let '(s', out, inp) := wq_run_late wq_init ops in
  remaining s' = [] /\ out <> inp /\ inp = [EW 1; EW 2; EW 3; ES]%nat /\ out = [EW 1; EW 2; ES; EW 3]%nat.
Proof. exact late_clamp_refuted. Qed.
Print Assumptions C01_late_clamp_refuted.

(* ---- the fall-back header stays usable: how far a commit may truncate a bounded file (tx.go checkTruncate) ----
   When a commit truncates the file, the new size covers what the new commit needs AND what the previous commit - the
   header that is selected when the new one is damaged or lost - needs. *)
From VF Require Import Truncate TruncateProofs.
Theorem C01_truncate_keeps_both_commits : forall lastEnd sz mmapSz maxSz pageSize e,
  check_truncate lastEnd sz mmapSz maxSz pageSize = (e, true) ->
  (mmapSz <= e /\ lastEnd * pageSize <= e /\ maxSz <= e /\ e < sz /\ 0 < maxSz)%Z.
Proof. exact check_truncate_spec. Qed.
Print Assumptions C01_truncate_keeps_both_commits.

Theorem C01_truncate_clamped_refuted : exists lastEnd sz mmapSz maxSz pageSize e,
  check_truncate_clamped lastEnd sz mmapSz maxSz pageSize = (e, true) /\ (e < lastEnd * pageSize)%Z.
Proof. exact check_truncate_clamped_refuted. Qed.
Print Assumptions C01_truncate_clamped_refuted.

(* ---- the commit protocol itself (Model/Commit.v = tx.go tryCommitChangesToFile / syncNewMeta: page writes of the
   transaction, pages of the new overwrite mapping and of the new free lists (Model/Pages.v), sync, header page into
   the inactive slot (Model/Meta.v), sync, return). For EVERY monitor state between two commits (any pending page
   writes of earlier flushes) and EVERY commit whose page writes stay off the header pages and off the pages the
   committed state can reach (what the allocator theorems of C04 give), whose new chains get fresh distinct page ids
   and whose header names them and carries the next transaction id: the write-discipline monitor ACCEPTS the whole
   sequence - the hypothesis of the crash theorem holds for the model's commits, it is not only sampled on traces -
   and the state it protects afterwards is exactly what the commit serialised: mapping, page ids of both chains, both
   free lists (normalised as readFreeList does), root, transaction id, end markers, meta-area size, maximum size. ---- *)
From VF Require Import Commit CommitProofs Pages Region Meta MetaProofs PagesProofs.
Theorem C01_commit_follows_the_write_discipline : forall fuel (m : mon) ps sched walIds mapping flIds metaL dataL h evs,
  infl m = None ->
  commit_events ps (negb (act m)) sched walIds mapping flIds metaL dataL h = Some evs ->
  Forall (fun w => 2 <= fst w /\ ~ In (fst w) (cfp m)) sched ->
  Forall (fun id => 2 <= id < 2^64 /\ ~ In id (cfp m)) (walIds ++ flIds) ->
  NoDup (walIds ++ flIds) ->
  (forall w, In w (pend m) -> ~ In (fst w) (walIds ++ flIds)) ->
  (forall w, In w sched -> ~ In (fst w) (walIds ++ flIds)) ->
  header_ok h -> h_magic h = magic -> h_version h = version -> h_txid h = nxt_txid (txid m) ->
  h_wal h = hd 0 walIds -> h_freelist h = hd 0 flIds ->
  (walIds = [] -> mapping = []) -> (flIds = [] -> metaL = [] /\ dataL = []) ->
  Forall (fun kv => 0 <= fst kv < 2^56 /\ 0 <= snd kv < 2^56) mapping -> Z.of_nat (length mapping) < 2^32 ->
  Forall valid_region metaL -> Forall valid_region dataL -> Z.of_nat (length metaL + length dataL) < 2^32 ->
  (length walIds <= fuel)%nat -> (length flIds <= fuel)%nat ->
  exists m', mon_run fuel m evs = Some m' /\
    act m' = negb (act m) /\ txid m' = nxt_txid (txid m) /\ infl m' = None /\ pend m' = [] /\
    let st := fst (cst m') in
    r_wal st = mapping /\ r_walpages st = walIds /\ r_flpages st = flIds /\
    r_metaFree st = optimize metaL /\ r_dataFree st = optimize dataL /\
    r_root st = h_root h /\ r_txid st = h_txid h /\ r_dataEnd st = h_dataEnd h /\ r_metaEnd st = h_metaEnd h /\
    r_metaTotal st = h_metaTotal h /\ r_maxSize st = h_maxSize h.
Proof. exact commit_accepted. Qed.
Print Assumptions C01_commit_follows_the_write_discipline.

(* ... composed with the crash theorem: stop the model's commit after ANY number of its disk events, let ANY subset of
   the page writes issued since the last completed sync reach the disk (a torn header counts as invalid): recovery
   returns the state of the previous commit - unchanged until the very last event - or, only once the new header has
   been issued, the complete state of this commit. *)
Theorem C01_commit_is_atomic_at_every_crash_point : forall fuel (m m' : mon) evs,
  MInv fuel m -> mon_run fuel m evs = Some m' ->
  forall pre post, evs = pre ++ post ->
  exists m1, mon_run fuel m pre = Some m1 /\
    (Forall (fun e => e <> CommitOk) pre -> cst m1 = cst m) /\
    forall ws, crashsub cell header hdr_of (pend m1) ws ->
      mon_recover fuel (apply cell ws (dd m1)) = Some (cst m1) \/
      (exists c h v fp, infl m1 = Some (c, h, v, fp) /\ mon_recover fuel (apply cell ws (dd m1)) = Some v).
Proof.
  intros fuel m m' evs Hinv Hrun pre post ->.
  destruct (mon_run_app fuel pre m post m' Hrun) as (m1 & H1 & _).
  exists m1. split; [exact H1|]. split.
  - intros Hne. exact (proj1 (run_keeps_cst fuel pre m m1 Hne H1)).
  - intros ws Hs. exact (crash_atomic_concrete fuel pre m m1 Hinv H1 ws Hs).
Qed.
Print Assumptions C01_commit_is_atomic_at_every_crash_point.

(* non-vacuity: a new file (64-byte pages, header pages with transaction ids 1 and 0, nothing else); a commit that writes
   data page 2, a free-list page 3 holding the free region [4,6), and the header with transaction id 2 into slot 1: the
   monitor accepts the 6 events, afterwards it protects the new state (pages 3, 2) *)
Definition C01_ex_header (tx root fl de me mt : Z) : header :=
  {| h_magic := magic; h_version := version; h_pageSize := 64; h_maxSize := 0; h_flags := 0; h_root := root; h_txid := tx;
     h_freelist := fl; h_wal := 0; h_dataEnd := de; h_metaEnd := me; h_metaTotal := mt; h_checksum := 0 |}.
Definition C01_ex_disk : cdisk := fun p =>
  if p =? 0 then Some (encode_header (C01_ex_header 1 0 0 2 2 0))
  else if p =? 1 then Some (encode_header (C01_ex_header 0 0 0 2 2 0)) else None.
Example C01_ex_commit : exists m evs m',
  mon_init 10 C01_ex_disk = Some m /\ act m = false /\ txid m = 1 /\
  commit_events 64 (negb (act m)) [(2, [7; 7; 7])] [] [] [3] [] [{| rid := 4; rcount := 2 |}] (C01_ex_header 2 2 3 6 6 1) = Some evs /\
  length evs = 6%nat /\ mon_run 10 m evs = Some m' /\
  act m' = true /\ txid m' = 2 /\ r_dataFree (fst (cst m')) = [{| rid := 4; rcount := 2 |}] /\ r_root (fst (cst m')) = 2 /\ cfp m' = [3; 2; 3].
Proof.
  destruct (mon_init 10 C01_ex_disk) as [m|] eqn:Em; [|vm_compute in Em; discriminate].
  destruct (commit_events 64 (negb (act m)) [(2, [7; 7; 7])] [] [] [3] [] [{| rid := 4; rcount := 2 |}] (C01_ex_header 2 2 3 6 6 1)) as [evs|] eqn:Ee.
  2:{ vm_compute in Em. injection Em as <-. vm_compute in Ee. discriminate. }
  destruct (mon_run 10 m evs) as [m'|] eqn:Er.
  2:{ vm_compute in Em. injection Em as <-. vm_compute in Ee. injection Ee as <-. vm_compute in Er. discriminate. }
  exists m, evs, m'. vm_compute in Em. injection Em as <-. vm_compute in Ee. injection Ee as <-. vm_compute in Er. injection Er as <-.
  repeat split.
Qed.
