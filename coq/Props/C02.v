(* C02 -- Snapshot isolation: readers see one committed state, never uncommitted data.
   Lock-level half (for every interleaving of any number of readers and writers); the page-level
   half (a writer never writes a page a reader can reach) is the write discipline (d1) of C01,
   checked on every trace by the extracted monitor. Property theorems only. *)
From VF Require Import Lock LockProofs.

(* while a writer is between Exclusive and the end of its switch no reader is active and none can begin *)
Theorem C02_switch_exclusive : forall c0 c i, init_ok c0 -> reach c0 c -> nth_error (snd c) i = Some W3 ->
  cnt isR1 (snd c) = 0 /\ pending (fst (fst c)) = true.
Proof. exact switch_exclusive. Qed.
Print Assumptions C02_switch_exclusive.

(* an active reader's view is the committed version: it is the version at its Begin and no step of
   any other thread can change the committed version while the reader is active *)
Theorem C02_reader_view_stable : forall c0 c i w, init_ok c0 -> reach c0 c ->
  nth_error (snd c) i = Some (R1 w) -> w = snd (fst c).
Proof. exact reader_view_stable. Qed.
Print Assumptions C02_reader_view_stable.

(* the committed version changes only in the switch step of a successful commit: writes, Flush,
   CheckpointWAL, frees, rollback and failing commits (labels LWWork, LIO, LRollback, LFail, LNoSwitch) never publish *)
Theorem C02_uncommitted_invisible : forall c c',
  step c c' -> snd (fst c') <> snd (fst c) ->
  exists i, nth_error (snd c) i = Some W3 /\ nth_error (snd c') i = Some W4 /\ snd (fst c') = S (snd (fst c)).
Proof. exact version_changes_only_at_switch. Qed.
Print Assumptions C02_uncommitted_invisible.

Example C02_ex : exists c, reach (lk_idle, 0, [R0; W0]) c /\ snd c = [R1 0; W2].
Proof.
  eexists. split.
  - eapply reach_step. eapply reach_step. eapply reach_step. apply reach_refl.
    + eapply (step_i _ _ _ 0 R0); [reflexivity|]. apply r_begin. reflexivity.
    + eapply (step_i _ _ _ 1 W0); [reflexivity|]. apply w_begin. reflexivity.
    + eapply (step_i _ _ _ 1 W1); [reflexivity|]. apply w_pending.
  - reflexivity.
Qed.
