(* C02 -- Snapshot isolation: readers see one committed state, never uncommitted data.
   Lock-level half (for every interleaving of any number of readers and writers); the page-level
   half (a writer never writes a page a reader can reach) is the write discipline (d1) of C01,
   checked on every trace by the extracted monitor. Property theorems only. *)
From VF Require Import Lock LockProofs.

(* while a writer is between Exclusive and the end of its switch no reader is active and none can begin *)
Theorem C02_switch_exclusive : forall c0 c i, init_ok c0 -> reach c0 c -> nth_error (snd c) i = Some W3 ->
  cnt isR1 (snd c) = 0 /\ pending (fst (fst c)) = true.
Proof. exact switch_exclusive. Qed.
Print Assumptions C02_switch_exclusive.

(* an active reader's view is the committed version: it is the version at its Begin and no step of
   any other thread can change the committed version while the reader is active *)
Theorem C02_reader_view_stable : forall c0 c i w, init_ok c0 -> reach c0 c ->
  nth_error (snd c) i = Some (R1 w) -> w = snd (fst c).
Proof. exact reader_view_stable. Qed.
Print Assumptions C02_reader_view_stable.

(* the committed version changes only in the switch step of a successful commit: writes, Flush,
   CheckpointWAL, frees, rollback and failing commits (labels LWWork, LIO, LRollback, LFail, LNoSwitch) never publish *)
Theorem C02_uncommitted_invisible : forall c c',
  step c c' -> snd (fst c') <> snd (fst c) ->
  exists i, nth_error (snd c) i = Some W3 /\ nth_error (snd c') i = Some W4 /\ snd (fst c') = S (snd (fst c)).
Proof. exact version_changes_only_at_switch. Qed.
Print Assumptions C02_uncommitted_invisible.

Example C02_ex : exists c, reach (lk_idle, 0, [R0; W0]) c /\ snd c = [R1 0; W2].
Proof.
  eexists. split.
  - eapply reach_step. eapply reach_step. eapply reach_step. apply reach_refl.
    + eapply (step_i _ _ _ 0 R0); [reflexivity|]. apply r_begin. reflexivity.
    + eapply (step_i _ _ _ 1 W0); [reflexivity|]. apply w_begin. reflexivity.
    + eapply (step_i _ _ _ 1 W1); [reflexivity|]. apply w_pending.
  - reflexivity.
Qed.

(* ---- "whatever a concurrent write transaction does ... rollback": the file under the readers' pages ----
   After the allocator was rolled back a bounded file is truncated (tx.go rollbackChanges). For every state a write
   transaction can reach - allocations from the file end, meta-area growth, an overflow area of its own - the
   truncation leaves every page below the end of the state the transaction started from (= the last commit, which the
   open readers use) inside the file. Truncating to the data end marker instead (seeded change C02j) cuts off a
   committed overflow area. *)
From VF Require Import Alloc Truncate TruncateProofs MetaAllocProofs RollbackTruncProofs.
Theorem C02_rollback_keeps_committed_extent : forall a0 p a t otherEnd sz,
  Inv0 a0 -> treach a0 p a t -> a_end (meta a) - a_end (data a0) < 2^32 -> 0 < pageSize a0 ->
  let r := rollback a t in
  match rollback_truncate (a_end (meta r)) (a_end (data r)) otherEnd sz (pageSize r) (maxPages r) with
  | Some n => n < sz /\ n = Z.max (Z.max (a_end (meta a0)) (a_end (data a0))) otherEnd * pageSize a0 /\
              (forall id, 0 <= id < Z.max (a_end (meta a0)) (a_end (data a0)) -> (id + 1) * pageSize a0 <= n) /\
              (forall id, 0 <= id < otherEnd -> (id + 1) * pageSize a0 <= n)
  | None => True
  end.
Proof. exact rollback_keeps_committed_extent. Qed.
Print Assumptions C02_rollback_keeps_committed_extent.
Theorem C02_rollback_truncate_to_data_end_refuted : exists metaEnd dataEnd sz ps mp n id,
  rollback_truncate_dataend dataEnd sz ps mp = Some n /\ dataEnd <= id < metaEnd /\ n < (id + 1) * ps.
Proof. exact rollback_truncate_dataend_refuted. Qed.
