(* C14 -- Changing the maximum size on open. *)
From VF Require Import Region Freelist Alloc RegionProofs AllocProofs MetaAllocProofs ShrinkProofs ExtentProofs.

(* growing: exactly the additional pages become allocatable *)
Theorem C14_grow_exact : forall a newMax, 0 < maxPages a -> a_end (data a) <= maxPages a -> maxPages a <= newMax ->
  data_avail (with_max a newMax) = data_avail a + (newMax - maxPages a).
Proof. exact grow_exact. Qed.
Print Assumptions C14_grow_exact.

(* a former overflow area (pages behind the data area) is never handed out by the data allocator after the limit
   was raised (D12), and the data end marker never moves back (D20: the first repair of D12 did move it back on a
   file that extends beyond the new limit) *)
Theorem C14_grow_skips_overflow_area : forall oldMax newMax dataEnd metaEnd id,
  0 < oldMax -> oldMax < metaEnd -> (newMax = 0 \/ oldMax < newMax) ->
  dataEnd <= id < metaEnd ->
  let e := grow_data_end oldMax newMax dataEnd metaEnd in
  ~ (e <= id /\ (newMax = 0 \/ id < newMax)).
Proof. exact grow_skips_overflow_area. Qed.
Print Assumptions C14_grow_skips_overflow_area.

Theorem C14_grow_never_lowers_data_end : forall oldMax newMax dataEnd metaEnd,
  dataEnd <= grow_data_end oldMax newMax dataEnd metaEnd.
Proof. exact grow_never_lowers. Qed.
Print Assumptions C14_grow_never_lowers_data_end.

Theorem C14_first_repair_refuted : exists oldMax newMax dataEnd metaEnd,
  0 < oldMax /\ oldMax < newMax /\ dataEnd <= metaEnd /\ grow_data_end_v1 oldMax newMax dataEnd metaEnd < dataEnd.
Proof. exact grow_v1_lowers_refuted. Qed.
Print Assumptions C14_first_repair_refuted.

(* ---- after shrinking: the file extends beyond its limit ---- *)
(* what a commit gives back to the file system is exactly a run of free pages at the end of the file and at or
   beyond the limit: every page in use (in neither free list) stays inside the file, nothing is added to a free
   list, the file never grows and never shrinks below the limit (D18) *)
Theorem C14_commit_keeps_used_pages_in_file :
  forall newData newMeta mx dEnd mEnd lo,
  wfl lo newData -> wfl lo newMeta -> disjoint_l newData newMeta ->
  (forall id, inl id newData -> id < dEnd) -> (forall id, inl id newMeta -> id < mEnd) -> dEnd <= mEnd ->
  forall metaList dataList dEnd2 mEnd2 ovfFreed dataFreedN,
  commit_ends newData newMeta mx dEnd mEnd = (metaList, dataList, dEnd2, mEnd2, ovfFreed, dataFreedN) ->
  let fileEnd := Z.max dEnd2 mEnd2 in
  (forall id, inl id metaList <-> inl id newMeta /\ id < mEnd - ovfFreed) /\
  (forall id, inl id dataList -> inl id newData) /\
  (forall id, inl id newData -> inl id dataList \/ fileEnd <= id) /\
  (forall id, mEnd - ovfFreed <= id < mEnd -> inl id newMeta) /\
  (forall id, id < mEnd -> ~ inl id newData -> ~ inl id newMeta -> id < fileEnd) /\
  (forall id, inl id dataList -> id < dEnd2) /\
  (forall id, inl id metaList -> id < fileEnd) /\
  wfl lo metaList /\ wfl lo dataList /\
  fileEnd <= mEnd /\ (fileEnd < mEnd -> mx <> 0 /\ mx <= fileEnd) /\
  0 <= ovfFreed /\ 0 <= dataFreedN.
Proof. exact commit_ends_spec. Qed.
Print Assumptions C14_commit_keeps_used_pages_in_file.

(* the statement is false of the code before the repair: a used overflow page ended up outside the file *)
Theorem C14_old_commit_refuted : exists newData newMeta mx dEnd mEnd,
  wfl 2 newData /\ wfl 2 newMeta /\ disjoint_l newData newMeta /\
  (forall id, inl id newData -> id < dEnd) /\ (forall id, inl id newMeta -> id < mEnd) /\ dEnd <= mEnd /\
  let '(_, _, dEnd2, mEnd2, _, _) := commit_ends_old newData newMeta mx dEnd mEnd in
  exists id, id < mEnd /\ ~ inl id newData /\ ~ inl id newMeta /\ ~ id < Z.max dEnd2 mEnd2.
Proof. exact commit_ends_old_refuted. Qed.
Print Assumptions C14_old_commit_refuted.

(* on a bounded file the data allocator never moves an end marker beyond the larger of its old value and the
   limit: a file that already extends beyond a lowered limit is not extended any further (D17) *)
Theorem C14_data_alloc_cont_limit : forall a t n r a' t',
  0 < n -> 0 < maxPages a -> data_alloc_cont a t n = (r, a', t') ->
  a_end (data a') <= Z.max (a_end (data a)) (maxPages a) /\
  a_end (meta a') <= Z.max (a_end (meta a)) (maxPages a).
Proof. exact data_alloc_cont_limit. Qed.
Print Assumptions C14_data_alloc_cont_limit.

Theorem C14_data_alloc_regions_limit : forall a t n regs cnt a' t',
  0 < n -> 0 < maxPages a -> 0 <= avail (a_free (data a)) ->
  data_alloc_regions a t n = (regs, cnt, a', t') ->
  a_end (data a') <= Z.max (a_end (data a)) (maxPages a) /\
  a_end (meta a') <= Z.max (a_end (meta a)) (maxPages a).
Proof. exact data_alloc_regions_limit. Qed.
Print Assumptions C14_data_alloc_regions_limit.

Theorem C14_old_area_avail_refuted : exists a,
  0 < maxPages a /\ maxPages a < a_end (data a) /\ 1 <= data_area_avail_old a.
Proof. exact data_area_avail_old_refuted. Qed.
Print Assumptions C14_old_area_avail_refuted.

(* inside ANY write transaction without overflow area - every sequence of allocations, frees, overwrite-page and
   meta page allocations with every growth of the meta area - neither end marker moves beyond the larger of the
   end of the file at the begin of the transaction and the limit; the committed state may already extend beyond
   the limit (Inv0 does not bound the end markers) *)
Theorem C14_extent_in_transaction : forall a0 p a t,
  Inv0 a0 -> 0 < maxPages a0 -> treach a0 p a t ->
  let M := Z.max (a_end (meta a0)) (maxPages a0) in
  (a_end (data a) <= M /\ a_end (meta a) <= M) /\ maxPages a = maxPages a0.
Proof. exact extent_in_tx. Qed.
Print Assumptions C14_extent_in_transaction.

Example C14_ex_shrunk_state : Inv0 shrunk_ex /\ 0 < maxPages shrunk_ex /\ maxPages shrunk_ex < a_end (data shrunk_ex).
Proof. exact shrunk_ex_inv0. Qed.

(* the lock discipline of the init transaction (the max-size update) releases everything: C09 *)
Example C14_ex : grow_data_end 64 1024 64 70 = 70 /\ grow_data_end 64 66 64 70 = 66 /\ grow_data_end 64 0 64 70 = 70 /\ grow_data_end 64 32 64 70 = 64.
Proof. repeat split. Qed.

(* a side finding of a round-13 sub-agent, stated on the model (tie: allocator K1 compares commit_ends with the code):
   when the meta end marker EQUALS the data end marker (the meta area ends at the end of the file) and free meta pages at
   the end of the file are released by a shrinking commit, only the meta end marker is lowered: the released pages stay
   below the data end marker and are in no free list any more - they are lost until the file is rebuilt, and the free
   data region in front of them can no longer be released. No live page is touched and the file does not grow, so none
   of the statements of C14 / C11 (files beyond their limit are outside C11) is violated; recorded, not repaired. *)
From VF Require Import Recover.
Theorem C14_release_at_equal_end_markers_leaks : exists newData newMeta mx dEnd mEnd id,
  let '(ml, dl, dE, mE, _, _) := commit_ends newData newMeta mx dEnd mEnd in
  in_regions id newMeta = true /\ in_regions id ml = false /\ in_regions id dl = false /\ id < Z.max dE mE /\ mx <= id.
Proof.
  exists [{| rid := 60; rcount := 32 |}], [{| rid := 92; rcount := 2 |}], 50, 94, 94, 92.
  vm_compute. repeat split; try reflexivity; discriminate.
Qed.
