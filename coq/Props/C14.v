(* C14 -- Changing the maximum size on open. *)
From VF Require Import Region Freelist Alloc RegionProofs AllocProofs.

(* growing: exactly the additional pages become allocatable *)
Theorem C14_grow_exact : forall a newMax, 0 < maxPages a -> a_end (data a) <= maxPages a -> maxPages a <= newMax ->
  data_avail (with_max a newMax) = data_avail a + (newMax - maxPages a).
Proof. exact grow_exact. Qed.
Print Assumptions C14_grow_exact.

(* a former overflow area is never handed out by the data allocator after the limit was raised (D12) *)
Theorem C14_grow_skips_overflow_area : forall oldMax newMax dataEnd metaEnd id,
  0 < oldMax -> dataEnd <= oldMax -> oldMax < metaEnd -> (newMax = 0 \/ oldMax < newMax) ->
  oldMax <= id < metaEnd ->
  let e := grow_data_end oldMax newMax dataEnd metaEnd in
  ~ (e <= id /\ (newMax = 0 \/ id < newMax)).
Proof. exact grow_skips_overflow_area. Qed.
Print Assumptions C14_grow_skips_overflow_area.

(* the lock discipline of the init transaction (the max-size update) releases everything: C09 *)
Example C14_ex : grow_data_end 64 1024 64 70 = 70 /\ grow_data_end 64 66 64 70 = 66 /\ grow_data_end 64 0 64 70 = 70 /\ grow_data_end 64 32 64 70 = 64.
Proof. repeat split. Qed.
