(* C13 -- Concurrent producer and consumer stay consistent.
   Transaction-granular interleavings (justified by C02/C09: a flush and an ACK are write transactions
   serialised by the file lock, a read is a snapshot): whatever the producer and the acker do after the
   consumer took its snapshot, the i-th event of the snapshot stays the i-th flushed event - the consumer
   receives a prefix of the produced sequence, in order; an accepted ACK only drops the oldest events.
   Data races and deadlocks of the real goroutines are outside the model: two-goroutine stress under
   the race detector (sampling). *)
From VF Require Import PQ PQProofs.

Theorem C13_snapshot_stays_valid : forall q ops i e,
  nth_error (q_flushed q) i = Some e -> nth_error (q_flushed (aq_run q ops)) i = Some e.
Proof. exact snapshot_stays_valid. Qed.
Print Assumptions C13_snapshot_stays_valid.

Theorem C13_produced_only_grows : forall ops q, exists ext, q_flushed (aq_run q ops) = q_flushed q ++ ext.
Proof. exact aq_run_prefix. Qed.

Theorem C13_ack_only_drops_oldest : forall q n, aq_ok q -> (n <= aq_pending q)%nat ->
  aq_contents (aq_step q (AAck n)) = skipn n (aq_contents q) /\
  aq_pending (aq_step q (AAck n)) = (aq_pending q - n)%nat.
Proof. exact aq_ack_drops_oldest. Qed.

Example C13_ex : nth_error (q_flushed (aq_run (aq_run aq_empty [AAppend [5]; AFlush]) [AAppend [6]; AFlush; AAck 1])) 0 = Some [5].
Proof. reflexivity. Qed.
