(* C17 -- Queue counters and callbacks agree with the event history. *)
From VF Require Import PQ PQProofs.
From Coq Require Import Lia.

Theorem C17_counters : forall q, aq_ok q ->
  aq_pending q = (aq_tail_id q - aq_read_id q)%nat /\ length (aq_contents q) = aq_pending q.
Proof. exact aq_counters. Qed.
Print Assumptions C17_counters.

Theorem C17_invariant_for_every_history : forall ops q, aq_ok q -> aq_ok (aq_run q ops).
Proof. exact aq_run_ok. Qed.

(* Pending after any history = flushed - ACKed, where refused ACKs do not count *)
Theorem C17_pending_after_ack : forall q n, aq_ok q -> (n <= aq_pending q)%nat ->
  aq_pending (aq_step q (AAck n)) = (aq_pending q - n)%nat.
Proof. intros q n H1 H2. apply (aq_ack_drops_oldest q n H1 H2). Qed.

Theorem C17_pending_after_flush : forall q,
  aq_pending (aq_step q AFlush) = (aq_pending q + length (q_buffered q))%nat \/ (length (q_flushed q) < q_acked q)%nat.
Proof.
  intros q. unfold aq_pending. cbn. rewrite app_length.
  destruct (Nat.le_gt_cases (q_acked q) (length (q_flushed q))); [left|right]; lia.
Qed.

Example C17_ex : aq_pending (aq_run aq_empty [AAppend [1]; AAppend [2]; AFlush; AAck 5; AAck 1]) = 1%nat.
Proof. reflexivity. Qed.
