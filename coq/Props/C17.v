(* C17 -- Queue counters and callbacks agree with the event history. *)
From VF Require Import PQ PQProofs.
From Coq Require Import Lia.

Theorem C17_counters : forall q, aq_ok q ->
  aq_pending q = (aq_tail_id q - aq_read_id q)%nat /\ length (aq_contents q) = aq_pending q.
Proof. exact aq_counters. Qed.
Print Assumptions C17_counters.

Theorem C17_invariant_for_every_history : forall ops q, aq_ok q -> aq_ok (aq_run q ops).
Proof. exact aq_run_ok. Qed.

(* Pending after any history = flushed - ACKed, where refused ACKs do not count *)
Theorem C17_pending_after_ack : forall q n, aq_ok q -> (n <= aq_pending q)%nat ->
  aq_pending (aq_step q (AAck n)) = (aq_pending q - n)%nat.
Proof. intros q n H1 H2. apply (aq_ack_drops_oldest q n H1 H2). Qed.

Theorem C17_pending_after_flush : forall q,
  aq_pending (aq_step q AFlush) = (aq_pending q + length (q_buffered q))%nat \/ (length (q_flushed q) < q_acked q)%nat.
Proof.
  intros q. unfold aq_pending. cbn. rewrite app_length.
  destruct (Nat.le_gt_cases (q_acked q) (length (q_flushed q))); [left|right]; lia.
Qed.

Example C17_ex : aq_pending (aq_run aq_empty [AAppend [1]; AAppend [2]; AFlush; AAck 5; AAck 1]) = 1%nat.
Proof. reflexivity. Qed.

(* ---- what the Flushed callback reports, on the writer model (Model/PQWriter.v; Proofs/PQWriterCountProofs.v). flushBuffer
   invokes the callback with the number of events completed since the last successful flush whenever doFlush does not
   fail - also when it found nothing to write. For EVERY run of Write / Next / Flush calls and every flush outcome,
   followed by a Next or Flush whose flush does not fail: the callbacks reported so far add up to exactly the number of
   completed events, nothing is left to report, and exactly these events are what the reader's parser finds in the page
   payloads as written to the file. The case "nothing to write" needs an invariant of the buffer (the open header lives
   in the first or second buffer page, or the head page is dirty): a clean head page means everything is written. ---- *)
From VF Require Import PQWriter PQWriterProofs PQWriterCountProofs.
Theorem C17_flushed_callbacks_report_the_published_events : forall PS, (hdr_len <= payload PS)%nat ->
  forall pages tail endId root ops o,
  match tail with Some t => (length (wp_data t) <= payload PS)%nat /\ wp_dirty t = false /\ wp_disk t = Some (wp_data t) | None => True end ->
  let base := match tail with Some t => wp_data t | None => [] end in
  let '(s1, rs) := w_run PS (w_init PS pages tail endId root) ops in
  let '(s2, r) := w_step PS s1 o in
  let '(done, cur) := spec_step (spec_run ([], []) ops rs) o r in
  match o, r with
  | WNext _, WOk (Some _) | WFlush _, WOk (Some _) =>
      (cb_total rs + cb_of r = Z.of_nat (length done))%Z /\ ws_active s2 = 0%Z /\
      (Forall (fun e => Z.of_nat (length e) < 256 ^ Z.of_nat hdr_len)%Z done ->
       exists i off, b_hdr (ws_buf s2) = Some (i, off) /\
         parse_from (payload PS) (flat (payload PS) (map disk_data (cores (ws_hist s2 ++ firstn (S i) (b_pages (ws_buf s2))))))
                    (length base) (length done) = Some done)
  | _, _ => True
  end.
Proof. exact flushed_callbacks_report_the_published_events. Qed.
Print Assumptions C17_flushed_callbacks_report_the_published_events.

(* the tail id a successful flush stores in the queue root is the id of the next event to be written, i.e. the first id of
   the session plus the number of completed events: Pending = tail id - read id counts exactly the published events *)
From VF Require Import PQWriterHeaderProofs.
Theorem C17_persisted_tail_id_counts_the_published_events : forall PS, (hdr_len <= payload PS)%nat ->
  forall pages tail endId root ops o,
  match tail with Some t => (length (wp_data t) <= payload PS)%nat | None => True end ->
  let '(s1, rs) := w_run PS (w_init PS pages tail endId root) ops in
  let '(s2, r) := w_step PS s1 o in
  let '(done, cur) := spec_step (spec_run ([], []) ops rs) o r in
  match o, r with
  | WNext _, WOk (Some (FDone _ _ _, _)) | WFlush _, WOk (Some (FDone _ _ _, _)) =>
      snd (q_tail (ws_root s2)) = (endId + Z.of_nat (length done))%Z
  | _, _ => True
  end.
Proof.
  intros PS HP pages tail endId root ops o Ht.
  pose proof (w_run_SI PS HP ops _ _ [] [] (w_init_SI PS HP pages tail endId root Ht)) as HS.
  pose proof (w_run_HInv PS HP ops _ endId _ [] [] (w_init_SI PS HP pages tail endId root Ht) (w_init_HInv PS HP pages tail endId root)) as HI.
  destruct (w_run PS (w_init PS pages tail endId root) ops) as [s1 rs].
  destruct (spec_run ([], []) ops rs) as [done1 cur1].
  destruct o as [d fo|fo|fo].
  - destruct (w_step PS s1 (WWrite d fo)) as [s2 r]. destruct (spec_step (done1, cur1) (WWrite d fo) r). exact I.
  - pose proof (w_step_HInv PS HP s1 (WNext fo) endId _ done1 cur1 HS HI) as HI2.
    destruct (w_step PS s1 (WNext fo)) as [s2 r] eqn:E.
    destruct (spec_step (done1, cur1) (WNext fo) r) as [done cur].
    destruct r as [[[fr cb]|]|]; try exact I. pose proof (w_step_tail_id PS s1 (WNext fo) s2 fr cb E) as HT.
    destruct fr; try exact I. etransitivity; [exact HT|]. exact (hi_id PS s2 endId _ done HI2).
  - pose proof (w_step_HInv PS HP s1 (WFlush fo) endId _ done1 cur1 HS HI) as HI2.
    destruct (w_step PS s1 (WFlush fo)) as [s2 r] eqn:E.
    destruct (spec_step (done1, cur1) (WFlush fo) r) as [done cur].
    destruct r as [[[fr cb]|]|]; try exact I. pose proof (w_step_tail_id PS s1 (WFlush fo) s2 fr cb E) as HT.
    destruct fr; try exact I. etransitivity; [exact HT|]. exact (hi_id PS s2 endId _ done HI2).
Qed.
Print Assumptions C17_persisted_tail_id_counts_the_published_events.
