(* C07 -- Rollback, Close without Commit and failed Commit leave no trace.
   Proved here: the set semantics of the allocator rollback per allocation area (after the repair of
   D9/D6 nothing at or beyond the restored end marker stays in a free list; exactly the pages the
   transaction took from the free list return). The committed view cannot change without the switch
   step (C02_uncommitted_invisible). The exact equality rollback(run_tx a body) = a for every body
   (rollback_exact) is NOT proved in Coq yet; it is decided on the implementation by twin executions
   and on the model by the allocator scripts (both compare the complete allocator state). *)
From VF Require Import Region Freelist Alloc RegionProofs AllocProofs.

Theorem C07_area_rollback : forall ar x,
  wff 2 (a_free ar) -> below (a_free ar) (a_end ar) ->
  sorted_from 2 (t_allocated x) -> 2 <= t_end x ->
  a_end ar - t_end x < 2^32 ->
  (forall id, In id (t_allocated x) -> ~ inl id (fregions (a_free ar))) ->
  let ar' := area_rollback ar x in
  a_end ar' = t_end x /\ wff 2 (a_free ar') /\
  (forall id, inl id (fregions (a_free ar')) <->
      id < t_end x /\ (inl id (fregions (a_free ar)) \/ In id (t_allocated x))) /\
  below (a_free ar') (a_end ar').
Proof. exact area_rollback_spec. Qed.
Print Assumptions C07_area_rollback.

(* full statement, kept visible; see the header comment *)
Definition C07_rollback_exact_full : Prop :=
  forall (a : allocst) (ovf : bool) (pct n : Z),
    DataInv a -> 0 < n < 2^32 ->
    let t := make_tx a ovf pct in
    let '(_, _, a1, t1) := data_alloc_regions a t n in
    data (rollback a1 t1) = data a.

(* the instance of it for an allocation from the end of the data area of an allocator without free list *)
Definition ex_a : allocst :=
  {| maxPages := 64; pageSize := 1024; meta := {| a_end := 6; a_free := fl_empty |}; metaTotal := 0;
     data := {| a_end := 6; a_free := fl_empty |}; flRoot := 0; flPages := [] |}.
Example C07_ex_rollback_exact :
  let t := make_tx ex_a false 0 in
  let '(_, _, a1, t1) := data_alloc_regions ex_a t 5 in
  match data_free a1 t1 7 with
  | Some (a2, t2) => rollback a2 t2 = ex_a
  | None => False
  end.
Proof. vm_compute. reflexivity. Qed.
