(* C07 -- Rollback, Close without Commit and failed Commit leave no trace.
   Proved here: the set semantics of the allocator rollback per allocation area (after the repair of
   D9/D6 nothing at or beyond the restored end marker stays in a free list; exactly the pages the
   transaction took from the free list return). The committed view cannot change without the switch
   step (C02_uncommitted_invisible). rollback_exact: for every sequence of data allocations and frees the
   rollback restores the allocator exactly (as a set of free pages + all markers and counters). *)
From VF Require Import Region Freelist Alloc RegionProofs AllocProofs TxAllocProofs.

Theorem C07_area_rollback : forall ar x,
  wff 2 (a_free ar) -> below (a_free ar) (a_end ar) ->
  sorted_from 2 (t_allocated x) -> 2 <= t_end x ->
  a_end ar - t_end x < 2^32 ->
  (forall id, In id (t_allocated x) -> id < t_end x -> ~ inl id (fregions (a_free ar))) ->
  let ar' := area_rollback ar x in
  a_end ar' = t_end x /\ wff 2 (a_free ar') /\
  (forall id, inl id (fregions (a_free ar')) <->
      id < t_end x /\ (inl id (fregions (a_free ar)) \/ In id (t_allocated x))) /\
  below (a_free ar') (a_end ar').
Proof. exact area_rollback_spec. Qed.
Print Assumptions C07_area_rollback.

(* Rollback after ANY sequence of Tx.Alloc/AllocN and Tx.Free steps (dreach: the inductive set of states a
   data transaction can reach; Free only of pages in use) restores the allocator: all fields outside the
   data area identical, the data end marker of the begin of the transaction, and a well-formed data free
   list holding exactly the same pages (same id set, same count). The only size assumption is the one of
   the source (the region removed at rollback has a 32 bit count). *)
Theorem C07_rollback_exact : forall a0 w p a t,
  DataInv a0 -> MetaInv a0 -> dreach a0 w p a t -> a_end (data a) - a_end (data a0) < 2^32 ->
  let r := rollback a t in
  maxPages r = maxPages a0 /\ pageSize r = pageSize a0 /\ meta r = meta a0 /\ metaTotal r = metaTotal a0 /\
  flRoot r = flRoot a0 /\ flPages r = flPages a0 /\
  a_end (data r) = a_end (data a0) /\ wff 2 (a_free (data r)) /\
  (forall id, inl id (fregions (a_free (data r))) <-> inl id (fregions (a_free (data a0)))) /\
  avail (a_free (data r)) = avail (a_free (data a0)).
Proof. exact rollback_exact. Qed.
Print Assumptions C07_rollback_exact.

(* the invariant behind it, for every reachable state of a data transaction *)
Theorem C07_tx_invariant : forall a0 w p a t, DataInv a0 -> dreach a0 w p a t -> TxInv a0 a t.
Proof. exact dreach_inv. Qed.

(* NOT proved yet: the same statement for transactions that also allocate meta pages (overwrite pages,
   free-list pages: Ensure/tryGrow/transferToMeta); decided by twin executions on the implementation and
   by the allocator scripts on the model. *)

(* the instance of it for an allocation from the end of the data area of an allocator without free list *)
Definition ex_a : allocst :=
  {| maxPages := 64; pageSize := 1024; meta := {| a_end := 6; a_free := fl_empty |}; metaTotal := 0;
     data := {| a_end := 6; a_free := fl_empty |}; flRoot := 0; flPages := [] |}.
Example C07_ex_rollback_exact :
  let t := make_tx ex_a false 0 in
  let '(_, _, a1, t1) := data_alloc_regions ex_a t 5 in
  match data_free a1 t1 7 with
  | Some (a2, t2) => rollback a2 t2 = ex_a
  | None => False
  end.
Proof. vm_compute. reflexivity. Qed.

(* the premises of C07_rollback_exact are satisfiable, and the example history is a dreach history *)
Example C07_ex_premises : DataInv ex_a /\ MetaInv ex_a.
Proof.
  split; constructor; cbn.
  - split; [constructor | reflexivity].
  - intros id H. destruct (inl_nil _ H).
  - discriminate.
  - split; [constructor | reflexivity].
  - intros id H. destruct (inl_nil _ H).
Qed.
Example C07_ex_reach : exists a t, dreach ex_a false 0 a t /\ a_end (data a) = 11.
Proof.
  destruct (data_alloc_regions ex_a (make_tx ex_a false 0) 5) as [[[regs cnt] a1] t1] eqn:E.
  exists a1, t1. split.
  - eapply dr_alloc; [apply dr_init | | exact E]. split; reflexivity.
  - vm_compute in E. injection E as _ _ <- _. reflexivity.
Qed.
