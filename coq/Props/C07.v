(* C07 -- Rollback, Close without Commit and failed Commit leave no trace.
   Proved here: the set semantics of the allocator rollback per allocation area (after the repair of
   D9/D6 nothing at or beyond the restored end marker stays in a free list; exactly the pages the
   transaction took from the free list return). The committed view cannot change without the switch
   step (C02_uncommitted_invisible). rollback_exact: for every sequence of data allocations and frees the
   rollback restores the allocator exactly (as a set of free pages + all markers and counters). *)
From VF Require Import Region Freelist Alloc RegionProofs AllocProofs TxAllocProofs MetaAllocProofs OverflowProofs HistoryProofs CommitFailProofs.
From Coq Require Import Lia.

Theorem C07_area_rollback : forall ar x,
  wff 2 (a_free ar) -> below (a_free ar) (a_end ar) ->
  sorted_from 2 (t_allocated x) -> 2 <= t_end x ->
  a_end ar - t_end x < 2^32 ->
  (forall id, In id (t_allocated x) -> id < t_end x -> ~ inl id (fregions (a_free ar))) ->
  let ar' := area_rollback ar x in
  a_end ar' = t_end x /\ wff 2 (a_free ar') /\
  (forall id, inl id (fregions (a_free ar')) <->
      id < t_end x /\ (inl id (fregions (a_free ar)) \/ In id (t_allocated x))) /\
  below (a_free ar') (a_end ar').
Proof. exact area_rollback_spec. Qed.
Print Assumptions C07_area_rollback.

(* Rollback after ANY sequence of Tx.Alloc/AllocN and Tx.Free steps (dreach: the inductive set of states a
   data transaction can reach; Free only of pages in use) restores the allocator: all fields outside the
   data area identical, the data end marker of the begin of the transaction, and a well-formed data free
   list holding exactly the same pages (same id set, same count). The only size assumption is the one of
   the source (the region removed at rollback has a 32 bit count). *)
Theorem C07_rollback_exact : forall a0 w p a t,
  DataInv a0 -> MetaInv a0 -> dreach a0 w p a t -> a_end (data a) - a_end (data a0) < 2^32 ->
  let r := rollback a t in
  maxPages r = maxPages a0 /\ pageSize r = pageSize a0 /\ meta r = meta a0 /\ metaTotal r = metaTotal a0 /\
  flRoot r = flRoot a0 /\ flPages r = flPages a0 /\
  a_end (data r) = a_end (data a0) /\ wff 2 (a_free (data r)) /\
  (forall id, inl id (fregions (a_free (data r))) <-> inl id (fregions (a_free (data a0)))) /\
  avail (a_free (data r)) = avail (a_free (data a0)).
Proof. exact rollback_exact. Qed.
Print Assumptions C07_rollback_exact.

(* the invariant behind it, for every reachable state of a data transaction *)
Theorem C07_tx_invariant : forall a0 w p a t, DataInv a0 -> dreach a0 w p a t -> TxInv a0 a t.
Proof. exact dreach_inv. Qed.

(* The same for transactions that also allocate overwrite pages and meta pages (free-list / mapping pages),
   including every growth of the meta area this causes (Ensure / tryGrow / transferToMeta), without overflow
   area. treach: the inductive set of states reachable by Tx.Alloc/AllocN, Tx.Free (of a data page in use),
   overwrite-page allocation, meta page allocation and meta frees, in any order. Size assumptions: the meta
   area stays below 2^28 pages, the file grows by less than 2^32 pages inside one transaction. *)
Theorem C07_rollback_exact_full : forall a0 p a t,
  Inv0 a0 -> treach a0 p a t -> a_end (meta a) - a_end (data a0) < 2^32 ->
  let r := rollback a t in
  maxPages r = maxPages a0 /\ pageSize r = pageSize a0 /\ flRoot r = flRoot a0 /\ flPages r = flPages a0 /\
  metaTotal r = metaTotal a0 /\
  a_end (meta r) = a_end (meta a0) /\ wff 2 (a_free (meta r)) /\
  (forall id, inl id (fregions (a_free (meta r))) <-> inl id (fregions (a_free (meta a0)))) /\
  avail (a_free (meta r)) = avail (a_free (meta a0)) /\
  a_end (data r) = a_end (data a0) /\ wff 2 (a_free (data r)) /\
  (forall id, inl id (fregions (a_free (data r))) <-> inl id (fregions (a_free (data a0)))) /\
  avail (a_free (data r)) = avail (a_free (data a0)).
Proof. exact rollback_exact_full. Qed.
Print Assumptions C07_rollback_exact_full.

(* NOT covered by a theorem: transactions with EnableOverflowArea on a full bounded file (meta pages past
   the size limit); decided by twin executions on the implementation and by the allocator scripts. *)

(* the instance of it for an allocation from the end of the data area of an allocator without free list *)
Definition ex_a : allocst :=
  {| maxPages := 64; pageSize := 1024; meta := {| a_end := 6; a_free := fl_empty |}; metaTotal := 0;
     data := {| a_end := 6; a_free := fl_empty |}; flRoot := 0; flPages := [] |}.
Example C07_ex_rollback_exact :
  let t := make_tx ex_a false 0 in
  let '(_, _, a1, t1) := data_alloc_regions ex_a t 5 in
  match data_free a1 t1 7 with
  | Some (a2, t2) => rollback a2 t2 = ex_a
  | None => False
  end.
Proof. vm_compute. reflexivity. Qed.

(* the premises of C07_rollback_exact are satisfiable, and the example history is a dreach history *)
Example C07_ex_premises : DataInv ex_a /\ MetaInv ex_a.
Proof.
  split; constructor; cbn.
  - split; [constructor | reflexivity].
  - intros id H. destruct (inl_nil _ H).
  - discriminate.
  - split; [constructor | reflexivity].
  - intros id H. destruct (inl_nil _ H).
Qed.
Example C07_ex_reach : exists a t, dreach ex_a false 0 a t /\ a_end (data a) = 11.
Proof.
  destruct (data_alloc_regions ex_a (make_tx ex_a false 0) 5) as [[[regs cnt] a1] t1] eqn:E.
  exists a1, t1. split.
  - eapply dr_alloc; [apply dr_init | | exact E]. split; reflexivity.
  - vm_compute in E. injection E as _ _ <- _. reflexivity.
Qed.

(* non-vacuity of C07_rollback_exact_full: a file without meta area; allocating one overwrite page grows the
   meta area out of the data area (pages move), then a data allocation; the history is a treach history, the
   premises hold, and the rollback gives back the initial allocator *)
Definition ex_b : allocst :=
  {| maxPages := 64; pageSize := 1024; meta := {| a_end := 6; a_free := fl_empty |}; metaTotal := 0;
     data := {| a_end := 6; a_free := {| avail := 2; fregions := [{| rid := 3; rcount := 2 |}] |} |}; flRoot := 0; flPages := [] |}.
Example C07_ex_inv0 : Inv0 ex_b.
Proof.
  constructor; cbn.
  - constructor; cbn.
    + split; [constructor; cbn; [lia | lia | constructor] | reflexivity].
    + intros id H. apply inl_cons in H as [H|H]; [unfold inr, rend in H; cbn in H; lia | destruct (inl_nil _ H)].
    + lia.
  - split; [constructor | reflexivity].
  - lia.
  - intros id H. destruct (inl_nil _ H).
Qed.
Example C07_ex_treach : exists id a t, treach ex_b 0 a t /\ id <> 0 /\ moveToMeta t <> [] /\ rollback a t = ex_b.
Proof.
  destruct (wal_alloc ex_b (make_tx ex_b false 0)) as [[[id a1] t1]|] eqn:E; [|vm_compute in E; discriminate].
  destruct (data_alloc_regions a1 t1 3) as [[[regs cnt] a2] t2] eqn:E2.
  exists id, a2, t2. split.
  - eapply tr_alloc; [eapply tr_wal; [apply tr_init | | exact E] | | exact E2].
    + vm_compute. reflexivity.
    + split; reflexivity.
  - vm_compute in E. injection E as <- <- <-. vm_compute in E2. injection E2 as _ _ <- <-.
    split; [discriminate|]. split; [discriminate|]. vm_compute. reflexivity.
Qed.

(* ---- pages: whatever an aborted transaction has already flushed or checkpointed (Model/TxCore.v), a reader of
   the committed state reads every page that existed before exactly as before: the scheduled writes only go to
   pages the transaction allocated itself, to fresh overwrite pages, or to the original location of pages whose
   committed contents live in an overwrite page ---- *)
(* a transaction with the overflow area enabled that made the meta area grow beyond the end of the file (taking
   everything the data area had left, and fresh pages behind the limit) and is rolled back leaves the allocator
   as it found it (the repair of D6/D9: the growth of the meta-area size and the pages at/after the restored end
   marker are undone) *)
Theorem C07_rollback_after_overflow_growth : forall a0 p count ok a t,
  DataInv a0 -> wff 2 (a_free (meta a0)) ->
  (forall id, inl id (fregions (a_free (meta a0))) ->
     ~ inl id (fregions (a_free (data a0))) /\ id < a_end (meta a0) /\ (id < a_end (data a0) \/ maxPages a0 <= id)) ->
  a_end (data a0) <= a_end (meta a0) ->
  0 < maxPages a0 -> 0 < count < 2^32 -> data_avail a0 < count ->
  Z.max (a_end (meta a0)) (maxPages a0) + count - a_end (data a0) < 2^32 ->
  try_grow a0 (make_tx a0 true p) count true = (ok, a, t) ->
  let r := rollback a t in
  maxPages r = maxPages a0 /\ pageSize r = pageSize a0 /\ flRoot r = flRoot a0 /\ flPages r = flPages a0 /\
  metaTotal r = metaTotal a0 /\
  a_end (meta r) = a_end (meta a0) /\ wff 2 (a_free (meta r)) /\
  (forall id, inl id (fregions (a_free (meta r))) <-> inl id (fregions (a_free (meta a0)))) /\
  avail (a_free (meta r)) = avail (a_free (meta a0)) /\
  a_end (data r) = a_end (data a0) /\ wff 2 (a_free (data r)) /\
  (forall id, inl id (fregions (a_free (data r))) <-> inl id (fregions (a_free (data a0)))) /\
  avail (a_free (data r)) = avail (a_free (data a0)).
Proof. exact rollback_after_overflow_growth. Qed.
Print Assumptions C07_rollback_after_overflow_growth.

(* "Commit returning an error": a commit that fails after its allocation step (fileCommitPrepare, release of the
   old free-list pages, fileCommitAlloc have run) and is rolled back leaves nothing of the commit preparation in the
   allocator, for every state a transaction can reach *)
Theorem C07_failed_commit_exact : forall a0 p a t extra r,
  Inv0 a0 -> treach a0 p a t -> metaTotal a < 2^28 ->
  commit_n a (if tx_updated t then meta_free_regions t (flPages a) else t) < 2^28 ->
  (forall a' t', treach a0 p a' t' -> a_end (meta a') - a_end (data a0) < 2^32) ->
  commit_fail_step a t extra = CoOk r ->
  maxPages r = maxPages a0 /\ pageSize r = pageSize a0 /\ flRoot r = flRoot a0 /\ flPages r = flPages a0 /\
  metaTotal r = metaTotal a0 /\
  a_end (meta r) = a_end (meta a0) /\ wff 2 (a_free (meta r)) /\
  (forall id, inl id (fregions (a_free (meta r))) <-> inl id (fregions (a_free (meta a0)))) /\
  avail (a_free (meta r)) = avail (a_free (meta a0)) /\
  a_end (data r) = a_end (data a0) /\ wff 2 (a_free (data r)) /\
  (forall id, inl id (fregions (a_free (data r))) <-> inl id (fregions (a_free (data a0)))) /\
  avail (a_free (data r)) = avail (a_free (data a0)).
Proof. exact commit_fail_exact. Qed.
Print Assumptions C07_failed_commit_exact.

From VF Require Import TxCore TxCoreProofs.
Theorem C07_aborted_tx_invisible : forall (V : Type) (s : fstate V) (fresh0 : list Z),
  WF V s fresh0 -> forall ops id,
  let t := tx_run V s (tx_begin V fresh0) ops in
  (forall p, In p (t_new V t) -> ~ In p (map snd (f_wal V s))) ->
  data_id V s fresh0 id -> ~ In id (t_new V t) ->
  f_read V {| f_disk := apply_writes V (f_disk V s) (t_sched V t); f_wal := f_wal V s |} id = f_read V s id.
Proof. exact aborted_tx_invisible. Qed.
Print Assumptions C07_aborted_tx_invisible.

(* the file itself after an aborted transaction on a bounded file: truncated to the end of the state the
   transaction started from, or of the state of the other header page if that is larger *)
From VF Require Import Truncate TruncateProofs.
Theorem C07_rollback_truncates_to_the_committed_end : forall metaEnd dataEnd otherEnd sz ps mp n,
  0 < ps -> rollback_truncate metaEnd dataEnd otherEnd sz ps mp = Some n ->
  n < sz /\ n = Z.max (Z.max metaEnd dataEnd) otherEnd * ps /\
  (forall id, 0 <= id < Z.max metaEnd dataEnd -> (id + 1) * ps <= n) /\
  (forall id, 0 <= id < otherEnd -> (id + 1) * ps <= n).
Proof. exact rollback_truncate_spec. Qed.
