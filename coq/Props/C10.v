(* C10 -- Close and reopen is lossless: the serialised forms decode to what was encoded. *)
From VF Require Import Region Freelist RegionProofs CodecProofs Meta MetaProofs BytesProofs.

(* free-list entries: every region with 1 <= count < 2^32 (short form, and the 12-byte form from 255
   pages on) and 0 <= id < 2^55 *)
Theorem C10_region_roundtrip : forall isMeta r rest,
  1 <= rcount r < 2^32 -> 0 <= rid r < 2^55 ->
  decode_region (encode_region isMeta r ++ rest) = (isMeta, r, region_enc_size r) /\
  Z.of_nat (length (encode_region isMeta r)) = region_enc_size r.
Proof. exact region_roundtrip. Qed.
Print Assumptions C10_region_roundtrip.

(* the file header *)
Theorem C10_header_roundtrip : forall h, header_ok h ->
  let h' := decode_header (encode_header h) in
  h_magic h' = h_magic h /\ h_version h' = h_version h /\ h_pageSize h' = h_pageSize h /\
  h_maxSize h' = h_maxSize h /\ h_flags h' = h_flags h /\ h_root h' = h_root h /\
  h_txid h' = h_txid h /\ h_freelist h' = h_freelist h /\ h_wal h' = h_wal h /\
  h_dataEnd h' = h_dataEnd h /\ h_metaEnd h' = h_metaEnd h /\ h_metaTotal h' = h_metaTotal h.
Proof. exact header_roundtrip. Qed.

Theorem C10_le_roundtrip : forall n v, 0 <= v < 256 ^ (Z.of_nat n) -> le_decode (le_encode n v) = v.
Proof. exact le_decode_encode. Qed.

(* normal form: the lists rebuilt on open (sort + MergeAdjacent of what was read) describe the same
   page sets with the same page counts as the lists that were written *)
Theorem C10_merge_adjacent_same_set : forall l lo, wfl lo l ->
  wfl lo (merge_adjacent l) /\ (forall id, inl id (merge_adjacent l) <-> inl id l) /\
  count_pages (merge_adjacent l) = count_pages l.
Proof. exact merge_adjacent_spec. Qed.
Theorem C10_sort_is_identity_on_sorted : forall l lo, wfl lo l -> sort_regions l = l.
Proof. exact sort_regions_sorted. Qed.
Theorem C10_idlist_regions : forall s lo, sorted_from lo s ->
  wfl lo (ids_regions s) /\ (forall id, inl id (ids_regions s) <-> In id s) /\
  count_pages (ids_regions s) = Z.of_nat (length s).
Proof. exact ids_regions_spec. Qed.
Print Assumptions C10_idlist_regions.

Example C10_ex : decode_region (encode_region true {| rid := 123456789; rcount := 255 |} ++ [1;2;3]) =
                 (true, {| rid := 123456789; rcount := 255 |}, 12).
Proof. vm_compute. reflexivity. Qed.
