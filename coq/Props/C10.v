(* C10 -- Close and reopen is lossless: the serialised forms decode to what was encoded. *)
From VF Require Import Region Freelist RegionProofs CodecProofs Meta MetaProofs BytesProofs Pages PagesProofs.

(* free-list entries: every region with 1 <= count < 2^32 (short form, and the 12-byte form from 255
   pages on) and 0 <= id < 2^55 *)
Theorem C10_region_roundtrip : forall isMeta r rest,
  1 <= rcount r < 2^32 -> 0 <= rid r < 2^55 ->
  decode_region (encode_region isMeta r ++ rest) = (isMeta, r, region_enc_size r) /\
  Z.of_nat (length (encode_region isMeta r)) = region_enc_size r.
Proof. exact region_roundtrip. Qed.
Print Assumptions C10_region_roundtrip.

(* the file header *)
Theorem C10_header_roundtrip : forall h, header_ok h ->
  let h' := decode_header (encode_header h) in
  h_magic h' = h_magic h /\ h_version h' = h_version h /\ h_pageSize h' = h_pageSize h /\
  h_maxSize h' = h_maxSize h /\ h_flags h' = h_flags h /\ h_root h' = h_root h /\
  h_txid h' = h_txid h /\ h_freelist h' = h_freelist h /\ h_wal h' = h_wal h /\
  h_dataEnd h' = h_dataEnd h /\ h_metaEnd h' = h_metaEnd h /\ h_metaTotal h' = h_metaTotal h.
Proof. exact header_roundtrip. Qed.

Theorem C10_le_roundtrip : forall n v, 0 <= v < 256 ^ (Z.of_nat n) -> le_decode (le_encode n v) = v.
Proof. exact le_decode_encode. Qed.

(* the linked meta pages: what the paging writer wrote (any number of pages, entries never straddling a page,
   pre-allocated pages that stay empty) is what the open path reads back - the same chain of page ids and
   the same entries in the same order; for every disk that holds the written pages *)
Theorem C10_freelist_pages_roundtrip : forall ps ids metaList dataList pages d fuel,
  ids <> [] -> Forall (fun id => 0 < id < 2^64) ids ->
  Forall valid_region metaList -> Forall valid_region dataList ->
  Z.of_nat (length metaList + length dataList) < 2^32 ->
  write_freelists ps ids metaList dataList = Some pages ->
  (forall id pg, In (id, pg) pages -> d id = Some pg) -> (length ids <= fuel)%nat ->
  read_freelist fuel d (hd 0 ids) = Some (ids, map (pair true) metaList ++ map (pair false) dataList).
Proof. exact freelist_pages_roundtrip. Qed.
Print Assumptions C10_freelist_pages_roundtrip.

Theorem C10_mapping_pages_roundtrip : forall ps ids mapping pages d fuel,
  ids <> [] -> Forall (fun id => 0 < id < 2^64) ids ->
  Forall (fun kv => 0 <= fst kv < 2^56 /\ 0 <= snd kv < 2^56) mapping ->
  Z.of_nat (length mapping) < 2^32 ->
  write_wal ps ids mapping = Some pages ->
  (forall id pg, In (id, pg) pages -> d id = Some pg) -> (length ids <= fuel)%nat ->
  read_wal fuel d (hd 0 ids) = Some (ids, mapping).
Proof. exact wal_pages_roundtrip. Qed.
Print Assumptions C10_mapping_pages_roundtrip.

(* normal form: the lists rebuilt on open (sort + MergeAdjacent of what was read) describe the same
   page sets with the same page counts as the lists that were written *)
Theorem C10_merge_adjacent_same_set : forall l lo, wfl lo l ->
  wfl lo (merge_adjacent l) /\ (forall id, inl id (merge_adjacent l) <-> inl id l) /\
  count_pages (merge_adjacent l) = count_pages l.
Proof. exact merge_adjacent_spec. Qed.
Theorem C10_sort_is_identity_on_sorted : forall l lo, wfl lo l -> sort_regions l = l.
Proof. exact sort_regions_sorted. Qed.
Theorem C10_idlist_regions : forall s lo, sorted_from lo s ->
  wfl lo (ids_regions s) /\ (forall id, inl id (ids_regions s) <-> In id s) /\
  count_pages (ids_regions s) = Z.of_nat (length s).
Proof. exact ids_regions_spec. Qed.
Print Assumptions C10_idlist_regions.

Example C10_ex : decode_region (encode_region true {| rid := 123456789; rcount := 255 |} ++ [1;2;3]) =
                 (true, {| rid := 123456789; rcount := 255 |}, 12).
Proof. vm_compute. reflexivity. Qed.

(* non-vacuity of the page round trip: 48-byte pages (36 bytes of payload), two regions need two pages *)
Definition ex_pages := write_freelists 48 [5; 9; 11] [{| rid := 3; rcount := 2 |}] [{| rid := 7; rcount := 1 |}; {| rid := 20; rcount := 300 |}; {| rid := 400; rcount := 2 |}].
Definition ex_disk (pages : list (Z * page)) : pdisk :=
  fun id => match find (fun p => fst p =? id) pages with Some (_, pg) => Some pg | None => None end.
Example C10_ex_pages : match ex_pages with
  | Some pages => map fst pages = [5; 9; 11] /\
      read_freelist 3 (ex_disk pages) 5 =
        Some ([5; 9; 11], [(true, {| rid := 3; rcount := 2 |}); (false, {| rid := 7; rcount := 1 |});
                           (false, {| rid := 20; rcount := 300 |}); (false, {| rid := 400; rcount := 2 |})])
  | None => False end.
Proof. vm_compute. split; reflexivity. Qed.
