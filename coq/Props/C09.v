(* C09 -- Transaction locking is safe and live: one writer, no stuck locks, no deadlock.
   Configurations: (lock, committed version, list of thread program counters); any number of
   reader / writer / init-transaction / closer threads; one step = one atomic section of one thread
   (Model/Lock.v thread_step). Property theorems only. *)
From VF Require Import Lock LockProofs.

Theorem C09_one_writer : forall c0 c, init_ok c0 -> reach c0 c -> cnt isW (snd c) <= 1.
Proof. exact one_writer. Qed.
Print Assumptions C09_one_writer.

(* readers run concurrently with a writer: BeginReadonly is enabled exactly when no commit holds Pending *)
Theorem C09_readers_with_writer : forall l v, (exists r, thread_step l v R0 LBegin = Some r) <-> pending l = false.
Proof. exact reader_enabled_iff. Qed.

(* every way a transaction / init transaction / File.Close ends leaves nothing acquired: when all
   threads are done or not yet started the lock is idle, hence Begin, BeginReadonly, Close are enabled *)
Theorem C09_idle_when_quiescent : forall c0 c, init_ok c0 -> reach c0 c ->
  Forall (fun p => isDone p = true \/ isInit p = true) (snd c) ->
  fst (fst c) = {| shared := 0; pending := false; reserved := false |}.
Proof. exact idle_when_quiescent. Qed.
Print Assumptions C09_idle_when_quiescent.

Theorem C09_no_deadlock : forall c0 c, init_ok c0 -> reach c0 c ->
  (exists i p, nth_error (snd c) i = Some p /\ isDone p = false) -> exists c', step c c'.
Proof. exact no_deadlock. Qed.
Print Assumptions C09_no_deadlock.

(* the executable step function and the relation used in the proofs agree *)
Theorem C09_step_function_sound : forall l v p lab l' v' p',
  thread_step l v p lab = Some (l', v', p') -> tstep l v p l' v' p'.
Proof. exact thread_step_sound. Qed.
Theorem C09_step_function_complete : forall l v p l' v' p',
  tstep l v p l' v' p' -> exists lab, thread_step l v p lab = Some (l', v', p').
Proof. exact thread_step_complete. Qed.

(* the label programs of the API calls (commit, failed commit, rollback, init transaction, close)
   are runs of the semantics and release everything *)
Theorem C09_programs_release_everything : forall v,
  run_labels lk_idle v R0 (prog_begin_readonly ++ [LWork] ++ prog_reader_close) = Some (lk_idle, v, R2) /\
  run_labels lk_idle v W0 (prog_begin ++ [LWWork] ++ prog_rollback) = Some (lk_idle, v, Wd) /\
  run_labels lk_idle v W0 (prog_begin ++ [LWWork] ++ prog_commit_ok) = Some (lk_idle, S v, Wd) /\
  run_labels lk_idle v W0 (prog_begin ++ [LWWork] ++ prog_commit_fail) = Some (lk_idle, v, Wd) /\
  run_labels lk_idle v W0 prog_init_tx_ok = Some (lk_idle, S v, Wd) /\
  run_labels lk_idle v W0 prog_init_tx_fail = Some (lk_idle, v, Wd) /\
  run_labels lk_idle v W0 prog_file_close = Some (lk_idle, v, Wd).
Proof. exact programs_release_everything. Qed.

Theorem C09_programs_are_runs : forall c0 l v ts i p labs l' v' p',
  reach c0 (l, v, ts) -> nth_error ts i = Some p ->
  run_labels l v p labs = Some (l', v', p') -> reach c0 (l', v', upd ts i p').
Proof. exact run_labels_reach. Qed.
Print Assumptions C09_programs_are_runs.

(* non-vacuity: a reachable configuration with an active reader and a committing writer *)
Example C09_ex : exists c, reach (lk_idle, 0, [R0; W0; R0]) c /\ snd c = [R1 0; W2; R0] /\ init_ok (lk_idle, 0, [R0; W0; R0]).
Proof.
  eexists. split; [|split].
  - eapply reach_step. eapply reach_step. eapply reach_step. apply reach_refl.
    + eapply (step_i _ _ _ 0 R0); [reflexivity|]. apply r_begin. reflexivity.
    + eapply (step_i _ _ _ 1 W0); [reflexivity|]. apply w_begin. reflexivity.
    + eapply (step_i _ _ _ 1 W1); [reflexivity|]. apply w_pending.
  - reflexivity.
  - split; [reflexivity|]. repeat constructor.
Qed.
