(* C11 -- Space is conserved. Per-operation accounting on the allocator model (bounded files):
   an allocation of n pages lowers the allocatable count by exactly n; committing frees raises the
   free-list count by exactly the number of freed pages; pages moved to the meta area move from the
   data free space into metaTotal. The global identity
      allocatable + live + metaTotal + 2 = maxPages
   at every quiescent point is checked on the implementation (conservation oracle, capacity probe,
   Observer stats) after every transaction of long histories. *)
From VF Require Import Region Freelist Alloc RegionProofs AllocProofs TxAllocProofs MetaAllocProofs ExtentProofs HistoryProofs.
From VF Require C04.

Theorem C11_alloc_accounting : forall a t n regs cnt a' t',
  DataInv a -> 0 < n < 2^32 -> maxPages a <> 0 -> n <= data_avail a ->
  data_alloc_regions a t n = (regs, cnt, a', t') ->
  cnt = n /\ count_pages regs = n /\ data_avail a' = data_avail a - n /\ metaTotal a' = metaTotal a.
Proof.
  intros a t n regs cnt a' t' Hi Hn Hm Hav E.
  destruct (data_alloc_regions_spec a t n regs cnt a' t' Hi Hn E) as [_ H].
  destruct (H Hav) as (H1 & H2 & _ & _ & _ & _ & _ & _ & H3 & _ & H4). auto.
Qed.
Print Assumptions C11_alloc_accounting.

(* commit: the freed pages (disjoint from the free list) join the free list, count for count *)
Theorem C11_commit_frees_accounting : forall free freed lo, wfl lo free -> wfl lo freed -> disjoint_l free freed ->
  count_pages (merge_region_lists free freed) = count_pages free + count_pages freed /\
  (forall id, inl id (merge_region_lists free freed) <-> inl id free \/ inl id freed).
Proof.
  intros free freed lo W1 W2 Hd. destruct (merge_region_lists_spec free freed lo W1 W2 Hd) as (_ & H1 & H2). auto.
Qed.

Theorem C11_freed_set_counts : forall s lo, sorted_from lo s -> count_pages (ids_regions s) = Z.of_nat (length s).
Proof. intros s lo S. destruct (ids_regions_spec s lo S) as (_ & _ & H). exact H. Qed.

(* moving a region to the meta area *)
Theorem C11_transfer_accounting : forall a t reg, 
  wff 2 (a_free (meta a)) -> 2 <= rid reg -> 0 < rcount reg < 2^32 ->
  (forall id, inr id reg -> ~ inl id (fregions (a_free (meta a)))) ->
  let '(a', t') := transfer_to_meta a t reg in
  metaTotal a' = metaTotal a + rcount reg /\ avail (a_free (meta a')) = avail (a_free (meta a)) + rcount reg /\
  wff 2 (a_free (meta a')) /\ data a' = data a.
Proof.
  intros a t reg W Hlo Hc Hd. unfold transfer_to_meta. cbn [metaTotal meta a_free set_meta data].
  destruct (fl_add_region_spec _ reg 2 W Hlo Hc Hd) as (W' & _ & Hav). auto.
Qed.
Print Assumptions C11_transfer_accounting.

(* inside every transaction the size of the meta area is the committed size plus exactly the pages moved
   out of the data area, and an aborted transaction gives all of them back *)
Theorem C11_meta_total_in_tx : forall a0 p a t, Inv0 a0 -> treach a0 p a t ->
  metaTotal a = metaTotal a0 + count_pages (moveToMeta t) /\
  (a_end (meta a) - a_end (data a0) < 2^32 ->
   metaTotal (rollback a t) = metaTotal a0 /\
   avail (a_free (meta (rollback a t))) = avail (a_free (meta a0)) /\
   avail (a_free (data (rollback a t))) = avail (a_free (data a0)) /\
   a_end (data (rollback a t)) = a_end (data a0)).
Proof.
  intros a0 p a t I R. split; [exact (fi_total _ _ _ (treach_inv _ _ _ _ I R))|].
  intros Hs. pose proof (rollback_exact_full a0 p a t I R Hs) as H. cbv zeta in H. tauto.
Qed.
Print Assumptions C11_meta_total_in_tx.

Example C11_ex : data_avail (C04.ex_alloc) = 55.
Proof. reflexivity. Qed.

(* "Such a file never grows beyond its maximum size": inside any write transaction without overflow area that
   starts from a file within its limit, both end markers stay within the limit *)
Theorem C11_never_beyond_max_in_transaction : forall a0 p a t,
  Inv0 a0 -> 0 < maxPages a0 -> a_end (meta a0) <= maxPages a0 -> treach a0 p a t ->
  a_end (data a) <= maxPages a0 /\ a_end (meta a) <= maxPages a0.
Proof. exact never_beyond_max_in_tx. Qed.
Print Assumptions C11_never_beyond_max_in_transaction.

(* ... and over whole histories: at every state of every transaction of every history of committed and aborted
   transactions (without overflow area) the file ends at or below the limit *)
Theorem C11_never_beyond_max_history : forall a0 p a t,
  hreach a0 -> 0 < maxPages a0 -> treach2 a0 p a t ->
  a_end (data a) <= maxPages a0 /\ a_end (meta a) <= maxPages a0 /\ maxPages a = maxPages a0.
Proof. exact never_beyond_max_history. Qed.
Print Assumptions C11_never_beyond_max_history.

(* pages and bytes: the page count of a bounded file (readAllocatorState) is the number of COMPLETE pages below
   the maximum size - every file within that count is within the maximum size in bytes, one page more is not;
   the count rounded up (seeded change C11j) is refuted *)
Theorem C11_max_pages_within_size : forall maxSize ps endp,
  0 < ps -> 0 < maxSize -> 0 <= endp <= max_pages_of maxSize ps -> endp * ps <= maxSize.
Proof. exact max_pages_within_size. Qed.
Print Assumptions C11_max_pages_within_size.
Theorem C11_max_pages_largest : forall maxSize ps, 0 < ps -> 0 < maxSize -> (max_pages_of maxSize ps + 1) * ps > maxSize.
Proof. exact max_pages_largest. Qed.
Theorem C11_max_pages_rounded_up_refuted : exists maxSize ps, 0 < ps /\ 0 < maxSize /\ max_pages_ceil maxSize ps * ps > maxSize.
Proof. exact max_pages_ceil_refuted. Qed.
