(* C18 -- A file is open at most once: the path lock is exclusive and always released. *)
From VF Require Import OpenLock.

(* the lock is held after an Open exactly when that Open succeeded (given it was free before) *)
Theorem C18_open_holds_iff_ok : forall e, snd (open_step false e) = true <-> fst (open_step false e) = OpenOk.
Proof. intros [v o i]; destruct v, o, i; cbn; split; intros H; try reflexivity; discriminate. Qed.
Print Assumptions C18_open_holds_iff_ok.

(* while a File is open a second Open with valid options fails with the lock error and changes nothing *)
Theorem C18_second_open_fails : forall e, opts_valid e = true -> os_open_ok e = true ->
  open_step true e = (OpenErrLock, true).
Proof. intros [v o i]; cbn; intros -> ->; reflexivity. Qed.

(* no failing Open ever leaves the lock taken; a failing Open while another File holds it leaves it held *)
Theorem C18_failed_open_releases : forall held e, fst (open_step held e) <> OpenOk -> snd (open_step held e) = held.
Proof. intros [] [v o i]; destruct v, o, i; cbn; intros H; try reflexivity; exfalso; apply H; reflexivity. Qed.

(* for every sequence of opens / failing opens / closes: afterwards, once the open File (if any) is
   closed, a valid Open succeeds immediately *)
Theorem C18_reopen_after_any_history : forall ops held e,
  opts_valid e = true -> os_open_ok e = true -> init_ok e = true ->
  let '(_, h) := run held ops in
  open_step (close_step h) e = (OpenOk, true).
Proof. intros ops held [v o i]; cbn; intros -> -> ->. destruct (run held ops). reflexivity. Qed.

(* at most one File is open at any time: an Open succeeds only when the lock was free *)
Theorem C18_exclusive : forall held e, fst (open_step held e) = OpenOk -> held = false.
Proof. intros [] [v o i]; destruct v, o, i; cbn; intros H; try reflexivity; discriminate. Qed.
Print Assumptions C18_reopen_after_any_history.

Example C18_ex : run false [DoOpen {| opts_valid := true; os_open_ok := true; init_ok := true |};
                            DoOpen {| opts_valid := true; os_open_ok := true; init_ok := true |};
                            DoClose;
                            DoOpen {| opts_valid := true; os_open_ok := true; init_ok := false |};
                            DoOpen {| opts_valid := true; os_open_ok := true; init_ok := true |}]
                 = ([OpenOk; OpenErrLock; OpenErrOther; OpenOk], true).
Proof. reflexivity. Qed.
