(* C12 -- Queue reclaims space, reports full without loss, and can always be drained.
   Space: the framed stream of any events is at most 7 bytes per event longer than their payload, so the
   un-ACKed events occupy at most ceil((bytes + 7*events)/P) + 1 pages whatever passed through before.
   Full file: a failed flush changes nothing in the abstract queue; an ACK is refused only when it asks
   for more than is pending. That ACK commits on a full file (overflow area) and that the pages of ACKed
   events return to the file is decided by the campaign (fill-to-error / drain cycles, page accounting). *)
From VF Require Import PQ PQProofs.

Theorem C12_space_bound : forall P evs pos,
  (length (layout_from P pos evs) <= total_bytes evs + (2 * hdr_len - 1) * length evs)%nat.
Proof. exact layout_space_bound. Qed.
Print Assumptions C12_space_bound.

Theorem C12_full_no_loss : forall q, aq_step q AFlushFail = q.
Proof. exact aq_flush_fail_keeps. Qed.
Theorem C12_ack_refused_only_if_too_many : forall q n, (aq_pending q < n)%nat -> aq_step q (AAck n) = q.
Proof. exact aq_ack_too_many. Qed.
Theorem C12_drain_then_flush : forall q,
  aq_contents (aq_step q AFlush) = aq_contents q ++ q_buffered q \/ (length (q_flushed q) < q_acked q)%nat.
Proof. exact aq_flush. Qed.

Example C12_ex : (length (layout 996 [repeat 1%Z 1000; repeat 2%Z 10]) <=? 1010 + 7 * 2)%nat = true.
Proof. vm_compute. reflexivity. Qed.
