(* C12 -- Queue reclaims space, reports full without loss, and can always be drained.
   Space: the framed stream of any events is at most 7 bytes per event longer than their payload, so the
   un-ACKed events occupy at most ceil((bytes + 7*events)/P) + 1 pages whatever passed through before.
   Full file: a failed flush changes nothing in the abstract queue; an ACK is refused only when it asks
   for more than is pending. That ACK commits on a full file (overflow area) and that the pages of ACKed
   events return to the file is decided by the campaign (fill-to-error / drain cycles, page accounting). *)
From VF Require Import PQ PQProofs.

Theorem C12_space_bound : forall P evs pos,
  (length (layout_from P pos evs) <= total_bytes evs + (2 * hdr_len - 1) * length evs)%nat.
Proof. exact layout_space_bound. Qed.
Print Assumptions C12_space_bound.

Theorem C12_full_no_loss : forall q, aq_step q AFlushFail = q.
Proof. exact aq_flush_fail_keeps. Qed.
Theorem C12_ack_refused_only_if_too_many : forall q n, (aq_pending q < n)%nat -> aq_step q (AAck n) = q.
Proof. exact aq_ack_too_many. Qed.
Theorem C12_drain_then_flush : forall q,
  aq_contents (aq_step q AFlush) = aq_contents q ++ q_buffered q \/ (length (q_flushed q) < q_acked q)%nat.
Proof. exact aq_flush. Qed.

Example C12_ex : (length (layout 996 [repeat 1%Z 1000; repeat 2%Z 10]) <=? 1010 + 7 * 2)%nat = true.
Proof. vm_compute. reflexivity. Qed.

(* ---- which pages an ACK gives back (Model/PQAck.v: collectFreePages over the page headers; the model is run on
   the real page headers and compared with what the implementation freed at every ACK of the campaign).
   ps: for every event still referenced by the chain, the index of the page its header starts in
   (non-decreasing); T: the writer's page; N: events ACKed afterwards. The ACK frees exactly the pages before
   the page in which the last ACKed event starts: every freed page is fully ACKed, the writer's page is never
   freed, and no page that could be freed under this rule is held back - so the pages held are those from the
   last ACKed event's page on: un-ACKed events plus at most the page(s) of one ACKed event. ---- *)
From VF Require Import PQAck PQAckProofs.
Open Scope nat_scope.
Theorem C12_ack_frees_exactly : forall ps h T N,
  mono ps -> (forall p, In p ps -> h <= p <= T) -> 1 <= N <= length ps ->
  ack_pages ps h T N = (nth (N - 1) ps 0, false).
Proof. exact ack_pages_spec. Qed.
Print Assumptions C12_ack_frees_exactly.
Theorem C12_ack_frees_only_acked_pages : forall ps h T N,
  mono ps -> (forall p, In p ps -> h <= p <= T) -> 1 <= N <= length ps ->
  let kept := fst (ack_pages ps h T N) in
  h <= kept <= T /\ forall i, N - 1 <= i < length ps -> kept <= nth i ps 0.
Proof. exact ack_frees_only_acked_pages. Qed.
Theorem C12_ack_new_read_position : forall ps h T N,
  mono ps -> (forall p, In p ps -> h <= p <= T) -> 1 <= N <= length ps ->
  let kept := fst (ack_pages ps h T N) in
  cnt_lt ps kept + ack_skips ps kept N = N /\ forall i, cnt_lt ps kept <= i < N -> nth i ps 0 = kept.
Proof. exact ack_skips_spec. Qed.
Example C12_ex_ack : ack_pages [0; 0; 0; 1; 1; 3; 3] 0 4 4 = (1, false) /\ ack_skips [0; 0; 0; 1; 1; 3; 3] 1 4 = 1.
Proof. split; reflexivity. Qed.

(* ---- the ACK theorem applies to everything the writer can lay out ----
   The pages in which the headers of the events start, as produced by the framing rule (4-byte header never split
   across a page end), are non-decreasing and inside the chain: the hypotheses of C12_ack_frees_exactly hold for
   every list of events, every payload size and every ACK count. *)
From VF Require Import PQLayoutProofs.
Theorem C12_ack_on_every_layout : forall P evs N,
  (0 < P)%nat -> (1 <= N <= length evs)%nat ->
  let ps := starts P evs in
  let T := (length (layout P evs) / P)%nat in
  ack_pages ps 0 T N = (nth (N - 1) ps 0%nat, false) /\
  (forall i, (N - 1 <= i < length evs)%nat -> (nth (N - 1) ps 0 <= nth i ps 0)%nat) /\
  mono ps.
Proof. exact ack_on_layout. Qed.
Print Assumptions C12_ack_on_every_layout.

Example C12_ex_ack_on_layout :
  starts 100 [repeat 1%Z 50; repeat 2%Z 60; repeat 3%Z 10; repeat 4%Z 300] = [0; 0; 1; 1]%nat /\
  ack_pages (starts 100 [repeat 1%Z 50; repeat 2%Z 60; repeat 3%Z 10; repeat 4%Z 300]) 0 4 3 = (1%nat, false).
Proof. exact ack_on_layout_ex. Qed.

(* the correspondence check runs the binary version of [starts_from] (positions in long chains): it is the same function *)
Theorem C12_starts_binary_is_starts : forall P, (0 < P)%nat -> forall evs pos,
  map Z.of_nat (starts_from P pos evs) = starts_fromZ (Z.of_nat P) (Z.of_nat pos) (map (fun e => Z.of_nat (length e)) evs).
Proof. exact starts_fromZ_spec. Qed.
Print Assumptions C12_starts_binary_is_starts.

(* ---- the page headers the ACK works on are the ones the writer produces (Model/PQWriter.v; Proofs/PQWriterHeaderProofs.v).
   The ACK model above takes the page structure "as the writer maintains it": off = 0 iff no event starts in the page,
   otherwise first = id0 + (events starting in earlier pages), last = id0 + (events starting up to this page) - 1.
   For EVERY run of Write / Next / Flush calls of the writer model, with every flush outcome, this is what every page the
   writer created in the session carries in its header fields - in the buffer, in the released pages, and therefore
   (the K1 comparison of every flush's page images) in the file: the start pages are `starts_from` of the completed
   events, the function C12_ack_on_every_layout is about. ---- *)
From VF Require Import PQWriter PQWriterProofs PQWriterHeaderProofs.
Theorem C12_writer_maintains_the_page_headers : forall PS, (hdr_len <= payload PS)%nat ->
  forall pages tail endId root ops,
  match tail with Some t => (length (wp_data t) <= payload PS)%nat | None => True end ->
  let base := match tail with Some t => wp_data t | None => [] end in
  let '(s, rs) := w_run PS (w_init PS pages tail endId root) ops in
  let '(done, cur) := spec_run ([], []) ops rs in
  ws_evId s = (endId + Z.of_nat (length done))%Z /\
  forall j p, (1 <= j)%nat -> nth_error (ws_hist s ++ b_pages (ws_buf s)) j = Some p ->
    let ps := starts_from (payload PS) (length base) done in
    (starts_in ps j = false -> wp_off p = 0%nat) /\
    (starts_in ps j = true -> wp_off p <> 0%nat /\ wp_first p = (endId + Z.of_nat (cnt_lt ps j))%Z /\
                              wp_last p = (endId + Z.of_nat (cnt_le ps j) - 1)%Z).
Proof.
  intros PS HP pages tail endId root ops Ht. cbn zeta.
  pose proof (w_run_HInv PS HP ops _ endId _ [] [] (w_init_SI PS HP pages tail endId root Ht) (w_init_HInv PS HP pages tail endId root)) as H.
  destruct (w_run PS (w_init PS pages tail endId root) ops) as [s rs].
  destruct (spec_run ([], []) ops rs) as [done cur].
  destruct H as [Hid Hpg]. split; [exact Hid|].
  intros j p Hj Hn. apply (Hpg j (hcore p) Hj). unfold hcores. rewrite nth_error_map, Hn. reflexivity.
Qed.
Print Assumptions C12_writer_maintains_the_page_headers.

(* non-vacuity: the run of C05_ex_writer (payload 12 bytes): event 0 starts in page 0, event 1 in page 1; page 2 holds only
   the rest of event 1 and the open header *)
Example C12_ex_page_headers :
  let ops := [WWrite [1;2] FFailEarly; WWrite [3;4;5] FFailEarly; WNext FFailEarly; WWrite [6;7;8] FFailEarly;
              WFlush (FFailLate [7]); WFlush (FOk [7; 9]); WWrite [9;10;11;12;13;14] FFailEarly; WNext FFailEarly] in
  let '(s, rs) := w_run 40 (w_init 40 5 None 100 {| q_head := None; q_tail := (0, O, 0); q_inuse := 0 |}) ops in
  map (fun p => (wp_off p, wp_first p, wp_last p)) (ws_hist s ++ b_pages (ws_buf s)) = [(28%nat, 100, 100); (28%nat, 101, 101); (0%nat, 0, 0)] /\
  starts_from 12 0 (fst (spec_run ([], []) ops rs)) = [0%nat; 1%nat].
Proof. vm_compute. split; reflexivity. Qed.
