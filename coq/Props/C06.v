(* C06 -- Queue durability: flushed events survive, ACKed events never return.
   Abstract queue: a flush appends the buffered events in order (a failed flush changes nothing), an
   accepted ACK removes exactly the n oldest events, a refused one nothing; flushed events are never
   changed or reordered. Each flush / ACK of the implementation is ONE file transaction (page writes,
   frees and the queue header update together), so the crash theorem C01 makes it atomic: after a crash
   the queue is the one before or after the operation in flight. That composition is checked by the
   campaign (crash images of queue histories reopened through the real open path and drained). *)
From VF Require Import PQ PQProofs Monitor Crash CrashInst.

Theorem C06_flush_appends : forall q,
  aq_contents (aq_step q AFlush) = aq_contents q ++ q_buffered q \/ (length (q_flushed q) < q_acked q)%nat.
Proof. exact aq_flush. Qed.
Theorem C06_failed_flush_loses_nothing : forall q, aq_step q AFlushFail = q.
Proof. exact aq_flush_fail_keeps. Qed.
Theorem C06_ack_drops_oldest : forall q n, aq_ok q -> (n <= aq_pending q)%nat ->
  aq_contents (aq_step q (AAck n)) = skipn n (aq_contents q) /\
  aq_pending (aq_step q (AAck n)) = (aq_pending q - n)%nat.
Proof. exact aq_ack_drops_oldest. Qed.
Theorem C06_flushed_is_stable : forall ops q, exists ext, q_flushed (aq_run q ops) = q_flushed q ++ ext.
Proof. exact aq_run_prefix. Qed.
Theorem C06_invariant : forall ops q, aq_ok q -> aq_ok (aq_run q ops).
Proof. exact aq_run_ok. Qed.
Print Assumptions C06_flushed_is_stable.

(* atomicity of the single transaction behind a flush / an ACK *)
Theorem C06_operation_atomic_under_crash : forall fuel evs m0 m,
  MInv fuel m0 -> mon_run fuel m0 evs = Some m ->
  forall ws, crashsub cell header hdr_of (pend m) ws ->
  mon_recover fuel (apply cell ws (dd m)) = Some (cst m) \/
  (exists c h v fp, infl m = Some (c, h, v, fp) /\ mon_recover fuel (apply cell ws (dd m)) = Some v).
Proof. exact crash_atomic_concrete. Qed.

Example C06_ex : aq_contents (aq_run aq_empty [AAppend [1]; AAppend [2;2]; AFlush; AAppend [3]; AAck 1; AFlush]) = [[2;2]; [3]].
Proof. reflexivity. Qed.

(* what "the events of all flushes that returned success" are, in terms of the bytes in the file: C05_flush_publishes_the_completed_events
   (Props/C05.v) - after every successful flush the page payloads as written hold exactly the completed events; the
   crash atomicity of the flush transaction itself is C01 *)
From VF Require Import PQWriter PQWriterProofs.
Theorem C06_flush_publishes_the_completed_events : forall PS, (hdr_len <= payload PS)%nat ->
  forall pages tail endId root ops o,
  match tail with Some t => (length (wp_data t) <= payload PS)%nat /\ wp_dirty t = false /\ wp_disk t = Some (wp_data t) | None => True end ->
  let base := match tail with Some t => wp_data t | None => [] end in
  let '(s1, rs) := w_run PS (w_init PS pages tail endId root) ops in
  let '(s2, r) := w_step PS s1 o in
  let '(done, cur) := spec_step (spec_run ([], []) ops rs) o r in
  match o, r with
  | WNext _, WOk (Some (FDone _ _ _, _)) | WFlush _, WOk (Some (FDone _ _ _, _)) =>
      Forall (fun e => Z.of_nat (length e) < 256 ^ Z.of_nat hdr_len) done ->
      exists i off, b_hdr (ws_buf s2) = Some (i, off) /\
        parse_from (payload PS) (flat (payload PS) (map disk_data (cores (ws_hist s2 ++ firstn (Datatypes.S i) (b_pages (ws_buf s2))))))
                   (length base) (length done) = Some done
  | _, _ => True
  end.
Proof. exact flush_publishes_events. Qed.
Print Assumptions C06_flush_publishes_the_completed_events.

(* the page images one successful flush writes form a chain: every image names (next pointer) the id of the image
   written after it - so a reader that reaches the first of them reaches all of them in order *)
From VF Require Import PQWriterHeaderProofs.
Theorem C06_flush_writes_a_linked_chain : forall s ids s' imgs pg al, do_flush s (FOk ids) = (s', FDone imgs pg al) ->
  forall i a b, nth_error imgs i = Some a -> nth_error imgs (Datatypes.S i) = Some b ->
  snd (fst (fst (fst (fst a)))) = fst (fst (fst (fst (fst b)))).
Proof. exact flush_images_linked. Qed.
Print Assumptions C06_flush_writes_a_linked_chain.
