(* C03 -- The store returns what was written.
   (a) the asynchronous writer: however queued page writes are batched, the disk ends up as if they
       had been applied one by one in schedule order (last write per page wins) -- needs the STABLE
       sort of the repaired source; refuted for an arbitrary id-sorted permutation (D4);
   (b) the page write buffer refines the obvious content specification for full / partial SetBytes,
       Load, in-place modification, Bytes, Flush, Free on fresh and existing pages (incl. D8).
   The composition over whole transactions (mapping read-through, commit) is checked on the
   implementation by the sequential map oracle of the campaign. Property theorems only. *)
From VF Require Import Writer WriterProofs PageBuf PageBufProofs.
From Coq Require Import Sorting.Permutation.

Theorem C03_writer_last_write_wins : forall bs d p, run_batches d bs p = spec_disk d (concat bs) p.
Proof. exact writer_last_write_wins. Qed.
Print Assumptions C03_writer_last_write_wins.

Theorem C03_unstable_sort_refuted :
  exists (perm : list wmsg),
    Permutation perm unstable_example /\
    (forall i j x y, nth_error perm i = Some x -> nth_error perm j = Some y -> (i <= j)%nat -> w_id x <= w_id y) /\
    apply_msgs (fun _ => None) perm 5 <> spec_disk (fun _ => None) unstable_example 5.
Proof. exact unstable_sort_refuted. Qed.

Theorem C03_set_bytes : forall ps p c p', wf ps p -> page_set_bytes ps p c = POk p' ->
  wf ps p' /\
  lcontent p' = Some (if (length c <? ps)%nat then c ++ skipn (length c) (base ps (lcontent p)) else c) /\
  f_dirty (pg_flags p') = true.
Proof. exact set_bytes_spec. Qed.
Print Assumptions C03_set_bytes.

Theorem C03_load : forall ps p p', wf ps p -> page_load ps p = POk p' ->
  wf ps p' /\ lcontent p' = Some (base ps (lcontent p)).
Proof. exact load_spec. Qed.

Theorem C03_modify : forall ps p off c p', wf ps p -> (off + length c <= ps)%nat -> page_modify p off c = POk p' ->
  exists b, pg_bytes p = Some b /\ wf ps p' /\ lcontent p' = Some (splice off c b).
Proof. exact modify_spec. Qed.

(* MarkDirty (repair of D35): the content stays, the page is dirty and has a buffer to write back; as found, MarkDirty on
   a page that was never loaded made it dirty WITHOUT a buffer - its flush wrote nothing and the commit moved the page
   to a fresh location: the committed contents were lost (C03_mark_dirty_before_the_fix_refuted) *)
Theorem C03_mark_dirty : forall ps p p', wf ps p -> page_mark_dirty ps p = POk p' ->
  wf ps p' /\ lcontent p' = Some (base ps (lcontent p)) /\ f_dirty (pg_flags p') = true.
Proof. exact mark_dirty_spec. Qed.
Print Assumptions C03_mark_dirty.
Theorem C03_mark_dirty_before_the_fix_refuted : exists (p p' p'' : pagest) w,
  wf 4 p /\ page_mark_dirty_v1 p = POk p' /\ f_dirty (pg_flags p') = true /\
  page_flush p' = POk (p'', w) /\ w = None /\ lcontent p = Some [1; 2; 3; 4].
Proof. exact mark_dirty_v1_refuted. Qed.

Theorem C03_bytes : forall p, page_bytes p = match lcontent p with Some b => POk b | None => PErr EInvalidOp end.
Proof. exact bytes_spec. Qed.

Theorem C03_flush : forall ps p p' w, wf ps p -> page_flush p = POk (p', w) ->
  lcontent p' = lcontent p /\
  (f_dirty (pg_flags p) = true -> w = lcontent p /\ can_write p' = false) /\
  (f_dirty (pg_flags p) = false -> w = None /\ p' = p).
Proof. exact flush_spec. Qed.

Theorem C03_free : forall p p', page_free p = POk p' ->
  f_dirty (pg_flags p) = false /\ lcontent p' = lcontent p /\ can_write p' = false.
Proof. exact free_spec. Qed.
Print Assumptions C03_free.

Theorem C03_fresh_setfull_then_load : forall ps c p1 p2, length c = ps ->
  page_set_bytes ps fresh_page c = POk p1 -> page_load ps p1 = POk p2 -> lcontent p2 = Some c.
Proof. exact fresh_setfull_then_load. Qed.

(* non-vacuity *)
Example C03_ex_wf : wf 4 fresh_page /\ wf 4 (existing_page [1;2;3;4]).
Proof. split; [apply fresh_wf | apply existing_wf; reflexivity]. Qed.
Example C03_ex_batches :
  run_batches (fun _ => None) [[{| w_id := 7; w_buf := [1] |}; {| w_id := 3; w_buf := [2] |}; {| w_id := 7; w_buf := [3] |}]] 7 = Some [3].
Proof. reflexivity. Qed.

(* ---- whole transactions (Model/TxCore.v: Page.doFlush, CheckpointWAL, the mapping update and automatic
   checkpoint of Commit; the model is compared with the implementation's overwrite mapping after every commit).
   For EVERY sequence of allocations, page writes, page / transaction flushes and manual checkpoints, every
   overwrite-page limit and every well-formed committed state: after the commit every page reads - through the
   new mapping, from the bytes the writer leaves when it executes the scheduled writes in schedule order - as
   the last value the transaction wrote to it, every other page as before. ---- *)
From VF Require Import TxCore TxCoreProofs.
Theorem C03_committed_transaction_reads : forall (V : Type) (s : fstate V) (fresh0 : list Z),
  WF V s fresh0 -> forall ops limit,
  ops_ok V s fresh0 (tx_begin V fresh0) ops ->
  let t := tx_run V s (tx_begin V fresh0) ops in
  let t1 := flush_all V s t in
  (forall id v, aget V (t_dirty V t1) id = Some v -> In id (t_flushed V t1)) ->
  forall id, data_id V s fresh0 id ->
  f_read V (tx_commit V s t limit) id =
  match aget V (t_dirty V t) id with Some v => v | None => f_read V s id end.
Proof. exact commit_reads. Qed.
Print Assumptions C03_committed_transaction_reads.

(* non-vacuity: page 5 lives in overwrite page 20, page 6 in 21; the transaction writes 5 and 7, checkpoints,
   writes 6 (after the checkpoint copied it back: two writes to page 6 are queued), commits *)
Example C03_ex_tx :
  let s := {| f_disk := fun p => p * 100; f_wal := [(5, 20); (6, 21)] |} in
  let ops := [OSet Z 5 1; OSet Z 7 2; OFlushAll Z; OCheckpoint Z; OSet Z 6 3] in
  let s' := tx_commit Z s (tx_run Z s (tx_begin Z [30; 31; 32]) ops) 1000 in
  map (f_read Z s') [5; 6; 7; 8] = [1; 3; 2; 800] /\ f_wal Z s' = [(7, 30)].
Proof. vm_compute. split; reflexivity. Qed.

(* ---- the writer's scheduling queue (write.go Schedule / Sync / nextCommand): page writes reach the file in schedule order, across batches and syncs ----
   For every interleaving of Schedule / Sync calls with nextCommand calls of ANY buffer sizes: what the goroutine has
   been handed so far, followed by what the queue still holds, is the sequence of writes and syncs in the order they
   were scheduled. A sync is executed after all writes scheduled before it and before every write scheduled later. *)
From VF Require Import Writer WriterProofs WriterQueue WriterQueueProofs WriterComposeProofs.
Theorem C03_writer_queue_preserves_schedule : forall (A : Type) (ops : list (qop A)) (s : wq A),
  Inv s -> buffers_ok ops ->
  let '(s', out, inp) := wq_run s ops in
  out ++ remaining s' = remaining s ++ inp /\ Inv s'.
Proof. intros A. exact queue_preserves_schedule. Qed.
Print Assumptions C03_writer_queue_preserves_schedule.

Theorem C03_writer_executes_the_schedule : forall (A : Type) (ops : list (qop A)),
  buffers_ok ops ->
  let '(s', out, inp) := wq_run wq_init ops in
  out ++ remaining s' = inp /\ (remaining s' = [] -> out = inp).
Proof. intros A. exact executed_is_schedule. Qed.
Print Assumptions C03_writer_executes_the_schedule.

(* queue + batch execution (stable sort inside a batch): at every moment the executed events are a prefix of the
   schedule and the disk holds, for every page, the last write of that prefix *)
Theorem C03_writer_executes_a_prefix_of_the_schedule : forall ops : list (qop wmsg),
  buffers_ok ops ->
  let '(s', out, inp) := wq_run wq_init ops in
  (exists rest, inp = out ++ rest) /\
  (forall d p, run_cmds d (wq_cmds wq_init ops) p = spec_disk d (writes_of out) p) /\
  (remaining s' = [] -> out = inp).
Proof. exact writer_executes_a_prefix_of_the_schedule. Qed.
Print Assumptions C03_writer_executes_a_prefix_of_the_schedule.

(* false for the variant that tests "sync due" against all queued writes and clamps to the buffer afterwards *)
Theorem C03_late_clamp_refuted : exists ops,
  buffers_ok ops /\
  let '(s', out, inp) := wq_run_late wq_init ops in
  remaining s' = [] /\ out <> inp /\ inp = [EW 1; EW 2; EW 3; ES]%nat /\ out = [EW 1; EW 2; ES; EW 3]%nat.
Proof. exact late_clamp_refuted. Qed.
Print Assumptions C03_late_clamp_refuted.
