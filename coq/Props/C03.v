(* C03 -- The store returns what was written.
   (a) the asynchronous writer: however queued page writes are batched, the disk ends up as if they
       had been applied one by one in schedule order (last write per page wins) -- needs the STABLE
       sort of the repaired source; refuted for an arbitrary id-sorted permutation (D4);
   (b) the page write buffer refines the obvious content specification for full / partial SetBytes,
       Load, in-place modification, Bytes, Flush, Free on fresh and existing pages (incl. D8).
   The composition over whole transactions (mapping read-through, commit) is checked on the
   implementation by the sequential map oracle of the campaign. Property theorems only. *)
From VF Require Import Writer WriterProofs PageBuf PageBufProofs.
From Coq Require Import Sorting.Permutation.

Theorem C03_writer_last_write_wins : forall bs d p, run_batches d bs p = spec_disk d (concat bs) p.
Proof. exact writer_last_write_wins. Qed.
Print Assumptions C03_writer_last_write_wins.

Theorem C03_unstable_sort_refuted :
  exists (perm : list wmsg),
    Permutation perm unstable_example /\
    (forall i j x y, nth_error perm i = Some x -> nth_error perm j = Some y -> (i <= j)%nat -> w_id x <= w_id y) /\
    apply_msgs (fun _ => None) perm 5 <> spec_disk (fun _ => None) unstable_example 5.
Proof. exact unstable_sort_refuted. Qed.

Theorem C03_set_bytes : forall ps p c p', wf ps p -> page_set_bytes ps p c = POk p' ->
  wf ps p' /\
  lcontent p' = Some (if (length c <? ps)%nat then c ++ skipn (length c) (base ps (lcontent p)) else c) /\
  f_dirty (pg_flags p') = true.
Proof. exact set_bytes_spec. Qed.
Print Assumptions C03_set_bytes.

Theorem C03_load : forall ps p p', wf ps p -> page_load ps p = POk p' ->
  wf ps p' /\ lcontent p' = Some (base ps (lcontent p)).
Proof. exact load_spec. Qed.

Theorem C03_modify : forall ps p off c p', wf ps p -> (off + length c <= ps)%nat -> page_modify p off c = POk p' ->
  exists b, pg_bytes p = Some b /\ wf ps p' /\ lcontent p' = Some (splice off c b).
Proof. exact modify_spec. Qed.

Theorem C03_bytes : forall p, page_bytes p = match lcontent p with Some b => POk b | None => PErr EInvalidOp end.
Proof. exact bytes_spec. Qed.

Theorem C03_flush : forall ps p p' w, wf ps p -> page_flush p = POk (p', w) ->
  lcontent p' = lcontent p /\
  (f_dirty (pg_flags p) = true -> w = lcontent p /\ can_write p' = false) /\
  (f_dirty (pg_flags p) = false -> w = None /\ p' = p).
Proof. exact flush_spec. Qed.

Theorem C03_free : forall p p', page_free p = POk p' ->
  f_dirty (pg_flags p) = false /\ lcontent p' = lcontent p /\ can_write p' = false.
Proof. exact free_spec. Qed.
Print Assumptions C03_free.

Theorem C03_fresh_setfull_then_load : forall ps c p1 p2, length c = ps ->
  page_set_bytes ps fresh_page c = POk p1 -> page_load ps p1 = POk p2 -> lcontent p2 = Some c.
Proof. exact fresh_setfull_then_load. Qed.

(* non-vacuity *)
Example C03_ex_wf : wf 4 fresh_page /\ wf 4 (existing_page [1;2;3;4]).
Proof. split; [apply fresh_wf | apply existing_wf; reflexivity]. Qed.
Example C03_ex_batches :
  run_batches (fun _ => None) [[{| w_id := 7; w_buf := [1] |}; {| w_id := 3; w_buf := [2] |}; {| w_id := 7; w_buf := [3] |}]] 7 = Some [3].
Proof. reflexivity. Qed.
