(* C16 -- A damaged header never wins: open falls back to the intact one or fails cleanly.
   Property theorems only; proofs live in Proofs/. *)
From VF Require Import Meta MetaProofs Fnv BytesProofs Pages PagesProofs.

(* total description of the selection among two header slots *)
Theorem C16_select_spec : forall s0 s1,
  choose s0 s1 =
  match valid_slot s0, valid_slot s1 with
  | false, false => SelErr
  | true, false => SelOk 0 (txid_of s0)
  | false, true => SelOk 1 (txid_of s1)
  | true, true =>
      if txid_newer (txid_of s0) (txid_of s1) then SelOk 0 (txid_of s0) else SelOk 1 (txid_of s1)
  end.
Proof. exact choose_spec. Qed.
Print Assumptions C16_select_spec.

Theorem C16_never_selects_invalid : forall s0 s1 a t,
  choose s0 s1 = SelOk a t ->
  (a = 0 /\ valid_slot s0 = true /\ t = txid_of s0) \/ (a = 1 /\ valid_slot s1 = true /\ t = txid_of s1).
Proof. exact choose_never_invalid. Qed.
Print Assumptions C16_never_selects_invalid.

Theorem C16_fallback_to_intact_1 : forall s0 s1,
  valid_slot s0 = false -> valid_slot s1 = true -> choose s0 s1 = SelOk 1 (txid_of s1).
Proof. exact choose_fallback_1. Qed.
Theorem C16_fallback_to_intact_0 : forall s0 s1,
  valid_slot s0 = true -> valid_slot s1 = false -> choose s0 s1 = SelOk 0 (txid_of s0).
Proof. exact choose_fallback_0. Qed.
Theorem C16_both_damaged_error : forall s0 s1,
  valid_slot s0 = false -> valid_slot s1 = false -> choose s0 s1 = SelErr.
Proof. exact choose_both_invalid. Qed.
Print Assumptions C16_fallback_to_intact_1.

Theorem C16_newer_wins_1 : forall s0 s1 k,
  valid_slot s0 = true -> valid_slot s1 = true ->
  0 <= txid_of s0 < 2^64 -> 0 < k < 2^63 -> txid_of s1 = (txid_of s0 + k) mod 2^64 ->
  choose s0 s1 = SelOk 1 (txid_of s1).
Proof. exact choose_newer_wins_1. Qed.
Theorem C16_newer_wins_0 : forall s0 s1 k,
  valid_slot s0 = true -> valid_slot s1 = true ->
  0 <= txid_of s1 < 2^64 -> 0 < k < 2^63 -> txid_of s0 = (txid_of s1 + k) mod 2^64 ->
  choose s0 s1 = SelOk 0 (txid_of s0).
Proof. exact choose_newer_wins_0. Qed.
Print Assumptions C16_newer_wins_1.

(* Open never panics on header contents: the outcome type of the reader has only the constructors
   SelErr and SelOk (the source had a panic for equal txids, D5, repaired); equal txids select slot 1 *)
Theorem C16_equal_txid_no_panic : forall s0 s1,
  valid_slot s0 = true -> valid_slot s1 = true -> txid_of s0 = txid_of s1 -> choose s0 s1 = SelOk 1 (txid_of s1).
Proof. exact choose_equal_txid. Qed.
Print Assumptions C16_equal_txid_no_panic.

(* whole reader, over an arbitrary file (abstract reader rd): a selected header is always a valid one *)
Theorem C16_reader_never_selects_invalid : forall rd a t,
  read_valid_meta_with rd = Some (SelOk a t) ->
  exists off s, (a = 0 \/ a = 1) /\ rd off = RdOk s /\ valid_slot s = true /\ t = txid_of s.
Proof. exact read_with_never_invalid. Qed.
Print Assumptions C16_reader_never_selects_invalid.

(* slot 0 damaged in any way -- including its page-size field, which locates slot 1 (D11, repaired):
   the intact slot 1 at page size minPageSize * 2^k is found and selected *)
Theorem C16_damaged_slot0_falls_back : forall rd s0 s1 k,
  rd 0 = RdOk s0 -> valid_slot s0 = false ->
  (k <= 21)%nat ->
  (forall j, (j < k)%nat -> exists s, rd (minPageSize * 2 ^ Z.of_nat j) = RdOk s /\ good_at s (minPageSize * 2 ^ Z.of_nat j) = false) ->
  rd (minPageSize * 2 ^ Z.of_nat k) = RdOk s1 -> good_at s1 (minPageSize * 2 ^ Z.of_nat k) = true ->
  read_valid_meta_with rd = Some (SelOk 1 (txid_of s1)).
Proof. exact damaged_slot0_falls_back. Qed.
Print Assumptions C16_damaged_slot0_falls_back.

Theorem C16_damaged_slot1_falls_back : forall rd s0 s1,
  rd 0 = RdOk s0 -> valid_slot s0 = true ->
  rd (h_pageSize (decode_header s0)) = RdOk s1 -> valid_slot s1 = false ->
  read_valid_meta_with rd = Some (SelOk 0 (txid_of s0)).
Proof. exact intact_slot0_damaged_slot1. Qed.

Theorem C16_both_damaged_reader_error : forall rd s0,
  rd 0 = RdOk s0 -> valid_slot s0 = false ->
  (forall off s, rd off = RdOk s -> valid_slot s = false) ->
  (forall off, rd off <> RdMissing) ->
  read_valid_meta_with rd = Some SelErr.
Proof. exact both_damaged_error. Qed.
Print Assumptions C16_both_damaged_reader_error.

(* every single-byte (hence every single-bit) corruption of every valid header is detected *)
Theorem C16_single_byte_damage : forall pre b b' post,
  bytes (pre ++ b :: post) -> 0 <= b' < 256 -> b <> b' ->
  length (pre ++ b :: post) = (csum_off + 4)%nat ->
  valid_slot (pre ++ b :: post) = true -> valid_slot (pre ++ b' :: post) = false.
Proof. exact single_byte_damage. Qed.
Print Assumptions C16_single_byte_damage.

Theorem C16_zero_page_invalid : forall k, valid_slot (zeros k) = false.
Proof. intros k. apply zero_page_invalid. discriminate. Qed.
Print Assumptions C16_zero_page_invalid.

Theorem C16_finalized_header_valid : forall h, header_ok h -> h_magic h = magic -> h_version h = version ->
  valid_slot (encode_header h) = true.
Proof. exact finalized_header_valid. Qed.
Print Assumptions C16_finalized_header_valid.

(* non-vacuity: a concrete valid header, and a damaged copy *)
Definition ex_hdr : header :=
  {| h_magic := magic; h_version := version; h_pageSize := 1024; h_maxSize := 65536; h_flags := 0;
     h_root := 7; h_txid := 42; h_freelist := 5; h_wal := 0; h_dataEnd := 9; h_metaEnd := 9;
     h_metaTotal := 3; h_checksum := 0 |}.
Example C16_ex_valid : valid_slot (encode_header ex_hdr) = true /\ length (encode_header ex_hdr) = (csum_off + 4)%nat.
Proof. split; vm_compute; reflexivity. Qed.
Example C16_ex_damaged :
  valid_slot (firstn 33 (encode_header ex_hdr) ++ 43 :: skipn 34 (encode_header ex_hdr)) = false.
Proof. vm_compute. reflexivity. Qed.

(* non-vacuity of the fall-back theorem: a 3-page file whose slot 0 has a flipped bit in the page-size field *)
Definition ex_file : list Z :=
  let h := encode_header ex_hdr in
  (firstn 9 h ++ 0 :: skipn 10 h) ++ zeros (1024 - 84) ++ h ++ zeros (2048 - 84).
Example C16_ex_fallback : read_valid_meta ex_file = SelOk 1 42.
Proof. vm_compute. reflexivity. Qed.

(* ---- the pages an intact header refers to (D19) ----
   Open never panics: the readers of the free-list and mapping pages answer with an error when the entry count
   of a page is beyond the page, and the guard never changes the result on a page that can be decoded. *)
Theorem C16_entry_count_beyond_page_is_an_error : forall cnt p, Z.of_nat (length p) < cnt ->
  decode_entries_z cnt p = None /\ decode_wal_entries_z cnt p = None.
Proof. exact count_beyond_page_is_error. Qed.
Print Assumptions C16_entry_count_beyond_page_is_an_error.

Theorem C16_entry_count_guard_is_exact : forall cnt p,
  decode_entries_z cnt p = decode_entries (Z.to_nat cnt) p /\
  decode_wal_entries_z cnt p = decode_wal_entries (Z.to_nat cnt) p.
Proof. intros cnt p. split; [apply decode_entries_z_eq | apply decode_wal_entries_z_eq]. Qed.
Print Assumptions C16_entry_count_guard_is_exact.

(* ---- the fall-back header stays usable: how far a commit may truncate a bounded file (tx.go checkTruncate) ----
   When a commit truncates the file, the new size covers what the new commit needs AND what the previous commit - the
   header that is selected when the new one is damaged or lost - needs. *)
From VF Require Import Truncate TruncateProofs.
Theorem C16_truncate_keeps_both_commits : forall lastEnd sz mmapSz maxSz pageSize e,
  check_truncate lastEnd sz mmapSz maxSz pageSize = (e, true) ->
  (mmapSz <= e /\ lastEnd * pageSize <= e /\ maxSz <= e /\ e < sz /\ 0 < maxSz)%Z.
Proof. exact check_truncate_spec. Qed.
Print Assumptions C16_truncate_keeps_both_commits.

Theorem C16_truncate_clamped_refuted : exists lastEnd sz mmapSz maxSz pageSize e,
  check_truncate_clamped lastEnd sz mmapSz maxSz pageSize = (e, true) /\ (e < lastEnd * pageSize)%Z.
Proof. exact check_truncate_clamped_refuted. Qed.
Print Assumptions C16_truncate_clamped_refuted.

(* ... and how far a ROLLBACK may truncate it (tx.go rollbackChanges, fix D33): every page below the end of the state of
   the other header page stays inside the file; the code before the fix cut the fall-back state off *)
Theorem C16_rollback_keeps_the_other_headers_pages : forall metaEnd dataEnd otherEnd sz ps mp n,
  0 < ps -> rollback_truncate metaEnd dataEnd otherEnd sz ps mp = Some n ->
  forall id, 0 <= id < otherEnd -> (id + 1) * ps <= n.
Proof. intros me de oe sz ps mp n Hps H. exact (proj2 (proj2 (proj2 (rollback_truncate_spec _ _ _ _ _ _ _ Hps H)))). Qed.
Print Assumptions C16_rollback_keeps_the_other_headers_pages.
Theorem C16_rollback_before_the_fix_refuted : exists metaEnd dataEnd otherEnd sz ps mp n id,
  rollback_truncate_v1 metaEnd dataEnd sz ps mp = Some n /\ 0 <= id < otherEnd /\ n < (id + 1) * ps.
Proof. exact rollback_truncate_v1_refuted. Qed.

