(* C05 -- Queue delivers every flushed event exactly once, in order, byte-identical.
   Framing level: the payload areas of the linked pages form one stream; for EVERY list of events (every
   size that fits the 4-byte size field, incl. sizes ending exactly on page / header boundaries), EVERY
   page payload size, EVERY start position and whatever precedes or follows in the stream, the reader
   gets back exactly the events that were framed, in order; later appends never change what an earlier
   prefix parses to. The page linkage (next / first / last / off headers), the write buffer and flush
   selection are tied to this by the campaign (model parser run on the real page chain; slice-of-events
   oracle through the public API). *)
From VF Require Import PQ PQProofs.

Theorem C05_framing_roundtrip : forall P evs pre post,
  Forall (fun e => Z.of_nat (length e) < 256 ^ Z.of_nat hdr_len) evs ->
  parse_from P (pre ++ layout_from P (length pre) evs ++ post) (length pre) (length evs) = Some evs.
Proof. exact parse_layout. Qed.
Print Assumptions C05_framing_roundtrip.

Theorem C05_queue_delivers_what_was_written : forall P evs,
  Forall (fun e => Z.of_nat (length e) < 256 ^ Z.of_nat hdr_len) evs ->
  parse_from P (layout P evs) 0 (length evs) = Some evs.
Proof. exact queue_delivers_what_was_written. Qed.

Theorem C05_later_appends_do_not_disturb : forall P a b,
  Forall (fun e => Z.of_nat (length e) < 256 ^ Z.of_nat hdr_len) a ->
  parse_from P (layout P (a ++ b)) 0 (length a) = Some a.
Proof. exact prefix_stable. Qed.
Print Assumptions C05_later_appends_do_not_disturb.

Theorem C05_position_roundtrip : forall ps page off, 0 < ps -> 0 < page -> 0 < off <= ps ->
  parse_position ps (write_position ps page off) = (page, off).
Proof. exact position_roundtrip. Qed.

Theorem C05_id_order : forall a k, 0 < k < 2^63 -> id_less a (a + k) = true /\ id_less (a + k) a = false.
Proof. exact id_less_succ. Qed.

(* non-vacuity: payload 12 bytes; the second header would straddle the page end and is padded *)
Example C05_ex : parse_from 12 (layout 12 [[1;2;3;4;5;6]; [7]; [8;9;10;11;12;13;14;15;16]]) 0 3
                 = Some [[1;2;3;4;5;6]; [7]; [8;9;10;11;12;13;14;15;16]]
                 /\ length (layout 12 [[1;2;3;4;5;6]; [7]]) = 17%nat.
Proof. split; reflexivity. Qed.
