(* C05 -- Queue delivers every flushed event exactly once, in order, byte-identical.
   Framing level: the payload areas of the linked pages form one stream; for EVERY list of events (every
   size that fits the 4-byte size field, incl. sizes ending exactly on page / header boundaries), EVERY
   page payload size, EVERY start position and whatever precedes or follows in the stream, the reader
   gets back exactly the events that were framed, in order; later appends never change what an earlier
   prefix parses to. The page linkage (next / first / last / off headers), the write buffer and flush
   selection are tied to this by the campaign (model parser run on the real page chain; slice-of-events
   oracle through the public API). *)
From VF Require Import PQ PQProofs PQReaderProofs.

Theorem C05_framing_roundtrip : forall P evs pre post,
  Forall (fun e => Z.of_nat (length e) < 256 ^ Z.of_nat hdr_len) evs ->
  parse_from P (pre ++ layout_from P (length pre) evs ++ post) (length pre) (length evs) = Some evs.
Proof. exact parse_layout. Qed.
Print Assumptions C05_framing_roundtrip.

Theorem C05_queue_delivers_what_was_written : forall P evs,
  Forall (fun e => Z.of_nat (length e) < 256 ^ Z.of_nat hdr_len) evs ->
  parse_from P (layout P evs) 0 (length evs) = Some evs.
Proof. exact queue_delivers_what_was_written. Qed.

Theorem C05_later_appends_do_not_disturb : forall P a b,
  Forall (fun e => Z.of_nat (length e) < 256 ^ Z.of_nat hdr_len) a ->
  parse_from P (layout P (a ++ b)) 0 (length a) = Some a.
Proof. exact prefix_stable. Qed.
Print Assumptions C05_later_appends_do_not_disturb.

(* the reader as a state machine (Next / partial Read / skip of the unread rest): for every list of
   events (also events without contents: the code before fix D29 got stuck behind one), every payload size, every context in the stream and EVERY sequence of calls, the reader on the
   bytes reports the same sizes and returns the same bytes as the same calls on the list of events *)
Theorem C05_reader_refines_events : forall P pre evs post ops,
  Forall okev evs ->
  rd_run P (pre ++ layout_from P (length pre) evs ++ post) (length evs)
         {| r_pos := length pre; r_left := None; r_id := 0 |} ops
  = sp_run {| s_rest := evs; s_cur := None |} ops.
Proof. exact reader_refines_events. Qed.
Print Assumptions C05_reader_refines_events.

Theorem C05_reader_drains_everything : forall P pre evs post,
  Forall okev evs ->
  rd_run P (pre ++ layout_from P (length pre) evs ++ post) (length evs)
         {| r_pos := length pre; r_left := None; r_id := 0 |} (drain_ops evs) = drain_out evs.
Proof. exact reader_drains_everything. Qed.

(* the page-level cursor (Skip / Read across page ends) moves by exactly the bytes asked for; a cursor that
   changes page when fewer than a header's worth of bytes are left (a seeded defect) does not *)
Theorem C05_cursor_moves_exactly : forall fuel P pg off n,
  (0 < P)%nat -> (off <= P)%nat -> (n <= fuel)%nat ->
  let '(pg', off') := cur_adv fuel P pg off n in
  cur_lin P pg' off' = (cur_lin P pg off + n)%nat /\ (off' <= P)%nat.
Proof. exact cur_adv_lin. Qed.
Theorem C05_cursor_with_header_threshold_refuted : exists P pg off n,
  (off <= P)%nat /\ let '(pg', off') := cur_adv_thr hdr_len n P pg off n in cur_lin P pg' off' <> (cur_lin P pg off + n)%nat.
Proof. exact skip_threshold_refuted. Qed.

Theorem C05_position_roundtrip : forall ps page off, 0 < ps -> 0 < page -> 0 < off <= ps ->
  parse_position ps (write_position ps page off) = (page, off).
Proof. exact position_roundtrip. Qed.

Theorem C05_id_order : forall a k, 0 < k < 2^63 -> id_less a (a + k) = true /\ id_less (a + k) a = false.
Proof. exact id_less_succ. Qed.

(* non-vacuity: payload 12 bytes; the second header would straddle the page end and is padded *)
Example C05_ex : parse_from 12 (layout 12 [[1;2;3;4;5;6]; [7]; [8;9;10;11;12;13;14;15;16]]) 0 3
                 = Some [[1;2;3;4;5;6]; [7]; [8;9;10;11;12;13;14;15;16]]
                 /\ length (layout 12 [[1;2;3;4;5;6]; [7]]) = 17%nat.
Proof. split; reflexivity. Qed.

(* non-vacuity: Next, a partial Read, Next (skips the rest), Read of everything, Next at the end *)
Example C05_ex_reader :
  rd_run 12 (layout 12 [[1;2;3;4;5;6]; [7]; [8;9;10]]) 3 {| r_pos := 0; r_left := None; r_id := 0 |}
         [RNext; RRead 4; RNext; RRead 9; RNext; RRead 2; RRead 2; RNext]
  = [(Some 6%nat, []); (None, [1;2;3;4]); (Some 1%nat, []); (None, [7]); (Some 3%nat, []); (None, [8;9]); (None, [10]); (Some 0%nat, [])].
Proof. vm_compute. reflexivity. Qed.

(* ---- the writer (Model/PQWriter.v: pq/buffer.go + pq/writer.go; the model's complete buffer state, the queue root and
   the page images of every flush are compared with the implementation after EVERY Write / Next / Flush call of the
   campaigns, also the failing ones). For EVERY sequence of Write (any chunking), Next and Flush calls, whatever the
   flushes do - nothing to flush, success with any page ids, failure before or after the page allocation - and
   whatever the tail page loaded from the file held: the payload areas of all pages ever filled (released ones and the
   ones still in the buffer, each page but the last padded to the payload size) hold exactly: what the tail page held,
   the layout of the completed events (the framing the reader theorems are about), and the frame of the event being
   written (padding, 4 header bytes, the bytes written so far). A Write that reports an error has appended nothing; an
   event is complete after Next even when the implicit flush of Next failed. ---- *)
From VF Require Import PQWriter PQWriterProofs.
Theorem C05_writer_refines_the_event_stream : forall PS, (hdr_len <= payload PS)%nat ->
  forall pages tail endId root ops,
  match tail with Some t => (length (wp_data t) <= payload PS)%nat | None => True end ->
  let base := match tail with Some t => wp_data t | None => [] end in
  let '(s, rs) := w_run PS (w_init PS pages tail endId root) ops in
  let '(done, cur) := spec_run ([], []) ops rs in
  exists h4, length h4 = hdr_len /\
    flat (payload PS) (pdata (ws_hist s ++ b_pages (ws_buf s))) = pre_of PS base done ++ h4 ++ cur.
Proof.
  intros PS HP pages tail endId root ops Ht. cbn zeta.
  pose proof (w_run_SI PS HP ops _ _ [] [] (w_init_SI PS HP pages tail endId root Ht)) as H.
  destruct (w_run PS (w_init PS pages tail endId root) ops) as [s rs].
  destruct (spec_run ([], []) ops rs) as [done cur].
  exact (writer_stream PS s _ done cur H).
Qed.
Print Assumptions C05_writer_refines_the_event_stream.

(* non-vacuity: pages of 40 bytes (12 bytes payload); two events (5 bytes in two chunks, 9 bytes), a flush in the middle of
   the second one that fails late, one that succeeds: three pages, the second event crosses a page end *)
Example C05_ex_writer :
  let ops := [WWrite [1;2] FFailEarly; WWrite [3;4;5] FFailEarly; WNext FFailEarly; WWrite [6;7;8] FFailEarly;
              WFlush (FFailLate [7]); WFlush (FOk [7; 9]); WWrite [9;10;11;12;13;14] FFailEarly; WNext FFailEarly] in
  let '(s, rs) := w_run 40 (w_init 40 5 None 0 {| q_head := None; q_tail := (0, O, 0); q_inuse := 0 |}) ops in
  spec_run ([], []) ops rs = ([[1;2;3;4;5]; [6;7;8;9;10;11;12;13;14]], []) /\
  pdata (ws_hist s ++ b_pages (ws_buf s)) =
    [[5;0;0;0; 1;2;3;4;5]; [9;0;0;0; 6;7;8;9;10;11;12;13]; [14; 0;0;0;0]] /\
  map wp_id (ws_hist s ++ b_pages (ws_buf s)) = [7; 0; 0].
Proof. vm_compute. repeat split. Qed.

(* ---- what a flush publishes (ghost field wp_disk of the model: the payload last written to the file for a page). For
   EVERY run of Write / Next / Flush calls with any flush outcomes, followed by a Next or Flush call whose flush
   succeeds: the reader's parser (parse_from, the function of C05_framing_round_trip), run on the page payloads AS THEY
   WERE WRITTEN TO THE FILE - released pages and the buffer pages up to the page of the open event's header - from the
   position behind what the tail page held before, returns exactly the events completed so far: none missing, none
   twice, none truncated, whatever was flushed earlier, whichever flushes failed in between, however the events
   straddle pages. ---- *)
Theorem C05_flush_publishes_the_completed_events : forall PS, (hdr_len <= payload PS)%nat ->
  forall pages tail endId root ops o,
  match tail with Some t => (length (wp_data t) <= payload PS)%nat /\ wp_dirty t = false /\ wp_disk t = Some (wp_data t) | None => True end ->
  let base := match tail with Some t => wp_data t | None => [] end in
  let '(s1, rs) := w_run PS (w_init PS pages tail endId root) ops in
  let '(s2, r) := w_step PS s1 o in
  let '(done, cur) := spec_step (spec_run ([], []) ops rs) o r in
  match o, r with
  | WNext _, WOk (Some (FDone _ _ _, _)) | WFlush _, WOk (Some (FDone _ _ _, _)) =>
      Forall (fun e => Z.of_nat (length e) < 256 ^ Z.of_nat hdr_len) done ->
      exists i off, b_hdr (ws_buf s2) = Some (i, off) /\
        parse_from (payload PS) (flat (payload PS) (map disk_data (cores (ws_hist s2 ++ firstn (S i) (b_pages (ws_buf s2))))))
                   (length base) (length done) = Some done
  | _, _ => True
  end.
Proof. exact flush_publishes_events. Qed.
Print Assumptions C05_flush_publishes_the_completed_events.

(* non-vacuity: the run of C05_ex_writer ends with a Next; a Flush that succeeds follows: three pages in the file *)
Example C05_ex_flush_publishes :
  let ops := [WWrite [1;2] FFailEarly; WWrite [3;4;5] FFailEarly; WNext FFailEarly; WWrite [6;7;8] FFailEarly;
              WFlush (FFailLate [7]); WFlush (FOk [7; 9]); WWrite [9;10;11;12;13;14] FFailEarly; WNext FFailEarly] in
  let '(s1, rs) := w_run 40 (w_init 40 5 None 0 {| q_head := None; q_tail := (0, O, 0); q_inuse := 0 |}) ops in
  let '(s2, r) := w_step 40 s1 (WFlush (FOk [11; 12])) in
  (exists imgs p a cb, r = WOk (Some (FDone imgs p a, cb)) /\ map (fun im => fst (fst (fst (fst (fst im))))) imgs = [7; 11; 12]) /\
  map disk_data (cores (ws_hist s2 ++ firstn 1 (b_pages (ws_buf s2)))) = [[5;0;0;0; 1;2;3;4;5]; [9;0;0;0; 6;7;8;9;10;11;12;13]; [14; 0;0;0;0]] /\
  q_tail (ws_root s2) = (12, 29%nat, 2).
Proof. vm_compute. split; [repeat eexists|split; reflexivity]. Qed.
