(* C04 -- Exclusive page ownership: allocation never hands out a page that is in use.
   Model: Model/Alloc.v (exact transcription of alloc.go / freelist.go / region.go, validated against
   the implementation after every operation of random scripts). Region lists are read as sets of
   page ids (inl). Property theorems only. *)
From VF Require Import Region Freelist Alloc RegionProofs AllocProofs TxAllocProofs MetaAllocProofs HistoryProofs OverflowProofs.
From Coq Require Import Lia.

(* Tx.Alloc / Tx.AllocN: every page handed out was free (in the data free list, or beyond the end of
   the data area), the pages are pairwise distinct (a well-formed region list), ids >= 2, and after the
   call they are neither free nor beyond the end: they can not be handed out again; nothing else
   changes (the meta area is untouched, the free list only shrinks). *)
Theorem C04_alloc_hands_out_free_pages_only : forall a t n regs cnt a' t',
  DataInv a -> 0 < n < 2^32 ->
  data_alloc_regions a t n = (regs, cnt, a', t') ->
  (data_avail a < n -> regs = [] /\ cnt = 0 /\ a' = a /\ t' = t) /\
  (n <= data_avail a ->
     cnt = n /\ count_pages regs = n /\ wfl 2 regs /\
     (forall id, inl id regs -> inl id (fregions (a_free (data a))) \/ a_end (data a) <= id) /\
     (forall id, inl id regs -> ~ inl id (fregions (a_free (data a'))) /\ id < a_end (data a')) /\
     DataInv a' /\
     (forall id, inl id (fregions (a_free (data a'))) -> inl id (fregions (a_free (data a)))) /\
     a_free (meta a') = a_free (meta a) /\ metaTotal a' = metaTotal a /\ maxPages a' = maxPages a /\
     (maxPages a <> 0 -> data_avail a' = data_avail a - n)).
Proof. exact data_alloc_regions_spec. Qed.
Print Assumptions C04_alloc_hands_out_free_pages_only.

(* freeing a page of the committed state only records it: the allocator is unchanged, so the page can
   not be handed out again before the commit *)
Theorem C04_freed_committed_page_not_reusable : forall a t id a' t',
  set_mem id (t_new (tdata t)) = false -> data_free a t id = Some (a', t') ->
  a' = a /\ t_freed (tdata t') = set_add id (t_freed (tdata t)) /\
  t_allocated (tdata t') = t_allocated (tdata t) /\ t_new (tdata t') = t_new (tdata t) /\
  2 <= id < a_end (data a).
Proof. exact data_free_committed_page. Qed.

(* freeing a page allocated by the same transaction returns it to the free list and keeps the data
   area invariant (also when the end marker moves back) *)
Theorem C04_free_fresh_page : forall a t id a' t',
  DataInv a -> set_mem id (t_new (tdata t)) = true ->
  ~ inl id (fregions (a_free (data a))) ->
  data_free a t id = Some (a', t') ->
  DataInv a' /\
  (forall x, inl x (fregions (a_free (data a'))) -> x = id \/ inl x (fregions (a_free (data a)))) /\
  a_end (data a') <= a_end (data a) /\
  (forall x, x <> id -> inl x (fregions (a_free (data a))) -> x < a_end (data a') ->
             inl x (fregions (a_free (data a')))).
Proof. exact data_free_fresh_page. Qed.
Print Assumptions C04_free_fresh_page.

(* the free-list operations as operations on sets of page ids *)
Theorem C04_freelist_alloc : forall fromEnd lo f n a f',
  wff lo f -> 0 <= n -> fl_alloc_regions fromEnd f n = (a, f') ->
  wff lo f' /\ wfl lo a /\
  (n <= avail f -> count_pages a = n /\ avail f' = avail f - n) /\
  (avail f < n -> a = [] /\ f' = f) /\
  (forall id, inl id (fregions f) <-> inl id a \/ inl id (fregions f')) /\
  (forall id, inl id a -> ~ inl id (fregions f')).
Proof. exact fl_alloc_regions_spec. Qed.
Theorem C04_freelist_add : forall f reg lo, wff lo f -> lo <= rid reg -> 0 < rcount reg < 2^32 ->
  (forall id, inr id reg -> ~ inl id (fregions f)) ->
  wff lo (fl_add_region f reg) /\
  (forall id, inl id (fregions (fl_add_region f reg)) <-> inr id reg \/ inl id (fregions f)) /\
  avail (fl_add_region f reg) = avail f + rcount reg.
Proof. exact fl_add_region_spec. Qed.
Theorem C04_freelist_remove : forall f reg lo, wff lo f ->
  wff lo (fl_remove_region f reg) /\
  (forall id, inl id (fregions (fl_remove_region f reg)) <-> inl id (fregions f) /\ ~ inr id reg).
Proof. exact fl_remove_region_spec. Qed.
Theorem C04_freelist_merge : forall a b lo, wfl lo a -> wfl lo b -> disjoint_l a b ->
  wfl lo (merge_region_lists a b) /\
  (forall id, inl id (merge_region_lists a b) <-> inl id a \/ inl id b) /\
  count_pages (merge_region_lists a b) = count_pages a + count_pages b.
Proof. exact merge_region_lists_spec. Qed.
Print Assumptions C04_freelist_merge.

(* ---- whole transactions: every state reachable by data allocations, frees, overwrite-page and meta page
   allocations (with every growth of the meta area they cause; no overflow area) keeps the two free lists
   disjoint, below the end of the data area, and the pages moved to the meta area out of the data free list ---- *)
Theorem C04_tx_invariant : forall a0 p a t, Inv0 a0 -> treach a0 p a t -> FullInv a0 a t.
Proof. exact treach_inv. Qed.
Print Assumptions C04_tx_invariant.

Theorem C04_free_lists_disjoint : forall a0 p a t, Inv0 a0 -> treach a0 p a t ->
  forall id, inl id (fregions (a_free (meta a))) -> ~ inl id (fregions (a_free (data a))) /\ id < a_end (data a).
Proof. intros a0 p a t I R. exact (fi_mbelow _ _ _ (treach_inv _ _ _ _ I R)). Qed.

(* an overwrite page handed out was a free page of the meta area and is free in neither list afterwards *)
Theorem C04_overwrite_page_fresh : forall a0 a t id a' t',
  Inv0 a0 -> FullInv a0 a t -> metaTotal a < 2^28 ->
  wal_alloc a t = Some (id, a', t') ->
  FullInv a0 a' t' /\
  (id <> 0 -> In id (t_allocated (tmeta t')) /\ ~ inl id (fregions (a_free (meta a'))) /\ ~ inl id (fregions (a_free (data a')))).
Proof. exact full_wal_alloc_step. Qed.
Theorem C04_meta_pages_fresh : forall a0 a t n regs a' t',
  Inv0 a0 -> FullInv a0 a t -> 0 <= n < 2^28 -> metaTotal a < 2^28 ->
  meta_alloc_regions a t n = Some (regs, a', t') ->
  FullInv a0 a' t' /\
  (forall id, inl id regs -> In id (t_allocated (tmeta t')) /\ ~ inl id (fregions (a_free (meta a'))) /\ ~ inl id (fregions (a_free (data a')))).
Proof. exact full_meta_alloc_step. Qed.
Print Assumptions C04_meta_pages_fresh.

(* growth of the meta area takes its pages out of the data free list or from past the end of the data area,
   never a page of the meta free list *)
Theorem C04_meta_growth : forall a t count ok a' t',
  DataInv a -> wff 2 (a_free (meta a)) ->
  (forall id, inl id (fregions (a_free (meta a))) -> ~ inl id (fregions (a_free (data a))) /\ id < a_end (data a)) ->
  a_end (data a) <= a_end (meta a) -> 0 <= count < 2^32 ->
  try_grow a t count false = (ok, a', t') ->
  (a' = a /\ t' = t) \/ exists regs, GrowEff a t a' t' regs.
Proof. exact try_grow_spec. Qed.

(* ---- whole histories: any sequence of transactions, each any sequence of operations (treach2 spells out what
   the caller owes: Tx.Free only of a data page in use, meta frees only of meta pages in use), each ending in
   the commit step or in a rollback. At every quiescent point: both free lists well-formed, disjoint, below the
   end of the data area, the free-list pages in neither of them, end markers within the size limit (InvQ);
   inside every transaction the invariants FullInv and FreedInv (nothing recorded as freed is in a free list
   or handed out again before the commit). Hence every page Alloc / the meta allocators hand out at any point of
   any history is a page that is free at that point (C04_alloc_hands_out_free_pages_only, C04_overwrite_page_fresh,
   C04_meta_pages_fresh apply in every such state). No overflow area; meta area < 2^28 pages. ---- *)
Theorem C04_history_invariant : forall a, hreach a -> InvQ a.
Proof. exact hreach_inv. Qed.
Print Assumptions C04_history_invariant.

Theorem C04_history_tx_invariant : forall a0 p a t, hreach a0 -> treach2 a0 p a t -> FullInv a0 a t /\ FreedInv a0 a t.
Proof. exact history_tx_inv. Qed.

(* the commit step: freed pages join the free lists only now; the result is again a quiescent state *)
Theorem C04_commit_step : forall a0 a t extra a',
  InvQ a0 -> FullInv a0 a t -> FreedInv a0 a t -> metaTotal a < 2^28 ->
  commit_n a (if tx_updated t then meta_free_regions t (flPages a) else t) < 2^28 ->
  commit_step a t extra = CoOk a' -> InvQ a'.
Proof. exact commit_step_inv. Qed.
Print Assumptions C04_commit_step.

(* non-vacuity *)
Definition ex_alloc : allocst :=
  {| maxPages := 64; pageSize := 1024;
     meta := {| a_end := 12; a_free := {| avail := 2; fregions := [{| rid := 3; rcount := 2 |}] |} |}; metaTotal := 4;
     data := {| a_end := 12; a_free := {| avail := 3; fregions := [{| rid := 7; rcount := 1 |}; {| rid := 9; rcount := 2 |}] |} |};
     flRoot := 2; flPages := [{| rid := 2; rcount := 1 |}] |}.
Example C04_ex_inv : DataInv ex_alloc.
Proof.
  constructor; cbn.
  - split; cbn; [|reflexivity]. repeat (constructor; cbn; try lia).
  - intros id [r [[<-|[<-|[]]] H]]; unfold inr, rend in H; cbn in H; lia.
  - lia.
Qed.
Example C04_ex_alloc : let '(regs, cnt, _, _) := data_alloc_regions ex_alloc (make_tx ex_alloc false 0) 5 in
  regs = [{| rid := 7; rcount := 1 |}; {| rid := 9; rcount := 2 |}; {| rid := 12; rcount := 2 |}] /\ cnt = 5.
Proof. vm_compute. split; reflexivity. Qed.

(* non-vacuity of the history theorem: a transaction that allocates an overwrite page (the meta area grows out
   of the data free list), allocates data pages, frees a committed page, and commits; then a second
   transaction that is rolled back *)
Definition ex_h : allocst :=
  {| maxPages := 64; pageSize := 1024; meta := {| a_end := 9; a_free := fl_empty |}; metaTotal := 0;
     data := {| a_end := 9; a_free := {| avail := 2; fregions := [{| rid := 3; rcount := 2 |}] |} |}; flRoot := 0; flPages := [] |}.
Example C04_ex_invq : InvQ ex_h.
Proof.
  constructor.
  - constructor; cbn.
    + constructor; cbn.
      * split; [constructor; cbn; [lia | lia | constructor] | reflexivity].
      * intros id H. apply inl_cons in H as [H|H]; [unfold inr, rend in H; cbn in H; lia | destruct (inl_nil _ H)].
      * lia.
    + split; [constructor | reflexivity].
    + lia.
    + intros id H. destruct (inl_nil _ H).
  - intros id H. destruct (inl_nil _ H).
  - right. cbn. lia.
Qed.
Example C04_ex_history : exists a1 a2, hreach a1 /\ hreach a2 /\ a1 <> ex_h /\ flPages a1 <> [].
Proof.
  destruct (wal_alloc ex_h (make_tx ex_h false 0)) as [[[id a1] t1]|] eqn:E1; [|vm_compute in E1; discriminate].
  destruct (data_alloc_regions a1 t1 3) as [[[regs cnt] a2] t2] eqn:E2.
  destruct (data_free a2 t2 7) as [[a3 t3]|] eqn:E3; [|vm_compute in E1; injection E1 as <- <- <-; vm_compute in E2; injection E2 as _ _ <- <-; vm_compute in E3; discriminate].
  assert (R3: treach2 ex_h 0 a3 t3).
  { eapply t2_free; [eapply t2_alloc; [eapply t2_wal; [apply t2_init | | exact E1] | | exact E2] | | | | | exact E3].
    - vm_compute. reflexivity.
    - split; reflexivity.
    - vm_compute in E1. injection E1 as <- <- <-. vm_compute in E2. injection E2 as _ _ <- <-. cbn.
      intros H. repeat (apply inl_cons in H as [H|H]; [unfold inr, rend in H; cbn in H; lia|]). destruct (inl_nil _ H).
    - vm_compute in E1. injection E1 as <- <- <-. vm_compute in E2. injection E2 as _ _ <- <-. cbn.
      intros H. repeat (apply inl_cons in H as [H|H]; [unfold inr, rend in H; cbn in H; lia|]). destruct (inl_nil _ H).
    - vm_compute in E1. injection E1 as <- <- <-. vm_compute in E2. injection E2 as _ _ <- <-. cbn.
      intros H. repeat (apply inl_cons in H as [H|H]; [unfold inr, rend in H; cbn in H; lia|]). destruct (inl_nil _ H).
    - vm_compute in E1. injection E1 as <- <- <-. vm_compute in E2. injection E2 as _ _ <- <-. unfold prot. cbn.
      intros [[]|H]. destruct (inl_nil _ H). }
  destruct (commit_step a3 t3 false) as [a4| |] eqn:E4.
  2,3: vm_compute in E1; injection E1 as <- <- <-; vm_compute in E2; injection E2 as _ _ <- <-; vm_compute in E3; injection E3 as <- <-; vm_compute in E4; discriminate.
  assert (H4: hreach a4).
  { eapply h_commit; [apply h_init; exact C04_ex_invq | exact R3 | | | exact E4].
    - vm_compute in E1. injection E1 as <- <- <-. vm_compute in E2. injection E2 as _ _ <- <-. vm_compute in E3. injection E3 as <- <-. vm_compute. reflexivity.
    - vm_compute in E1. injection E1 as <- <- <-. vm_compute in E2. injection E2 as _ _ <- <-. vm_compute in E3. injection E3 as <- <-. vm_compute. reflexivity. }
  destruct (data_alloc_regions a4 (make_tx a4 false 0) 4) as [[[regs5 cnt5] a5] t5] eqn:E5.
  exists a4, (rollback a5 t5). split; [exact H4|]. split.
  - eapply h_abort; [exact H4 | eapply t2_alloc; [apply t2_init | | exact E5] |].
    + split; reflexivity.
    + vm_compute in E1. injection E1 as <- <- <-. vm_compute in E2. injection E2 as _ _ <- <-. vm_compute in E3. injection E3 as <- <-.
      vm_compute in E4. injection E4 as <-. vm_compute in E5. injection E5 as _ _ <- <-. vm_compute. reflexivity.
  - vm_compute in E1. injection E1 as <- <- <-. vm_compute in E2. injection E2 as _ _ <- <-. vm_compute in E3. injection E3 as <- <-.
    vm_compute in E4. injection E4 as <-. split; discriminate.
Qed.

(* ---- the overflow area (Tx option EnableOverflowArea) ----
   When the data area cannot provide the pages the meta area needs, everything the data area has left is moved
   (pages that were free: from its free list or from behind its end marker, below the limit) and the rest is
   appended to the file: the pages [E, E + required) lie at or beyond both end markers, so they are in no list
   and were never handed out. (Per operation; the invariant over whole histories, C04_history_invariant,
   is proved for transactions without the overflow area.) *)
Theorem C04_overflow_growth_takes_fresh_pages : forall a t count ok a' t',
  DataInv a -> wff 2 (a_free (meta a)) ->
  (forall id, inl id (fregions (a_free (meta a))) ->
     ~ inl id (fregions (a_free (data a))) /\ id < a_end (meta a) /\ (id < a_end (data a) \/ maxPages a <= id)) ->
  a_end (data a) <= a_end (meta a) ->
  0 < maxPages a -> 0 < count < 2^32 -> data_avail a < count ->
  try_grow a t count true = (ok, a', t') ->
  let av := data_avail a in
  let required := count - av in
  exists regs E,
    ok = true /\
    count_pages regs = av /\ wfl 2 regs /\
    (forall id, inl id regs -> inl id (fregions (a_free (data a))) \/ a_end (data a) <= id) /\
    (forall id, inl id regs -> ~ inl id (fregions (a_free (data a'))) /\ id < a_end (data a')) /\
    (forall id, inl id (fregions (a_free (data a'))) -> inl id (fregions (a_free (data a)))) /\
    DataInv a' /\
    a_end (meta a) <= E /\ a_end (data a') <= E /\ E <= Z.max (a_end (meta a)) (maxPages a) /\
    a_end (data a') <= Z.max (a_end (data a)) (maxPages a) /\
    a_end (meta a') = E + required /\ 0 < required /\
    wff 2 (a_free (meta a')) /\
    (forall id, inl id (fregions (a_free (meta a'))) <->
       inl id (fregions (a_free (meta a))) \/ inl id regs \/ E <= id < E + required) /\
    metaTotal a' = metaTotal a + count /\
    moveToMeta t' = moveToMeta t ++ regs /\
    st_ovf_alloc t' = st_ovf_alloc t + required /\
    maxPages a' = maxPages a /\
    (exists regs1 regs2, regs = regs1 ++ regs2 /\ wfl 2 regs1 /\
       (forall id, inl id regs1 <-> inl id (fregions (a_free (data a))) /\ ~ inl id (fregions (a_free (data a')))) /\
       (forall id, inl id regs2 -> a_end (data a) <= id) /\
       t_allocated (tdata t') = set_add_all (regions_ids regs1) (t_allocated (tdata t))) /\
    t_end (tdata t') = t_end (tdata t) /\ t_end (tmeta t') = t_end (tmeta t) /\
    t_allocated (tmeta t') = t_allocated (tmeta t) /\
    pageSize a' = pageSize a /\ flRoot a' = flRoot a /\ flPages a' = flPages a.
Proof. exact try_grow_overflow_spec. Qed.
Print Assumptions C04_overflow_growth_takes_fresh_pages.

Example C04_ex_overflow :
  data_avail ovf_ex = 6 /\
  (let '(ok, a, t) := try_grow ovf_ex (make_tx ovf_ex true 0) 10 true in
   ok = true /\ a_end (meta a) = 68 /\ a_end (data a) = 64 /\ metaTotal a = 14 /\ st_ovf_alloc t = 4 /\
   fregions (a_free (meta a)) = [{| rid := 5; rcount := 1 |}; {| rid := 10; rcount := 2 |}; {| rid := 60; rcount := 8 |}] /\
   rollback a t = ovf_ex).
Proof. exact ovf_ex_grow_and_rollback. Qed.
