(* C08 -- I/O failures are contained.
   (a) writer: the first failing disk call of a commit makes the error sticky - no later page write or
       sync of that commit is even attempted; the header write takes effect only if every page write
       and the first sync took effect; a commit reports success only if every request took effect; the
       final (reset) sync clears the error so that the next transaction's writes are attempted again.
       Hence the EFFECTIVE disk trace of a failing commit is a prefix-like sub-trace of the fault-free
       one that the C01 monitor accepts, and
   (b) the crash theorem (C01) applies to it: from every crash image recovery yields the last committed
       state or, completely, the attempt whose header write took effect (its only failure being the
       final sync).
   NOT established - and refuted on the implementation by the campaign (known findings F2, F3): the
   in-process continuation after a failed final sync keeps the on-disk header of the attempt valid while
   its pages are truncated / reused; a failed remap (size / mmap error after munmap) leaves the File
   without mapping. *)
From VF Require Import WriterErr WriterErrProofs Monitor Crash CrashInst.

Theorem C08_header_only_after_everything : forall plan pages hdr,
  let '(rs, e, _) := run_writer plan (commit_prog pages hdr) false 0 in
  e = false /\
  length rs = (length pages + 3)%nat /\
  (forall rh, nth_error rs (length pages + 1) = Some rh -> r_effective rh = true ->
      (forall i r, (i <= length pages)%nat -> nth_error rs i = Some r -> r_effective r = true)) /\
  (commit_reports_error rs = false -> Forall (fun r => r_effective r = true) rs).
Proof. exact header_only_after_everything. Qed.
Print Assumptions C08_header_only_after_everything.

Theorem C08_sticky_error_no_disk_calls : forall plan ops k,
  (forall r, In (WSync r) ops -> r = false) ->
  let '(rs, e, k') := run_writer plan ops true k in
  e = true /\ k' = k /\ Forall (fun r => r_attempted r = false /\ r_effective r = false /\ r_reported_err r = true) rs.
Proof. exact sticky_no_calls. Qed.

(* D16 (repaired): a transaction that scheduled page writes (Tx.Flush / Page.Flush) and ends in Rollback / Close.
   Whatever call failed while those writes were executed, the writer is clean afterwards, and a following commit
   during which no call fails reports success with every request effective ("once the failures stop new
   transactions commit successfully"); without the reset issued by Rollback/Close the statement is false. *)
Theorem C08_aborted_tx_does_not_poison_the_next : forall plan flushed pages hdr,
  let '(_, e, k) := run_abort true plan flushed false 0 in
  e = false /\
  ((forall i, (k <= i)%nat -> plan i = false) ->
   let '(rs, e', _) := run_writer plan (commit_prog pages hdr) e k in
   commit_reports_error rs = false /\ Forall (fun r => r_effective r = true) rs).
Proof. exact abort_fixed_then_commit. Qed.
Print Assumptions C08_aborted_tx_does_not_poison_the_next.
Theorem C08_without_the_reset_refuted : exists plan flushed pages hdr,
  let '(_, e, k) := run_abort false plan flushed false 0 in
  (forall i, (k <= i)%nat -> plan i = false) /\
  let '(rs, _, _) := run_writer plan (commit_prog pages hdr) e k in
  commit_reports_error rs = true /\ Forall (fun r => r_attempted r = false) (firstn (length pages + 2) rs).
Proof. exact abort_unfixed_refuted. Qed.

(* crash safety of faulty traces: the monitor ignores failed calls; every accepted effective trace
   recovers to the last committed view or completely to the in-flight attempt *)
Theorem C08_fault_crash : forall fuel evs m0 m,
  MInv fuel m0 -> mon_run fuel m0 evs = Some m ->
  forall ws, crashsub cell header hdr_of (pend m) ws ->
  mon_recover fuel (apply cell ws (dd m)) = Some (cst m) \/
  (exists c h v fp, infl m = Some (c, h, v, fp) /\ mon_recover fuel (apply cell ws (dd m)) = Some v).
Proof. exact crash_atomic_concrete. Qed.
Print Assumptions C08_fault_crash.

(* non-vacuity: a commit of 3 pages whose second page write fails *)
Example C08_ex :
  let '(rs, e, k) := run_writer (fun i => Nat.eqb i 1) (commit_prog [10; 11; 12] 1) false 0 in
  map r_effective rs = [true; false; false; false; false; false] /\ map r_attempted rs = [true; true; false; false; false; false] /\ e = false /\ k = 2%nat.
Proof. repeat split. Qed.
