(* What the Flushed callback reports. flushBuffer invokes the callback with the number of events completed since the
   last successful flush whenever doFlush does not fail - also when doFlush found nothing to write. This is right only
   because "nothing to write" (the head page of the buffer is clean) implies that every page up to the page of the open
   header is clean, i.e. everything completed is in the file already. The invariant behind it: the open header lives in
   the first or second page of the buffer, or the head page is dirty. *)
From VF Require Import PQ PQWriter BytesProofs PQProofs PQWriterProofs.
From Coq Require Import Lia ZifyNat ZifyBool.

Definition dflags (l : list wpage) : list bool := map wp_dirty l.

(* DH D i: D = dirty flags of the buffer pages, i = index of the page with the open header *)
Definition DH (D : list bool) (i : nat) : Prop :=
  (i < length D)%nat /\
  (hd true D = false -> (i <= 1)%nat /\ forall q, (q <= i)%nat -> nth q D true = false).

Definition HeadInv (b : wbuf) : Prop := exists i off, b_hdr b = Some (i, off) /\ DH (dflags (b_pages b)) i.
(* between CommitEvent and ReserveHdr: the head page is dirty, or nothing has happened yet (at most one clean page) *)
Definition HeadC (b : wbuf) : Prop :=
  hd true (dflags (b_pages b)) = true \/ ((length (b_pages b) <= 1)%nat /\ Forall (fun d => d = false) (dflags (b_pages b))).

Lemma dflags_app a b : dflags (a ++ b) = dflags a ++ dflags b. Proof. apply map_app. Qed.

Lemma DH_snoc D i x : DH D i -> DH (D ++ [x]) i.
Proof.
  intros [Hi H]. split; [rewrite app_length; cbn; lia|]. intros Hh.
  destruct D as [|d D]; [cbn in Hi; lia|]. cbn [hd app] in Hh. destruct (H Hh) as [H1 H2]. split; [exact H1|].
  intros q Hq. rewrite app_nth1 by lia. apply H2. exact Hq.
Qed.

Section Count.
Variable PS : nat.

Lemma append_byte_HeadInv b x : HeadInv b -> HeadInv (append_byte PS b x).
Proof.
  intros (i & off & Hh & HD). exists i, off. unfold append_byte.
  assert (Hpush : forall l, dflags (upd_last (push [x]) l) = dflags l).
  { intros l. unfold dflags, upd_last. apply map_upd_nth. reflexivity. }
  destruct (room PS b =? 0)%nat; cbn [b_pages b_hdr advance]; (split; [exact Hh|]); rewrite Hpush.
  - rewrite dflags_app. apply DH_snoc. exact HD.
  - exact HD.
Qed.

Lemma append_HeadInv : forall data b, HeadInv b -> HeadInv (append PS b data).
Proof. unfold append. induction data as [|x data IH]; intros b H; cbn [fold_left]; [exact H|]. apply IH, append_byte_HeadInv, H. Qed.

Lemma set_hdr_size_HeadInv b sz : HeadInv b -> HeadInv (set_hdr_size b sz).
Proof.
  intros (i & off & Hh & HD). exists i, off. unfold set_hdr_size. rewrite Hh. cbn [b_pages b_hdr].
  split; [reflexivity|]. unfold dflags. rewrite map_upd_nth by reflexivity. exact HD.
Qed.

Lemma dflags_mark_from : forall l i, dflags (mark_from i l) = firstn i (dflags l) ++ repeat true (length l - i).
Proof.
  induction l as [|x l IH]; intros [|i]; cbn [mark_from dflags map firstn length Nat.sub repeat app]; auto.
  - f_equal. specialize (IH O). cbn [firstn app] in IH. unfold dflags in IH. rewrite IH, Nat.sub_0_r. reflexivity.
  - f_equal. apply IH.
Qed.

Lemma commit_event_HeadC b id : HeadInv b -> HeadC (commit_event b id).
Proof.
  intros (i & off & Hh & [Hi HD]). left. unfold commit_event. rewrite Hh. cbn [b_pages].
  set (ps1 := upd_nth i _ (b_pages b)).
  assert (E1 : dflags ps1 = dflags (b_pages b)).
  { unfold ps1, dflags. apply map_upd_nth. intros x. destruct (wp_off x =? 0)%nat; reflexivity. }
  assert (Hlen : length ps1 = length (b_pages b)) by (unfold ps1; apply upd_nth_length).
  assert (E2 : dflags (mark_from i ps1) = firstn i (dflags (b_pages b)) ++ repeat true (length (b_pages b) - i)).
  { rewrite dflags_mark_from, E1, Hlen. reflexivity. }
  unfold dflags in Hi. rewrite map_length in Hi.
  destruct (Nat.eqb_spec i 1) as [->|Hne].
  - unfold dflags at 1. rewrite (map_upd_nth_comm wp_dirty _ (fun _ => true)) by reflexivity.
    fold (dflags (mark_from 1 ps1)). rewrite E2.
    destruct (dflags (b_pages b)) as [|d D] eqn:ED; [apply (f_equal (@length _)) in ED; unfold dflags in ED; rewrite map_length in ED; cbn in ED; lia|]. reflexivity.
  - rewrite E2. destruct i as [|[|i]]; [|contradiction|].
    + cbn [firstn app]. destruct (length (b_pages b)) eqn:E; [lia|]. reflexivity.
    + (* the open header is in the third page or later: the head page is dirty already *)
      destruct (dflags (b_pages b)) as [|d D] eqn:ED; [unfold dflags in ED; apply (f_equal (@length _)) in ED; rewrite map_length in ED; cbn in ED; lia|].
      cbn [firstn app hd]. destruct d; [reflexivity|]. destruct (HD eq_refl) as [H1 _]. lia.
Qed.

Lemma reserve_hdr_HeadInv b : HeadC b -> HeadInv (reserve_hdr PS b).
Proof.
  intros HC. unfold reserve_hdr.
  set (b1 := if (room PS b <? hdr_len)%nat then advance b else b).
  assert (Hpush : forall l, dflags (upd_last (push (zeros hdr_len)) l) = dflags l).
  { intros l. unfold dflags, upd_last. apply map_upd_nth. reflexivity. }
  exists (length (b_pages b1) - 1)%nat, (pgH + tail_len PS b1)%nat. cbn [b_pages b_hdr]. split; [reflexivity|]. rewrite Hpush.
  assert (Hne : b_pages b1 <> []).
  { unfold b1. destruct (b_pages b) as [|p l] eqn:E.
    - unfold room, tail_len. rewrite E. cbn [rev]. rewrite Nat.sub_diag. pose proof hdr_len_4.
      destruct (Nat.ltb_spec 0 hdr_len); [|lia]. cbn [advance b_pages]. rewrite E. discriminate.
    - destruct (room PS b <? hdr_len)%nat; cbn [advance b_pages]; rewrite E; discriminate. }
  assert (HD1 : dflags (b_pages b1) = dflags (b_pages b) \/ dflags (b_pages b1) = dflags (b_pages b) ++ [false]).
  { unfold b1. destruct (room PS b <? hdr_len)%nat; [right; cbn [advance b_pages]; apply dflags_app | left; reflexivity]. }
  split; [unfold dflags; rewrite map_length; destruct (b_pages b1); [contradiction|cbn [length]; lia]|].
  intros Hhead.
  assert (HC' : (exists D, dflags (b_pages b) = true :: D) \/ ((length (b_pages b) <= 1)%nat /\ Forall (fun d => d = false) (dflags (b_pages b)))).
  { destruct HC as [Hd|HC]; [|right; exact HC]. destruct (dflags (b_pages b)) as [|d D] eqn:ED.
    - right. apply (f_equal (@length _)) in ED. unfold dflags in ED. rewrite map_length in ED. split; [cbn in ED; lia | constructor].
    - left. cbn in Hd. subst d. eauto. }
  destruct HC' as [[D ED]|[Hl Hall]].
  - exfalso. destruct HD1 as [E|E]; rewrite E, ED in Hhead; discriminate.
  - assert (Hlen1 : (length (b_pages b1) <= 2)%nat).
    { destruct HD1 as [E|E]; apply (f_equal (@length _)) in E; unfold dflags in E; rewrite ?app_length, !map_length in E; cbn [length] in E; lia. }
    split; [lia|]. intros q Hq.
    assert (Hall1 : Forall (fun d => d = false) (dflags (b_pages b1))).
    { destruct HD1 as [E|E]; rewrite E; [exact Hall | apply Forall_app; split; [exact Hall | constructor; [reflexivity|constructor]]]. }
    rewrite Forall_forall in Hall1. apply Hall1. apply nth_In. unfold dflags. rewrite map_length.
    destruct (b_pages b1); [contradiction|]. cbn [length] in *. lia.
Qed.


(* buffer.Reset after a flush of the clean pages A: it stops at the page of the open header or at the last flushed page *)
Lemma reset_end_clean : forall A B j h last, Forall (fun p => wp_dirty p = false) A ->
  (j <= Nat.min h last)%nat -> length A = S (Nat.min h last - j) ->
  reset_end (A ++ B) j (Some h) last = Nat.min h last.
Proof.
  induction A as [|a A IH]; intros B j h last Hcl Hj Hlen; [discriminate|].
  destruct A as [|a' A'].
  - (* the last clean page: j = stop *)
    cbn [length] in Hlen. assert (j = Nat.min h last) by lia. subst j. cbn [app].
    destruct B as [|b0 B']; cbn [reset_end]; [reflexivity|].
    destruct (Nat.eqb_spec h (Nat.min h last)); [reflexivity|].
    assert (Nat.min h last = last) by lia. rewrite H. rewrite Nat.eqb_refl, orb_true_r. reflexivity.
  - cbn [length] in Hlen. assert (Hlt : (j < Nat.min h last)%nat) by lia.
    change ((a :: a' :: A') ++ B) with (a :: (a' :: A') ++ B). cbn [reset_end app].
    destruct (Nat.eqb_spec h j); [lia|]. inversion Hcl as [|? ? _ Hcl']; subst. inversion Hcl' as [|? ? Ha' _]; subst.
    rewrite Ha'. destruct (Nat.eqb_spec j last); [lia|]. cbn [orb].
    apply (IH B (S j) h last Hcl'); cbn [length]; lia.
Qed.

Lemma dflags_assign : forall ids l, dflags (assign ids l) = dflags l.
Proof. intros ids l; revert ids. induction l as [|x l IH]; intros [|id ids]; cbn; auto. f_equal. apply IH. Qed.
Lemma dflags_stale : forall l, dflags (stale_links l) = dflags l.
Proof. induction l as [|x [|y l] IH]; cbn; auto. f_equal. exact IH. Qed.
Lemma dflags_map_same (f : wpage -> wpage) l : (forall x, wp_dirty (f x) = wp_dirty x) -> dflags (map f l) = dflags l.
Proof. intros H. unfold dflags. rewrite map_map. apply map_ext. exact H. Qed.

(* which pages a flush covers *)
Lemma flush_range_cases b i off n1 rep : b_hdr b = Some (i, off) -> (i < length (b_pages b))%nat -> flush_range b = (S n1, rep) ->
  hd true (dflags (b_pages b)) = true /\
  ((S n1 = i /\ nth i (dflags (b_pages b)) true = false) \/ (n1 = i /\ nth i (dflags (b_pages b)) true = true)).
Proof.
  intros Hh Hi FR. unfold flush_range in FR.
  assert (Hn : nth i (dflags (b_pages b)) true = wp_dirty (nth i (b_pages b) fresh_wpage)).
  { unfold dflags. rewrite (nth_indep _ true (wp_dirty fresh_wpage)) by (rewrite map_length; exact Hi). apply map_nth. }
  rewrite Hn. destruct (b_pages b) as [|h tl] eqn:E; [discriminate|].
  cbn [dflags map hd]. destruct (wp_dirty h) eqn:Ed; cbn [negb] in FR; [|discriminate]. split; [reflexivity|].
  rewrite Hh in FR.
  destruct (wp_dirty (nth i (h :: tl) fresh_wpage)) eqn:Edi; injection FR as <- _; [right|left]; split; reflexivity.
Qed.


Lemma nth_skipn_0 {A} : forall (l : list A) i d, nth 0 (skipn i l) d = nth i l d.
Proof. induction l as [|x l IH]; intros [|i] d; cbn; auto. Qed.

Lemma dflags_link : forall l, dflags (link l) = dflags l.
Proof. induction l as [|x [|y l] IH]; cbn; auto. f_equal. exact IH. Qed.

Lemma do_flush_HeadInv s fo : HeadInv (ws_buf s) -> HeadInv (ws_buf (fst (do_flush s fo))).
Proof.
  intros (i & off & Hh & [Hi HD]). pose proof Hi as Hi'. unfold dflags in Hi'. rewrite map_length in Hi'.
  unfold do_flush. destruct (flush_range (ws_buf s)) as [n reported] eqn:FR.
  destruct n as [|n1]; [cbn [fst]; exists i, off; split; [exact Hh | split; assumption]|].
  destruct (flush_range_cases (ws_buf s) i off n1 reported Hh Hi' FR) as [Hhd Hn].
  set (pages := b_pages (ws_buf s)) in *.
  set (range := firstn (S n1) pages). set (rest := skipn (S n1) pages). set (u := first_unassigned range).
  destruct fo as [ids| |ids]; cbn [fst ws_buf with_buf].
  - (* success *)
    set (range2 := link (firstn u range ++ assign ids (skipn u range))).
    set (A := map (fun p => set_disk (Some (wp_data p)) (set_dirty false p)) range2).
    assert (HlenA : length A = S n1).
    { unfold A, range2. rewrite map_length. rewrite <- (map_length wp_dirty). fold (dflags (link (firstn u range ++ assign ids (skipn u range)))).
      rewrite dflags_link, dflags_app, dflags_assign, <- dflags_app, firstn_skipn. unfold dflags, range. rewrite map_length, firstn_length. lia. }
    assert (HclA : Forall (fun p => wp_dirty p = false) A).
    { unfold A. apply Forall_forall. intros p Hp. apply in_map_iff in Hp. destruct Hp as (q & <- & _). reflexivity. }
    assert (Hn1 : (n1 <= i)%nat) by (destruct Hn as [[? _]|[? _]]; lia).
    rewrite Hh. cbn [option_map fst].
    assert (Hkk : reset_end (A ++ rest) 0 (Some i) n1 = n1).
    { rewrite <- (Nat.min_r i n1) at 2 by exact Hn1. apply reset_end_clean; [exact HclA | lia |]. rewrite Nat.min_r by exact Hn1. lia. }
    fold A. rewrite Hkk. cbn [b_pages b_hdr].
    exists (i - n1)%nat, off. split; [reflexivity|].
    assert (Hsk : dflags (skipn n1 (A ++ rest)) = false :: dflags rest).
    { unfold dflags. rewrite <- skipn_map, map_app, skipn_app.
      assert (EA : map wp_dirty A = repeat false (S n1)).
      { rewrite <- HlenA. clear - HclA. induction A as [|a A IH]; [reflexivity|]. inversion HclA; subst. cbn. f_equal; auto. }
      rewrite EA, repeat_length. replace (n1 - S n1)%nat with O by lia. cbn [skipn].
      replace (S n1) with (n1 + 1)%nat by lia. rewrite repeat_app, skipn_app, repeat_length, Nat.sub_diag.
      rewrite skipn_all2 by (rewrite repeat_length; lia). reflexivity. }
    cbn [b_pages]. rewrite Hsk. destruct Hn as [[Hni Hcl]|[Hni Hdi]].
    + (* the header page is clean and stays in front of the buffer as its second page *)
      assert (Ei : (i - n1 = 1)%nat) by lia. rewrite Ei.
      assert (Hrest : dflags rest = skipn i (dflags pages)) by (unfold rest, dflags; rewrite Hni; symmetry; apply skipn_map).
      assert (Hnz : nth 0 (skipn i (dflags pages)) true = false).
      { rewrite nth_skipn_0. exact Hcl. }
      split.
      * cbn [length]. rewrite Hrest, skipn_length. lia.
      * intros _. split; [lia|]. intros q Hq. destruct q as [|[|q]]; [reflexivity| |lia]. cbn [nth]. rewrite Hrest. exact Hnz.
    + assert (Ei : (i - n1 = 0)%nat) by lia. rewrite Ei. split; [cbn; lia|]. intros _. split; [lia|].
      intros q Hq. destruct q; [reflexivity|lia].
  - exists i, off. split; [exact Hh | split; assumption].
  - exists i, off. cbn [b_pages b_hdr]. split; [exact Hh|].
    assert (E : dflags ((firstn u (stale_links (firstn u range ++ assign ids (skipn u range))) ++
                        map (set_id 0) (skipn u (stale_links (firstn u range ++ assign ids (skipn u range))))) ++ rest) = dflags pages).
    { rewrite dflags_app, dflags_app, (dflags_map_same (set_id 0)) by reflexivity.
      rewrite <- dflags_app, firstn_skipn, dflags_stale, dflags_app, dflags_assign, <- dflags_app, firstn_skipn.
      unfold range, rest. rewrite <- dflags_app, firstn_skipn. reflexivity. }
    rewrite E. split; assumption.
Qed.


Lemma dflags_cores l : map c_dirty (cores l) = dflags l.
Proof. unfold cores, dflags. rewrite map_map. reflexivity. Qed.

(* nothing to write: everything completed is in the file already *)
Lemma nothing_published s : PubInv s -> HeadInv (ws_buf s) -> fst (flush_range (ws_buf s)) = O -> Published s.
Proof.
  intros [Hhist (CA & cp & CB & k & E & Hhdr & Hk & HA & Hp)] (i & off & Hh & [Hi HD]) FR.
  rewrite Hhdr in Hh. injection Hh as <- <-.
  assert (ED : dflags (b_pages (ws_buf s)) = map c_dirty CA ++ c_dirty cp :: map c_dirty CB).
  { rewrite <- dflags_cores, E, map_app. reflexivity. }
  (* the head page is clean *)
  assert (Hhead : hd true (dflags (b_pages (ws_buf s))) = false).
  { unfold flush_range in FR. destruct (b_pages (ws_buf s)) as [|h tl] eqn:Ep; [cbn in ED; destruct CA; discriminate|].
    cbn [dflags map hd]. destruct (wp_dirty h) eqn:Edh; [|reflexivity]. exfalso. cbn [negb] in FR. rewrite Hhdr in FR.
    destruct (wp_dirty (nth (length CA) (h :: tl) fresh_wpage)) eqn:Edi; cbn [fst] in FR; [discriminate|].
    (* nothing to flush although the head is dirty: the open header is in the head page, which then is clean *)
    subst. destruct CA; [|discriminate]. cbn [length nth] in Edi. congruence. }
  destruct (HD Hhead) as [Hle Hcl].
  split; [exact Hhist|]. exists CA, cp, CB, k. split; [exact E|]. split; [exact Hhdr|]. split; [exact Hk|].
  assert (HclA : forall c, In c CA -> c_dirty c = false).
  { intros c Hc. destruct (In_nth _ _ c Hc) as (q & Hq & Hnth). specialize (Hcl q ltac:(lia)).
    rewrite ED in Hcl. rewrite app_nth1 in Hcl by (rewrite map_length; exact Hq).
    rewrite (nth_indep _ true (c_dirty c)) in Hcl by (rewrite map_length; exact Hq). rewrite map_nth, Hnth in Hcl. exact Hcl. }
  split.
  - apply Forall_forall. intros c Hc. split; [apply HclA; exact Hc|]. rewrite Forall_forall in HA. apply (HA c Hc), HclA, Hc.
  - apply Hp. specialize (Hcl (length CA) ltac:(lia)). rewrite ED in Hcl.
    rewrite app_nth2 in Hcl by (rewrite map_length; lia). rewrite map_length, Nat.sub_diag in Hcl. exact Hcl.
Qed.

(* a flush that does not fail - also one that finds nothing to write - leaves everything completed in the file *)
Record WInv (s : wst) : Prop := { wi_pub : PubInv s; wi_head : HeadInv (ws_buf s) }.

Lemma flush_buffer_WInv s fo : WInv s ->
  WInv (fst (flush_buffer s fo)) /\
  match snd (flush_buffer s fo) with WOk (Some _) => Published (fst (flush_buffer s fo)) | _ => True end.
Proof.
  intros [HP1 HH1]. destruct (do_flush_Pub s fo HP1) as [HP2 HPub]. pose proof (do_flush_HeadInv s fo HH1) as HH2.
  assert (Hnothing : snd (do_flush s fo) = FNothing -> fst (do_flush s fo) = s /\ fst (flush_range (ws_buf s)) = O).
  { unfold do_flush. destruct (flush_range (ws_buf s)) as [n rep]. destruct n; [split; reflexivity|]. destruct fo; cbn [snd]; discriminate. }
  unfold flush_buffer. destruct (do_flush s fo) as [s1 r]. cbn [fst snd] in *.
  destruct r as [|imgs pg al|pg al]; cbn [fst snd].
  - destruct (Hnothing eq_refl) as [-> FR]. pose proof (nothing_published s HP1 HH1 FR) as HPb.
    assert (HPb' : Published {| ws_buf := ws_buf s; ws_evBytes := ws_evBytes s; ws_evId := ws_evId s; ws_active := 0; ws_root := ws_root s; ws_hist := ws_hist s |}) by exact HPb.
    split; [split; [apply Published_PubInv; exact HPb' | exact HH1] | exact HPb'].
  - assert (HPb' : Published {| ws_buf := ws_buf s1; ws_evBytes := ws_evBytes s1; ws_evId := ws_evId s1; ws_active := 0; ws_root := ws_root s1; ws_hist := ws_hist s1 |}) by exact HPub.
    split; [split; [apply Published_PubInv; exact HPb' | exact HH2] | exact HPb'].
  - split; [split; assumption | exact I].
Qed.

Theorem w_step_WInv s o : WInv s ->
  WInv (fst (w_step PS s o)) /\
  match o, snd (w_step PS s o) with
  | WNext _, WOk (Some _) | WFlush _, WOk (Some _) => Published (fst (w_step PS s o))
  | _, _ => True
  end.
Proof.
  intros H. destruct o as [data fo|fo|fo]; cbn [w_step].
  - assert (Hgo : forall s1, WInv s1 ->
              WInv {| ws_buf := append PS (ws_buf s1) data; ws_evBytes := ws_evBytes s1 + Z.of_nat (length data); ws_evId := ws_evId s1;
                      ws_active := ws_active s1; ws_root := ws_root s1; ws_hist := ws_hist s1 |}).
    { intros s1 [[Ha Hb] Hc]. split; [split; cbn [ws_hist ws_buf]; [exact Ha | apply append_PubB; exact Hb] | apply append_HeadInv; exact Hc]. }
    destruct (b_avail (ws_buf s) <=? Z.of_nat (length data))%Z.
    + destruct (flush_buffer_WInv s fo H) as [H1 _]. destruct (flush_buffer s fo) as [s1 r]. cbn [fst] in H1.
      destruct r; cbn [fst snd]; (split; [|exact I]); [apply Hgo; exact H1 | exact H1].
    + cbn [fst snd]. split; [apply Hgo; exact H | exact I].
  - destruct H as [[Ha Hb] Hc].
    set (b1 := reserve_hdr PS (commit_event (set_hdr_size (ws_buf s) (ws_evBytes s)) (ws_evId s))).
    assert (H1 : WInv {| ws_buf := b1; ws_evBytes := 0; ws_evId := ws_evId s + 1; ws_active := ws_active s + 1; ws_root := ws_root s;
                         ws_hist := ws_hist s |}).
    { split; [split; cbn [ws_hist ws_buf]; [exact Ha|]|]; unfold b1.
      - apply reserve_hdr_PubB, commit_event_PubC, set_hdr_size_PubB, Hb.
      - apply reserve_hdr_HeadInv, commit_event_HeadC, set_hdr_size_HeadInv, Hc. }
    destruct (b_avail b1 <=? Z.of_nat hdr_len)%Z.
    + exact (flush_buffer_WInv _ fo H1).
    + cbn [fst snd]. split; [exact H1 | exact I].
  - exact (flush_buffer_WInv s fo H).
Qed.

Theorem w_init_WInv pages tail endId r :
  match tail with Some t => wp_dirty t = false /\ wp_disk t = Some (wp_data t) | None => True end ->
  WInv (w_init PS pages tail endId r).
Proof.
  intros Ht. split; [apply w_init_Pub; exact Ht|]. cbn [w_init ws_buf]. apply reserve_hdr_HeadInv. right.
  destruct tail as [t|]; cbn [b_pages length dflags map].
  - split; [lia|]. destruct Ht as [-> _]. constructor; [reflexivity|constructor].
  - split; [lia|constructor].
Qed.


(* ---- the numbers the Flushed callback reports ---- *)
Definition cb_of (r : wres) : Z := match r with WOk (Some (_, cb)) => cb | _ => 0%Z end.
Definition cb_total (rs : list wres) : Z := fold_right (fun r acc => (cb_of r + acc)%Z) 0%Z rs.

Lemma do_flush_active s fo : ws_active (fst (do_flush s fo)) = ws_active s.
Proof.
  unfold do_flush. destruct (flush_range (ws_buf s)) as [n rep]. destruct n; [reflexivity|]. destruct fo; reflexivity.
Qed.

Lemma flush_buffer_count s fo : (ws_active (fst (flush_buffer s fo)) + cb_of (snd (flush_buffer s fo)) = ws_active s)%Z.
Proof.
  unfold flush_buffer. pose proof (do_flush_active s fo) as H. destruct (do_flush s fo) as [s1 r]. cbn [fst] in H.
  destruct r; cbn [fst snd ws_active cb_of]; lia.
Qed.

Lemma w_step_count s o :
  (ws_active (fst (w_step PS s o)) + cb_of (snd (w_step PS s o)) =
   ws_active s + match o with WNext _ => 1 | _ => 0 end)%Z.
Proof.
  destruct o as [data fo|fo|fo]; cbn [w_step].
  - destruct (b_avail (ws_buf s) <=? Z.of_nat (length data))%Z.
    + pose proof (flush_buffer_count s fo) as H. destruct (flush_buffer s fo) as [s1 r]. cbn [fst snd] in H.
      destruct r; cbn [fst snd ws_active]; lia.
    + cbn [fst snd ws_active cb_of]. lia.
  - set (s1 := {| ws_buf := _; ws_evBytes := 0; ws_evId := ws_evId s + 1; ws_active := ws_active s + 1; ws_root := ws_root s; ws_hist := ws_hist s |}).
    change (b_avail (reserve_hdr PS (commit_event (set_hdr_size (ws_buf s) (ws_evBytes s)) (ws_evId s)))) with (b_avail (ws_buf s1)).
    destruct (b_avail (ws_buf s1) <=? Z.of_nat hdr_len)%Z.
    + pose proof (flush_buffer_count s1 fo) as H. unfold s1 in H at 3. cbn [ws_active] in H. exact H.
    + cbn [fst snd cb_of]. unfold s1. cbn [ws_active]. lia.
  - pose proof (flush_buffer_count s fo). lia.
Qed.

Theorem w_run_count : forall ops s done cur,
  let '(s', rs) := w_run PS s ops in
  let '(done', _) := spec_run (done, cur) ops rs in
  (ws_active s' + cb_total rs + Z.of_nat (length done) = ws_active s + Z.of_nat (length done'))%Z.
Proof.
  induction ops as [|o ops IH]; intros s done cur; cbn [w_run spec_run cb_total fold_right]; [lia|].
  pose proof (w_step_count s o) as H1. destruct (w_step PS s o) as [s1 r]. cbn [fst snd] in H1.
  destruct (spec_step (done, cur) o r) as [done1 cur1] eqn:E.
  assert (Hd : length done1 = (length done + match o with WNext _ => 1 | _ => 0 end)%nat).
  { destruct o; cbn [spec_step fst snd] in E.
    - destruct r; injection E as <- _; lia.
    - injection E as <- _. rewrite app_length. cbn. lia.
    - injection E as <- _. lia. }
  specialize (IH s1 done1 cur1). destruct (w_run PS s1 ops) as [s2 rs]. cbn [spec_run cb_total fold_right]. rewrite E.
  destruct (spec_run (done1, cur1) ops rs) as [done2 cur2]. unfold cb_total in *. destruct o; lia.
Qed.

End Count.

(* ---------- runs ---------- *)
Section CountRuns.
Variable PS : nat.
Notation P := (payload PS).
Hypothesis HP : (hdr_len <= P)%nat.

Lemma w_run_WInv : forall ops s, WInv s -> WInv (fst (w_run PS s ops)).
Proof.
  induction ops as [|o ops IH]; intros s H; cbn [w_run fst]; [exact H|].
  destruct (w_step_WInv PS s o H) as [H1 _]. destruct (w_step PS s o) as [s1 r]. cbn [fst] in H1.
  specialize (IH s1 H1). destruct (w_run PS s1 ops) as [s2 rs]. exact IH.
Qed.

(* a run, then a Next / Flush call whose flush does not fail (it may have found nothing to write): the Flushed callbacks
   reported so far add up to the number of completed events, and exactly these events are in the file *)
Theorem flushed_callbacks_report_the_published_events pages tail endId root ops o :
  match tail with Some t => (length (wp_data t) <= P)%nat /\ wp_dirty t = false /\ wp_disk t = Some (wp_data t) | None => True end ->
  let base := match tail with Some t => wp_data t | None => [] end in
  let '(s1, rs) := w_run PS (w_init PS pages tail endId root) ops in
  let '(s2, r) := w_step PS s1 o in
  let '(done, cur) := spec_step (spec_run ([], []) ops rs) o r in
  match o, r with
  | WNext _, WOk (Some _) | WFlush _, WOk (Some _) =>
      (cb_total rs + cb_of r = Z.of_nat (length done))%Z /\ ws_active s2 = 0%Z /\
      (Forall (fun e => Z.of_nat (length e) < 256 ^ Z.of_nat hdr_len)%Z done ->
       exists i off, b_hdr (ws_buf s2) = Some (i, off) /\
         parse_from P (flat P (map disk_data (cores (ws_hist s2 ++ firstn (S i) (b_pages (ws_buf s2)))))) (length base) (length done) = Some done)
  | _, _ => True
  end.
Proof.
  intros Ht. cbn zeta.
  assert (Ht1 : match tail with Some t => (length (wp_data t) <= P)%nat | None => True end) by (destruct tail; tauto).
  assert (Ht2 : match tail with Some t => wp_dirty t = false /\ wp_disk t = Some (wp_data t) | None => True end) by (destruct tail; tauto).
  pose proof (w_run_SI PS HP ops _ _ [] [] (w_init_SI PS HP pages tail endId root Ht1)) as HS.
  pose proof (w_run_WInv ops _ (w_init_WInv PS pages tail endId root Ht2)) as HW.
  pose proof (w_run_count PS ops (w_init PS pages tail endId root) [] []) as HC.
  destruct (w_run PS (w_init PS pages tail endId root) ops) as [s1 rs]. cbn [fst] in HW.
  destruct (spec_run ([], []) ops rs) as [done1 cur1]. cbn [w_init ws_active length] in HC.
  destruct o as [d fo|fo|fo].
  - destruct (w_step PS s1 (WWrite d fo)) as [s2 r]. destruct (spec_step (done1, cur1) (WWrite d fo) r). exact I.
  - pose proof (w_step_SI PS HP s1 (WNext fo) _ done1 cur1 HS) as HS2.
    destruct (w_step_WInv PS s1 (WNext fo) HW) as [_ HP2]. pose proof (w_step_count PS s1 (WNext fo)) as HC2.
    destruct (w_step PS s1 (WNext fo)) as [s2 r] eqn:Est. cbn [fst snd] in HP2, HC2.
    assert (Hact : forall x, r = WOk (Some x) -> ws_active s2 = 0%Z).
    { intros x ->. cbn [w_step] in Est. destruct (b_avail _ <=? _)%Z; [|discriminate].
      unfold flush_buffer in Est. destruct (do_flush _ fo) as [s3 r3]. destruct r3; try discriminate Est; injection Est as <- _; reflexivity. }
    destruct (spec_step (done1, cur1) (WNext fo) r) as [done cur] eqn:Esp.
    assert (Hd : length done = S (length done1)) by (cbn [spec_step fst snd] in Esp; injection Esp as <- _; rewrite app_length; cbn; lia).
    destruct r as [[x|]|]; try exact I. specialize (Hact x eq_refl).
    split; [cbn [cb_of] in *; destruct x; lia|]. split; [exact Hact|]. intros Hsz.
    destruct (published_stream PS HP s2 _ done cur HS2 HP2) as (i & off & post & Hh & Hst).
    exists i, off. split; [exact Hh|]. rewrite Hst. unfold pre_of. rewrite <- !app_assoc. apply parse_layout. exact Hsz.
  - pose proof (w_step_SI PS HP s1 (WFlush fo) _ done1 cur1 HS) as HS2.
    destruct (w_step_WInv PS s1 (WFlush fo) HW) as [_ HP2]. pose proof (w_step_count PS s1 (WFlush fo)) as HC2.
    destruct (w_step PS s1 (WFlush fo)) as [s2 r] eqn:Est. cbn [fst snd] in HP2, HC2.
    assert (Hact : forall x, r = WOk (Some x) -> ws_active s2 = 0%Z).
    { intros x ->. cbn [w_step] in Est.
      unfold flush_buffer in Est. destruct (do_flush _ fo) as [s3 r3]. destruct r3; try discriminate Est; injection Est as <- _; reflexivity. }
    destruct (spec_step (done1, cur1) (WFlush fo) r) as [done cur] eqn:Esp.
    assert (Hd : length done = length done1) by (cbn [spec_step] in Esp; injection Esp as <- _; reflexivity).
    destruct r as [[x|]|]; try exact I. specialize (Hact x eq_refl).
    split; [cbn [cb_of] in *; destruct x; lia|]. split; [exact Hact|]. intros Hsz.
    destruct (published_stream PS HP s2 _ done cur HS2 HP2) as (i & off & post & Hh & Hst).
    exists i, off. split; [exact Hh|]. rewrite Hst. unfold pre_of. rewrite <- !app_assoc. apply parse_layout. exact Hsz.
Qed.

End CountRuns.
