(* The meta-area side of the allocator as operations on sets of page ids: contiguous allocation from a
   free list (best fit), contiguous allocation from the data area, transfer of data pages to the meta area,
   growth of the meta area (tryGrow / Ensure without overflow area), allocation of meta pages. *)
From VF Require Import Region Freelist Alloc RegionProofs AllocProofs TxAllocProofs.
From Coq Require Import Lia ZifyBool.

(* ---------- best fit ---------- *)
Lemma best_fit_spec : forall l n idx best i c,
  best_fit l n idx best = Some (i, c) ->
  best = Some (i, c) \/
  (exists r, nth_error l (i - idx) = Some r /\ rcount r = c /\ n <= c /\ (idx <= i)%nat).
Proof.
  induction l as [|r l IH]; intros n idx best i c; cbn [best_fit].
  - intros ->. left. reflexivity.
  - set (bsz := match best with Some (_, s) => s | None => u32max end).
    destruct ((n <=? rcount r) && (rcount r <? bsz)) eqn:E.
    + destruct (rcount r =? n) eqn:En.
      * intros [= <- <-]. right. exists r. replace (idx - idx)%nat with O by lia. cbn. repeat split; lia.
      * intros H. apply IH in H as [H|(r' & Hn & Hc & Hle & Hi)].
        -- injection H as <- <-. right. exists r. replace (idx - idx)%nat with O by lia. cbn. repeat split; lia.
        -- right. exists r'. replace (i - idx)%nat with (S (i - S idx)) by lia. cbn. repeat split; try assumption; lia.
    + intros H. apply IH in H as [H|(r' & Hn & Hc & Hle & Hi)]; [left; exact H|].
      right. exists r'. replace (i - idx)%nat with (S (i - S idx)) by lia. cbn. repeat split; try assumption; lia.
Qed.

(* ---------- replacing one region of a well-formed list by a sub-range of it (or dropping it) ---------- *)
Lemma replace_nth_spec : forall l lo i sel rest,
  wfl lo l -> nth_error l i = Some sel ->
  rid sel <= rid rest -> rend rest <= rend sel -> 0 <= rcount rest ->
  let l' := replace_nth l i (fun _ => if rcount rest =? 0 then None else Some rest) in
  wfl lo l' /\
  (forall id, inl id l' <-> (inl id l /\ ~ inr id sel) \/ inr id rest) /\
  count_pages l' = count_pages l - rcount sel + rcount rest.
Proof.
  induction l as [|r l IH]; intros lo i sel rest W Hn H1 H2 H3; [destruct i; discriminate|].
  inversion W as [|? ? ? Hlo Hc Wl]; subst.
  destruct i as [|i]; cbn [nth_error] in Hn.
  - injection Hn as ->. cbn [replace_nth].
    destruct (rcount rest =? 0) eqn:Ez.
    + split; [apply wfl_weaken with (rend sel); [unfold rend; lia | exact Wl]|].
      split; [|rewrite count_pages_cons; lia].
      intros id. rewrite inl_cons. split.
      * intros H. left. split; [right; exact H|]. pose proof (wfl_lower _ _ _ Wl H). unfold inr. lia.
      * intros [[[H|H] Hns]|H]; [contradiction | exact H | unfold inr, rend in H; lia].
    + split; [constructor; [lia | unfold rend in *; lia | apply wfl_weaken with (rend sel); [lia | exact Wl]]|].
      split; [|rewrite !count_pages_cons; lia].
      intros id. rewrite !inl_cons. split.
      * intros [H|H]; [right; exact H|]. left. split; [right; exact H|]. pose proof (wfl_lower _ _ _ Wl H). unfold inr. lia.
      * intros [[[H|H] Hns]|H]; [contradiction | right; exact H | left; exact H].
  - cbn [replace_nth].
    destruct (IH (rend r) i sel rest Wl Hn H1 H2 H3) as (W' & Hset & Hcnt).
    assert (Hsel: inl (rid sel) l /\ rend r <= rid sel).
    { assert (Hin: In sel l) by (eapply nth_error_In; eauto).
      assert (Hc2: 0 < rcount sel).
      { clear - Wl Hin. induction Wl as [|lo0 r0 l0 ? ? ? IHw]; [destruct Hin|]. destruct Hin as [->|Hin]; [lia | apply IHw; exact Hin]. }
      assert (Hi: inl (rid sel) l) by (exists sel; split; [exact Hin | unfold inr, rend; lia]).
      split; [exact Hi | apply (wfl_lower _ _ _ Wl Hi)]. }
    destruct Hsel as [_ Hge].
    split; [constructor; auto|].
    split; [|rewrite !count_pages_cons; lia].
    intros id. rewrite !inl_cons, Hset. unfold inr in *. unfold rend in *. split.
    + intros [H|[[H Hns]|H]]; [left; split; [left; exact H | lia] | left; split; [right; exact H | exact Hns] | right; exact H].
    + intros [[[H|H] Hns]|H]; [left; exact H | right; left; split; assumption | right; right; exact H].
Qed.

(* ---------- freelist.AllocContinuousRegion (from the beginning) ---------- *)
Theorem fl_alloc_cont_spec lo f n r f' :
  wff lo f -> 0 < n -> fl_alloc_cont false f n = (r, f') ->
  match r with
  | None => f' = f
  | Some reg =>
      rcount reg = n /\ lo <= rid reg /\ n < 2^32 /\ wff lo f' /\ avail f' = avail f - n /\
      (forall id, inl id (fregions f) <-> inr id reg \/ inl id (fregions f')) /\
      (forall id, inr id reg -> ~ inl id (fregions f'))
  end.
Proof.
  intros [W Hav] Hn. unfold fl_alloc_cont.
  destruct ((avail f <? n) || ((avail f =? n) && (1 <? Z.of_nat (length (fregions f)))) || (u32max <? n)) eqn:E0.
  { intros [= <- <-]. reflexivity. }
  destruct (best_fit (fregions f) n 0 None) as [[i c]|] eqn:Eb; [|intros [= <- <-]; reflexivity].
  destruct (nth_error (fregions f) i) as [sel|] eqn:En; [|intros [= <- <-]; reflexivity].
  intros [= <- <-].
  apply best_fit_spec in Eb as [Eb|(r0 & Hr0 & Hc & Hle & _)]; [discriminate|].
  replace (i - 0)%nat with i in Hr0 by lia. rewrite En in Hr0. injection Hr0 as <-.
  assert (Hin: In sel (fregions f)) by (eapply nth_error_In; eauto).
  assert (Hsel: 0 < rcount sel < 2^32 /\ lo <= rid sel).
  { clear - W Hin. induction W as [|lo0 r0 l0 Hlo0 Hc0 W0 IHw]; [destruct Hin|].
    destruct Hin as [->|Hin]; [split; assumption|]. destruct (IHw Hin) as [A B]. split; [exact A | unfold rend in B; lia]. }
  destruct Hsel as [Hcs Hlos].
  set (rest := {| rid := rid sel + n; rcount := rcount sel - n |}).
  destruct (replace_nth_spec (fregions f) lo i sel rest W En) as (W' & Hset & Hcnt);
    [cbn; lia | unfold rend; cbn; lia | cbn; lia|].
  cbn [rcount rid avail fregions].
  match goal with |- context [replace_nth (fregions f) i ?g] =>
    change g with (fun _ : region => if rcount rest =? 0 then None else Some rest) end.
  split; [reflexivity|]. split; [exact Hlos|]. split; [unfold u32max in E0; lia|].
  assert (Hrest: rcount rest = rcount sel - n) by reflexivity.
  split; [split; cbn [avail fregions]; [exact W' | lia]|].
  split; [reflexivity|].
  assert (Hdis: forall id, inr id sel -> inl id (fregions f)) by (intros id H; exists sel; split; assumption).
  split.
  - intros id. rewrite Hset. unfold inr, rend in *. cbn [rid rcount rest] in *. split.
    + intros H. destruct (Z_le_gt_dec (rid sel) id); [destruct (Z_lt_ge_dec id (rid sel + rcount sel))|].
      * destruct (Z_lt_ge_dec id (rid sel + n)); [left; lia | right; right; lia].
      * right. left. split; [exact H | lia].
      * right. left. split; [exact H | lia].
    + intros [H|[[H _]|H]]; [apply Hdis; lia | exact H | apply Hdis; lia].
  - intros id H Hl. apply Hset in Hl as [[_ Hns]|Hr]; unfold inr, rend in *; cbn [rid rcount rest] in *; lia.
Qed.

(* ---------- dataAllocator.AllocContinuousRegion ---------- *)
(* the region handed out was free (in the data free list or past the end of the data area) and is not free
   afterwards; the transaction records it in [new] *)
Theorem data_alloc_cont_spec a t n r a' t' :
  DataInv a -> 0 < n < 2^32 -> data_alloc_cont a t n = (r, a', t') ->
  match r with
  | None => a' = a /\ t' = t
  | Some reg =>
      rcount reg = n /\ 2 <= rid reg /\ DataInv a' /\
      (forall id, inr id reg -> inl id (fregions (a_free (data a))) \/ a_end (data a) <= id) /\
      (forall id, inr id reg -> ~ inl id (fregions (a_free (data a'))) /\ id < a_end (data a')) /\
      (forall id, inl id (fregions (a_free (data a'))) -> inl id (fregions (a_free (data a)))) /\
      (forall id, inl id (fregions (a_free (data a))) -> inr id reg \/ inl id (fregions (a_free (data a')))) /\
      a_end (data a) <= a_end (data a') /\ same_static a a' /\ same_txmeta t t' /\
      t_allocated (tdata t') = t_allocated (tdata t) /\
      t_new (tdata t') = set_add_all (region_ids reg) (t_new (tdata t)) /\
      t_freed (tdata t') = t_freed (tdata t)
  end.
Proof.
  intros [Wf Hb He] Hn. unfold data_alloc_cont.
  destruct (data_avail a <? n) eqn:Eav; [intros [= <- <- <-]; split; reflexivity|].
  destruct (fl_alloc_cont false (a_free (data a)) n) as [[reg|] f'] eqn:Ec.
  - intros [= <- <- <-].
    pose proof (fl_alloc_cont_spec 2 _ n _ _ Wf ltac:(lia) Ec) as (Hc & Hlo & _ & Wf' & _ & Hset & Hdis).
    cbn [data a_free a_end set_data tdata tx_stats tx_with ta_new t_allocated t_new t_freed].
    split; [exact Hc|]. split; [exact Hlo|].
    split.
    { constructor; cbn [data a_free a_end set_data]; [exact Wf' | | exact He].
      intros id H. apply Hb. apply Hset. right. exact H. }
    split; [intros id H; left; apply Hset; left; exact H|].
    split; [intros id H; split; [apply Hdis; exact H | apply Hb; apply Hset; left; exact H]|].
    split; [intros id H; apply Hset; right; exact H|].
    split; [intros id H; apply Hset; exact H|].
    split; [lia|]. split; [repeat split|].
    split; [unfold same_txmeta; cbn; repeat split; first [reflexivity | lia]|].
    repeat split.
  - pose proof (fl_alloc_cont_spec 2 _ n _ _ Wf ltac:(lia) Ec) as Hf. cbn beta iota in Hf.
    subst f'.
    destruct ((0 <? maxPages a) && ((if a_end (data a) <? maxPages a then maxPages a - a_end (data a) else 0) <? n)) eqn:E2;
      [intros [= <- <- <-]; split; reflexivity|].
    rewrite area_regions_one by lia. cbn [last].
    intros [= <- <- <-].
    cbn [data a_free a_end meta set_data set_meta tdata tx_stats tx_with ta_new t_allocated t_new t_freed rid rcount regions_ids flat_map].
    rewrite app_nil_r.
    split; [reflexivity|]. split; [lia|].
    split.
    { constructor; cbn [data a_free a_end set_data set_meta]; [exact Wf | | lia].
      intros id H. pose proof (Hb _ H). lia. }
    split; [intros id H; right; unfold inr in H; cbn in H; lia|].
    split.
    { intros id H. unfold inr, rend in H. cbn in H. split; [|lia]. intros Hf. pose proof (Hb _ Hf). lia. }
    split; [auto|]. split; [intros id H; right; exact H|].
    split; [lia|]. split; [repeat split|].
    split; [unfold same_txmeta; cbn; repeat split; first [reflexivity | lia]|].
    repeat split.
Qed.

(* ---------- metaManager.transferToMeta ---------- *)
Definition same_but_meta (a a' : allocst) : Prop :=
  maxPages a' = maxPages a /\ pageSize a' = pageSize a /\ data a' = data a /\
  a_end (meta a') = a_end (meta a) /\ flRoot a' = flRoot a /\ flPages a' = flPages a.

Definition same_tx_but_moved (t t' : txst) : Prop :=
  tdata t' = tdata t /\ tmeta t' = tmeta t /\ st_ovf_alloc t' = st_ovf_alloc t /\ ovf t' = ovf t /\ pct t' = pct t.

Lemma transfer_all_spec : forall regs a t a' t',
  wff 2 (a_free (meta a)) -> wfl 2 regs ->
  (forall id, inl id regs -> ~ inl id (fregions (a_free (meta a)))) ->
  transfer_all a t regs = (a', t') ->
  wff 2 (a_free (meta a')) /\
  (forall id, inl id (fregions (a_free (meta a'))) <-> inl id (fregions (a_free (meta a))) \/ inl id regs) /\
  metaTotal a' = metaTotal a + count_pages regs /\
  moveToMeta t' = moveToMeta t ++ regs /\
  same_but_meta a a' /\ same_tx_but_moved t t'.
Proof.
  unfold transfer_all.
  induction regs as [|r regs IH]; intros a t a' t' Wm Wr Hdis; cbn [fold_left].
  - intros [= <- <-]. split; [exact Wm|]. split; [intros id; split; [left; assumption | intros [H|H]; [exact H | destruct (inl_nil _ H)]]|].
    split; [rewrite count_pages_nil; lia|]. split; [rewrite app_nil_r; reflexivity|].
    split; repeat split.
  - inversion Wr as [|? ? ? Hlo Hc Wtl]; subst.
    assert (Hr: forall id, inr id r -> ~ inl id (fregions (a_free (meta a)))).
    { intros id H. apply Hdis. apply inl_cons. left. exact H. }
    destruct (fl_add_region_spec (a_free (meta a)) r 2 Wm Hlo Hc Hr) as (W1 & Hset1 & _).
    set (a1 := fst (transfer_to_meta a t r)). set (t1 := snd (transfer_to_meta a t r)).
    change (transfer_to_meta a t r) with (a1, t1).
    intros E.
    assert (Hdis1: forall id, inl id regs -> ~ inl id (fregions (a_free (meta a1)))).
    { intros id H Hm. unfold a1 in Hm. cbn [fst transfer_to_meta meta set_meta a_free] in Hm.
      apply Hset1 in Hm as [Hm|Hm].
      - exact (wfl_head_not_in_tail _ _ _ _ Wr Hm H).
      - apply (Hdis id); [apply inl_cons; right; exact H | exact Hm]. }
    assert (W1': wff 2 (a_free (meta a1))) by exact W1.
    assert (Wtl2: wfl 2 regs) by (apply wfl_weaken with (rend r); [unfold rend; lia | exact Wtl]).
    destruct (IH a1 t1 a' t' W1' Wtl2 Hdis1 E) as (W2 & Hset2 & Htot & Hmv & Hsb & Hst).
    split; [exact W2|].
    split.
    { intros id. rewrite Hset2. unfold a1. cbn [fst transfer_to_meta meta set_meta a_free]. rewrite Hset1, inl_cons. tauto. }
    split; [rewrite Htot, count_pages_cons; unfold a1; cbn; lia|].
    split; [rewrite Hmv; unfold t1; cbn; rewrite <- app_assoc; reflexivity|].
    split.
    + destruct Hsb as (A&B&C&D&E1&F). unfold a1 in *. cbn in *. repeat split; assumption.
    + destruct Hst as (A&B&C&D&E1). unfold t1 in *. cbn in *. repeat split; try assumption. lia.
Qed.

(* ---------- the effect of growing the meta area by the regions [regs] ---------- *)
Record GrowEff (a : allocst) (t : txst) (a' : allocst) (t' : txst) (regs : regions) : Prop := {
  ge_wf : wfl 2 regs;
  ge_from : forall id, inl id regs -> inl id (fregions (a_free (data a))) \/ a_end (data a) <= id;
  ge_gone : forall id, inl id regs -> ~ inl id (fregions (a_free (data a'))) /\ id < a_end (data a');
  ge_sub : forall id, inl id (fregions (a_free (data a'))) -> inl id (fregions (a_free (data a)));
  ge_cover : forall id, inl id (fregions (a_free (data a))) -> inl id regs \/ inl id (fregions (a_free (data a')));
  ge_data : DataInv a';
  ge_end : a_end (data a) <= a_end (data a');
  ge_mend : a_end (meta a) <= a_end (meta a') /\ a_end (data a') <= Z.max (a_end (meta a)) (a_end (data a')) /\
            a_end (meta a') = Z.max (a_end (meta a)) (a_end (data a'));
  ge_meta_wf : wff 2 (a_free (meta a'));
  ge_meta : forall id, inl id (fregions (a_free (meta a'))) <-> inl id (fregions (a_free (meta a))) \/ inl id regs;
  ge_total : metaTotal a' = metaTotal a + count_pages regs;
  ge_moved : moveToMeta t' = moveToMeta t ++ regs;
  ge_alloc_in : forall id, In id (t_allocated (tdata t')) ->
                  In id (t_allocated (tdata t)) \/ (inl id regs /\ inl id (fregions (a_free (data a))));
  ge_alloc_keep : forall id, In id (t_allocated (tdata t)) -> In id (t_allocated (tdata t'));
  ge_alloc_sorted : sorted_from 2 (t_allocated (tdata t)) -> sorted_from 2 (t_allocated (tdata t'));
  ge_new_in : forall id, In id (t_new (tdata t')) -> In id (t_new (tdata t)) \/ inl id regs;
  ge_new_keep : forall id, In id (t_new (tdata t)) -> In id (t_new (tdata t'));
  ge_static : maxPages a' = maxPages a /\ pageSize a' = pageSize a /\ flRoot a' = flRoot a /\ flPages a' = flPages a;
  ge_tx : tmeta t' = tmeta t /\ st_ovf_alloc t' = st_ovf_alloc t /\ ovf t' = ovf t /\ pct t' = pct t /\
          t_end (tdata t') = t_end (tdata t) /\ t_freed (tdata t') = t_freed (tdata t) }.

(* end markers and the untouched parts of the transaction record after the data allocators *)
Lemma data_alloc_regions_ends a t n regs cnt a' t' :
  data_alloc_regions a t n = (regs, cnt, a', t') ->
  a_end (meta a) <= a_end (meta a') /\ a_end (meta a') <= Z.max (a_end (meta a)) (a_end (data a')) /\
  (a_end (data a) <= a_end (meta a) -> a_end (data a') <= a_end (meta a')) /\
  t_freed (tdata t') = t_freed (tdata t) /\ ovf t' = ovf t /\ pct t' = pct t.
Proof.
  unfold data_alloc_regions.
  destruct (data_avail a <? n); [intros [= <- <- <- <-]; repeat split; lia|].
  unfold alloc_from_freelist.
  destruct (fl_alloc_regions false (a_free (data a)) (Z.min n (avail (a_free (data a))))) as [regs1 f'].
  intros [= <- <- <- <-].
  cbn [data meta a_end a_free set_data set_meta tdata tx_stats tx_with ta_new ta_allocated t_freed ovf pct metaTotal].
  destruct (0 <? n - Z.min n (avail (a_free (data a)))) eqn:E1; cbn [andb];
    [destruct (a_end (meta a) <? a_end (data a) + (n - Z.min n (avail (a_free (data a))))) eqn:E2|]; repeat split; lia.
Qed.

Lemma data_alloc_cont_ends a t n r a' t' :
  data_alloc_cont a t n = (r, a', t') ->
  a_end (meta a) <= a_end (meta a') /\ a_end (meta a') <= Z.max (a_end (meta a)) (a_end (data a')) /\
  (a_end (data a) <= a_end (meta a) -> a_end (data a') <= a_end (meta a')) /\
  ovf t' = ovf t /\ pct t' = pct t.
Proof.
  unfold data_alloc_cont.
  destruct (data_avail a <? n); [intros [= <- <- <-]; repeat split; lia|].
  destruct (fl_alloc_cont false (a_free (data a)) n) as [[reg|] f'].
  - intros [= <- <- <-]. cbn. repeat split; lia.
  - destruct ((0 <? maxPages a) && ((if a_end (data a) <? maxPages a then maxPages a - a_end (data a) else 0) <? n));
      [intros [= <- <- <-]; repeat split; lia|].
    intros [= <- <- <-].
    cbn [data meta a_end a_free set_data set_meta tx_stats tx_with ovf pct metaTotal].
    destruct (a_end (meta a) <? a_end (data a) + n) eqn:E2; repeat split; lia.
Qed.

Lemma inl_single id r : inl id [r] <-> inr id r.
Proof. rewrite inl_cons. split; [intros [H|H]; [exact H | destruct (inl_nil _ H)] | left; assumption]. Qed.

(* ---------- metaManager.tryGrow without overflow area ---------- *)
Theorem try_grow_spec a t count ok a' t' :
  DataInv a -> wff 2 (a_free (meta a)) ->
  (forall id, inl id (fregions (a_free (meta a))) -> ~ inl id (fregions (a_free (data a))) /\ id < a_end (data a)) ->
  a_end (data a) <= a_end (meta a) ->
  0 <= count < 2^32 ->
  try_grow a t count false = (ok, a', t') ->
  (a' = a /\ t' = t) \/ exists regs, GrowEff a t a' t' regs.
Proof.
  intros ID Wm Hmd Hends Hc. unfold try_grow.
  destruct (count =? 0) eqn:E0; [intros [= _ <- <-]; left; split; reflexivity|].
  destruct (data_avail a <? count) eqn:Eav; [cbn [negb]; intros [= _ <- <-]; left; split; reflexivity|].
  destruct (data_alloc_cont a t count) as [[r a1] t1] eqn:Ec.
  pose proof (data_alloc_cont_ends _ _ _ _ _ _ Ec) as (Hme1 & Hme2 & Hme3 & Hovf & Hpct).
  pose proof (data_alloc_cont_spec a t count r a1 t1 ID ltac:(lia) Ec) as Hspec.
  destruct r as [reg|].
  - (* one contiguous region *)
    destruct Hspec as (Hcnt & Hlo & ID1 & Hfrom & Hgone & Hsub & Hcover & Hend & St & Stx & HA & HN & HF).
    destruct St as (S1 & S2 & S3 & S4 & S5 & S6). destruct Stx as (T1 & T2 & T3 & T4).
    assert (Wr: wfl 2 [reg]) by (constructor; [exact Hlo | lia | constructor]).
    assert (Wm1: wff 2 (a_free (meta a1))) by (rewrite S3; exact Wm).
    assert (Hdis: forall id, inl id [reg] -> ~ inl id (fregions (a_free (meta a1)))).
    { intros id H Hm. rewrite S3 in Hm. apply inl_single in H. destruct (Hmd _ Hm) as [Hnd Hlt].
      destruct (Hfrom _ H) as [Hd|Hge]; [exact (Hnd Hd) | lia]. }
    intros E.
    assert (E': transfer_all a1 t1 [reg] = (a', t')).
    { unfold transfer_all. cbn [fold_left]. destruct (transfer_to_meta a1 t1 reg) as [a2 t2] eqn:Et. injection E as _ <- <-. reflexivity. }
    destruct (transfer_all_spec [reg] a1 t1 a' t' Wm1 Wr Hdis E') as (W2 & Hset2 & Htot & Hmv & (B1 & B2 & B3 & B4 & B5 & B6) & (C1 & C2 & C3 & C4 & C5)).
    right. exists [reg]. constructor.
    + exact Wr.
    + intros id H. apply Hfrom. apply inl_single. exact H.
    + intros id H. rewrite B3. apply Hgone. apply inl_single. exact H.
    + intros id H. rewrite B3 in H. apply Hsub. exact H.
    + intros id H. rewrite B3. destruct (Hcover _ H) as [H1|H1]; [left; apply inl_single; exact H1 | right; exact H1].
    + destruct ID1 as [X1 X2 X3]. constructor; rewrite B3; assumption.
    + rewrite B3. exact Hend.
    + rewrite B3, B4. lia.
    + exact W2.
    + intros id. rewrite Hset2, S3. tauto.
    + rewrite Htot, S4. reflexivity.
    + rewrite Hmv, T1. reflexivity.
    + intros id H. rewrite C1, HA in H. left. exact H.
    + intros id H. rewrite C1, HA. exact H.
    + intros H. rewrite C1, HA. exact H.
    + intros id H. rewrite C1, HN in H. apply set_add_all_in in H as [H|H]; [right; apply inl_single; apply region_ids_in; exact H | left; exact H].
    + intros id H. rewrite C1, HN. apply set_add_all_in. right. exact H.
    + repeat split; congruence.
    + rewrite C2, C3, C4, C5, C1. repeat split; congruence.
  - (* no contiguous region: any pages *)
    destruct Hspec as [-> ->]. clear Hme1 Hme2 Hme3 Hovf Hpct Ec.
    destruct (data_alloc_regions a t count) as [[[regs n] a1] t1] eqn:Ea.
    pose proof (data_alloc_regions_ends _ _ _ _ _ _ _ Ea) as (Hme1 & Hme2 & Hme3 & HF & Hovf & Hpct).
    destruct (data_alloc_regions_spec a t count regs n a1 t1 ID ltac:(lia) Ea) as [_ Hok].
    destruct (Hok ltac:(lia)) as (_ & _ & Wr & Hfrom & Hgone & ID1 & Hsub & S3 & S4 & S1 & _).
    destruct (data_alloc_tx_spec a t count regs n a1 t1 ID ltac:(lia) ltac:(lia) Ea)
      as (regs1 & regs2 & Hsplit & W1 & H1 & _ & H2 & HA & HN & Hend & _ & (_ & S2 & _ & _ & S5 & S6) & (T1 & T2 & T3 & T4)).
    assert (Wm1: wff 2 (a_free (meta a1))) by (rewrite S3; exact Wm).
    assert (Hdis: forall id, inl id regs -> ~ inl id (fregions (a_free (meta a1)))).
    { intros id H Hm. rewrite S3 in Hm. destruct (Hmd _ Hm) as [Hnd Hlt].
      destruct (Hfrom _ H) as [Hd|Hge]; [exact (Hnd Hd) | lia]. }
    destruct (transfer_all a1 t1 regs) as [a2 t2] eqn:Et. intros [= _ <- <-].
    destruct (transfer_all_spec regs a1 t1 a2 t2 Wm1 Wr Hdis Et) as (W2 & Hset2 & Htot & Hmv & (B1 & B2 & B3 & B4 & B5 & B6) & (C1 & C2 & C3 & C4 & C5)).
    right. exists regs. constructor.
    + exact Wr.
    + exact Hfrom.
    + intros id H. rewrite B3. apply Hgone. exact H.
    + intros id H. rewrite B3 in H. apply Hsub. exact H.
    + intros id H. rewrite B3.
      destruct (classic_inl id (fregions (a_free (data a1)))) as [Hy|Hno]; [right; exact Hy|].
      left. rewrite Hsplit. apply inl_app. left. apply H1. split; assumption.
    + destruct ID1 as [X1 X2 X3]. constructor; rewrite B3; assumption.
    + rewrite B3. exact Hend.
    + rewrite B3, B4. lia.
    + exact W2.
    + intros id. rewrite Hset2, S3. tauto.
    + rewrite Htot, S4. reflexivity.
    + rewrite Hmv, T1. reflexivity.
    + intros id H. rewrite C1, HA in H. apply set_add_all_in in H as [H|H]; [|left; exact H].
      right. apply regions_ids_in in H. split; [rewrite Hsplit; apply inl_app; left; exact H | apply H1; exact H].
    + intros id H. rewrite C1, HA. apply set_add_all_in. right. exact H.
    + intros H. rewrite C1, HA. apply set_add_all_sorted; [exact H|]. intros x Hx. apply regions_ids_in in Hx. eapply wfl_lower; eauto.
    + intros id H. rewrite C1, HN in H. apply set_add_all_in in H as [H|H]; [|left; exact H].
      right. apply regions_ids_in in H. rewrite Hsplit. apply inl_app. right. exact H.
    + intros id H. rewrite C1, HN. apply set_add_all_in. right. exact H.
    + repeat split; congruence.
    + rewrite C2, C3, C4, C5, C1. repeat split; congruence.
Qed.

(* ---------- the invariant of a whole write transaction (data and meta operations, no overflow area) ---------- *)
Notation Dset a := (fregions (a_free (data a))).
Notation Mset a := (fregions (a_free (meta a))).

(* the committed allocator state the transaction starts from *)
Record Inv0 (a0 : allocst) : Prop := {
  i0_data : DataInv a0;
  i0_mwf : wff 2 (a_free (meta a0));
  i0_ends : a_end (data a0) <= a_end (meta a0);
  i0_mbelow : forall id, inl id (Mset a0) -> ~ inl id (Dset a0) /\ id < a_end (data a0) }.

Record FullInv (a0 a : allocst) (t : txst) : Prop := {
  fi_data : DataInv a;
  fi_dend : t_end (tdata t) = a_end (data a0);
  fi_mend : t_end (tmeta t) = a_end (meta a0);
  fi_ends : a_end (data a0) <= a_end (data a) /\ a_end (data a) <= a_end (meta a);
  fi_dsorted : sorted_from 2 (t_allocated (tdata t));
  fi_msorted : sorted_from 2 (t_allocated (tmeta t));
  fi_mwf : wff 2 (a_free (meta a));
  fi_mbelow : forall id, inl id (Mset a) -> ~ inl id (Dset a) /\ id < a_end (data a);
  fi_mv : forall id, inl id (moveToMeta t) ->
            ~ inl id (Dset a) /\ 2 <= id < a_end (data a) /\ (inl id (Dset a0) \/ a_end (data a0) <= id);
  fi_ddis : forall id, In id (t_allocated (tdata t)) -> id < a_end (data a0) -> ~ inl id (Dset a);
  fi_dset : forall id, id < a_end (data a0) ->
            (inl id (Dset a0) <-> inl id (Dset a) \/ In id (t_allocated (tdata t)) \/ inl id (moveToMeta t));
  fi_new : forall id, In id (t_new (tdata t)) -> a_end (data a0) <= id \/ inl id (moveToMeta t);
  fi_mdis : forall id, In id (t_allocated (tmeta t)) -> ~ inl id (Mset a);
  fi_mset : forall id, (inl id (Mset a) \/ In id (t_allocated (tmeta t))) <-> (inl id (Mset a0) \/ inl id (moveToMeta t));
  fi_total : metaTotal a = metaTotal a0 + count_pages (moveToMeta t);
  fi_ovf : st_ovf_alloc t = 0 /\ ovf t = false;
  fi_static : maxPages a = maxPages a0 /\ pageSize a = pageSize a0 /\ flRoot a = flRoot a0 /\ flPages a = flPages a0 }.

Lemma full_inv_init a0 p : Inv0 a0 -> FullInv a0 a0 (make_tx a0 false p).
Proof.
  intros [ID MW ME MB]. constructor; cbn.
  - exact ID.
  - reflexivity.
  - reflexivity.
  - lia.
  - constructor.
  - constructor.
  - exact MW.
  - exact MB.
  - intros id H. destruct (inl_nil _ H).
  - intros id [].
  - intros id _. split; [left; assumption | intros [H|[[]|H]]; [exact H | destruct (inl_nil _ H)]].
  - intros id [].
  - intros id [].
  - intros id. split; [intros [H|[]]; left; exact H | intros [H|H]; [left; exact H | destruct (inl_nil _ H)]].
  - change (count_pages []) with 0. lia.
  - split; reflexivity.
  - repeat split.
Qed.

(* growing the meta area keeps the invariant *)
Lemma grow_preserves a0 a t a' t' regs : Inv0 a0 -> FullInv a0 a t -> GrowEff a t a' t' regs -> FullInv a0 a' t'.
Proof.
  intros [ID0 MW0 ME0 MB0] F G.
  destruct F as [FD Fde Fme [Fe1 Fe2] Fds Fms Fmw Fmb Fmv Fdd Fdset Fnew Fmd Fmset Ftot [Fo1 Fo2] Fst].
  destruct G as [Gwf Gfrom Ggone Gsub Gcover Gdata Gend [Gm1 [Gm2 Gm3]] Gmwf Gmeta Gtot Gmoved Gain Gakeep Gasorted Gnin Gnkeep Gst Gtx].
  destruct Gtx as (X1 & X2 & X3 & X4 & X5 & X6). destruct Gst as (Y1 & Y2 & Y3 & Y4).
  assert (Hmv': forall id, inl id (moveToMeta t') <-> inl id (moveToMeta t) \/ inl id regs).
  { intros id. rewrite Gmoved. apply inl_app. }
  assert (Hregs0: forall id, inl id regs -> inl id (Dset a0) \/ a_end (data a0) <= id).
  { intros id H. destruct (Gfrom _ H) as [Hd|Hge]; [|right; lia].
    destruct (Z_lt_ge_dec id (a_end (data a0))) as [Hlt|Hge]; [|right; lia].
    left. apply (Fdset id Hlt). left. exact Hd. }
  constructor.
  - exact Gdata.
  - congruence.
  - congruence.
  - split; lia.
  - apply Gasorted. exact Fds.
  - rewrite X1. exact Fms.
  - exact Gmwf.
  - intros id H. apply Gmeta in H as [H|H].
    + destruct (Fmb _ H) as [A B]. split; [intros Hd; apply A; apply Gsub; exact Hd | lia].
    + apply Ggone. exact H.
  - intros id H. apply Hmv' in H as [H|H].
    + destruct (Fmv _ H) as (A & B & C). split; [intros Hd; apply A; apply Gsub; exact Hd|]. split; [lia | exact C].
    + destruct (Ggone _ H) as [A B]. split; [exact A|]. split; [split; [eapply wfl_lower; eauto | exact B] | apply Hregs0; exact H].
  - intros id H Hlt Hd. apply Gain in H as [H|[H1 H2]].
    + apply (Fdd id H Hlt). apply Gsub. exact Hd.
    + destruct (Ggone _ H1) as [A _]. exact (A Hd).
  - intros id Hlt. rewrite (Fdset id Hlt). split.
    + intros [H|[H|H]].
      * destruct (Gcover _ H) as [H1|H1]; [right; right; apply Hmv'; right; exact H1 | left; exact H1].
      * right. left. apply Gakeep. exact H.
      * right. right. apply Hmv'. left. exact H.
    + intros [H|[H|H]].
      * left. apply Gsub. exact H.
      * apply Gain in H as [H|[_ H]]; [right; left; exact H | left; exact H].
      * apply Hmv' in H as [H|H]; [right; right; exact H|].
        destruct (Gfrom _ H) as [Hd|Hge]; [left; exact Hd | lia].
  - intros id H. apply Gnin in H as [H|H].
    + destruct (Fnew _ H) as [A|A]; [left; exact A | right; apply Hmv'; left; exact A].
    + right. apply Hmv'. right. exact H.
  - rewrite X1. intros id H Hm. apply Gmeta in Hm as [Hm|Hm]; [exact (Fmd id H Hm)|].
    (* a page allocated from the meta free list is not among the pages moved now *)
    assert (Hor: inl id (Mset a0) \/ inl id (moveToMeta t)) by (apply Fmset; right; exact H).
    destruct Hor as [H0|H0].
    + destruct (MB0 _ H0) as [A B]. destruct (Hregs0 _ Hm) as [C|C]; [exact (A C) | lia].
    + destruct (Fmv _ H0) as (A & B & _). destruct (Gfrom _ Hm) as [C|C]; [exact (A C) | lia].
  - intros id. rewrite X1. split.
    + intros [H|H].
      * apply Gmeta in H as [H|H].
        -- assert (Hor: inl id (Mset a0) \/ inl id (moveToMeta t)) by (apply Fmset; left; exact H).
           destruct Hor as [A|A]; [left; exact A | right; apply Hmv'; left; exact A].
        -- right. apply Hmv'. right. exact H.
      * assert (Hor: inl id (Mset a0) \/ inl id (moveToMeta t)) by (apply Fmset; right; exact H).
        destruct Hor as [A|A]; [left; exact A | right; apply Hmv'; left; exact A].
    + intros [H|H].
      * assert (Hor: inl id (Mset a) \/ In id (t_allocated (tmeta t))) by (apply Fmset; left; exact H).
        destruct Hor as [A|A]; [left; apply Gmeta; left; exact A | right; exact A].
      * apply Hmv' in H as [H|H].
        -- assert (Hor: inl id (Mset a) \/ In id (t_allocated (tmeta t))) by (apply Fmset; right; exact H).
           destruct Hor as [A|A]; [left; apply Gmeta; left; exact A | right; exact A].
        -- left. apply Gmeta. right. exact H.
  - rewrite Gtot, Ftot, Gmoved, count_pages_app. lia.
  - split; [rewrite X2; exact Fo1 | rewrite X3; exact Fo2].
  - destruct Fst as (Z1 & Z2 & Z3 & Z4). repeat split; congruence.
Qed.

(* ---------- metaManager.Ensure ---------- *)
Lemma next_pow2_from_bound : forall fuel p u, 0 < p -> next_pow2_from fuel p u <= Z.max p (2 * u).
Proof.
  induction fuel as [|f IH]; intros p u Hp; cbn [next_pow2_from]; [lia|].
  destruct (u <? p) eqn:E; [lia|]. specialize (IH (2 * p) u ltac:(lia)). lia.
Qed.

Lemma quota_bound total used s g mn mx :
  0 <= total < 2^28 -> 0 <= used < 2^29 -> quota total used s g = (mn, mx) ->
  mn = Z.max used total /\ mx <= 2^31.
Proof.
  intros Ht Hu. unfold quota. intros E. apply pair_equal_spec in E as [<- <-]. split; [reflexivity|].
  pose proof (next_pow2_from_bound 70 1 used ltac:(lia)) as Hb. fold (next_pow2 used) in Hb.
  assert (Hm: Z.max (next_pow2 used) total <= 2^30).
  { change (2^30) with 1073741824. change (2^28) with 268435456 in Ht. change (2^29) with 536870912 in Hu. lia. }
  change (2^30) with 1073741824 in Hm. change (2^31) with 2147483648.
  cbv zeta. match goal with |- context [if ?c then _ else _] => destruct c end; lia.
Qed.

Theorem ensure_preserves a0 a t n ok a' t' :
  Inv0 a0 -> FullInv a0 a t -> 0 <= n < 2^28 -> metaTotal a < 2^28 ->
  ensure a t n = Some (ok, a', t') -> FullInv a0 a' t'.
Proof.
  intros I0 F Hn Htot. unfold ensure.
  destruct (metaTotal a <? avail (a_free (meta a))) eqn:E0; [discriminate|].
  assert (Hav: 0 <= avail (a_free (meta a))).
  { destruct (fi_mwf _ _ _ F) as [W Hav]. rewrite Hav. eapply count_pages_nonneg; eauto. }
  set (total := metaTotal a) in *. set (used := total - avail (a_free (meta a)) + n).
  destruct (quota total used (pct t / 2) (pct t)) as [szMin szMax] eqn:Eq.
  assert (H28: 2^28 = 268435456) by reflexivity. assert (H29: 2^29 = 536870912) by reflexivity.
  destruct (quota_bound total used _ _ _ _ ltac:(lia) ltac:(unfold used; lia) Eq) as [Hmin Hmax].
  change (2^31) with 2147483648 in Hmax.
  destruct (szMax <? szMin) eqn:E1; [discriminate|].
  destruct (szMax =? total) eqn:E2; [intros [= _ <- <-]; exact F|].
  destruct (szMax <? total) eqn:E3; [discriminate|].
  assert (Hg: forall a1 t1 c b a2 t2, FullInv a0 a1 t1 -> 0 <= c < 2^32 ->
              try_grow a1 t1 c false = (b, a2, t2) -> FullInv a0 a2 t2).
  { intros a1 t1 c b a2 t2 F1 Hc E.
    destruct (try_grow_spec a1 t1 c b a2 t2 (fi_data _ _ _ F1) (fi_mwf _ _ _ F1) (fi_mbelow _ _ _ F1)
                (proj2 (fi_ends _ _ _ F1)) Hc E) as [[-> ->]|[regs G]]; [exact F1|].
    eapply grow_preserves; eauto. }
  destruct (try_grow a t (szMax - total) false) as [[b a1] t1] eqn:Eg.
  assert (F1: FullInv a0 a1 t1).
  { apply (Hg a t (szMax - total) b a1 t1 F); [change (2^32) with 4294967296; lia | exact Eg]. }
  destruct b; [intros [= _ <- <-]; exact F1|].
  destruct (fi_ovf _ _ _ F) as [_ Hovf]. rewrite Hovf.
  destruct (try_grow a1 t1 (szMin - total) false) as [[b2 a2] t2] eqn:Eg2.
  intros [= _ <- <-].
  apply (Hg a1 t1 (szMin - total) b2 a2 t2 F1); [change (2^32) with 4294967296; unfold used in *; lia | exact Eg2].
Qed.

(* ---------- Tx.Alloc / AllocN inside a transaction that may also have grown the meta area ---------- *)
Lemma full_alloc_step a0 a t n regs cnt a' t' :
  Inv0 a0 -> FullInv a0 a t -> 0 < n < 2^32 ->
  data_alloc_regions a t n = (regs, cnt, a', t') -> FullInv a0 a' t'.
Proof.
  intros I0 F Hn E.
  destruct F as [FD Fde Fme [Fe1 Fe2] Fds Fms Fmw Fmb Fmv Fdd Fdset Fnew Fmd Fmset Ftot [Fo1 Fo2] Fst].
  destruct (Z_lt_ge_dec (data_avail a) n) as [Hlt|Hge].
  { destruct (data_alloc_regions_spec a t n regs cnt a' t' FD Hn E) as [Hfail _].
    destruct (Hfail Hlt) as (_ & _ & -> & ->). constructor; try assumption; split; assumption. }
  pose proof (data_alloc_regions_ends _ _ _ _ _ _ _ E) as (Hme1 & Hme2 & Hme3 & HF & Hovf & Hpct).
  destruct (data_alloc_tx_spec a t n regs cnt a' t' FD Hn ltac:(lia) E)
    as (regs1 & regs2 & _ & W1 & H1 & Hsub & H2 & HA & HN & Hend & ID' & (S1 & S2 & S3 & S4 & S5 & S6) & (T1 & T2 & T3 & T4)).
  constructor.
  - exact ID'.
  - congruence.
  - congruence.
  - split; [lia | apply Hme3; exact Fe2].
  - rewrite HA. apply set_add_all_sorted; [exact Fds|]. intros x Hx. apply regions_ids_in in Hx. eapply wfl_lower; eauto.
  - rewrite T2. exact Fms.
  - rewrite S3. exact Fmw.
  - rewrite S3. intros id H. destruct (Fmb _ H) as [A B]. split; [intros Hd; apply A; apply Hsub; exact Hd | lia].
  - rewrite T1. intros id H. destruct (Fmv _ H) as (A & B & C). split; [intros Hd; apply A; apply Hsub; exact Hd|]. split; [lia | exact C].
  - rewrite HA. intros id H Hlt Hd. apply set_add_all_in in H as [H|H].
    + apply regions_ids_in in H. apply H1 in H. tauto.
    + apply (Fdd id H Hlt). apply Hsub. exact Hd.
  - rewrite HA, T1. intros id Hlt. rewrite (Fdset id Hlt). split.
    + intros [H|[H|H]].
      * destruct (classic_inl id (Dset a')) as [Hy|Hno]; [left; exact Hy|].
        right. left. apply set_add_all_in. left. apply regions_ids_in. apply H1. split; assumption.
      * right. left. apply set_add_all_in. right. exact H.
      * right. right. exact H.
    + intros [H|[H|H]].
      * left. apply Hsub. exact H.
      * apply set_add_all_in in H as [H|H]; [left; apply regions_ids_in in H; apply H1 in H; tauto | right; left; exact H].
      * right. right. exact H.
  - rewrite HN, T1. intros id H. apply set_add_all_in in H as [H|H]; [|apply Fnew; exact H].
    apply regions_ids_in in H. apply H2 in H. left. lia.
  - rewrite T2, S3. exact Fmd.
  - rewrite T2, S3, T1. exact Fmset.
  - rewrite S4, T1. exact Ftot.
  - split; congruence.
  - destruct Fst as (Z1 & Z2 & Z3 & Z4). repeat split; congruence.
Qed.

(* ---------- Tx.Free of a page allocated by the transaction: what lies between the new and the old end ---------- *)
Lemma data_free_fresh_range a t id a' t' :
  DataInv a -> set_mem id (t_new (tdata t)) = true -> ~ inl id (Dset a) ->
  data_free a t id = Some (a', t') ->
  (forall x, a_end (data a') <= x < a_end (data a) -> x = id \/ inl x (Dset a)) /\
  a_end (meta a') = (if a_end (meta a) =? a_end (data a) then a_end (data a') else a_end (meta a)) /\
  ovf t' = ovf t /\ pct t' = pct t.
Proof.
  intros [Wf Hb He] Hnew Hnf. unfold data_free.
  destruct ((id <? 2) || (a_end (data a) <=? id)) eqn:Eb; [discriminate|].
  rewrite Hnew. cbn [negb].
  set (f0 := a_free (data a)) in *.
  assert (Hreg: forall x, inr x {| rid := id; rcount := 1 |} -> ~ inl x (fregions f0)).
  { intros x Hx. unfold inr, rend in Hx. cbn in Hx. assert (x = id) by lia. subst x. exact Hnf. }
  destruct (fl_add_region_spec f0 {| rid := id; rcount := 1 |} 2 Wf ltac:(cbn; lia) ltac:(cbn; lia) Hreg) as (Wf1 & Hset1 & _).
  remember (fl_add_region f0 {| rid := id; rcount := 1 |}) as f eqn:Ef.
  assert (Hin1: forall x, inl x (fregions f) <-> x = id \/ inl x (fregions f0)).
  { intros x. rewrite Hset1. unfold inr, rend. cbn. split; [intros [H|H]; [left; lia | right; exact H] | intros [H|H]; [left; lia | right; exact H]]. }
  assert (Hsame: forall (b : bool), (if b then a_end (meta a) else a_end (meta a)) = a_end (meta a)) by (intros []; reflexivity).
  destruct (id <=? t_end (tdata t)) eqn:E1.
  { intros [= <- <-]. cbn [data meta a_end set_data tx_stats ovf pct]. split; [intros x Hx; lia|]. split; [destruct (a_end (meta a) =? a_end (data a)) eqn:Em; lia | split; reflexivity]. }
  destruct (rend (last_region (fregions f)) <? a_end (data a)) eqn:E2.
  { intros [= <- <-]. cbn [data meta a_end set_data tx_stats ovf pct]. split; [intros x Hx; lia|]. split; [destruct (a_end (meta a) =? a_end (data a)) eqn:Em; lia | split; reflexivity]. }
  destruct Wf1 as [W1 _].
  assert (Hne: fregions f <> []).
  { intros Hnil. assert (H: inl id (fregions f)) by (apply Hin1; left; reflexivity). rewrite Hnil in H. destruct (inl_nil _ H). }
  destruct (exists_last Hne) as (pre & lr & Hsplit).
  assert (Hlast: last_region (fregions f) = lr) by (unfold last_region; rewrite Hsplit; apply last_last).
  rewrite Hlast in *.
  assert (Hdec: wfl 2 pre /\ (forall x, inl x pre -> x < rid lr) /\ 0 < rcount lr < 2^32 /\ 2 <= rid lr).
  { rewrite Hsplit in W1. apply (wfl_snoc_inv _ _ _ W1). }
  destruct Hdec as (_ & _ & Hclr & _).
  assert (Hb1: forall x, inl x (fregions f) -> x < a_end (data a)).
  { intros x Hx. apply Hin1 in Hx as [->|Hx]; [lia | apply Hb; exact Hx]. }
  assert (Hend: rend lr = a_end (data a)).
  { assert (rend lr - 1 < a_end (data a)).
    { apply Hb1. rewrite Hsplit. apply inl_app. right. apply inl_cons. left. unfold inr, rend. lia. }
    lia. }
  assert (Hlr: forall x, rid lr <= x < a_end (data a) -> x = id \/ inl x (fregions f0)).
  { intros x Hx. apply Hin1. rewrite Hsplit. apply inl_app. right. apply inl_cons. left. unfold inr. lia. }
  destruct (rid lr <? t_end (tdata t)) eqn:E3.
  - intros [= <- <-]. unfold shrink_end. cbn [data meta a_end set_data set_meta tx_stats ovf pct].
    split; [intros x Hx; apply Hlr; lia|]. split; [reflexivity | split; reflexivity].
  - intros [= <- <-]. unfold shrink_end. cbn [data meta a_end set_data set_meta tx_stats ovf pct].
    split; [intros x Hx; apply Hlr; lia|]. split; [reflexivity | split; reflexivity].
Qed.

(* Tx.Free of a data page in use (not free, not a page of the meta area) *)
Lemma full_free_step a0 a t id a' t' :
  Inv0 a0 -> FullInv a0 a t ->
  ~ inl id (Dset a) -> ~ inl id (Mset a) -> ~ inl id (moveToMeta t) ->
  data_free a t id = Some (a', t') -> FullInv a0 a' t'.
Proof.
  intros I0 F Hnf Hnm Hnv E.
  destruct F as [FD Fde Fme [Fe1 Fe2] Fds Fms Fmw Fmb Fmv Fdd Fdset Fnew Fmd Fmset Ftot [Fo1 Fo2] Fst].
  destruct (set_mem id (t_new (tdata t))) eqn:Enew.
  - assert (Hidnew: a_end (data a0) <= id).
    { destruct (Fnew id) as [A|A]; [apply set_mem_in; exact Enew | exact A | contradiction]. }
    destruct (data_free_fresh_page a t id a' t' FD Enew Hnf E) as (ID' & Hsub & Hle & Hkeep).
    destruct (data_free_fresh_extra a t id a' t' Enew E) as (Hmin & (S1 & S2 & S3 & S4 & S5 & S6) & (T1 & T2 & T3 & T4) & Htd).
    destruct (data_free_fresh_range a t id a' t' FD Enew Hnf E) as (Hrange & Hmend & Hovf & Hpct).
    assert (Hstay: forall x, x < a_end (data a) -> x <> id -> ~ inl x (Dset a) -> x < a_end (data a')).
    { intros x Hx Hne Hnd. destruct (Z_lt_ge_dec x (a_end (data a'))) as [|Hge]; [assumption|].
      destruct (Hrange x ltac:(lia)) as [->|Hd]; [contradiction | contradiction]. }
    constructor.
    + exact ID'.
    + congruence.
    + congruence.
    + split; [lia|]. rewrite Hmend. destruct (a_end (meta a) =? a_end (data a)) eqn:Em; lia.
    + rewrite Htd. exact Fds.
    + rewrite T2. exact Fms.
    + rewrite S3. exact Fmw.
    + rewrite S3. intros x H. destruct (Fmb _ H) as [A B].
      assert (Hne: x <> id) by (intros ->; contradiction).
      split; [intros Hd; apply Hsub in Hd as [->|Hd]; [contradiction | exact (A Hd)] | apply Hstay; assumption].
    + rewrite T1. intros x H. destruct (Fmv _ H) as (A & B & C).
      assert (Hne: x <> id) by (intros ->; contradiction).
      split; [intros Hd; apply Hsub in Hd as [->|Hd]; [contradiction | exact (A Hd)]|].
      split; [split; [lia | apply Hstay; [lia | assumption | assumption]] | exact C].
    + rewrite Htd. intros x Hin Hlt Hf. apply Hsub in Hf as [->|Hf]; [lia | exact (Fdd x Hin Hlt Hf)].
    + rewrite Htd, T1. intros x Hlt. rewrite (Fdset x Hlt). split.
      * intros [Hf|Hal]; [left; apply Hkeep; [lia | exact Hf | lia] | right; exact Hal].
      * intros [Hf|Hal]; [|right; exact Hal]. apply Hsub in Hf as [->|Hf]; [lia | left; exact Hf].
    + rewrite Htd, T1. exact Fnew.
    + rewrite T2, S3. exact Fmd.
    + rewrite T2, S3, T1. exact Fmset.
    + rewrite S4, T1. exact Ftot.
    + split; congruence.
    + destruct Fst as (Z1 & Z2 & Z3 & Z4). repeat split; congruence.
  - destruct (data_free_committed_page a t id a' t' Enew E) as (-> & _ & Hal & Hnw & _).
    unfold data_free in E.
    destruct ((id <? 2) || (a_end (data a) <=? id)); [discriminate|]. rewrite Enew in E. cbn [negb] in E.
    injection E as <-.
    constructor; cbn [tdata tmeta moveToMeta st_ovf_alloc ovf tx_with tx_stats ta_freed t_end t_allocated t_new]; auto; try lia; split; assumption.
Qed.

(* ---------- taking pages out of the meta free list (overwrite pages, free-list pages) ---------- *)
Lemma full_meta_take a0 a t regs f' da df ma mf ofr tm :
  FullInv a0 a t -> wff 2 f' -> wfl 2 regs ->
  (forall id, inl id (Mset a) <-> inl id regs \/ inl id (fregions f')) ->
  (forall id, inl id regs -> ~ inl id (fregions f')) ->
  FullInv a0 (set_meta a {| a_end := a_end (meta a); a_free := f' |} (metaTotal a))
             (tx_stats (tx_with t (moveToMeta t) (tdata t) (ta_allocated (tmeta t) (regions_ids regs))) da df ma mf 0 ofr tm).
Proof.
  intros F Wf' Wr Hset Hdis.
  destruct F as [FD Fde Fme [Fe1 Fe2] Fds Fms Fmw Fmb Fmv Fdd Fdset Fnew Fmd Fmset Ftot [Fo1 Fo2] Fst].
  constructor; cbn [data meta a_end a_free metaTotal maxPages pageSize flRoot flPages set_meta
                    tdata tmeta moveToMeta st_ovf_alloc ovf tx_stats tx_with ta_allocated t_end t_allocated t_new].
  - destruct FD as [X1 X2 X3]. constructor; assumption.
  - exact Fde.
  - exact Fme.
  - split; assumption.
  - exact Fds.
  - apply set_add_all_sorted; [exact Fms|]. intros x Hx. apply regions_ids_in in Hx. eapply wfl_lower; eauto.
  - exact Wf'.
  - intros id H. apply Fmb. apply Hset. right. exact H.
  - exact Fmv.
  - exact Fdd.
  - exact Fdset.
  - exact Fnew.
  - intros id H Hm. apply set_add_all_in in H as [H|H].
    + apply regions_ids_in in H. exact (Hdis id H Hm).
    + apply (Fmd id H). apply Hset. right. exact Hm.
  - intros id. rewrite set_add_all_in, regions_ids_in, <- Fmset, Hset. tauto.
  - exact Ftot.
  - split; [lia | exact Fo2].
  - exact Fst.
Qed.

(* walAllocator.Alloc: one overwrite page *)
Theorem full_wal_alloc_step a0 a t id a' t' :
  Inv0 a0 -> FullInv a0 a t -> metaTotal a < 2^28 ->
  wal_alloc a t = Some (id, a', t') ->
  FullInv a0 a' t' /\
  (id <> 0 -> In id (t_allocated (tmeta t')) /\ ~ inl id (Mset a') /\ ~ inl id (Dset a')).
Proof.
  intros I0 F Htot. unfold wal_alloc.
  destruct (ensure a t 1) as [[[ok a1] t1]|] eqn:Ee; [|discriminate].
  assert (F1: FullInv a0 a1 t1) by (eapply ensure_preserves; eauto; change (2^28) with 268435456; lia).
  destruct ok; [|intros [= <- <- <-]; split; [exact F1 | intros H; contradiction]].
  destruct (fl_alloc_cont false (a_free (meta a1)) 1) as [[reg|] f'] eqn:Ec;
    [|intros [= <- <- <-]; split; [exact F1 | intros H; contradiction]].
  intros [= <- <- <-].
  pose proof (fl_alloc_cont_spec 2 _ 1 _ _ (fi_mwf _ _ _ F1) ltac:(lia) Ec) as (Hc & Hlo & _ & Wf' & _ & Hset & Hdis).
  assert (Wr: wfl 2 [reg]) by (constructor; [exact Hlo | lia | constructor]).
  assert (Hids: regions_ids [reg] = [rid reg]).
  { unfold regions_ids, region_ids. cbn [flat_map]. rewrite Hc. cbn. reflexivity. }
  pose proof (full_meta_take a0 a1 t1 [reg] f' 0 0 1 0 0 0 F1 Wf' Wr
                ltac:(intros x; rewrite Hset, inl_single; tauto)
                ltac:(intros x Hx; apply Hdis; apply inl_single; exact Hx)) as F2.
  rewrite Hids in F2. split; [exact F2|].
  intros _. cbn [tmeta tx_stats tx_with ta_allocated t_allocated meta data set_meta a_free].
  assert (Hin: inr (rid reg) reg) by (unfold inr, rend; lia).
  split; [apply set_add_all_in; left; left; reflexivity|].
  split; [apply Hdis; exact Hin|].
  destruct (fi_mbelow _ _ _ F1 (rid reg)) as [A _]; [apply Hset; left; exact Hin | exact A].
Qed.

(* metaAllocator.AllocRegions: pages for the free list and the overwrite mapping *)
Theorem full_meta_alloc_step a0 a t n regs a' t' :
  Inv0 a0 -> FullInv a0 a t -> 0 <= n < 2^28 -> metaTotal a < 2^28 ->
  meta_alloc_regions a t n = Some (regs, a', t') ->
  FullInv a0 a' t' /\
  (forall id, inl id regs -> In id (t_allocated (tmeta t')) /\ ~ inl id (Mset a') /\ ~ inl id (Dset a')).
Proof.
  intros I0 F Hn Htot. unfold meta_alloc_regions.
  destruct (ensure a t n) as [[[ok a1] t1]|] eqn:Ee; [|discriminate].
  assert (F1: FullInv a0 a1 t1) by (eapply ensure_preserves; eauto).
  destruct ok; [|intros [= <- <- <-]; split; [exact F1 | intros id H; destruct (inl_nil _ H)]].
  unfold alloc_from_freelist.
  set (cnt := Z.min n (avail (a_free (meta a1)))).
  destruct (fl_alloc_regions true (a_free (meta a1)) cnt) as [rs f'] eqn:Ea.
  assert (Hav: 0 <= avail (a_free (meta a1))).
  { destruct (fi_mwf _ _ _ F1) as [W Hav]. rewrite Hav. eapply count_pages_nonneg; eauto. }
  destruct (fl_alloc_regions_spec true 2 _ cnt rs f' (fi_mwf _ _ _ F1) ltac:(unfold cnt; lia) Ea) as (Wf' & Wr & _ & _ & Hset & Hdis).
  intros [= <- <- <-].
  pose proof (full_meta_take a0 a1 t1 rs f' 0 0 1 0 0 0 F1 Wf' Wr Hset Hdis) as F2.
  split; [exact F2|].
  intros id H.
  assert (Hrs: inl id rs) by (destruct (cnt =? 0); [destruct (inl_nil _ H) | exact H]).
  cbn [tmeta tx_stats tx_with ta_allocated t_allocated meta data set_meta a_free].
  split; [apply set_add_all_in; left; apply regions_ids_in; exact Hrs|].
  split; [apply Hdis; exact Hrs|].
  destruct (fi_mbelow _ _ _ F1 id) as [A _]; [apply Hset; left; exact Hrs | exact A].
Qed.

(* metaManager.Free: only recorded *)
Lemma full_meta_free_step a0 a t id : FullInv a0 a t -> FullInv a0 a (meta_free t id).
Proof.
  intros F. destruct F as [FD Fde Fme [Fe1 Fe2] Fds Fms Fmw Fmb Fmv Fdd Fdset Fnew Fmd Fmset Ftot [Fo1 Fo2] Fst].
  unfold meta_free.
  constructor; cbn [tdata tmeta moveToMeta st_ovf_alloc ovf tx_stats tx_with ta_freed t_end t_allocated t_new]; auto; try lia; split; assumption.
Qed.

(* ---------- every state a write transaction (without overflow area) can reach ---------- *)
Inductive treach (a0 : allocst) (p : Z) : allocst -> txst -> Prop :=
| tr_init : treach a0 p a0 (make_tx a0 false p)
| tr_alloc a t n regs cnt a' t' :
    treach a0 p a t -> 0 < n < 2^32 -> data_alloc_regions a t n = (regs, cnt, a', t') -> treach a0 p a' t'
| tr_free a t id a' t' :
    treach a0 p a t -> ~ inl id (Dset a) -> ~ inl id (Mset a) -> ~ inl id (moveToMeta t) ->
    data_free a t id = Some (a', t') -> treach a0 p a' t'
| tr_wal a t id a' t' :
    treach a0 p a t -> metaTotal a < 2^28 -> wal_alloc a t = Some (id, a', t') -> treach a0 p a' t'
| tr_meta a t n regs a' t' :
    treach a0 p a t -> 0 <= n < 2^28 -> metaTotal a < 2^28 ->
    meta_alloc_regions a t n = Some (regs, a', t') -> treach a0 p a' t'
| tr_mfree a t id : treach a0 p a t -> treach a0 p a (meta_free t id).

Theorem treach_inv a0 p a t : Inv0 a0 -> treach a0 p a t -> FullInv a0 a t.
Proof.
  intros I0 R. induction R.
  - apply full_inv_init. exact I0.
  - eapply full_alloc_step; eauto.
  - eapply full_free_step; eauto.
  - eapply full_wal_alloc_step; eauto.
  - eapply full_meta_alloc_step; eauto.
  - apply full_meta_free_step. assumption.
Qed.

(* ---------- allocator.Rollback ---------- *)
Definition rb_step (e : Z) (acc : freelist * Z * list Z) (reg : region) : freelist * Z * list Z :=
  let '(mf, mt, dalloc) := acc in
  (fl_remove_region mf reg, mt - rcount reg,
   if rid reg <? e then set_add_all (region_ids reg) dalloc else dalloc).

Lemma rollback_fold : forall mv e mf mt dalloc mf' mt' dalloc',
  wff 2 mf ->
  fold_left (rb_step e) mv (mf, mt, dalloc) = (mf', mt', dalloc') ->
  wff 2 mf' /\
  (forall id, inl id (fregions mf') <-> inl id (fregions mf) /\ ~ inl id mv) /\
  mt' = mt - count_pages mv /\
  (forall x, In x dalloc' <-> In x dalloc \/ exists r, In r mv /\ rid r < e /\ inr x r) /\
  (sorted_from 2 dalloc -> (forall x, inl x mv -> 2 <= x) -> sorted_from 2 dalloc').
Proof.
  induction mv as [|r mv IH]; intros e mf mt dalloc mf' mt' dalloc' W; cbn [fold_left].
  - intros [= <- <- <-]. split; [exact W|].
    split; [intros id; split; [intros H; split; [exact H | apply inl_nil] | tauto]|].
    split; [rewrite count_pages_nil; lia|].
    split; [intros x; split; [left; assumption | intros [H|(r & [] & _)]; exact H] | auto].
  - unfold rb_step at 2. intros E.
    destruct (fl_remove_region_spec mf r 2 W) as (W1 & Hs1).
    destruct (IH e _ _ _ mf' mt' dalloc' W1 E) as (W2 & Hs2 & Hmt & Hd & Hsorted).
    split; [exact W2|].
    split; [intros id; rewrite Hs2, Hs1, inl_cons; tauto|].
    split; [rewrite Hmt, count_pages_cons; lia|].
    split.
    + intros x. rewrite Hd. destruct (rid r <? e) eqn:Er.
      * rewrite set_add_all_in, region_ids_in. split.
        -- intros [[H|H]|(r' & Hin & Hlt & Hx)]; [right; exists r; split; [left; reflexivity | split; [lia | exact H]] | left; exact H | right; exists r'; split; [right; exact Hin | split; assumption]].
        -- intros [H|(r' & [<-|Hin] & Hlt & Hx)]; [left; right; exact H | left; left; exact Hx | right; exists r'; split; [exact Hin | split; assumption]].
      * split.
        -- intros [H|(r' & Hin & Hlt & Hx)]; [left; exact H | right; exists r'; split; [right; exact Hin | split; assumption]].
        -- intros [H|(r' & [<-|Hin] & Hlt & Hx)]; [left; exact H | lia | right; exists r'; split; [exact Hin | split; assumption]].
    + intros Hsd Hge. apply Hsorted.
      * destruct (rid r <? e); [|exact Hsd]. apply set_add_all_sorted; [exact Hsd|].
        intros x Hx. apply region_ids_in in Hx. apply Hge. apply inl_cons. left. exact Hx.
      * intros x Hx. apply Hge. apply inl_cons. right. exact Hx.
Qed.

Lemma rollback_unfold a t :
  rollback a t =
  let m1 := area_rollback (meta a) (tmeta t) in
  let '(mf, mt, dalloc) := fold_left (rb_step (t_end (tdata t))) (moveToMeta t)
                             (a_free m1, metaTotal a - st_ovf_alloc t, t_allocated (tdata t)) in
  let td := {| t_end := t_end (tdata t); t_allocated := dalloc; t_new := t_new (tdata t); t_freed := t_freed (tdata t) |} in
  {| maxPages := maxPages a; pageSize := pageSize a;
     meta := {| a_end := a_end m1; a_free := mf |}; metaTotal := mt;
     data := area_rollback (data a) td;
     flRoot := flRoot a; flPages := flPages a |}.
Proof.
  unfold rollback. cbv zeta.
  assert (Hf: forall l acc, fold_left (fun '(mf, mt, dalloc) reg =>
            (fl_remove_region mf reg, mt - rcount reg,
             if rid reg <? t_end (tdata t) then set_add_all (region_ids reg) dalloc else dalloc)) l acc
          = fold_left (rb_step (t_end (tdata t))) l acc).
  { induction l as [|r l IH]; intros acc; cbn [fold_left]; [reflexivity|].
    rewrite IH. f_equal. destruct acc as [[mf mt] d]. reflexivity. }
  rewrite Hf. reflexivity.
Qed.

(* Rollback after ANY sequence of data allocations, frees, overwrite-page allocations, meta page allocations and
   meta frees (including every growth of the meta area they caused) restores the allocator: same markers
   and counters, and both free lists hold exactly the pages they held when the transaction began. *)
Theorem rollback_exact_full a0 p a t :
  Inv0 a0 -> treach a0 p a t -> a_end (meta a) - a_end (data a0) < 2^32 ->
  let r := rollback a t in
  maxPages r = maxPages a0 /\ pageSize r = pageSize a0 /\ flRoot r = flRoot a0 /\ flPages r = flPages a0 /\
  metaTotal r = metaTotal a0 /\
  a_end (meta r) = a_end (meta a0) /\ wff 2 (a_free (meta r)) /\
  (forall id, inl id (Mset r) <-> inl id (Mset a0)) /\ avail (a_free (meta r)) = avail (a_free (meta a0)) /\
  a_end (data r) = a_end (data a0) /\ wff 2 (a_free (data r)) /\
  (forall id, inl id (Dset r) <-> inl id (Dset a0)) /\ avail (a_free (data r)) = avail (a_free (data a0)).
Proof.
  intros I0 R Hsmall.
  pose proof (treach_inv a0 p a t I0 R) as F.
  destruct F as [FD Fde Fme [Fe1 Fe2] Fds Fms Fmw Fmb Fmv Fdd Fdset Fnew Fmd Fmset Ftot [Fo1 Fo2] Fst].
  destruct I0 as [ID0 MW0 ME0 MB0].
  destruct FD as [Wd Hbd Hed]. destruct ID0 as [Wd0 Hbd0 Hed0].
  set (e0 := a_end (data a0)) in *.
  (* the meta area first *)
  destruct (area_rollback_spec (meta a) (tmeta t) Fmw) as (Em1 & Wm1 & Hsm1 & _).
  { intros id H. destruct (Fmb _ H) as [_ B]. lia. }
  { exact Fms. }
  { rewrite Fme. unfold e0 in *. lia. }
  { rewrite Fme. unfold e0 in *. lia. }
  { intros id H _. apply Fmd. exact H. }
  cbv zeta. rewrite rollback_unfold. cbv zeta.
  destruct (fold_left (rb_step (t_end (tdata t))) (moveToMeta t)
              (a_free (area_rollback (meta a) (tmeta t)), metaTotal a - st_ovf_alloc t, t_allocated (tdata t)))
    as [[mf mt] dalloc] eqn:Ef.
  destruct (rollback_fold _ _ _ _ _ _ _ _ Wm1 Ef) as (Wmf & Hsmf & Hmt & Hdal & Hsorted).
  cbn [maxPages pageSize flRoot flPages metaTotal meta data a_end a_free].
  assert (Hmv2: forall x, inl x (moveToMeta t) -> 2 <= x) by (intros x H; destruct (Fmv _ H) as (_ & B & _); lia).
  assert (Hmvdis: forall id, inl id (Mset a0) -> ~ inl id (moveToMeta t)).
  { intros id H0 Hv. destruct (MB0 _ H0) as [A B]. destruct (Fmv _ Hv) as (_ & _ & [C|C]); [exact (A C) | unfold e0 in *; lia]. }
  assert (Hmset: forall id, inl id (fregions mf) <-> inl id (Mset a0)).
  { intros id. rewrite Hsmf, Hsm1, Fme. split.
    - intros [[Hlt Hor] Hnv]. assert (H: inl id (Mset a0) \/ inl id (moveToMeta t)) by (apply Fmset; exact Hor). tauto.
    - intros H0. destruct (MB0 _ H0) as [_ B]. split; [|apply Hmvdis; exact H0]. split; [unfold e0 in *; lia|]. apply Fmset. left. exact H0. }
  (* the data area *)
  set (td := {| t_end := t_end (tdata t); t_allocated := dalloc; t_new := t_new (tdata t); t_freed := t_freed (tdata t) |}).
  destruct (area_rollback_spec (data a) td Wd Hbd) as (Ed & Wdr & Hsd & _).
  { cbn [td t_allocated]. apply Hsorted; assumption. }
  { cbn [td t_end]. rewrite Fde. exact Hed0. }
  { cbn [td t_end]. rewrite Fde. unfold e0 in *. lia. }
  { cbn [td t_end t_allocated]. rewrite Fde. intros id H Hlt. apply Hdal in H as [H|(r & Hin & _ & Hx)].
    - apply Fdd; assumption.
    - assert (Hv: inl id (moveToMeta t)) by (exists r; split; assumption). destruct (Fmv _ Hv) as (A & _). exact A. }
  cbn [td t_end t_allocated] in Ed, Hsd. rewrite Fde in Ed, Hsd.
  assert (Hdset: forall id, inl id (fregions (a_free (area_rollback (data a) td))) <-> inl id (Dset a0)).
  { intros id. rewrite Hsd. split.
    - intros [Hlt Hor]. apply (Fdset id Hlt). destruct Hor as [H|H]; [left; exact H|].
      apply Hdal in H as [H|(r & Hin & _ & Hx)]; [right; left; exact H | right; right; exists r; split; assumption].
    - intros H0. pose proof (Hbd0 _ H0) as Hlt. split; [exact Hlt|].
      apply (Fdset id Hlt) in H0 as [H|[H|H]]; [left; exact H | right; apply Hdal; left; exact H|].
      right. apply Hdal. right. destruct H as (r & Hin & Hx). exists r. split; [exact Hin|]. split; [unfold inr in Hx; rewrite Fde; lia | exact Hx]. }
  destruct Fst as (Z1 & Z2 & Z3 & Z4).
  split; [exact Z1|]. split; [exact Z2|]. split; [exact Z3|]. split; [exact Z4|].
  split; [rewrite Hmt, Ftot, Fo1; lia|].
  split; [rewrite Em1, Fme; reflexivity|].
  split; [exact Wmf|]. split; [exact Hmset|].
  split; [destruct Wmf as [A1 A2]; destruct MW0 as [B1 B2]; rewrite A2, B2; apply (same_set_count _ _ 2 A1 B1 Hmset)|].
  split; [exact Ed|]. split; [exact Wdr|]. split; [exact Hdset|].
  destruct Wdr as [A1 A2]. destruct Wd0 as [B1 B2]. rewrite A2, B2. apply (same_set_count _ _ 2 A1 B1 Hdset).
Qed.
