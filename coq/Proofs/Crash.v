(* Abstract crash-atomicity theorem: any trace that follows the write discipline (monitor [step])
   recovers, from every crash image, the last committed state or the complete in-flight commit. *)
From VF Require Import CrashModel.
From Coq Require Import ZArith List Lia Bool.
Import ListNotations.
Open Scope Z_scope.

Section Crash.
Variable C H St : Type.
Variable hdr : C -> option (Z * H).
Variable chase : disk C -> H -> option (St * list Z).
Hypothesis chase_frame : forall d d' h st fp,
  chase d h = Some (st, fp) -> (forall p, In p fp -> d' p = d p) -> chase d' h = Some (st, fp).
Hypothesis fp_ge2 : forall d h st fp, chase d h = Some (st,fp) -> forall p, In p fp -> 2 <= p.

(* order of transaction ids (the implementation compares modulo 2^64) *)
Variable newer : Z -> Z -> bool.
Variable nxt : Z -> Z.
Variable older : Z -> Z -> Prop.
Hypothesis older_newer : forall t' t, older t' t -> newer t t' = true /\ newer t' t = false.
Hypothesis nxt_newer : forall t, newer (nxt t) t = true /\ newer t (nxt t) = false.
Hypothesis older_nxt : forall t, older t (nxt t).

Notation disk := (disk C).
Notation select := (select C H hdr newer).
Notation recover := (recover C H St hdr chase newer).
Notation upd := (upd C).
Notation apply := (apply C).
Notation mst := (mst C H St).
Notation step := (step C H St hdr chase nxt).
Notation run := (run C H St hdr chase nxt).
Notation ev := (ev C).

Inductive crashsub : list (Z*C) -> list (Z*C) -> Prop :=
| cs_nil : crashsub [] []
| cs_drop x l l' : crashsub l l' -> crashsub (x::l) l'
| cs_keep x l l' : crashsub l l' -> crashsub (x::l) (x::l')
| cs_torn p c c' l l' : p < 2 -> hdr c' = None -> crashsub l l' -> crashsub ((p,c)::l) ((p,c')::l').

Definition older_or_invalid (c:C) (t:Z) := match hdr c with None => True | Some (t',_) => older t' t end.

Definition dataw (cfp:list Z) (w:Z*C) := 2 <= fst w /\ ~ In (fst w) cfp.

Record Inv (m:mst) : Prop := {
  invA : exists h, hdr (dd m (slotp (act m))) = Some (txid m, h) /\ chase (dd m) h = Some (cst m, cfp m);
  invB : match infl m with
         | None => older_or_invalid (dd m (slotp (negb (act m)))) (txid m) /\ Forall (dataw (cfp m)) (pend m)
         | Some (c,h,st,fp) => hdr c = Some (nxt (txid m), h) /\ chase (dd m) h = Some (st,fp) /\
               ((pend m = [(slotp (negb (act m)), c)] /\ older_or_invalid (dd m (slotp (negb (act m)))) (txid m))
                \/ (pend m = [] /\ dd m (slotp (negb (act m))) = c))
         end }.

Lemma apply_other ws : forall d q, (forall w, In w ws -> fst w <> q) -> apply ws d q = d q.
Proof.
  induction ws as [|[p c] r IH]; simpl; intros d q Hq; [reflexivity|].
  rewrite IH by (intros w Hw; apply Hq; right; exact Hw).
  unfold upd. destruct (Z.eqb_spec q p) as [->|]; [|reflexivity].
  exfalso. apply (Hq (p,c)); [left; reflexivity|reflexivity].
Qed.

Lemma crashsub_fst l l' : crashsub l l' -> forall w, In w l' -> exists w0, In w0 l /\ fst w0 = fst w.
Proof.
  induction 1; simpl; intros w Hw.
  - destruct Hw.
  - destruct (IHcrashsub _ Hw) as [w0 [? ?]]. exists w0; auto.
  - destruct Hw as [<-|Hw]; [exists x; auto|]. destruct (IHcrashsub _ Hw) as [w0 [? ?]]. exists w0; auto.
  - destruct Hw as [<-|Hw]; [exists (p,c); auto|]. destruct (IHcrashsub _ Hw) as [w0 [? ?]]. exists w0; auto.
Qed.

Lemma slotp_lt2 b : slotp b < 2. Proof. destruct b; simpl; lia. Qed.
Lemma slotp_neq b : slotp b <> slotp (negb b). Proof. destruct b; simpl; lia. Qed.

Lemma select_active d a t h : hdr (d (slotp a)) = Some (t,h) -> older_or_invalid (d (slotp (negb a))) t ->
  select d = Some (a,t,h).
Proof.
  unfold select, older_or_invalid. destruct a; simpl; intros Ha Ho; rewrite Ha.
  - destruct (hdr (d 0)) as [[t0 h0]|]; [|reflexivity].
    destruct (older_newer _ _ Ho) as [_ H2]. rewrite H2. reflexivity.
  - destruct (hdr (d 1)) as [[t1 h1]|]; [|reflexivity].
    destruct (older_newer _ _ Ho) as [H1 _]. rewrite H1. reflexivity.
Qed.

Lemma select_new d a t h h' : hdr (d (slotp a)) = Some (t,h) -> hdr (d (slotp (negb a))) = Some (nxt t,h') ->
  select d = Some (negb a,nxt t,h').
Proof.
  unfold select. destruct a; simpl; intros Ha Ho; rewrite Ha, Ho.
  - destruct (nxt_newer t) as [H1 _]. rewrite H1. reflexivity.
  - destruct (nxt_newer t) as [_ H2]. rewrite H2. reflexivity.
Qed.

Lemma recover_of_select d a t h st fp : select d = Some (a,t,h) -> chase d h = Some (st,fp) -> recover d = Some st.
Proof. unfold recover. intros -> ->. reflexivity. Qed.

Theorem crash_atomic_inv m : Inv m -> forall ws, crashsub (pend m) ws ->
   recover (apply ws (dd m)) = Some (cst m) \/
   (exists c h st fp, infl m = Some (c,h,st,fp) /\ recover (apply ws (dd m)) = Some st).
Proof.
  intros [[h [Hh Hc]] HB] ws Hs.
  destruct (infl m) as [[[[c h'] st] fp]|] eqn:Ei.
  - destruct HB as [Hc' [Hch [[Hp Hold]|[Hp Hd]]]].
    + rewrite Hp in Hs. inversion Hs; subst.
      * (* dropped *) match goal with X : crashsub [] _ |- _ => inversion X; subst end. simpl.
        left. eapply recover_of_select; [eapply (select_active _ (act m)); eauto|exact Hc].
      * (* kept *) match goal with X : crashsub [] _ |- _ => inversion X; subst end. simpl.
        right. exists c, h', st, fp. split; [reflexivity|].
        eapply recover_of_select.
        -- apply (select_new _ (act m) (txid m) h h').
           ++ unfold upd. destruct (Z.eqb_spec (slotp (act m)) (slotp (negb (act m)))) as [E|_]; [destruct (slotp_neq _ E)|exact Hh].
           ++ unfold upd. rewrite Z.eqb_refl. exact Hc'.
        -- eapply chase_frame; [exact Hch|]. intros p Hin. unfold upd.
           destruct (Z.eqb_spec p (slotp (negb (act m)))) as [->|]; [|reflexivity].
           pose proof (fp_ge2 _ _ _ _ Hch _ Hin). pose proof (slotp_lt2 (negb (act m))). lia.
      * (* torn *) match goal with X : crashsub [] _ |- _ => inversion X; subst end. simpl.
        left. eapply recover_of_select.
        -- eapply (select_active _ (act m)).
           ++ unfold upd. destruct (Z.eqb_spec (slotp (act m)) (slotp (negb (act m)))) as [E|_]; [destruct (slotp_neq _ E)|exact Hh].
           ++ unfold older_or_invalid, upd. rewrite Z.eqb_refl.
              match goal with X : hdr _ = None |- _ => rewrite X end. exact I.
        -- eapply chase_frame; [exact Hc|]. intros p Hin. unfold upd.
           destruct (Z.eqb_spec p (slotp (negb (act m)))) as [->|]; [|reflexivity].
           pose proof (fp_ge2 _ _ _ _ Hc _ Hin). pose proof (slotp_lt2 (negb (act m))). lia.
    + assert (Hws: ws = []) by (rewrite Hp in Hs; inversion Hs; reflexivity). subst ws. simpl.
      right. exists c, h', st, fp. split; [reflexivity|].
      eapply recover_of_select; [|exact Hch].
      apply (select_new _ (act m) (txid m) h h'); [exact Hh|rewrite Hd; exact Hc'].
  - destruct HB as [Hold Hdata]. left.
    assert (Hfst: forall w, In w ws -> 2 <= fst w /\ ~ In (fst w) (cfp m)).
    { intros w Hw. destruct (crashsub_fst _ _ Hs _ Hw) as [w0 [Hin <-]].
      rewrite Forall_forall in Hdata. apply Hdata, Hin. }
    eapply recover_of_select.
    + eapply (select_active _ (act m)).
      * rewrite apply_other; [exact Hh|]. intros w Hw. pose proof (Hfst _ Hw). pose proof (slotp_lt2 (act m)). lia.
      * rewrite apply_other; [exact Hold|]. intros w Hw. pose proof (Hfst _ Hw). pose proof (slotp_lt2 (negb (act m))). lia.
    + eapply chase_frame; [exact Hc|]. intros p Hin. apply apply_other.
      intros w Hw E. apply (proj2 (Hfst _ Hw)). rewrite E. exact Hin.
Qed.

Lemma step_inv m e m' : Inv m -> step m e = Some m' -> Inv m'.
Proof.
  intros [[h [Hh Hc]] HB] Hstep. destruct e as [p c| |]; simpl in Hstep.
  - destruct (Z.eqb_spec p (slotp (negb (act m)))) as [->|Hno].
    + destruct (infl m) eqn:Ei; [discriminate|]. destruct (pend m) eqn:Ep; [|discriminate].
      destruct (hdr c) as [[t h']|] eqn:Ehc; [|discriminate].
      destruct (Z.eqb_spec t (nxt (txid m))); [subst t|discriminate].
      destruct (chase (dd m) h') as [[st fp]|] eqn:Ech; [|discriminate].
      inversion Hstep; subst; clear Hstep. constructor; simpl.
      * exists h; auto.
      * destruct HB as [Hold _]. repeat split; auto.
    + destruct (Z.eqb_spec p (slotp (act m))) as [|Hna]; [discriminate|].
      destruct (Z.ltb_spec p 2) as [|Hp2]; [discriminate|].
      destruct (infl m) eqn:Ei; [discriminate|].
      destruct (existsb (Z.eqb p) (cfp m)) eqn:Eex; [discriminate|].
      inversion Hstep; subst; clear Hstep. constructor; simpl.
      * exists h; auto.
      * destruct HB as [Hold Hd]. split; [exact Hold|].
        apply Forall_app; split; [exact Hd|]. constructor; [|constructor]. split; simpl.
        -- exact Hp2.
        -- intros Hin. assert (existsb (Z.eqb p) (cfp m) = true); [|congruence].
           apply existsb_exists. exists p; split; [exact Hin|apply Z.eqb_refl].
  - inversion Hstep; subst; clear Hstep.
    destruct (infl m) as [[[[c h'] st] fp]|] eqn:Ei; constructor; simpl; rewrite ?Ei.
    + destruct HB as [Hc' [Hch [[Hp Hold]|[Hp Hd]]]]; rewrite Hp; simpl.
      * exists h. split.
        -- unfold upd. destruct (Z.eqb_spec (slotp (act m)) (slotp (negb (act m)))) as [E|_]; [destruct (slotp_neq _ E)|exact Hh].
        -- eapply chase_frame; [exact Hc|]. intros p Hin. unfold upd.
           destruct (Z.eqb_spec p (slotp (negb (act m)))) as [->|]; [|reflexivity].
           pose proof (fp_ge2 _ _ _ _ Hc _ Hin). pose proof (slotp_lt2 (negb (act m))). lia.
      * exists h; auto.
    + destruct HB as [Hc' [Hch [[Hp Hold]|[Hp Hd]]]]; rewrite Hp; simpl.
      * split; [exact Hc'|]. split.
        -- eapply chase_frame; [exact Hch|]. intros p Hin. unfold upd.
           destruct (Z.eqb_spec p (slotp (negb (act m)))) as [->|]; [|reflexivity].
           pose proof (fp_ge2 _ _ _ _ Hch _ Hin). pose proof (slotp_lt2 (negb (act m))). lia.
        -- right. split; [reflexivity|]. unfold upd. rewrite Z.eqb_refl. reflexivity.
      * repeat split; auto.
    + destruct HB as [Hold Hdata]. rewrite Forall_forall in Hdata. exists h. split.
      * rewrite apply_other; [exact Hh|]. intros w Hw. destruct (Hdata _ Hw). pose proof (slotp_lt2 (act m)). lia.
      * eapply chase_frame; [exact Hc|]. intros p Hin. apply apply_other.
        intros w Hw E. destruct (Hdata _ Hw) as [_ Hn]. apply Hn. rewrite E. exact Hin.
    + destruct HB as [Hold Hdata]. rewrite Forall_forall in Hdata. split; [|constructor].
      rewrite apply_other; [exact Hold|]. intros w Hw. destruct (Hdata _ Hw). pose proof (slotp_lt2 (negb (act m))). lia.
  - destruct (infl m) as [[[[c h'] st] fp]|] eqn:Ei; [|discriminate].
    destruct (pend m) eqn:Ep; [|discriminate]. inversion Hstep; subst; clear Hstep.
    destruct HB as [Hc' [Hch [[Hp _]|[_ Hd]]]]; [discriminate|].
    constructor; simpl.
    + exists h'. rewrite Hd. auto.
    + split; [|constructor]. rewrite negb_involutive. unfold older_or_invalid. rewrite Hh. apply older_nxt.
Qed.

Theorem crash_atomic evs : forall m0 m, Inv m0 -> run m0 evs = Some m -> forall ws, crashsub (pend m) ws ->
   recover (apply ws (dd m)) = Some (cst m) \/
   (exists c h st fp, infl m = Some (c,h,st,fp) /\ recover (apply ws (dd m)) = Some st).
Proof.
  induction evs as [|e r IH]; simpl; intros m0 m Hinv Hrun ws Hs.
  - inversion Hrun; subst. apply crash_atomic_inv; assumption.
  - destruct (step m0 e) as [m1|] eqn:Es; [|discriminate].
    eapply (IH m1); [eapply step_inv; eassumption | exact Hrun | exact Hs].
Qed.
End Crash.

