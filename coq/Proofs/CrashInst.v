(* Instantiation of the abstract crash theorem with the concrete header validation, the concrete
   recovery (both page chains + all protected pages) and the modular transaction id order. *)
From VF Require Import Monitor Crash.
From Coq Require Import Lia ZifyBool.

(* ---- frame: recovery only depends on the pages it reads ---- *)
Lemma read_wal_frame : forall fuel (d d' : pdisk) root ids es,
  read_wal fuel d root = Some (ids, es) -> (forall p, In p ids -> d' p = d p) ->
  read_wal fuel d' root = Some (ids, es).
Proof.
  induction fuel as [|f IH]; intros d d' root ids es; cbn [read_wal].
  - destruct (root =? 0); [intros [= <- <-] _; reflexivity | discriminate].
  - destruct (root =? 0); [intros [= <- <-] _; reflexivity|].
    destruct (d root) as [pg|] eqn:Ed; [|discriminate].
    destruct (decode_wal_entries_z (lp_count pg) (lp_payload pg)) as [es0|] eqn:Ee; [|discriminate].
    destruct (read_wal f d (lp_next pg)) as [[ids1 es1]|] eqn:Er; [|discriminate].
    intros [= <- <-] Hag. rewrite (Hag root) by (left; reflexivity). rewrite Ed, Ee.
    rewrite (IH d d' _ _ _ Er); [reflexivity|]. intros p Hp. apply Hag. right. exact Hp.
Qed.

Lemma read_freelist_frame : forall fuel (d d' : pdisk) root ids es,
  read_freelist fuel d root = Some (ids, es) -> (forall p, In p ids -> d' p = d p) ->
  read_freelist fuel d' root = Some (ids, es).
Proof.
  induction fuel as [|f IH]; intros d d' root ids es; cbn [read_freelist].
  - destruct (root =? 0); [intros [= <- <-] _; reflexivity | discriminate].
  - destruct (root =? 0); [intros [= <- <-] _; reflexivity|].
    destruct (d root) as [pg|] eqn:Ed; [|discriminate].
    destruct (decode_entries_z (lp_count pg) (lp_payload pg)) as [es0|] eqn:Ee; [|discriminate].
    destruct (read_freelist f d (lp_next pg)) as [[ids1 es1]|] eqn:Er; [|discriminate].
    intros [= <- <-] Hag. rewrite (Hag root) by (left; reflexivity). rewrite Ed, Ee.
    rewrite (IH d d' _ _ _ Er); [reflexivity|]. intros p Hp. apply Hag. right. exact Hp.
Qed.

Lemma chase_frame_meta fuel (d d' : pdisk) h st fp :
  chase fuel d h = Some (st, fp) -> (forall p, In p fp -> d' p = d p) -> chase fuel d' h = Some (st, fp).
Proof.
  unfold chase.
  destruct (read_wal fuel d (h_wal h)) as [[wids wes]|] eqn:Ew; [|discriminate].
  destruct (read_freelist fuel d (h_freelist h)) as [[fids fes]|] eqn:Ef; [|discriminate].
  destruct (split_entries fes) as [mf df] eqn:Es. intros [= <- <-] Hag.
  rewrite (read_wal_frame _ _ d' _ _ _ Ew) by (intros p Hp; apply Hag; apply in_or_app; left; exact Hp).
  rewrite (read_freelist_frame _ _ d' _ _ _ Ef) by (intros p Hp; apply Hag; apply in_or_app; right; exact Hp).
  rewrite Es. reflexivity.
Qed.

Theorem chase_full_frame fuel (d d' : cdisk) h v fp :
  chase_full fuel d h = Some (v, fp) -> (forall p, In p fp -> d' p = d p) -> chase_full fuel d' h = Some (v, fp).
Proof.
  unfold chase_full.
  destruct (chase fuel d h) as [[st mfp]|] eqn:Ec; [|discriminate].
  destruct (negb (all_ge2 mfp)) eqn:Eg; [discriminate|].
  intros [= <- <-] Hag.
  rewrite (chase_frame_meta _ _ d' _ _ _ Ec) by (intros p Hp; apply Hag; apply in_or_app; left; exact Hp).
  rewrite Eg. f_equal. f_equal. f_equal.
  apply map_ext_in. intros p Hp. apply Hag. apply in_or_app. right. exact Hp.
Qed.

Theorem chase_full_ge2 fuel (d : cdisk) h v fp :
  chase_full fuel d h = Some (v, fp) -> forall p, In p fp -> 2 <= p.
Proof.
  unfold chase_full.
  destruct (chase fuel d h) as [[st mfp]|]; [|discriminate].
  destruct (negb (all_ge2 mfp)) eqn:Eg; [discriminate|].
  intros [= <- <-] p Hp. apply in_app_or in Hp as [Hp|Hp].
  - unfold all_ge2 in Eg. apply negb_false_iff in Eg. rewrite forallb_forall in Eg. specialize (Eg _ Hp). lia.
  - apply filter_In in Hp as [_ Hp]. unfold protected_page in Hp.
    repeat (apply andb_prop in Hp as [Hp _]). lia.
Qed.

(* ---- the modular order of transaction ids ---- *)
Definition older_rel (t' t : Z) : Prop := txid_newer t t' = true /\ txid_newer t' t = false.

Lemma older_rel_newer t' t : older_rel t' t -> txid_newer t t' = true /\ txid_newer t' t = false.
Proof. intros H; exact H. Qed.

Lemma nxt_txid_newer t : txid_newer (nxt_txid t) t = true /\ txid_newer t (nxt_txid t) = false.
Proof.
  unfold txid_newer, nxt_txid.
  assert (E1: ((t + 1) mod 2 ^ 64 - t) mod 2 ^ 64 = 1).
  { rewrite Zminus_mod_idemp_l. replace (t + 1 - t) with 1 by lia. reflexivity. }
  assert (E2: (t - (t + 1) mod 2 ^ 64) mod 2 ^ 64 = 2^64 - 1).
  { rewrite Zminus_mod_idemp_r. replace (t - (t + 1)) with (-1) by lia. reflexivity. }
  rewrite E1, E2. split; reflexivity.
Qed.

Lemma older_rel_nxt t : older_rel t (nxt_txid t).
Proof. apply nxt_txid_newer. Qed.

(* ---- the concrete crash theorem ---- *)
Definition MInv (fuel : nat) : mon -> Prop :=
  Inv cell header view hdr_of (chase_full fuel) nxt_txid older_rel.

(* the executable initial state satisfies the invariant *)
Theorem mon_init_inv fuel base m : mon_init fuel base = Some m -> MInv fuel m.
Proof.
  unfold mon_init.
  assert (Hpick: forall a mm,
    match hdr_of (base (slotp a)) with
    | Some (t, h) =>
        if match hdr_of (base (slotp (negb a))) with None => true | Some (t', _) => older_txid t' t end
        then match chase_full fuel base h with
             | Some (v, fp) => Some {| dd := base; pend := []; act := a; txid := t; cst := v; cfp := fp; infl := None |}
             | None => None end
        else None
    | None => None end = Some mm -> MInv fuel mm).
  { intros a m0. destruct (hdr_of (base (slotp a))) as [[t h]|] eqn:Eh; [|discriminate].
    destruct (match hdr_of (base (slotp (negb a))) with None => true | Some (t', _) => older_txid t' t end) eqn:Eo; [|discriminate].
    destruct (chase_full fuel base h) as [[v fp]|] eqn:Ec; [|discriminate].
    intros [= <-]. constructor; cbn.
    - exists h. auto.
    - split; [|constructor]. unfold older_or_invalid.
      destruct (hdr_of (base (slotp (negb a)))) as [[t' h']|]; [|exact I].
      unfold older_txid in Eo. apply andb_prop in Eo as [E1 E2]. split; [exact E1|]. apply negb_true_iff in E2. exact E2. }
  intros H.
  match type of H with (match ?x with Some _ => _ | None => _ end = _) =>
    destruct x as [m1|] eqn:E1 end.
  - injection H as <-. apply (Hpick false). exact E1.
  - apply (Hpick true). exact H.
Qed.

(* For EVERY trace accepted by the monitor, for EVERY crash point (prefix of the trace) and EVERY
   subset of the page writes issued since the last completed sync that reaches the disk (a torn
   header write counts as an invalid header): recovery yields exactly the view of the last commit
   whose Commit returned, or - only while a commit is in flight - the complete view of that commit.
   The view contains the allocator state, the mapping, the root and the content of every page a
   reader of that state can reach. *)
Theorem crash_atomic_concrete fuel evs m0 m :
  MInv fuel m0 -> mon_run fuel m0 evs = Some m ->
  forall ws, crashsub cell header hdr_of (pend m) ws ->
  mon_recover fuel (apply cell ws (dd m)) = Some (cst m) \/
  (exists c h v fp, infl m = Some (c, h, v, fp) /\ mon_recover fuel (apply cell ws (dd m)) = Some v).
Proof.
  intros Hinv Hrun ws Hs.
  eapply (crash_atomic cell header view hdr_of (chase_full fuel) (chase_full_frame fuel) (chase_full_ge2 fuel)
            txid_newer nxt_txid older_rel older_rel_newer nxt_txid_newer older_rel_nxt evs m0 m Hinv Hrun ws Hs).
Qed.

(* every step accepted by the monitor keeps the invariant: a recovered and re-initialised file can go on *)
Theorem mon_step_inv fuel m e m' : MInv fuel m -> mon_step fuel m e = Some m' -> MInv fuel m'.
Proof.
  intros Hinv Hstep.
  eapply (step_inv cell header view hdr_of (chase_full fuel) (chase_full_frame fuel) (chase_full_ge2 fuel)
            nxt_txid older_rel older_rel_nxt m e m' Hinv Hstep).
Qed.

(* ---- the recovery of the crash theorem selects the header exactly as readValidMeta does ---- *)
(* [select] (CrashModel) instantiated with the concrete header validation and the modular txid order picks
   the slot [choose] (Model/Meta.v, the function validated against readValidMeta) picks on the same two
   header pages, and recovers from that header. *)
Theorem select_is_choose (d : cdisk) pg0 pg1 :
  d 0 = Some pg0 -> d 1 = Some pg1 ->
  match choose pg0 pg1 with
  | SelErr => select cell header hdr_of txid_newer d = None
  | SelOk a t =>
      select cell header hdr_of txid_newer d =
      Some (negb (a =? 0), t, decode_header (if a =? 0 then pg0 else pg1))
  end.
Proof.
  intros H0 H1. unfold select, choose, hdr_of. rewrite H0, H1.
  destruct (valid_slot pg0) eqn:V0, (valid_slot pg1) eqn:V1; cbn [negb Z.eqb]; try reflexivity.
  destruct (txid_newer (h_txid (decode_header pg0)) (h_txid (decode_header pg1))); reflexivity.
Qed.

Corollary recover_uses_chosen_header fuel (d : cdisk) pg0 pg1 a t :
  d 0 = Some pg0 -> d 1 = Some pg1 -> choose pg0 pg1 = SelOk a t ->
  mon_recover fuel d = option_map fst (chase_full fuel d (decode_header (if a =? 0 then pg0 else pg1))).
Proof.
  intros H0 H1 Hc. pose proof (select_is_choose d pg0 pg1 H0 H1) as Hs. rewrite Hc in Hs.
  unfold mon_recover, recover. rewrite Hs. reflexivity.
Qed.

Corollary recover_fails_iff_no_valid_header fuel (d : cdisk) pg0 pg1 :
  d 0 = Some pg0 -> d 1 = Some pg1 -> choose pg0 pg1 = SelErr -> mon_recover fuel d = None.
Proof.
  intros H0 H1 Hc. pose proof (select_is_choose d pg0 pg1 H0 H1) as Hs. rewrite Hc in Hs.
  unfold mon_recover, recover. rewrite Hs. reflexivity.
Qed.
