(* Whole histories of transactions on the allocator model: what is recorded as freed inside a transaction,
   the commit step, and the invariant at every quiescent point of every history (no overflow area). *)
From VF Require Import Region Freelist Alloc RegionProofs AllocProofs TxAllocProofs MetaAllocProofs.
From Coq Require Import Lia ZifyBool.

(* ---------- the end markers never pass the size limit ---------- *)
Definition EndInv (a : allocst) : Prop := maxPages a = 0 \/ a_end (meta a) <= maxPages a.

Lemma data_alloc_regions_cap a t n regs cnt a' t' :
  0 < n -> a_end (data a) <= a_end (meta a) -> EndInv a -> 0 <= avail (a_free (data a)) ->
  data_alloc_regions a t n = (regs, cnt, a', t') -> EndInv a'.
Proof.
  intros Hn He Hcap Hav. unfold data_alloc_regions.
  destruct (data_avail a <? n) eqn:Eav; [intros [= <- <- <- <-]; exact Hcap|].
  unfold alloc_from_freelist.
  destruct (fl_alloc_regions false (a_free (data a)) (Z.min n (avail (a_free (data a))))) as [regs1 f'].
  intros [= <- <- <- <-]. unfold EndInv in *.
  cbn [data meta a_end a_free maxPages set_data set_meta].
  destruct Hcap as [H0|Hle]; [left; exact H0|].
  destruct (maxPages a =? 0) eqn:Em; [left; lia|]. right.
  unfold data_avail in Eav. rewrite Em in Eav.
  destruct (0 <? n - Z.min n (avail (a_free (data a)))) eqn:E1; cbn [andb]; [|exact Hle].
  destruct (a_end (data a) <? maxPages a) eqn:E2; [|lia].
  destruct (a_end (meta a) <? a_end (data a) + (n - Z.min n (avail (a_free (data a))))) eqn:E3; lia.
Qed.

Lemma data_alloc_cont_cap a t n r a' t' :
  0 < n -> 0 <= a_end (data a) <= a_end (meta a) -> EndInv a ->
  data_alloc_cont a t n = (r, a', t') -> EndInv a'.
Proof.
  intros Hn [Hd0 He] Hcap. unfold data_alloc_cont.
  destruct (data_avail a <? n); [intros [= <- <- <-]; exact Hcap|].
  destruct (fl_alloc_cont false (a_free (data a)) n) as [[reg|] f'].
  - intros [= <- <- <-]. exact Hcap.
  - destruct ((0 <? maxPages a) && ((if a_end (data a) <? maxPages a then maxPages a - a_end (data a) else 0) <? n)) eqn:E2;
      [intros [= <- <- <-]; exact Hcap|].
    intros [= <- <- <-]. unfold EndInv in *. cbn [data meta a_end a_free maxPages set_data set_meta].
    destruct Hcap as [H0|Hle]; [left; exact H0|].
    destruct (0 <? maxPages a) eqn:E0; [|left; lia]. right. cbn [andb] in E2.
    destruct (a_end (data a) <? maxPages a) eqn:E4; destruct (a_end (meta a) <? a_end (data a) + n) eqn:E3; lia.
Qed.

Lemma transfer_all_ends : forall regs a t a' t',
  transfer_all a t regs = (a', t') ->
  data a' = data a /\ a_end (meta a') = a_end (meta a) /\ maxPages a' = maxPages a.
Proof.
  unfold transfer_all. induction regs as [|r regs IH]; intros a t a' t'; cbn [fold_left].
  - intros [= <- <-]. repeat split.
  - intros E. destruct (IH _ _ _ _ E) as (A & B & C). cbn in A, B, C. repeat split; assumption.
Qed.

Lemma try_grow_cap a t c ok a' t' :
  0 <= c -> 0 <= a_end (data a) <= a_end (meta a) -> EndInv a -> 0 <= avail (a_free (data a)) ->
  try_grow a t c false = (ok, a', t') -> EndInv a'.
Proof.
  intros Hc [Hd0 He] Hcap Hav. unfold try_grow.
  destruct (c =? 0) eqn:E0; [intros [= _ <- <-]; exact Hcap|].
  destruct (data_avail a <? c); [cbn [negb]; intros [= _ <- <-]; exact Hcap|].
  destruct (data_alloc_cont a t c) as [[r a1] t1] eqn:Ec.
  assert (Hc1: 0 < c) by lia.
  destruct r as [reg|].
  - pose proof (data_alloc_cont_cap _ _ _ _ _ _ Hc1 (conj Hd0 He) Hcap Ec) as H1.
    destruct (transfer_to_meta a1 t1 reg) as [a2 t2] eqn:Et. intros [= _ <- <-].
    unfold transfer_to_meta in Et. injection Et as <- _. unfold EndInv in *. cbn. exact H1.
  - destruct (data_alloc_regions a t c) as [[[regs n] a3] t3] eqn:Ea.
    pose proof (data_alloc_regions_cap _ _ _ _ _ _ _ Hc1 He Hcap Hav Ea) as H1.
    destruct (transfer_all a3 t3 regs) as [a2 t2] eqn:Et. intros [= _ <- <-].
    destruct (transfer_all_ends _ _ _ _ _ Et) as (A & B & C). unfold EndInv in *. rewrite B, C. exact H1.
Qed.

(* ---------- pages recorded as freed inside a transaction ---------- *)
(* protected meta pages: freed meta pages of this transaction and the free-list pages of the committed state
   (they are freed by the commit itself) *)
Definition prot (a0 : allocst) (t : txst) (id : Z) : Prop := In id (t_freed (tmeta t)) \/ inl id (flPages a0).

Record FreedInv (a0 a : allocst) (t : txst) : Prop := {
  fr_d : forall id, In id (t_freed (tdata t)) ->
           2 <= id < a_end (data a) /\ ~ inl id (Dset a) /\ ~ inl id (Mset a) /\
           ~ In id (t_new (tdata t)) /\ ~ prot a0 t id;
  fr_m : forall id, prot a0 t id -> 2 <= id < a_end (data a) /\ ~ inl id (Dset a) /\ ~ inl id (Mset a);
  fr_sorted : sorted_from 2 (t_freed (tdata t)) /\ sorted_from 2 (t_freed (tmeta t));
  fr_cap : EndInv a }.

(* the allocator between two transactions *)
Record InvQ (a : allocst) : Prop := {
  q_inv0 : Inv0 a;
  q_fl : forall id, inl id (flPages a) -> 2 <= id < a_end (data a) /\ ~ inl id (Dset a) /\ ~ inl id (Mset a);
  q_cap : EndInv a }.

Lemma freed_init a0 p : InvQ a0 -> FreedInv a0 a0 (make_tx a0 false p).
Proof.
  intros [I0 Hfl Hcap]. constructor; cbn.
  - intros id [].
  - intros id [[]|H]. apply Hfl. exact H.
  - split; constructor.
  - exact Hcap.
Qed.

(* a step that only takes pages away from the data free list / adds pages that were free or past the end to
   the meta free list and to [new], and leaves the freed sets alone *)
Lemma freed_mono a0 a t a' t' :
  FreedInv a0 a t ->
  (forall id, inl id (Dset a') -> inl id (Dset a)) ->
  (forall id, inl id (Mset a') -> inl id (Mset a) \/ inl id (Dset a) \/ a_end (data a) <= id) ->
  (forall id, In id (t_new (tdata t')) -> In id (t_new (tdata t)) \/ inl id (Dset a) \/ a_end (data a) <= id) ->
  a_end (data a) <= a_end (data a') ->
  t_freed (tdata t') = t_freed (tdata t) -> t_freed (tmeta t') = t_freed (tmeta t) ->
  EndInv a' -> FreedInv a0 a' t'.
Proof.
  intros [Fd Fm [Fs1 Fs2] Fc] HD HM HN He Hfd Hfm Hcap.
  assert (Hprot: forall id, prot a0 t' id <-> prot a0 t id) by (intros id; unfold prot; rewrite Hfm; tauto).
  constructor.
  - rewrite Hfd. intros id H. destruct (Fd id H) as (A & B & C & D & E).
    split; [lia|]. split; [intros X; apply B; apply HD; exact X|].
    split; [intros X; apply HM in X as [X|[X|X]]; [exact (C X) | exact (B X) | lia]|].
    split; [intros X; apply HN in X as [X|[X|X]]; [exact (D X) | exact (B X) | lia]|].
    rewrite Hprot. exact E.
  - intros id H. apply Hprot in H. destruct (Fm id H) as (A & B & C).
    split; [lia|]. split; [intros X; apply B; apply HD; exact X|].
    intros X; apply HM in X as [X|[X|X]]; [exact (C X) | exact (B X) | lia].
  - rewrite Hfd, Hfm. split; assumption.
  - exact Hcap.
Qed.

Lemma freed_alloc_step a0 a t n regs cnt a' t' :
  FullInv a0 a t -> FreedInv a0 a t -> 0 < n < 2^32 ->
  data_alloc_regions a t n = (regs, cnt, a', t') -> FreedInv a0 a' t'.
Proof.
  intros F R Hn E.
  pose proof (fi_data _ _ _ F) as FD.
  destruct (Z_lt_ge_dec (data_avail a) n) as [Hlt|Hge].
  { destruct (data_alloc_regions_spec a t n regs cnt a' t' FD Hn E) as [Hfail _].
    destruct (Hfail Hlt) as (_ & _ & -> & ->). exact R. }
  pose proof (data_alloc_regions_ends _ _ _ _ _ _ _ E) as (_ & _ & _ & HF & _ & _).
  destruct (data_alloc_tx_spec a t n regs cnt a' t' FD Hn ltac:(lia) E)
    as (regs1 & regs2 & _ & W1 & H1 & Hsub & H2 & HA & HN & Hend & _ & (S1 & S2 & S3 & S4 & S5 & S6) & (T1 & T2 & T3 & T4)).
  assert (Hav: 0 <= avail (a_free (data a))).
  { destruct FD as [[W Hav] _ _]. rewrite Hav. eapply count_pages_nonneg; eauto. }
  apply (freed_mono a0 a t a' t' R); try assumption.
  - intros id H. left. rewrite S3 in H. exact H.
  - intros id H. rewrite HN in H. apply set_add_all_in in H as [H|H]; [|left; exact H].
    apply regions_ids_in in H. right. right. apply H2. exact H.
  - rewrite T2. reflexivity.
  - apply (data_alloc_regions_cap a t n regs cnt a' t'); try assumption; [lia | apply (fi_ends _ _ _ F) | apply (fr_cap _ _ _ R)].
Qed.

Lemma freed_grow a0 a t a' t' regs :
  FreedInv a0 a t -> GrowEff a t a' t' regs -> EndInv a' -> FreedInv a0 a' t'.
Proof.
  intros R G Hcap.
  destruct G as [Gwf Gfrom Ggone Gsub Gcover Gdata Gend Gmend Gmwf Gmeta Gtot Gmoved Gain Gakeep Gasorted Gnin Gnkeep Gst Gtx].
  destruct Gtx as (X1 & X2 & X3 & X4 & X5 & X6).
  apply (freed_mono a0 a t a' t' R); try assumption.
  - intros id H. apply Gmeta in H as [H|H]; [left; exact H|]. right. apply Gfrom. exact H.
  - intros id H. apply Gnin in H as [H|H]; [left; exact H|]. right. apply Gfrom. exact H.
  - rewrite X1. reflexivity.
Qed.

Lemma ensure_freed a0 a t n ok a' t' :
  Inv0 a0 -> FullInv a0 a t -> FreedInv a0 a t -> 0 <= n < 2^28 -> metaTotal a < 2^28 ->
  ensure a t n = Some (ok, a', t') ->
  FreedInv a0 a' t' /\ t_freed (tdata t') = t_freed (tdata t) /\ t_freed (tmeta t') = t_freed (tmeta t).
Proof.
  intros I0 F R Hn Htot. unfold ensure.
  destruct (metaTotal a <? avail (a_free (meta a))) eqn:E0; [discriminate|].
  assert (Hav: 0 <= avail (a_free (meta a))).
  { destruct (fi_mwf _ _ _ F) as [W Hav]. rewrite Hav. eapply count_pages_nonneg; eauto. }
  set (total := metaTotal a) in *. set (used := total - avail (a_free (meta a)) + n).
  destruct (quota total used (pct t / 2) (pct t)) as [szMin szMax] eqn:Eq.
  assert (H28: 2^28 = 268435456) by reflexivity. assert (H29: 2^29 = 536870912) by reflexivity.
  destruct (quota_bound total used _ _ _ _ ltac:(lia) ltac:(unfold used; lia) Eq) as [Hmin Hmax].
  change (2^31) with 2147483648 in Hmax.
  destruct (szMax <? szMin) eqn:E1; [discriminate|].
  destruct (szMax =? total) eqn:E2; [intros [= _ <- <-]; split; [exact R | split; reflexivity]|].
  destruct (szMax <? total) eqn:E3; [discriminate|].
  assert (Hg: forall a1 t1 c b a2 t2, FullInv a0 a1 t1 -> FreedInv a0 a1 t1 -> 0 <= c < 2^32 ->
              try_grow a1 t1 c false = (b, a2, t2) -> FullInv a0 a2 t2 /\ FreedInv a0 a2 t2 /\
              t_freed (tdata t2) = t_freed (tdata t1) /\ t_freed (tmeta t2) = t_freed (tmeta t1)).
  { intros a1 t1 c b a2 t2 F1 R1 Hc E.
    assert (Hdav: 0 <= avail (a_free (data a1))).
    { destruct (fi_data _ _ _ F1) as [[W Hdv] _ _]. rewrite Hdv. eapply count_pages_nonneg; eauto. }
    assert (Hd0: 0 <= a_end (data a1)) by (pose proof (di_end _ (fi_data _ _ _ F1)); lia).
    pose proof (try_grow_cap a1 t1 c b a2 t2 ltac:(lia) (conj Hd0 (proj2 (fi_ends _ _ _ F1))) (fr_cap _ _ _ R1) Hdav E) as Hcap.
    destruct (try_grow_spec a1 t1 c b a2 t2 (fi_data _ _ _ F1) (fi_mwf _ _ _ F1) (fi_mbelow _ _ _ F1)
                (proj2 (fi_ends _ _ _ F1)) Hc E) as [[-> ->]|[regs G]]; [split; [assumption | split; [assumption | split; reflexivity]]|].
    split; [eapply grow_preserves; eauto|]. split; [eapply freed_grow; eauto|].
    destruct (ge_tx _ _ _ _ _ G) as (X1 & _ & _ & _ & _ & X6). rewrite X1. split; [exact X6 | reflexivity]. }
  destruct (try_grow a t (szMax - total) false) as [[b a1] t1] eqn:Eg.
  destruct (Hg a t (szMax - total) b a1 t1 F R ltac:(change (2^32) with 4294967296; lia) Eg) as (F1 & R1 & Q1 & Q2).
  destruct b; [intros [= _ <- <-]; split; [exact R1 | split; assumption]|].
  destruct (fi_ovf _ _ _ F) as [_ Hovf]. rewrite Hovf.
  destruct (try_grow a1 t1 (szMin - total) false) as [[b2 a2] t2] eqn:Eg2.
  intros [= _ <- <-].
  destruct (Hg a1 t1 (szMin - total) b2 a2 t2 F1 R1 ltac:(change (2^32) with 4294967296; unfold used in *; lia) Eg2) as (_ & R2 & Q3 & Q4).
  split; [exact R2|]. split; congruence.
Qed.

Lemma freed_meta_take a0 a t regs f' da df ma mf ofr tm :
  FreedInv a0 a t ->
  (forall id, inl id (Mset a) <-> inl id regs \/ inl id (fregions f')) ->
  FreedInv a0 (set_meta a {| a_end := a_end (meta a); a_free := f' |} (metaTotal a))
             (tx_stats (tx_with t (moveToMeta t) (tdata t) (ta_allocated (tmeta t) (regions_ids regs))) da df ma mf 0 ofr tm).
Proof.
  intros R Hset.
  apply (freed_mono a0 a t _ _ R); cbn [data meta a_end a_free set_meta tdata tmeta tx_stats tx_with ta_allocated t_freed t_new].
  - auto.
  - intros id H. left. apply Hset. right. exact H.
  - intros id H. left. exact H.
  - lia.
  - reflexivity.
  - reflexivity.
  - pose proof (fr_cap _ _ _ R) as C. unfold EndInv in *. cbn. exact C.
Qed.

Theorem freed_wal_alloc_step a0 a t id a' t' :
  Inv0 a0 -> FullInv a0 a t -> FreedInv a0 a t -> metaTotal a < 2^28 ->
  wal_alloc a t = Some (id, a', t') -> FreedInv a0 a' t'.
Proof.
  intros I0 F R Htot. unfold wal_alloc.
  destruct (ensure a t 1) as [[[ok a1] t1]|] eqn:Ee; [|discriminate].
  assert (H1: 0 <= 1 < 2^28) by (change (2^28) with 268435456; lia).
  assert (R1: FreedInv a0 a1 t1) by (eapply ensure_freed; eauto).
  assert (F1: FullInv a0 a1 t1) by (eapply ensure_preserves; eauto).
  destruct ok; [|intros [= <- <- <-]; exact R1].
  destruct (fl_alloc_cont false (a_free (meta a1)) 1) as [[reg|] f'] eqn:Ec; [|intros [= <- <- <-]; exact R1].
  intros [= <- <- <-].
  pose proof (fl_alloc_cont_spec 2 _ 1 _ _ (fi_mwf _ _ _ F1) ltac:(lia) Ec) as (Hc & _ & _ & _ & _ & Hset & _).
  assert (Hids: regions_ids [reg] = [rid reg]).
  { unfold regions_ids, region_ids. cbn [flat_map]. rewrite Hc. cbn. reflexivity. }
  pose proof (freed_meta_take a0 a1 t1 [reg] f' 0 0 1 0 0 0 R1 ltac:(intros x; rewrite Hset, inl_single; tauto)) as R2.
  rewrite Hids in R2. exact R2.
Qed.

Theorem freed_meta_alloc_step a0 a t n regs a' t' :
  Inv0 a0 -> FullInv a0 a t -> FreedInv a0 a t -> 0 <= n < 2^28 -> metaTotal a < 2^28 ->
  meta_alloc_regions a t n = Some (regs, a', t') -> FreedInv a0 a' t'.
Proof.
  intros I0 F R Hn Htot. unfold meta_alloc_regions.
  destruct (ensure a t n) as [[[ok a1] t1]|] eqn:Ee; [|discriminate].
  assert (R1: FreedInv a0 a1 t1) by (eapply ensure_freed; eauto).
  assert (F1: FullInv a0 a1 t1) by (eapply ensure_preserves; eauto).
  destruct ok; [|intros [= <- <- <-]; exact R1].
  unfold alloc_from_freelist.
  set (cnt := Z.min n (avail (a_free (meta a1)))).
  destruct (fl_alloc_regions true (a_free (meta a1)) cnt) as [rs f'] eqn:Ea.
  assert (Hav: 0 <= avail (a_free (meta a1))).
  { destruct (fi_mwf _ _ _ F1) as [W Hav]. rewrite Hav. eapply count_pages_nonneg; eauto. }
  destruct (fl_alloc_regions_spec true 2 _ cnt rs f' (fi_mwf _ _ _ F1) ltac:(unfold cnt; lia) Ea) as (_ & _ & _ & _ & Hset & _).
  intros [= <- <- <-].
  exact (freed_meta_take a0 a1 t1 rs f' 0 0 1 0 0 0 R1 Hset).
Qed.

(* metaManager.Free of a meta page in use *)
Lemma freed_meta_free_step a0 a t id :
  FreedInv a0 a t -> 2 <= id < a_end (data a) -> ~ inl id (Dset a) -> ~ inl id (Mset a) ->
  ~ In id (t_freed (tdata t)) -> FreedInv a0 a (meta_free t id).
Proof.
  intros [Fd Fm [Fs1 Fs2] Fc] Hb Hd Hm Hnf. unfold meta_free.
  assert (Hprot: forall x, prot a0 (tx_stats (tx_with t (moveToMeta t) (tdata t) (ta_freed (tmeta t) id)) 0 0 0 1 0 0 0) x <-> x = id \/ prot a0 t x).
  { intros x. unfold prot. cbn [tmeta tx_stats tx_with ta_freed t_freed]. rewrite set_add_in. tauto. }
  constructor; cbn [tdata tx_stats tx_with].
  - intros x H. destruct (Fd x H) as (A & B & C & D & E). repeat split; try assumption; try lia.
    intros X. apply Hprot in X as [->|X]; [exact (Hnf H) | exact (E X)].
  - intros x H. apply Hprot in H as [->|H]; [split; [exact Hb | split; assumption] | apply Fm; exact H].
  - cbn [tmeta tx_stats tx_with ta_freed t_freed]. split; [exact Fs1 | apply set_add_sorted; [exact Fs2 | lia]].
  - exact Fc.
Qed.

(* Tx.Free of a data page in use *)
Lemma freed_free_step a0 a t id a' t' :
  FullInv a0 a t -> FreedInv a0 a t ->
  ~ inl id (Dset a) -> ~ inl id (Mset a) -> ~ prot a0 t id ->
  data_free a t id = Some (a', t') -> FreedInv a0 a' t'.
Proof.
  intros F R Hnf Hnm Hnp E.
  pose proof (fi_data _ _ _ F) as FD.
  destruct R as [Fd Fm [Fs1 Fs2] Fc].
  destruct (set_mem id (t_new (tdata t))) eqn:Enew.
  - (* allocated by this transaction: back to the free list *)
    destruct (data_free_fresh_page a t id a' t' FD Enew Hnf E) as (ID' & Hsub & Hle & Hkeep).
    destruct (data_free_fresh_extra a t id a' t' Enew E) as (Hmin & (S1 & S2 & S3 & S4 & S5 & S6) & (T1 & T2 & T3 & T4) & Htd).
    destruct (data_free_fresh_range a t id a' t' FD Enew Hnf E) as (Hrange & Hmend & _ & _).
    assert (Hidnew: In id (t_new (tdata t))) by (apply set_mem_in; exact Enew).
    assert (Hstay: forall x, x < a_end (data a) -> x <> id -> ~ inl x (Dset a) -> x < a_end (data a')).
    { intros x Hx Hne Hnd. destruct (Z_lt_ge_dec x (a_end (data a'))) as [|Hge]; [assumption|].
      destruct (Hrange x ltac:(lia)) as [->|Hd]; contradiction. }
    assert (Hprot: forall x, prot a0 t' x <-> prot a0 t x) by (intros x; unfold prot; rewrite T2; tauto).
    constructor.
    + rewrite Htd. intros x H. destruct (Fd x H) as (A & B & C & D & E1).
      assert (Hne: x <> id) by (intros ->; contradiction).
      split; [split; [lia | apply Hstay; [lia | exact Hne | exact B]]|].
      split; [intros X; apply Hsub in X as [->|X]; [contradiction | exact (B X)]|].
      split; [rewrite S3; exact C|]. split; [exact D|]. rewrite Hprot. exact E1.
    + intros x H. apply Hprot in H. destruct (Fm x H) as (A & B & C).
      assert (Hne: x <> id) by (intros ->; contradiction).
      split; [split; [lia | apply Hstay; [lia | exact Hne | exact B]]|].
      split; [intros X; apply Hsub in X as [->|X]; [contradiction | exact (B X)] | rewrite S3; exact C].
    + rewrite Htd, T2. split; assumption.
    + unfold EndInv in *. rewrite S1, Hmend. destruct Fc as [C|C]; [left; exact C|]. right.
      destruct (a_end (meta a) =? a_end (data a)) eqn:Em; lia.
  - (* a page of the committed state (or one taken from the free list): recorded *)
    destruct (data_free_committed_page a t id a' t' Enew E) as (-> & Hfr & Hal & Hnw & Hb).
    assert (Hnn: ~ In id (t_new (tdata t))) by (intros X; apply set_mem_in in X; congruence).
    unfold data_free in E.
    destruct ((id <? 2) || (a_end (data a) <=? id)); [discriminate|]. rewrite Enew in E. cbn [negb] in E.
    injection E as <-.
    assert (Hprot: forall x, prot a0 (tx_with (tx_stats t 0 1 0 0 0 0 0) (moveToMeta (tx_stats t 0 1 0 0 0 0 0))
                                      (ta_freed (tdata (tx_stats t 0 1 0 0 0 0 0)) id) (tmeta (tx_stats t 0 1 0 0 0 0 0))) x <-> prot a0 t x).
    { intros x. unfold prot. cbn. tauto. }
    constructor; cbn [tdata tmeta tx_with tx_stats ta_freed t_freed t_new].
    + intros x H. apply set_add_in in H as [->|H].
      * repeat split; first [assumption | lia | rewrite Hprot; assumption].
      * destruct (Fd x H) as (A & B & C & D & E1). repeat split; first [assumption | lia | rewrite Hprot; assumption].
    + intros x H. apply Hprot in H. apply Fm. exact H.
    + split; [apply set_add_sorted; [exact Fs1 | lia] | exact Fs2].
    + exact Fc.
Qed.

(* the meta pages handed out by AllocRegions are not among the pages recorded as freed *)
Lemma meta_alloc_not_freed a0 a t n regs a' t' :
  Inv0 a0 -> FullInv a0 a t -> FreedInv a0 a t -> 0 <= n < 2^28 -> metaTotal a < 2^28 ->
  meta_alloc_regions a t n = Some (regs, a', t') ->
  t_freed (tdata t') = t_freed (tdata t) /\ t_freed (tmeta t') = t_freed (tmeta t) /\
  (forall id, inl id regs -> 2 <= id < a_end (data a') /\ ~ In id (t_freed (tdata t)) /\ ~ prot a0 t id).
Proof.
  intros I0 F R Hn Htot. unfold meta_alloc_regions.
  destruct (ensure a t n) as [[[ok a1] t1]|] eqn:Ee; [|discriminate].
  destruct (ensure_freed a0 a t n ok a1 t1 I0 F R Hn Htot Ee) as (R1 & Q1 & Q2).
  assert (F1: FullInv a0 a1 t1) by (eapply ensure_preserves; eauto).
  destruct ok; [|intros [= <- <- <-]; split; [exact Q1 | split; [exact Q2 | intros id H; destruct (inl_nil _ H)]]].
  unfold alloc_from_freelist.
  set (cnt := Z.min n (avail (a_free (meta a1)))).
  destruct (fl_alloc_regions true (a_free (meta a1)) cnt) as [rs f'] eqn:Ea.
  assert (Hav: 0 <= avail (a_free (meta a1))).
  { destruct (fi_mwf _ _ _ F1) as [W Hav]. rewrite Hav. eapply count_pages_nonneg; eauto. }
  destruct (fl_alloc_regions_spec true 2 _ cnt rs f' (fi_mwf _ _ _ F1) ltac:(unfold cnt; lia) Ea) as (_ & Wr & _ & _ & Hset & _).
  intros [= <- <- <-].
  cbn [tdata tmeta tx_stats tx_with ta_allocated t_freed data set_meta].
  split; [exact Q1|]. split; [exact Q2|].
  intros id H. assert (Hrs: inl id rs) by (destruct (cnt =? 0); [destruct (inl_nil _ H) | exact H]).
  assert (Hm: inl id (Mset a1)) by (apply Hset; left; exact Hrs).
  destruct (fi_mbelow _ _ _ F1 id Hm) as [_ Hlt].
  split; [split; [eapply wfl_lower; eauto | exact Hlt]|].
  split.
  - intros X. rewrite <- Q1 in X. destruct (fr_d _ _ _ R1 id X) as (_ & _ & C & _). exact (C Hm).
  - intros X. assert (X1: prot a0 t1 id) by (unfold prot in *; rewrite Q2; exact X).
    destruct (fr_m _ _ _ R1 id X1) as (_ & _ & C). exact (C Hm).
Qed.

(* ---------- every state of a transaction, now with the obligations of the caller spelled out ---------- *)
Inductive treach2 (a0 : allocst) (p : Z) : allocst -> txst -> Prop :=
| t2_init : treach2 a0 p a0 (make_tx a0 false p)
| t2_alloc a t n regs cnt a' t' :
    treach2 a0 p a t -> 0 < n < 2^32 -> data_alloc_regions a t n = (regs, cnt, a', t') -> treach2 a0 p a' t'
| t2_free a t id a' t' :            (* Tx.Free of a data page in use *)
    treach2 a0 p a t -> ~ inl id (Dset a) -> ~ inl id (Mset a) -> ~ inl id (moveToMeta t) -> ~ prot a0 t id ->
    data_free a t id = Some (a', t') -> treach2 a0 p a' t'
| t2_wal a t id a' t' :
    treach2 a0 p a t -> metaTotal a < 2^28 -> wal_alloc a t = Some (id, a', t') -> treach2 a0 p a' t'
| t2_meta a t n regs a' t' :
    treach2 a0 p a t -> 0 <= n < 2^28 -> metaTotal a < 2^28 ->
    meta_alloc_regions a t n = Some (regs, a', t') -> treach2 a0 p a' t'
| t2_mfree a t id :                 (* free of a meta page in use *)
    treach2 a0 p a t -> 2 <= id < a_end (data a) -> ~ inl id (Dset a) -> ~ inl id (Mset a) ->
    ~ In id (t_freed (tdata t)) -> treach2 a0 p a (meta_free t id).

Lemma treach2_treach a0 p a t : treach2 a0 p a t -> treach a0 p a t.
Proof.
  induction 1; [apply tr_init | eapply tr_alloc; eauto | eapply tr_free; eauto | eapply tr_wal; eauto
               | eapply tr_meta; eauto | apply tr_mfree; assumption].
Qed.

Theorem treach2_inv a0 p a t : InvQ a0 -> treach2 a0 p a t -> FullInv a0 a t /\ FreedInv a0 a t.
Proof.
  intros Q R. pose proof (q_inv0 _ Q) as I0.
  induction R.
  - split; [apply full_inv_init; exact I0 | apply freed_init; exact Q].
  - destruct IHR as [F Fr]. split; [eapply full_alloc_step; eauto | eapply freed_alloc_step; eauto].
  - destruct IHR as [F Fr]. split; [eapply full_free_step; eauto | eapply freed_free_step; eauto].
  - destruct IHR as [F Fr]. split; [eapply full_wal_alloc_step; eauto | eapply freed_wal_alloc_step; eauto].
  - destruct IHR as [F Fr]. split; [eapply full_meta_alloc_step; eauto | eapply freed_meta_alloc_step; eauto].
  - destruct IHR as [F Fr]. split; [apply full_meta_free_step; exact F | apply freed_meta_free_step; assumption].
Qed.

(* every state inside a transaction could itself be a quiescent state (nothing in use is in a free list) *)
Lemma tx_state_quiescent a0 a t : FullInv a0 a t -> FreedInv a0 a t -> InvQ a.
Proof.
  intros F R. constructor.
  - constructor; [exact (fi_data _ _ _ F) | exact (fi_mwf _ _ _ F) | exact (proj2 (fi_ends _ _ _ F)) | exact (fi_mbelow _ _ _ F)].
  - intros id H. destruct (fi_static _ _ _ F) as (_ & _ & _ & Hfl). rewrite Hfl in H.
    apply (fr_m _ _ _ R). right. exact H.
  - exact (fr_cap _ _ _ R).
Qed.

(* ---------- the commit step ---------- *)
Lemma commit_tail a0 a1 t1 regs mt fr :
  FullInv a0 a1 t1 -> FreedInv a0 a1 t1 ->
  (forall id, inl id regs -> 2 <= id < a_end (data a1) /\ ~ inl id (Dset a1) /\ ~ inl id (Mset a1) /\
                             ~ In id (t_freed (tdata t1)) /\ ~ In id (t_freed (tmeta t1))) ->
  let newData := merge_region_lists (Dset a1) (ids_regions (t_freed (tdata t1))) in
  let newMeta := merge_region_lists (Mset a1) (ids_regions (t_freed (tmeta t1))) in
  InvQ {| maxPages := maxPages a1; pageSize := pageSize a1;
          meta := {| a_end := a_end (meta a1); a_free := {| avail := count_pages newMeta; fregions := newMeta |} |};
          metaTotal := mt;
          data := {| a_end := a_end (data a1); a_free := {| avail := count_pages newData; fregions := newData |} |};
          flRoot := fr; flPages := regs |}.
Proof.
  intros F R Hregs newData newMeta.
  destruct (fi_data _ _ _ F) as [[Wd Hda] Hbd Hed].
  destruct (fi_mwf _ _ _ F) as [Wm Hma].
  destruct (fr_sorted _ _ _ R) as [Sd Sm].
  destruct (ids_regions_spec _ 2 Sd) as (Wfd & Hfd & _).
  destruct (ids_regions_spec _ 2 Sm) as (Wfm & Hfm & _).
  assert (Dd: disjoint_l (Dset a1) (ids_regions (t_freed (tdata t1)))).
  { intros id H1 H2. apply Hfd in H2. destruct (fr_d _ _ _ R id H2) as (_ & B & _). exact (B H1). }
  assert (Dm: disjoint_l (Mset a1) (ids_regions (t_freed (tmeta t1)))).
  { intros id H1 H2. apply Hfm in H2. destruct (fr_m _ _ _ R id (or_introl H2)) as (_ & _ & C). exact (C H1). }
  destruct (merge_region_lists_spec _ _ 2 Wd Wfd Dd) as (WD & HD & _).
  destruct (merge_region_lists_spec _ _ 2 Wm Wfm Dm) as (WM & HM & _).
  fold newData in WD, HD. fold newMeta in WM, HM.
  constructor; cbn [data meta a_end a_free fregions avail maxPages flPages].
  - constructor; cbn [data meta a_end a_free fregions avail].
    + constructor; cbn [data a_end a_free fregions avail].
      * split; [exact WD | reflexivity].
      * intros id H. apply HD in H as [H|H]; [apply Hbd; exact H|]. apply Hfd in H. destruct (fr_d _ _ _ R id H) as (A & _). lia.
      * exact Hed.
    + split; [exact WM | reflexivity].
    + exact (proj2 (fi_ends _ _ _ F)).
    + intros id H. apply HM in H as [H|H].
      * destruct (fi_mbelow _ _ _ F id H) as [A B]. split; [|exact B].
        intros X. apply HD in X as [X|X]; [exact (A X)|]. apply Hfd in X. destruct (fr_d _ _ _ R id X) as (_ & _ & C & _). exact (C H).
      * apply Hfm in H. destruct (fr_m _ _ _ R id (or_introl H)) as (A & B & C). split; [|lia].
        intros X. apply HD in X as [X|X]; [exact (B X)|]. apply Hfd in X. destruct (fr_d _ _ _ R id X) as (_ & _ & _ & _ & E). apply E. left. exact H.
  - intros id H. destruct (Hregs id H) as (A & B & C & D & E). split; [exact A|]. split.
    + intros X. apply HD in X as [X|X]; [exact (B X) | apply Hfd in X; exact (D X)].
    + intros X. apply HM in X as [X|X]; [exact (C X) | apply Hfm in X; exact (E X)].
  - pose proof (fr_cap _ _ _ R) as Cp. unfold EndInv in *. cbn. exact Cp.
Qed.

Lemma if_same {A} (b : bool) (x : A) : (if b then x else x) = x.
Proof. destruct b; reflexivity. Qed.

Lemma release_overflow_id_ l mx e : mx = 0 \/ e <= mx -> release_overflow l mx e = (l, 0).
Proof. intros H. unfold release_overflow. replace ((mx =? 0) || (e <=? mx)) with true by (destruct H; lia). reflexivity. Qed.

Lemma commit_ends_id nd nm mx dEnd mEnd : (mx = 0 \/ mEnd <= mx) -> (mx = 0 \/ dEnd <= mx) ->
  commit_ends nd nm mx dEnd mEnd = (nm, nd, dEnd, mEnd, 0, 0).
Proof.
  intros Cp Cd. unfold commit_ends. rewrite (release_overflow_id_ _ mx mEnd Cp).
  cbn [Z.ltb andb Z.compare]. rewrite (release_overflow_id_ _ mx dEnd Cd). rewrite if_same.
  cbn [Z.ltb andb Z.compare]. repeat rewrite Z.sub_0_r. reflexivity.
Qed.

Lemma pred_add_count payload p r : p_count p <= p_count (pred_add payload p r).
Proof. unfold pred_add. destruct (p_avail p <? region_enc_size r); cbn; lia. Qed.
Lemma pred_add_all_count payload : forall l p, p_count p <= p_count (pred_add_all payload p l).
Proof.
  unfold pred_add_all. induction l as [|r l IH]; intros p; cbn [fold_left]; [lia|].
  pose proof (pred_add_count payload p r). specialize (IH (pred_add payload p r)). lia.
Qed.

(* number of free-list pages a commit asks for (the page count prediction of fileCommitAlloc) *)
Definition commit_n (a : allocst) (t : txst) : Z :=
  let dataFreed := ids_regions (t_freed (tdata t)) in
  let metaFreed := ids_regions (t_freed (tmeta t)) in
  let payload := pageSize a - listPageHeaderSize in
  let p0 := {| p_count := 0; p_avail := 0 |} in
  let p1 := pred_add_all payload (pred_add_all payload (pred_add_all payload (pred_add_all payload p0 dataFreed) metaFreed)
                                    (fregions (a_free (data a)))) (fregions (a_free (meta a))) in
  let dummy := {| rid := 1; rcount := u32max |} in
  let p2 := if 0 <? p_count p1 then pred_add payload (pred_add payload p1 dummy) dummy else p1 in
  p_count p2.

Lemma commit_n_nonneg a t : 0 <= commit_n a t.
Proof.
  unfold commit_n. cbv zeta.
  set (payload := pageSize a - listPageHeaderSize).
  set (p1 := pred_add_all payload _ (fregions (a_free (meta a)))).
  assert (H1: 0 <= p_count p1).
  { unfold p1. repeat (etransitivity; [|apply pred_add_all_count]). cbn. lia. }
  destruct (0 <? p_count p1); [|exact H1].
  etransitivity; [|apply pred_add_count]. etransitivity; [|apply pred_add_count]. exact H1.
Qed.

Theorem commit_alloc_inv a0 a t c a2 t2 :
  InvQ a0 -> FullInv a0 a t -> FreedInv a0 a t -> metaTotal a < 2^28 -> commit_n a t < 2^28 ->
  commit_alloc a t true = COk c a2 t2 -> InvQ (commit_apply a2 c).
Proof.
  intros Q F R Htot Hn. pose proof (q_inv0 _ Q) as I0. pose proof (commit_n_nonneg a t) as Hn0.
  unfold commit_alloc, commit_n in *. cbn [negb]. cbv zeta in *.
  set (n := p_count _) in *.
  assert (Htail: forall regs a1 t1,
            FullInv a0 a1 t1 -> FreedInv a0 a1 t1 ->
            t_freed (tdata t1) = t_freed (tdata t) -> t_freed (tmeta t1) = t_freed (tmeta t) ->
            (forall id, inl id regs -> 2 <= id < a_end (data a1) /\ ~ inl id (Dset a1) /\ ~ inl id (Mset a1) /\
                                       ~ In id (t_freed (tdata t1)) /\ ~ In id (t_freed (tmeta t1))) ->
            forall c' a2' t2',
            (let newData := merge_region_lists (Dset a1) (ids_regions (t_freed (tdata t))) in
             let newMeta := merge_region_lists (Mset a1) (ids_regions (t_freed (tmeta t))) in
             let '(metaList, dataList, dEnd2, mEnd2, ovfFreed, dataFreedN) :=
               commit_ends newData newMeta (maxPages a1) (a_end (data a1)) (a_end (meta a1)) in
             COk {| c_updated := true; c_allocRegions := regs; c_dataEnd := dEnd2; c_metaEnd := mEnd2;
                    c_metaList := metaList; c_dataList := dataList; c_dataFreed := dataFreedN; c_ovfFreed := ovfFreed |}
                 a1 (tx_stats t1 0 0 0 0 0 ovfFreed 0)) = COk c' a2' t2' -> InvQ (commit_apply a2' c')).
  { intros regs a1 t1 F1 R1 Q1 Q2 Hregs c' a2' t2'. cbv zeta.
    pose proof (fr_cap _ _ _ R1) as Cp. unfold EndInv in Cp.
    assert (Cd: maxPages a1 = 0 \/ a_end (data a1) <= maxPages a1).
    { destruct Cp as [C|C]; [left; exact C | right; pose proof (proj2 (fi_ends _ _ _ F1)); lia]. }
    rewrite (commit_ends_id _ _ _ _ _ Cp Cd).
    intros [= <- <- _]. unfold commit_apply. cbn [c_updated c_metaEnd c_metaList c_dataEnd c_dataList c_ovfFreed c_allocRegions].
    rewrite <- Q1, <- Q2. apply (commit_tail a0 a1 t1 regs _ _ F1 R1 Hregs). }
  destruct (0 <? n) eqn:En.
  - destruct (meta_alloc_regions a t n) as [[[regs a1] t1]|] eqn:Em; [|discriminate].
    assert (Hnb: 0 <= n < 2^28) by lia.
    destruct (full_meta_alloc_step a0 a t n regs a1 t1 I0 F Hnb Htot Em) as (F1 & Hr1).
    pose proof (freed_meta_alloc_step a0 a t n regs a1 t1 I0 F R Hnb Htot Em) as R1.
    destruct (meta_alloc_not_freed a0 a t n regs a1 t1 I0 F R Hnb Htot Em) as (Q1 & Q2 & Hr2).
    cbn [andb]. destruct regs as [|r0 regs0] eqn:Eregs; [discriminate|]. rewrite <- Eregs in *.
    apply (Htail regs a1 t1 F1 R1 Q1 Q2).
    intros id H. destruct (Hr1 id H) as (_ & B & C). destruct (Hr2 id H) as (A & D & E).
    split; [exact A|]. split; [exact C|]. split; [exact B|]. split; [rewrite Q1; exact D|].
    rewrite Q2. intros X. apply E. left. exact X.
  - cbn [andb]. apply (Htail [] a t F R eq_refl eq_refl). intros id H. destruct (inl_nil _ H).
Qed.

(* the commit frees the free-list pages of the committed state *)
Lemma meta_free_ids_inv a0 a : forall ids t,
  (forall id, In id ids -> inl id (flPages a0)) ->
  FullInv a0 a t -> FreedInv a0 a t ->
  FullInv a0 a (fold_left meta_free ids t) /\ FreedInv a0 a (fold_left meta_free ids t).
Proof.
  induction ids as [|id ids IH]; intros t Hin F R; cbn [fold_left]; [split; assumption|].
  assert (Hp: prot a0 t id) by (right; apply Hin; left; reflexivity).
  destruct (fr_m _ _ _ R id Hp) as (A & B & C).
  assert (Hnf: ~ In id (t_freed (tdata t))).
  { intros X. destruct (fr_d _ _ _ R id X) as (_ & _ & _ & _ & E). exact (E Hp). }
  apply IH.
  - intros x Hx. apply Hin. right. exact Hx.
  - apply full_meta_free_step. exact F.
  - apply freed_meta_free_step; assumption.
Qed.

Theorem commit_step_inv a0 a t extra a' :
  InvQ a0 -> FullInv a0 a t -> FreedInv a0 a t -> metaTotal a < 2^28 ->
  commit_n a (if tx_updated t then meta_free_regions t (flPages a) else t) < 2^28 ->
  commit_step a t extra = CoOk a' -> InvQ a'.
Proof.
  intros Q F R Htot Hn. unfold commit_step.
  set (t1 := if tx_updated t then meta_free_regions t (flPages a) else t) in *.
  assert (H1: FullInv a0 a t1 /\ FreedInv a0 a t1).
  { unfold t1. destruct (tx_updated t); [|split; assumption]. unfold meta_free_regions.
    apply meta_free_ids_inv; try assumption.
    intros id H. apply regions_ids_in in H. destruct (fi_static _ _ _ F) as (_ & _ & _ & Hfl). rewrite <- Hfl. exact H. }
  destruct H1 as [F1 R1].
  destruct (tx_updated t || extra) eqn:Eu.
  - destruct (commit_alloc a t1 true) as [|a2 t2|c a2 t2] eqn:Ec; try discriminate.
    intros [= <-]. eapply commit_alloc_inv; eauto.
  - unfold commit_alloc. cbn [negb]. intros [= <-]. unfold commit_apply. cbn [c_updated].
    eapply tx_state_quiescent; eauto.
Qed.

(* ---------- whole histories ---------- *)
Inductive hreach : allocst -> Prop :=
| h_init a : InvQ a -> hreach a
| h_commit a0 p a t extra a' :
    hreach a0 -> treach2 a0 p a t -> metaTotal a < 2^28 ->
    commit_n a (if tx_updated t then meta_free_regions t (flPages a) else t) < 2^28 ->
    commit_step a t extra = CoOk a' -> hreach a'
| h_abort a0 p a t :
    hreach a0 -> treach2 a0 p a t -> a_end (meta a) - a_end (data a0) < 2^32 -> hreach (rollback a t).

(* At every quiescent point of every history of committed and aborted transactions: both free lists are
   well-formed, disjoint, below the end of the data area; the free-list pages are in neither list; the end
   markers respect the size limit. *)
Theorem hreach_inv a : hreach a -> InvQ a.
Proof.
  induction 1 as [a Q | a0 p a t extra a' H0 IH R Htot Hn E | a0 p a t H0 IH R Hs].
  - exact Q.
  - destruct (treach2_inv a0 p a t IH R) as [F Fr]. eapply commit_step_inv; eauto.
  - pose proof (q_inv0 _ IH) as I0.
    pose proof (rollback_exact_full a0 p a t I0 (treach2_treach _ _ _ _ R) Hs) as H. cbv zeta in H.
    destruct H as (E1 & E2 & E3 & E4 & E5 & E6 & Wm & Sm & Am & E7 & Wd & Sd & Ad).
    destruct I0 as [[Wd0 Hb0 He0] Wm0 Hends0 Hmb0].
    constructor.
    + constructor.
      * constructor; [exact Wd | | rewrite E7; exact He0]. intros id H. apply Sd in H. rewrite E7. apply Hb0. exact H.
      * exact Wm.
      * rewrite E6, E7. exact Hends0.
      * intros id H. apply Sm in H. destruct (Hmb0 _ H) as [A B]. split; [intros X; apply A; apply Sd; exact X | rewrite E7; exact B].
    + intros id H. rewrite E4 in H. destruct (q_fl _ IH id H) as (A & B & C).
      split; [rewrite E7; exact A|]. split; [intros X; apply B; apply Sd; exact X | intros X; apply C; apply Sm; exact X].
    + pose proof (q_cap _ IH) as Cp. unfold EndInv in *. rewrite E1, E6. exact Cp.
Qed.

(* inside every transaction of every history *)
Corollary history_tx_inv a0 p a t : hreach a0 -> treach2 a0 p a t -> FullInv a0 a t /\ FreedInv a0 a t.
Proof. intros H R. apply (treach2_inv a0 p a t); [apply hreach_inv; exact H | exact R]. Qed.
