(* Allocator theorems on top of the region-list library. *)
From VF Require Import Region Freelist Alloc RegionProofs.
From Coq Require Import Lia ZifyBool.

Lemma area_regions_small fuel id count : 0 < count < 2^32 -> area_regions (S fuel) id count =
  {| rid := id; rcount := count |} :: area_regions fuel (id + count) 0.
Proof.
  intros H. cbn [area_regions]. replace (count <=? 0) with false by lia.
  unfold u32max. rewrite Z.min_l by lia. replace (count - count) with 0 by lia. reflexivity.
Qed.
Lemma area_regions_zero fuel id : area_regions fuel id 0 = [].
Proof. destruct fuel; reflexivity. Qed.
Lemma area_regions_one id count : 0 < count < 2^32 -> area_regions 4 id count = [{| rid := id; rcount := count |}].
Proof. intros H. rewrite area_regions_small by exact H. rewrite area_regions_zero. reflexivity. Qed.

Lemma wfl_snoc : forall l lo e c, wfl lo l -> (forall id, inl id l -> id < e) -> lo <= e -> 0 < c < 2^32 ->
  wfl lo (l ++ [{| rid := e; rcount := c |}]).
Proof.
  induction l as [|r l IH]; intros lo e c W Hlt Hlo Hc; cbn [app].
  - constructor; cbn; try lia. constructor.
  - inversion W as [|? ? ? Hlor Hcr Wl]; subst. constructor; auto.
    apply IH; auto.
    + intros id H. apply Hlt. apply inl_cons. right. exact H.
    + assert (rend r - 1 < e). { apply Hlt. apply inl_cons. left. unfold inr, rend in *. lia. } lia.
Qed.

Lemma wfl_snoc_inv : forall pre lo lr, wfl lo (pre ++ [lr]) ->
  wfl lo pre /\ (forall x, inl x pre -> x < rid lr) /\ 0 < rcount lr < 2^32 /\ lo <= rid lr.
Proof.
  induction pre as [|p pre IH]; intros lo lr W; cbn [app] in W.
  - inversion W; subst. split; [constructor|]. split; [intros x H; destruct (inl_nil _ H)|]. split; [assumption|lia].
  - inversion W as [|? ? ? Hlo Hc Wl]; subst. destruct (IH _ _ Wl) as (Wp & Hlt & Hc2 & Hlo2).
    split; [constructor; auto|]. split; [|split; [assumption|unfold rend in *; lia]].
    intros x H. apply inl_cons in H as [H|H]; [unfold inr, rend in *; lia | apply Hlt; exact H].
Qed.

(* the free list of an area lies below its end marker *)
Definition below (f : freelist) (e : Z) : Prop := forall id, inl id (fregions f) -> id < e.

Record DataInv (a : allocst) : Prop := {
  di_wf : wff 2 (a_free (data a));
  di_below : below (a_free (data a)) (a_end (data a));
  di_end : 2 <= a_end (data a) }.

(* ---------- dataAllocator.AllocRegionsWith (Tx.Alloc / Tx.AllocN) ---------- *)
Theorem data_alloc_regions_spec0 a t n regs cnt a' t' :
  DataInv a -> 0 <= n < 2^32 ->
  data_alloc_regions a t n = (regs, cnt, a', t') ->
  (data_avail a < n -> regs = [] /\ cnt = 0 /\ a' = a /\ t' = t) /\
  (n <= data_avail a ->
     cnt = n /\ count_pages regs = n /\ wfl 2 regs /\
     (* every page handed out was free: in the data free list, or beyond the end of the data area *)
     (forall id, inl id regs -> inl id (fregions (a_free (data a))) \/ a_end (data a) <= id) /\
     (* and is not free any more: it can not be handed out again *)
     (forall id, inl id regs -> ~ inl id (fregions (a_free (data a'))) /\ id < a_end (data a')) /\
     DataInv a' /\
     (forall id, inl id (fregions (a_free (data a'))) -> inl id (fregions (a_free (data a)))) /\
     a_free (meta a') = a_free (meta a) /\ metaTotal a' = metaTotal a /\ maxPages a' = maxPages a /\
     (maxPages a <> 0 -> data_avail a' = data_avail a - n)).
Proof.
  intros [Wf Hb He] Hn. unfold data_alloc_regions.
  destruct (data_avail a <? n) eqn:Eav.
  { intros [= <- <- <- <-]. split; [auto|]. intros; lia. }
  unfold alloc_from_freelist.
  set (f := a_free (data a)) in *.
  set (got := Z.min n (avail f)).
  destruct (fl_alloc_regions false f got) as [regs1 f'] eqn:Ea.
  assert (Hav0: 0 <= avail f) by (destruct Wf as [W Hav]; rewrite Hav; eapply count_pages_nonneg; eauto).
  assert (Hgot: 0 <= got <= avail f) by (unfold got; lia).
  destruct (fl_alloc_regions_spec false 2 f got regs1 f' Wf ltac:(lia) Ea) as (Wf' & Wr1 & Hok & _ & Hset & Hdis).
  destruct (Hok ltac:(lia)) as [C1 Av'].
  intros E. split; [intros; lia|]. intros _.
  set (rest := n - got) in *.
  destruct (0 <? rest) eqn:Er.
  - (* part of the pages comes from the end of the data area *)
    rewrite area_regions_one in E by (unfold rest, got in *; lia).
    cbn [andb] in E. injection E as <- <- <- <-. cbn [data a_free a_end meta metaTotal maxPages set_meta set_data].
    set (e := a_end (data a)) in *.
    assert (Wall: wfl 2 (regs1 ++ [{| rid := e; rcount := rest |}])).
    { apply wfl_snoc; auto; try (unfold rest, got in *; lia).
      intros id H. apply Hb. apply Hset. left. exact H. }
    split; [reflexivity|]. split; [rewrite count_pages_app, count_pages_cons, count_pages_nil; cbn [rcount]; unfold rest; lia|].
    split; [exact Wall|].
    split.
    { intros id H. apply inl_app in H as [H|H]; [left; apply Hset; left; exact H|].
      right. apply inl_cons in H as [H|H]; [unfold inr in H; cbn in H; lia | destruct (inl_nil _ H)]. }
    split.
    { intros id H. apply inl_app in H as [H|H].
      - split; [apply Hdis; exact H|]. assert (id < e) by (apply Hb; apply Hset; left; exact H). lia.
      - apply inl_cons in H as [H|H]; [|destruct (inl_nil _ H)]. unfold inr, rend in H; cbn in H.
        split; [|lia]. intros Hf. assert (id < e) by (apply Hb; apply Hset; right; exact Hf). lia. }
    split.
    { constructor; cbn [data a_free a_end set_meta set_data]; [exact Wf' | | lia].
      intros id H. assert (id < e) by (apply Hb; apply Hset; right; exact H). lia. }
    split; [intros id H; apply Hset; right; exact H|].
    split; [reflexivity|]. split; [reflexivity|]. split; [reflexivity|].
    intros Hmp. unfold data_avail in *. cbn [data a_free a_end maxPages set_meta set_data].
    replace (maxPages a =? 0) with false in * by lia. fold f e in Eav |- *.
    (* avail f <= n here, so got = avail f: the whole free list is used *)
    assert (got = avail f) by (unfold rest, got in *; lia).
    destruct (e <? maxPages a) eqn:E1; destruct (e + rest <? maxPages a) eqn:E2; unfold rest in *; lia.
  - (* everything comes from the free list *)
    assert (Hgn: got = n) by (unfold rest in *; lia).
    cbn [andb] in E. rewrite app_nil_r in E. injection E as <- <- <- <-.
    cbn [data a_free a_end meta metaTotal maxPages set_meta set_data].
    split; [reflexivity|]. split; [lia|]. split; [exact Wr1|].
    split; [intros id H; left; apply Hset; left; exact H|].
    split.
    { intros id H. split; [apply Hdis; exact H|]. apply Hb. apply Hset. left. exact H. }
    split.
    { constructor; cbn [data a_free a_end set_meta set_data]; [exact Wf' | | exact He].
      intros id H. apply Hb. apply Hset. right. exact H. }
    split; [intros id H; apply Hset; right; exact H|].
    split; [reflexivity|]. split; [reflexivity|]. split; [reflexivity|].
    intros Hmp. unfold data_avail. cbn [data a_free a_end maxPages set_meta set_data].
    replace (maxPages a =? 0) with false by lia. fold f. lia.
Qed.

Theorem data_alloc_regions_spec a t n regs cnt a' t' :
  DataInv a -> 0 < n < 2^32 ->
  data_alloc_regions a t n = (regs, cnt, a', t') ->
  (data_avail a < n -> regs = [] /\ cnt = 0 /\ a' = a /\ t' = t) /\
  (n <= data_avail a ->
     cnt = n /\ count_pages regs = n /\ wfl 2 regs /\
     (* every page handed out was free: in the data free list, or beyond the end of the data area *)
     (forall id, inl id regs -> inl id (fregions (a_free (data a))) \/ a_end (data a) <= id) /\
     (* and is not free any more: it can not be handed out again *)
     (forall id, inl id regs -> ~ inl id (fregions (a_free (data a'))) /\ id < a_end (data a')) /\
     DataInv a' /\
     (forall id, inl id (fregions (a_free (data a'))) -> inl id (fregions (a_free (data a)))) /\
     a_free (meta a') = a_free (meta a) /\ metaTotal a' = metaTotal a /\ maxPages a' = maxPages a /\
     (maxPages a <> 0 -> data_avail a' = data_avail a - n)).
Proof. intros ID Hn. apply data_alloc_regions_spec0; [exact ID | lia]. Qed.

(* ---------- dataAllocator.Free ---------- *)
(* a page that was not allocated by the running transaction (a page of the committed state) is only
   recorded as freed: the allocator state, hence everything later allocations can return, is unchanged
   until the commit *)
Theorem data_free_committed_page a t id a' t' :
  set_mem id (t_new (tdata t)) = false -> data_free a t id = Some (a', t') ->
  a' = a /\ t_freed (tdata t') = set_add id (t_freed (tdata t)) /\
  t_allocated (tdata t') = t_allocated (tdata t) /\ t_new (tdata t') = t_new (tdata t) /\
  2 <= id < a_end (data a).
Proof.
  intros Hnew. unfold data_free.
  destruct ((id <? 2) || (a_end (data a) <=? id)) eqn:Eb; [discriminate|].
  rewrite Hnew. cbn [negb]. intros [= <- <-]. cbn. repeat split; lia.
Qed.

(* a page allocated and freed again inside the transaction goes back to the free list (it holds no
   committed data); the invariant of the data area is kept, also when the end marker moves back *)
Theorem data_free_fresh_page a t id a' t' :
  DataInv a -> set_mem id (t_new (tdata t)) = true ->
  ~ inl id (fregions (a_free (data a))) ->
  data_free a t id = Some (a', t') ->
  DataInv a' /\
  (forall x, inl x (fregions (a_free (data a'))) -> x = id \/ inl x (fregions (a_free (data a)))) /\
  a_end (data a') <= a_end (data a) /\
  (forall x, x <> id -> inl x (fregions (a_free (data a))) -> x < a_end (data a') ->
             inl x (fregions (a_free (data a')))).
Proof.
  intros [Wf Hb He] Hnew Hnf. unfold data_free.
  destruct ((id <? 2) || (a_end (data a) <=? id)) eqn:Eb; [discriminate|].
  rewrite Hnew. cbn [negb].
  set (f0 := a_free (data a)) in *.
  assert (Hreg: forall x, inr x {| rid := id; rcount := 1 |} -> ~ inl x (fregions f0)).
  { intros x Hx. unfold inr, rend in Hx. cbn in Hx. assert (x = id) by lia. subst x. exact Hnf. }
  destruct (fl_add_region_spec f0 {| rid := id; rcount := 1 |} 2 Wf ltac:(cbn; lia) ltac:(cbn; lia) Hreg) as (Wf1 & Hset1 & Hav1).
  set (f := fl_add_region f0 {| rid := id; rcount := 1 |}) in *.
  cbn [rcount] in Hav1.
  assert (Hin1: forall x, inl x (fregions f) <-> x = id \/ inl x (fregions f0)).
  { intros x. rewrite Hset1. unfold inr, rend. cbn. split; [intros [H|H]; [left; lia | right; exact H] | intros [H|H]; [left; lia | right; exact H]]. }
  assert (Hb1: below f (a_end (data a))).
  { intros x Hx. apply Hin1 in Hx as [->|Hx]; [lia | apply Hb; exact Hx]. }
  destruct (id <=? t_end (tdata t)) eqn:E1.
  { intros [= <- <-]. cbn [data a_free a_end set_data].
    split; [constructor; cbn [data a_free a_end set_data]; assumption|].
    split; [intros x Hx; apply Hin1; exact Hx|]. split; [lia|].
    intros x _ Hx _. apply Hin1. right. exact Hx. }
  destruct (rend (last_region (fregions f)) <? a_end (data a)) eqn:E2.
  { intros [= <- <-]. cbn [data a_free a_end set_data].
    split; [constructor; cbn [data a_free a_end set_data]; assumption|].
    split; [intros x Hx; apply Hin1; exact Hx|]. split; [lia|].
    intros x _ Hx _. apply Hin1. right. exact Hx. }
  (* the last free region reaches the end marker: the data area shrinks *)
  destruct Wf1 as [W1 Hav1'].
  assert (Hne: fregions f <> []).
  { intros Hnil. assert (H: inl id (fregions f)) by (apply Hin1; left; reflexivity). rewrite Hnil in H. destruct (inl_nil _ H). }
  destruct (exists_last Hne) as (pre & lr & Hsplit).
  assert (Hlast: last_region (fregions f) = lr) by (unfold last_region; rewrite Hsplit; apply last_last).
  assert (Hrl: removelast (fregions f) = pre) by (rewrite Hsplit; apply removelast_last).
  rewrite Hlast in *. rewrite Hrl.
  (* decompose well-formedness of pre ++ [lr] *)
  assert (Hdec: wfl 2 pre /\ (forall x, inl x pre -> x < rid lr) /\ 0 < rcount lr < 2^32 /\ 2 <= rid lr).
  { rewrite Hsplit in W1. apply (wfl_snoc_inv _ _ _ W1). }
  destruct Hdec as (Wpre & Hprelt & Hclr & Hlolr).
  assert (Hend: rend lr = a_end (data a)).
  { assert (rend lr - 1 < a_end (data a)).
    { apply Hb1. rewrite Hsplit. apply inl_app. right. apply inl_cons. left. unfold inr, rend. lia. }
    lia. }
  assert (Hcnt: count_pages (fregions f) = count_pages pre + rcount lr).
  { rewrite Hsplit, count_pages_app, count_pages_cons, count_pages_nil. lia. }
  destruct (rid lr <? t_end (tdata t)) eqn:E3.
  - intros [= <- <-]. unfold shrink_end. cbn [data a_free a_end set_data set_meta meta].
    set (old := t_end (tdata t)) in *.
    assert (Wnew: wfl 2 (pre ++ [{| rid := rid lr; rcount := rcount lr - (rend lr - old) |}])).
    { apply wfl_snoc; auto; unfold rend in *; lia. }
    split.
    { constructor; cbn [data a_free a_end set_data set_meta meta].
      - split; cbn [fregions avail]; [exact Wnew|].
        rewrite count_pages_app, count_pages_cons, count_pages_nil. cbn [rcount]. lia.
      - intros x Hx. cbn [fregions] in Hx. apply inl_app in Hx as [Hx|Hx].
        + pose proof (Hprelt _ Hx). lia.
        + apply inl_cons in Hx as [Hx|Hx]; [unfold inr, rend in *; cbn in *; lia | destruct (inl_nil _ Hx)].
      - lia. }
    split.
    { intros x Hx. cbn [fregions] in Hx. apply Hin1. rewrite Hsplit. apply inl_app. apply inl_app in Hx as [Hx|Hx]; [left; exact Hx|].
      right. apply inl_cons in Hx as [Hx|Hx]; [|destruct (inl_nil _ Hx)]. apply inl_cons. left. unfold inr, rend in *. cbn in *. lia. }
    split; [lia|].
    intros x Hxne Hx Hlt. cbn [fregions].
    assert (Hx1: inl x (fregions f)) by (apply Hin1; right; exact Hx).
    rewrite Hsplit in Hx1. apply inl_app in Hx1 as [Hx1|Hx1]; apply inl_app; [left; exact Hx1|].
    right. apply inl_cons in Hx1 as [Hx1|Hx1]; [|destruct (inl_nil _ Hx1)]. apply inl_cons. left. unfold inr, rend in *. cbn in *. lia.
  - intros [= <- <-]. unfold shrink_end. cbn [data a_free a_end set_data set_meta meta].
    split.
    { constructor; cbn [data a_free a_end set_data set_meta meta].
      - split; cbn [fregions avail]; [exact Wpre | lia].
      - intros x Hx. cbn [fregions] in Hx. apply Hprelt. exact Hx.
      - lia. }
    split.
    { intros x Hx. cbn [fregions] in Hx. apply Hin1. rewrite Hsplit. apply inl_app. left. exact Hx. }
    split; [unfold rend in *; lia|].
    intros x Hxne Hx Hlt. cbn [fregions].
    assert (Hx1: inl x (fregions f)) by (apply Hin1; right; exact Hx).
    rewrite Hsplit in Hx1. apply inl_app in Hx1 as [Hx1|Hx1]; [exact Hx1|].
    apply inl_cons in Hx1 as [Hx1|Hx1]; [unfold inr in Hx1; lia | destruct (inl_nil _ Hx1)].
Qed.

(* ---------- allocArea.rollback ---------- *)
(* The free list after rollback, as a set: exactly the pages below the restored end marker that were
   free before the rollback or had been allocated from the free list by the transaction. In particular
   nothing at or beyond the restored end marker stays in the list (D9). *)
Theorem area_rollback_spec ar x :
  wff 2 (a_free ar) -> below (a_free ar) (a_end ar) ->
  sorted_from 2 (t_allocated x) -> 2 <= t_end x ->
  a_end ar - t_end x < 2^32 ->
  (forall id, In id (t_allocated x) -> id < t_end x -> ~ inl id (fregions (a_free ar))) ->
  let ar' := area_rollback ar x in
  a_end ar' = t_end x /\ wff 2 (a_free ar') /\
  (forall id, inl id (fregions (a_free ar')) <->
      id < t_end x /\ (inl id (fregions (a_free ar)) \/ In id (t_allocated x))) /\
  below (a_free ar') (a_end ar').
Proof.
  intros Wf Hbelow Ss He Hsmall Hdis. unfold area_rollback. cbn zeta.
  set (alloc := filter (fun id => id <? t_end x) (t_allocated x)).
  assert (Sa: sorted_from 2 alloc) by (apply sorted_from_filter; exact Ss).
  destruct (ids_regions_spec alloc 2 Sa) as (Wi & Hiset & _).
  assert (Hain: forall id, In id alloc <-> In id (t_allocated x) /\ id < t_end x).
  { intros id. unfold alloc. rewrite filter_In. split; intros [H1 H2]; split; auto; lia. }
  set (f1 := if t_end x <? a_end ar
             then fl_remove_region (a_free ar) {| rid := t_end x; rcount := (a_end ar - t_end x) mod 2 ^ 32 |}
             else a_free ar).
  assert (H1: wff 2 f1 /\ (forall id, inl id (fregions f1) <-> inl id (fregions (a_free ar)) /\ id < t_end x)).
  { unfold f1. destruct (t_end x <? a_end ar) eqn:E.
    - destruct (fl_remove_region_spec (a_free ar) {| rid := t_end x; rcount := (a_end ar - t_end x) mod 2 ^ 32 |} 2 Wf) as (W & Hs).
      split; [exact W|]. intros id. rewrite Hs. unfold inr, rend. cbn. rewrite Z.mod_small by lia.
      split; intros [Ha Hb]; split; auto; pose proof (Hbelow _ Ha); lia.
    - split; [exact Wf|]. intros id. split; [intros H; split; [exact H | pose proof (Hbelow _ H); lia] | intros [H _]; exact H]. }
  destruct H1 as (Wf1 & Hs1).
  assert (Hd: disjoint_l (fregions f1) (ids_regions alloc)).
  { intros id Ha Hb. apply Hs1 in Ha as [Ha _]. apply Hiset in Hb. apply Hain in Hb as [Hb Hlt]. exact (Hdis id Hb Hlt Ha). }
  destruct (fl_add_regions_spec f1 (ids_regions alloc) 2 Wf1 Wi Hd) as (W2 & Hs2 & _).
  cbn [a_end a_free].
  assert (Hset: forall id, inl id (fregions (fl_add_regions f1 (ids_regions alloc))) <->
      id < t_end x /\ (inl id (fregions (a_free ar)) \/ In id (t_allocated x))).
  { intros id. rewrite Hs2, Hs1, Hiset, Hain. tauto. }
  split; [reflexivity|]. split; [exact W2|]. split; [exact Hset|].
  intros id H. apply Hset in H. tauto.
Qed.

(* ---------- growing the maximum size (open with FlagUpdMaxSize) ---------- *)
Definition with_max (a : allocst) (mp : Z) : allocst :=
  {| maxPages := mp; pageSize := pageSize a; meta := meta a; metaTotal := metaTotal a;
     data := data a; flRoot := flRoot a; flPages := flPages a |}.

(* exactly the additional pages become allocatable *)
Theorem grow_exact a newMax : 0 < maxPages a -> a_end (data a) <= maxPages a -> maxPages a <= newMax ->
  data_avail (with_max a newMax) = data_avail a + (newMax - maxPages a).
Proof.
  intros Hpos Hend Hle. unfold data_avail, with_max. cbn [maxPages data].
  replace (maxPages a =? 0) with false by lia. replace (newMax =? 0) with false by lia.
  destruct (a_end (data a) <? maxPages a) eqn:E1; destruct (a_end (data a) <? newMax) eqn:E2; lia.
Qed.

(* a former overflow area (meta pages behind the data area, past the old limit) is skipped: after the repair of D12
   the grow transaction moves the data end marker forward to min(meta end, new limit), so no page id of the overflow
   area can come from the end of the data area; the marker is never moved back (D20: the first version of the
   repair set it to that value unconditionally, below live data pages of a file that extends beyond the new
   limit) *)
(* grow_data_end: Model/Alloc.v *)

Theorem grow_skips_overflow_area oldMax newMax dataEnd metaEnd id :
  0 < oldMax -> oldMax < metaEnd -> (newMax = 0 \/ oldMax < newMax) ->
  dataEnd <= id < metaEnd ->                       (* a page behind the data area: the overflow area *)
  let e := grow_data_end oldMax newMax dataEnd metaEnd in
  (* pages handed out from the end of the data area have ids in [e, newMax) *)
  ~ (e <= id /\ (newMax = 0 \/ id < newMax)).
Proof.
  intros Hpos Hov Hgrow Hid. unfold grow_data_end. cbn zeta.
  replace (0 <? oldMax) with true by lia. replace (oldMax <? metaEnd) with true by lia.
  destruct Hgrow as [->|Hg].
  - cbn. lia.
  - replace (newMax =? 0) with false by lia. replace (oldMax <? newMax) with true by lia. cbn [andb orb].
    replace (0 <? newMax) with true by lia. cbn [andb].
    destruct (newMax <? metaEnd) eqn:E; lia.
Qed.

(* the data end marker never moves back: every live data page stays inside the data area *)
Theorem grow_never_lowers oldMax newMax dataEnd metaEnd :
  dataEnd <= grow_data_end oldMax newMax dataEnd metaEnd.
Proof. unfold grow_data_end. destruct (_ && _ && _); lia. Qed.

(* D20: the first version of the repair *)
Definition grow_data_end_v1 (oldMax newMax dataEnd metaEnd : Z) : Z :=
  if (0 <? oldMax) && (oldMax <? metaEnd) && ((newMax =? 0) || (oldMax <? newMax))
  then (if (0 <? newMax) && (newMax <? metaEnd) then newMax else metaEnd)
  else dataEnd.
Theorem grow_v1_lowers_refuted : exists oldMax newMax dataEnd metaEnd,
  0 < oldMax /\ oldMax < newMax /\ dataEnd <= metaEnd /\ grow_data_end_v1 oldMax newMax dataEnd metaEnd < dataEnd.
Proof. exists 64, 100, 156, 156. vm_compute. repeat split; discriminate. Qed.
