(* The queue reader as a state machine: every interleaving of Next and (partial) Read on the framed stream
   delivers exactly what the same operations deliver on the list of events; the page-level cursor moves by
   exactly the number of bytes it is asked to. *)
From VF Require Import PQ BytesProofs PQProofs.
From Coq Require Import Lia.

(* an event the 4-byte size field can describe; events WITHOUT contents (Writer.Next without Write) included *)
Definition okev (e : list Z) : Prop := Z.of_nat (length e) < 256 ^ Z.of_nat hdr_len.

Lemma layout_from_cons P pos e rest :
  layout_from P pos (e :: rest) =
  zeros (pad_at P pos) ++ le_encode hdr_len (Z.of_nat (length e)) ++ e ++
  layout_from P (pos + pad_at P pos + hdr_len + length e) rest.
Proof.
  cbn [layout_from]. rewrite frame_event_length. unfold frame_event. rewrite <- !app_assoc.
  replace (pos + (pad_at P pos + hdr_len + length e))%nat with (pos + pad_at P pos + hdr_len + length e)%nat by lia.
  reflexivity.
Qed.

Lemma slice_mid (a b c : list Z) n : n = length b -> slice (length a) n (a ++ b ++ c) = b.
Proof. intros ->. apply slice_at. Qed.

Lemma slice_prefix (a b c : list Z) m : (m <= length b)%nat -> slice (length a) m (a ++ b ++ c) = firstn m b.
Proof.
  intros H. unfold slice. rewrite skipn_app, skipn_all, Nat.sub_diag. cbn [skipn app].
  rewrite firstn_app. replace (m - length b)%nat with O by lia. cbn [firstn]. rewrite app_nil_r. reflexivity.
Qed.

(* ---------- simulation ---------- *)
Inductive Rsim (P : nat) (stream : list Z) (N : nat) : rst -> sst -> Prop :=
| R_between pre rest post id :
    stream = pre ++ layout_from P (length pre) rest ++ post -> (id + length rest = N)%nat ->
    Forall okev rest ->
    Rsim P stream N {| r_pos := length pre; r_left := None; r_id := id |} {| s_rest := rest; s_cur := None |}
| R_inside pre b rest post id :
    stream = pre ++ b ++ layout_from P (length pre + length b) rest ++ post -> (S id + length rest = N)%nat ->
    Forall okev rest ->
    Rsim P stream N {| r_pos := length pre; r_left := Some (length b); r_id := id |} {| s_rest := rest; s_cur := Some b |}.

(* Next at the start of the frame of the next event (or at the end) *)
Lemma next_at P stream N pre rest post id :
  stream = pre ++ layout_from P (length pre) rest ++ post -> (id + length rest = N)%nat -> Forall okev rest ->
  let p1 := length pre in
  let res := if (N <=? id)%nat then (Some O, @nil Z, {| r_pos := p1; r_left := None; r_id := id |})
             else let p2 := (p1 + pad_at P p1)%nat in
                  let L := Z.to_nat (le_decode (slice p2 hdr_len stream)) in
                  (Some L, @nil Z, {| r_pos := (p2 + hdr_len)%nat; r_left := Some L; r_id := id |}) in
  let '(o1, b1, st') := res in
  let '(o2, b2, s') := sp_step {| s_rest := rest; s_cur := None |} RNext in
  o1 = o2 /\ b1 = b2 /\ Rsim P stream N st' s'.
Proof.
  intros Hs Hn Hok. cbv zeta. destruct rest as [|e r].
  - cbn [length] in Hn. replace (N <=? id)%nat with true by (symmetry; apply Nat.leb_le; lia).
    cbn [sp_step s_rest]. split; [reflexivity|]. split; [reflexivity|].
    apply (R_between P stream N pre [] post id); [exact Hs | cbn; lia | constructor].
  - cbn [length] in Hn. replace (N <=? id)%nat with false by (symmetry; apply Nat.leb_gt; lia).
    apply Forall_cons_iff in Hok as [He2 Hokr]. unfold okev in He2.
    cbn [sp_step s_rest].
    rewrite layout_from_cons in Hs.
    set (pad := pad_at P (length pre)) in *.
    set (hdr := le_encode hdr_len (Z.of_nat (length e))) in *.
    assert (Hh: length hdr = hdr_len) by apply le_encode_length.
    assert (Hsl: slice (length pre + pad) hdr_len stream = hdr).
    { rewrite Hs. replace (length pre + pad)%nat with (length (pre ++ zeros pad)) by (rewrite app_length, zeros_length; reflexivity).
      rewrite <- !app_assoc. rewrite (app_assoc pre (zeros pad)). apply slice_mid. symmetry. exact Hh. }
    rewrite Hsl. unfold hdr at 1 2. rewrite le_decode_encode by lia. rewrite Nat2Z.id.
    split; [reflexivity|]. split; [reflexivity|].
    replace (length pre + pad + hdr_len)%nat with (length (pre ++ zeros pad ++ hdr)) by (rewrite !app_length, zeros_length, Hh; lia).
    apply (R_inside P stream N (pre ++ zeros pad ++ hdr) e r post id).
    + rewrite Hs, <- !app_assoc. rewrite !app_length, zeros_length, Hh.
      replace (length pre + (pad + hdr_len) + length e)%nat with (length pre + pad + hdr_len + length e)%nat by lia. reflexivity.
    + lia.
    + exact Hokr.
Qed.

Lemma firstn_min {A} (l : list A) n : firstn (Nat.min n (length l)) l = firstn n l.
Proof.
  destruct (Nat.le_ge_cases n (length l)) as [H|H]; [rewrite Nat.min_l by lia; reflexivity|].
  rewrite Nat.min_r by lia. rewrite firstn_all, firstn_all2 by lia. reflexivity.
Qed.

Theorem rd_step_sim P stream N st s o :
  Rsim P stream N st s ->
  let '(o1, b1, st') := rd_step P stream N st o in
  let '(o2, b2, s') := sp_step s o in
  o1 = o2 /\ b1 = b2 /\ Rsim P stream N st' s'.
Proof.
  intros R. destruct R as [pre rest post id Hs Hn Hok | pre b rest post id Hs Hn Hok]; destruct o as [|n].
  - (* Next between events *)
    unfold rd_step. cbn [r_pos r_left r_id]. rewrite Nat.add_0_r.
    exact (next_at P stream N pre rest post id Hs Hn Hok).
  - (* Read between events: nothing *)
    cbn. split; [reflexivity|]. split; [reflexivity|]. eapply R_between; eauto.
  - (* Next inside an event: the rest is skipped *)
    unfold rd_step. cbn [r_pos r_left r_id].
    assert (Hs2: stream = (pre ++ b) ++ layout_from P (length (pre ++ b)) rest ++ post).
    { rewrite Hs, app_length, <- app_assoc. reflexivity. }
    pose proof (next_at P stream N (pre ++ b) rest post (S id) Hs2 Hn Hok) as H.
    rewrite app_length in H. cbv zeta in H.
    assert (Hsp: sp_step {| s_rest := rest; s_cur := Some b |} RNext = sp_step {| s_rest := rest; s_cur := None |} RNext) by reflexivity.
    rewrite Hsp. exact H.
  - (* Read inside an event *)
    unfold rd_step, sp_step. cbn [r_pos r_left r_id s_cur s_rest].
    assert (Hsl: slice (length pre) (Nat.min n (length b)) stream = firstn n b).
    { rewrite Hs, slice_prefix by lia. apply firstn_min. }
    rewrite Hsl. split; [reflexivity|]. split; [reflexivity|].
    destruct (length b <=? n)%nat eqn:E.
    + apply Nat.leb_le in E. rewrite Nat.min_r by lia.
      replace (length pre + length b)%nat with (length (pre ++ b)) by (rewrite app_length; reflexivity).
      apply (R_between P stream N (pre ++ b) rest post (S id)); [|exact Hn | exact Hok].
      rewrite Hs, app_length, <- app_assoc. reflexivity.
    + apply Nat.leb_gt in E. rewrite Nat.min_l by lia.
      assert (Hl: length (firstn n b) = n) by (apply firstn_length_le; lia).
      assert (Hl2: length (skipn n b) = (length b - n)%nat) by apply skipn_length.
      replace (length pre + n)%nat with (length (pre ++ firstn n b)) by (rewrite app_length, Hl; reflexivity).
      rewrite <- Hl2.
      apply (R_inside P stream N (pre ++ firstn n b) (skipn n b) rest post id); [|exact Hn | exact Hok].
      rewrite Hs, <- !app_assoc. f_equal. rewrite (app_assoc (firstn n b)), firstn_skipn.
      rewrite app_length, Hl, Hl2. replace (length pre + n + (length b - n))%nat with (length pre + length b)%nat by lia. reflexivity.
Qed.

Theorem rd_run_sim P stream N : forall ops st s,
  Rsim P stream N st s -> rd_run P stream N st ops = sp_run s ops.
Proof.
  induction ops as [|o ops IH]; intros st s R; [reflexivity|].
  cbn [rd_run sp_run]. pose proof (rd_step_sim P stream N st s o R) as H.
  destruct (rd_step P stream N st o) as [[o1 b1] st']. destruct (sp_step s o) as [[o2 b2] s'].
  destruct H as (-> & -> & R'). rewrite (IH st' s' R'). reflexivity.
Qed.

(* For every list of events (also events without contents), every page payload size, whatever precedes or follows them in the
   stream, and EVERY sequence of Next / Read(n) calls: the reader working on the bytes reports the same sizes
   and returns the same bytes as the same calls on the list of events - every event once, in order, a Read never
   crosses the end of its event, skipped rests are really skipped, size 0 exactly at the end. *)
Theorem reader_refines_events P pre evs post ops :
  Forall okev evs ->
  rd_run P (pre ++ layout_from P (length pre) evs ++ post) (length evs)
         {| r_pos := length pre; r_left := None; r_id := 0 |} ops
  = sp_run {| s_rest := evs; s_cur := None |} ops.
Proof.
  intros Hok. apply rd_run_sim. apply (R_between P _ (length evs) pre evs post 0); [reflexivity | lia | exact Hok].
Qed.

(* reading everything: Next, then Read with a buffer of the reported size, for every event *)
Fixpoint drain_ops (evs : list (list Z)) : list rop :=
  match evs with [] => [RNext] | e :: r => RNext :: RRead (length e) :: drain_ops r end.
Fixpoint drain_out (evs : list (list Z)) : list (option nat * list Z) :=
  match evs with [] => [(Some O, [])] | e :: r => (Some (length e), []) :: (None, e) :: drain_out r end.
Lemma sp_drain : forall evs, sp_run {| s_rest := evs; s_cur := None |} (drain_ops evs) = drain_out evs.
Proof.
  induction evs as [|e r IH]; [reflexivity|].
  cbn [drain_ops drain_out sp_run sp_step s_rest s_cur]. rewrite firstn_all, Nat.leb_refl. f_equal. f_equal. exact IH.
Qed.
Corollary reader_drains_everything P pre evs post :
  Forall okev evs ->
  rd_run P (pre ++ layout_from P (length pre) evs ++ post) (length evs)
         {| r_pos := length pre; r_left := None; r_id := 0 |} (drain_ops evs) = drain_out evs.
Proof. intros H. rewrite reader_refines_events by exact H. apply sp_drain. Qed.

(* ---------- the page-level cursor ---------- *)
Theorem cur_adv_lin : forall fuel P pg off n,
  (0 < P)%nat -> (off <= P)%nat -> (n <= fuel)%nat ->
  let '(pg', off') := cur_adv fuel P pg off n in
  cur_lin P pg' off' = (cur_lin P pg off + n)%nat /\ (off' <= P)%nat.
Proof.
  induction fuel as [|f IH]; intros P pg off n HP Ho Hn.
  - cbn. assert (n = O) by lia. subst. split; lia.
  - cbn [cur_adv]. destruct n as [|n']; [split; lia|].
    destruct (P - off =? 0)%nat eqn:E.
    + apply Nat.eqb_eq in E. assert (off = P) by lia. subst off.
      rewrite Nat.add_0_l, Nat.sub_0_r.
      assert (Hm: (1 <= Nat.min (S n') P)%nat) by (apply Nat.min_glb; lia).
      specialize (IH P (S pg) (Nat.min (S n') P) (S n' - Nat.min (S n') P)%nat HP ltac:(apply Nat.le_min_r) ltac:(lia)).
      destruct (cur_adv f P (S pg) (Nat.min (S n') P) (S n' - Nat.min (S n') P)) as [pg' off'].
      destruct IH as [A B]. split; [|exact B]. unfold cur_lin in *. rewrite A.
      pose proof (Nat.le_min_l (S n') P). cbn [Nat.mul]. lia.
    + apply Nat.eqb_neq in E.
      assert (Hm: (1 <= Nat.min (S n') (P - off))%nat) by (apply Nat.min_glb; lia).
      specialize (IH P pg (off + Nat.min (S n') (P - off))%nat (S n' - Nat.min (S n') (P - off))%nat HP
                    ltac:(pose proof (Nat.le_min_r (S n') (P - off)); lia) ltac:(lia)).
      destruct (cur_adv f P pg (off + Nat.min (S n') (P - off)) (S n' - Nat.min (S n') (P - off))) as [pg' off'].
      destruct IH as [A B]. split; [|exact B]. unfold cur_lin in *. rewrite A.
      pose proof (Nat.le_min_l (S n') (P - off)). lia.
Qed.

(* the cursor that changes page as soon as fewer than [thr] bytes are left (a seeded defect used thr = header
   size in Skip): bytes are lost *)
Fixpoint cur_adv_thr (thr fuel P : nat) (pg off n : nat) : nat * nat :=
  match fuel with
  | O => (pg, off)
  | S f =>
      match n with
      | O => (pg, off)
      | _ =>
          let '(pg1, off1) := if (P - off <? thr)%nat then (S pg, O) else (pg, off) in
          let mx := Nat.min n (P - off1) in
          cur_adv_thr thr f P pg1 (off1 + mx)%nat (n - mx)%nat
      end
  end.
Lemma cur_adv_thr_1 : forall fuel P pg off n, cur_adv_thr 1 fuel P pg off n = cur_adv fuel P pg off n.
Proof.
  induction fuel as [|f IH]; intros P pg off n; [reflexivity|]. cbn [cur_adv_thr cur_adv]. destruct n; [reflexivity|].
  replace (P - off <? 1)%nat with (P - off =? 0)%nat by (destruct (P - off)%nat; reflexivity).
  destruct (P - off =? 0)%nat; apply IH.
Qed.
Theorem skip_threshold_refuted : exists P pg off n,
  (off <= P)%nat /\ let '(pg', off') := cur_adv_thr hdr_len n P pg off n in cur_lin P pg' off' <> (cur_lin P pg off + n)%nat.
Proof. exists 10%nat, 0%nat, 8%nat, 3%nat. split; [lia|]. vm_compute. lia. Qed.
