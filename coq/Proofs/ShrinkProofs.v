(* A file that extends beyond its size limit (the limit was lowered on open, or the data end marker sits in a
   former overflow area): what the allocator may still do.
   - releaseOverflowPages gives back exactly a run of free pages that ends at the end marker and lies at or
     beyond the limit;
   - the tail of fileCommitAlloc (commit_ends) never moves the end of the file below a page that is in use;
   - the data allocator never extends the file when the data end marker is at or beyond the limit.
   The two defects found at this point (D17, D18) are kept as refuted statements about the old definitions. *)
From VF Require Import Region Freelist Alloc RegionProofs AllocProofs.
From Coq Require Import Lia ZifyBool.

(* ---------- releaseOverflowPages ---------- *)
Lemma rev_snoc {A} (l : list A) (x : A) : rev (l ++ [x]) = x :: rev l.
Proof. rewrite rev_app_distr. reflexivity. Qed.

Lemma release_rev_spec : forall l lo ostart oend rl t,
  wfl lo l -> (forall id, inl id l -> id < oend) -> ostart <= oend ->
  release_rev (rev l) ostart oend = (rl, t) ->
  0 <= t /\ ostart <= oend - t /\ wfl lo (rev rl) /\
  (forall id, inl id (rev rl) <-> inl id l /\ id < oend - t) /\
  (forall id, oend - t <= id < oend -> inl id l) /\
  count_pages (rev rl) = count_pages l - t.
Proof.
  induction l as [|r pre IH] using rev_ind; intros lo ostart oend rl t W Hlt Hse E.
  - cbn in E. injection E as <- <-. cbn [rev]. rewrite Z.sub_0_r.
    split; [lia|]. split; [lia|]. split; [constructor|].
    split; [intros id; split; [intros H; destruct (inl_nil _ H) | intros [H _]; exact H]|].
    split; [intros id H; lia | lia].
  - rewrite rev_snoc in E. cbn [release_rev] in E.
    destruct (wfl_snoc_inv _ _ _ W) as (Wp & Hpre & Hc & Hlo).
    assert (Hre: rend r <= oend).
    { assert (rend r - 1 < oend); [|lia]. apply Hlt. apply inl_app. right. apply inl_cons. left. unfold inr, rend. lia. }
    destruct (rend r <? oend) eqn:E1.
    { injection E as <- <-. cbn [rev]. rewrite rev_involutive, Z.sub_0_r.
      split; [lia|]. split; [lia|]. split; [exact W|].
      split; [intros id; split; [intros H; split; [exact H | apply Hlt; exact H] | intros [H _]; exact H]|].
      split; [intros id H; lia | lia]. }
    destruct (rid r <? ostart) eqn:E2.
    { injection E as <- <-. cbn [rev]. rewrite rev_involutive.
      assert (Hend: rend r = oend) by lia. unfold rend in Hend.
      replace (oend - (rend r - ostart)) with ostart by (unfold rend; lia).
      split; [unfold rend; lia|]. split; [lia|].
      split.
      { apply wfl_snoc; [exact Wp | exact Hpre | exact Hlo | lia]. }
      split.
      { intros id. rewrite !inl_app, !inl_cons. unfold inr, rend. cbn [rid rcount]. split.
        - intros [H|[H|H]]; [split; [left; exact H | pose proof (Hpre _ H); lia] | split; [right; left; lia | lia] | destruct (inl_nil _ H)].
        - intros [[H|[H|H]] Hid]; [left; exact H | right; left; lia | destruct (inl_nil _ H)]. }
      split.
      { intros id H. apply inl_app. right. apply inl_cons. left. unfold inr, rend. lia. }
      rewrite !count_pages_app, !count_pages_cons, !count_pages_nil. cbn [rcount]. unfold rend. lia. }
    destruct (release_rev (rev pre) ostart (rid r)) as [tl' t0] eqn:Er. injection E as <- <-.
    destruct (IH lo ostart (rid r) tl' t0 Wp Hpre ltac:(lia) Er) as (Ht0 & Hs & Wr & Hset & Hrun & Hcnt).
    assert (Hend: rend r = oend) by lia. unfold rend in Hend.
    replace (oend - (t0 + rcount r)) with (rid r - t0) by lia.
    split; [lia|]. split; [exact Hs|]. split; [exact Wr|].
    split.
    { intros id. rewrite Hset, inl_app, inl_cons. unfold inr, rend. split.
      - intros [H Hid]. split; [left; exact H | exact Hid].
      - intros [[H|[H|H]] Hid]; [split; assumption | lia | destruct (inl_nil _ H)]. }
    split.
    { intros id H. apply inl_app. destruct (Z.lt_ge_cases id (rid r)) as [Hl|Hg].
      - left. apply Hrun. lia.
      - right. apply inl_cons. left. unfold inr, rend. lia. }
    rewrite Hcnt, count_pages_app, count_pages_cons, count_pages_nil. lia.
Qed.

(* the released pages are a run of free pages [e - t, e) at or beyond the limit; all other free pages stay *)
Theorem release_overflow_spec l lo mx e l' t :
  wfl lo l -> (forall id, inl id l -> id < e) ->
  release_overflow l mx e = (l', t) ->
  0 <= t /\ (0 < t -> mx <> 0 /\ mx <= e - t) /\ wfl lo l' /\
  (forall id, inl id l' <-> inl id l /\ id < e - t) /\
  (forall id, e - t <= id < e -> inl id l) /\
  count_pages l' = count_pages l - t.
Proof.
  intros W Hlt. unfold release_overflow.
  destruct ((mx =? 0) || (e <=? mx)) eqn:E0.
  - intros [= <- <-]. rewrite Z.sub_0_r. split; [lia|]. split; [lia|]. split; [exact W|].
    split; [intros id; split; [intros H; split; [exact H | apply Hlt; exact H] | intros [H _]; exact H]|].
    split; [intros id H; lia | lia].
  - destruct (release_rev (rev l) mx e) as [rl t0] eqn:Er. intros [= <- <-].
    destruct (release_rev_spec l lo mx e rl t0 W Hlt ltac:(lia) Er) as (A & B & C & D & E & F).
    split; [exact A|]. split; [lia|]. split; [exact C|]. split; [exact D|]. split; [exact E | exact F].
Qed.

(* ---------- the tail of fileCommitAlloc ---------- *)
(* newData / newMeta: the free lists the commit is about to persist (old free lists + pages freed by the
   transaction). A page below the end of the file that is in neither list is in use. *)
Section CommitEnds.
Variables (newData newMeta : regions) (mx dEnd mEnd lo : Z).
Hypothesis Wd : wfl lo newData.
Hypothesis Wm : wfl lo newMeta.
Hypothesis Hdis : disjoint_l newData newMeta.
Hypothesis Hdlt : forall id, inl id newData -> id < dEnd.
Hypothesis Hmlt : forall id, inl id newMeta -> id < mEnd.
Hypothesis Hends : dEnd <= mEnd.

Theorem commit_ends_spec metaList dataList dEnd2 mEnd2 ovfFreed dataFreedN :
  commit_ends newData newMeta mx dEnd mEnd = (metaList, dataList, dEnd2, mEnd2, ovfFreed, dataFreedN) ->
  let fileEnd := Z.max dEnd2 mEnd2 in
  (* nothing is invented, only pages at or past the new end of the file leave the lists *)
  (forall id, inl id metaList <-> inl id newMeta /\ id < mEnd - ovfFreed) /\
  (forall id, inl id dataList -> inl id newData) /\
  (forall id, inl id newData -> inl id dataList \/ fileEnd <= id) /\
  (forall id, mEnd - ovfFreed <= id < mEnd -> inl id newMeta) /\
  (* every page in use stays inside the file *)
  (forall id, id < mEnd -> ~ inl id newData -> ~ inl id newMeta -> id < fileEnd) /\
  (* both lists stay below the end markers they are stored with *)
  (forall id, inl id dataList -> id < dEnd2) /\
  (forall id, inl id metaList -> id < fileEnd) /\
  wfl lo metaList /\ wfl lo dataList /\
  (* the file never grows here, and shrinks only down to the limit *)
  fileEnd <= mEnd /\ (fileEnd < mEnd -> mx <> 0 /\ mx <= fileEnd) /\
  0 <= ovfFreed /\ 0 <= dataFreedN.
Proof.
  unfold commit_ends.
  destruct (release_overflow newMeta mx mEnd) as [ml of_] eqn:Em.
  destruct (release_overflow_spec _ lo _ _ _ _ Wm Hmlt Em) as (Hof & Hofmx & Wml & Hmset & Hmrun & _).
  set (newEnd := mEnd - of_) in *.
  set (dEnd1 := if (0 <? of_) && (dEnd <? mEnd) then newEnd else dEnd).
  set (mEnd1 := if 0 <? of_ then newEnd else mEnd).
  (* after the first step: used pages are below max dEnd1 mEnd1, the data list is below dEnd1 *)
  assert (Hd1: forall id, inl id newData -> id < dEnd1).
  { intros id H. unfold dEnd1. destruct ((0 <? of_) && (dEnd <? mEnd)) eqn:E; [|apply Hdlt; exact H].
    destruct (Z.lt_ge_cases id newEnd) as [Hl|Hg]; [exact Hl|]. exfalso.
    pose proof (Hdlt _ H). apply (Hdis id H). apply Hmrun. lia. }
  assert (Hu1: forall id, id < mEnd -> ~ inl id newMeta -> id < Z.max dEnd1 mEnd1).
  { intros id Hid Hn. destruct (Z.lt_ge_cases id newEnd) as [Hl|Hg].
    - unfold mEnd1. destruct (0 <? of_); lia.
    - exfalso. apply Hn. apply Hmrun. lia. }
  assert (Hm1: Z.max dEnd1 mEnd1 <= mEnd).
  { unfold dEnd1, mEnd1. destruct (0 <? of_) eqn:E1; destruct (dEnd <? mEnd) eqn:E2; cbn [andb]; lia. }
  assert (Hm1lim: Z.max dEnd1 mEnd1 < mEnd -> mx <> 0 /\ mx <= Z.max dEnd1 mEnd1).
  { unfold dEnd1, mEnd1. destruct (0 <? of_) eqn:E1; destruct (dEnd <? mEnd) eqn:E2; cbn [andb]; intros H; try lia;
      destruct (Hofmx ltac:(lia)); split; lia. }
  destruct (mEnd1 <=? dEnd1) eqn:Eg.
  - destruct (release_overflow newData mx dEnd1) as [dl df] eqn:Ed.
    destruct (release_overflow_spec _ lo _ _ _ _ Wd Hd1 Ed) as (Hdf & Hdfmx & Wdl & Hdset & Hdrun & _).
    intros [= <- <- <- <- <- <-]. cbv zeta.
    set (dEnd2 := dEnd1 - df) in *.
    set (mEnd2 := if (0 <? df) && (dEnd2 <=? mEnd1) then dEnd2 else mEnd1).
    (* with no overflow area behind the data area the file ends at the new data end marker *)
    assert (Hmax: Z.max dEnd2 mEnd2 = dEnd2).
    { unfold mEnd2, dEnd2 in *. destruct (0 <? df) eqn:E1; destruct (dEnd1 - df <=? mEnd1) eqn:E2; cbn [andb]; lia. }
    rewrite Hmax.
    (* the run [dEnd2, dEnd1) is free data, and nothing but free meta pages released above lies at or past dEnd1 *)
    assert (Hfree: forall id, dEnd2 <= id -> id < mEnd -> inl id newData \/ inl id newMeta).
    { intros id Hg Hid. destruct (Z.lt_ge_cases id dEnd1) as [Hl1|Hg1]; [left; apply Hdrun; unfold dEnd2 in Hg; lia|].
      right. destruct (Z.lt_ge_cases id newEnd) as [Hl|Hg2]; [|apply Hmrun; lia].
      exfalso. unfold mEnd1, dEnd1 in *. destruct (0 <? of_) eqn:E1; destruct (dEnd <? mEnd) eqn:E2; cbn [andb] in *; lia. }
    split; [exact Hmset|].
    split; [intros id H; apply Hdset in H; tauto|].
    split.
    { intros id H. destruct (Z.lt_ge_cases id dEnd2) as [Hl|Hg]; [left; apply Hdset; split; [exact H | exact Hl] | right; exact Hg]. }
    split; [exact Hmrun|].
    split.
    { intros id Hid Hnd Hnm. destruct (Z.lt_ge_cases id dEnd2) as [Hl|Hg]; [exact Hl|]. exfalso.
      destruct (Hfree id Hg Hid); contradiction. }
    split; [intros id H; apply Hdset in H; unfold dEnd2; tauto|].
    split.
    { intros id H. apply Hmset in H as [H Hid]. destruct (Z.lt_ge_cases id dEnd2) as [Hl|Hg]; [exact Hl|]. exfalso.
      fold newEnd in Hid. pose proof (Hmlt _ H) as Hlt.
      destruct (Z.lt_ge_cases id dEnd1) as [Hl1|Hg1]; [apply (Hdis id); [apply Hdrun; unfold dEnd2 in Hg; lia | exact H]|].
      unfold mEnd1, dEnd1 in *. destruct (0 <? of_) eqn:E1; destruct (dEnd <? mEnd) eqn:E2; cbn [andb] in *; lia. }
    split; [exact Wml|]. split; [exact Wdl|].
    split; [unfold dEnd2; lia|].
    split; [|split; [exact Hof | exact Hdf]].
    intros Hlt.
    destruct (Z.eq_dec df 0) as [Hz|Hnz].
    { assert (Hx: Z.max dEnd1 mEnd1 = dEnd2) by (unfold dEnd2; lia). rewrite <- Hx. apply Hm1lim. lia. }
    destruct (Hdfmx ltac:(lia)). unfold dEnd2. split; [assumption|lia].
  - intros [= <- <- <- <- <- <-]. cbv zeta. rewrite Z.sub_0_r. cbn [Z.ltb Z.compare andb].
    split; [exact Hmset|]. split; [auto|].
    split; [intros id H; left; exact H|].
    split; [exact Hmrun|].
    split; [intros id Hid _ Hnm; apply Hu1; assumption|].
    split; [exact Hd1|].
    split.
    { intros id H. apply Hmset in H as [H Hid]. fold newEnd in Hid. unfold mEnd1. destruct (0 <? of_) eqn:E1; [lia|].
      assert (of_ = 0) by lia. subst of_. unfold newEnd in *. lia. }
    split; [exact Wml|]. split; [exact Wd|]. split; [exact Hm1|]. split; [exact Hm1lim|]. split; [exact Hof | lia].
Qed.
End CommitEnds.

(* ---------- D18: the old tail of fileCommitAlloc ---------- *)
Definition commit_ends_old (newData newMeta : regions) (mx dEnd mEnd : Z) : regions * regions * Z * Z * Z * Z :=
  let '(metaList, ovfFreed) := release_overflow newMeta mx mEnd in
  let newEnd := mEnd - ovfFreed in
  let dEnd1 := if (0 <? ovfFreed) && (dEnd <? mEnd) then newEnd else dEnd in
  let mEnd1 := if 0 <? ovfFreed then newEnd else mEnd in
  let '(dataList, dataFreedN) := release_overflow newData mx dEnd1 in
  let dEnd2 := dEnd1 - dataFreedN in
  let mEnd2 := if (0 <? dataFreedN) && (dEnd2 <=? mEnd1) then dEnd2 else mEnd1 in
  (metaList, dataList, dEnd2, mEnd2, ovfFreed, dataFreedN).

(* limit 128 pages, data area [2,129), page 129 in use in the overflow area, page 128 freed by the transaction:
   the old code moved both end markers to 128 and left page 129 outside the file *)
Theorem commit_ends_old_refuted : exists newData newMeta mx dEnd mEnd,
  wfl 2 newData /\ wfl 2 newMeta /\ disjoint_l newData newMeta /\
  (forall id, inl id newData -> id < dEnd) /\ (forall id, inl id newMeta -> id < mEnd) /\ dEnd <= mEnd /\
  let '(_, _, dEnd2, mEnd2, _, _) := commit_ends_old newData newMeta mx dEnd mEnd in
  exists id, id < mEnd /\ ~ inl id newData /\ ~ inl id newMeta /\ ~ id < Z.max dEnd2 mEnd2.
Proof.
  exists [{| rid := 128; rcount := 1 |}], [], 128, 129, 130.
  split; [constructor; cbn; try lia; constructor|]. split; [constructor|].
  split; [intros id _ H; destruct (inl_nil _ H)|].
  split; [intros id H; apply inl_cons in H as [H|H]; [unfold inr, rend in H; cbn in H; lia | destruct (inl_nil _ H)]|].
  split; [intros id H; destruct (inl_nil _ H)|]. split; [lia|].
  assert (E: commit_ends_old [{| rid := 128; rcount := 1 |}] [] 128 129 130 = ([], [], 128, 128, 0, 1)) by (vm_compute; reflexivity).
  rewrite E. exists 129. split; [lia|].
  split; [intros H; apply inl_cons in H as [H|H]; [unfold inr, rend in H; cbn in H; lia | destruct (inl_nil _ H)]|].
  split; [apply inl_nil | lia].
Qed.

(* ---------- the data allocator on a file that is at or beyond its limit ---------- *)
Lemma data_alloc_cont_limit a t n r a' t' :
  0 < n -> 0 < maxPages a -> data_alloc_cont a t n = (r, a', t') ->
  a_end (data a') <= Z.max (a_end (data a)) (maxPages a) /\
  a_end (meta a') <= Z.max (a_end (meta a)) (maxPages a).
Proof.
  intros Hn Hmx. unfold data_alloc_cont.
  destruct (data_avail a <? n); [intros [= <- <- <-]; lia|].
  destruct (fl_alloc_cont false (a_free (data a)) n) as [[reg|] f'].
  - intros [= <- <- <-]. cbn. lia.
  - destruct ((0 <? maxPages a) && ((if a_end (data a) <? maxPages a then maxPages a - a_end (data a) else 0) <? n)) eqn:E2;
      [intros [= <- <- <-]; lia|].
    intros [= <- <- <-]. cbn [data meta a_end a_free set_data set_meta].
    destruct (a_end (data a) <? maxPages a) eqn:E3; destruct (a_end (meta a) <? a_end (data a) + n) eqn:E4; lia.
Qed.

Lemma data_alloc_regions_limit a t n regs cnt a' t' :
  0 < n -> 0 < maxPages a -> 0 <= avail (a_free (data a)) ->
  data_alloc_regions a t n = (regs, cnt, a', t') ->
  a_end (data a') <= Z.max (a_end (data a)) (maxPages a) /\
  a_end (meta a') <= Z.max (a_end (meta a)) (maxPages a).
Proof.
  intros Hn Hmx Hav. unfold data_alloc_regions.
  destruct (data_avail a <? n) eqn:Eav; [intros [= <- <- <- <-]; lia|].
  unfold alloc_from_freelist.
  destruct (fl_alloc_regions false (a_free (data a)) (Z.min n (avail (a_free (data a))))) as [regs1 f'].
  intros [= <- <- <- <-]. cbn [data meta a_end a_free maxPages set_data set_meta].
  unfold data_avail in Eav. replace (maxPages a =? 0) with false in Eav by lia.
  destruct (0 <? n - Z.min n (avail (a_free (data a)))) eqn:E1; cbn [andb]; [|lia].
  destruct (a_end (data a) <? maxPages a) eqn:E2;
    destruct (a_end (meta a) <? a_end (data a) + (n - Z.min n (avail (a_free (data a))))) eqn:E3; lia.
Qed.

(* D17: the old contiguous allocation computed maxPages - endMarker in unsigned 64-bit arithmetic *)
Definition data_area_avail_old (a : allocst) : Z := (maxPages a - a_end (data a)) mod 2^64.

Theorem data_area_avail_old_refuted : exists a,
  0 < maxPages a /\ maxPages a < a_end (data a) /\ 1 <= data_area_avail_old a.
Proof.
  exists {| maxPages := 128; pageSize := 1024; meta := {| a_end := 187; a_free := {| avail := 0; fregions := [] |} |};
            metaTotal := 6; data := {| a_end := 185; a_free := {| avail := 0; fregions := [] |} |}; flRoot := 186; flPages := [] |}.
  cbn [maxPages data a_end]. split; [lia|]. split; [lia|]. vm_compute. discriminate.
Qed.

(* the repaired tail on the state of commit_ends_old_refuted: nothing is released, page 129 stays inside *)
Example commit_ends_ex :
  commit_ends [{| rid := 128; rcount := 1 |}] [] 128 129 130 = ([], [{| rid := 128; rcount := 1 |}], 129, 130, 0, 0) /\
  (* no overflow area behind the data area: the free pages past the limit are released *)
  commit_ends [{| rid := 126; rcount := 4 |}] [{| rid := 100; rcount := 2 |}] 128 130 130
    = ([{| rid := 100; rcount := 2 |}], [{| rid := 126; rcount := 2 |}], 128, 128, 0, 2).
Proof. split; vm_compute; reflexivity. Qed.
