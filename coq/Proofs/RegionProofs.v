(* Region lists as sets of page ids: well-formedness (sorted, disjoint, positive counts) and the
   set semantics of the free-list operations. *)
From VF Require Import Region Freelist.
From Coq Require Import Lia.

Definition inr (id : Z) (r : region) : Prop := rid r <= id < rend r.
Definition inl (id : Z) (l : regions) : Prop := exists r, In r l /\ inr id r.

(* wfl lo l: every region has a positive count, starts at or after lo, and at or after the end of
   its predecessor (adjacent regions are allowed: lists need not be merged) *)
Inductive wfl : Z -> regions -> Prop :=
| wfl_nil lo : wfl lo []
| wfl_cons lo r l : lo <= rid r -> 0 < rcount r -> wfl (rend r) l -> wfl lo (r :: l).

Lemma wfl_weaken lo lo' l : lo' <= lo -> wfl lo l -> wfl lo' l.
Proof. intros H W. destruct W; constructor; auto; lia. Qed.

Lemma inl_nil id : ~ inl id [].
Proof. intros [r [[] _]]. Qed.

Lemma inl_cons id r l : inl id (r :: l) <-> inr id r \/ inl id l.
Proof.
  split.
  - intros [x [[->|Hin] Hr]]; [left; exact Hr | right; exists x; auto].
  - intros [H|[x [Hin Hr]]]; [exists r; split; [left; reflexivity|exact H] | exists x; split; [right; exact Hin|exact Hr]].
Qed.

Lemma inl_app id a b : inl id (a ++ b) <-> inl id a \/ inl id b.
Proof.
  induction a as [|r a IH]; cbn [app].
  - split; [right; assumption | intros [H|H]; [destruct (inl_nil _ H)|exact H]].
  - rewrite !inl_cons, IH. tauto.
Qed.

Lemma wfl_lower lo l id : wfl lo l -> inl id l -> lo <= id.
Proof.
  intros W. revert id. induction W as [|lo r l Hlo Hc W IH]; intros id H.
  - destruct (inl_nil _ H).
  - apply inl_cons in H as [H|H]; [unfold inr in H; lia|].
    specialize (IH _ H). unfold rend in IH. lia.
Qed.

Lemma wfl_head_not_in_tail lo r l id : wfl lo (r :: l) -> inr id r -> ~ inl id l.
Proof.
  intros W Hr Hl. inversion W as [|? ? ? Hlo Hc Wl]; subst. pose proof (wfl_lower _ _ _ Wl Hl). unfold inr in Hr. lia.
Qed.

(* count_pages *)
Lemma count_pages_acc l : forall acc, fold_left (fun a r => a + rcount r) l acc = acc + count_pages l.
Proof.
  unfold count_pages. induction l as [|r l IH]; intros acc; cbn [fold_left]; [lia|].
  rewrite IH, (IH (0 + rcount r)). lia.
Qed.
Lemma count_pages_cons r l : count_pages (r :: l) = rcount r + count_pages l.
Proof. unfold count_pages at 1. cbn [fold_left]. rewrite count_pages_acc. lia. Qed.
Lemma count_pages_nil : count_pages [] = 0. Proof. reflexivity. Qed.
Lemma count_pages_app a b : count_pages (a ++ b) = count_pages a + count_pages b.
Proof. induction a as [|r a IH]; cbn [app]; [rewrite count_pages_nil; lia|]. rewrite !count_pages_cons, IH. lia. Qed.
Lemma count_pages_nonneg lo l : wfl lo l -> 0 <= count_pages l.
Proof. induction 1; [rewrite count_pages_nil; lia | rewrite count_pages_cons; lia]. Qed.

(* ---------- take_front (allocFromBeginning) ---------- *)
Lemma take_front_spec : forall l lo N a rest,
  wfl lo l -> 0 < N <= count_pages l -> take_front l N = (a, rest) ->
  wfl lo a /\ (exists hi, wfl hi rest /\ (forall id, inl id a -> id < hi) /\ lo <= hi) /\
  count_pages a = N /\ count_pages rest = count_pages l - N /\
  (forall id, inl id l <-> inl id a \/ inl id rest).
Proof.
  induction l as [|r l IH]; intros lo N a rest W HN E.
  - rewrite count_pages_nil in HN. lia.
  - inversion W as [|? ? ? Hlo Hc Wl]; subst. cbn [take_front] in E.
    rewrite count_pages_cons in HN.
    destruct (N <=? rcount r) eqn:EN.
    + injection E as <- <-.
      assert (HN': N <= rcount r) by lia.
      split; [constructor; cbn; auto; try lia; constructor|].
      split.
      { exists (rid r + N). split; [|split].
        - destruct (rcount r - N =? 0) eqn:Ez.
          + apply wfl_weaken with (rend r); [unfold rend; lia|exact Wl].
          + constructor; cbn; try lia. unfold rend in *. cbn. replace (rid r + N + (rcount r - N)) with (rid r + rcount r) by lia. exact Wl.
        - intros id H. apply inl_cons in H as [H|H]; [unfold inr, rend in H; cbn in H; lia | destruct (inl_nil _ H)].
        - lia. }
      split; [rewrite count_pages_cons, count_pages_nil; cbn; lia|].
      split.
      { destruct (rcount r - N =? 0) eqn:Ez; [rewrite count_pages_cons; lia|].
        rewrite !count_pages_cons. cbn. lia. }
      intros id. rewrite !inl_cons. unfold inr, rend. cbn.
      destruct (rcount r - N =? 0) eqn:Ez.
      * assert (rcount r = N) by lia. subst N. split.
        -- intros [H|H]; [left; left; lia | right; exact H].
        -- intros [[H|H]|H]; [left; lia | destruct (inl_nil _ H) | right; exact H].
      * rewrite inl_cons. unfold inr, rend. cbn.
        split.
        -- intros [H|H]; [|right; right; exact H].
           destruct (Z_lt_ge_dec id (rid r + N)); [left; left; lia | right; left; lia].
        -- intros [[H|H]|[H|H]]; [left; lia | destruct (inl_nil _ H) | left; lia | right; exact H].
    + destruct (take_front l (N - rcount r)) as [a' rest'] eqn:E'. injection E as <- <-.
      assert (HN': 0 < N - rcount r <= count_pages l) by lia.
      destruct (IH (rend r) (N - rcount r) a' rest' Wl HN' E') as (Wa & (hi & Wr & Hhi & Hle) & Ca & Cr & Hset).
      split; [constructor; auto|].
      split.
      { exists hi. split; [exact Wr|]. split.
        - intros id H. apply inl_cons in H as [H|H]; [unfold inr, rend in *; lia | auto].
        - unfold rend in Hle. lia. }
      split; [rewrite count_pages_cons; lia|].
      split; [rewrite count_pages_cons; lia|].
      intros id. rewrite !inl_cons, Hset. tauto.
Qed.

(* what was handed out is no longer in the free list *)
Lemma take_front_disjoint l lo N a rest :
  wfl lo l -> 0 < N <= count_pages l -> take_front l N = (a, rest) ->
  forall id, inl id a -> ~ inl id rest.
Proof.
  intros W HN E id Ha Hr.
  destruct (take_front_spec l lo N a rest W HN E) as (_ & (hi & Wr & Hhi & _) & _).
  pose proof (Hhi _ Ha). pose proof (wfl_lower _ _ _ Wr Hr). lia.
Qed.
