(* Region lists as sets of page ids: well-formedness (sorted, disjoint, positive counts) and the
   set semantics of the free-list operations. *)
From VF Require Import Region Freelist.
From Coq Require Import Lia ZifyBool.

Definition inr (id : Z) (r : region) : Prop := rid r <= id < rend r.
Definition inl (id : Z) (l : regions) : Prop := exists r, In r l /\ inr id r.

(* wfl lo l: every region has a positive count, starts at or after lo, and at or after the end of
   its predecessor (adjacent regions are allowed: lists need not be merged) *)
Inductive wfl : Z -> regions -> Prop :=
| wfl_nil lo : wfl lo []
| wfl_cons lo r l : lo <= rid r -> 0 < rcount r < 2^32 -> wfl (rend r) l -> wfl lo (r :: l).

Lemma wfl_weaken lo lo' l : lo' <= lo -> wfl lo l -> wfl lo' l.
Proof. intros H W. destruct W; constructor; auto; lia. Qed.

Lemma inl_nil id : ~ inl id [].
Proof. intros [r [[] _]]. Qed.

Lemma inl_cons id r l : inl id (r :: l) <-> inr id r \/ inl id l.
Proof.
  split.
  - intros [x [[->|Hin] Hr]]; [left; exact Hr | right; exists x; auto].
  - intros [H|[x [Hin Hr]]]; [exists r; split; [left; reflexivity|exact H] | exists x; split; [right; exact Hin|exact Hr]].
Qed.

Lemma inl_app id a b : inl id (a ++ b) <-> inl id a \/ inl id b.
Proof.
  induction a as [|r a IH]; cbn [app].
  - split; [right; assumption | intros [H|H]; [destruct (inl_nil _ H)|exact H]].
  - rewrite !inl_cons, IH. tauto.
Qed.

Lemma wfl_lower lo l id : wfl lo l -> inl id l -> lo <= id.
Proof.
  intros W. revert id. induction W as [|lo r l Hlo Hc W IH]; intros id H.
  - destruct (inl_nil _ H).
  - apply inl_cons in H as [H|H]; [unfold inr in H; lia|].
    specialize (IH _ H). unfold rend in IH. lia.
Qed.

Lemma wfl_head_not_in_tail lo r l id : wfl lo (r :: l) -> inr id r -> ~ inl id l.
Proof.
  intros W Hr Hl. inversion W as [|? ? ? Hlo Hc Wl]; subst. pose proof (wfl_lower _ _ _ Wl Hl). unfold inr in Hr. lia.
Qed.

(* count_pages *)
Lemma count_pages_acc l : forall acc, fold_left (fun a r => a + rcount r) l acc = acc + count_pages l.
Proof.
  unfold count_pages. induction l as [|r l IH]; intros acc; cbn [fold_left]; [lia|].
  rewrite IH, (IH (0 + rcount r)). lia.
Qed.
Lemma count_pages_cons r l : count_pages (r :: l) = rcount r + count_pages l.
Proof. unfold count_pages at 1. cbn [fold_left]. rewrite count_pages_acc. lia. Qed.
Lemma count_pages_nil : count_pages [] = 0. Proof. reflexivity. Qed.
Lemma count_pages_app a b : count_pages (a ++ b) = count_pages a + count_pages b.
Proof. induction a as [|r a IH]; cbn [app]; [rewrite count_pages_nil; lia|]. rewrite !count_pages_cons, IH. lia. Qed.
Lemma count_pages_nonneg lo l : wfl lo l -> 0 <= count_pages l.
Proof. induction 1; [rewrite count_pages_nil; lia | rewrite count_pages_cons; lia]. Qed.

(* ---------- take_front (allocFromBeginning) ---------- *)
Lemma take_front_spec : forall l lo N a rest,
  wfl lo l -> 0 < N <= count_pages l -> take_front l N = (a, rest) ->
  wfl lo a /\ (exists hi, wfl hi rest /\ (forall id, inl id a -> id < hi) /\ lo <= hi) /\
  count_pages a = N /\ count_pages rest = count_pages l - N /\
  (forall id, inl id l <-> inl id a \/ inl id rest).
Proof.
  induction l as [|r l IH]; intros lo N a rest W HN E.
  - rewrite count_pages_nil in HN. lia.
  - inversion W as [|? ? ? Hlo Hc Wl]; subst. cbn [take_front] in E.
    rewrite count_pages_cons in HN.
    destruct (N <=? rcount r) eqn:EN.
    + injection E as <- <-.
      assert (HN': N <= rcount r) by lia.
      split; [constructor; cbn; auto; try lia; constructor|].
      split.
      { exists (rid r + N). split; [|split].
        - destruct (rcount r - N =? 0) eqn:Ez.
          + apply wfl_weaken with (rend r); [unfold rend; lia|exact Wl].
          + constructor; cbn; try lia. unfold rend in *. cbn. replace (rid r + N + (rcount r - N)) with (rid r + rcount r) by lia. exact Wl.
        - intros id H. apply inl_cons in H as [H|H]; [unfold inr, rend in H; cbn in H; lia | destruct (inl_nil _ H)].
        - lia. }
      split; [rewrite count_pages_cons, count_pages_nil; cbn; lia|].
      split.
      { destruct (rcount r - N =? 0) eqn:Ez; [rewrite count_pages_cons; lia|].
        rewrite !count_pages_cons. cbn. lia. }
      intros id. rewrite !inl_cons. unfold inr, rend. cbn.
      destruct (rcount r - N =? 0) eqn:Ez.
      * assert (rcount r = N) by lia. subst N. split.
        -- intros [H|H]; [left; left; lia | right; exact H].
        -- intros [[H|H]|H]; [left; lia | destruct (inl_nil _ H) | right; exact H].
      * rewrite inl_cons. unfold inr, rend. cbn.
        split.
        -- intros [H|H]; [|right; right; exact H].
           destruct (Z_lt_ge_dec id (rid r + N)); [left; left; lia | right; left; lia].
        -- intros [[H|H]|[H|H]]; [left; lia | destruct (inl_nil _ H) | left; lia | right; exact H].
    + destruct (take_front l (N - rcount r)) as [a' rest'] eqn:E'. injection E as <- <-.
      assert (HN': 0 < N - rcount r <= count_pages l) by lia.
      destruct (IH (rend r) (N - rcount r) a' rest' Wl HN' E') as (Wa & (hi & Wr & Hhi & Hle) & Ca & Cr & Hset).
      split; [constructor; auto|].
      split.
      { exists hi. split; [exact Wr|]. split.
        - intros id H. apply inl_cons in H as [H|H]; [unfold inr, rend in *; lia | auto].
        - unfold rend in Hle. lia. }
      split; [rewrite count_pages_cons; lia|].
      split; [rewrite count_pages_cons; lia|].
      intros id. rewrite !inl_cons, Hset. tauto.
Qed.

(* what was handed out is no longer in the free list *)
Lemma take_front_disjoint l lo N a rest :
  wfl lo l -> 0 < N <= count_pages l -> take_front l N = (a, rest) ->
  forall id, inl id a -> ~ inl id rest.
Proof.
  intros W HN E id Ha Hr.
  destruct (take_front_spec l lo N a rest W HN E) as (_ & (hi & Wr & Hhi & _) & _).
  pose proof (Hhi _ Ha). pose proof (wfl_lower _ _ _ Wr Hr). lia.
Qed.

(* ---------- take_back (allocFromEnd) ---------- *)
Lemma take_back_spec : forall l lo N a k,
  wfl lo l -> 0 < N <= count_pages l -> take_back l N = (a, k) ->
  wfl lo k /\ (exists mid, wfl mid a /\ (forall id, inl id k -> id < mid) /\ lo <= mid) /\
  count_pages a = N /\ count_pages k = count_pages l - N /\
  (forall id, inl id l <-> inl id a \/ inl id k).
Proof.
  induction l as [|r l IH]; intros lo N a k W HN E.
  - rewrite count_pages_nil in HN. lia.
  - inversion W as [|? ? ? Hlo Hc Wl]; subst. cbn [take_back] in E.
    rewrite count_pages_cons in HN.
    destruct (N <=? count_pages l) eqn:EN.
    + destruct (take_back l N) as [a' k'] eqn:E'. injection E as <- <-.
      assert (HN': 0 < N <= count_pages l) by lia.
      destruct (IH (rend r) N a' k' Wl HN' E') as (Wk & (mid & Wa & Hmid & Hle) & Ca & Ck & Hset).
      split; [constructor; auto|].
      split.
      { exists mid. split; [exact Wa|]. split.
        - intros id H. apply inl_cons in H as [H|H]; [unfold inr in H; lia | auto].
        - unfold rend in Hle. lia. }
      split; [exact Ca|]. split; [rewrite !count_pages_cons; lia|].
      intros id. rewrite !inl_cons, Hset. tauto.
    + injection E as <- <-.
      set (m := N - count_pages l) in *.
      assert (Hm: 0 < m <= rcount r) by (unfold m; lia).
      split.
      { destruct (rcount r - m =? 0) eqn:Ez; [constructor|]. constructor; cbn; try lia. constructor. }
      split.
      { exists (rid r + (rcount r - m)). split; [|split].
        - constructor; cbn; try lia. unfold rend in *. cbn.
          replace (rid r + (rcount r - m) + m) with (rid r + rcount r) by lia. exact Wl.
        - intros id H. destruct (rcount r - m =? 0) eqn:Ez; [destruct (inl_nil _ H)|].
          apply inl_cons in H as [H|H]; [unfold inr, rend in H; cbn in H; lia | destruct (inl_nil _ H)].
        - lia. }
      split; [rewrite count_pages_cons; cbn; unfold m; lia|].
      split.
      { rewrite (count_pages_cons r l).
        destruct (rcount r - m =? 0) eqn:Ez; [rewrite count_pages_nil; unfold m in *; lia|].
        rewrite count_pages_cons, count_pages_nil. cbn. unfold m. lia. }
      intros id. rewrite !inl_cons. unfold inr, rend. cbn.
      destruct (rcount r - m =? 0) eqn:Ez.
      * assert (Hrm: rcount r = m) by lia. split.
        -- intros [H|H]; [left; left; lia | left; right; exact H].
        -- intros [[H|H]|H]; [left; lia | right; exact H | destruct (inl_nil _ H)].
      * rewrite inl_cons. unfold inr, rend. cbn. split.
        -- intros [H|H]; [|left; right; exact H].
           destruct (Z_lt_ge_dec id (rid r + (rcount r - m))); [right; left; lia | left; left; lia].
        -- intros [[H|H]|[H|H]]; [left; lia | right; exact H | left; lia | destruct (inl_nil _ H)].
Qed.

Lemma take_back_disjoint l lo N a k :
  wfl lo l -> 0 < N <= count_pages l -> take_back l N = (a, k) ->
  forall id, inl id a -> ~ inl id k.
Proof.
  intros W HN E id Ha Hk.
  destruct (take_back_spec l lo N a k W HN E) as (_ & (mid & Wa & Hmid & _) & _).
  pose proof (Hmid _ Hk). pose proof (wfl_lower _ _ _ Wa Ha). lia.
Qed.

(* ---------- freelist.AllocRegionsWith ---------- *)
Definition wff (lo : Z) (f : freelist) : Prop := wfl lo (fregions f) /\ avail f = count_pages (fregions f).

Theorem fl_alloc_regions_spec fromEnd lo f n a f' :
  wff lo f -> 0 <= n -> fl_alloc_regions fromEnd f n = (a, f') ->
  wff lo f' /\ wfl lo a /\
  (n <= avail f -> count_pages a = n /\ avail f' = avail f - n) /\
  (avail f < n -> a = [] /\ f' = f) /\
  (forall id, inl id (fregions f) <-> inl id a \/ inl id (fregions f')) /\
  (forall id, inl id a -> ~ inl id (fregions f')).
Proof.
  intros [W Hav] Hn. unfold fl_alloc_regions.
  destruct (n =? 0) eqn:E0; cbn [orb].
  - intros [= <- <-]. assert (n = 0) by lia. subst n.
    split; [split; assumption|]. split; [constructor|].
    split; [intros _; rewrite count_pages_nil; lia|]. split; [intros _; split; reflexivity|].
    split; [intros id; split; [right; assumption | intros [H|H]; [destruct (inl_nil _ H)|exact H]] | intros id H; destruct (inl_nil _ H)].
  - destruct (avail f <? n) eqn:Ea.
    + intros [= <- <-].
      split; [split; assumption|]. split; [constructor|].
      split; [intros; lia|]. split; [auto|].
      split; [intros id; split; [right; assumption | intros [H|H]; [destruct (inl_nil _ H)|exact H]] | intros id H; destruct (inl_nil _ H)].
    + assert (HN: 0 < n <= count_pages (fregions f)) by lia.
      destruct fromEnd.
      * destruct (take_back (fregions f) n) as [a0 k] eqn:E. intros [= <- <-]. cbn [avail fregions].
        destruct (take_back_spec _ lo n a0 k W HN E) as (Wk & (mid & Wa & Hmid & Hle) & Ca & Ck & Hset).
        split; [split; cbn [avail fregions]; [exact Wk | lia]|].
        split; [apply wfl_weaken with mid; assumption|].
        split; [intros _; split; [exact Ca | lia]|]. split; [intros; lia|].
        split; [exact Hset|]. apply (take_back_disjoint _ lo n a0 k W HN E).
      * destruct (take_front (fregions f) n) as [a0 rest] eqn:E. intros [= <- <-]. cbn [avail fregions].
        destruct (take_front_spec _ lo n a0 rest W HN E) as (Wa & (hi & Wr & Hhi & Hle) & Ca & Cr & Hset).
        split; [split; cbn [avail fregions]; [apply wfl_weaken with hi; assumption | lia]|].
        split; [exact Wa|].
        split; [intros _; split; [exact Ca | lia]|]. split; [intros; lia|].
        split; [exact Hset|]. apply (take_front_disjoint _ lo n a0 rest W HN E).
Qed.

(* ---------- mergeable / merge ---------- *)
Lemma mergeable_spec a b : rid a < rid b -> 0 < rcount a < 2^32 -> 0 < rcount b < 2^32 ->
  mergeable a b = true -> rend a = rid b /\ rcount a + rcount b < 2^32.
Proof.
  intros Hlt Ha Hb. unfold mergeable.
  replace (rid a <? rid b) with true by lia.
  intros H. apply andb_prop in H as [H1 H2]. split; [lia|].
  destruct (Z_lt_ge_dec (rcount a + rcount b) (2^32)) as [|Hge]; [assumption|].
  exfalso. assert ((rcount a + rcount b) mod 2^32 = rcount a + rcount b - 2^32).
  { symmetry. apply Z.mod_unique with 1; lia. }
  lia.
Qed.

Lemma mergeable_sym a b : rid a <> rid b -> mergeable a b = mergeable b a.
Proof.
  intros Hne. unfold mergeable.
  destruct (rid a <? rid b) eqn:E1, (rid b <? rid a) eqn:E2; try reflexivity; lia.
Qed.

Lemma merge_spec a b : rend a = rid b -> 0 <= rcount a -> 0 <= rcount b -> rcount a + rcount b < 2^32 ->
  rid (merge a b) = rid a /\ rcount (merge a b) = rcount a + rcount b /\ rend (merge a b) = rend b.
Proof.
  intros H Ha Hb Hs. unfold merge, rend in *. cbn. rewrite Z.mod_small by lia. lia.
Qed.

(* ---------- freelist.AddRegion ---------- *)
Lemma add_region_spec : forall l lo reg,
  wfl lo l -> lo <= rid reg -> 0 < rcount reg < 2^32 ->
  (forall id, inr id reg -> ~ inl id l) ->
  wfl lo (add_region_l l reg) /\
  (forall id, inl id (add_region_l l reg) <-> inr id reg \/ inl id l) /\
  count_pages (add_region_l l reg) = count_pages l + rcount reg.
Proof.
  induction l as [|r l IH]; intros lo reg W Hlo Hc Hdis.
  - cbn [add_region_l]. split; [constructor; auto; constructor|]. split; [intros id; rewrite inl_cons; tauto|].
    rewrite count_pages_cons, !count_pages_nil. lia.
  - inversion W as [|? ? ? Hlor Hcr Wl]; subst.
    (* reg and r are disjoint *)
    assert (Hnr: rend reg <= rid r \/ rend r <= rid reg).
    { destruct (Z_le_gt_dec (rend reg) (rid r)); [left; assumption|].
      destruct (Z_le_gt_dec (rend r) (rid reg)); [right; assumption|]. exfalso.
      apply (Hdis (Z.max (rid reg) (rid r))); [unfold inr, rend in *; lia|].
      apply inl_cons. left. unfold inr, rend in *. lia. }
    assert (Hdisl: forall id, inr id reg -> ~ inl id l).
    { intros id H Hl. apply (Hdis id H). apply inl_cons. right. exact Hl. }
    cbn [add_region_l].
    destruct (rid reg <? rend r) eqn:E1.
    + (* reg goes before r *)
      assert (Hbefore: rend reg <= rid r) by (unfold rend in *; lia).
      destruct (mergeable reg r) eqn:Em.
      * apply mergeable_spec in Em; try lia; [|unfold rend in *; lia].
        destruct Em as [Hadj Hsum].
        destruct (merge_spec reg r Hadj ltac:(lia) ltac:(lia) Hsum) as (Mi & Mc & Me).
        split; [constructor; try lia; rewrite Me; exact Wl|].
        split.
        -- intros id. rewrite !inl_cons. unfold inr. rewrite Mi, Me. unfold rend in *. split; [intros [H|H]|intros [H|[H|H]]]; try tauto; try lia.
           all: try (destruct (Z_lt_ge_dec id (rid r)); [left; lia | right; left; lia]).
        -- rewrite !count_pages_cons. lia.
      * split; [constructor; auto; constructor; auto; lia|].
        split; [intros id; rewrite !inl_cons; tauto|].
        rewrite !count_pages_cons. lia.
    + (* reg starts at or after the end of r *)
      assert (Hafter: rend r <= rid reg) by lia.
      destruct l as [|r2 tl].
      * destruct (mergeable r reg) eqn:Em.
        -- apply mergeable_spec in Em; try lia; [|unfold rend in *; lia].
           destruct Em as [Hadj Hsum].
           destruct (merge_spec r reg Hadj ltac:(lia) ltac:(lia) Hsum) as (Mi & Mc & Me).
           split; [constructor; try lia; constructor|].
           split.
           ++ intros id. rewrite !inl_cons. unfold inr. rewrite Mi, Me. unfold rend in *.
              split; [intros [H|H]|intros [H|[H|H]]]; try tauto; try lia; try (destruct (inl_nil _ H)).
              all: try (destruct (Z_lt_ge_dec id (rid reg)); [right; left; lia | left; lia]).
           ++ rewrite !count_pages_cons, !count_pages_nil. lia.
        -- split; [constructor; auto; constructor; auto; constructor|].
           split; [intros id; rewrite !inl_cons; tauto|].
           rewrite !count_pages_cons, !count_pages_nil. lia.
      * inversion Wl as [|? ? ? Hlo2 Hc2 Wtl]; subst.
        destruct (rid reg <? rend r2) eqn:E2.
        -- (* between r and r2 *)
           assert (Hb2: rend reg <= rid r2).
           { destruct (Z_le_gt_dec (rend reg) (rid r2)); [assumption|]. exfalso.
             apply (Hdisl (Z.max (rid reg) (rid r2))); [unfold inr, rend in *; lia|].
             apply inl_cons. left. unfold inr, rend in *. lia. }
           destruct (mergeable r reg) eqn:Emb.
           ++ apply mergeable_spec in Emb; try lia; [|unfold rend in *; lia].
              destruct Emb as [Hadj Hsum].
              destruct (merge_spec r reg Hadj ltac:(lia) ltac:(lia) Hsum) as (Mi & Mc & Me).
              destruct (mergeable (merge r reg) r2) eqn:Ema.
              ** apply mergeable_spec in Ema; try lia; [|unfold rend in *; lia].
                 destruct Ema as [Hadj2 Hsum2].
                 destruct (merge_spec (merge r reg) r2 Hadj2 ltac:(lia) ltac:(lia) Hsum2) as (Ni & Nc & Ne).
                 split; [constructor; try lia; rewrite Ne; exact Wtl|].
                 split.
                 --- intros id. rewrite !inl_cons. unfold inr. rewrite Ni, Ne, Mi. unfold rend in *.
                     split; [intros [H|H]|intros [H|[H|[H|H]]]]; try tauto; try lia.
                     all: try (destruct (Z_lt_ge_dec id (rid reg)); [right; left; lia|]).
                     all: try (destruct (Z_lt_ge_dec id (rid r2)); [left; lia | right; right; left; lia]).
                 --- rewrite !count_pages_cons. lia.
              ** split; [constructor; try lia; rewrite Me; constructor; auto|].
                 split.
                 --- intros id. rewrite !inl_cons. unfold inr. rewrite Mi, Me. unfold rend in *.
                     split; [intros [H|[H|H]]|intros [H|[H|[H|H]]]]; try tauto; try lia.
                     all: try (destruct (Z_lt_ge_dec id (rid reg)); [right; left; lia | left; lia]).
                 --- rewrite !count_pages_cons. lia.
           ++ destruct (mergeable reg r2) eqn:Ema.
              ** apply mergeable_spec in Ema; try lia; [|unfold rend in *; lia].
                 destruct Ema as [Hadj2 Hsum2].
                 destruct (merge_spec reg r2 Hadj2 ltac:(lia) ltac:(lia) Hsum2) as (Ni & Nc & Ne).
                 split; [constructor; auto; constructor; try lia; rewrite Ne; exact Wtl|].
                 split.
                 --- intros id. rewrite !inl_cons. unfold inr. rewrite Ni, Ne. unfold rend in *.
                     split; [intros [H|[H|H]]|intros [H|[H|[H|H]]]]; try tauto; try lia.
                     all: try (destruct (Z_lt_ge_dec id (rid r2)); [left; lia | right; right; left; lia]).
                 --- rewrite !count_pages_cons. lia.
              ** split; [constructor; auto; constructor; auto; constructor; auto; lia|].
                 split; [intros id; rewrite !inl_cons; tauto|].
                 rewrite !count_pages_cons. lia.
        -- (* further right: recurse on the tail *)
           destruct (IH (rend r) reg Wl Hafter Hc Hdisl) as (W' & Hset & Hcnt).
           split; [constructor; auto|].
           split; [intros id; rewrite !inl_cons, Hset, !inl_cons; tauto|].
           rewrite !count_pages_cons in *. lia.
Qed.

(* ---------- freelist.RemoveRegion ---------- *)
Lemma remove_range_spec : forall l lo rs re l' t,
  wfl lo l -> remove_range l rs re = (l', t) ->
  wfl lo l' /\
  (forall id, inl id l' <-> inl id l /\ ~ (rs <= id < re)) /\
  count_pages l' = count_pages l - t /\ 0 <= t.
Proof.
  induction l as [|cur tl IH]; intros lo rs re l' t W E.
  - cbn in E. injection E as <- <-. split; [constructor|]. split; [|rewrite count_pages_nil; lia].
    intros id. split; [intros H; destruct (inl_nil _ H) | intros [H _]; exact H].
  - inversion W as [|? ? ? Hlo Hc Wtl]; subst. cbn [remove_range] in E.
    destruct (re <=? rs) eqn:E0.
    { injection E as <- <-. split; [exact W|]. split; [intros id; split; [intros H; split; [exact H|lia] | tauto] | lia]. }
    set (rs1 := Z.max rs (rid cur)) in *.
    destruct (re <=? rs1) eqn:E1.
    { injection E as <- <-. split; [exact W|]. split; [|lia].
      intros id. split; [|tauto]. intros H. split; [exact H|].
      apply inl_cons in H as [H|H]; [unfold inr in H | pose proof (wfl_lower _ _ _ Wtl H); unfold rend in *]; unfold rs1 in *; lia. }
    destruct (rs1 =? rid cur) eqn:E2.
    + (* removal starts at the beginning of cur *)
      set (c := Z.min (re - rs1) (rcount cur)) in *.
      destruct (remove_range tl (rs1 + c) re) as [tl' t'] eqn:Er.
      assert (Wtl': wfl (rend cur) tl) by exact Wtl.
      destruct (IH (rend cur) (rs1 + c) re tl' t' Wtl Er) as (W' & Hset & Hcnt & Ht).
      assert (Hc1: 0 < c <= rcount cur) by (unfold c, rs1 in *; lia).
      destruct (rcount cur - c =? 0) eqn:Ez; cbn [rcount] in E; rewrite Ez in E; injection E as <- <-.
      * split; [apply wfl_weaken with (rend cur); [unfold rend; lia | exact W']|].
        split.
        -- intros id. rewrite Hset, inl_cons. unfold inr, rend in *. unfold rs1 in *.
           split.
           ++ intros [H Hn]. split; [right; exact H|]. pose proof (wfl_lower _ _ _ Wtl H). unfold rend in *. lia.
           ++ intros [[H|H] Hn]; [exfalso; lia|]. split; [exact H|]. pose proof (wfl_lower _ _ _ Wtl H). unfold rend in *. lia.
        -- rewrite count_pages_cons. lia.
      * split.
        { constructor; cbn; try lia. unfold rend in *. cbn. replace (rid cur + c + (rcount cur - c)) with (rid cur + rcount cur) by lia. exact W'. }
        split.
        -- intros id. rewrite !inl_cons, Hset. unfold inr, rend in *. cbn. unfold rs1, c in *.
           split.
           ++ intros [H|[H Hn]]; [split; [left; lia | lia]|]. split; [right; exact H|].
              pose proof (wfl_lower _ _ _ Wtl H). unfold rend in *. lia.
           ++ intros [[H|H] Hn]; [left; lia|]. right. split; [exact H|].
              pose proof (wfl_lower _ _ _ Wtl H). unfold rend in *. lia.
        -- rewrite !count_pages_cons. cbn. lia.
    + (* removal starts inside or after cur *)
      set (keep := rs1 - rid cur) in *.
      assert (Hkeep: 0 < keep) by (unfold keep, rs1 in *; lia).
      destruct (rcount cur <=? keep) eqn:E3.
      * destruct (remove_range tl rs1 re) as [tl' t'] eqn:Er. injection E as <- <-.
        destruct (IH (rend cur) rs1 re tl' t' Wtl Er) as (W' & Hset & Hcnt & Ht).
        split; [constructor; auto|].
        split.
        -- intros id. rewrite !inl_cons, Hset. unfold inr, rend in *. unfold keep, rs1 in *.
           split.
           ++ intros [H|[H Hn]]; [split; [left; exact H | lia] | split; [right; exact H|]].
              pose proof (wfl_lower _ _ _ Wtl H). unfold rend in *. lia.
           ++ intros [[H|H] Hn]; [left; exact H | right; split; [exact H|]].
              pose proof (wfl_lower _ _ _ Wtl H). unfold rend in *. lia.
        -- rewrite !count_pages_cons. lia.
      * set (lc := rcount cur - keep) in *.
        set (c := Z.min (re - rs1) lc) in *.
        assert (Hc1: 0 < c <= lc) by (unfold c, lc, keep, rs1 in *; lia).
        cbn [rcount] in E.
        destruct (0 <? lc - c) eqn:E4.
        -- injection E as <- <-.
           split.
           { constructor; cbn; try lia. constructor; cbn; unfold rend; cbn; try (unfold lc, keep in *; lia).
             unfold rend in *. cbn. replace (rs1 + c + (lc - c)) with (rid cur + rcount cur) by (unfold lc, keep; lia). exact Wtl. }
           split.
           ++ intros id. rewrite !inl_cons. unfold inr, rend in *. cbn. unfold c, lc, keep, rs1 in *.
              split.
              ** intros [H|[H|H]]; [split; [left; lia | lia] | split; [left; lia | lia] | split; [right; exact H|]].
                 pose proof (wfl_lower _ _ _ Wtl H). unfold rend in *. lia.
              ** intros [[H|H] Hn]; [|right; right; exact H].
                 destruct (Z_lt_ge_dec id (Z.max rs (rid cur))); [left; lia | right; left; lia].
           ++ rewrite !count_pages_cons. cbn. unfold lc, keep. lia.
        -- destruct (remove_range tl (rs1 + c) re) as [tl' t'] eqn:Er. injection E as <- <-.
           destruct (IH (rend cur) (rs1 + c) re tl' t' Wtl Er) as (W' & Hset & Hcnt & Ht).
           assert (Hlc: c = lc) by lia.
           split.
           { constructor; cbn; try lia. apply wfl_weaken with (rend cur); [unfold rend; cbn; unfold keep; lia | exact W']. }
           split.
           ++ intros id. rewrite !inl_cons, Hset. unfold inr, rend in *. cbn. unfold c, lc, keep, rs1 in *.
              split.
              ** intros [H|[H Hn]]; [split; [left; lia | lia] | split; [right; exact H|]].
                 pose proof (wfl_lower _ _ _ Wtl H). unfold rend in *. lia.
              ** intros [[H|H] Hn]; [left; lia | right; split; [exact H|]].
                 pose proof (wfl_lower _ _ _ Wtl H). unfold rend in *. lia.
           ++ rewrite !count_pages_cons. cbn. unfold lc, keep in *. lia.
Qed.

(* ---------- MergeAdjacent / mergeRegionLists ---------- *)
Lemma merge_adjacent_from_spec : forall l lo cur,
  wfl lo (cur :: l) ->
  wfl lo (merge_adjacent_from cur l) /\
  (forall id, inl id (merge_adjacent_from cur l) <-> inl id (cur :: l)) /\
  count_pages (merge_adjacent_from cur l) = count_pages (cur :: l).
Proof.
  induction l as [|r l IH]; intros lo cur W.
  - cbn. split; [exact W|]. split; [tauto|reflexivity].
  - inversion W as [|? ? ? Hlo Hc Wl]; subst. inversion Wl as [|? ? ? Hlo2 Hc2 Wl2]; subst.
    cbn [merge_adjacent_from].
    destruct (mergeable cur r) eqn:Em.
    + apply mergeable_spec in Em; try lia; [|unfold rend in *; lia].
      destruct Em as [Hadj Hsum].
      destruct (merge_spec cur r Hadj ltac:(lia) ltac:(lia) Hsum) as (Mi & Mc & Me).
      assert (W': wfl lo (merge cur r :: l)) by (constructor; try lia; rewrite Me; exact Wl2).
      destruct (IH lo (merge cur r) W') as (W2 & Hset & Hcnt).
      split; [exact W2|]. split.
      * intros id. rewrite Hset, !inl_cons. unfold inr. rewrite Mi, Me. unfold rend in *.
        split; [intros [H|H]|intros [H|[H|H]]]; try tauto; try lia.
        all: try (destruct (Z_lt_ge_dec id (rid r)); [left; lia | right; left; lia]).
      * rewrite Hcnt, !count_pages_cons. lia.
    + destruct (IH (rend cur) r Wl) as (W2 & Hset & Hcnt).
      split; [constructor; auto|]. split.
      * intros id. rewrite inl_cons, Hset, !inl_cons. tauto.
      * rewrite !count_pages_cons in *. lia.
Qed.

Lemma merge_adjacent_spec l lo : wfl lo l ->
  wfl lo (merge_adjacent l) /\ (forall id, inl id (merge_adjacent l) <-> inl id l) /\
  count_pages (merge_adjacent l) = count_pages l.
Proof.
  destruct l as [|r l]; intros W; [cbn; split; [exact W|split; [tauto|reflexivity]]|].
  apply merge_adjacent_from_spec. exact W.
Qed.

(* merge of two well-formed, mutually disjoint lists *)
Definition disjoint_l (a b : regions) : Prop := forall id, inl id a -> inl id b -> False.

Lemma merge_sorted_nil_r a : merge_sorted a [] = a.
Proof. destruct a; reflexivity. Qed.

Lemma merge_sorted_cons x a y b :
  merge_sorted (x :: a) (y :: b) = if rid x <? rid y then x :: merge_sorted a (y :: b) else y :: merge_sorted (x :: a) b.
Proof. reflexivity. Qed.

Lemma regions_disjoint_order x y : 0 < rcount x -> 0 < rcount y ->
  (forall id, inr id x -> inr id y -> False) -> rend x <= rid y \/ rend y <= rid x.
Proof.
  intros Hx Hy H.
  destruct (Z_le_gt_dec (rend x) (rid y)); [left; assumption|].
  destruct (Z_le_gt_dec (rend y) (rid x)); [right; assumption|]. exfalso.
  apply (H (Z.max (rid x) (rid y))); unfold inr, rend in *; lia.
Qed.

Lemma merge_sorted_spec : forall a b lo,
  wfl lo a -> wfl lo b -> disjoint_l a b ->
  wfl lo (merge_sorted a b) /\
  (forall id, inl id (merge_sorted a b) <-> inl id a \/ inl id b) /\
  count_pages (merge_sorted a b) = count_pages a + count_pages b.
Proof.
  induction a as [|x a IHa].
  - intros b lo _ Wb _. assert (E: merge_sorted [] b = b) by (destruct b; reflexivity). rewrite E.
    split; [exact Wb|]. split; [intros id; split; [right; assumption | intros [H|H]; [destruct (inl_nil _ H)|exact H]] | rewrite count_pages_nil; lia].
  - induction b as [|y b IHb]; intros lo Wa Wb Hd.
    + rewrite merge_sorted_nil_r. split; [exact Wa|]. split; [|rewrite count_pages_nil; lia].
      intros id. split; [left; assumption | intros [H|H]; [exact H | destruct (inl_nil _ H)]].
    + rewrite merge_sorted_cons.
      inversion Wa as [|? ? ? Hlox Hcx Wa']; subst. inversion Wb as [|? ? ? Hloy Hcy Wb']; subst.
      assert (Hxy: rend x <= rid y \/ rend y <= rid x).
      { apply regions_disjoint_order; try lia. intros id Hx Hy. apply (Hd id); apply inl_cons; left; assumption. }
      destruct (rid x <? rid y) eqn:E.
      * assert (Hb: rend x <= rid y) by (unfold rend in *; lia).
        assert (Hd': disjoint_l a (y :: b)).
        { intros id H1 H2. apply (Hd id); [apply inl_cons; right; exact H1 | exact H2]. }
        assert (Wb2: wfl (rend x) (y :: b)) by (constructor; auto).
        destruct (IHa (y :: b) (rend x) Wa' Wb2 Hd') as (W & Hset & Hcnt).
        split; [constructor; auto|]. split.
        -- intros id. rewrite inl_cons, Hset, !inl_cons. tauto.
        -- rewrite !count_pages_cons in *. lia.
      * assert (Hb: rend y <= rid x).
        { destruct Hxy as [H|H]; [|exact H]. unfold rend in *. lia. }
        assert (Hd': disjoint_l (x :: a) b).
        { intros id H1 H2. apply (Hd id); [exact H1 | apply inl_cons; right; exact H2]. }
        assert (Wa2: wfl (rend y) (x :: a)) by (constructor; auto).
        destruct (IHb (rend y) Wa2 Wb' Hd') as (W & Hset & Hcnt).
        split; [constructor; auto|]. split.
        -- intros id. rewrite inl_cons, Hset, !inl_cons. tauto.
        -- rewrite !count_pages_cons in *. lia.
Qed.

Theorem merge_region_lists_spec a b lo :
  wfl lo a -> wfl lo b -> disjoint_l a b ->
  wfl lo (merge_region_lists a b) /\
  (forall id, inl id (merge_region_lists a b) <-> inl id a \/ inl id b) /\
  count_pages (merge_region_lists a b) = count_pages a + count_pages b.
Proof.
  intros Wa Wb Hd. unfold merge_region_lists.
  destruct (merge_sorted_spec a b lo Wa Wb Hd) as (W & Hset & Hcnt).
  destruct (merge_adjacent_spec _ lo W) as (W2 & Hset2 & Hcnt2).
  split; [exact W2|]. split; [intros id; rewrite Hset2; apply Hset | lia].
Qed.

(* ---------- page sets as region lists (pageSet.Regions) ---------- *)
Inductive sorted_from : Z -> list Z -> Prop :=
| sf_nil lo : sorted_from lo []
| sf_cons lo x s : lo <= x -> sorted_from (x + 1) s -> sorted_from lo (x :: s).

Lemma sorted_from_weaken lo lo' s : lo' <= lo -> sorted_from lo s -> sorted_from lo' s.
Proof. intros H S. destruct S; constructor; auto; lia. Qed.

Lemma set_add_sorted : forall s lo x, sorted_from lo s -> lo <= x -> sorted_from lo (set_add x s).
Proof.
  induction s as [|y s IH]; intros lo x S Hx; cbn [set_add].
  - constructor; auto. constructor.
  - inversion S as [|? ? ? Hy S']; subst.
    destruct (x <? y) eqn:E1; [constructor; auto; constructor; try lia; exact S'|].
    destruct (x =? y) eqn:E2; [exact S|].
    constructor; auto. apply IH; [exact S'|lia].
Qed.

Lemma set_add_in : forall s x y, In y (set_add x s) <-> y = x \/ In y s.
Proof.
  induction s as [|z s IH]; intros x y; cbn [set_add].
  - cbn. intuition congruence.
  - destruct (x <? z) eqn:E1; [cbn; intuition congruence|].
    destruct (x =? z) eqn:E2.
    + assert (x = z) by lia. subst. cbn. intuition congruence.
    + cbn [In]. rewrite IH. intuition congruence.
Qed.

Lemma set_mem_in : forall s x, set_mem x s = true <-> In x s.
Proof.
  induction s as [|y s IH]; intros x; cbn [set_mem In]; [split; [discriminate|tauto]|].
  rewrite orb_true_iff, IH. split; [intros [H|H]; [left; lia | right; exact H] | intros [H|H]; [left; lia | right; exact H]].
Qed.

Definition single (id : Z) : region := {| rid := id; rcount := 1 |}.

Lemma singles_wfl : forall s lo, sorted_from lo s -> wfl lo (map single s).
Proof.
  induction s as [|x s IH]; intros lo S; cbn [map]; [constructor|].
  inversion S; subst. constructor; cbn; try lia. unfold rend; cbn. apply IH. assumption.
Qed.

Lemma singles_inl s id : inl id (map single s) <-> In id s.
Proof.
  induction s as [|x s IH]; cbn [map In].
  - split; [intros H; destruct (inl_nil _ H) | tauto].
  - rewrite inl_cons, IH. unfold inr, rend, single. cbn. split; [intros [H|H]; [left; lia | right; exact H] | intros [H|H]; [left; lia | right; exact H]].
Qed.

Lemma singles_count s : count_pages (map single s) = Z.of_nat (length s).
Proof. induction s as [|x s IH]; cbn [map length]; [reflexivity|]. rewrite count_pages_cons, IH. cbn [rcount single]. lia. Qed.

(* insertion sort leaves an already sorted list alone *)
Lemma insert_region_sorted r l lo : wfl lo (r :: l) -> insert_region r l = r :: l.
Proof.
  intros W. destruct l as [|x l]; [reflexivity|]. cbn [insert_region].
  inversion W as [|? ? ? _ Hc Wl]; subst. inversion Wl; subst. unfold rend in *.
  replace (rid r <? rid x) with true by lia. reflexivity.
Qed.

Lemma sort_regions_sorted : forall l lo, wfl lo l -> sort_regions l = l.
Proof.
  induction l as [|r l IH]; intros lo W; [reflexivity|].
  inversion W as [|? ? ? _ _ Wl]; subst. unfold sort_regions in *. cbn [fold_right].
  rewrite (IH _ Wl). eapply insert_region_sorted; eauto.
Qed.

Theorem ids_regions_spec s lo : sorted_from lo s ->
  wfl lo (ids_regions s) /\ (forall id, inl id (ids_regions s) <-> In id s) /\
  count_pages (ids_regions s) = Z.of_nat (length s).
Proof.
  intros S. unfold ids_regions, optimize.
  change (map (fun id => {| rid := id; rcount := 1 |}) s) with (map single s).
  pose proof (singles_wfl s lo S) as W. rewrite (sort_regions_sorted _ lo W).
  destruct (merge_adjacent_spec _ lo W) as (W2 & Hset & Hcnt).
  split; [exact W2|]. split; [intros id; rewrite Hset; apply singles_inl | rewrite Hcnt; apply singles_count].
Qed.

(* ---------- filter on sorted id sets ---------- *)
Lemma sorted_from_filter (f : Z -> bool) : forall s lo, sorted_from lo s -> sorted_from lo (filter f s).
Proof.
  induction s as [|x s IH]; intros lo S; cbn [filter]; [constructor|].
  inversion S as [|? ? ? Hx S']; subst.
  destruct (f x); [constructor; auto|]. apply sorted_from_weaken with (x + 1); [lia|]. apply IH. exact S'.
Qed.

(* ---------- freelist.AddRegions / RemoveRegion at the free-list level ---------- *)
Theorem fl_add_regions_spec f l lo : wff lo f -> wfl lo l -> disjoint_l (fregions f) l ->
  wff lo (fl_add_regions f l) /\
  (forall id, inl id (fregions (fl_add_regions f l)) <-> inl id (fregions f) \/ inl id l) /\
  avail (fl_add_regions f l) = avail f + count_pages l.
Proof.
  intros [W Hav] Wl Hd. unfold fl_add_regions.
  destruct (0 <? count_pages l) eqn:E.
  - destruct (merge_region_lists_spec _ _ lo W Wl Hd) as (W2 & Hset & Hcnt). cbn [fregions avail].
    split; [split; cbn [fregions avail]; [exact W2 | lia]|]. split; [exact Hset | reflexivity].
  - assert (l = []).
    { destruct l as [|r l]; [reflexivity|]. inversion Wl; subst. rewrite count_pages_cons in E.
      pose proof (count_pages_nonneg _ _ H4). lia. }
    subst l. split; [split; assumption|]. split; [|rewrite count_pages_nil; lia].
    intros id. split; [left; assumption | intros [H|H]; [exact H | destruct (inl_nil _ H)]].
Qed.

Theorem fl_remove_region_spec f reg lo : wff lo f ->
  wff lo (fl_remove_region f reg) /\
  (forall id, inl id (fregions (fl_remove_region f reg)) <-> inl id (fregions f) /\ ~ inr id reg).
Proof.
  intros [W Hav]. unfold fl_remove_region.
  destruct (remove_range (fregions f) (rid reg) (rend reg)) as [l t] eqn:E.
  destruct (remove_range_spec _ lo _ _ _ _ W E) as (W2 & Hset & Hcnt & Ht). cbn [fregions avail].
  split; [split; cbn [fregions avail]; [exact W2 | lia]|]. exact Hset.
Qed.

Theorem fl_add_region_spec f reg lo : wff lo f -> lo <= rid reg -> 0 < rcount reg < 2^32 ->
  (forall id, inr id reg -> ~ inl id (fregions f)) ->
  wff lo (fl_add_region f reg) /\
  (forall id, inl id (fregions (fl_add_region f reg)) <-> inr id reg \/ inl id (fregions f)) /\
  avail (fl_add_region f reg) = avail f + rcount reg.
Proof.
  intros [W Hav] Hlo Hc Hd. unfold fl_add_region. cbn [fregions avail].
  destruct (add_region_spec _ lo reg W Hlo Hc Hd) as (W2 & Hset & Hcnt).
  split; [split; cbn [fregions avail]; [exact W2 | lia]|]. split; [exact Hset | reflexivity].
Qed.
