(* The writer as a whole: scheduling queue (WriterQueue) + batch execution (Writer: stable sort by page id inside a
   batch). For every interleaving of Schedule / Sync with nextCommand calls of any buffer sizes, at every moment: the
   events executed so far are a PREFIX of the schedule (writes and syncs in scheduling order) and the disk holds, for
   every page, the last write of that prefix. Hence when a sync is executed every write scheduled before it is on
   the disk and none scheduled after it - the barrier the commit protocol needs (C01), and queued writes to one page
   land in schedule order (C03). *)
From VF Require Import Writer WriterProofs WriterQueue WriterQueueProofs.
From Coq Require Import Lia.

Fixpoint writes_of (l : list (ev wmsg)) : list wmsg :=
  match l with
  | [] => []
  | EW m :: r => m :: writes_of r
  | ES :: r => writes_of r
  end.

Lemma writes_of_app a b : writes_of (a ++ b) = writes_of a ++ writes_of b.
Proof. induction a as [|[m|] a IH]; cbn; [reflexivity | rewrite IH; reflexivity | exact IH]. Qed.

Lemma writes_of_cmd taken b : writes_of (cmd_events taken b) = taken.
Proof.
  unfold cmd_events. rewrite writes_of_app. destruct b; cbn; rewrite app_nil_r;
    induction taken as [|m t IH]; cbn; congruence.
Qed.

(* the page writes of the commands, in order, are the writes of the executed events *)
Lemma cmds_writes : forall ops (s : wq wmsg),
  concat (map fst (wq_cmds s ops)) = writes_of (snd (fst (wq_run s ops))).
Proof.
  induction ops as [|o ops IH]; intros s; cbn [wq_cmds wq_run]; [reflexivity|].
  destruct o as [id| |B].
  - rewrite IH. destruct (wq_run (wq_schedule s id) ops) as [[s' out] inp]. reflexivity.
  - rewrite IH. destruct (wq_run (wq_sync s) ops) as [[s' out] inp]. reflexivity.
  - destruct (wq_next B s) as [[[taken b] s1]|]; [|apply IH].
    cbn [map fst concat]. rewrite IH. destruct (wq_run s1 ops) as [[s' out] inp]. cbn [fst snd].
    rewrite writes_of_app, writes_of_cmd. reflexivity.
Qed.

Definition run_cmds (d : disk) (cmds : list (list wmsg * bool)) : disk := run_batches d (map fst cmds).

Theorem writer_executes_a_prefix_of_the_schedule ops :
  buffers_ok ops ->
  let '(s', out, inp) := wq_run wq_init ops in
  (exists rest, inp = out ++ rest) /\
  (forall d p, run_cmds d (wq_cmds wq_init ops) p = spec_disk d (writes_of out) p) /\
  (remaining s' = [] -> out = inp).
Proof.
  intros Hb. pose proof (executed_is_schedule ops Hb) as H. pose proof (cmds_writes ops wq_init) as Hc.
  destruct (wq_run wq_init ops) as [[s' out] inp]. cbn [fst snd] in Hc. destruct H as [E Hd].
  split; [exists (remaining s'); symmetry; exact E|].
  split; [|exact Hd].
  intros d p. unfold run_cmds. rewrite writer_last_write_wins, Hc. reflexivity.
Qed.
