(* The disk events of a commit (Model/Commit.v) follow the write discipline: for every monitor state between two
   commits and every commit whose page writes stay off the pages the committed state can reach, the monitor accepts
   the whole sequence, and the state it then protects is exactly the one the commit serialised (mapping, free lists,
   root, end markers). With the crash theorem (Proofs/CrashInst.v) this composes to: a commit of the model is atomic
   at every crash point. *)
From VF Require Import Commit Crash CrashInst PagesProofs MetaProofs.
From Coq Require Import Lia ZifyBool.

Notation mapply := (apply cell).

Lemma apply_app_ws (a b : list (Z * cell)) d : mapply (a ++ b) d = mapply b (mapply a d).
Proof. revert d. induction a as [|[p c] a IH]; intros d; cbn [apply app]; [reflexivity | apply IH]. Qed.

Lemma apply_nodup_in : forall (ws : list (Z * cell)) d p c,
  NoDup (map fst ws) -> In (p, c) ws -> mapply ws d p = c.
Proof.
  induction ws as [|[q c0] ws IH]; intros d p c Hnd Hin; [destruct Hin|].
  cbn [map fst] in Hnd. inversion Hnd as [|? ? Hnotin Hnd']; subst. cbn [apply].
  destruct Hin as [[= -> ->]|Hin].
  - rewrite (apply_other cell); [unfold upd; rewrite Z.eqb_refl; reflexivity|].
    intros w Hw Heq. apply Hnotin. rewrite <- Heq. apply in_map. exact Hw.
  - apply IH; assumption.
Qed.

(* the page ids the paging writer fills are the ids it was given, in order *)
Lemma link_pages_ids ps : forall ids gs pages, link_pages ps ids gs = Some pages -> map fst pages = ids.
Proof.
  induction ids as [|id ids IH]; intros gs pages; cbn [link_pages].
  - destruct gs as [|[|] [|]]; intros [= <-]; reflexivity.
  - destruct gs as [|g gs']; (destruct (link_pages ps ids _) as [rest|] eqn:E; [|discriminate]); intros [= <-]; cbn [map fst]; f_equal; eapply IH; exact E.
Qed.

Lemma write_list_ids ps ids es pages : write_list ps ids es = Some pages -> map fst pages = ids.
Proof. unfold write_list. destruct ids as [|i ids]; [intros [= <-]; reflexivity|]. apply link_pages_ids. Qed.

Lemma split_entries_lists (ml dl : regions) :
  split_entries (map (pair true) ml ++ map (pair false) dl) = (ml, dl).
Proof.
  unfold split_entries. rewrite !filter_app, !map_app.
  assert (A1 : forall l : regions, map snd (filter (fun e => fst e) (map (pair true) l)) = l)
    by (induction l as [|x l IH]; cbn; [reflexivity | f_equal; exact IH]).
  assert (A2 : forall l : regions, map snd (filter (fun e => fst e) (map (pair false) l)) = [])
    by (induction l as [|x l IH]; cbn; auto).
  assert (A3 : forall l : regions, map snd (filter (fun e => negb (fst e)) (map (pair true) l)) = [])
    by (induction l as [|x l IH]; cbn; auto).
  assert (A4 : forall l : regions, map snd (filter (fun e => negb (fst e)) (map (pair false) l)) = l)
    by (induction l as [|x l IH]; cbn; [reflexivity | f_equal; exact IH]).
  rewrite A1, A2, A3, A4, app_nil_r. reflexivity.
Qed.

Definition cw (w : Z * page) : Z * cell := (fst w, Some (snd w)).

Section Commit.
Variable fuel : nat.
Notation mstep := (mon_step fuel).
Notation mrun := (mon_run fuel).

(* page writes of the transaction: accepted one by one, they join the pending writes *)
Lemma run_data_writes : forall (ws : list (Z * page)) (m : mon) rest,
  infl m = None -> Forall (fun w => 2 <= fst w /\ ~ In (fst w) (cfp m)) ws ->
  mrun m (map wev ws ++ rest) =
  mrun {| dd := dd m; pend := pend m ++ map cw ws; act := act m; txid := txid m; cst := cst m; cfp := cfp m; infl := None |} rest.
Proof.
  induction ws as [|w ws IH]; intros m rest Hinfl Hok; cbn [map app].
  - rewrite app_nil_r. destruct m; cbn in *; subst; reflexivity.
  - inversion Hok as [|? ? [Hge Hnot] Hok']; subst.
    unfold mon_run, run; fold (run cell header view hdr_of (chase_full fuel) nxt_txid). unfold wev at 1. cbn [step].
    assert (E1 : fst w =? slotp (negb (act m)) = false) by (destruct (act m); cbn; lia).
    assert (E2 : fst w =? slotp (act m) = false) by (destruct (act m); cbn; lia).
    assert (E3 : fst w <? 2 = false) by lia.
    rewrite E1, E2, E3, Hinfl.
    assert (E4 : existsb (Z.eqb (fst w)) (cfp m) = false).
    { destruct (existsb (Z.eqb (fst w)) (cfp m)) eqn:E; [|reflexivity]. apply existsb_exists in E.
      destruct E as (x & Hx & Hxe). apply Z.eqb_eq in Hxe. subst x. contradiction. }
    rewrite E4. fold (mon_run fuel).
    rewrite IH; cbn [infl cfp]; [|reflexivity|exact Hok']. cbn [dd pend act txid cst cfp].
    rewrite <- app_assoc. reflexivity.
Qed.

Theorem commit_accepted (m : mon) ps sched walIds mapping flIds metaL dataL h evs :
  infl m = None ->
  commit_events ps (negb (act m)) sched walIds mapping flIds metaL dataL h = Some evs ->
  (* where the commit writes: not the header pages, not a page the committed state can reach *)
  Forall (fun w => 2 <= fst w /\ ~ In (fst w) (cfp m)) sched ->
  Forall (fun id => 2 <= id < 2^64 /\ ~ In id (cfp m)) (walIds ++ flIds) ->
  NoDup (walIds ++ flIds) ->
  (forall w, In w (pend m) -> ~ In (fst w) (walIds ++ flIds)) ->
  (forall w, In w sched -> ~ In (fst w) (walIds ++ flIds)) ->
  (* the new header: next transaction id, the roots of the two new chains *)
  header_ok h -> h_magic h = magic -> h_version h = version -> h_txid h = nxt_txid (txid m) ->
  h_wal h = hd 0 walIds -> h_freelist h = hd 0 flIds ->
  (walIds = [] -> mapping = []) -> (flIds = [] -> metaL = [] /\ dataL = []) ->
  (* what is serialised can be encoded *)
  Forall (fun kv => 0 <= fst kv < 2^56 /\ 0 <= snd kv < 2^56) mapping -> Z.of_nat (length mapping) < 2^32 ->
  Forall valid_region metaL -> Forall valid_region dataL -> Z.of_nat (length metaL + length dataL) < 2^32 ->
  (length walIds <= fuel)%nat -> (length flIds <= fuel)%nat ->
  exists m', mrun m evs = Some m' /\
    act m' = negb (act m) /\ txid m' = nxt_txid (txid m) /\ infl m' = None /\ pend m' = [] /\
    let st := fst (cst m') in
    r_wal st = mapping /\ r_walpages st = walIds /\ r_flpages st = flIds /\
    r_metaFree st = optimize metaL /\ r_dataFree st = optimize dataL /\
    r_root st = h_root h /\ r_txid st = h_txid h /\ r_dataEnd st = h_dataEnd h /\ r_metaEnd st = h_metaEnd h /\
    r_metaTotal st = h_metaTotal h /\ r_maxSize st = h_maxSize h.
Proof.
  intros Hinfl Hev Hsched Hids Hnd Hpend Hschedids Hok Hmag Hver Htx Hwal Hfl Hw0 Hf0 Hmap Hmaplen Hml Hdl Hlen Hfw Hff.
  unfold commit_events in Hev.
  destruct (write_wal ps walIds mapping) as [wp|] eqn:Ewp; [|discriminate].
  destruct (write_freelists ps flIds metaL dataL) as [fp|] eqn:Efp; [|discriminate].
  injection Hev as <-.
  assert (Hwpids : map fst wp = walIds) by (eapply write_list_ids; exact Ewp).
  assert (Hfpids : map fst fp = flIds) by (eapply write_list_ids; exact Efp).
  apply Forall_app in Hids. destruct Hids as [HidsW HidsF].
  (* the three groups of page writes *)
  rewrite run_data_writes; [|exact Hinfl|exact Hsched].
  rewrite run_data_writes; cbn [infl cfp]; [|reflexivity|].
  2:{ apply Forall_forall. intros w Hw. rewrite Forall_forall in HidsW.
      assert (Hin : In (fst w) walIds) by (rewrite <- Hwpids; apply in_map; exact Hw).
      destruct (HidsW _ Hin) as [[H1 _] H2]. split; [exact H1|exact H2]. }
  rewrite run_data_writes; cbn [infl cfp]; [|reflexivity|].
  2:{ apply Forall_forall. intros w Hw. rewrite Forall_forall in HidsF.
      assert (Hin : In (fst w) flIds) by (rewrite <- Hfpids; apply in_map; exact Hw).
      destruct (HidsF _ Hin) as [[H1 _] H2]. split; [exact H1|exact H2]. }
  cbn [dd pend act txid cst cfp].
  set (P0 := ((pend m ++ map cw sched) ++ map cw wp) ++ map cw fp).
  set (d1 := mapply P0 (dd m)).
  (* the disk after the first sync holds the new chains *)
  assert (Hmeta : forall id pg, In (id, pg) (wp ++ fp) -> d1 id = Some pg).
  { intros id pg Hin. unfold d1, P0. rewrite <- !app_assoc, app_assoc, apply_app_ws.
    apply apply_nodup_in.
    - rewrite map_app, !map_map. cbn [cw fst]. change (fun x : Z * page => fst x) with (@fst Z page). rewrite Hwpids, Hfpids. exact Hnd.
    - rewrite <- map_app. change (id, Some pg) with (cw (id, pg)). apply in_map. exact Hin. }
  set (h' := decode_header (encode_header h)).
  destruct (header_roundtrip h Hok) as (_ & _ & _ & Hmax' & _ & Hroot' & Htx' & Hfl' & Hwal' & Hde' & Hme' & Hmt').
  fold h' in Hmax', Hroot', Htx', Hfl', Hwal', Hde', Hme', Hmt'.
  assert (Hrw : read_wal fuel d1 (h_wal h') = Some (walIds, mapping)).
  { rewrite Hwal', Hwal. destruct walIds as [|w0 wr] eqn:Ew.
    - rewrite (Hw0 eq_refl). cbn [hd]. destruct fuel; reflexivity.
    - rewrite <- Ew in *. apply (wal_pages_roundtrip ps walIds mapping wp d1 fuel); try assumption.
      + rewrite Ew. discriminate.
      + eapply Forall_impl; [|exact HidsW]. intros a [Ha _]. lia.
      + intros id pg Hin. apply Hmeta. apply in_or_app. left. exact Hin. }
  assert (Hrf : read_freelist fuel d1 (h_freelist h') = Some (flIds, map (pair true) metaL ++ map (pair false) dataL)).
  { rewrite Hfl', Hfl. destruct flIds as [|f0 fr] eqn:Ef.
    - destruct (Hf0 eq_refl) as [-> ->]. cbn [hd map app]. destruct fuel; reflexivity.
    - rewrite <- Ef in *. apply (freelist_pages_roundtrip ps flIds metaL dataL fp d1 fuel); try assumption.
      + rewrite Ef. discriminate.
      + eapply Forall_impl; [|exact HidsF]. intros a [Ha _]. lia.
      + intros id pg Hin. apply Hmeta. apply in_or_app. right. exact Hin. }
  assert (Hge2 : all_ge2 (walIds ++ flIds) = true).
  { unfold all_ge2. apply forallb_forall. intros x Hx. apply in_app_or in Hx.
    rewrite Forall_forall in HidsW, HidsF. destruct Hx as [Hx|Hx]; [destruct (HidsW _ Hx) as [[? _] _] | destruct (HidsF _ Hx) as [[? _] _]]; lia. }
  destruct (chase_full fuel d1 h') as [[v fp']|] eqn:Ech.
  2:{ exfalso. unfold chase_full, chase in Ech. rewrite Hrw, Hrf, split_entries_lists in Ech. rewrite Hge2 in Ech. discriminate. }
  assert (Hst : fst v = {| r_root := h_root h'; r_txid := h_txid h'; r_maxSize := h_maxSize h';
                           r_wal := mapping; r_walpages := walIds; r_flpages := flIds;
                           r_metaFree := optimize metaL; r_dataFree := optimize dataL;
                           r_dataEnd := h_dataEnd h'; r_metaEnd := h_metaEnd h'; r_metaTotal := h_metaTotal h' |}).
  { unfold chase_full, chase in Ech. rewrite Hrw, Hrf, split_entries_lists in Ech. rewrite Hge2 in Ech. cbn [negb] in Ech.
    injection Ech as <- _. reflexivity. }
  (* sync, header, sync, return *)
  assert (Hvalid : hdr_of (Some (encode_header h)) = Some (nxt_txid (txid m), h')).
  { unfold hdr_of. rewrite (finalized_header_valid h Hok Hmag Hver). fold h'. rewrite Htx', Htx. reflexivity. }
  unfold mon_run, run, step. cbn [dd pend act txid cst cfp infl].
  fold P0. fold d1.
  rewrite Z.eqb_refl. rewrite Hvalid, Z.eqb_refl. fold (chase_full fuel). rewrite Ech.
  cbn [dd pend act txid cst cfp infl].
  eexists. split; [reflexivity|]. cbn [act txid infl pend cst fst].
  rewrite Hst. cbn [r_wal r_walpages r_flpages r_metaFree r_dataFree r_root r_txid r_dataEnd r_metaEnd r_metaTotal r_maxSize].
  repeat split; assumption.
Qed.


Lemma mon_run_app : forall a (m : mon) b m', mrun m (a ++ b) = Some m' -> exists m1, mrun m a = Some m1 /\ mrun m1 b = Some m'.
Proof.
  induction a as [|e a IH]; intros m b m' H; cbn [app] in H.
  - exists m. split; [reflexivity | exact H].
  - unfold mon_run in *. cbn [run] in *. destruct (step cell header view hdr_of (chase_full fuel) nxt_txid m e) as [m2|]; [|discriminate].
    apply IH. exact H.
Qed.

(* until Commit returns, the protected state is the one of the previous commit *)
Lemma run_keeps_cst : forall es (m m1 : mon), Forall (fun e => e <> CommitOk) es -> mrun m es = Some m1 ->
  cst m1 = cst m /\ act m1 = act m /\ txid m1 = txid m.
Proof.
  induction es as [|e es IH]; intros m m1 Hne H; unfold mon_run in *; cbn [run] in H.
  - injection H as <-. auto.
  - inversion Hne as [|? ? He Hne']; subst.
    destruct (step cell header view hdr_of (chase_full fuel) nxt_txid m e) as [m2|] eqn:Es; [|discriminate].
    destruct (IH m2 m1 Hne' H) as (H1 & H2 & H3). rewrite H1, H2, H3. clear - Es He.
    destruct e as [p c| |]; [| |contradiction]; cbn [step] in Es.
    + destruct (p =? slotp (negb (act m))).
      * destruct (infl m); [discriminate|]. destruct (pend m); [|discriminate]. destruct (hdr_of c) as [[t h0]|]; [|discriminate].
        destruct (t =? nxt_txid (txid m)); [|discriminate]. destruct (chase_full fuel (dd m) h0) as [[st fp]|]; [|discriminate].
        injection Es as <-. auto.
      * destruct (p =? slotp (act m)); [discriminate|]. destruct (p <? 2); [discriminate|]. destruct (infl m); [discriminate|].
        destruct (existsb (Z.eqb p) (cfp m)); [discriminate|]. injection Es as <-. auto.
    + injection Es as <-. auto.
Qed.

End Commit.
