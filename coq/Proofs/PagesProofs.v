(* Linked meta pages: what the paging writer writes is what the readers of the open path read back
   (free lists and overwrite mapping, any number of pages, also pre-allocated pages that stay empty). *)
From VF Require Import Region Freelist Pages BytesProofs CodecProofs.
From Coq Require Import Lia ZifyBool.

(* ---------- entries ---------- *)
Definition valid_region (r : region) : Prop := 1 <= rcount r < 2^32 /\ 0 <= rid r < 2^55.
Definition enc_entry (e : bool * region) : list Z := encode_region (fst e) (snd e).

Lemma enc_entry_length e : valid_region (snd e) -> (8 <= length (enc_entry e))%nat /\
  Z.of_nat (length (enc_entry e)) = region_enc_size (snd e).
Proof.
  intros [Hc Hi]. destruct (region_roundtrip (fst e) (snd e) [] Hc Hi) as [_ Hl].
  unfold enc_entry. split; [|exact Hl]. unfold region_enc_size in Hl. destruct (rcount (snd e) <? entryOverflow); lia.
Qed.

Lemma decode_entries_concat : forall es rest,
  Forall (fun e => valid_region (snd e)) es ->
  decode_entries (length es) (concat (map enc_entry es) ++ rest) = Some es.
Proof.
  induction es as [|e es IH]; intros rest Hv; [reflexivity|].
  inversion Hv as [|? ? He Hes]; subst.
  cbn [length decode_entries map concat]. rewrite <- app_assoc.
  destruct (enc_entry_length e He) as [H8 Hl].
  destruct He as [Hc Hi].
  destruct (region_roundtrip (fst e) (snd e) (concat (map enc_entry es) ++ rest) Hc Hi) as [Hd _].
  fold (enc_entry e) in Hd.
  replace ((length (enc_entry e ++ concat (map enc_entry es) ++ rest) <? 8)%nat) with false
    by (rewrite app_length; symmetry; apply Nat.ltb_ge; lia).
  rewrite Hd.
  replace ((length (enc_entry e ++ concat (map enc_entry es) ++ rest) <? Z.to_nat (region_enc_size (snd e)))%nat) with false
    by (rewrite app_length; symmetry; apply Nat.ltb_ge; lia).
  replace (Z.to_nat (region_enc_size (snd e))) with (length (enc_entry e)) by lia.
  rewrite skipn_app, skipn_all, Nat.sub_diag. cbn [app skipn].
  rewrite (IH rest Hes). destruct e; reflexivity.
Qed.

Lemma decode_wal_entries_concat : forall kvs rest,
  Forall (fun kv => 0 <= fst kv < 2^56 /\ 0 <= snd kv < 2^56) kvs ->
  decode_wal_entries (length kvs) (concat (map wal_entry kvs) ++ rest) = Some kvs.
Proof.
  induction kvs as [|[k v] kvs IH]; intros rest Hv; [reflexivity|].
  inversion Hv as [|? ? [Hk Hvv] Hes]; subst. cbn [fst snd] in *.
  cbn [length decode_wal_entries map concat]. rewrite <- app_assoc.
  assert (Hl: length (wal_entry (k, v)) = 14%nat) by (unfold wal_entry; rewrite app_length, !le_encode_length; reflexivity).
  replace ((length (wal_entry (k, v) ++ concat (map wal_entry kvs) ++ rest) <? 14)%nat) with false
    by (rewrite app_length; symmetry; apply Nat.ltb_ge; lia).
  assert (Hsk: skipn 14 (wal_entry (k, v) ++ concat (map wal_entry kvs) ++ rest) = concat (map wal_entry kvs) ++ rest).
  { rewrite skipn_app, Hl, skipn_all2 by lia. reflexivity. }
  rewrite Hsk, (IH rest Hes).
  unfold wal_entry. cbn [fst snd]. rewrite <- !app_assoc.
  rewrite (get_le_0_app_dec (le_encode 7 k) _ 7) by apply le_encode_length.
  rewrite (get_le_skip_dec (le_encode 7 k) _ 7 7) by apply le_encode_length.
  rewrite (get_le_0_app_dec (le_encode 7 v) _ 7) by apply le_encode_length.
  rewrite !le_decode_encode by (change (256 ^ Z.of_nat 7) with (2^56); lia).
  reflexivity.
Qed.

(* ---------- a list page ---------- *)
Lemma make_page_fields ps next (es : list (list Z)) :
  0 <= next < 2^64 -> Z.of_nat (length es) < 2^32 ->
  lp_next (make_page ps next es) = next /\
  lp_count (make_page ps next es) = Z.of_nat (length es) /\
  exists pad, lp_payload (make_page ps next es) = concat es ++ pad.
Proof.
  intros Hn Hc. unfold make_page, lp_next, lp_count, lp_payload.
  change (Z.to_nat off_list_next) with 0%nat. change (Z.to_nat off_list_count) with 8%nat.
  change (Z.to_nat listPageHeaderSize) with 12%nat.
  rewrite <- !app_assoc.
  split; [|split].
  - rewrite (get_le_0_app_dec (le_encode 8 next) _ 8) by apply le_encode_length.
    apply le_decode_encode. change (256 ^ Z.of_nat 8) with (2^64). exact Hn.
  - rewrite (get_le_skip_dec (le_encode 8 next) _ 8 4) by apply le_encode_length.
    rewrite (get_le_0_app_dec (le_encode 4 _) _ 4) by apply le_encode_length.
    apply le_decode_encode. change (256 ^ Z.of_nat 4) with (2^32). lia.
  - eexists. rewrite (app_assoc (le_encode 8 next)).
    rewrite skipn_app. rewrite skipn_all2 by (rewrite app_length, !le_encode_length; lia).
    rewrite app_length, !le_encode_length. cbn [Nat.add Nat.sub skipn app]. reflexivity.
Qed.

(* ---------- the chain ---------- *)
Section Chain.
  Context {E : Type} (enc : E -> list Z) (dec : nat -> list Z -> option (list E)) (ok : E -> Prop).
  Hypothesis dec_ok : forall (es : list E) rest, Forall ok es -> dec (length es) (concat (map enc es) ++ rest) = Some es.

  (* generic chain reader with the shape of read_freelist / read_wal *)
  Fixpoint read_chain (fuel : nat) (d : pdisk) (pid : Z) : option (list Z * list E) :=
    if pid =? 0 then Some ([], [])
    else match fuel with
         | O => None
         | S f =>
             match d pid with
             | None => None
             | Some pg =>
                 match dec (Z.to_nat (lp_count pg)) (lp_payload pg) with
                 | None => None
                 | Some es =>
                     match read_chain f d (lp_next pg) with
                     | Some (ids, es') => Some (pid :: ids, es ++ es')
                     | None => None
                     end
                 end
             end
         end.

  Lemma read_linked : forall ids (gs : list (list E)) ps pages d fuel,
    Forall (fun id => 0 < id < 2^64) ids ->
    Forall (fun g => Z.of_nat (length g) < 2^32 /\ Forall ok g) gs ->
    link_pages ps ids (map (map enc) gs) = Some pages ->
    (forall id pg, In (id, pg) pages -> d id = Some pg) ->
    (length ids <= fuel)%nat ->
    read_chain fuel d (hd 0 ids) = Some (ids, concat gs).
  Proof.
    induction ids as [|id ids IH]; intros gs ps pages d fuel Hids Hgs Hl Hd Hf.
    - assert (Hc: concat gs = []).
      { cbn [link_pages] in Hl. destruct gs as [|g gs2]; [reflexivity|]. cbn [map] in Hl.
        destruct g as [|e g]; cbn [map] in Hl; [|discriminate].
        destruct gs2 as [|g2 gs2]; cbn [map] in Hl; [reflexivity | discriminate]. }
      rewrite Hc. cbn [hd]. destruct fuel; reflexivity.
    - inversion Hids as [|? ? Hid Hids']; subst.
      cbn [link_pages] in Hl.
      set (next := match ids with [] => 0 | n :: _ => n end) in *.
      destruct gs as [|g gs'].
      + cbn [map] in Hl.
        destruct (link_pages ps ids []) as [rest|] eqn:Er; [|discriminate]. injection Hl as <-.
        destruct fuel as [|f]; [cbn in Hf; lia|]. cbn [hd read_chain].
        replace (id =? 0) with false by lia.
        rewrite (Hd id (make_page ps next [])) by (left; reflexivity).
        assert (Hnext: 0 <= next < 2^64).
        { unfold next. destruct ids as [|n ids2]; [lia|]. inversion Hids'; subst. lia. }
        destruct (make_page_fields ps next [] Hnext ltac:(cbn; lia)) as (Hn & Hc & pad & Hp).
        rewrite Hc, Hp. cbn [length Z.of_nat Z.to_nat concat app].
        pose proof (dec_ok [] pad (Forall_nil _)) as Hdec. cbn in Hdec. rewrite Hdec. rewrite Hn.
        assert (Hrec: read_chain f d (hd 0 ids) = Some (ids, concat (@nil (list E)))).
        { apply (IH [] ps rest d f Hids' (Forall_nil _)); [exact Er | | cbn in Hf; lia].
          intros i p Hin. apply Hd. right. exact Hin. }
        assert (Hhd: hd 0 ids = next) by (unfold next; destruct ids; reflexivity).
        rewrite Hhd in Hrec. rewrite Hrec. reflexivity.
      + inversion Hgs as [|? ? [Hg Hgok] Hgs']; subst. cbn [map] in Hl.
        destruct (link_pages ps ids (map (map enc) gs')) as [rest|] eqn:Er; [|discriminate]. injection Hl as <-.
        destruct fuel as [|f]; [cbn in Hf; lia|]. cbn [hd read_chain].
        replace (id =? 0) with false by lia.
        rewrite (Hd id (make_page ps next (map enc g))) by (left; reflexivity).
        assert (Hnext: 0 <= next < 2^64).
        { unfold next. destruct ids as [|n ids2]; [lia|]. inversion Hids'; subst. lia. }
        destruct (make_page_fields ps next (map enc g) Hnext ltac:(rewrite map_length; exact Hg)) as (Hn & Hc & pad & Hp).
        rewrite Hc, Hp, map_length, Nat2Z.id, (dec_ok g pad Hgok), Hn.
        assert (Hrec: read_chain f d (hd 0 ids) = Some (ids, concat gs')).
        { apply (IH gs' ps rest d f Hids' Hgs'); [exact Er | | cbn in Hf; lia].
          intros i p Hin. apply Hd. right. exact Hin. }
        assert (Hhd: hd 0 ids = next) by (unfold next; destruct ids; reflexivity).
        rewrite Hhd in Hrec. rewrite Hrec. reflexivity.
  Qed.

  (* the paging writer groups the entries without reordering or dropping any *)
  Lemma fill_pages_groups : forall (es cur : list E) P used,
    exists gs, fill_pages P (map enc es) (map enc cur) used = map (map enc) gs /\ concat gs = rev cur ++ es.
  Proof.
    induction es as [|e es IH]; intros cur P used; cbn [map fill_pages].
    - exists [rev cur]. cbn [map concat]. rewrite map_rev, !app_nil_r. split; reflexivity.
    - destruct (P - used <? Z.of_nat (length (enc e))).
      + destruct (IH [e] P (Z.of_nat (length (enc e)))) as (gs & Hg & Hc). cbn [map] in Hg.
        exists (rev cur :: gs). cbn [map concat]. rewrite map_rev, Hg, Hc. cbn [rev app]. split; reflexivity.
      + destruct (IH (e :: cur) P (used + Z.of_nat (length (enc e)))) as (gs & Hg & Hc). cbn [map] in Hg.
        exists gs. rewrite Hg, Hc. cbn [rev]. rewrite <- app_assoc. split; reflexivity.
  Qed.

  Lemma group_length_le : forall (gs : list (list E)) g, In g gs -> (length g <= length (concat gs))%nat.
  Proof.
    induction gs as [|g0 gs IH]; intros g Hin; [destruct Hin|]. cbn [concat]. rewrite app_length.
    destruct Hin as [->|H]; [lia|]. specialize (IH g H). lia.
  Qed.

  Lemma forall_concat : forall (gs : list (list E)), Forall ok (concat gs) -> Forall (Forall ok) gs.
  Proof.
    induction gs as [|g gs IH]; intros H; [constructor|]. cbn [concat] in H. apply Forall_app in H as [H1 H2].
    constructor; [exact H1 | apply IH; exact H2].
  Qed.

  Theorem write_read_chain ps ids (es : list E) pages d fuel :
    ids <> [] -> Forall (fun id => 0 < id < 2^64) ids -> Z.of_nat (length es) < 2^32 -> Forall ok es ->
    write_list ps ids (map enc es) = Some pages ->
    (forall id pg, In (id, pg) pages -> d id = Some pg) ->
    (length ids <= fuel)%nat ->
    read_chain fuel d (hd 0 ids) = Some (ids, es).
  Proof.
    intros Hne Hids Hlen Hok Hw Hd Hf. unfold write_list in Hw. destruct ids as [|i0 ids0] eqn:Ei; [contradiction|]. rewrite <- Ei in *.
    destruct (fill_pages_groups es [] (ps - listPageHeaderSize) 0) as (gs & Hg & Hc). cbn [map rev app] in Hg, Hc.
    rewrite Hg in Hw.
    rewrite <- Hc. apply (read_linked ids gs ps pages d fuel Hids); try assumption.
    assert (Hgok: Forall (Forall ok) gs) by (apply forall_concat; rewrite Hc; exact Hok).
    apply Forall_forall. intros g Hin. pose proof (group_length_le gs g Hin). rewrite Hc in *.
    split; [lia|]. rewrite Forall_forall in Hgok. apply Hgok. exact Hin.
  Qed.
End Chain.

(* ---------- free lists ---------- *)
(* the guard on the entry count never changes the result: n entries need at least n bytes *)
Lemma decode_region_size buf : let '(_, _, sz) := decode_region buf in sz = 8 \/ sz = 12.
Proof. unfold decode_region. destruct (_ =? 0); [left; reflexivity|]. destruct (_ =? entryOverflow); [right | left]; reflexivity. Qed.

Lemma decode_entries_len : forall n p es, decode_entries n p = Some es -> (n <= length p)%nat.
Proof.
  induction n as [|n IH]; intros p es; cbn [decode_entries]; [lia|].
  destruct (length p <? 8)%nat eqn:E8; [discriminate|]. apply Nat.ltb_ge in E8.
  pose proof (decode_region_size p) as Hsz. destruct (decode_region p) as [[m r] sz].
  destruct (length p <? Z.to_nat sz)%nat eqn:Es; [discriminate|]. apply Nat.ltb_ge in Es.
  destruct (decode_entries n (skipn (Z.to_nat sz) p)) as [es0|] eqn:Er; [|discriminate]. intros _.
  specialize (IH _ _ Er). rewrite skipn_length in IH. destruct Hsz as [-> | ->]; lia.
Qed.

Lemma decode_entries_z_eq cnt p : decode_entries_z cnt p = decode_entries (Z.to_nat cnt) p.
Proof.
  unfold decode_entries_z. destruct (Z.of_nat (length p) <? cnt) eqn:E; [|reflexivity].
  destruct (decode_entries (Z.to_nat cnt) p) as [es|] eqn:Ed; [|reflexivity].
  apply decode_entries_len in Ed. lia.
Qed.

Lemma decode_wal_entries_len : forall n p es, decode_wal_entries n p = Some es -> (n <= length p)%nat.
Proof.
  induction n as [|n IH]; intros p es; cbn [decode_wal_entries]; [lia|].
  destruct (length p <? 14)%nat eqn:E8; [discriminate|]. apply Nat.ltb_ge in E8.
  destruct (decode_wal_entries n (skipn 14 p)) as [es0|] eqn:Er; [|discriminate]. intros _.
  specialize (IH _ _ Er). rewrite skipn_length in IH. lia.
Qed.

Lemma decode_wal_entries_z_eq cnt p : decode_wal_entries_z cnt p = decode_wal_entries (Z.to_nat cnt) p.
Proof.
  unfold decode_wal_entries_z. destruct (Z.of_nat (length p) <? cnt) eqn:E; [|reflexivity].
  destruct (decode_wal_entries (Z.to_nat cnt) p) as [es|] eqn:Ed; [|reflexivity].
  apply decode_wal_entries_len in Ed. lia.
Qed.

Lemma read_freelist_is_chain : forall fuel d pid,
  read_freelist fuel d pid = read_chain decode_entries fuel d pid.
Proof. induction fuel as [|f IH]; intros d pid; cbn [read_freelist read_chain]; [reflexivity|]. destruct (pid =? 0); [reflexivity|]. destruct (d pid); [|reflexivity]. rewrite decode_entries_z_eq. destruct (decode_entries _ _); [|reflexivity]. rewrite IH. reflexivity. Qed.

Lemma read_wal_is_chain : forall fuel d pid,
  read_wal fuel d pid = read_chain decode_wal_entries fuel d pid.
Proof. induction fuel as [|f IH]; intros d pid; cbn [read_wal read_chain]; [reflexivity|]. destruct (pid =? 0); [reflexivity|]. destruct (d pid); [|reflexivity]. rewrite decode_wal_entries_z_eq. destruct (decode_wal_entries _ _); [|reflexivity]. rewrite IH. reflexivity. Qed.

(* what writeFreeLists wrote is what readFreeList reads: the same page chain and the same entries (meta
   regions first, flagged), for any number of pages, also pre-allocated pages that stay empty *)
Theorem freelist_pages_roundtrip ps ids metaList dataList pages d fuel :
  ids <> [] -> Forall (fun id => 0 < id < 2^64) ids ->
  Forall valid_region metaList -> Forall valid_region dataList ->
  Z.of_nat (length metaList + length dataList) < 2^32 ->
  write_freelists ps ids metaList dataList = Some pages ->
  (forall id pg, In (id, pg) pages -> d id = Some pg) -> (length ids <= fuel)%nat ->
  read_freelist fuel d (hd 0 ids) = Some (ids, map (pair true) metaList ++ map (pair false) dataList).
Proof.
  intros Hne Hids Hm Hd Hlen Hw Hag Hf. rewrite read_freelist_is_chain.
  set (es := map (pair true) metaList ++ map (pair false) dataList).
  assert (Henc: map (encode_region true) metaList ++ map (encode_region false) dataList = map enc_entry es).
  { unfold es. rewrite map_app, !map_map. reflexivity. }
  unfold write_freelists in Hw. rewrite Henc in Hw.
  apply (write_read_chain enc_entry decode_entries (fun e => valid_region (snd e)) decode_entries_concat ps ids es pages d fuel); try assumption.
  - unfold es. rewrite app_length, !map_length. exact Hlen.
  - unfold es. apply Forall_app. split; apply Forall_map; cbn [snd]; assumption.
Qed.

(* the overwrite mapping *)
Theorem wal_pages_roundtrip ps ids mapping pages d fuel :
  ids <> [] -> Forall (fun id => 0 < id < 2^64) ids ->
  Forall (fun kv => 0 <= fst kv < 2^56 /\ 0 <= snd kv < 2^56) mapping ->
  Z.of_nat (length mapping) < 2^32 ->
  write_wal ps ids mapping = Some pages ->
  (forall id pg, In (id, pg) pages -> d id = Some pg) -> (length ids <= fuel)%nat ->
  read_wal fuel d (hd 0 ids) = Some (ids, mapping).
Proof.
  intros Hne Hids Hm Hlen Hw Hag Hf. rewrite read_wal_is_chain. unfold write_wal in Hw.
  apply (write_read_chain wal_entry decode_wal_entries _ decode_wal_entries_concat ps ids mapping pages d fuel); assumption.
Qed.

(* D19: an entry count beyond the page is an error of both readers (never a read past the page) *)
Lemma count_beyond_page_is_error cnt p : Z.of_nat (length p) < cnt ->
  decode_entries_z cnt p = None /\ decode_wal_entries_z cnt p = None.
Proof. intros H. unfold decode_entries_z, decode_wal_entries_z. replace (Z.of_nat (length p) <? cnt) with true by lia. split; reflexivity. Qed.
