From VF Require Import PageBuf BytesProofs.
From Coq Require Import Lia.

(* The buffer state machine refines the obvious specification: a page has a logical content
   (None = freshly allocated, nothing written yet); a full SetBytes replaces it, a partial SetBytes
   overwrites a prefix (of zeroes on a fresh page), Load keeps it (zeroes on a fresh page), an in-place
   modification after Load splices, Bytes returns it. *)

Definition wf (ps : nat) (p : pagest) : Prop :=
  (f_new (pg_flags p) = false -> length (pg_disk p) = ps) /\
  (forall b, pg_bytes p = Some b -> length b = ps) /\
  (f_cached (pg_flags p) = true -> pg_bytes p <> None) /\
  (f_dirty (pg_flags p) = true -> pg_bytes p <> None).

(* logical content: None for a fresh page without buffer *)
Definition lcontent (p : pagest) : option (list Z) :=
  match pg_bytes p with
  | Some b => Some b
  | None => if f_new (pg_flags p) then None else Some (pg_disk p)
  end.

Definition base (ps : nat) (c : option (list Z)) : list Z :=
  match c with Some b => b | None => zeros ps end.

Lemma zeros_length n : length (zeros n) = n.
Proof. induction n; cbn; congruence. Qed.

Lemma load_bytes_spec ps p : wf ps p ->
  wf ps (load_bytes ps p) /\ lcontent (load_bytes ps p) = Some (base ps (lcontent p)) /\
  pg_bytes (load_bytes ps p) <> None.
Proof.
  intros (Hd & Hb & Hc & Hy). unfold load_bytes, lcontent, wf.
  destruct p as [[n fr fl c d] b dk]; cbn in *.
  destruct c; cbn.
  - destruct b as [b|]; [|exfalso; apply Hc; reflexivity].
    repeat split; auto; discriminate.
  - destruct n; cbn.
    + destruct b as [b|]; cbn; repeat split; auto; try discriminate.
      intros b0 [= <-]. apply zeros_length.
    + destruct d; cbn.
      * destruct b as [b|]; [|exfalso; apply Hy; reflexivity].
        repeat split; auto; discriminate.
      * destruct b as [b|]; cbn; repeat split; auto; try discriminate.
        intros b0 [= <-]. auto.
Qed.

Lemma can_write_flags p f' : f_freed f' = f_freed (pg_flags p) -> f_flushed f' = f_flushed (pg_flags p) ->
  can_write (set_flags p f') = can_write p.
Proof. intros H1 H2. unfold can_write. cbn. now rewrite H1, H2. Qed.

(* SetBytes *)
Theorem set_bytes_spec ps p c p' : wf ps p -> page_set_bytes ps p c = POk p' ->
  wf ps p' /\
  lcontent p' = Some (if (length c <? ps)%nat then c ++ skipn (length c) (base ps (lcontent p)) else c) /\
  f_dirty (pg_flags p') = true.
Proof.
  intros Hwf. unfold page_set_bytes.
  destruct (can_write p); cbn [negb]; [|discriminate].
  destruct (ps <? length c)%nat eqn:Elong; [discriminate|].
  destruct (length c <? ps)%nat eqn:Eshort.
  - destruct (load_bytes_spec ps p Hwf) as ((Hd & Hb & Hc & Hy) & Hl & Hnn).
    destruct (pg_bytes (load_bytes ps p)) as [b|] eqn:Eb; [|congruence].
    intros [= <-].
    assert (Hbb: b = base ps (lcontent p)).
    { unfold lcontent in Hl at 1. rewrite Eb in Hl. congruence. }
    assert (Hlen: length b = ps) by (apply Hb; reflexivity).
    split; [|split]; cbn; auto.
    + unfold wf; cbn. repeat split; auto; try discriminate.
      intros b0 [= <-]. rewrite app_length, skipn_length.
      apply Nat.ltb_lt in Eshort. lia.
    + unfold lcontent; cbn. rewrite Hbb. reflexivity.
  - intros [= <-]. destruct Hwf as (Hd & Hb & Hc & Hy).
    split; [|split]; cbn; auto.
    unfold wf; cbn. repeat split; auto; try discriminate.
    intros b0 [= <-]. apply Nat.ltb_ge in Elong, Eshort. lia.
Qed.

(* Load *)
Theorem load_spec ps p p' : wf ps p -> page_load ps p = POk p' ->
  wf ps p' /\ lcontent p' = Some (base ps (lcontent p)).
Proof.
  intros Hwf. unfold page_load. destruct (can_write p); [|discriminate].
  intros [= <-]. destruct (load_bytes_spec ps p Hwf) as (H1 & H2 & _). auto.
Qed.

(* MarkDirty: the logical content stays (zeroes on a fresh page without contents), the page is dirty and has a buffer *)
Theorem mark_dirty_spec ps p p' : wf ps p -> page_mark_dirty ps p = POk p' ->
  wf ps p' /\ lcontent p' = Some (base ps (lcontent p)) /\ f_dirty (pg_flags p') = true.
Proof.
  intros Hwf. unfold page_mark_dirty. destruct (can_write p); cbn [negb]; [|discriminate].
  intros [= <-].
  destruct (pg_bytes p) as [b|] eqn:Eb.
  - destruct Hwf as (Hd & Hb & Hc & Hy). unfold wf, lcontent. cbn. rewrite Eb. cbn.
    repeat split; auto; try discriminate. intros b0 [= <-]. apply Hb. exact Eb.
  - destruct (load_bytes_spec ps p Hwf) as ((Hd & Hb & Hc & Hy) & Hl & Hn).
    assert (E : lcontent p = match (if f_new (pg_flags p) then None else Some (pg_disk p)) with x => x end).
    { unfold lcontent. rewrite Eb. reflexivity. }
    unfold wf, lcontent in *. cbn. rewrite Eb in Hl.
    destruct (pg_bytes (load_bytes ps p)) as [b|] eqn:Eb1; [|contradiction].
    repeat split; auto; try discriminate. rewrite Eb. exact Hl.
Qed.

Lemma splice_length off c b : (off + length c <= length b)%nat -> length (splice off c b) = length b.
Proof.
  intros H. unfold splice. rewrite !app_length, firstn_length, skipn_length. lia.
Qed.

(* in-place modification + MarkDirty *)
Theorem modify_spec ps p off c p' : wf ps p -> (off + length c <= ps)%nat -> page_modify p off c = POk p' ->
  exists b, pg_bytes p = Some b /\ wf ps p' /\ lcontent p' = Some (splice off c b).
Proof.
  intros (Hd & Hb & Hc & Hy) Hfit. unfold page_modify.
  destruct (can_write p); cbn [negb]; [|discriminate].
  destruct (pg_bytes p) as [b|] eqn:Eb; [|discriminate].
  intros [= <-]. exists b. split; [reflexivity|]. split; [|reflexivity].
  unfold wf; cbn. repeat split; auto; try discriminate.
  intros b0 [= <-]. rewrite splice_length; [apply Hb; reflexivity|]. rewrite (Hb _ eq_refl). exact Hfit.
Qed.

(* Bytes returns the logical content; it fails exactly on a fresh page without content *)
Theorem bytes_spec p : page_bytes p = match lcontent p with Some b => POk b | None => PErr EInvalidOp end.
Proof. unfold page_bytes, lcontent. destruct (pg_bytes p); [reflexivity|]. destruct (f_new (pg_flags p)); reflexivity. Qed.

(* Flush writes exactly the logical content of a dirty page, once *)
Theorem flush_spec ps p p' w : wf ps p -> page_flush p = POk (p', w) ->
  lcontent p' = lcontent p /\
  (f_dirty (pg_flags p) = true -> w = lcontent p /\ can_write p' = false) /\
  (f_dirty (pg_flags p) = false -> w = None /\ p' = p).
Proof.
  intros (Hd & Hb & Hc & Hy). unfold page_flush.
  destruct (can_write p) eqn:Ecw; cbn [negb]; [|discriminate].
  destruct (f_dirty (pg_flags p)) eqn:Ed; cbn [negb].
  - intros [= <- <-]. split; [reflexivity|]. split; [|discriminate]. intros _.
    split.
    + unfold lcontent. destruct (pg_bytes p); [reflexivity|]. exfalso. apply Hy; reflexivity.
    + unfold can_write. cbn. apply andb_false_r.
  - intros [= <- <-]. split; [reflexivity|]. split; [discriminate|]. auto.
Qed.

(* Free is refused on dirty pages and changes no content *)
Theorem free_spec p p' : page_free p = POk p' -> f_dirty (pg_flags p) = false /\ lcontent p' = lcontent p /\ can_write p' = false.
Proof.
  unfold page_free. destruct (can_write p); cbn [negb]; [|discriminate].
  destruct (f_dirty (pg_flags p)); [discriminate|]. intros [= <-]. repeat split.
Qed.

Lemma fresh_wf ps : wf ps fresh_page.
Proof. unfold wf, fresh_page; cbn. repeat split; intros; discriminate. Qed.
Lemma existing_wf ps d : length d = ps -> wf ps (existing_page d).
Proof. intros H. unfold wf, existing_page; cbn. repeat split; intros; try discriminate; auto. Qed.

(* D8 regression: a full SetBytes followed by Load / a partial SetBytes on a fresh page keeps the bytes *)
Corollary fresh_setfull_then_load ps c p1 p2 : length c = ps ->
  page_set_bytes ps fresh_page c = POk p1 -> page_load ps p1 = POk p2 -> lcontent p2 = Some c.
Proof.
  intros Hl H1 H2.
  destruct (set_bytes_spec ps _ _ _ (fresh_wf ps) H1) as (Hw1 & Hc1 & _).
  destruct (load_spec ps _ _ Hw1 H2) as (_ & Hc2).
  rewrite Hc2, Hc1. rewrite Hl, Nat.ltb_irrefl. reflexivity.
Qed.

(* the code as found: a dirty page without buffer, whose flush writes nothing *)
Theorem mark_dirty_v1_refuted : exists (p p' p'' : pagest) w,
  wf 4 p /\ page_mark_dirty_v1 p = POk p' /\ f_dirty (pg_flags p') = true /\
  page_flush p' = POk (p'', w) /\ w = None /\ lcontent p = Some [1; 2; 3; 4].
Proof.
  exists (existing_page [1; 2; 3; 4]). eexists. eexists. eexists.
  split; [apply existing_wf; reflexivity|]. repeat split.
Qed.

