(* Whole data transactions over the allocator: an invariant over every sequence of Tx.Alloc /
   Tx.Free steps, and the exactness of the rollback at its end. *)
From VF Require Import Region Freelist Alloc RegionProofs AllocProofs.
From Coq Require Import Lia ZifyBool.

(* ---------- id lists of regions ---------- *)
Lemma seqZ_in : forall n s x, In x (seqZ s n) <-> s <= x < s + Z.of_nat n.
Proof.
  induction n as [|n IH]; intros s x; cbn [seqZ In].
  - lia.
  - rewrite IH. lia.
Qed.

Lemma region_ids_in r x : In x (region_ids r) <-> inr x r.
Proof.
  unfold region_ids, inr, rend. rewrite seqZ_in.
  destruct (Z_le_gt_dec 0 (rcount r)); [rewrite Z2Nat.id by lia; lia|].
  replace (Z.to_nat (rcount r)) with O by lia. lia.
Qed.

Lemma regions_ids_in l x : In x (regions_ids l) <-> inl x l.
Proof.
  unfold regions_ids, inl. rewrite in_flat_map. split; intros [r [H1 H2]]; exists r; split; auto; apply region_ids_in; exact H2.
Qed.

Lemma set_add_all_in : forall xs s y, In y (set_add_all xs s) <-> In y xs \/ In y s.
Proof.
  unfold set_add_all. induction xs as [|x xs IH]; intros s y; cbn [fold_left In]; [tauto|].
  rewrite IH, set_add_in. intuition congruence.
Qed.

Lemma set_add_all_sorted : forall xs s lo, sorted_from lo s -> (forall x, In x xs -> lo <= x) ->
  sorted_from lo (set_add_all xs s).
Proof.
  unfold set_add_all. induction xs as [|x xs IH]; intros s lo S H; cbn [fold_left]; [exact S|].
  apply IH; [apply set_add_sorted; [exact S | apply H; left; reflexivity] | intros y Hy; apply H; right; exact Hy].
Qed.

Lemma classic_inl id l : inl id l \/ ~ inl id l.
Proof.
  induction l as [|r l IH]; [right; apply inl_nil|].
  destruct IH as [IH|IH]; [left; apply inl_cons; right; exact IH|].
  destruct (Z_le_gt_dec (rid r) id); [destruct (Z_lt_ge_dec id (rend r))|].
  - left. apply inl_cons. left. unfold inr. lia.
  - right. intros H. apply inl_cons in H as [H|H]; [unfold inr in H; lia | exact (IH H)].
  - right. intros H. apply inl_cons in H as [H|H]; [unfold inr in H; lia | exact (IH H)].
Qed.

(* ---------- two well-formed lists with the same pages have the same page count ---------- *)
Lemma wfl_head_in lo r l : wfl lo (r :: l) -> inl (rid r) (r :: l).
Proof. intros W. inversion W; subst. apply inl_cons. left. unfold inr, rend. lia. Qed.

Lemma same_set_count_aux : forall n l1 l2 lo,
  (length l1 + length l2 <= n)%nat -> wfl lo l1 -> wfl lo l2 ->
  (forall id, inl id l1 <-> inl id l2) -> count_pages l1 = count_pages l2.
Proof.
  induction n as [|n IH]; intros l1 l2 lo Hn W1 W2 Hs.
  - destruct l1, l2; cbn in Hn; first [reflexivity | lia].
  - destruct l1 as [|r1 t1], l2 as [|r2 t2].
    + reflexivity.
    + exfalso. apply (inl_nil (rid r2)). apply Hs. eapply wfl_head_in; eauto.
    + exfalso. apply (inl_nil (rid r1)). apply Hs. eapply wfl_head_in; eauto.
    + inversion W1 as [|? ? ? Hlo1 Hc1 Wt1]; subst. inversion W2 as [|? ? ? Hlo2 Hc2 Wt2]; subst.
      (* both lists start with the smallest page *)
      assert (Hid: rid r1 = rid r2).
      { assert (H1: inl (rid r1) (r2 :: t2)) by (apply Hs; eapply wfl_head_in; eauto).
        assert (H2: inl (rid r2) (r1 :: t1)) by (apply Hs; eapply wfl_head_in; eauto).
        pose proof (wfl_lower _ _ _ W2 H1). pose proof (wfl_lower _ _ _ W1 H2).
        apply inl_cons in H1 as [H1|H1]; apply inl_cons in H2 as [H2|H2]; unfold inr in *;
          try (pose proof (wfl_lower _ _ _ Wt2 H1)); try (pose proof (wfl_lower _ _ _ Wt1 H2)); unfold rend in *; lia. }
      rewrite !count_pages_cons.
      destruct (Z.compare_spec (rcount r1) (rcount r2)) as [Heq|Hlt|Hgt].
      * (* equal heads: the tails have the same pages *)
        assert (Hrend: rend r1 = rend r2) by (unfold rend; lia).
        rewrite (IH t1 t2 (rend r1)); [lia | cbn in Hn; lia | exact Wt1 | rewrite Hrend; exact Wt2 |].
        intros id. split; intros H.
        -- assert (H': inl id (r2 :: t2)) by (apply Hs; apply inl_cons; right; exact H).
           apply inl_cons in H' as [H'|H']; [|exact H']. pose proof (wfl_lower _ _ _ Wt1 H). unfold inr in H'. lia.
        -- assert (H': inl id (r1 :: t1)) by (apply Hs; apply inl_cons; right; exact H).
           apply inl_cons in H' as [H'|H']; [|exact H']. pose proof (wfl_lower _ _ _ Wt2 H). unfold inr in H'. lia.
      * (* r1 is shorter: split r2 *)
        set (r2' := {| rid := rend r1; rcount := rcount r2 - rcount r1 |}).
        assert (W2': wfl (rend r1) (r2' :: t2)).
        { constructor; cbn; try lia. unfold rend in *. cbn. replace (rid r1 + rcount r1 + (rcount r2 - rcount r1)) with (rid r2 + rcount r2) by lia. exact Wt2. }
        rewrite (IH t1 (r2' :: t2) (rend r1)); [rewrite count_pages_cons; cbn; lia | cbn in *; lia | exact Wt1 | exact W2' |].
        intros id. split; intros H.
        -- assert (H': inl id (r2 :: t2)) by (apply Hs; apply inl_cons; right; exact H).
           pose proof (wfl_lower _ _ _ Wt1 H).
           apply inl_cons in H' as [H'|H']; apply inl_cons; [left; unfold inr, rend in *; cbn; lia | right; exact H'].
        -- assert (H': inl id (r1 :: t1)).
           { apply Hs. apply inl_cons in H as [H|H]; apply inl_cons; [left; unfold inr, rend in *; cbn in *; lia | right; exact H]. }
           pose proof (wfl_lower _ _ _ W2' H).
           apply inl_cons in H' as [H'|H']; [unfold inr in H'; lia | exact H'].
      * set (r1' := {| rid := rend r2; rcount := rcount r1 - rcount r2 |}).
        assert (W1': wfl (rend r2) (r1' :: t1)).
        { constructor; cbn; try lia. unfold rend in *. cbn. replace (rid r2 + rcount r2 + (rcount r1 - rcount r2)) with (rid r1 + rcount r1) by lia. exact Wt1. }
        rewrite <- (IH (r1' :: t1) t2 (rend r2)); [rewrite count_pages_cons; cbn; lia | cbn in *; lia | exact W1' | exact Wt2 |].
        intros id. split; intros H.
        -- assert (H': inl id (r2 :: t2)).
           { apply Hs. apply inl_cons in H as [H|H]; apply inl_cons; [left; unfold inr, rend in *; cbn in *; lia | right; exact H]. }
           pose proof (wfl_lower _ _ _ W1' H).
           apply inl_cons in H' as [H'|H']; [unfold inr in H'; lia | exact H'].
        -- assert (H': inl id (r1 :: t1)) by (apply Hs; apply inl_cons; right; exact H).
           pose proof (wfl_lower _ _ _ Wt2 H).
           apply inl_cons in H' as [H'|H']; apply inl_cons; [left; unfold inr, rend in *; cbn; lia | right; exact H'].
Qed.

Theorem same_set_count l1 l2 lo : wfl lo l1 -> wfl lo l2 ->
  (forall id, inl id l1 <-> inl id l2) -> count_pages l1 = count_pages l2.
Proof. intros. eapply same_set_count_aux; eauto. Qed.

(* ---------- removing a range above every page of the list changes nothing ---------- *)
Lemma remove_range_above : forall l lo rs re, wfl lo l -> (forall id, inl id l -> id < rs) ->
  remove_range l rs re = (l, 0).
Proof.
  induction l as [|cur tl IH]; intros lo rs re W Hb; cbn [remove_range]; [reflexivity|].
  inversion W as [|? ? ? Hlo Hc Wtl]; subst.
  destruct (re <=? rs) eqn:E0; [reflexivity|].
  assert (Hcur: rend cur - 1 < rs) by (apply Hb; apply inl_cons; left; unfold inr, rend; lia).
  unfold rend in Hcur.
  replace (Z.max rs (rid cur)) with rs by lia.
  destruct (re <=? rs) eqn:E1; [reflexivity|].
  replace (rs =? rid cur) with false by lia.
  replace (rcount cur <=? rs - rid cur) with true by lia.
  rewrite (IH (rend cur) rs re Wtl); [reflexivity|].
  intros id H. apply Hb. apply inl_cons. right. exact H.
Qed.

Lemma fl_remove_region_above f lo reg : wff lo f -> (forall id, inl id (fregions f) -> id < rid reg) ->
  fl_remove_region f reg = f.
Proof.
  intros [W _] Hb. unfold fl_remove_region. rewrite (remove_range_above _ lo _ _ W Hb).
  destruct f as [av l]. cbn [avail fregions]. f_equal. lia.
Qed.

(* ---------- the transaction-side effect of Tx.Alloc ---------- *)
Definition same_static (a a' : allocst) : Prop :=
  maxPages a' = maxPages a /\ pageSize a' = pageSize a /\ a_free (meta a') = a_free (meta a) /\
  metaTotal a' = metaTotal a /\ flRoot a' = flRoot a /\ flPages a' = flPages a.

Definition same_txmeta (t t' : txst) : Prop :=
  moveToMeta t' = moveToMeta t /\ tmeta t' = tmeta t /\ st_ovf_alloc t' = st_ovf_alloc t /\
  t_end (tdata t') = t_end (tdata t).

Lemma data_alloc_tx_spec0 a t n regs cnt a' t' :
  DataInv a -> 0 <= n < 2^32 -> n <= data_avail a ->
  data_alloc_regions a t n = (regs, cnt, a', t') ->
  exists regs1 regs2,
    regs = regs1 ++ regs2 /\
    wfl 2 regs1 /\
    (forall id, inl id regs1 <-> inl id (fregions (a_free (data a))) /\ ~ inl id (fregions (a_free (data a')))) /\
    (forall id, inl id (fregions (a_free (data a'))) -> inl id (fregions (a_free (data a)))) /\
    (forall id, inl id regs2 -> a_end (data a) <= id) /\
    t_allocated (tdata t') = set_add_all (regions_ids regs1) (t_allocated (tdata t)) /\
    t_new (tdata t') = set_add_all (regions_ids regs2) (t_new (tdata t)) /\
    a_end (data a) <= a_end (data a') /\
    DataInv a' /\ same_static a a' /\ same_txmeta t t'.
Proof.
  intros [Wf Hb He] Hn Hav. unfold data_alloc_regions.
  replace (data_avail a <? n) with false by lia.
  unfold alloc_from_freelist.
  set (f := a_free (data a)) in *.
  set (got := Z.min n (avail f)).
  destruct (fl_alloc_regions false f got) as [regs1 f'] eqn:Ea.
  assert (Hav0: 0 <= avail f) by (destruct Wf as [W Hav']; rewrite Hav'; eapply count_pages_nonneg; eauto).
  destruct (fl_alloc_regions_spec false 2 f got regs1 f' Wf ltac:(unfold got; lia) Ea) as (Wf' & Wr1 & _ & _ & Hset & Hdis).
  set (rest := n - got).
  intros E. exists regs1.
  exists (if 0 <? rest then area_regions 4 (a_end (data a)) rest else []).
  injection E as <- <- <- <-.
  cbn [data a_free a_end meta metaTotal maxPages pageSize flRoot flPages set_meta set_data
       tdata tmeta moveToMeta st_ovf_alloc tx_stats tx_with ta_new ta_allocated t_allocated t_new t_end].
  split; [reflexivity|].
  split; [exact Wr1|].
  split.
  { intros id. split.
    - intros H. split; [apply Hset; left; exact H | apply Hdis; exact H].
    - intros [H1 H2]. apply Hset in H1 as [H1|H1]; [exact H1 | contradiction]. }
  split; [intros id H; apply Hset; right; exact H|].
  split.
  { intros id H. destruct (0 <? rest) eqn:Er; [|destruct (inl_nil _ H)].
    rewrite area_regions_one in H by (unfold rest, got in *; lia).
    apply inl_cons in H as [H|H]; [unfold inr in H; cbn in H; lia | destruct (inl_nil _ H)]. }
  split; [reflexivity|]. split; [reflexivity|].
  split; [destruct (0 <? rest) eqn:Er; lia|].
  split.
  { constructor; cbn [data a_free a_end set_meta set_data]; [exact Wf' | | destruct (0 <? rest); lia].
    intros id H. assert (id < a_end (data a)) by (apply Hb; apply Hset; right; exact H).
    destruct (0 <? rest) eqn:Er; lia. }
  split; [repeat split|]. unfold same_txmeta. cbn. repeat split; first [reflexivity | lia].
Qed.

Lemma data_alloc_tx_spec a t n regs cnt a' t' :
  DataInv a -> 0 < n < 2^32 -> n <= data_avail a ->
  data_alloc_regions a t n = (regs, cnt, a', t') ->
  exists regs1 regs2,
    regs = regs1 ++ regs2 /\
    wfl 2 regs1 /\
    (forall id, inl id regs1 <-> inl id (fregions (a_free (data a))) /\ ~ inl id (fregions (a_free (data a')))) /\
    (forall id, inl id (fregions (a_free (data a'))) -> inl id (fregions (a_free (data a)))) /\
    (forall id, inl id regs2 -> a_end (data a) <= id) /\
    t_allocated (tdata t') = set_add_all (regions_ids regs1) (t_allocated (tdata t)) /\
    t_new (tdata t') = set_add_all (regions_ids regs2) (t_new (tdata t)) /\
    a_end (data a) <= a_end (data a') /\
    DataInv a' /\ same_static a a' /\ same_txmeta t t'.
Proof. intros ID Hn. apply data_alloc_tx_spec0; [exact ID | lia]. Qed.

(* ---------- the remaining effects of Tx.Free on a page allocated by the transaction ---------- *)
Lemma data_free_fresh_extra a t id a' t' :
  set_mem id (t_new (tdata t)) = true -> data_free a t id = Some (a', t') ->
  Z.min (a_end (data a)) (t_end (tdata t)) <= a_end (data a') /\
  same_static a a' /\ same_txmeta t t' /\ tdata t' = tdata t.
Proof.
  intros Hnew. unfold data_free.
  destruct ((id <? 2) || (a_end (data a) <=? id)) eqn:Eb; [discriminate|].
  rewrite Hnew. cbn [negb].
  remember (fl_add_region (a_free (data a)) {| rid := id; rcount := 1 |}) as f eqn:Ef.
  assert (Ht: same_txmeta t (tx_stats t 0 1 0 0 0 0 0) /\ tdata (tx_stats t 0 1 0 0 0 0 0) = tdata t).
  { unfold same_txmeta. cbn. repeat split; first [reflexivity | lia]. }
  destruct Ht as [Ht1 Ht2].
  destruct (id <=? t_end (tdata t)) eqn:E1.
  { intros [= <- <-]. cbn [data a_end set_data]. split; [lia|]. split; [repeat split|]. split; assumption. }
  destruct (rend (last_region (fregions f)) <? a_end (data a)) eqn:E2.
  { intros [= <- <-]. cbn [data a_end set_data]. split; [lia|]. split; [repeat split|]. split; assumption. }
  destruct (rid (last_region (fregions f)) <? t_end (tdata t)) eqn:E3.
  - intros [= <- <-]. unfold shrink_end. cbn [data a_end set_data set_meta]. split; [lia|]. split; [repeat split|]. split; assumption.
  - intros [= <- <-]. unfold shrink_end. cbn [data a_end set_data set_meta]. split; [lia|]. split; [repeat split|]. split; assumption.
Qed.

(* ---------- every state a data transaction can reach ---------- *)
(* Tx.Alloc/AllocN and Tx.Free in any order. Tx.Free is only called for a page that is in use (the page
   object of a page freed before refuses a second Free), i.e. one that is not in the free list. *)
Inductive dreach (a0 : allocst) (withOvf : bool) (growPct : Z) : allocst -> txst -> Prop :=
| dr_init : dreach a0 withOvf growPct a0 (make_tx a0 withOvf growPct)
| dr_alloc a t n regs cnt a' t' :
    dreach a0 withOvf growPct a t -> 0 < n < 2^32 ->
    data_alloc_regions a t n = (regs, cnt, a', t') -> dreach a0 withOvf growPct a' t'
| dr_free a t id a' t' :
    dreach a0 withOvf growPct a t -> ~ inl id (fregions (a_free (data a))) ->
    data_free a t id = Some (a', t') -> dreach a0 withOvf growPct a' t'.

Record TxInv (a0 a : allocst) (t : txst) : Prop := {
  ti_data : DataInv a;
  ti_end : t_end (tdata t) = a_end (data a0);
  ti_sorted : sorted_from 2 (t_allocated (tdata t));
  ti_grow : a_end (data a0) <= a_end (data a);
  ti_dis : forall id, In id (t_allocated (tdata t)) -> id < a_end (data a0) -> ~ inl id (fregions (a_free (data a)));
  ti_set : forall id, id < a_end (data a0) ->
             (inl id (fregions (a_free (data a0))) <-> inl id (fregions (a_free (data a))) \/ In id (t_allocated (tdata t)));
  ti_new : forall id, In id (t_new (tdata t)) -> a_end (data a0) <= id;
  ti_static : same_static a0 a;
  ti_mv : moveToMeta t = [];
  ti_tmeta : tmeta t = {| t_end := a_end (meta a0); t_allocated := []; t_new := []; t_freed := [] |};
  ti_ovf : st_ovf_alloc t = 0 }.

Lemma same_static_trans a b c : same_static a b -> same_static b c -> same_static a c.
Proof. unfold same_static. intros (A1&A2&A3&A4&A5&A6) (B1&B2&B3&B4&B5&B6). repeat split; congruence. Qed.

Theorem dreach_inv a0 w p a t : DataInv a0 -> dreach a0 w p a t -> TxInv a0 a t.
Proof.
  intros H0 R. induction R as [|a t n regs cnt a' t' R IH Hn E | a t id a' t' R IH Hnf E].
  - constructor.
    + exact H0.
    + reflexivity.
    + cbn. constructor.
    + lia.
    + cbn. intros id [].
    + cbn. intros id _. tauto.
    + cbn. intros id [].
    + repeat split.
    + reflexivity.
    + reflexivity.
    + reflexivity.
  - destruct IH as [ID IE IS IG IDis ISet INew ISt IMv ITm IOv].
    destruct (Z_lt_ge_dec (data_avail a) n) as [Hlt|Hge].
    { destruct (data_alloc_regions_spec a t n regs cnt a' t' ID Hn E) as [Hfail _].
      destruct (Hfail Hlt) as (_ & _ & -> & ->). constructor; assumption. }
    destruct (data_alloc_tx_spec a t n regs cnt a' t' ID Hn ltac:(lia) E)
      as (regs1 & regs2 & _ & W1 & H1 & Hsub & H2 & HA & HN & HG & ID' & St & (Tm1 & Tm2 & Tm3 & Tm4)).
    constructor.
    + exact ID'.
    + congruence.
    + rewrite HA. apply set_add_all_sorted; [exact IS|]. intros x Hx. apply regions_ids_in in Hx. eapply wfl_lower; eauto.
    + lia.
    + intros id Hin Hlt. rewrite HA in Hin. apply set_add_all_in in Hin as [Hin|Hin].
      * apply regions_ids_in in Hin. apply H1 in Hin. tauto.
      * intros Hf. apply (IDis id Hin Hlt). apply Hsub. exact Hf.
    + intros id Hlt. rewrite (ISet id Hlt), HA, set_add_all_in, regions_ids_in, H1.
      split.
      * intros [Hf|Hal]; [|tauto].
        destruct (classic_inl id (fregions (a_free (data a')))) as [Hy|Hno]; tauto.
      * intros [Hf|[[Hf _]|Hal]]; [left; apply Hsub; exact Hf | left; exact Hf | right; exact Hal].
    + intros id Hin. rewrite HN in Hin. apply set_add_all_in in Hin as [Hin|Hin]; [|apply INew; exact Hin].
      apply regions_ids_in in Hin. apply H2 in Hin. lia.
    + eapply same_static_trans; eauto.
    + congruence.
    + congruence.
    + congruence.
  - destruct IH as [ID IE IS IG IDis ISet INew ISt IMv ITm IOv].
    destruct (set_mem id (t_new (tdata t))) eqn:Enew.
    + (* a page allocated by this transaction *)
      assert (Hidnew: a_end (data a0) <= id) by (apply INew; apply set_mem_in; exact Enew).
      destruct (data_free_fresh_page a t id a' t' ID Enew Hnf E) as (ID' & Hsub & Hle & Hkeep).
      destruct (data_free_fresh_extra a t id a' t' Enew E) as (Hmin & St & (Tm1 & Tm2 & Tm3 & Tm4) & Htd).
      constructor.
      * exact ID'.
      * congruence.
      * rewrite Htd. exact IS.
      * lia.
      * rewrite Htd. intros x Hin Hlt Hf. apply Hsub in Hf as [->|Hf]; [lia | exact (IDis x Hin Hlt Hf)].
      * rewrite Htd. intros x Hlt. rewrite (ISet x Hlt). split.
        -- intros [Hf|Hal]; [left; apply Hkeep; [lia | exact Hf | lia] | right; exact Hal].
        -- intros [Hf|Hal]; [|right; exact Hal]. apply Hsub in Hf as [->|Hf]; [lia | left; exact Hf].
      * rewrite Htd. exact INew.
      * eapply same_static_trans; eauto.
      * congruence.
      * congruence.
      * congruence.
    + (* a page of the committed state: only recorded *)
      destruct (data_free_committed_page a t id a' t' Enew E) as (-> & _ & Hal & Hnw & _).
      unfold data_free in E.
      destruct ((id <? 2) || (a_end (data a) <=? id)); [discriminate|]. rewrite Enew in E. cbn [negb] in E.
      injection E as <-.
      constructor; cbn [tdata tmeta moveToMeta st_ovf_alloc tx_with tx_stats ta_freed t_end t_allocated t_new]; auto; lia.
Qed.

(* ---------- rollback at the end of any data transaction ---------- *)
Record MetaInv (a : allocst) : Prop := {
  mi_wf : wff 2 (a_free (meta a));
  mi_below : below (a_free (meta a)) (a_end (meta a)) }.

Lemma ids_regions_nil : ids_regions [] = [].
Proof. reflexivity. Qed.

(* Rollback after ANY sequence of Tx.Alloc / Tx.Free restores the allocator: every field outside the data
   area is identical, the data end marker is the one of the begin of the transaction, and the data free
   list holds exactly the pages it held then (same set of page ids, same page count, well-formed). *)
Theorem rollback_exact a0 w p a t :
  DataInv a0 -> MetaInv a0 -> dreach a0 w p a t -> a_end (data a) - a_end (data a0) < 2^32 ->
  let r := rollback a t in
  maxPages r = maxPages a0 /\ pageSize r = pageSize a0 /\ meta r = meta a0 /\ metaTotal r = metaTotal a0 /\
  flRoot r = flRoot a0 /\ flPages r = flPages a0 /\
  a_end (data r) = a_end (data a0) /\ wff 2 (a_free (data r)) /\
  (forall id, inl id (fregions (a_free (data r))) <-> inl id (fregions (a_free (data a0)))) /\
  avail (a_free (data r)) = avail (a_free (data a0)).
Proof.
  intros H0 [MW MB] R Hsmall.
  destruct (dreach_inv a0 w p a t H0 R) as [ID IE IS IG IDis ISet INew ISt IMv ITm IOv].
  destruct ISt as (S1 & S2 & S3 & S4 & S5 & S6).
  unfold rollback. rewrite IMv, ITm, IOv. cbn [fold_left].
  cbn [maxPages pageSize meta metaTotal flRoot flPages data].
  (* the meta area *)
  assert (Hm: area_rollback (meta a) {| t_end := a_end (meta a0); t_allocated := []; t_new := []; t_freed := [] |} = meta a0).
  { unfold area_rollback. cbn [t_end t_allocated filter]. rewrite ids_regions_nil.
    unfold fl_add_regions. rewrite count_pages_nil. cbn [Z.ltb Z.compare].
    rewrite S3.
    destruct (a_end (meta a0) <? a_end (meta a)).
    - rewrite (fl_remove_region_above _ 2 _ MW) by (cbn [rid]; exact MB). destruct (meta a0); reflexivity.
    - destruct (meta a0); reflexivity. }
  rewrite Hm.
  split; [exact S1|]. split; [exact S2|].
  split; [destruct (meta a0); reflexivity|].
  split; [lia|]. split; [exact S5|]. split; [exact S6|].
  (* the data area *)
  set (td := {| t_end := t_end (tdata t); t_allocated := t_allocated (tdata t); t_new := t_new (tdata t); t_freed := t_freed (tdata t) |}).
  destruct ID as [Wf Hb He]. destruct H0 as [Wf0 Hb0 He0].
  destruct (area_rollback_spec (data a) td Wf Hb) as (E1 & W2 & Hset & _).
  - exact IS.
  - cbn [t_end td]. lia.
  - cbn [t_end td]. lia.
  - cbn [t_end t_allocated td]. intros id Hin Hlt. apply IDis; [exact Hin | lia].
  - cbn [t_end t_allocated td] in *.
    assert (Hsame: forall id, inl id (fregions (a_free (area_rollback (data a) td))) <-> inl id (fregions (a_free (data a0)))).
    { intros id. rewrite Hset. rewrite IE. split.
      - intros [Hlt H]. apply (ISet id Hlt). exact H.
      - intros H. pose proof (Hb0 _ H) as Hlt. split; [exact Hlt|]. apply (ISet id Hlt). exact H. }
    split; [congruence|]. split; [exact W2|]. split; [exact Hsame|].
    destruct W2 as [W2l W2a]. destruct Wf0 as [W0l W0a]. rewrite W2a, W0a.
    apply (same_set_count _ _ 2 W2l W0l Hsame).
Qed.
