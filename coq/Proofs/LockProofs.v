(* Interleaving semantics of any number of threads over the file lock, and its invariants. *)
From VF Require Import Lock.
From Coq Require Import Lia.

(* relational presentation of thread_step, convenient for inversion *)
Inductive tstep : lk -> nat -> pc -> lk -> nat -> pc -> Prop :=
| r_begin l v : pending l = false -> tstep l v R0 {| shared := S (shared l); pending := pending l; reserved := reserved l |} v (R1 v)
| r_read l v w : tstep l v (R1 w) l v (R1 w)
| r_close l v w n : shared l = S n -> tstep l v (R1 w) {| shared := n; pending := pending l; reserved := reserved l |} v R2
| w_begin l v : reserved l = false -> tstep l v W0 {| shared := shared l; pending := pending l; reserved := true |} v W1
| w_work l v : tstep l v W1 l v W1
| w_rollback l v : reserved l = true -> tstep l v W1 {| shared := shared l; pending := pending l; reserved := false |} v Wd
| w_pending l v : tstep l v W1 {| shared := shared l; pending := true; reserved := reserved l |} v W2
| w_io l v : tstep l v W2 l v W2
| w_io3 l v : tstep l v W3 l v W3
| w_fail l v : tstep l v W2 {| shared := shared l; pending := false; reserved := reserved l |} v W5
| w_excl l v : shared l = 0 -> tstep l v W2 l v W3
| w_switch l v : tstep l v W3 l (S v) W4
| w_noswitch l v : tstep l v W3 l v W4
| w_unpend l v : tstep l v W4 {| shared := shared l; pending := false; reserved := reserved l |} v W5
| w_release l v : reserved l = true -> tstep l v W5 {| shared := shared l; pending := pending l; reserved := false |} v Wd.

Lemma thread_step_sound l v p lab l' v' p' :
  thread_step l v p lab = Some (l', v', p') -> tstep l v p l' v' p'.
Proof.
  destruct l as [s pd rs].
  destruct p, lab; cbn; try discriminate;
    repeat match goal with
    | |- context [if ?b then _ else _] => destruct b eqn:?
    | |- context [match ?n with O => _ | S _ => _ end] => destruct n eqn:?
    end; cbn; try discriminate; intros [= <- <- <-]; subst;
    try (econstructor; cbn; eauto; fail).
Qed.

Lemma thread_step_complete l v p l' v' p' :
  tstep l v p l' v' p' -> exists lab, thread_step l v p lab = Some (l', v', p').
Proof.
  intros H; inversion H; subst.
  - exists LBegin. cbn. rewrite H0. reflexivity.
  - exists LWork. reflexivity.
  - exists LClose. cbn. rewrite H0. reflexivity.
  - exists LWBegin. cbn. rewrite H0. reflexivity.
  - exists LWWork. reflexivity.
  - exists LRollback. cbn. rewrite H0. reflexivity.
  - exists LPend. reflexivity.
  - exists LIO. reflexivity.
  - exists LIO. reflexivity.
  - exists LFail. reflexivity.
  - exists LExcl. cbn. rewrite H0. destruct l'; cbn in *; subst; reflexivity.
  - exists LSwitch. reflexivity.
  - exists LNoSwitch. reflexivity.
  - exists LUnpend. reflexivity.
  - exists LRelease. cbn. rewrite H0. reflexivity.
Qed.

Definition cfg := (lk * nat * list pc)%type.

Fixpoint upd (ts : list pc) (i : nat) (p : pc) : list pc :=
  match ts, i with
  | [], _ => []
  | _ :: r, 0 => p :: r
  | x :: r, S j => x :: upd r j p
  end.

Inductive step : cfg -> cfg -> Prop :=
| step_i l v ts i p l' v' p' : nth_error ts i = Some p -> tstep l v p l' v' p' -> step (l, v, ts) (l', v', upd ts i p').

Inductive reach (c0 : cfg) : cfg -> Prop :=
| reach_refl : reach c0 c0
| reach_step c c' : reach c0 c -> step c c' -> reach c0 c'.

Definition isR1 p := match p with R1 _ => true | _ => false end.
Definition isW p := match p with W1 | W2 | W3 | W4 | W5 => true | _ => false end.   (* holds reserved *)
Definition isP p := match p with W2 | W3 | W4 => true | _ => false end.             (* holds pending *)
Definition isX p := match p with W3 | W4 => true | _ => false end.                  (* past exclusive *)
Definition isDone p := match p with R2 | Wd => true | _ => false end.
Definition isInit p := match p with R0 | W0 => true | _ => false end.

Fixpoint cnt (f : pc -> bool) (ts : list pc) : nat :=
  match ts with [] => 0 | x :: r => (if f x then 1 else 0) + cnt f r end.

Lemma cnt_upd f ts : forall i p p', nth_error ts i = Some p ->
  cnt f (upd ts i p') + (if f p then 1 else 0) = cnt f ts + (if f p' then 1 else 0).
Proof.
  induction ts as [|x r IH]; intros [|j] p p' H; simpl in *; try discriminate.
  - inversion H; subst. lia.
  - specialize (IH j p p' H). lia.
Qed.

Lemma cnt_pos f ts : 0 < cnt f ts -> exists i p, nth_error ts i = Some p /\ f p = true.
Proof.
  induction ts as [|x r IH]; simpl; intros H; [lia|].
  destruct (f x) eqn:E.
  - exists 0, x. auto.
  - destruct IH as [i [p [Hi Hp]]]; [lia|]. exists (S i), p. auto.
Qed.

Lemma cnt_in f ts i p : nth_error ts i = Some p -> f p = true -> 0 < cnt f ts.
Proof.
  revert i; induction ts as [|x r IH]; intros [|j] H Hf; simpl in *; try discriminate.
  - inversion H; subst. rewrite Hf. lia.
  - specialize (IH j H Hf). lia.
Qed.

Record Inv (c : cfg) : Prop := {
  i_shared : shared (fst (fst c)) = cnt isR1 (snd c);
  i_w1 : cnt isW (snd c) <= 1;
  i_res : reserved (fst (fst c)) = (0 <? cnt isW (snd c));
  i_pend : pending (fst (fst c)) = (0 <? cnt isP (snd c));
  i_x : 0 < cnt isX (snd c) -> cnt isR1 (snd c) = 0;
  i_ver : forall i w, nth_error (snd c) i = Some (R1 w) -> w = snd (fst c) }.

Lemma isP_isW p : isP p = true -> isW p = true. Proof. destruct p; simpl; congruence. Qed.
Lemma isX_isP p : isX p = true -> isP p = true. Proof. destruct p; simpl; congruence. Qed.

Lemma cnt_le f g ts : (forall p, f p = true -> g p = true) -> cnt f ts <= cnt g ts.
Proof.
  intros H. induction ts as [|x r IH]; simpl; [lia|].
  destruct (f x) eqn:E; [rewrite (H _ E); lia|destruct (g x); lia].
Qed.

Lemma nth_upd_same ts : forall i p p', nth_error ts i = Some p -> nth_error (upd ts i p') i = Some p'.
Proof. induction ts as [|x r IH]; intros [|j] p p' H; simpl in *; try discriminate; eauto. Qed.
Lemma nth_upd_other ts : forall i j p', i <> j -> nth_error (upd ts i p') j = nth_error ts j.
Proof. induction ts as [|x r IH]; intros [|i] [|j] p' H; simpl in *; try reflexivity; try lia. apply IH. lia. Qed.


Ltac nb := repeat match goal with
  | H : context[Nat.ltb ?a ?b] |- _ => destruct (Nat.ltb_spec a b)
  | |- context[Nat.ltb ?a ?b] => destruct (Nat.ltb_spec a b)
  end; try reflexivity; try discriminate; try lia.

Lemma step_inv c c' : Inv c -> step c c' -> Inv c'.
Proof.
  intros [Hs Hw Hr Hp Hx Hv] Hstep. destruct Hstep as [l v ts i p l' v' p' Hn Ht]. simpl in *.
  pose proof (cnt_upd isR1 ts i p p' Hn) as C1.
  pose proof (cnt_upd isW ts i p p' Hn) as CW.
  pose proof (cnt_upd isP ts i p p' Hn) as CP.
  pose proof (cnt_upd isX ts i p p' Hn) as CX.
  pose proof (cnt_le isP isW ts isP_isW) as LPW.
  pose proof (cnt_le isX isP ts isX_isP) as LXP.
  assert (Hother: forall j w, i <> j -> nth_error (upd ts i p') j = Some (R1 w) -> w = v /\ 0 < cnt isR1 ts).
  { intros j w Hne Hj. rewrite nth_upd_other in Hj by exact Hne. split; [eauto|]. eapply cnt_in; eauto. }
  assert (Hsame: forall j w, i = j -> nth_error (upd ts i p') j = Some (R1 w) -> p' = R1 w).
  { intros j w <- Hj. rewrite (nth_upd_same _ _ _ _ Hn) in Hj. inversion Hj. reflexivity. }
  inversion Ht; subst; simpl in *; constructor; simpl;
    try rewrite Hr in *; try rewrite Hp in *; try (rewrite Hs in *);
    try solve [nb];
    try solve [intros HX; nb];
    try solve [intros j w' Hj; destruct (Nat.eq_dec i j) as [E|E];
               [apply (Hsame _ _ E) in Hj; inversion Hj; subst; eauto
               |destruct (Hother _ _ E Hj) as [? ?]; subst; try reflexivity;
                (* switch: an R1 thread exists although thread i is past exclusive *)
                exfalso; assert (0 < cnt isX ts) by (eapply cnt_in; eauto);
                specialize (Hx ltac:(assumption)); lia]].
Qed.

Definition init_ok (c : cfg) := fst (fst c) = {| shared := 0; pending := false; reserved := false |} /\
  Forall (fun p => isInit p = true) (snd c).

Lemma cnt_zero f ts : Forall (fun p => f p = false) ts -> cnt f ts = 0.
Proof. induction 1; simpl; [reflexivity|]. rewrite H. exact IHForall. Qed.

Lemma init_inv c : init_ok c -> Inv c.
Proof.
  destruct c as [[l v] ts]. intros [Hl Hts]. simpl in *. subst l.
  assert (Z: forall f, (forall p, isInit p = true -> f p = false) -> cnt f ts = 0).
  { intros f Hf. apply cnt_zero. eapply Forall_impl; [|exact Hts]. simpl. auto. }
  assert (cnt isR1 ts = 0) by (apply Z; intros []; simpl; congruence).
  assert (cnt isW ts = 0) by (apply Z; intros []; simpl; congruence).
  assert (cnt isP ts = 0) by (apply Z; intros []; simpl; congruence).
  assert (cnt isX ts = 0) by (apply Z; intros []; simpl; congruence).
  constructor; simpl; try rewrite H; try rewrite H0; try rewrite H1; try rewrite H2; try reflexivity; try lia.
  intros i w Hi. exfalso. rewrite Forall_forall in Hts. apply nth_error_In in Hi. specialize (Hts _ Hi). discriminate.
Qed.

Theorem reach_inv c0 c : init_ok c0 -> reach c0 c -> Inv c.
Proof. intros H0 R. induction R; [apply init_inv; exact H0|eapply step_inv; eauto]. Qed.

Theorem one_writer c0 c : init_ok c0 -> reach c0 c -> cnt isW (snd c) <= 1.
Proof. intros H R. apply (i_w1 _ (reach_inv _ _ H R)). Qed.

Theorem switch_exclusive c0 c i : init_ok c0 -> reach c0 c -> nth_error (snd c) i = Some W3 ->
  cnt isR1 (snd c) = 0 /\ pending (fst (fst c)) = true.
Proof.
  intros H R Hi. pose proof (reach_inv _ _ H R) as I. split.
  - apply (i_x _ I). eapply cnt_in; eauto.
  - rewrite (i_pend _ I). apply Nat.ltb_lt. eapply cnt_in; eauto.
Qed.

Theorem reader_view_stable c0 c i w : init_ok c0 -> reach c0 c -> nth_error (snd c) i = Some (R1 w) -> w = snd (fst c).
Proof. intros H R Hi. eapply (i_ver _ (reach_inv _ _ H R)); eauto. Qed.

Theorem idle_when_quiescent c0 c : init_ok c0 -> reach c0 c ->
  Forall (fun p => isDone p = true \/ isInit p = true) (snd c) ->
  fst (fst c) = {| shared := 0; pending := false; reserved := false |}.
Proof.
  intros H R Hq. pose proof (reach_inv _ _ H R) as [Hs _ Hr Hp _ _]. destruct c as [[[s pd rs] v] ts]. simpl in *.
  assert (Z: forall f, (forall p, isDone p = true \/ isInit p = true -> f p = false) -> cnt f ts = 0).
  { intros f Hf. apply cnt_zero. eapply Forall_impl; [|exact Hq]. simpl. auto. }
  rewrite (Z isR1) in Hs by (intros [] [?|?]; simpl in *; congruence).
  rewrite (Z isW) in Hr by (intros [] [?|?]; simpl in *; congruence).
  rewrite (Z isP) in Hp by (intros [] [?|?]; simpl in *; congruence).
  cbn in *. subst. reflexivity.
Qed.

Theorem no_deadlock c0 c : init_ok c0 -> reach c0 c ->
  (exists i p, nth_error (snd c) i = Some p /\ isDone p = false) -> exists c', step c c'.
Proof.
  intros H R [i [p [Hi Hnd]]]. pose proof (reach_inv _ _ H R) as [Hs Hw Hr Hp Hx _].
  destruct c as [[l v] ts]. simpl in *.
  destruct (Nat.eq_dec (cnt isR1 ts) 0) as [HR0|HR].
  2:{ destruct (cnt_pos isR1 ts ltac:(lia)) as [j [q [Hj Hq]]]. destruct q; try discriminate.
      eexists. eapply (step_i l v ts j); [exact Hj|apply r_read]. }
  destruct (Nat.eq_dec (cnt isW ts) 0) as [HW0|HW].
  2:{ destruct (cnt_pos isW ts ltac:(lia)) as [j [q [Hj Hq]]].
      assert (Hres: reserved l = true) by (rewrite Hr; apply Nat.ltb_lt; lia).
      destruct q; try discriminate; eexists; eapply (step_i l v ts j); try exact Hj.
      - apply w_work. - apply w_io. - apply w_switch. - apply w_unpend. - apply w_release; exact Hres. }
  assert (HP0: cnt isP ts = 0) by (pose proof (cnt_le isP isW ts isP_isW); lia).
  rewrite HW0 in Hr. rewrite HP0 in Hp. simpl in *.
  destruct p; try discriminate.
  - eexists. eapply (step_i l v ts i); [exact Hi|apply r_begin; exact Hp].
  - exfalso. assert (0 < cnt isR1 ts) by (eapply cnt_in; eauto). lia.
  - eexists. eapply (step_i l v ts i); [exact Hi|apply w_begin; exact Hr].
  - exfalso. assert (0 < cnt isW ts) by (eapply cnt_in; eauto). lia.
  - exfalso. assert (0 < cnt isW ts) by (eapply cnt_in; eauto). lia.
  - exfalso. assert (0 < cnt isW ts) by (eapply cnt_in; eauto). lia.
  - exfalso. assert (0 < cnt isW ts) by (eapply cnt_in; eauto). lia.
  - exfalso. assert (0 < cnt isW ts) by (eapply cnt_in; eauto). lia.
Qed.

(* the committed version changes only in the switch step of a thread that is past Exclusive *)
Lemma version_changes_only_at_switch c c' :
  step c c' -> snd (fst c') <> snd (fst c) ->
  exists i, nth_error (snd c) i = Some W3 /\ nth_error (snd c') i = Some W4 /\ snd (fst c') = S (snd (fst c)).
Proof.
  intros Hs Hne. destruct Hs as [l v ts i p l' v' p' Hn Ht]. cbn in *.
  inversion Ht; subst; try congruence.
  exists i. split; [exact Hn|]. split; [eapply nth_upd_same; eauto | reflexivity].
Qed.

(* a reader can begin whenever no commit holds Pending; a writer's Begin only needs Reserved *)
Lemma reader_enabled_iff l v : (exists r, thread_step l v R0 LBegin = Some r) <-> pending l = false.
Proof.
  cbn. destruct (pending l); cbn; split; intros H.
  - destruct H as [r H]. discriminate.
  - discriminate.
  - reflexivity.
  - eexists. reflexivity.
Qed.

(* every complete API program, run alone from an idle lock, ends with an idle lock *)
Lemma programs_release_everything v :
  run_labels lk_idle v R0 (prog_begin_readonly ++ [LWork] ++ prog_reader_close) = Some (lk_idle, v, R2) /\
  run_labels lk_idle v W0 (prog_begin ++ [LWWork] ++ prog_rollback) = Some (lk_idle, v, Wd) /\
  run_labels lk_idle v W0 (prog_begin ++ [LWWork] ++ prog_commit_ok) = Some (lk_idle, S v, Wd) /\
  run_labels lk_idle v W0 (prog_begin ++ [LWWork] ++ prog_commit_fail) = Some (lk_idle, v, Wd) /\
  run_labels lk_idle v W0 prog_init_tx_ok = Some (lk_idle, S v, Wd) /\
  run_labels lk_idle v W0 prog_init_tx_fail = Some (lk_idle, v, Wd) /\
  run_labels lk_idle v W0 prog_file_close = Some (lk_idle, v, Wd).
Proof. repeat split. Qed.

(* a run of labels is a sequence of steps of the interleaving semantics (thread i) *)
Lemma run_labels_reach c0 l v ts i p labs l' v' p' :
  reach c0 (l, v, ts) -> nth_error ts i = Some p ->
  run_labels l v p labs = Some (l', v', p') -> reach c0 (l', v', upd ts i p').
Proof.
  revert l v ts p. induction labs as [|lab labs IH]; intros l v ts p R Hn Hr; cbn in Hr.
  - injection Hr as <- <- <-.
    assert (E: upd ts i p = ts).
    { clear R. revert i Hn. induction ts as [|x r IHr]; intros [|j] Hn; cbn in *; try discriminate.
      - injection Hn as ->. reflexivity. - f_equal. apply IHr. exact Hn. }
    rewrite E. exact R.
  - destruct (thread_step l v p lab) as [[[l1 v1] p1]|] eqn:E; [|discriminate].
    assert (R1: reach c0 (l1, v1, upd ts i p1)).
    { eapply reach_step; [exact R|]. eapply (step_i l v ts i p); [exact Hn|]. apply thread_step_sound in E. exact E. }
    specialize (IH l1 v1 (upd ts i p1) p1 R1 (nth_upd_same _ _ _ _ Hn) Hr).
    assert (Eu: upd (upd ts i p1) i p' = upd ts i p').
    { clear. revert i. induction ts as [|x r IHr]; intros [|j]; cbn; try reflexivity. f_equal. apply IHr. }
    rewrite Eu in IH. exact IH.
Qed.
