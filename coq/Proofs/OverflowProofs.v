(* metaManager.tryGrow with the overflow area enabled (Tx option EnableOverflowArea): when the data area cannot
   provide the pages the meta area needs, ALL pages the data area still has are moved to the meta area and the
   rest is taken from the end of the file, beyond the size limit. The pages taken there are fresh: at or beyond
   both end markers, hence in no list and never handed out before. *)
From VF Require Import Region Freelist Alloc RegionProofs AllocProofs TxAllocProofs MetaAllocProofs ShrinkProofs.
From Coq Require Import Lia ZifyBool.

Lemma data_alloc_regions_tx a t n regs cnt a' t' :
  data_alloc_regions a t n = (regs, cnt, a', t') ->
  moveToMeta t' = moveToMeta t /\ st_ovf_alloc t' = st_ovf_alloc t /\ tmeta t' = tmeta t.
Proof.
  unfold data_alloc_regions. destruct (data_avail a <? n); [intros [= _ _ _ <-]; repeat split|].
  unfold alloc_from_freelist. destruct (fl_alloc_regions false (a_free (data a)) (Z.min n (avail (a_free (data a))))) as [r1 f1].
  intros [= _ _ _ <-]. cbn. repeat split; lia.
Qed.

Theorem try_grow_overflow_spec a t count ok a' t' :
  DataInv a -> wff 2 (a_free (meta a)) ->
  (* the meta free list: disjoint from the data free list, inside the file, and what lies behind the data area
     lies beyond the limit (the overflow area) *)
  (forall id, inl id (Mset a) -> ~ inl id (Dset a) /\ id < a_end (meta a) /\ (id < a_end (data a) \/ maxPages a <= id)) ->
  a_end (data a) <= a_end (meta a) ->
  0 < maxPages a -> 0 < count < 2^32 -> data_avail a < count ->
  try_grow a t count true = (ok, a', t') ->
  let av := data_avail a in
  let required := count - av in
  exists regs E,
    ok = true /\
    (* everything the data area had left is moved ... *)
    count_pages regs = av /\ wfl 2 regs /\
    (forall id, inl id regs -> inl id (Dset a) \/ a_end (data a) <= id) /\
    (forall id, inl id regs -> ~ inl id (Dset a') /\ id < a_end (data a')) /\
    (forall id, inl id (Dset a') -> inl id (Dset a)) /\
    DataInv a' /\
    (* ... and [E, E + required) is appended to the file *)
    a_end (meta a) <= E /\ a_end (data a') <= E /\ E <= Z.max (a_end (meta a)) (maxPages a) /\
    a_end (data a') <= Z.max (a_end (data a)) (maxPages a) /\
    a_end (meta a') = E + required /\ 0 < required /\
    wff 2 (a_free (meta a')) /\
    (forall id, inl id (Mset a') <-> inl id (Mset a) \/ inl id regs \/ E <= id < E + required) /\
    metaTotal a' = metaTotal a + count /\
    moveToMeta t' = moveToMeta t ++ regs /\
    st_ovf_alloc t' = st_ovf_alloc t + required /\
    maxPages a' = maxPages a /\
    (* the transaction record: pages taken from the data free list are remembered as allocated *)
    (exists regs1 regs2, regs = regs1 ++ regs2 /\ wfl 2 regs1 /\
       (forall id, inl id regs1 <-> inl id (Dset a) /\ ~ inl id (Dset a')) /\
       (forall id, inl id regs2 -> a_end (data a) <= id) /\
       t_allocated (tdata t') = set_add_all (regions_ids regs1) (t_allocated (tdata t))) /\
    t_end (tdata t') = t_end (tdata t) /\ t_end (tmeta t') = t_end (tmeta t) /\
    t_allocated (tmeta t') = t_allocated (tmeta t) /\
    pageSize a' = pageSize a /\ flRoot a' = flRoot a /\ flPages a' = flPages a.
Proof.
  intros ID Wm Hmd Hends Hmx Hc Hav. cbv zeta. unfold try_grow.
  replace (count =? 0) with false by lia. replace (data_avail a <? count) with true by lia. cbn [negb].
  set (av := data_avail a) in *.
  assert (Hav0: 0 <= av).
  { unfold av, data_avail. replace (maxPages a =? 0) with false by lia.
    destruct ID as [[W Hv] _ _]. rewrite Hv. pose proof (count_pages_nonneg _ _ W).
    destruct (a_end (data a) <? maxPages a) eqn:E; lia. }
  destruct (data_alloc_regions a t av) as [[[regs n] a1] t1] eqn:Ea.
  destruct (data_alloc_regions_spec0 a t av regs n a1 t1 ID ltac:(lia) Ea) as [_ Hok].
  destruct (Hok ltac:(unfold av; lia)) as (Hn & Hcnt & Wr & Hfrom & Hgone & ID1 & Hsub & Mf & Mt & Mp & Hav1).
  pose proof (data_alloc_regions_ends _ _ _ _ _ _ _ Ea) as (Hme1 & Hme2 & Hme3 & Hov & Hpc).
  assert (Hlim: a_end (data a1) <= Z.max (a_end (data a)) (maxPages a)).
  { destruct (Z.eq_dec av 0) as [Hz|Hnz].
    - (* nothing to take: the data area is unchanged *)
      assert (Hd: a_end (data a) <= a_end (data a1) \/ True) by (right; exact I).
      revert Ea. unfold data_alloc_regions. fold av. rewrite Hz. replace (0 <? 0) with false by reflexivity.
      unfold alloc_from_freelist. destruct (fl_alloc_regions false (a_free (data a)) (Z.min 0 (avail (a_free (data a))))) as [r1 f1].
      assert (Hmin: Z.min 0 (avail (a_free (data a))) = 0).
      { destruct ID as [[W Hv] _ _]. rewrite Hv. pose proof (count_pages_nonneg _ _ W). lia. }
      rewrite Hmin. cbn [Z.sub Z.ltb Z.compare andb]. intros [= _ _ <- _]. cbn [data a_end set_data set_meta]. lia.
    - assert (Hdav: 0 <= avail (a_free (data a))).
      { destruct ID as [[W Hv] _ _]. rewrite Hv. exact (count_pages_nonneg _ _ W). }
      assert (Hpos: 0 < av) by lia.
      exact (proj1 (data_alloc_regions_limit a t av regs n a1 t1 Hpos Hmx Hdav Ea)). }
  destruct (transfer_all a1 t1 regs) as [a2 t2] eqn:Et.
  assert (Wm1: wff 2 (a_free (meta a1))) by (rewrite Mf; exact Wm).
  assert (Hdis: forall id, inl id regs -> ~ inl id (fregions (a_free (meta a1)))).
  { intros id H Hm. rewrite Mf in Hm. destruct (Hmd _ Hm) as (Hnd & Hlt & Hwhere).
    destruct (Hfrom _ H) as [Hd|Hge]; [exact (Hnd Hd)|].
    destruct (Hgone _ H) as [_ Hlt1]. lia. }
  destruct (transfer_all_spec regs a1 t1 a2 t2 Wm1 Wr Hdis Et) as (Wm2 & Hset2 & Ht2 & Hmv2 & Sb & Stx).
  destruct Sb as (B1 & B2 & B3 & B4 & B5 & B6). destruct Stx as (X1 & X2 & X3 & X4 & X5).
  set (required := count - av) in *.
  assert (Hreq: 0 < required < 2^32) by (unfold required; lia).
  rewrite area_regions_one by exact Hreq. cbn [fold_left regions_ids flat_map].
  replace (0 <? required) with true by lia.
  set (E := a_end (meta a2)) in *.
  assert (HE: E = a_end (meta a1)) by (unfold E; exact B4).
  assert (Hde: a_end (data a1) <= E) by (rewrite HE; apply Hme3; exact Hends).
  assert (Hfresh: forall id, inr id {| rid := E; rcount := required |} -> ~ inl id (fregions (a_free (meta a2)))).
  { intros id H Hm. unfold inr, rend in H. cbn [rid rcount] in H. apply Hset2 in Hm as [Hm|Hm].
    - rewrite Mf in Hm. destruct (Hmd _ Hm) as (_ & Hlt & _). lia.
    - destruct (Hgone _ Hm) as [_ Hlt]. lia. }
  destruct (fl_add_region_spec (a_free (meta a2)) {| rid := E; rcount := required |} 2 Wm2
              ltac:(cbn [rid]; pose proof (di_end _ ID1); lia) ltac:(cbn [rcount]; exact Hreq) Hfresh) as (Wm3 & Hset3 & _).
  cbn [maxPages set_meta set_data]. rewrite B1, Mp. replace (maxPages a =? 0) with false by lia. cbn [andb].
  intros [= <- <- <-].
  exists regs, E.
  cbn [data meta a_end a_free metaTotal maxPages set_meta set_data moveToMeta st_ovf_alloc tx_stats tx_with].
  rewrite B3.
  split; [reflexivity|]. split; [exact Hcnt|]. split; [exact Wr|]. split; [exact Hfrom|]. split; [exact Hgone|].
  split; [exact Hsub|].
  split; [destruct ID1 as [W1 Hb1 He1]; constructor; cbn [data set_meta]; rewrite B3; assumption|].
  split; [lia|]. split; [exact Hde|]. split; [lia|]. split; [exact Hlim|]. split; [reflexivity|]. split; [lia|].
  split; [exact Wm3|].
  split.
  { intros id. rewrite Hset3, Hset2, Mf. unfold inr, rend. cbn [rid rcount]. tauto. }
  split; [rewrite Ht2, Mt, Hcnt; unfold required; lia|].
  destruct (data_alloc_regions_tx _ _ _ _ _ _ _ Ea) as (Y1 & Y2 & Y3).
  split; [rewrite Hmv2, Y1; reflexivity|].
  split; [rewrite X3, Y2; lia|].
  split; [rewrite B1; exact Mp|].
  destruct (data_alloc_tx_spec0 a t av regs n a1 t1 ID ltac:(lia) ltac:(unfold av; lia) Ea)
    as (regs1 & regs2 & Hsplit & W1 & H1 & _ & H2 & HA & _ & _ & _ & (_ & S2 & _ & _ & S5 & S6) & (T1 & T2 & T3 & T4)).
  split.
  { exists regs1, regs2. split; [exact Hsplit|]. split; [exact W1|]. split; [exact H1|]. split; [exact H2|].
    cbn [tdata]. rewrite X1. exact HA. }
  cbn [tdata tmeta tx_stats tx_with ta_new t_end t_allocated pageSize flRoot flPages set_meta].
  rewrite X1, X2, T2, T4, B2, B5, B6, S2, S5, S6. repeat split; reflexivity.
Qed.

(* ---------- abort after a growth into the overflow area (C07; the repair of D6) ----------
   A transaction with the overflow area enabled that made the meta area grow beyond the end of the file and
   is then rolled back leaves the allocator as it found it: end markers, meta-area size, and both free lists as
   sets of pages with their counts. *)
Theorem rollback_after_overflow_growth a0 p count ok a t :
  DataInv a0 -> wff 2 (a_free (meta a0)) ->
  (forall id, inl id (Mset a0) -> ~ inl id (Dset a0) /\ id < a_end (meta a0) /\ (id < a_end (data a0) \/ maxPages a0 <= id)) ->
  a_end (data a0) <= a_end (meta a0) ->
  0 < maxPages a0 -> 0 < count < 2^32 -> data_avail a0 < count ->
  Z.max (a_end (meta a0)) (maxPages a0) + count - a_end (data a0) < 2^32 ->
  try_grow a0 (make_tx a0 true p) count true = (ok, a, t) ->
  let r := rollback a t in
  maxPages r = maxPages a0 /\ pageSize r = pageSize a0 /\ flRoot r = flRoot a0 /\ flPages r = flPages a0 /\
  metaTotal r = metaTotal a0 /\
  a_end (meta r) = a_end (meta a0) /\ wff 2 (a_free (meta r)) /\
  (forall id, inl id (Mset r) <-> inl id (Mset a0)) /\ avail (a_free (meta r)) = avail (a_free (meta a0)) /\
  a_end (data r) = a_end (data a0) /\ wff 2 (a_free (data r)) /\
  (forall id, inl id (Dset r) <-> inl id (Dset a0)) /\ avail (a_free (data r)) = avail (a_free (data a0)).
Proof.
  intros ID0 MW0 MB0 ME0 Hmx Hc Hav Hsmall Eg.
  destruct (try_grow_overflow_spec a0 _ count ok a t ID0 MW0 MB0 ME0 Hmx Hc Hav Eg)
    as (regs & E & _ & Hcnt & Wr & Hfrom & Hgone & Hsub & ID & HE1 & HE2 & HE4 & HE5 & HE3 & Hreq & Wm & Hmset & Htot & Hmv & Hovf & Hmp &
        (regs1 & regs2 & Hsplit & W1 & H1 & H2 & HA) & Td & Tm & Tma & Hps & Hfr & Hfp).
  cbn [make_tx moveToMeta st_ovf_alloc tdata tmeta t_end t_allocated app] in Hmv, Hovf, HA, Td, Tm, Tma.
  set (av := data_avail a0) in *. set (required := count - av) in *.
  set (e0 := a_end (data a0)) in *. set (m0 := a_end (meta a0)) in *.
  destruct ID0 as [Wd0 Hbd0 Hed0]. destruct ID as [Wd Hbd Hed].
  assert (Hav0: 0 <= av) by (rewrite <- Hcnt; exact (count_pages_nonneg _ _ Wr)).
  cbv zeta. rewrite rollback_unfold. cbv zeta.
  (* the meta area: everything at or past the old end marker goes *)
  destruct (area_rollback_spec (meta a) (tmeta t) Wm) as (Em1 & Wm1 & Hsm1 & _).
  { intros id H. apply Hmset in H as [H|[H|H]].
    - destruct (MB0 _ H) as (_ & B & _). unfold m0 in *. lia.
    - destruct (Hgone _ H) as [_ B]. lia.
    - lia. }
  { rewrite Tma. constructor. }
  { rewrite Tm. unfold m0, e0 in *. lia. }
  { rewrite Tm, HE3. unfold m0, e0 in *. lia. }
  { rewrite Tma. intros id []. }
  rewrite Tm in Em1, Hsm1. rewrite Tma in Hsm1.
  destruct (fold_left (rb_step (t_end (tdata t))) (moveToMeta t)
              (a_free (area_rollback (meta a) (tmeta t)), metaTotal a - st_ovf_alloc t, t_allocated (tdata t)))
    as [[mf mt] dalloc] eqn:Ef.
  destruct (rollback_fold _ _ _ _ _ _ _ _ Wm1 Ef) as (Wmf & Hsmf & Hmt & Hdal & Hsorted).
  rewrite Hmv in Hsmf, Hmt, Hdal, Hsorted. rewrite Td in Hdal.
  cbn [maxPages pageSize flRoot flPages metaTotal meta data a_end a_free].
  assert (Hregdis: forall id, inl id (Mset a0) -> ~ inl id regs).
  { intros id H0 Hr. destruct (MB0 _ H0) as (A & B & C). destruct (Hfrom _ Hr) as [D|D]; [exact (A D)|].
    destruct (Hgone _ Hr) as [_ G]. destruct C as [C|C]; [unfold e0 in *; lia|]. unfold e0 in *. lia. }
  assert (Hmset': forall id, inl id (fregions mf) <-> inl id (Mset a0)).
  { intros id. rewrite Hsmf, Hsm1. split.
    - intros [[Hlt [Hor|[]]] Hnr]. apply Hmset in Hor as [H|[H|H]]; [exact H | contradiction | unfold m0 in *; lia].
    - intros H0. destruct (MB0 _ H0) as (_ & B & _). split; [|apply Hregdis; exact H0].
      split; [exact B|]. left. apply Hmset. left. exact H0. }
  (* the data area *)
  set (td := {| t_end := t_end (tdata t); t_allocated := dalloc; t_new := t_new (tdata t); t_freed := t_freed (tdata t) |}).
  assert (Hreg2: forall x, inl x regs -> 2 <= x) by (intros x H; exact (wfl_lower _ _ _ Wr H)).
  destruct (area_rollback_spec (data a) td Wd Hbd) as (Ed & Wdr & Hsd & _).
  { cbn [td t_allocated]. apply Hsorted; [|exact Hreg2]. rewrite HA.
    apply set_add_all_sorted; [constructor|]. intros x Hx. apply regions_ids_in in Hx. exact (wfl_lower _ _ _ W1 Hx). }
  { cbn [td t_end]. rewrite Td. exact Hed0. }
  { cbn [td t_end]. rewrite Td. unfold e0, m0 in *. lia. }
  { cbn [td t_end t_allocated]. rewrite Td. intros id H Hlt. apply Hdal in H as [H|(r & Hin & _ & Hx)].
    - rewrite HA in H. apply set_add_all_in in H as [H|[]]. apply regions_ids_in in H. apply H1 in H. tauto.
    - assert (Hv: inl id regs) by (exists r; split; assumption). destruct (Hgone _ Hv) as [A _]. exact A. }
  cbn [td t_end t_allocated] in Ed, Hsd. rewrite Td in Ed, Hsd.
  assert (Hdset: forall id, inl id (fregions (a_free (area_rollback (data a) td))) <-> inl id (Dset a0)).
  { intros id. rewrite Hsd. split.
    - intros [Hlt [H|H]]; [apply Hsub; exact H|].
      apply Hdal in H as [H|(r & Hin & Hrl & Hx)].
      + rewrite HA in H. apply set_add_all_in in H as [H|[]]. apply regions_ids_in in H. apply H1 in H. tauto.
      + assert (Hv: inl id regs) by (exists r; split; assumption).
        destruct (Hfrom _ Hv) as [D|D]; [exact D | unfold e0 in *; lia].
    - intros H0. pose proof (Hbd0 _ H0) as Hlt. split; [exact Hlt|].
      destruct (classic_inl id (Dset a)) as [Hy|Hno]; [left; exact Hy|].
      right. apply Hdal. left. rewrite HA. apply set_add_all_in. left. apply regions_ids_in. apply H1. split; assumption. }
  split; [exact Hmp|]. split; [exact Hps|]. split; [exact Hfr|]. split; [exact Hfp|].
  split; [rewrite Hmt, Htot, Hovf, Hcnt; unfold required; lia|].
  split; [exact Em1|].
  split; [exact Wmf|]. split; [exact Hmset'|].
  split; [destruct Wmf as [A1 A2]; destruct MW0 as [B1 B2]; rewrite A2, B2; apply (same_set_count _ _ 2 A1 B1 Hmset')|].
  split; [exact Ed|]. split; [exact Wdr|]. split; [exact Hdset|].
  destruct Wdr as [A1 A2]. destruct Wd0 as [B1 B2]. rewrite A2, B2. apply (same_set_count _ _ 2 A1 B1 Hdset).
Qed.

(* non-vacuity: a bounded file of 64 pages, 4 pages left in the data area, 2 in its free list; a growth by 10
   pages takes those 6 and appends 4 behind the limit; the rollback restores the state exactly *)
Definition ovf_ex : allocst :=
  {| maxPages := 64; pageSize := 1024;
     meta := {| a_end := 60; a_free := {| avail := 1; fregions := [{| rid := 5; rcount := 1 |}] |} |};
     metaTotal := 4;
     data := {| a_end := 60; a_free := {| avail := 2; fregions := [{| rid := 10; rcount := 2 |}] |} |};
     flRoot := 3; flPages := [{| rid := 3; rcount := 1 |}] |}.
Example ovf_ex_grow_and_rollback :
  data_avail ovf_ex = 6 /\
  (let '(ok, a, t) := try_grow ovf_ex (make_tx ovf_ex true 0) 10 true in
   ok = true /\ a_end (meta a) = 68 /\ a_end (data a) = 64 /\ metaTotal a = 14 /\ st_ovf_alloc t = 4 /\
   Mset a = [{| rid := 5; rcount := 1 |}; {| rid := 10; rcount := 2 |}; {| rid := 60; rcount := 8 |}] /\
   rollback a t = ovf_ex).
Proof. vm_compute. repeat split. Qed.
