From VF Require Import PQ BytesProofs.
From Coq Require Import Lia ZifyBool ZifyNat.

(* ---------- framing round trip ---------- *)
Lemma zeros_length n : length (zeros n) = n.
Proof. induction n; cbn; congruence. Qed.

Lemma slice_at (a b c : list Z) : slice (length a) (length b) (a ++ b ++ c) = b.
Proof.
  unfold slice. rewrite skipn_app, skipn_all, Nat.sub_diag. cbn [skipn app].
  rewrite firstn_app, Nat.sub_diag, firstn_all. cbn [firstn]. apply app_nil_r.
Qed.

Lemma frame_event_length P pos e : length (frame_event P pos e) = (pad_at P pos + hdr_len + length e)%nat.
Proof. unfold frame_event. rewrite !app_length, zeros_length, le_encode_length. lia. Qed.

(* every event size that fits the 4-byte size field, every page payload size, every starting position,
   whatever precedes and follows in the stream: the reader gets back exactly the events, in order *)
Theorem parse_layout P : forall evs pre post,
  Forall (fun e => Z.of_nat (length e) < 256 ^ Z.of_nat hdr_len) evs ->
  parse_from P (pre ++ layout_from P (length pre) evs ++ post) (length pre) (length evs) = Some evs.
Proof.
  induction evs as [|e rest IH]; intros pre post Hsz; [reflexivity|].
  inversion Hsz as [|? ? He Hrest]; subst.
  cbn [layout_from length parse_from].
  set (pad := pad_at P (length pre)).
  set (hdr := le_encode hdr_len (Z.of_nat (length e))).
  assert (Hf: frame_event P (length pre) e = zeros pad ++ hdr ++ e) by reflexivity.
  rewrite Hf.
  set (tailS := layout_from P (length pre + length (zeros pad ++ hdr ++ e)) rest ++ post).
  (* the stream, re-associated around the header *)
  assert (Hs1: pre ++ ((zeros pad ++ hdr ++ e) ++ layout_from P (length pre + length (zeros pad ++ hdr ++ e)) rest) ++ post
               = (pre ++ zeros pad) ++ hdr ++ (e ++ tailS)).
  { unfold tailS. rewrite <- !app_assoc. reflexivity. }
  rewrite Hs1.
  assert (Hl1: (length pre + pad)%nat = length (pre ++ zeros pad)) by (rewrite app_length, zeros_length; reflexivity).
  assert (Hh: length hdr = hdr_len) by apply le_encode_length.
  rewrite Hl1.
  set (S1 := (pre ++ zeros pad) ++ hdr ++ e ++ tailS).
  assert (Hslice1: slice (length (pre ++ zeros pad)) hdr_len S1 = hdr).
  { unfold S1. rewrite <- Hh. apply slice_at. }
  rewrite !Hslice1. rewrite Hh, Nat.ltb_irrefl.
  assert (Hdec: Z.to_nat (le_decode hdr) = length e).
  { unfold hdr. rewrite le_decode_encode by lia. apply Nat2Z.id. }
  rewrite !Hdec.
  assert (Hslice2: slice (length (pre ++ zeros pad) + hdr_len) (length e) S1 = e).
  { unfold S1. replace ((pre ++ zeros pad) ++ hdr ++ e ++ tailS) with (((pre ++ zeros pad) ++ hdr) ++ e ++ tailS) by (rewrite <- !app_assoc; reflexivity).
    replace (length (pre ++ zeros pad) + hdr_len)%nat with (length ((pre ++ zeros pad) ++ hdr)) by (rewrite (app_length _ hdr), Hh; reflexivity).
    apply slice_at. }
  rewrite !Hslice2. rewrite Nat.ltb_irrefl.
  (* the rest *)
  assert (HS1: S1 = (pre ++ zeros pad ++ hdr ++ e) ++ tailS) by (unfold S1; rewrite <- !app_assoc; reflexivity).
  rewrite HS1.
  replace (length (pre ++ zeros pad) + hdr_len + length e)%nat with (length (pre ++ zeros pad ++ hdr ++ e))
    by (rewrite !app_length, Hh; lia).
  unfold tailS.
  replace (length pre + length (zeros pad ++ hdr ++ e))%nat with (length (pre ++ zeros pad ++ hdr ++ e)) by (rewrite !app_length; lia).
  rewrite (IH (pre ++ zeros pad ++ hdr ++ e) post Hrest). reflexivity.
Qed.

Corollary queue_delivers_what_was_written P evs :
  Forall (fun e => Z.of_nat (length e) < 256 ^ Z.of_nat hdr_len) evs ->
  parse_from P (layout P evs) 0 (length evs) = Some evs.
Proof.
  intros H. pose proof (parse_layout P evs [] [] H) as E. cbn [app length] in E.
  rewrite app_nil_r in E. exact E.
Qed.

(* appending more events (later flushes) does not change what the first n events parse to *)
Lemma layout_from_app P : forall a pos b,
  layout_from P pos (a ++ b) = layout_from P pos a ++ layout_from P (pos + length (layout_from P pos a)) b.
Proof.
  induction a as [|e a IH]; intros pos b; cbn [layout_from app].
  - rewrite Nat.add_0_r. reflexivity.
  - rewrite IH, <- app_assoc, app_length. f_equal. f_equal. f_equal. lia.
Qed.

Theorem prefix_stable P a b :
  Forall (fun e => Z.of_nat (length e) < 256 ^ Z.of_nat hdr_len) a ->
  parse_from P (layout P (a ++ b)) 0 (length a) = Some a.
Proof.
  intros H. unfold layout. rewrite layout_from_app.
  pose proof (parse_layout P a [] (layout_from P (0 + length (layout_from P 0 a)) b) H) as E.
  cbn [app length] in E. exact E.
Qed.

(* ---------- space: the framed stream is at most 7 bytes per event longer than the payload ---------- *)
Lemma pad_at_lt P pos : (pad_at P pos < hdr_len)%nat.
Proof.
  unfold pad_at. destruct (Nat.ltb_spec (P - pos mod P) hdr_len); [assumption|].
  unfold hdr_len. change pq_szEventHeader with 4. cbn. lia.
Qed.

Fixpoint total_bytes (evs : list (list Z)) : nat :=
  match evs with [] => 0 | e :: r => length e + total_bytes r end.

Theorem layout_space_bound P : forall evs pos,
  (length (layout_from P pos evs) <= total_bytes evs + (2 * hdr_len - 1) * length evs)%nat.
Proof.
  induction evs as [|e r IH]; intros pos; cbn [layout_from total_bytes length]; [lia|].
  rewrite app_length, frame_event_length. specialize (IH (pos + (pad_at P pos + hdr_len + length e))%nat).
  pose proof (pad_at_lt P pos). lia.
Qed.

(* ---------- positions ---------- *)
Theorem position_roundtrip ps page off : 0 < ps -> 0 < page -> 0 < off <= ps ->
  parse_position ps (write_position ps page off) = (page, off).
Proof.
  intros Hps Hpg Hoff. unfold parse_position, write_position.
  destruct (off =? ps) eqn:E.
  - assert (off = ps) by lia. subst off. rewrite Z.add_0_r, Z.div_mul by lia.
    replace (page * ps - page * ps) with 0 by lia. replace (page =? 0) with false by lia. reflexivity.
  - assert (Hd: (page * ps + off) / ps = page).
    { rewrite Z.add_comm, Z.div_add by lia. rewrite Z.div_small by lia. lia. }
    rewrite Hd. replace (page * ps + off - page * ps) with off by lia.
    replace (off =? 0) with false by lia. rewrite andb_false_r. reflexivity.
Qed.

(* ---------- event id order ---------- *)
Theorem id_less_irrefl a : id_less a a = false.
Proof. unfold id_less. rewrite Z.sub_diag. reflexivity. Qed.

Theorem id_less_succ a k : 0 < k < 2^63 -> id_less a (a + k) = true /\ id_less (a + k) a = false.
Proof.
  intros Hk. unfold id_less.
  replace (a - (a + k)) with (-k) by lia. replace (a + k - a) with k by lia.
  assert (E1: (- k) mod 2^64 = 2^64 - k).
  { rewrite Z.mod_opp_l_nz; rewrite ?(Z.mod_small k) by lia; lia. }
  rewrite E1, (Z.mod_small k) by lia. split; lia.
Qed.

(* asymmetric except for ids exactly 2^63 apart (int64 minimum) *)
Theorem id_less_asym a b : (a - b) mod 2^64 <> 2^63 -> id_less a b = true -> id_less b a = false.
Proof.
  unfold id_less. intros Hhalf H.
  pose proof (Z.mod_pos_bound (a - b) (2^64) ltac:(lia)) as Hb.
  assert (Hne: (a - b) mod 2^64 <> 0) by lia.
  replace (b - a) with (- (a - b)) by lia.
  rewrite Z.mod_opp_l_nz by (try lia; exact Hne).
  change (2^64) with 18446744073709551616 in *. change (2^63) with 9223372036854775808 in *. lia.
Qed.

Lemma skipn_skipn_add {A} (n m : nat) (l : list A) : skipn n (skipn m l) = skipn (m + n) l.
Proof. revert l. induction m as [|m IH]; intros l; [reflexivity|]. destruct l; [destruct n; reflexivity|]. cbn. apply IH. Qed.

(* ---------- the abstract queue ---------- *)
Definition aq_ok (q : aq) : Prop := (q_acked q <= length (q_flushed q))%nat.

Lemma aq_step_ok q o : aq_ok q -> aq_ok (aq_step q o).
Proof.
  unfold aq_ok. destruct o; cbn; intros H; try assumption.
  - rewrite app_length. lia.
  - unfold aq_pending. destruct (Nat.leb_spec n (length (q_flushed q) - q_acked q)); cbn; lia.
Qed.

Lemma aq_run_ok ops : forall q, aq_ok q -> aq_ok (aq_run q ops).
Proof. induction ops as [|o r IH]; intros q H; [exact H|]. apply IH, aq_step_ok, H. Qed.

(* what was flushed is never changed or reordered: the flushed sequence only grows at its end *)
Lemma aq_step_prefix q o : exists ext, q_flushed (aq_step q o) = q_flushed q ++ ext.
Proof.
  destruct o; cbn.
  - exists []. now rewrite app_nil_r.
  - eexists. reflexivity.
  - exists []. now rewrite app_nil_r.
  - destruct (n <=? aq_pending q)%nat; exists []; now rewrite app_nil_r.
Qed.

Theorem aq_run_prefix ops : forall q, exists ext, q_flushed (aq_run q ops) = q_flushed q ++ ext.
Proof.
  induction ops as [|o r IH]; intros q; [exists []; now rewrite app_nil_r|].
  cbn [aq_run fold_left]. fold (aq_run (aq_step q o) r).
  destruct (IH (aq_step q o)) as [e1 H1]. destruct (aq_step_prefix q o) as [e2 H2].
  exists (e2 ++ e1). rewrite H1, H2, app_assoc. reflexivity.
Qed.

(* a consumer that took its snapshot earlier reads a prefix of everything produced, in order: the i-th
   event of the snapshot is the i-th flushed event for ever *)
Corollary snapshot_stays_valid q ops i e :
  nth_error (q_flushed q) i = Some e -> nth_error (q_flushed (aq_run q ops)) i = Some e.
Proof.
  intros H. destruct (aq_run_prefix ops q) as [ext ->]. rewrite nth_error_app1; [exact H|].
  apply nth_error_Some. congruence.
Qed.

(* counters: Pending = Active = flushed - acked; tail id = flushed; read id = acked *)
Theorem aq_counters q : aq_ok q ->
  aq_pending q = (aq_tail_id q - aq_read_id q)%nat /\ length (aq_contents q) = aq_pending q.
Proof.
  intros H. unfold aq_pending, aq_tail_id, aq_read_id, aq_contents. split; [reflexivity|].
  rewrite skipn_length. reflexivity.
Qed.

(* an accepted ACK removes exactly the n oldest events and nothing else *)
Theorem aq_ack_drops_oldest q n : aq_ok q -> (n <= aq_pending q)%nat ->
  aq_contents (aq_step q (AAck n)) = skipn n (aq_contents q) /\
  aq_pending (aq_step q (AAck n)) = (aq_pending q - n)%nat.
Proof.
  intros Hok Hn. cbn [aq_step]. destruct (Nat.leb_spec n (aq_pending q)); [|lia].
  unfold aq_contents, aq_pending in *. cbn. split; [|lia].
  rewrite skipn_skipn_add. reflexivity.
Qed.

(* a refused ACK (more than pending) changes nothing *)
Theorem aq_ack_too_many q n : (aq_pending q < n)%nat -> aq_step q (AAck n) = q.
Proof. intros H. cbn. destruct (Nat.leb_spec n (aq_pending q)); [lia|reflexivity]. Qed.

(* a flush appends the buffered events in order; a failed flush loses nothing *)
Theorem aq_flush q : aq_contents (aq_step q AFlush) = aq_contents q ++ q_buffered q \/ (length (q_flushed q) < q_acked q)%nat.
Proof.
  unfold aq_contents. cbn. destruct (Nat.le_gt_cases (q_acked q) (length (q_flushed q))); [left|right; lia].
  rewrite skipn_app. replace (q_acked q - length (q_flushed q))%nat with O by lia. reflexivity.
Qed.
Theorem aq_flush_fail_keeps q : aq_step q AFlushFail = q.
Proof. reflexivity. Qed.
