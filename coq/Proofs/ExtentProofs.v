(* The extent of the file inside a write transaction without overflow area: neither end marker ever moves beyond
   the larger of (the end of the file when the transaction began) and (the size limit). In particular a file that
   already extends beyond a lowered limit is not extended any further, and a file within its limit stays there
   (C11, C14). Holds for every state a transaction can reach (treach), from any committed state satisfying Inv0 -
   also one whose end markers are beyond the limit. *)
From VF Require Import Region Freelist Alloc RegionProofs AllocProofs TxAllocProofs MetaAllocProofs HistoryProofs ShrinkProofs.
From Coq Require Import Lia ZifyBool.

Definition ends_below (a : allocst) (M : Z) : Prop := a_end (data a) <= M /\ a_end (meta a) <= M.

Lemma transfer_to_meta_ends a t reg a' t' : transfer_to_meta a t reg = (a', t') ->
  a_end (data a') = a_end (data a) /\ a_end (meta a') = a_end (meta a) /\ maxPages a' = maxPages a /\
  a_free (data a') = a_free (data a) /\ ovf t' = ovf t.
Proof. unfold transfer_to_meta. intros [= <- <-]. cbn. repeat split. Qed.

Lemma transfer_all_tx : forall regs a t a' t', transfer_all a t regs = (a', t') -> ovf t' = ovf t.
Proof.
  unfold transfer_all. induction regs as [|r regs IH]; intros a t a' t'; cbn [fold_left].
  - intros [= _ <-]. reflexivity.
  - intros E. rewrite (IH _ _ _ _ E). reflexivity.
Qed.

(* tryGrow without the overflow area *)
Lemma try_grow_limit a t c ok a' t' M :
  0 <= c -> 0 < maxPages a -> maxPages a <= M -> 0 <= avail (a_free (data a)) -> ends_below a M ->
  try_grow a t c false = (ok, a', t') ->
  ends_below a' M /\ maxPages a' = maxPages a /\ ovf t' = ovf t /\ (ok = false -> a' = a /\ t' = t).
Proof.
  intros Hc0 Hmx HM Hav [Hd Hm]. unfold try_grow.
  destruct (c =? 0) eqn:E0; [intros [= <- <- <-]; repeat split; auto; discriminate|].
  destruct (data_avail a <? c) eqn:Eav; [cbn [negb]; intros [= <- <- <-]; repeat split; auto|].
  assert (Hc: 0 < c) by lia.
  destruct (data_alloc_cont a t c) as [[r a1] t1] eqn:Ec.
  destruct r as [reg|].
  - destruct (data_alloc_cont_limit _ _ _ _ _ _ Hc Hmx Ec) as [L1 L2].
    pose proof (data_alloc_cont_ends _ _ _ _ _ _ Ec) as (_ & _ & _ & Ho & _).
    assert (Hmp: maxPages a1 = maxPages a).
    { revert Ec. unfold data_alloc_cont. destruct (data_avail a <? c); [intros [= _ <- _]; reflexivity|].
      destruct (fl_alloc_cont false (a_free (data a)) c) as [[rg|] f']; [intros [= _ <- _]; reflexivity|].
      destruct (_ && _); intros [= _ <- _]; reflexivity. }
    destruct (transfer_to_meta a1 t1 reg) as [a2 t2] eqn:Et. intros [= <- <- <-].
    destruct (transfer_to_meta_ends _ _ _ _ _ Et) as (A & B & C & _ & D).
    unfold ends_below. rewrite A, B, C, D, Hmp, Ho. repeat split; try lia; discriminate.
  - destruct (data_alloc_regions a t c) as [[[regs n] a3] t3] eqn:Ea.
    destruct (data_alloc_regions_limit _ _ _ _ _ _ _ Hc Hmx Hav Ea) as [L1 L2].
    pose proof (data_alloc_regions_ends _ _ _ _ _ _ _ Ea) as (_ & _ & _ & _ & Ho & _).
    assert (Hn: n = c /\ maxPages a3 = maxPages a).
    { revert Ea. unfold data_alloc_regions. rewrite Eav. unfold alloc_from_freelist.
      destruct (fl_alloc_regions false (a_free (data a)) (Z.min c (avail (a_free (data a))))) as [r1 f1].
      intros [= _ <- <- _]. split; reflexivity. }
    destruct Hn as [-> Hmp].
    destruct (transfer_all a3 t3 regs) as [a2 t2] eqn:Et. intros [= <- <- <-].
    destruct (transfer_all_ends _ _ _ _ _ Et) as (A & B & C). pose proof (transfer_all_tx _ _ _ _ _ Et) as D.
    unfold ends_below. rewrite A, B, C, D, Hmp, Ho. rewrite Z.eqb_refl. repeat split; try lia; discriminate.
Qed.

(* metaManager.Ensure in a transaction without overflow area *)
Lemma ensure_limit a t n ok a' t' M :
  ovf t = false -> 0 < maxPages a -> maxPages a <= M -> 0 <= avail (a_free (data a)) -> ends_below a M ->
  ensure a t n = Some (ok, a', t') ->
  ends_below a' M /\ maxPages a' = maxPages a /\ ovf t' = false.
Proof.
  intros Ho Hmx HM Hav Hb. unfold ensure.
  destruct (metaTotal a <? avail (a_free (meta a))); [discriminate|].
  destruct (quota _ _ _ _) as [szMin szMax] eqn:Eq.
  assert (Hmin: metaTotal a <= szMin) by (unfold quota in Eq; injection Eq as <- _; lia).
  destruct (szMax <? szMin); [discriminate|].
  destruct (szMax =? metaTotal a) eqn:E1; [intros [= _ <- <-]; repeat split; auto; apply Hb|].
  destruct (szMax <? metaTotal a) eqn:E2; [discriminate|].
  destruct (try_grow a t (szMax - metaTotal a) false) as [[b a1] t1] eqn:Eg.
  assert (Hc1: 0 <= szMax - metaTotal a) by lia.
  destruct (try_grow_limit _ _ _ _ _ _ M Hc1 Hmx HM Hav Hb Eg) as (B1 & P1 & O1 & U1).
  destruct b.
  - intros [= _ <- <-]. split; [exact B1|]. split; [exact P1 | congruence].
  - destruct (U1 eq_refl) as [-> ->]. rewrite Ho. intros [= E].
    destruct (try_grow a t (szMin - metaTotal a) false) as [[b2 a2] t2] eqn:Eg2. injection E as _ <- <-.
    assert (Hc2: 0 <= szMin - metaTotal a) by lia.
    destruct (try_grow_limit _ _ _ _ _ _ M Hc2 Hmx HM Hav Hb Eg2) as (B2 & P2 & O2 & _).
    split; [exact B2|]. split; [exact P2 | congruence].
Qed.

Lemma data_free_ends a t id a' t' :
  data_free a t id = Some (a', t') -> a_end (data a') <= a_end (data a) ->
  a_end (meta a') <= Z.max (a_end (meta a)) (a_end (data a)) /\ maxPages a' = maxPages a.
Proof.
  unfold data_free. destruct (_ || _); [discriminate|].
  destruct (negb _); [intros [= <- _] _; split; [lia | reflexivity]|].
  destruct (id <=? t_end (tdata t)); [intros [= <- _] _; cbn; split; [lia | reflexivity]|].
  destruct (rend _ <? a_end (data a)); [intros [= <- _] _; cbn; split; [lia | reflexivity]|].
  destruct (rid _ <? t_end (tdata t)); intros [= <- _]; unfold shrink_end; cbn [data meta a_end set_data set_meta maxPages];
    intros H; destruct (a_end (meta a) =? a_end (data a)); split; try reflexivity; lia.
Qed.

Theorem extent_in_tx a0 p a t :
  Inv0 a0 -> 0 < maxPages a0 -> treach a0 p a t ->
  let M := Z.max (a_end (meta a0)) (maxPages a0) in
  ends_below a M /\ maxPages a = maxPages a0.
Proof.
  intros I0 Hmx R. cbv zeta. set (M := Z.max (a_end (meta a0)) (maxPages a0)).
  induction R as [|a t n regs cnt a' t' R IH Hn E|a t id a' t' R IH H1 H2 H3 E|a t id a' t' R IH Htot E|a t n regs a' t' R IH Hn Htot E|a t id R IH].
  - split; [|reflexivity]. pose proof (i0_ends _ I0). unfold ends_below, M. lia.
  - destruct IH as [[Bd Bm] Hp]. pose proof (treach_inv _ _ _ _ I0 R) as F.
    assert (Hav: 0 <= avail (a_free (data a))).
    { destruct (fi_data _ _ _ F) as [[W Hv] _ _]. rewrite Hv. exact (count_pages_nonneg _ _ W). }
    assert (Hn1: 0 < n) by lia. assert (Hmxa: 0 < maxPages a) by lia.
    destruct (data_alloc_regions_limit _ _ _ _ _ _ _ Hn1 Hmxa Hav E) as [L1 L2].
    destruct (data_alloc_regions_spec a t n regs cnt a' t' (fi_data _ _ _ F) Hn E) as [Hf Hok].
    assert (Hmp: maxPages a' = maxPages a).
    { destruct (Z.lt_ge_cases (data_avail a) n) as [Hl|Hg]; [destruct (Hf Hl) as (_ & _ & -> & _); reflexivity|].
      destruct (Hok Hg) as (_ & _ & _ & _ & _ & _ & _ & _ & _ & Hm & _). exact Hm. }
    split; [|congruence]. unfold ends_below, M in *. rewrite Hp in *. lia.
  - destruct IH as [[Bd Bm] Hp]. pose proof (treach_inv _ _ _ _ I0 R) as F.
    pose proof (full_free_step _ _ _ _ _ _ I0 F H1 H2 H3 E) as F'.
    assert (Hle: a_end (data a') <= a_end (data a)).
    { destruct (set_mem id (t_new (tdata t))) eqn:Enew.
      - destruct (data_free_fresh_page a t id a' t' (fi_data _ _ _ F) Enew H1 E) as (_ & _ & Hle & _). exact Hle.
      - destruct (data_free_committed_page a t id a' t' Enew E) as (-> & _). lia. }
    destruct (data_free_ends _ _ _ _ _ E Hle) as [Hm Hmp].
    split; [|congruence]. unfold ends_below in *. lia.
  - destruct IH as [[Bd Bm] Hp]. pose proof (treach_inv _ _ _ _ I0 R) as F.
    assert (Hav: 0 <= avail (a_free (data a))).
    { destruct (fi_data _ _ _ F) as [[W Hv] _ _]. rewrite Hv. exact (count_pages_nonneg _ _ W). }
    revert E. unfold wal_alloc.
    destruct (ensure a t 1) as [[[ok a1] t1]|] eqn:Ee; [|discriminate].
    assert (Hmxa: 0 < maxPages a) by lia. assert (HMa: maxPages a <= M) by (unfold M; lia).
    destruct (ensure_limit a t 1 ok a1 t1 M (proj2 (fi_ovf _ _ _ F)) Hmxa HMa Hav (conj Bd Bm) Ee) as (B1 & P1 & _).
    destruct ok; [|intros [= _ <- _]; split; [exact B1 | congruence]].
    destruct (fl_alloc_cont false (a_free (meta a1)) 1) as [[reg|] f']; intros [= _ <- _]; cbn [data meta a_end set_meta maxPages];
      (split; [exact B1 | congruence]).
  - destruct IH as [[Bd Bm] Hp]. pose proof (treach_inv _ _ _ _ I0 R) as F.
    assert (Hav: 0 <= avail (a_free (data a))).
    { destruct (fi_data _ _ _ F) as [[W Hv] _ _]. rewrite Hv. exact (count_pages_nonneg _ _ W). }
    revert E. unfold meta_alloc_regions.
    destruct (ensure a t n) as [[[ok a1] t1]|] eqn:Ee; [|discriminate].
    assert (Hmxa: 0 < maxPages a) by lia. assert (HMa: maxPages a <= M) by (unfold M; lia).
    destruct (ensure_limit a t n ok a1 t1 M (proj2 (fi_ovf _ _ _ F)) Hmxa HMa Hav (conj Bd Bm) Ee) as (B1 & P1 & _).
    destruct ok; [|intros [= _ <- _]; split; [exact B1 | congruence]].
    destruct (alloc_from_freelist true (a_free (meta a1)) (tmeta t1) n) as [[[rg f'] tm] cntm].
    intros [= _ <- _]. cbn [data meta a_end set_meta maxPages]. split; [exact B1 | congruence].
  - exact IH.
Qed.

(* non-vacuity: a committed state whose file extends beyond a lowered limit (20 pages, limit 10) satisfies Inv0 *)
Definition shrunk_ex : allocst :=
  {| maxPages := 10; pageSize := 1024;
     meta := {| a_end := 20; a_free := {| avail := 0; fregions := [] |} |}; metaTotal := 0;
     data := {| a_end := 20; a_free := {| avail := 3; fregions := [{| rid := 12; rcount := 3 |}] |} |};
     flRoot := 0; flPages := [] |}.
Example shrunk_ex_inv0 : Inv0 shrunk_ex /\ 0 < maxPages shrunk_ex /\ maxPages shrunk_ex < a_end (data shrunk_ex).
Proof.
  split; [|cbn; lia]. constructor.
  - constructor; cbn.
    + split; [constructor; cbn; try lia; constructor | reflexivity].
    + intros id H. apply inl_cons in H as [H|H]; [unfold inr, rend in H; cbn in H; lia | destruct (inl_nil _ H)].
    + lia.
  - split; [constructor | reflexivity].
  - cbn. lia.
  - intros id H. destruct (inl_nil _ H).
Qed.

Corollary never_beyond_max_in_tx a0 p a t :
  Inv0 a0 -> 0 < maxPages a0 -> a_end (meta a0) <= maxPages a0 -> treach a0 p a t ->
  a_end (data a) <= maxPages a0 /\ a_end (meta a) <= maxPages a0.
Proof. intros I0 Hmx Hle R. destruct (extent_in_tx a0 p a t I0 Hmx R) as [[A B] _]. lia. Qed.

(* every state of every transaction of every history (without overflow area) on a bounded file: the file ends at
   or below the limit *)
Corollary never_beyond_max_history a0 p a t :
  hreach a0 -> 0 < maxPages a0 -> treach2 a0 p a t ->
  a_end (data a) <= maxPages a0 /\ a_end (meta a) <= maxPages a0 /\ maxPages a = maxPages a0.
Proof.
  intros H Hmx R. pose proof (hreach_inv _ H) as Q.
  destruct (treach2_inv a0 p a t Q R) as [F Fr].
  destruct (extent_in_tx a0 p a t (q_inv0 _ Q) Hmx (treach2_treach _ _ _ _ R)) as [_ Hp].
  pose proof (fr_cap _ _ _ Fr) as Cp. unfold EndInv in Cp. pose proof (proj2 (fi_ends _ _ _ F)).
  destruct Cp as [C|C]; lia.
Qed.

(* ---------- pages and bytes: the page count of a bounded file ---------- *)
(* a file that ends at or below max_pages_of pages ends at or below the maximum size in bytes *)
Theorem max_pages_within_size maxSize ps endp :
  0 < ps -> 0 < maxSize -> 0 <= endp <= max_pages_of maxSize ps -> endp * ps <= maxSize.
Proof.
  intros Hps Hm [H0 H]. unfold max_pages_of in H. replace (0 <? maxSize) with true in H by (symmetry; apply Z.ltb_lt; exact Hm).
  pose proof (Z.mul_div_le maxSize ps Hps). nia.
Qed.
(* ... and it is the largest such count *)
Theorem max_pages_largest maxSize ps : 0 < ps -> 0 < maxSize -> (max_pages_of maxSize ps + 1) * ps > maxSize.
Proof.
  intros Hps Hm. unfold max_pages_of. replace (0 <? maxSize) with true by (symmetry; apply Z.ltb_lt; exact Hm).
  pose proof (Z.mod_pos_bound maxSize ps Hps). pose proof (Z.div_mod maxSize ps ltac:(lia)). nia.
Qed.
(* rounding up (seeded change C11j): a file filled to its last page is larger than the maximum size *)
Theorem max_pages_ceil_refuted : exists maxSize ps, 0 < ps /\ 0 < maxSize /\ max_pages_ceil maxSize ps * ps > maxSize.
Proof. exists 66048, 1024. vm_compute. repeat split; reflexivity. Qed.
