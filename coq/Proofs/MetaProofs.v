From VF Require Import Meta BytesProofs Fnv.
From Coq Require Import Lia ZifyBool ZifyNat.

(* ---------- header selection (readValidMeta) ---------- *)

Definition txid_of (s : list Z) : Z := h_txid (decode_header s).

Lemma choose_spec s0 s1 :
  choose s0 s1 =
  match valid_slot s0, valid_slot s1 with
  | false, false => SelErr
  | true, false => SelOk 0 (txid_of s0)
  | false, true => SelOk 1 (txid_of s1)
  | true, true =>
      if txid_newer (txid_of s0) (txid_of s1) then SelOk 0 (txid_of s0) else SelOk 1 (txid_of s1)
  end.
Proof. reflexivity. Qed.

Lemma choose_never_invalid s0 s1 a t :
  choose s0 s1 = SelOk a t ->
  (a = 0 /\ valid_slot s0 = true /\ t = txid_of s0) \/ (a = 1 /\ valid_slot s1 = true /\ t = txid_of s1).
Proof.
  rewrite choose_spec.
  destruct (valid_slot s0) eqn:V0, (valid_slot s1) eqn:V1; try discriminate.
  - destruct (txid_newer _ _); intros [= <- <-]; auto.
  - intros [= <- <-]; auto.
  - intros [= <- <-]; auto.
Qed.

Lemma choose_fallback_1 s0 s1 :
  valid_slot s0 = false -> valid_slot s1 = true -> choose s0 s1 = SelOk 1 (txid_of s1).
Proof. intros V0 V1. rewrite choose_spec, V0, V1. reflexivity. Qed.

Lemma choose_fallback_0 s0 s1 :
  valid_slot s0 = true -> valid_slot s1 = false -> choose s0 s1 = SelOk 0 (txid_of s0).
Proof. intros V0 V1. rewrite choose_spec, V0, V1. reflexivity. Qed.

Lemma choose_both_invalid s0 s1 :
  valid_slot s0 = false -> valid_slot s1 = false -> choose s0 s1 = SelErr.
Proof. intros V0 V1. rewrite choose_spec, V0, V1. reflexivity. Qed.

(* the later commit wins, also across the 2^64 wrap-around of the txid:
   slot b was written k commits after slot a, 0 < k < 2^63 *)
Lemma choose_newer_wins_1 s0 s1 k :
  valid_slot s0 = true -> valid_slot s1 = true ->
  0 <= txid_of s0 < 2^64 -> 0 < k < 2^63 -> txid_of s1 = (txid_of s0 + k) mod 2^64 ->
  choose s0 s1 = SelOk 1 (txid_of s1).
Proof.
  intros V0 V1 R0 Hk E. rewrite choose_spec, V0, V1.
  unfold txid_newer. rewrite E.
  replace (((txid_of s0 - (txid_of s0 + k) mod 2 ^ 64) mod 2 ^ 64)) with (2^64 - k).
  2:{ rewrite Zminus_mod_idemp_r. replace (txid_of s0 - (txid_of s0 + k)) with (-k) by lia.
      rewrite Z.mod_opp_l_nz; rewrite ?Z.mod_small; lia. }
  replace (2 ^ 64 - k <? 2 ^ 63) with false by lia.
  rewrite andb_false_r. reflexivity.
Qed.

Lemma choose_newer_wins_0 s0 s1 k :
  valid_slot s0 = true -> valid_slot s1 = true ->
  0 <= txid_of s1 < 2^64 -> 0 < k < 2^63 -> txid_of s0 = (txid_of s1 + k) mod 2^64 ->
  choose s0 s1 = SelOk 0 (txid_of s0).
Proof.
  intros V0 V1 R1 Hk E. rewrite choose_spec, V0, V1.
  unfold txid_newer. rewrite E.
  replace ((((txid_of s1 + k) mod 2 ^ 64 - txid_of s1) mod 2 ^ 64)) with k.
  2:{ rewrite Zminus_mod_idemp_l. replace (txid_of s1 + k - txid_of s1) with k by lia.
      rewrite Z.mod_small; lia. }
  replace (0 <? k) with true by lia. replace (k <? 2^63) with true by lia. reflexivity.
Qed.

(* two intact headers with the same txid describe the same commit: one of them is selected (no panic) *)
Lemma choose_equal_txid s0 s1 :
  valid_slot s0 = true -> valid_slot s1 = true -> txid_of s0 = txid_of s1 -> choose s0 s1 = SelOk 1 (txid_of s1).
Proof.
  intros V0 V1 E. rewrite choose_spec, V0, V1, E. unfold txid_newer.
  rewrite Z.sub_diag. reflexivity.
Qed.

(* ---------- locating the second header when the first is damaged ---------- *)

Definition good_at (s : list Z) (off : Z) : bool := valid_slot s && (h_pageSize (decode_header s) =? off).

Lemma find_second_finds rd s1 : forall k fuel sz,
  (k < fuel)%nat -> 0 < sz -> sz * 2 ^ Z.of_nat k < 2^32 ->
  (forall j, (j < k)%nat -> exists s, rd (sz * 2 ^ Z.of_nat j) = RdOk s /\ good_at s (sz * 2 ^ Z.of_nat j) = false) ->
  rd (sz * 2 ^ Z.of_nat k) = RdOk s1 -> good_at s1 (sz * 2 ^ Z.of_nat k) = true ->
  find_second rd fuel sz = Some (Some s1).
Proof.
  induction k as [|k IH]; intros fuel sz Hf Hsz Hlt Hbad Hrd Hgood.
  - destruct fuel as [|fuel]; [lia|]. cbn [find_second].
    change (Z.of_nat 0) with 0 in *. rewrite Z.pow_0_r, Z.mul_1_r in *.
    replace (2 ^ 32 <=? sz) with false by lia. rewrite Hrd. fold (good_at s1 sz). rewrite Hgood. reflexivity.
  - destruct fuel as [|fuel]; [lia|]. cbn [find_second].
    assert (Hp: 0 < 2 ^ Z.of_nat (S k)) by (apply Z.pow_pos_nonneg; lia).
    replace (2 ^ 32 <=? sz) with false by nia.
    destruct (Hbad O ltac:(lia)) as [s [Hs Hb]]. change (Z.of_nat 0) with 0 in *.
    rewrite Z.pow_0_r, Z.mul_1_r in Hs, Hb. rewrite Hs. fold (good_at s sz). rewrite Hb.
    assert (Hpow: forall j, sz * 2 ^ Z.of_nat (S j) = 2 * sz * 2 ^ Z.of_nat j).
    { intros j. rewrite Nat2Z.inj_succ, Z.pow_succ_r by lia. ring. }
    apply IH; try lia.
    + rewrite <- Hpow. exact Hlt.
    + intros j Hj. rewrite <- Hpow. apply Hbad. lia.
    + rewrite <- Hpow. exact Hrd.
    + rewrite <- Hpow. exact Hgood.
Qed.

Lemma find_second_sound rd : forall fuel sz s,
  find_second rd fuel sz = Some (Some s) -> valid_slot s = true.
Proof.
  induction fuel as [|fuel IH]; intros sz s; cbn [find_second]; [discriminate|].
  destruct (2 ^ 32 <=? sz); [discriminate|].
  destruct (rd sz) as [| |s']; try discriminate.
  destruct (valid_slot s' && _) eqn:G.
  - intros [= <-]. apply andb_prop in G as [G _]. exact G.
  - apply IH.
Qed.

(* the reader never returns a damaged header, whatever the file contains *)
Lemma read_with_never_invalid rd a t :
  read_valid_meta_with rd = Some (SelOk a t) ->
  exists off s, (a = 0 \/ a = 1) /\ rd off = RdOk s /\ valid_slot s = true /\ t = txid_of s.
Proof.
  unfold read_valid_meta_with.
  destruct (rd 0) as [| |s0] eqn:R0; try discriminate.
  destruct (valid_slot s0) eqn:V0.
  - destruct (rd (h_pageSize (decode_header s0))) as [| |s1] eqn:R1; try discriminate.
    intros [= H]. apply choose_never_invalid in H as [(-> & V & ->)|(-> & V & ->)].
    + exists 0, s0. auto.
    + exists (h_pageSize (decode_header s0)), s1. auto.
  - destruct (find_second rd 40 minPageSize) as [[s1|]|] eqn:F; try discriminate.
    intros [= <- <-].
    pose proof (find_second_sound _ _ _ _ F) as V1.
    assert (Hex: forall fuel sz s, find_second rd fuel sz = Some (Some s) -> exists off, rd off = RdOk s).
    { induction fuel as [|fuel IH]; intros sz s; cbn [find_second]; [discriminate|].
      destruct (2 ^ 32 <=? sz); [discriminate|].
      destruct (rd sz) as [| |s'] eqn:R; try discriminate.
      destruct (valid_slot s' && _); [intros [= <-]; eauto | apply IH]. }
    destruct (Hex _ _ _ F) as [off Hoff]. exists off, s1. auto.
Qed.

(* slot 0 damaged in any way (also in its page size field): the intact slot 1 is found *)
Lemma damaged_slot0_falls_back rd s0 s1 k :
  rd 0 = RdOk s0 -> valid_slot s0 = false ->
  (k <= 21)%nat ->
  (forall j, (j < k)%nat -> exists s, rd (minPageSize * 2 ^ Z.of_nat j) = RdOk s /\ good_at s (minPageSize * 2 ^ Z.of_nat j) = false) ->
  rd (minPageSize * 2 ^ Z.of_nat k) = RdOk s1 -> good_at s1 (minPageSize * 2 ^ Z.of_nat k) = true ->
  read_valid_meta_with rd = Some (SelOk 1 (txid_of s1)).
Proof.
  intros R0 V0 Hk Hbad R1 G1. unfold read_valid_meta_with. rewrite R0, V0.
  rewrite (find_second_finds rd s1 k 40 minPageSize); auto; try lia.
  - reflexivity.
  - assert (2 ^ Z.of_nat k <= 2 ^ 21) by (apply Z.pow_le_mono_r; lia).
    change minPageSize with 1024. lia.
Qed.

(* slot 0 intact: slot 1 is taken from the offset slot 0 names; a damaged slot 1 loses *)
Lemma intact_slot0_damaged_slot1 rd s0 s1 :
  rd 0 = RdOk s0 -> valid_slot s0 = true ->
  rd (h_pageSize (decode_header s0)) = RdOk s1 -> valid_slot s1 = false ->
  read_valid_meta_with rd = Some (SelOk 0 (txid_of s0)).
Proof.
  intros R0 V0 R1 V1. unfold read_valid_meta_with. rewrite R0, V0, R1.
  rewrite choose_fallback_0; auto.
Qed.

Lemma both_damaged_error rd s0 :
  rd 0 = RdOk s0 -> valid_slot s0 = false ->
  (forall off s, rd off = RdOk s -> valid_slot s = false) ->
  (forall off, rd off <> RdMissing) ->
  read_valid_meta_with rd = Some SelErr.
Proof.
  intros R0 V0 Hall Hnm. unfold read_valid_meta_with. rewrite R0, V0.
  destruct (find_second rd 40 minPageSize) as [[s1|]|] eqn:F; [| reflexivity |].
  - pose proof (find_second_sound _ _ _ _ F) as V1.
    assert (Hex: forall fuel sz s, find_second rd fuel sz = Some (Some s) -> exists off, rd off = RdOk s).
    { induction fuel as [|fuel IH]; intros sz s; cbn [find_second]; [discriminate|].
      destruct (2 ^ 32 <=? sz); [discriminate|].
      destruct (rd sz) as [| |s'] eqn:R; try discriminate.
      destruct (valid_slot s' && _); [intros [= <-]; eauto | apply IH]. }
    destruct (Hex _ _ _ F) as [off Hoff]. rewrite (Hall _ _ Hoff) in V1. discriminate.
  - exfalso.
    assert (Hn: forall fuel sz, find_second rd fuel sz <> None).
    { induction fuel as [|fuel IH]; intros sz; cbn [find_second]; [discriminate|].
      destruct (2 ^ 32 <=? sz); [discriminate|].
      destruct (rd sz) as [| |s'] eqn:R; try discriminate.
      - exfalso. eapply Hnm; eauto.
      - destruct (valid_slot s' && _); [discriminate | apply IH]. }
    eapply Hn; eauto.
Qed.

(* ---------- damage ---------- *)

Definition csum_off : nat := nat_of off_checksum.

Lemma skipn_zeros o : forall k, exists j, skipn o (zeros k) = zeros j.
Proof.
  induction o as [|o IH]; intros k; [exists k; reflexivity|].
  destruct k as [|k]; [exists O; reflexivity|]. simpl. apply IH.
Qed.

Lemma firstn_zeros n : forall j, exists i, firstn n (zeros j) = zeros i.
Proof.
  induction n as [|n IH]; intros j; [exists O; reflexivity|].
  destruct j as [|j]; [exists O; reflexivity|]. simpl.
  destruct (IH j) as [i ->]. exists (S i); reflexivity.
Qed.

Lemma le_decode_zeros i : le_decode (zeros i) = 0.
Proof. induction i as [|i IH]; simpl; [reflexivity|]. rewrite IH. reflexivity. Qed.

Lemma get_le_zeros o n k : get_le o n (zeros k) = 0.
Proof.
  unfold get_le, slice.
  destruct (skipn_zeros o k) as [j ->]. destruct (firstn_zeros n j) as [i ->].
  apply le_decode_zeros.
Qed.

Lemma zero_page_invalid k : magic <> 0 -> valid_slot (zeros k) = false.
Proof.
  intros Hm. unfold valid_slot. cbn [decode_header h_magic].
  rewrite get_le_zeros. replace (0 =? magic) with false by lia. reflexivity.
Qed.

Lemma firstn_mid_lt {A} n (pre : list A) b post :
  (length pre < n)%nat -> firstn n (pre ++ b :: post) = pre ++ b :: firstn (n - S (length pre)) post.
Proof.
  intros H. rewrite firstn_app. rewrite firstn_all2 by lia. f_equal.
  destruct (n - length pre)%nat eqn:E; [lia|]. simpl. f_equal. f_equal. lia.
Qed.

Lemma firstn_mid_ge {A} n (pre : list A) b post :
  (n <= length pre)%nat -> firstn n (pre ++ b :: post) = firstn n pre.
Proof. intros H. rewrite firstn_app. replace (n - length pre)%nat with O by lia. simpl. apply app_nil_r. Qed.

Lemma skipn_mid_lt {A} n (pre : list A) b post :
  (length pre < n)%nat -> skipn n (pre ++ b :: post) = skipn (n - S (length pre)) post.
Proof.
  intros H. rewrite skipn_app. rewrite skipn_all2 by lia. simpl.
  destruct (n - length pre)%nat eqn:E; [lia|]. simpl. f_equal. lia.
Qed.

(* a change of one byte before the checksum field leaves the stored checksum alone *)
Lemma stored_csum_same pre b b' post :
  (length pre < csum_off)%nat ->
  get_le csum_off 4 (pre ++ b :: post) = get_le csum_off 4 (pre ++ b' :: post).
Proof. intros H. unfold get_le, slice. rewrite !skipn_mid_lt by exact H. reflexivity. Qed.

Lemma valid_slot_csum l : valid_slot l = true -> get_le csum_off 4 l = checksum_of l.
Proof.
  unfold valid_slot. cbn [decode_header h_checksum h_magic h_version]. fold csum_off. intros H.
  apply andb_prop in H as [_ H]. lia.
Qed.

Lemma invalid_if_csum_differs l : get_le csum_off 4 l <> checksum_of l -> valid_slot l = false.
Proof.
  intros H. unfold valid_slot. cbn [decode_header h_checksum h_magic h_version]. fold csum_off.
  replace (get_le csum_off 4 l =? checksum_of l) with false by lia. apply andb_false_r.
Qed.

Lemma fnv_offset_range : 0 <= fnv_offset < fnv_M.
Proof. unfold fnv_offset, fnv_M. lia. Qed.

(* every change of one single byte of a valid header invalidates it *)
Theorem single_byte_damage pre b b' post :
  bytes (pre ++ b :: post) -> 0 <= b' < 256 -> b <> b' ->
  length (pre ++ b :: post) = (csum_off + 4)%nat ->
  valid_slot (pre ++ b :: post) = true -> valid_slot (pre ++ b' :: post) = false.
Proof.
  intros Hb Hb' Hne Hlen Hv.
  apply invalid_if_csum_differs.
  pose proof (valid_slot_csum _ Hv) as Hc.
  apply Forall_app in Hb as [Hpre Hbp]. inversion Hbp as [|? ? Hbb Hpost]; subst.
  destruct (Nat.lt_ge_cases (length pre) csum_off) as [Hlt|Hge].
  - (* damage inside the hashed area *)
    rewrite <- (stored_csum_same pre b b' post Hlt), Hc.
    unfold checksum_of. fold csum_off. rewrite !firstn_mid_lt by exact Hlt.
    apply fnv_single_byte; auto using fnv_offset_range.
    apply bytes_firstn; exact Hpost.
  - (* damage inside the checksum field *)
    assert (Hsame: checksum_of (pre ++ b' :: post) = checksum_of (pre ++ b :: post)).
    { unfold checksum_of. fold csum_off. rewrite !firstn_mid_ge by exact Hge. reflexivity. }
    rewrite Hsame, <- Hc. unfold get_le. intros E.
    apply le_decode_inj in E.
    + unfold slice in E. rewrite app_length in Hlen. cbn [length] in Hlen.
      rewrite !skipn_app in E.
      assert (Hk: exists k, (length pre = csum_off + k)%nat) by (exists (length pre - csum_off)%nat; lia).
      destruct Hk as [k Hk].
      replace (csum_off - length pre)%nat with O in E by lia. cbn [skipn] in E.
      rewrite !firstn_app in E.
      assert (Hl: length (skipn csum_off pre) = k) by (rewrite skipn_length; lia).
      rewrite Hl in E. rewrite !firstn_all2 in E by lia.
      apply app_inv_head in E.
      destruct (4 - k)%nat eqn:E4; [lia|]. cbn [firstn] in E. congruence.
    + apply bytes_slice, bytes_app; [assumption | constructor; assumption].
    + apply bytes_slice, bytes_app; [assumption | constructor; assumption].
    + unfold slice. rewrite !firstn_length, !skipn_length, !app_length. reflexivity.
Qed.

(* ---------- encode / decode round trip ---------- *)

Record header_ok (h : header) : Prop := {
  ok_magic : 0 <= h_magic h < 2^32; ok_version : 0 <= h_version h < 2^32;
  ok_pageSize : 0 <= h_pageSize h < 2^32; ok_maxSize : 0 <= h_maxSize h < 2^64;
  ok_flags : 0 <= h_flags h < 2^32; ok_root : 0 <= h_root h < 2^64;
  ok_txid : 0 <= h_txid h < 2^64; ok_freelist : 0 <= h_freelist h < 2^64;
  ok_wal : 0 <= h_wal h < 2^64; ok_dataEnd : 0 <= h_dataEnd h < 2^64;
  ok_metaEnd : 0 <= h_metaEnd h < 2^64; ok_metaTotal : 0 <= h_metaTotal h < 2^64 }.

Lemma get_le_0_app a b n : length a = n -> get_le 0 n (a ++ b) = le_decode a.
Proof. intros H. unfold get_le. now rewrite slice_0_app. Qed.

Lemma get_le_skip_app a b n k m : length a = n -> get_le (n + k) m (a ++ b) = get_le k m b.
Proof. intros H. unfold get_le. now rewrite slice_skip_app. Qed.

Lemma get_le_0_all a n : length a = n -> get_le 0 n a = le_decode a.
Proof. intros H. unfold get_le. now rewrite slice_0_all. Qed.

Lemma encode_body_length h : length (encode_body h) = 80%nat.
Proof. unfold encode_body. rewrite !app_length, !le_encode_length. reflexivity. Qed.

Lemma encode_header_length h : length (encode_header h) = 84%nat.
Proof. unfold encode_header. rewrite app_length, encode_body_length, le_encode_length. reflexivity. Qed.

Lemma encode_header_bytes h : bytes (encode_header h).
Proof.
  unfold encode_header, encode_body. repeat apply bytes_app; apply le_encode_bytes.
Qed.

Lemma checksum_of_encode h : checksum_of (encode_header h) = checksum_of (encode_body h).
Proof.
  unfold checksum_of, encode_header.
  change (nat_of off_checksum) with 80%nat. rewrite <- (encode_body_length h).
  rewrite firstn_app, Nat.sub_diag, firstn_all. cbn [firstn]. rewrite app_nil_r. reflexivity.
Qed.

Lemma checksum_range l : 0 <= checksum_of l < 2^32.
Proof. unfold checksum_of. apply fnv_range. apply fnv_offset_range. Qed.

Lemma get_le_skip a b n o m : length a = n -> (n <= o)%nat -> get_le o m (a ++ b) = get_le (o - n) m b.
Proof.
  intros Hl Hle. replace o with (n + (o - n))%nat at 1 by lia. now apply get_le_skip_app.
Qed.

Ltac strip_fields :=
  repeat (erewrite get_le_skip; [ | apply le_encode_length | apply Nat.leb_le; reflexivity ]; cbn [Nat.sub]);
  first [ rewrite get_le_0_app by apply le_encode_length | rewrite get_le_0_all by apply le_encode_length ].

Lemma decode_encode_header h : header_ok h ->
  decode_header (encode_header h) =
  {| h_magic := h_magic h; h_version := h_version h; h_pageSize := h_pageSize h;
     h_maxSize := h_maxSize h; h_flags := h_flags h; h_root := h_root h; h_txid := h_txid h;
     h_freelist := h_freelist h; h_wal := h_wal h; h_dataEnd := h_dataEnd h;
     h_metaEnd := h_metaEnd h; h_metaTotal := h_metaTotal h;
     h_checksum := checksum_of (encode_body h) |}.
Proof.
  intros [? ? ? ? ? ? ? ? ? ? ? ?].
  pose proof (checksum_range (encode_body h)) as Hc.
  unfold decode_header, encode_header.
  set (c := checksum_of (encode_body h)) in *. unfold encode_body.
  rewrite <- !app_assoc.
  repeat match goal with |- context [nat_of ?c] =>
    let v := eval vm_compute in (nat_of c) in change (nat_of c) with v end.
  f_equal; strip_fields; apply le_decode_encode; simpl Z.of_nat; lia.
Qed.

Theorem header_roundtrip h : header_ok h ->
  let h' := decode_header (encode_header h) in
  h_magic h' = h_magic h /\ h_version h' = h_version h /\ h_pageSize h' = h_pageSize h /\
  h_maxSize h' = h_maxSize h /\ h_flags h' = h_flags h /\ h_root h' = h_root h /\
  h_txid h' = h_txid h /\ h_freelist h' = h_freelist h /\ h_wal h' = h_wal h /\
  h_dataEnd h' = h_dataEnd h /\ h_metaEnd h' = h_metaEnd h /\ h_metaTotal h' = h_metaTotal h.
Proof. intros Hok. cbv zeta. rewrite decode_encode_header by exact Hok. cbn. repeat split. Qed.

Theorem finalized_header_valid h : header_ok h -> h_magic h = magic -> h_version h = version ->
  valid_slot (encode_header h) = true.
Proof.
  intros Hok Hm Hv. unfold valid_slot. rewrite decode_encode_header by exact Hok.
  cbn [h_magic h_version h_checksum]. rewrite checksum_of_encode, Hm, Hv, !Z.eqb_refl. reflexivity.
Qed.
