(* The writer queue preserves the schedule: for every interleaving of Schedule / Sync calls with nextCommand calls of
   ANY buffer sizes, what the goroutine has executed so far followed by what the queue still holds is exactly the
   sequence of writes and syncs in the order they were scheduled. In particular a sync is executed after all writes
   scheduled before it and before every write scheduled after it - the barrier the commit protocol relies on
   (C01, C03, C08). The variant that tests "sync due" against all queued writes and clamps to the buffer afterwards
   (seeded change C01f) is refuted. *)
From VF Require Import WriterQueue.
From Coq Require Import Lia.

Section P.
Context {A : Type}.
Notation ev := (ev A).
Notation wq := (wq A).
Notation qop := (qop A).

Fixpoint interleave (ws : list A) (cs : list nat) : list ev :=
  match cs with
  | [] => map EW ws
  | c :: rest => map EW (firstn c ws) ++ ES :: interleave (skipn c ws) rest
  end.

(* the queue contents as a sequence of events *)
Definition remaining (s : wq) : list ev :=
  match q_fsync s with
  | [] => map EW (q_sched s)
  | c :: rest => interleave (q_sched s) ((c - q_published s) :: rest)
  end.

Definition sum (l : list nat) : nat := fold_right Nat.add 0 l.

Definition Inv (s : wq) : Prop :=
  match q_fsync s with
  | [] => q_pending s = q_published s + length (q_sched s)
  | c :: rest => q_published s <= c /\ (c - q_published s) + sum rest + q_pending s = length (q_sched s)
  end.

Lemma inv_init : Inv wq_init. Proof. reflexivity. Qed.

Lemma interleave_app_w : forall cs ws x, sum cs <= length ws ->
  interleave (ws ++ [x]) cs = interleave ws cs ++ [EW x].
Proof.
  induction cs as [|c rest IH]; intros ws x H; cbn [interleave].
  - rewrite map_app. reflexivity.
  - cbn [sum fold_right] in H. fold (sum rest) in H.
    rewrite firstn_app, skipn_app. replace (c - length ws) with 0 by lia. cbn [firstn skipn]. rewrite app_nil_r.
    rewrite IH by (rewrite skipn_length; lia). rewrite <- app_assoc. reflexivity.
Qed.

Lemma interleave_app_s : forall cs ws p, sum cs + p = length ws ->
  interleave ws (cs ++ [p]) = interleave ws cs ++ [ES].
Proof.
  induction cs as [|c rest IH]; intros ws p H; cbn [interleave app].
  - cbn in H. subst p. rewrite firstn_all, skipn_all. reflexivity.
  - cbn [sum fold_right] in H. fold (sum rest) in H.
    rewrite IH by (rewrite skipn_length; lia). rewrite <- app_assoc. reflexivity.
Qed.

Lemma my_skipn_skipn : forall b a (l : list A), skipn a (skipn b l) = skipn (b + a) l.
Proof.
  induction b as [|b IH]; intros a l; [reflexivity|].
  destruct l as [|x l]; [cbn [skipn]; rewrite skipn_nil; reflexivity|]. cbn [skipn Nat.add]. apply IH.
Qed.

Lemma schedule_step s id : Inv s -> remaining (wq_schedule s id) = remaining s ++ [EW id] /\ Inv (wq_schedule s id).
Proof.
  unfold Inv, remaining, wq_schedule. cbn [q_sched q_fsync q_pending q_published].
  destruct (q_fsync s) as [|c rest].
  - intros H. split; [rewrite map_app; reflexivity | rewrite app_length; cbn; lia].
  - intros [H1 H2]. split.
    + apply interleave_app_w. cbn [sum fold_right]. fold (sum rest). lia.
    + split; [exact H1 | rewrite app_length; cbn; lia].
Qed.

Lemma sync_step s : Inv s -> remaining (wq_sync s) = remaining s ++ [ES] /\ Inv (wq_sync s).
Proof.
  unfold Inv, remaining, wq_sync. cbn [q_sched q_fsync q_pending q_published].
  destruct (q_fsync s) as [|c rest]; cbn [app].
  - intros H. split.
    + cbn [interleave]. replace (q_pending s - q_published s) with (length (q_sched s)) by lia.
      rewrite firstn_all, skipn_all. reflexivity.
    + cbn [sum fold_right]. lia.
  - intros [H1 H2]. split.
    + change ((c - q_published s) :: rest ++ [q_pending s]) with (((c - q_published s) :: rest) ++ [q_pending s]).
      apply interleave_app_s. cbn [sum fold_right]. fold (sum rest). lia.
    + split; [exact H1|]. assert (Hs: sum (rest ++ [q_pending s]) = sum rest + q_pending s).
      { clear. induction rest as [|x r IH]; cbn; [lia | fold (sum (r ++ [q_pending s])); fold (sum r); lia]. }
      rewrite Hs. lia.
Qed.

Lemma next_step B s taken b s1 : 1 <= B -> Inv s -> wq_next B s = Some (taken, b, s1) ->
  cmd_events taken b ++ remaining s1 = remaining s /\ Inv s1.
Proof.
  intros HB. unfold wq_next, Inv, remaining, cmd_events.
  destruct (q_fsync s) as [|c rest] eqn:Ef.
  - (* no sync queued *)
    destruct (q_sched s) as [|w ws] eqn:Es; [discriminate|]. rewrite <- Es in *.
    intros H [= <- <- <-]. cbn [q_sched q_fsync q_pending q_published].
    set (n := Nat.min B (length (q_sched s))).
    rewrite app_nil_r, <- map_app, firstn_skipn. split; [reflexivity|].
    rewrite firstn_length, skipn_length. lia.
  - intros [H1 H2] E.
    assert (E': (let max1 := Nat.min B (length (q_sched s)) in
                 let '(max2, do_sync, fs') := if c - q_published s <=? max1 then (c - q_published s, true, rest) else (max1, false, c :: rest) in
                 Some (firstn max2 (q_sched s), do_sync,
                       {| q_sched := skipn max2 (q_sched s); q_fsync := fs'; q_pending := q_pending s;
                          q_published := if do_sync then 0 else q_published s + length (firstn max2 (q_sched s)) |}))
                = Some (taken, b, s1)).
    { destruct (q_sched s); exact E. }
    clear E. cbv zeta in E'.
    set (o := c - q_published s) in *. set (max1 := Nat.min B (length (q_sched s))) in *.
    destruct (o <=? max1) eqn:Eo.
    + (* the sync is due: exactly the outstanding writes, then the sync *)
      apply Nat.leb_le in Eo. injection E' as <- <- <-. cbn [q_sched q_fsync q_pending q_published interleave].
      rewrite <- app_assoc. cbn [app]. split.
      * destruct rest as [|c1 rest1]; [reflexivity|]. rewrite Nat.sub_0_r. reflexivity.
      * destruct rest as [|c1 rest1]; rewrite skipn_length.
        -- cbn [sum fold_right] in H2. lia.
        -- cbn [sum fold_right] in H2. fold (sum rest1) in H2. split; [lia|]. lia.
    + (* not yet: max1 writes, the sync stays queued *)
      apply Nat.leb_gt in Eo. injection E' as <- <- <-. cbn [q_sched q_fsync q_pending q_published interleave].
      rewrite app_nil_r. rewrite firstn_length.
      assert (Hm: max1 <= length (q_sched s)) by (unfold max1; lia).
      replace (Nat.min max1 (length (q_sched s))) with max1 by lia.
      replace (c - (q_published s + max1)) with (o - max1) by (unfold o; lia).
      split.
      * (* the first o writes of the old queue = max1 writes taken now + o - max1 of the rest *)
        rewrite app_assoc, <- map_app. f_equal.
        -- f_equal. rewrite <- (firstn_skipn max1 (firstn o (q_sched s))).
           rewrite firstn_firstn. replace (Nat.min max1 o) with max1 by lia.
           f_equal. rewrite skipn_firstn_comm. reflexivity.
        -- rewrite my_skipn_skipn. replace (max1 + (o - max1)) with o by lia. reflexivity.
      * rewrite skipn_length. split; [unfold o in *; lia | lia].
Qed.

(* ---------- every run ---------- *)
Definition buffers_ok (ops : list qop) : Prop := forall B, In (QN B) ops -> 1 <= B.

Theorem queue_preserves_schedule : forall ops s,
  Inv s -> buffers_ok ops ->
  let '(s', out, inp) := wq_run s ops in
  out ++ remaining s' = remaining s ++ inp /\ Inv s'.
Proof.
  induction ops as [|o ops IH]; intros s I Hb; cbn [wq_run].
  - rewrite app_nil_r. split; [reflexivity | exact I].
  - assert (Hb': buffers_ok ops) by (intros B H; apply Hb; right; exact H).
    destruct o as [id| |B].
    + destruct (schedule_step s id I) as [R I1].
      specialize (IH _ I1 Hb'). destruct (wq_run (wq_schedule s id) ops) as [[s' out] inp].
      destruct IH as [E I']. split; [|exact I']. rewrite E, R, <- app_assoc. reflexivity.
    + destruct (sync_step s I) as [R I1].
      specialize (IH _ I1 Hb'). destruct (wq_run (wq_sync s) ops) as [[s' out] inp].
      destruct IH as [E I']. split; [|exact I']. rewrite E, R, <- app_assoc. reflexivity.
    + destruct (wq_next B s) as [[[taken b] s1]|] eqn:En.
      * destruct (next_step B s taken b s1 (Hb B (or_introl eq_refl)) I En) as [R I1].
        specialize (IH _ I1 Hb'). destruct (wq_run s1 ops) as [[s' out] inp].
        destruct IH as [E I']. split; [|exact I']. rewrite <- app_assoc, E, app_assoc, R. reflexivity.
      * apply IH; assumption.
Qed.

(* from the empty queue: executed ++ still queued = scheduled; when the queue is drained the goroutine has executed
   exactly the schedule *)
Corollary executed_is_schedule ops :
  buffers_ok ops ->
  let '(s', out, inp) := wq_run wq_init ops in
  out ++ remaining s' = inp /\ (remaining s' = [] -> out = inp).
Proof.
  intros Hb. pose proof (queue_preserves_schedule ops wq_init inv_init Hb) as H.
  destruct (wq_run wq_init ops) as [[s' out] inp]. destruct H as [E _]. cbn in E.
  split; [exact E|]. intros R. rewrite R, app_nil_r in E. exact E.
Qed.

(* the goroutine never waits while something is queued, and every command makes progress: the queue drains *)
Lemma next_none_iff B (s : wq) : wq_next B s = None <-> q_sched s = [] /\ q_fsync s = [].
Proof.
  unfold wq_next. destruct (q_sched s) as [|w ws]; destruct (q_fsync s) as [|c rest]; split; intros H;
    try discriminate; try (destruct H; discriminate); try (split; reflexivity); try reflexivity.
  - destruct (c - q_published s <=? Nat.min B (length (@nil A))); discriminate.
  - destruct (c - q_published s <=? Nat.min B (length (w :: ws))); discriminate.
Qed.

End P.

(* ---------- the late clamp (seeded change C01f) ---------- *)
Fixpoint wq_run_late (s : wq nat) (ops : list (qop nat)) : wq nat * list (ev nat) * list (ev nat) :=
  match ops with
  | [] => (s, [], [])
  | QW id :: rest => let '(s', out, inp) := wq_run_late (wq_schedule s id) rest in (s', out, EW id :: inp)
  | QS :: rest => let '(s', out, inp) := wq_run_late (wq_sync s) rest in (s', out, ES :: inp)
  | QN B :: rest =>
      match wq_next_late_clamp B s with
      | None => wq_run_late s rest
      | Some (taken, do_sync, s1) => let '(s', out, inp) := wq_run_late s1 rest in (s', cmd_events taken do_sync ++ out, inp)
      end
  end.

(* three writes, a sync, a buffer of two: the sync is executed after two writes *)
Theorem late_clamp_refuted : exists ops,
  buffers_ok ops /\
  let '(s', out, inp) := wq_run_late wq_init ops in
  remaining s' = [] /\ out <> inp /\ inp = [EW 1; EW 2; EW 3; ES] /\ out = [EW 1; EW 2; ES; EW 3].
Proof.
  exists [QW 1; QW 2; QW 3; QS; QN 2; QN 2].
  split; [intros B [H|[H|[H|[H|[H|[H|[]]]]]]]; try discriminate; injection H as <-; lia|].
  vm_compute. repeat split. discriminate.
Qed.

Example queue_ex :
  wq_run wq_init [QW 1; QW 2; QW 3; QS; QN 2; QW 4; QN 2; QS; QN 1024]
  = ({| q_sched := []; q_fsync := []; q_pending := 0; q_published := 0 |},
     [EW 1; EW 2; EW 3; ES; EW 4; ES], [EW 1; EW 2; EW 3; ES; EW 4; ES]).
Proof. vm_compute. reflexivity. Qed.
