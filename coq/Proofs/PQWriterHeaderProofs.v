(* The page headers the queue writer maintains (first / last event id, offset of the first event header in the page)
   are a function of the completed events alone: they are what the ACK model (Model/PQAck.v) assumes "as the writer
   maintains it" - off = 0 iff no event starts in the page, otherwise first = id0 + (events starting in earlier pages),
   last = id0 + (events starting up to this page) - 1 - for every page the writer created in this session, whatever
   the Write chunks were and whatever the flushes did. *)
From VF Require Import PQ PQWriter BytesProofs PQProofs PQAck PQAckProofs PQLayoutProofs PQWriterProofs.
From Coq Require Import Lia ZifyNat ZifyBool.

Definition hcore (p : wpage) : nat * Z * Z := (wp_off p, wp_first p, wp_last p).
Definition hcores (l : list wpage) := map hcore l.

Lemma hcores_app a b : hcores (a ++ b) = hcores a ++ hcores b. Proof. apply map_app. Qed.
Lemma hcores_assign : forall ids l, hcores (assign ids l) = hcores l.
Proof. intros ids l; revert ids. induction l as [|x l IH]; intros [|id ids]; cbn; auto. f_equal. apply IH. Qed.
Lemma hcores_link : forall l, hcores (link l) = hcores l.
Proof. induction l as [|x [|y l] IH]; cbn; auto. f_equal. exact IH. Qed.
Lemma hcores_stale : forall l, hcores (stale_links l) = hcores l.
Proof. induction l as [|x [|y l] IH]; cbn; auto. f_equal. exact IH. Qed.
Lemma hcores_map_same (f : wpage -> wpage) l : (forall x, hcore (f x) = hcore x) -> hcores (map f l) = hcores l.
Proof. intros H. unfold hcores. rewrite map_map. apply map_ext. exact H. Qed.

(* a flush keeps the headers of all pages (released ones and buffer pages together) *)
Lemma do_flush_hcores s fo :
  hcores (ws_hist (fst (do_flush s fo)) ++ b_pages (ws_buf (fst (do_flush s fo)))) = hcores (ws_hist s ++ b_pages (ws_buf s)) /\
  ws_evId (fst (do_flush s fo)) = ws_evId s.
Proof.
  unfold do_flush. destruct (flush_range (ws_buf s)) as [n reported].
  destruct n as [|n1]; [split; reflexivity|].
  set (pages := b_pages (ws_buf s)).
  set (range := firstn (S n1) pages). set (rest := skipn (S n1) pages). set (u := first_unassigned range).
  assert (Hr1 : forall ids, hcores (firstn u range ++ assign ids (skipn u range)) = hcores range).
  { intros ids. rewrite hcores_app, hcores_assign, <- hcores_app, firstn_skipn. reflexivity. }
  assert (Hsplit : hcores range ++ hcores rest = hcores pages).
  { unfold range, rest. rewrite <- hcores_app, firstn_skipn. reflexivity. }
  destruct fo as [ids| |ids]; cbn [fst ws_hist ws_buf b_pages ws_evId with_buf]; (split; [|reflexivity]).
  - set (clean := map (fun p => set_disk (Some (wp_data p)) (set_dirty false p)) (link (firstn u range ++ assign ids (skipn u range))) ++ rest).
    match goal with |- context [skipn ?k clean] => set (kk := k) end.
    rewrite <- app_assoc, firstn_skipn. rewrite !hcores_app. f_equal.
    unfold clean. rewrite hcores_app, hcores_map_same by reflexivity. rewrite hcores_link, Hr1. exact Hsplit.
  - reflexivity.
  - rewrite !hcores_app, (hcores_map_same (set_id 0)) by reflexivity. f_equal. rewrite <- Hsplit. f_equal.
    rewrite <- hcores_app, firstn_skipn, hcores_stale. apply Hr1.
Qed.

Lemma flush_buffer_hcores s fo :
  hcores (ws_hist (fst (flush_buffer s fo)) ++ b_pages (ws_buf (fst (flush_buffer s fo)))) = hcores (ws_hist s ++ b_pages (ws_buf s)) /\
  ws_evId (fst (flush_buffer s fo)) = ws_evId s.
Proof.
  unfold flush_buffer. pose proof (do_flush_hcores s fo) as H. destruct (do_flush s fo) as [s1 r]. cbn [fst] in H.
  destruct r; cbn [fst ws_hist ws_buf ws_evId]; exact H.
Qed.

Section Hdr.
Variable PS : nat.
Notation P := (payload PS).
Hypothesis HP : (hdr_len <= P)%nat.

(* appending bytes keeps the headers; fresh pages (no header fields) may be added *)
Lemma append_byte_hcores b x : exists m, hcores (b_pages (append_byte PS b x)) = hcores (b_pages b) ++ repeat (hcore fresh_wpage) m.
Proof.
  unfold append_byte. destruct (room PS b =? 0)%nat; cbn [b_pages advance].
  - exists 1%nat. unfold hcores, upd_last. rewrite map_upd_nth by reflexivity. rewrite map_app. reflexivity.
  - exists 0%nat. unfold hcores, upd_last. rewrite map_upd_nth by reflexivity. cbn [repeat]. rewrite app_nil_r. reflexivity.
Qed.

Lemma append_hcores : forall data b, exists m, hcores (b_pages (append PS b data)) = hcores (b_pages b) ++ repeat (hcore fresh_wpage) m.
Proof.
  unfold append. induction data as [|x data IH]; intros b; cbn [fold_left].
  - exists 0%nat. cbn. rewrite app_nil_r. reflexivity.
  - destruct (IH (append_byte PS b x)) as [m1 H1]. destruct (append_byte_hcores b x) as [m0 H0].
    exists (m0 + m1)%nat. rewrite H1, H0, <- app_assoc, repeat_app. reflexivity.
Qed.

Lemma reserve_hdr_hcores b : exists m, hcores (b_pages (reserve_hdr PS b)) = hcores (b_pages b) ++ repeat (hcore fresh_wpage) m.
Proof.
  unfold reserve_hdr. destruct (room PS b <? hdr_len)%nat; cbn [b_pages advance].
  - exists 1%nat. unfold hcores, upd_last. rewrite map_upd_nth by reflexivity. rewrite map_app. reflexivity.
  - exists 0%nat. unfold hcores, upd_last. rewrite map_upd_nth by reflexivity. cbn [repeat]. rewrite app_nil_r. reflexivity.
Qed.


(* ---- lists of start pages ---- *)
Lemma starts_in_app ps x j : starts_in (ps ++ [x]) j = starts_in ps j || (j =? x)%nat.
Proof. unfold starts_in. rewrite existsb_app. cbn [existsb]. rewrite orb_false_r. reflexivity. Qed.
Lemma cnt_lt_app ps x j : cnt_lt (ps ++ [x]) j = (cnt_lt ps j + (if (x <? j)%nat then 1 else 0))%nat.
Proof. unfold cnt_lt. rewrite filter_app, app_length. cbn [filter]. destruct (x <? j)%nat; reflexivity. Qed.
Lemma cnt_le_app ps x j : cnt_le (ps ++ [x]) j = (cnt_le ps j + (if (x <=? j)%nat then 1 else 0))%nat.
Proof. unfold cnt_le. rewrite filter_app, app_length. cbn [filter]. destruct (x <=? j)%nat; reflexivity. Qed.
Lemma cnt_le_all : forall l k, (forall y, In y l -> (y <= k)%nat) -> cnt_le l k = length l.
Proof.
  induction l as [|x l IH]; intros k H; [reflexivity|]. rewrite cnt_le_cons. cbn [length].
  destruct (Nat.leb_spec x k) as [_|Hx]; [|exfalso; specialize (H x (or_introl eq_refl)); lia].
  rewrite IH; [lia|]. intros y Hy. apply H. right. exact Hy.
Qed.
Lemma cnt_lt_all : forall l k, (forall y, In y l -> (y < k)%nat) -> cnt_lt l k = length l.
Proof.
  induction l as [|x l IH]; intros k H; [reflexivity|]. rewrite cnt_lt_cons. cbn [length].
  destruct (Nat.ltb_spec x k) as [_|Hx]; [|exfalso; specialize (H x (or_introl eq_refl)); lia].
  rewrite IH; [lia|]. intros y Hy. apply H. right. exact Hy.
Qed.

Lemma starts_from_snoc : forall evs pos e,
  starts_from P pos (evs ++ [e]) =
  starts_from P pos evs ++ [((pos + length (layout_from P pos evs) + pad_at P (pos + length (layout_from P pos evs))) / P)%nat].
Proof.
  induction evs as [|x evs IH]; intros pos e; cbn [app starts_from layout_from length].
  - rewrite Nat.add_0_r. reflexivity.
  - rewrite IH. f_equal. f_equal. rewrite app_length. rewrite !Nat.add_assoc. reflexivity.
Qed.

(* what the invariant says about one page *)
Definition hdr_spec (endId : Z) (ps : list nat) (j : nat) (c : nat * Z * Z) : Prop :=
  (starts_in ps j = false -> fst (fst c) = 0%nat) /\
  (starts_in ps j = true -> fst (fst c) <> 0%nat /\ snd (fst c) = (endId + Z.of_nat (cnt_lt ps j))%Z /\
                            snd c = (endId + Z.of_nat (cnt_le ps j) - 1)%Z).

Record HInv (s : wst) (endId : Z) (base : list Z) (done : list (list Z)) : Prop := {
  hi_id : ws_evId s = (endId + Z.of_nat (length done))%Z;
  hi_pages : forall j c, (1 <= j)%nat -> nth_error (hcores (ws_hist s ++ b_pages (ws_buf s))) j = Some c ->
             hdr_spec endId (starts_from P (length base) done) j c }.

(* where the open header is, as a page index among all pages *)
Lemma SI_hdr s base done cur : SI PS s base done cur ->
  exists i off, b_hdr (ws_buf s) = Some (i, off) /\ (i < length (b_pages (ws_buf s)))%nat /\ (pgH <= off)%nat /\
    (off - pgH < P)%nat /\ ((length (ws_hist s) + i) * P + (off - pgH) = length (pre_of PS base done))%nat.
Proof.
  intros [(h4 & Hh4 & HBI) _]. hl. destruct HBI as [_ Hok _ (DA & dp & DB & k & HD & Hh & Hk & Hg) _].
  exists (length DA), (pgH + k)%nat. split; [exact Hh|].
  assert (Hlen : length (b_pages (ws_buf s)) = (length DA + S (length DB))%nat).
  { rewrite <- (map_length wp_data). fold (pdata (b_pages (ws_buf s))). rewrite HD, app_length. reflexivity. }
  assert (Hdp : (length dp <= P)%nat).
  { rewrite HD in Hok. apply Forall_app in Hok. destruct Hok as [_ Hok]. apply Forall_app in Hok. destruct Hok as [_ Hok].
    inversion Hok; assumption. }
  split; [lia|]. split; [lia|]. split; [lia|].
  replace (pgH + k - pgH)%nat with k by lia. rewrite <- Hg. unfold pdata. rewrite map_length. reflexivity.
Qed.

Lemma starts_bound s base done cur : SI PS s base done cur ->
  exists i off, b_hdr (ws_buf s) = Some (i, off) /\ (i < length (b_pages (ws_buf s)))%nat /\
    (forall y, In y (starts_from P (length base) done) -> (y <= length (ws_hist s) + i)%nat) /\
    ((length base + length (layout_from P (length base) done) + pad_at P (length base + length (layout_from P (length base) done))) / P
     = length (ws_hist s) + i)%nat.
Proof.
  intros H. destruct (SI_hdr s base done cur H) as (i & off & Hh & Hi & Ho & Hk & Hg). hl.
  exists i, off. split; [exact Hh|]. split; [exact Hi|].
  assert (HP0 : (0 < P)%nat) by lia.
  assert (Hpre : length (pre_of PS base done) =
     (length base + length (layout_from P (length base) done) + pad_at P (length base + length (layout_from P (length base) done)))%nat).
  { unfold pre_of. rewrite !app_length, zeros_length. lia. }
  assert (Hdiv : (length (pre_of PS base done) / P = length (ws_hist s) + i)%nat).
  { rewrite <- Hg. rewrite (Nat.add_comm _ (off - pgH)). rewrite Nat.div_add by lia. rewrite Nat.div_small by lia. lia. }
  split.
  - intros y Hy. pose proof (starts_from_lt P HP0 _ _ _ Hy) as Hy'. rewrite <- Hdiv.
    etransitivity; [exact Hy'|]. apply Nat.div_le_mono; [lia|]. rewrite Hpre. lia.
  - rewrite <- Hpre. exact Hdiv.
Qed.


Definition HPL (H : list (nat * Z * Z)) (endId : Z) (ps : list nat) : Prop :=
  forall j c, (1 <= j)%nat -> nth_error H j = Some c -> hdr_spec endId ps j c.

Lemma HPL_fresh H endId ps m : HPL H endId ps -> (forall y, In y ps -> (y < length H)%nat) ->
  HPL (H ++ repeat (hcore fresh_wpage) m) endId ps.
Proof.
  intros HH Hb j c Hj Hn. destruct (Nat.lt_ge_cases j (length H)) as [Hlt|Hge].
  - rewrite nth_error_app1 in Hn by exact Hlt. exact (HH j c Hj Hn).
  - rewrite nth_error_app2 in Hn by exact Hge. apply nth_error_In, repeat_spec in Hn. subst c.
    split; [intros _; reflexivity|]. intros Hs. apply starts_in_spec in Hs. specialize (Hb j Hs). lia.
Qed.

Lemma nth_error_upd_nth {A} (f : A -> A) : forall (l : list A) i j,
  nth_error (upd_nth i f l) j = if (j =? i)%nat then option_map f (nth_error l j) else nth_error l j.
Proof.
  induction l as [|x l IH]; intros [|i] [|j]; cbn; try reflexivity.
  - destruct (j =? i)%nat; reflexivity.
  - apply IH.
Qed.

Definition hupd (off : nat) (id : Z) (c : nat * Z * Z) : nat * Z * Z :=
  if (fst (fst c) =? 0)%nat then (off, id, id) else (fst (fst c), snd (fst c), id).

Lemma HPL_next H endId ps J off : HPL H endId ps -> off <> 0%nat -> (forall y, In y ps -> (y <= J)%nat) ->
  HPL (upd_nth J (hupd off (endId + Z.of_nat (length ps))%Z) H) endId (ps ++ [J]).
Proof.
  intros HH Hoff Hb j c Hj Hn. rewrite nth_error_upd_nth in Hn. unfold hdr_spec.
  rewrite starts_in_app, cnt_lt_app, cnt_le_app.
  destruct (Nat.eqb_spec j J) as [->|Hne].
  - (* the page of the new event *)
    destruct (nth_error H J) as [c0|] eqn:E0; [|discriminate]. cbn [option_map] in Hn. injection Hn as <-.
    rewrite orb_true_r. destruct (Nat.ltb_spec J J) as [|_]; [lia|]. destruct (Nat.leb_spec J J) as [_|]; [|lia].
    rewrite (cnt_le_all ps J Hb). destruct (HH J c0 Hj E0) as [H0 H1].
    split; [discriminate|]. intros _. unfold hupd.
    destruct (Nat.eqb_spec (fst (fst c0)) 0) as [Hz|Hnz]; cbn [fst snd].
    + (* first event in this page: every earlier event starts in an earlier page *)
      assert (Hlt : forall y, In y ps -> (y < J)%nat).
      { intros y Hy. specialize (Hb y Hy). destruct (Nat.eq_dec y J) as [->|]; [|lia].
        exfalso. apply starts_in_spec in Hy. destruct (H1 Hy) as [Hnz _]. contradiction. }
      rewrite (cnt_lt_all ps J Hlt). split; [exact Hoff|]. split; lia.
    + destruct (starts_in ps J) eqn:Es; [|exfalso; apply Hnz, H0; reflexivity].
      destruct (H1 eq_refl) as (_ & Hf & _). split; [exact Hnz|]. split; [rewrite Hf; lia | lia].
  - rewrite orb_false_r. specialize (HH j c Hj Hn). destruct HH as [H0 H1].
    destruct (Nat.ltb_spec J j) as [Hlt|Hge]; destruct (Nat.leb_spec J j) as [Hle|Hgt]; try lia.
    (* a page behind the new event's page: no event starts there (pages in front of it: nothing changes) *)
    split; [exact H0|]. intros Hs. exfalso. apply starts_in_spec in Hs. specialize (Hb j Hs). lia.
Qed.


Lemma pgH_pos : (0 < pgH)%nat. Proof. vm_compute. lia. Qed.

Lemma hcores_mark_from : forall l i, hcores (mark_from i l) = hcores l.
Proof. induction l as [|x l IH]; intros [|i]; cbn; auto; f_equal; apply IH. Qed.

Lemma commit_event_hcores b id i off : b_hdr b = Some (i, off) ->
  hcores (b_pages (commit_event b id)) = upd_nth i (hupd off id) (hcores (b_pages b)).
Proof.
  intros Hh. unfold commit_event. rewrite Hh. cbn [b_pages].
  assert (E0 : forall l, hcores (upd_nth 0 (set_dirty true) l) = hcores l).
  { intros l. unfold hcores. apply map_upd_nth. reflexivity. }
  assert (E1 : forall l, hcores (mark_from i l) = hcores l) by (intros l; apply hcores_mark_from).
  destruct (i =? 1)%nat; rewrite ?E0, E1; unfold hcores;
    (rewrite (map_upd_nth_comm hcore _ (hupd off id)); [reflexivity|]);
    intros x; unfold hupd, hcore; cbn [fst snd]; destruct (wp_off x =? 0)%nat; reflexivity.
Qed.

Lemma upd_nth_app_r {A} (f : A -> A) (a b : list A) i : upd_nth (length a + i) f (a ++ b) = a ++ upd_nth i f b.
Proof. induction a as [|x a IH]; cbn; [reflexivity | rewrite IH; reflexivity]. Qed.

Lemma set_hdr_size_hcores b sz : hcores (b_pages (set_hdr_size b sz)) = hcores (b_pages b) /\ b_hdr (set_hdr_size b sz) = b_hdr b.
Proof.
  unfold set_hdr_size. destruct (b_hdr b) as [[i off]|] eqn:E; [|split; [reflexivity|exact E]]. cbn [b_pages b_hdr].
  split; [|first [exact E | reflexivity]]. unfold hcores. apply map_upd_nth. reflexivity.
Qed.

Theorem w_step_HInv s o endId base done cur : SI PS s base done cur -> HInv s endId base done ->
  let '(s', r) := w_step PS s o in
  let '(done', cur') := spec_step (done, cur) o r in
  HInv s' endId base done'.
Proof.
  intros HS [Hid Hpg]. destruct o as [data fo|fo|fo]; cbn [w_step].
  - (* Write *)
    assert (Hgo : forall s1, SI PS s1 base done cur -> HInv s1 endId base done ->
              HInv {| ws_buf := append PS (ws_buf s1) data; ws_evBytes := ws_evBytes s1 + Z.of_nat (length data); ws_evId := ws_evId s1;
                      ws_active := ws_active s1; ws_root := ws_root s1; ws_hist := ws_hist s1 |} endId base done).
    { intros s1 HS1 [Hid1 Hpg1]. split; cbn [ws_evId ws_hist ws_buf]; [exact Hid1|].
      destruct (append_hcores data (ws_buf s1)) as [m Hm].
      rewrite hcores_app, Hm, app_assoc, <- hcores_app.
      apply HPL_fresh; [exact Hpg1|].
      destruct (starts_bound s1 base done cur HS1) as (i & off & _ & Hi & Hb & _).
      intros y Hy. specialize (Hb y Hy). unfold hcores. rewrite map_length, app_length. lia. }
    destruct (b_avail (ws_buf s) <=? Z.of_nat (length data))%Z.
    + pose proof (flush_buffer_SI PS HP s fo base done cur HS) as HS1.
      destruct (flush_buffer_hcores s fo) as [Hh1 He1].
      destruct (flush_buffer s fo) as [s1 r]. cbn [fst] in *.
      assert (HI1 : HInv s1 endId base done) by (split; [rewrite He1; exact Hid | rewrite Hh1; exact Hpg]).
      destruct r; cbn [spec_step fst snd]; [apply Hgo; assumption | exact HI1].
    + cbn [spec_step fst snd]. apply Hgo; [exact HS | split; assumption].
  - (* Next *)
    destruct (starts_bound s base done cur HS) as (i & off & Hh & Hi & Hb & Hdiv).
    destruct (SI_hdr s base done cur HS) as (i' & off' & Hh' & _ & Hoff & _).
    rewrite Hh in Hh'. injection Hh' as <- <-.
    set (b0 := set_hdr_size (ws_buf s) (ws_evBytes s)).
    destruct (set_hdr_size_hcores (ws_buf s) (ws_evBytes s)) as [Hb0 Hh0]. fold b0 in Hb0, Hh0.
    set (b1 := reserve_hdr PS (commit_event b0 (ws_evId s))).
    assert (H1 : HInv {| ws_buf := b1; ws_evBytes := 0; ws_evId := ws_evId s + 1; ws_active := ws_active s + 1; ws_root := ws_root s;
                         ws_hist := ws_hist s |} endId base (done ++ [cur])).
    { split; cbn [ws_evId ws_hist ws_buf].
      - rewrite Hid, app_length. cbn [length]. lia.
      - unfold b1. destruct (reserve_hdr_hcores (commit_event b0 (ws_evId s))) as [m Hm].
        rewrite hcores_app, Hm, (commit_event_hcores b0 (ws_evId s) i off) by (rewrite Hh0; exact Hh).
        rewrite Hb0, app_assoc.
        replace (hcores (ws_hist s) ++ upd_nth i (hupd off (ws_evId s)) (hcores (b_pages (ws_buf s))))
          with (upd_nth (length (ws_hist s) + i) (hupd off (ws_evId s)) (hcores (ws_hist s ++ b_pages (ws_buf s)))).
        2:{ rewrite hcores_app. rewrite <- (map_length hcore (ws_hist s)). apply upd_nth_app_r. }
        rewrite starts_from_snoc, Hdiv.
        apply HPL_fresh.
        + rewrite Hid, <- (starts_from_length P done (length base)).
          apply HPL_next; [exact Hpg | pose proof pgH_pos; lia | exact Hb].
        + intros y Hy. rewrite upd_nth_length. unfold hcores. rewrite map_length, app_length.
          apply in_app_or in Hy. destruct Hy as [Hy|[<-|[]]]; [specialize (Hb y Hy); lia | lia]. }
    assert (HS1 := w_step_SI PS HP s (WNext fo) base done cur HS). cbn [w_step] in HS1. fold b0 b1 in HS1.
    destruct (b_avail b1 <=? Z.of_nat hdr_len)%Z.
    + destruct (flush_buffer_hcores {| ws_buf := b1; ws_evBytes := 0; ws_evId := ws_evId s + 1; ws_active := ws_active s + 1;
                                       ws_root := ws_root s; ws_hist := ws_hist s |} fo) as [Hh2 He2].
      destruct (flush_buffer _ fo) as [s2 r]. cbn [fst] in *. cbn [spec_step fst snd].
      destruct H1 as [Hid1 Hpg1]. split; [rewrite He2; exact Hid1 | rewrite Hh2; exact Hpg1].
    + cbn [spec_step fst snd]. exact H1.
  - destruct (flush_buffer_hcores s fo) as [Hh1 He1].
    destruct (flush_buffer s fo) as [s1 r]. cbn [fst] in *. cbn [spec_step].
    split; [rewrite He1; exact Hid | rewrite Hh1; exact Hpg].
Qed.


Theorem w_run_HInv : forall ops s endId base done cur, SI PS s base done cur -> HInv s endId base done ->
  let '(s', rs) := w_run PS s ops in
  let '(done', cur') := spec_run (done, cur) ops rs in
  HInv s' endId base done'.
Proof.
  induction ops as [|o ops IH]; intros s endId base done cur HS HI; cbn [w_run spec_run]; [exact HI|].
  pose proof (w_step_SI PS HP s o base done cur HS) as HS1.
  pose proof (w_step_HInv s o endId base done cur HS HI) as HI1.
  destruct (w_step PS s o) as [s1 r].
  destruct (spec_step (done, cur) o r) as [done1 cur1] eqn:E.
  specialize (IH s1 endId base done1 cur1 HS1 HI1).
  destruct (w_run PS s1 ops) as [s2 rs]. cbn [spec_run]. rewrite E. exact IH.
Qed.

Theorem w_init_HInv pages tail endId r :
  HInv (w_init PS pages tail endId r) endId (match tail with Some t => wp_data t | None => [] end) [].
Proof.
  split; cbn [w_init ws_evId ws_hist ws_buf length]; [lia|].
  intros j c Hj Hn. cbn [starts_from]. split; [|intros Hs; discriminate Hs]. intros _. cbn [app] in Hn.
  destruct tail as [t|].
  - destruct (reserve_hdr_hcores {| b_pages := [t]; b_avail := Z.of_nat (payload PS) * pages - Z.of_nat (length (wp_data t)); b_hdr := None; b_count := 1 |}) as [m Hm].
    rewrite Hm in Hn. cbn [b_pages hcores map app] in Hn.
    destruct j as [|j]; [lia|]. cbn [nth_error] in Hn. apply nth_error_In, repeat_spec in Hn. subst c. reflexivity.
  - destruct (reserve_hdr_hcores {| b_pages := []; b_avail := Z.of_nat (payload PS) * pages; b_hdr := None; b_count := 0 |}) as [m Hm].
    rewrite Hm in Hn. cbn [b_pages hcores map app] in Hn. apply nth_error_In, repeat_spec in Hn. subst c. reflexivity.
Qed.

End Hdr.

(* ---------- the links a flush writes ---------- *)
Lemma link_ids : forall l, map wp_id (link l) = map wp_id l.
Proof. induction l as [|x [|y l] IH]; cbn; auto. f_equal. exact IH. Qed.

Lemma link_chain : forall l i x y, nth_error (link l) i = Some x -> nth_error (link l) (S i) = Some y -> wp_next x = wp_id y.
Proof.
  induction l as [|a [|b l] IH]; intros i x y Hx Hy.
  - destruct i; discriminate.
  - destruct i as [|i]; cbn in Hy; [discriminate | destruct i; discriminate].
  - change (link (a :: b :: l)) with (set_next (wp_id b) a :: link (b :: l)) in *.
    destruct i as [|i].
    + cbn [nth_error] in Hx, Hy. injection Hx as <-. cbn [wp_next set_next].
      assert (Hid : map wp_id (link (b :: l)) = wp_id b :: map wp_id l) by (rewrite link_ids; reflexivity).
      destruct (link (b :: l)) as [|y0 r]; [discriminate|]. cbn in Hy. injection Hy as <-. cbn in Hid. injection Hid as -> _. reflexivity.
    + cbn [nth_error] in Hx, Hy. exact (IH i x y Hx Hy).
Qed.

(* the page images of a successful flush form a chain: every image names the id of the image written after it *)
Theorem flush_images_linked s ids s' imgs pg al : do_flush s (FOk ids) = (s', FDone imgs pg al) ->
  forall i a b, nth_error imgs i = Some a -> nth_error imgs (S i) = Some b ->
  snd (fst (fst (fst (fst a)))) = fst (fst (fst (fst (fst b)))).
Proof.
  unfold do_flush. destruct (flush_range (ws_buf s)) as [n rep]. destruct n as [|n1]; [discriminate|].
  intros H. injection H as _ <- _ _. intros i a b Ha Hb.
  rewrite nth_error_map in Ha, Hb.
  destruct (nth_error (link _) i) as [x|] eqn:Ex; [|discriminate]. destruct (nth_error (link _) (S i)) as [y|] eqn:Ey; [|discriminate].
  cbn [option_map] in Ha, Hb. injection Ha as <-. injection Hb as <-. cbn [image_of fst snd]. exact (link_chain _ i x y Ex Ey).
Qed.

(* ---------- the tail id a flush persists ---------- *)
Lemma do_flush_tail_id s fo : match snd (do_flush s fo) with
  | FDone _ _ _ => snd (q_tail (ws_root (fst (do_flush s fo)))) = ws_evId (fst (do_flush s fo))
  | _ => ws_root (fst (do_flush s fo)) = ws_root s end.
Proof.
  unfold do_flush. destruct (flush_range (ws_buf s)) as [n rep]. destruct n; [reflexivity|]. destruct fo; reflexivity.
Qed.

Lemma flush_buffer_tail_id s fo : match snd (flush_buffer s fo) with
  | WOk (Some (FDone _ _ _, _)) => snd (q_tail (ws_root (fst (flush_buffer s fo)))) = ws_evId (fst (flush_buffer s fo))
  | _ => True end.
Proof.
  unfold flush_buffer. pose proof (do_flush_tail_id s fo) as H. destruct (do_flush s fo) as [s1 r]. cbn [fst snd] in H.
  destruct r; cbn [fst snd ws_root ws_evId]; auto.
Qed.

Theorem w_step_tail_id PS s o s' fr cb : w_step PS s o = (s', WOk (Some (fr, cb))) ->
  match o, fr with
  | WNext _, FDone _ _ _ | WFlush _, FDone _ _ _ => snd (q_tail (ws_root s')) = ws_evId s'
  | _, _ => True end.
Proof.
  intros E. destruct o as [d fo|fo|fo]; [exact I| |]; cbn [w_step] in E.
  - destruct (b_avail _ <=? _)%Z; [|discriminate].
    match type of E with flush_buffer ?x fo = _ => pose proof (flush_buffer_tail_id x fo) as H end. rewrite E in H. cbn [fst snd] in H.
    destruct fr; auto.
  - pose proof (flush_buffer_tail_id s fo) as H. rewrite E in H. cbn [fst snd] in H. destruct fr; auto.
Qed.
