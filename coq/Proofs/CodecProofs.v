(* Round trip of the run-length region codec (region.go encodeRegion / decodeRegion). *)
From VF Require Import Region BytesProofs.
From Coq Require Import Lia ZifyBool.

Lemma land_high_low hi lo k : 0 <= k -> 0 <= lo < 2^k -> Z.land (hi * 2^k) lo = 0.
Proof.
  intros Hk Hlo. apply Z.bits_inj'. intros m Hm. rewrite Z.land_spec, Z.bits_0.
  destruct (Z_lt_ge_dec m k).
  - rewrite Z.mul_pow2_bits_low by lia. reflexivity.
  - destruct (Z.eq_dec lo 0) as [->|Hne]; [rewrite Z.bits_0; apply andb_false_r|].
    rewrite (Z.bits_above_log2 lo m); [apply andb_false_r | lia |].
    apply Z.lt_le_trans with k; [|lia]. apply Z.log2_lt_pow2; lia.
Qed.

Lemma lor_high_low hi lo k : 0 <= k -> 0 <= lo < 2^k -> Z.lor (hi * 2^k) lo = hi * 2^k + lo.
Proof.
  intros Hk Hlo. pose proof (land_high_low hi lo k Hk Hlo) as H.
  rewrite <- Z.lxor_lor by exact H. symmetry. apply Z.add_nocarry_lxor. exact H.
Qed.

Lemma land_pow2 v n : 0 <= n -> Z.land (2^n) v = if Z.testbit v n then 2^n else 0.
Proof.
  intros Hn. apply Z.bits_inj'. intros m Hm. rewrite Z.land_spec, Z.pow2_bits_eqb by lia.
  destruct (Z.eqb_spec n m) as [->|Hne].
  - destruct (Z.testbit v m); [rewrite Z.pow2_bits_true by lia; reflexivity | rewrite Z.bits_0; reflexivity].
  - cbn. destruct (Z.testbit v n); [rewrite Z.pow2_bits_false by lia; reflexivity | rewrite Z.bits_0; reflexivity].
Qed.

(* the entry word: flag (bit 63), count field (bits 55..62), page id (bits 0..54) *)
Definition entry_value (b c id : Z) : Z := b * 2^63 + c * 2^55 + id.

Lemma entry_word (isMeta : bool) c id : 0 <= c < 2^8 -> 0 <= id < 2^55 ->
  Z.lor (Z.lor (if isMeta then meta_flag else 0) (Z.shiftl c entry_shift)) id =
  entry_value (if isMeta then 1 else 0) c id.
Proof.
  intros Hc Hid. unfold entry_value, meta_flag, entry_shift. change (64 - entryBits) with 55.
  rewrite Z.shiftl_mul_pow2 by lia.
  assert (H1: Z.lor (if isMeta then 2 ^ 63 else 0) (c * 2 ^ 55) = (if isMeta then 1 else 0) * 2^63 + c * 2^55).
  { destruct isMeta; [|rewrite Z.lor_0_l; lia].
    replace (2^63) with (2^8 * 2^55) by reflexivity.
    rewrite Z.lor_comm. 
    (* c*2^55 < 2^63 = 2^8*2^55: low part relative to bit 63 *)
    replace (2 ^ 8 * 2 ^ 55) with (1 * 2^63) by reflexivity.
    rewrite Z.lor_comm, lor_high_low by lia. reflexivity. }
  rewrite H1.
  replace ((if isMeta then 1 else 0) * 2 ^ 63 + c * 2 ^ 55) with (((if isMeta then 1 else 0) * 2^8 + c) * 2^55) by (destruct isMeta; lia).
  rewrite lor_high_low by lia. destruct isMeta; lia.
Qed.

Lemma entry_decode b c id : (b = 0 \/ b = 1) -> 0 <= c < 2^8 -> 0 <= id < 2^55 ->
  let v := entry_value b c id in
  0 <= v < 2^64 /\
  (v * 2^entryBits) mod 2^64 / 2^entryBits = id /\
  (Z.land meta_flag v =? meta_flag) = (b =? 1) /\
  Z.land (Z.shiftr v entry_shift) (2^(entryBits - 1) - 1) = c.
Proof.
  intros Hb Hc Hid. cbn zeta. unfold entry_value, meta_flag, entry_shift.
  change entryBits with 9. change (64 - 9) with 55. change (2^(9-1) - 1) with (Z.ones 8).
  set (v := b * 2^63 + c * 2^55 + id).
  assert (Hv: 0 <= v < 2^64) by (unfold v; destruct Hb; subst; lia).
  split; [exact Hv|]. split; [|split].
  - (* (v * 2^9) mod 2^64 / 2^9 = v mod 2^55 = id *)
    replace (2^64) with (2^55 * 2^9) by reflexivity.
    rewrite Z.mul_mod_distr_r by lia. rewrite Z.div_mul by lia.
    unfold v. replace (b * 2^63 + c * 2^55 + id) with (id + (b * 2^8 + c) * 2^55) by lia.
    rewrite Z.mod_add by lia. apply Z.mod_small. lia.
  - rewrite land_pow2 by lia.
    assert (Ht: Z.testbit v 63 = (b =? 1)).
    { rewrite Z.testbit_odd, Z.shiftr_div_pow2 by lia.
      unfold v. replace (b * 2^63 + c * 2^55 + id) with ((c * 2^55 + id) + b * 2^63) by lia.
      rewrite Z.div_add by lia. rewrite Z.div_small by lia. destruct Hb; subst; reflexivity. }
    rewrite Ht. destruct (b =? 1); reflexivity.
  - rewrite Z.land_ones by lia. rewrite Z.shiftr_div_pow2 by lia.
    unfold v. replace (b * 2^63 + c * 2^55 + id) with (id + (b * 2^8 + c) * 2^55) by lia.
    rewrite Z.div_add by lia. rewrite Z.div_small by lia.
    replace (0 + (b * 2^8 + c)) with (c + b * 2^8) by lia. rewrite Z.mod_add by lia. apply Z.mod_small. lia.
Qed.

(* decodeRegion (encodeRegion m r ++ rest) = (m, r, size) for every region with 1 <= count < 2^32
   and 0 <= id < 2^55 *)
Theorem region_roundtrip isMeta r rest :
  1 <= rcount r < 2^32 -> 0 <= rid r < 2^55 ->
  decode_region (encode_region isMeta r ++ rest) = (isMeta, r, region_enc_size r) /\
  Z.of_nat (length (encode_region isMeta r)) = region_enc_size r.
Proof.
  intros Hc Hid. unfold encode_region, decode_region, region_enc_size. change entryOverflow with 255.
  destruct (rcount r <? 255) eqn:Es.
  - rewrite entry_word by lia.
    set (b := if isMeta then 1 else 0).
    destruct (entry_decode b (rcount r) (rid r) ltac:(unfold b; destruct isMeta; auto) ltac:(lia) Hid) as (Hv & Hi & Hm & Hcn).
    rewrite get_le_0_app_dec by (apply le_encode_length).
    rewrite le_decode_encode by (cbn; lia).
    rewrite Hi, Hm, Hcn.
    replace (rcount r =? 0) with false by lia. replace (rcount r =? 255) with false by lia.
    split; [|rewrite le_encode_length; reflexivity].
    destruct r as [i c]. cbn [rid rcount]. unfold b. destruct isMeta; reflexivity.
  - rewrite entry_word by lia.
    set (b := if isMeta then 1 else 0).
    destruct (entry_decode b 255 (rid r) ltac:(unfold b; destruct isMeta; auto) ltac:(lia) Hid) as (Hv & Hi & Hm & Hcn).
    rewrite <- app_assoc.
    rewrite get_le_0_app_dec by (apply le_encode_length).
    rewrite le_decode_encode by (cbn; lia).
    rewrite Hi, Hm, Hcn. cbn [Z.eqb].
    replace (255 =? 0) with false by reflexivity. replace (255 =? 255) with true by reflexivity.
    rewrite get_le_skip_dec by (apply le_encode_length).
    rewrite get_le_0_app_dec by (apply le_encode_length).
    rewrite le_decode_encode by (cbn; lia).
    split; [|rewrite app_length, !le_encode_length; reflexivity].
    destruct r as [i c]. cbn [rid rcount]. unfold b. destruct isMeta; reflexivity.
Qed.
