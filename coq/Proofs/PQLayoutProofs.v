(* The writer's layout meets the ACK model: the page in which the header of each event starts (as laid out by
   the framing rule of Model/PQ.v: 4-byte header, never split across a page end) is non-decreasing in event order
   and lies inside the chain. These are exactly the hypotheses of ack_pages_spec (Proofs/PQAckProofs.v), which
   therefore applies to every queue content the writer can produce. *)
From VF Require Import PQ BytesProofs PQProofs PQAck PQAckProofs.
From Coq Require Import Lia ZifyNat ZifyBool.
Open Scope nat_scope.
Ltac Zify.zify_post_hook ::= Z.div_mod_to_equations.

(* starts_from / starts: Model/PQ.v *)

Lemma frame_event_length P pos e : length (frame_event P pos e) = pad_at P pos + hdr_len + length e.
Proof. unfold frame_event. rewrite !app_length, zeros_length, le_encode_length. lia. Qed.

Lemma starts_from_ge P : 0 < P -> forall evs pos y, In y (starts_from P pos evs) -> pos / P <= y.
Proof.
  intros HP. induction evs as [|e rest IH]; intros pos y H; cbn [starts_from] in H; [destruct H|].
  destruct H as [<-|H].
  - apply Nat.div_le_mono; lia.
  - specialize (IH _ _ H). rewrite frame_event_length in IH.
    etransitivity; [|exact IH]. apply Nat.div_le_mono; lia.
Qed.

Theorem starts_mono P evs pos : 0 < P -> mono (starts_from P pos evs).
Proof.
  intros HP. revert pos. induction evs as [|e rest IH]; intros pos; cbn [starts_from]; constructor.
  - intros y H. pose proof (starts_from_ge P HP _ _ _ H) as G. rewrite frame_event_length in G.
    etransitivity; [|exact G]. apply Nat.div_le_mono; lia.
  - apply IH.
Qed.

Lemma starts_from_length P evs : forall pos, length (starts_from P pos evs) = length evs.
Proof. induction evs as [|e rest IH]; intros pos; cbn; [reflexivity | rewrite IH; reflexivity]. Qed.

(* every header starts before the end of the stream: inside the chain, whose last page is page T *)
Lemma starts_from_lt P : 0 < P -> forall evs pos y, In y (starts_from P pos evs) ->
  y <= (pos + length (layout_from P pos evs)) / P.
Proof.
  intros HP. induction evs as [|e rest IH]; intros pos y H; cbn [starts_from layout_from] in *; [destruct H|].
  rewrite app_length. destruct H as [<-|H].
  - rewrite frame_event_length. apply Nat.div_le_mono; lia.
  - specialize (IH _ _ H). etransitivity; [exact IH|]. apply Nat.div_le_mono; lia.
Qed.

(* the ACK theorem on the writer's layout: ACKing the first N of the events laid out from the beginning of the
   head page keeps the page in which event N-1 starts, frees all pages before it, never the writer's page *)
Theorem ack_on_layout P evs N :
  0 < P -> 1 <= N <= length evs ->
  let ps := starts P evs in
  let T := length (layout P evs) / P in
  ack_pages ps 0 T N = (nth (N - 1) ps 0, false) /\
  (forall i, N - 1 <= i < length evs -> nth (N - 1) ps 0 <= nth i ps 0) /\
  mono ps.
Proof.
  intros HP HN. cbv zeta. unfold starts, layout.
  assert (Hm: mono (starts_from P 0 evs)) by (apply starts_mono; exact HP).
  assert (Hr: forall p, In p (starts_from P 0 evs) -> 0 <= p <= length (layout_from P 0 evs) / P).
  { intros p H. split; [lia|]. apply (starts_from_lt P HP evs 0 p H). }
  assert (HN': 1 <= N <= length (starts_from P 0 evs)) by (rewrite starts_from_length; exact HN).
  split; [apply (ack_pages_spec _ 0 _ N Hm Hr HN')|]. split; [|exact Hm].
  intros i Hi. pose proof (ack_frees_only_acked_pages _ 0 _ N Hm Hr HN') as H. cbv zeta in H.
  rewrite (ack_pages_spec _ 0 _ N Hm Hr HN') in H. cbn [fst] in H. destruct H as [_ H].
  apply H. rewrite starts_from_length. exact Hi.
Qed.

Example ack_on_layout_ex :
  starts 100 [repeat 1%Z 50; repeat 2%Z 60; repeat 3%Z 10; repeat 4%Z 300] = [0; 0; 1; 1] /\
  ack_pages (starts 100 [repeat 1%Z 50; repeat 2%Z 60; repeat 3%Z 10; repeat 4%Z 300]) 0 4 3 = (1, false).
Proof. split; vm_compute; reflexivity. Qed.

(* ---------- the binary version run by the correspondence check is the same function ---------- *)
Lemma starts_fromZ_spec P : 0 < P -> forall evs pos,
  map Z.of_nat (starts_from P pos evs) = starts_fromZ (Z.of_nat P) (Z.of_nat pos) (map (fun e => Z.of_nat (length e)) evs).
Proof.
  intros HP. induction evs as [|e rest IH]; intros pos; cbn [starts_from starts_fromZ map]; [reflexivity|].
  assert (Hh: pq_szEventHeader = Z.of_nat hdr_len) by (unfold hdr_len; rewrite Z2Nat.id; [reflexivity | vm_compute; discriminate]).
  assert (Hpad: Z.of_nat (pad_at P pos) =
                (if (Z.of_nat P - Z.of_nat pos mod Z.of_nat P <? pq_szEventHeader)%Z then (Z.of_nat P - Z.of_nat pos mod Z.of_nat P)%Z else 0%Z)).
  { unfold pad_at. rewrite Hh.
    destruct (P - pos mod P <? hdr_len) eqn:E1; destruct (Z.of_nat P - Z.of_nat pos mod Z.of_nat P <? Z.of_nat hdr_len)%Z eqn:E2; lia. }
  rewrite <- Hpad. f_equal.
  - lia.
  - rewrite IH. f_equal. rewrite frame_event_length, Hh. lia.
Qed.
