From VF Require Import Truncate.
From Coq Require Import Lia ZifyBool.

(* when a commit truncates the file, the new size covers what the new commit needs, what the previous commit
   needs, and the size limit; and it really shrinks the file *)
Theorem check_truncate_spec lastEnd sz mmapSz maxSz pageSize e :
  check_truncate lastEnd sz mmapSz maxSz pageSize = (e, true) ->
  mmapSz <= e /\ lastEnd * pageSize <= e /\ maxSz <= e /\ e < sz /\ 0 < maxSz.
Proof.
  unfold check_truncate. destruct (maxSz <=? 0) eqn:E0; [discriminate|].
  destruct (sz <=? Z.max mmapSz maxSz) eqn:E1; [discriminate|].
  intros [= <- H]. lia.
Qed.

(* an unbounded file is never truncated by a commit *)
Theorem check_truncate_unbounded lastEnd sz mmapSz maxSz pageSize :
  maxSz <= 0 -> check_truncate lastEnd sz mmapSz maxSz pageSize = (0, false).
Proof. intros H. unfold check_truncate. replace (maxSz <=? 0) with true by lia. reflexivity. Qed.

(* the clamped variant cuts below the previous commit's end: 78 pages in use by the previous commit, the new commit
   needs 50, limit 50 pages *)
Theorem check_truncate_clamped_refuted : exists lastEnd sz mmapSz maxSz pageSize e,
  check_truncate_clamped lastEnd sz mmapSz maxSz pageSize = (e, true) /\ e < lastEnd * pageSize.
Proof. exists 78, (78 * 4096), (50 * 4096), (50 * 4096), 4096, (50 * 4096). split; [vm_compute; reflexivity | lia]. Qed.

Example check_truncate_ex : check_truncate 78 (78 * 4096) (50 * 4096) (50 * 4096) 4096 = (78 * 4096, false).
Proof. vm_compute. reflexivity. Qed.
