From VF Require Import Truncate.
From Coq Require Import Lia ZifyBool.

(* when a commit truncates the file, the new size covers what the new commit needs, what the previous commit
   needs, and the size limit; and it really shrinks the file *)
Theorem check_truncate_spec lastEnd sz mmapSz maxSz pageSize e :
  check_truncate lastEnd sz mmapSz maxSz pageSize = (e, true) ->
  mmapSz <= e /\ lastEnd * pageSize <= e /\ maxSz <= e /\ e < sz /\ 0 < maxSz.
Proof.
  unfold check_truncate. destruct (maxSz <=? 0) eqn:E0; [discriminate|].
  destruct (sz <=? Z.max mmapSz maxSz) eqn:E1; [discriminate|].
  intros [= <- H]. lia.
Qed.

(* an unbounded file is never truncated by a commit *)
Theorem check_truncate_unbounded lastEnd sz mmapSz maxSz pageSize :
  maxSz <= 0 -> check_truncate lastEnd sz mmapSz maxSz pageSize = (0, false).
Proof. intros H. unfold check_truncate. replace (maxSz <=? 0) with true by lia. reflexivity. Qed.

(* the clamped variant cuts below the previous commit's end: 78 pages in use by the previous commit, the new commit
   needs 50, limit 50 pages *)
Theorem check_truncate_clamped_refuted : exists lastEnd sz mmapSz maxSz pageSize e,
  check_truncate_clamped lastEnd sz mmapSz maxSz pageSize = (e, true) /\ e < lastEnd * pageSize.
Proof. exists 78, (78 * 4096), (50 * 4096), (50 * 4096), 4096, (50 * 4096). split; [vm_compute; reflexivity | lia]. Qed.

Example check_truncate_ex : check_truncate 78 (78 * 4096) (50 * 4096) (50 * 4096) 4096 = (78 * 4096, false).
Proof. vm_compute. reflexivity. Qed.

(* ---------- the truncation after a rollback ---------- *)
(* it really shrinks the file, and every page below the larger of the two end markers of the restored state - data
   pages, the meta area, an overflow area behind the size limit - and every page below the end of the state of the
   other header page is still inside the file *)
Theorem rollback_truncate_spec metaEnd dataEnd otherEnd sz ps mp n :
  0 < ps -> rollback_truncate metaEnd dataEnd otherEnd sz ps mp = Some n ->
  n < sz /\ n = Z.max (Z.max metaEnd dataEnd) otherEnd * ps /\
  (forall id, 0 <= id < Z.max metaEnd dataEnd -> (id + 1) * ps <= n) /\
  (forall id, 0 <= id < otherEnd -> (id + 1) * ps <= n).
Proof.
  intros Hps. unfold rollback_truncate. destruct (mp =? 0); [discriminate|].
  destruct (Z.max (Z.max metaEnd dataEnd) otherEnd * ps <? sz) eqn:E; [|discriminate]. intros [= <-].
  split; [lia|]. split; [reflexivity|]. split; intros id Hid; nia.
Qed.

(* an unbounded file is not truncated by a rollback *)
Theorem rollback_truncate_unbounded metaEnd dataEnd otherEnd sz ps : rollback_truncate metaEnd dataEnd otherEnd sz ps 0 = None.
Proof. reflexivity. Qed.

(* the code before fix D33 cut off the pages of the other header's state: the newest commit ends at page 68, the
   previous one (the fall-back of Open) at page 153 *)
Theorem rollback_truncate_v1_refuted : exists metaEnd dataEnd otherEnd sz ps mp n id,
  rollback_truncate_v1 metaEnd dataEnd sz ps mp = Some n /\ 0 <= id < otherEnd /\ n < (id + 1) * ps.
Proof. exists 68, 68, 153, (153 * 1024), 1024, 64, (68 * 1024), 152. split; [vm_compute; reflexivity | lia]. Qed.

(* the variant that truncates to the data end marker (seeded change C02j) cuts off a committed overflow area:
   64 data pages, meta end marker 67 (3 pages behind the limit in use), the file has 72 pages *)
Theorem rollback_truncate_dataend_refuted : exists metaEnd dataEnd sz ps mp n id,
  rollback_truncate_dataend dataEnd sz ps mp = Some n /\ dataEnd <= id < metaEnd /\ n < (id + 1) * ps.
Proof. exists 67, 64, (72 * 1024), 1024, 64, (64 * 1024), 65. split; [vm_compute; reflexivity | lia]. Qed.

Example rollback_truncate_ex : rollback_truncate 67 64 0 (72 * 1024) 1024 64 = Some (67 * 1024).
Proof. vm_compute. reflexivity. Qed.
Example rollback_truncate_ex2 : rollback_truncate 68 68 153 (160 * 1024) 1024 64 = Some (153 * 1024).
Proof. vm_compute. reflexivity. Qed.
