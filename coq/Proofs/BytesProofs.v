From VF Require Import Bytes.
From Coq Require Import Lia ZifyBool ZifyNat.
Ltac Zify.zify_post_hook ::= Z.div_mod_to_equations.

Lemma le_encode_length n v : length (le_encode n v) = n.
Proof. revert v; induction n as [|n IH]; simpl; intros; [reflexivity|]. now rewrite IH. Qed.

Lemma le_encode_bytes n v : bytes (le_encode n v).
Proof.
  revert v; induction n as [|n IH]; simpl; intros v; constructor.
  - apply Z.mod_pos_bound; lia.
  - apply IH.
Qed.

Lemma le_decode_encode n v : 0 <= v < 256 ^ (Z.of_nat n) -> le_decode (le_encode n v) = v.
Proof.
  revert v; induction n as [|n IH]; intros v Hv.
  - simpl in *. lia.
  - cbn [le_encode le_decode]. rewrite IH.
    + pose proof (Z.div_mod v 256). lia.
    + rewrite Nat2Z.inj_succ, Z.pow_succ_r in Hv by lia.
      split; [apply Z.div_pos; lia|]. apply Z.div_lt_upper_bound; lia.
Qed.

Lemma le_decode_range l : bytes l -> 0 <= le_decode l < 256 ^ (Z.of_nat (length l)).
Proof.
  induction 1 as [|b l Hb _ IH]; [simpl; lia|].
  cbn [le_decode length]. rewrite Nat2Z.inj_succ, Z.pow_succ_r by lia. lia.
Qed.

Lemma le_decode_inj l1 l2 : bytes l1 -> bytes l2 -> length l1 = length l2 ->
  le_decode l1 = le_decode l2 -> l1 = l2.
Proof.
  intros H1; revert l2; induction H1 as [|a l1 Ha _ IH]; intros l2 H2 Hl E.
  - destruct l2; [reflexivity|discriminate].
  - destruct l2 as [|b l2]; [discriminate|]. inversion H2 as [|? ? Hb H2']; subst.
    cbn [le_decode] in E. injection Hl as Hl.
    assert (a = b) by lia. subst b. f_equal. apply IH; auto. lia.
Qed.

Lemma le_encode_decode l : bytes l -> le_encode (length l) (le_decode l) = l.
Proof.
  intros H. apply le_decode_inj; auto using le_encode_bytes.
  - apply le_encode_length.
  - rewrite le_decode_encode; [reflexivity|]. apply le_decode_range; exact H.
Qed.

Lemma slice_0_app a b n : length a = n -> slice 0 n (a ++ b) = a.
Proof. intros <-. unfold slice. cbn [skipn]. rewrite firstn_app, Nat.sub_diag, firstn_all. cbn [firstn]. apply app_nil_r. Qed.

Lemma slice_skip_app a b n k m : length a = n -> slice (n + k) m (a ++ b) = slice k m b.
Proof.
  intros <-. unfold slice. f_equal. rewrite skipn_app.
  replace (length a + k - length a)%nat with k by lia.
  rewrite skipn_all2 by lia. reflexivity.
Qed.

Lemma slice_0_all a n : length a = n -> slice 0 n a = a.
Proof. intros <-. unfold slice. simpl. apply firstn_all. Qed.

Lemma bytes_app a b : bytes a -> bytes b -> bytes (a ++ b).
Proof. unfold bytes. intros. apply Forall_app; auto. Qed.

Lemma bytes_firstn n l : bytes l -> bytes (firstn n l).
Proof. unfold bytes. intros H. revert n. induction H; intros [|n]; simpl; constructor; auto. Qed.

Lemma bytes_skipn n l : bytes l -> bytes (skipn n l).
Proof. unfold bytes. intros H. revert n. induction H as [|x l Hx Hl IH]; intros [|n]; simpl; auto. Qed.

Lemma bytes_slice o n l : bytes l -> bytes (slice o n l).
Proof. intros. unfold slice. auto using bytes_firstn, bytes_skipn. Qed.

Lemma get_le_0_app_dec a b n : length a = n -> get_le 0 n (a ++ b) = le_decode a.
Proof. intros H. unfold get_le. now rewrite slice_0_app. Qed.
Lemma get_le_skip_dec a b n m : length a = n -> get_le n m (a ++ b) = get_le 0 m b.
Proof. intros H. unfold get_le. replace n with (n + 0)%nat by lia. now rewrite slice_skip_app. Qed.
