From VF Require Import Meta.
From Coq Require Import Lia ZifyBool.


Definition inv_prime := 899433627.
Lemma inv_ok : (fnv_prime * inv_prime) mod fnv_M = 1. Proof. vm_compute. reflexivity. Qed.

Lemma mul_prime_inj a b : 0 <= a < fnv_M -> 0 <= b < fnv_M -> (a * fnv_prime) mod fnv_M = (b * fnv_prime) mod fnv_M -> a = b.
Proof.
  intros Ha Hb H.
  assert (E: ((a * fnv_prime) mod fnv_M * inv_prime) mod fnv_M = ((b * fnv_prime) mod fnv_M * inv_prime) mod fnv_M) by (rewrite H; reflexivity).
  rewrite !Z.mul_mod_idemp_l in E by (unfold fnv_M; lia).
  rewrite <- !Z.mul_assoc in E.
  rewrite <- (Z.mul_mod_idemp_r a), <- (Z.mul_mod_idemp_r b) in E by (unfold fnv_M; lia).
  rewrite inv_ok, !Z.mul_1_r in E.
  rewrite !Z.mod_small in E by lia. exact E.
Qed.

Lemma lxor_range h b : 0 <= h < fnv_M -> 0 <= b < 256 -> 0 <= Z.lxor h b < fnv_M.
Proof.
  intros Hh Hb. split.
  - apply Z.lxor_nonneg; lia.
  - destruct (Z.eq_dec (Z.lxor h b) 0) as [->|Hne]; [unfold fnv_M; lia|].
    assert (Hnn: 0 <= Z.lxor h b) by (apply Z.lxor_nonneg; lia).
    unfold fnv_M. apply Z.log2_lt_pow2; [lia|].
    eapply Z.le_lt_trans; [apply Z.log2_lxor; lia|].
    apply Z.max_lub_lt.
    + destruct (Z.eq_dec h 0) as [->|]; [simpl; lia|]. apply Z.log2_lt_pow2; unfold fnv_M in *; lia.
    + destruct (Z.eq_dec b 0) as [->|]; [simpl; lia|]. apply Z.log2_lt_pow2; [lia|]. lia.
Qed.

Lemma step_range h b : 0 <= fnv_step h b < fnv_M.
Proof. unfold fnv_step. apply Z.mod_pos_bound. unfold fnv_M; lia. Qed.

Lemma step_inj_h h1 h2 b : 0 <= h1 < fnv_M -> 0 <= h2 < fnv_M -> 0 <= b < 256 -> fnv_step h1 b = fnv_step h2 b -> h1 = h2.
Proof.
  intros H1 H2 Hb E. unfold fnv_step in E.
  apply mul_prime_inj in E; try (apply lxor_range; assumption).
  assert (X: Z.lxor (Z.lxor h1 b) b = Z.lxor (Z.lxor h2 b) b) by (rewrite E; reflexivity).
  rewrite !Z.lxor_assoc, !Z.lxor_nilpotent, !Z.lxor_0_r in X. exact X.
Qed.

Lemma step_inj_b h b1 b2 : 0 <= h < fnv_M -> 0 <= b1 < 256 -> 0 <= b2 < 256 -> fnv_step h b1 = fnv_step h b2 -> b1 = b2.
Proof.
  intros Hh H1 H2 E. unfold fnv_step in E.
  apply mul_prime_inj in E; try (apply lxor_range; assumption).
  assert (Z.lxor h (Z.lxor h b1) = Z.lxor h (Z.lxor h b2)) by (rewrite E; reflexivity).
  rewrite <- !Z.lxor_assoc, !Z.lxor_nilpotent, !Z.lxor_0_l in H. exact H.
Qed.


Lemma fnv_range l : forall h, 0 <= h < fnv_M -> 0 <= fnv l h < fnv_M.
Proof. induction l as [|b l IH]; simpl; intros h Hh; [exact Hh|]. apply IH, step_range. Qed.

Lemma fnv_inj_h l : bytes l -> forall h1 h2, 0 <= h1 < fnv_M -> 0 <= h2 < fnv_M -> fnv l h1 = fnv l h2 -> h1 = h2.
Proof.
  induction 1 as [|b l Hb _ IH]; simpl; intros h1 h2 H1 H2 E; [exact E|].
  apply IH in E; try apply step_range. eapply step_inj_h; eauto.
Qed.

Theorem fnv_single_byte pre b b' post h :
  bytes pre -> bytes post -> 0 <= b < 256 -> 0 <= b' < 256 -> 0 <= h < fnv_M -> b <> b' ->
  fnv (pre ++ b :: post) h <> fnv (pre ++ b' :: post) h.
Proof.
  intros Hpre Hpost Hb Hb' Hh Hne E. unfold fnv in E. rewrite !fold_left_app in E. simpl in E.
  fold (fnv pre h) in E. fold (fnv post) in E.
  apply fnv_inj_h in E; auto using step_range.
  apply step_inj_b in E; auto using fnv_range.
Qed.
