From VF Require Import WriterErr.
From Coq Require Import Lia.

(* with the error flag set nothing reaches the disk until a sync with the reset flag *)
Lemma sticky_no_calls plan : forall ops k,
  (forall r, In (WSync r) ops -> r = false) ->
  let '(rs, e, k') := run_writer plan ops true k in
  e = true /\ k' = k /\ Forall (fun r => r_attempted r = false /\ r_effective r = false /\ r_reported_err r = true) rs.
Proof.
  induction ops as [|op rest IH]; intros k Hns; cbn [run_writer].
  - repeat split; constructor.
  - destruct op as [id|reset].
    + specialize (IH k (fun r H => Hns r (or_intror H))).
      destruct (run_writer plan rest true k) as [[rs e] k']. destruct IH as (He & Hk & Hf).
      repeat split; auto; try (constructor; auto).
    + assert (reset = false) by (apply Hns; left; reflexivity). subst reset.
      specialize (IH k (fun r H => Hns r (or_intror H))).
      destruct (run_writer plan rest true k) as [[rs e] k']. destruct IH as (He & Hk & Hf).
      repeat split; auto; try (constructor; auto).
Qed.

(* page writes only: all effective, or the suffix after the first failure is not even attempted *)
Lemma writes_prefix plan : forall pages k,
  let '(rs, e, k') := run_writer plan (map WWrite pages) false k in
  (e = false -> Forall (fun r => r_effective r = true) rs /\ k' = (k + length pages)%nat) /\
  (e = true -> exists i, (i < length pages)%nat /\ plan (k + i)%nat = true).
Proof.
  induction pages as [|p pages IH]; intros k; cbn [map run_writer].
  - split; [intros _; split; [constructor | cbn; lia] | discriminate].
  - destruct (plan k) eqn:Ep.
    + pose proof (sticky_no_calls plan (map WWrite pages) (S k)) as Hs.
      destruct (run_writer plan (map WWrite pages) true (S k)) as [[rs e] k'].
      destruct Hs as (He & _ & _).
      { intros r Hin. apply in_map_iff in Hin as [x [Hx _]]. discriminate. }
      split; [intros H; congruence|]. intros _. exists 0%nat. cbn. split; [lia|]. replace (k + 0)%nat with k by lia. exact Ep.
    + specialize (IH (S k)). destruct (run_writer plan (map WWrite pages) false (S k)) as [[rs e] k'].
      destruct IH as [H1 H2]. split.
      * intros He. destruct (H1 He) as [Hf Hk]. split; [constructor; auto|]. cbn. lia.
      * intros He. destruct (H2 He) as [i [Hi Hp]]. exists (S i). cbn. split; [lia|]. replace (k + S i)%nat with (S k + i)%nat by lia. exact Hp.
Qed.

Definition res_skip (op : wop) : wres := {| r_op := op; r_attempted := false; r_effective := false; r_reported_err := true |}.
Definition res_try (op : wop) (failed : bool) : wres := {| r_op := op; r_attempted := true; r_effective := negb failed; r_reported_err := failed |}.

(* the three closing requests of a commit, spelled out *)
Lemma tail_run plan hdr k err :
  run_writer plan [WSync false; WWrite hdr; WSync true] err k =
  if err then ([res_skip (WSync false); res_skip (WWrite hdr); res_skip (WSync true)], false, k)
  else if plan k then ([res_try (WSync false) true; res_skip (WWrite hdr); res_skip (WSync true)], false, S k)
  else if plan (S k) then ([res_try (WSync false) false; res_try (WWrite hdr) true; res_skip (WSync true)], false, S (S k))
  else ([res_try (WSync false) false; res_try (WWrite hdr) false; res_try (WSync true) (plan (S (S k)))], false, S (S (S k))).
Proof.
  cbn [run_writer]. destruct err; [reflexivity|].
  destruct (plan k); [reflexivity|]. destruct (plan (S k)); [reflexivity|]. reflexivity.
Qed.

(* THE containment property of a commit: the header write takes effect only if every page write and
   the first sync took effect; and the commit reports success only if every request took effect *)
Lemma commit_gen plan hdr : forall pages k err,
  let '(rs, e, _) := run_writer plan (map WWrite pages ++ [WSync false; WWrite hdr; WSync true]) err k in
  e = false /\ length rs = (length pages + 3)%nat /\
  (forall rh, nth_error rs (length pages + 1) = Some rh -> r_effective rh = true ->
     err = false /\ (forall i r, (i <= length pages)%nat -> nth_error rs i = Some r -> r_effective r = true)) /\
  (commit_reports_error rs = false -> err = false /\ Forall (fun r => r_effective r = true) rs).
Proof.
  induction pages as [|p ps IH]; intros k err.
  - cbn [map app length Nat.add]. rewrite tail_run.
    destruct err.
    { split; [reflexivity|]. split; [reflexivity|]. split; [intros rh [= <-] H; discriminate | cbn; discriminate]. }
    destruct (plan k).
    { split; [reflexivity|]. split; [reflexivity|]. split; [intros rh [= <-] H; discriminate | cbn; discriminate]. }
    destruct (plan (S k)).
    { split; [reflexivity|]. split; [reflexivity|]. split; [intros rh [= <-] H; discriminate | cbn; discriminate]. }
    split; [reflexivity|]. split; [reflexivity|]. split.
    + intros rh [= <-] _. split; [reflexivity|]. intros i r Hi Hn.
      destruct i; [injection Hn as <-; reflexivity | cbn in Hi; lia].
    + destruct (plan (S (S k))); cbn; [discriminate|]. intros _. split; [reflexivity|]. repeat constructor.
  - cbn [map app length].
    change (run_writer plan (WWrite p :: map WWrite ps ++ [WSync false; WWrite hdr; WSync true]) err k) with
      (if err then
         let '(rs, e, k') := run_writer plan (map WWrite ps ++ [WSync false; WWrite hdr; WSync true]) true k in
         (res_skip (WWrite p) :: rs, e, k')
       else
         let '(rs, e, k') := run_writer plan (map WWrite ps ++ [WSync false; WWrite hdr; WSync true]) (plan k) (S k) in
         (res_try (WWrite p) (plan k) :: rs, e, k')).
    destruct err.
    + specialize (IH k true).
      destruct (run_writer plan (map WWrite ps ++ [WSync false; WWrite hdr; WSync true]) true k) as [[rs e] k'].
      destruct IH as (He & Hl & Hh & Hc). split; [exact He|]. split; [cbn [length]; lia|]. split.
      * intros rh Hn Heff. cbn [Nat.add nth_error] in Hn. destruct (Hh rh Hn Heff) as [Habs _]. discriminate.
      * cbn. discriminate.
    + specialize (IH (S k) (plan k)).
      destruct (run_writer plan (map WWrite ps ++ [WSync false; WWrite hdr; WSync true]) (plan k) (S k)) as [[rs e] k'].
      destruct IH as (He & Hl & Hh & Hc). split; [exact He|]. split; [cbn [length]; lia|]. split.
      * intros rh Hn Heff. cbn [Nat.add nth_error] in Hn. destruct (Hh rh Hn Heff) as [Hpk Hall]. split; [reflexivity|].
        intros i r Hi Hni. destruct i as [|i].
        -- cbn in Hni. injection Hni as <-. cbn. rewrite Hpk. reflexivity.
        -- cbn [nth_error] in Hni. apply (Hall i r); [lia | exact Hni].
      * cbn [commit_reports_error existsb r_reported_err res_try]. intros Hcr.
        apply orb_false_iff in Hcr as [Hpk Hcr]. destruct (Hc Hcr) as [_ Hf]. split; [reflexivity|].
        constructor; [cbn; rewrite Hpk; reflexivity | exact Hf].
Qed.

Theorem header_only_after_everything plan pages hdr :
  let '(rs, e, _) := run_writer plan (commit_prog pages hdr) false 0 in
  e = false /\                                           (* the final sync resets the error: the next
                                                            transaction's writes are attempted again *)
  length rs = (length pages + 3)%nat /\
  (forall rh, nth_error rs (length pages + 1) = Some rh -> r_effective rh = true ->
      (forall i r, (i <= length pages)%nat -> nth_error rs i = Some r -> r_effective r = true)) /\
  (commit_reports_error rs = false -> Forall (fun r => r_effective r = true) rs).
Proof.
  unfold commit_prog. pose proof (commit_gen plan hdr pages 0%nat false) as Hgen.
  destruct (run_writer plan (map WWrite pages ++ [WSync false; WWrite hdr; WSync true]) false 0) as [[rs e] k'].
  destruct Hgen as (He & Hl & Hh & Hc). split; [exact He|]. split; [exact Hl|]. split.
  - intros rh Hn Heff. destruct (Hh rh Hn Heff) as [_ H]. exact H.
  - intros Hcr. destruct (Hc Hcr) as [_ H]. exact H.
Qed.

(* ---------- a transaction that is aborted after it scheduled page writes (D16) ---------- *)
Lemma run_writer_clean : forall plan ops k,
  (forall i, (k <= i)%nat -> plan i = false) ->
  let '(rs, e, k') := run_writer plan ops false k in
  e = false /\ (k <= k')%nat /\ Forall (fun r => r_effective r = true /\ r_reported_err r = false) rs.
Proof.
  intros plan ops. induction ops as [|op ops IH]; intros k Hp; cbn [run_writer].
  - split; [reflexivity|]. split; [lia | constructor].
  - assert (Hk: plan k = false) by (apply Hp; lia).
    destruct op as [id|reset]; rewrite Hk.
    + specialize (IH (S k) ltac:(intros i Hi; apply Hp; lia)).
      destruct (run_writer plan ops false (S k)) as [[rs e] k'] eqn:E. destruct IH as (A & B & C).
      split; [exact A|]. split; [lia|]. constructor; [split; reflexivity | exact C].
    + replace (if reset then false else false) with false by (destruct reset; reflexivity).
      specialize (IH (S k) ltac:(intros i Hi; apply Hp; lia)).
      destruct (run_writer plan ops false (S k)) as [[rs e] k'] eqn:E. destruct IH as (A & B & C).
      split; [exact A|]. split; [lia|]. constructor; [split; reflexivity | exact C].
Qed.

Lemma run_writer_err_flag : forall plan pages err k,
  let '(rs, e, k') := run_writer plan (abort_prog pages) err k in
  e = true -> existsb r_reported_err rs = true \/ (pages = [] /\ err = true).
Proof.
  intros plan pages. unfold abort_prog. induction pages as [|p pages IH]; intros err k; cbn [map run_writer].
  - intros ->. right. split; reflexivity.
  - destruct err.
    + destruct (run_writer plan (map WWrite pages) true k) as [[rs e] k'] eqn:E. intros _. left. reflexivity.
    + specialize (IH (plan k) (S k)).
      destruct (run_writer plan (map WWrite pages) (plan k) (S k)) as [[rs e] k'] eqn:E.
      intros He. cbn [existsb r_reported_err]. destruct (IH He) as [H|[-> H]].
      * left. rewrite H. apply orb_true_r.
      * left. rewrite H. reflexivity.
Qed.

(* with the repair: whatever failed while the aborted transaction's writes were executed, the writer is
   clean afterwards, and a following commit during which no call fails reports success with every
   request effective *)
Theorem abort_fixed_then_commit : forall plan flushed pages hdr,
  let '(_, e, k) := run_abort true plan flushed false 0 in
  e = false /\
  ((forall i, (k <= i)%nat -> plan i = false) ->
   let '(rs, e', _) := run_writer plan (commit_prog pages hdr) e k in
   commit_reports_error rs = false /\ Forall (fun r => r_effective r = true) rs).
Proof.
  intros plan flushed pages hdr. unfold run_abort.
  pose proof (run_writer_err_flag plan flushed false 0) as Hf.
  destruct (run_writer plan (abort_prog flushed) false 0) as [[rs e] k] eqn:E.
  cbn [andb].
  assert (Hclean: forall e0 k0 rsx, (e0 = false) ->
            (forall i, (k0 <= i)%nat -> plan i = false) ->
            let '(rs', e', _) := run_writer plan (commit_prog pages hdr) e0 k0 in
            commit_reports_error rs' = false /\ Forall (fun r => r_effective r = true) rs' /\ rsx = rsx :> list wres).
  { intros e0 k0 rsx -> Hp. pose proof (run_writer_clean plan (commit_prog pages hdr) k0 Hp) as H.
    destruct (run_writer plan (commit_prog pages hdr) false k0) as [[rs' e'] k'']. destruct H as (_ & _ & C).
    split; [|split; [|reflexivity]].
    - unfold commit_reports_error. apply Bool.not_true_is_false. intros X. apply existsb_exists in X as (r & Hin & Hr).
      rewrite Forall_forall in C. destruct (C r Hin) as [_ D]. congruence.
    - eapply Forall_impl; [|exact C]. intros r [A _]. exact A. }
  destruct (existsb r_reported_err rs) eqn:Ex.
  - cbn [run_writer]. destruct e.
    + cbn. split; [reflexivity|]. intros Hp. specialize (Hclean false k rs eq_refl Hp).
      destruct (run_writer plan (commit_prog pages hdr) false k) as [[rs' e'] k'']. tauto.
    + cbn. split; [reflexivity|]. intros Hp. specialize (Hclean false (S k) rs eq_refl ltac:(intros i Hi; apply Hp; lia)).
      destruct (run_writer plan (commit_prog pages hdr) false (S k)) as [[rs' e'] k'']. tauto.
  - destruct e.
    + destruct (Hf eq_refl) as [H|[_ H]]; [congruence | discriminate].
    + split; [reflexivity|]. intros Hp. specialize (Hclean false k rs eq_refl Hp).
      destruct (run_writer plan (commit_prog pages hdr) false k) as [[rs' e'] k'']. tauto.
Qed.

(* without it (the code before the repair): the next commit fails although none of its calls does *)
Theorem abort_unfixed_refuted : exists plan flushed pages hdr,
  let '(_, e, k) := run_abort false plan flushed false 0 in
  (forall i, (k <= i)%nat -> plan i = false) /\
  let '(rs, _, _) := run_writer plan (commit_prog pages hdr) e k in
  commit_reports_error rs = true /\ Forall (fun r => r_attempted r = false) (firstn (length pages + 2) rs).
Proof.
  exists (fun i => Nat.eqb i 0), [3], [5; 6], 1. cbn. split.
  - intros i Hi. destruct i; [lia | reflexivity].
  - split; [reflexivity | repeat constructor].
Qed.
