(* Rollback of a write transaction on a bounded file: the allocator is rolled back (Model/Alloc.v rollback), then the
   file is truncated to the end of the restored state (Model/Truncate.v rollback_truncate). Composition: whatever the
   transaction did - allocations from the file end, growth of the meta area, an overflow area of its own - the
   truncation leaves every page below the end of the state the transaction STARTED from inside the file: the pages
   of the last commit (which open readers still use) are never cut off. *)
From VF Require Import Region Freelist Alloc Truncate RegionProofs AllocProofs TxAllocProofs MetaAllocProofs TruncateProofs.
From Coq Require Import Lia ZifyBool.

Theorem rollback_keeps_committed_extent a0 p a t otherEnd sz :
  Inv0 a0 -> treach a0 p a t -> a_end (meta a) - a_end (data a0) < 2^32 -> 0 < pageSize a0 ->
  let r := rollback a t in
  match rollback_truncate (a_end (meta r)) (a_end (data r)) otherEnd sz (pageSize r) (maxPages r) with
  | Some n => n < sz /\ n = Z.max (Z.max (a_end (meta a0)) (a_end (data a0))) otherEnd * pageSize a0 /\
              (forall id, 0 <= id < Z.max (a_end (meta a0)) (a_end (data a0)) -> (id + 1) * pageSize a0 <= n) /\
              (forall id, 0 <= id < otherEnd -> (id + 1) * pageSize a0 <= n)
  | None => True
  end.
Proof.
  intros I R Hs Hps. cbv zeta.
  pose proof (rollback_exact_full a0 p a t I R Hs) as H. cbv zeta in H.
  destruct H as (Hmp & Hpsz & _ & _ & _ & Hme & _ & _ & _ & Hde & _).
  rewrite Hme, Hde, Hpsz, Hmp.
  destruct (rollback_truncate (a_end (meta a0)) (a_end (data a0)) otherEnd sz (pageSize a0) (maxPages a0)) as [n|] eqn:E; [|exact Logic.I].
  exact (rollback_truncate_spec _ _ _ _ _ _ _ Hps E).
Qed.
