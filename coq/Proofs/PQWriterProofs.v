(* The queue writer (Model/PQWriter.v) refines the framing of the event stream: whatever the producer's Write chunks
   are and whenever the buffer is flushed (successfully or not), the payload areas of all pages ever filled -
   released ones and the ones still in the buffer - hold exactly the layout of the completed events followed by the
   frame of the event being written. *)
From VF Require Import PQ PQWriter BytesProofs PQProofs.
From Coq Require Import Lia ZifyBool ZifyNat.

Lemma hdr_len_4 : hdr_len = 4%nat.
Proof. reflexivity. Qed.
Ltac hl := pose proof hdr_len_4.

(* ---------- lists ---------- *)
Lemma upd_nth_app {A} (f : A -> A) (a : list A) x b : upd_nth (length a) f (a ++ x :: b) = a ++ f x :: b.
Proof. induction a as [|y a IH]; cbn; [reflexivity | rewrite IH; reflexivity]. Qed.

Lemma upd_last_snoc {A} (f : A -> A) (a : list A) x : upd_last f (a ++ [x]) = a ++ [f x].
Proof.
  unfold upd_last. rewrite app_length. cbn [length]. replace (length a + 1 - 1)%nat with (length a) by lia.
  apply upd_nth_app.
Qed.

Lemma upd_nth_length {A} (f : A -> A) : forall (l : list A) i, length (upd_nth i f l) = length l.
Proof. induction l as [|x l IH]; intros [|i]; cbn; auto. Qed.

Lemma map_upd_nth {A B} (g : A -> B) (f : A -> A) : (forall x, g (f x) = g x) ->
  forall (l : list A) i, map g (upd_nth i f l) = map g l.
Proof. intros H. induction l as [|x l IH]; intros [|i]; cbn; auto; [rewrite H | rewrite IH]; reflexivity. Qed.

Lemma snoc_cases {A} (l : list A) : l = [] \/ exists a x, l = a ++ [x].
Proof. destruct l as [|y l]; [left; reflexivity | right]. exists (removelast (y :: l)), (last (y :: l) y). apply app_removelast_last. discriminate. Qed.

(* ---------- the stream held by a list of page payloads ---------- *)
Section Flat.
Variable P : nat.

Definition padp (d : list Z) : list Z := d ++ zeros (P - length d).
Definition flatpad (l : list (list Z)) : list Z := concat (map padp l).
Definition flat (l : list (list Z)) : list Z := flatpad (removelast l) ++ last l [].

Lemma flat_nil : flat [] = [].
Proof. reflexivity. Qed.

Lemma flat_snoc a d : flat (a ++ [d]) = flatpad a ++ d.
Proof. unfold flat. rewrite removelast_last, last_last. reflexivity. Qed.

Lemma flatpad_app a b : flatpad (a ++ b) = flatpad a ++ flatpad b.
Proof. unfold flatpad. rewrite map_app, concat_app. reflexivity. Qed.

Lemma flatpad_cons d b : flatpad (d :: b) = padp d ++ flatpad b.
Proof. reflexivity. Qed.

Lemma padp_length d : (length d <= P)%nat -> length (padp d) = P.
Proof. intros H. unfold padp. rewrite app_length, zeros_length. lia. Qed.

Lemma flatpad_length a : Forall (fun d => (length d <= P)%nat) a -> length (flatpad a) = (length a * P)%nat.
Proof.
  induction 1 as [|d a Hd _ IH]; [reflexivity|].
  unfold flatpad in *. cbn [map concat length]. rewrite app_length, IH, padp_length by exact Hd. lia.
Qed.

Lemma padp_full d : length d = P -> padp d = d.
Proof. intros H. unfold padp. rewrite H, Nat.sub_diag. cbn. apply app_nil_r. Qed.

Lemma flat_length a d : Forall (fun d => (length d <= P)%nat) a -> length (flat (a ++ [d])) = (length a * P + length d)%nat.
Proof. intros H. rewrite flat_snoc, app_length, flatpad_length by exact H. reflexivity. Qed.

(* overwriting bytes inside one page *)
Lemma splice_app_l (k : nat) src (d rest : list Z) : (k + length src <= length d)%nat ->
  splice k src (d ++ rest) = splice k src d ++ rest.
Proof.
  intros H. unfold splice. rewrite firstn_app, skipn_app.
  replace (k - length d)%nat with O by lia. replace (k + length src - length d)%nat with O by lia.
  cbn [firstn skipn]. rewrite app_nil_r, <- !app_assoc. reflexivity.
Qed.

Lemma splice_app_r (pre : list Z) k src d : splice (length pre + k) src (pre ++ d) = pre ++ splice k src d.
Proof.
  unfold splice. rewrite firstn_app, skipn_app.
  rewrite firstn_all2 by lia. rewrite skipn_all2 by lia.
  replace (length pre + k - length pre)%nat with k by lia.
  replace (length pre + k + length src - length pre)%nat with (k + length src)%nat by lia.
  cbn [app]. rewrite <- app_assoc. reflexivity.
Qed.

Lemma splice_length k src d : (k + length src <= length d)%nat -> length (splice k src d) = length d.
Proof. intros H. unfold splice. rewrite !app_length, firstn_length, skipn_length. lia. Qed.

Lemma padp_splice k src d : (k + length src <= length d)%nat -> padp (splice k src d) = splice k src (padp d).
Proof. intros H. unfold padp. rewrite splice_length by exact H. symmetry. apply splice_app_l. exact H. Qed.

Lemma flat_splice a d b k src :
  Forall (fun d => (length d <= P)%nat) a -> (k + length src <= length d)%nat ->
  flat (a ++ splice k src d :: b) = splice (length a * P + k) src (flat (a ++ d :: b)).
Proof.
  intros Ha Hk.
  destruct (snoc_cases b) as [->|[b' [t ->]]].
  - rewrite !flat_snoc. rewrite <- (flatpad_length a Ha). apply eq_sym, splice_app_r.
  - replace (a ++ splice k src d :: b' ++ [t]) with ((a ++ splice k src d :: b') ++ [t]) by (rewrite <- app_assoc; reflexivity).
    replace (a ++ d :: b' ++ [t]) with ((a ++ d :: b') ++ [t]) by (rewrite <- app_assoc; reflexivity).
    rewrite !flat_snoc, !flatpad_app, !flatpad_cons.
    rewrite padp_splice by exact Hk. rewrite <- (flatpad_length a Ha).
    rewrite <- !app_assoc. rewrite splice_app_r. f_equal.
    apply eq_sym, splice_app_l. unfold padp. rewrite app_length. lia.
Qed.

End Flat.

(* ---------- the buffer primitives on the level of the page payloads ---------- *)
Section Buf.
Variable PS : nat.
Notation P := (payload PS).
Hypothesis HP : (hdr_len <= P)%nat.

Definition pdata (l : list wpage) : list (list Z) := map wp_data l.
Definition okp (D : list (list Z)) : Prop := Forall (fun d => (length d <= P)%nat) D.

Lemma pdata_upd_last_push d l : pdata (upd_last (push d) l) = upd_last (fun x => x ++ d) (pdata l).
Proof.
  destruct (snoc_cases l) as [->|[a [x ->]]]; [reflexivity|].
  unfold pdata. rewrite upd_last_snoc, !map_app. cbn [map]. rewrite upd_last_snoc. reflexivity.
Qed.

Lemma tail_len_snoc b a t : b_pages b = a ++ [t] -> tail_len PS b = length (wp_data t).
Proof. intros H. unfold tail_len. rewrite H, rev_app_distr. reflexivity. Qed.

Lemma flat_advance Dh D t : flat P ((Dh ++ D ++ [t]) ++ [[]]) = flat P (Dh ++ D ++ [t]) ++ zeros (P - length t).
Proof.
  rewrite flat_snoc. replace (Dh ++ D ++ [t]) with ((Dh ++ D) ++ [t]) by (rewrite <- app_assoc; reflexivity).
  rewrite flat_snoc, flatpad_app. unfold flatpad at 2. cbn [map concat]. unfold padp.
  rewrite !app_nil_r, <- !app_assoc. reflexivity.
Qed.

Lemma flat_push Dh D t d : flat P (Dh ++ D ++ [t ++ d]) = flat P (Dh ++ D ++ [t]) ++ d.
Proof.
  replace (Dh ++ D ++ [t ++ d]) with ((Dh ++ D) ++ [t ++ d]) by (rewrite <- app_assoc; reflexivity).
  replace (Dh ++ D ++ [t]) with ((Dh ++ D) ++ [t]) by (rewrite <- app_assoc; reflexivity).
  rewrite !flat_snoc, <- app_assoc. reflexivity.
Qed.

(* where the header of the open event lies: page i of the buffer = page (length Dh + i) of all pages, k bytes into its
   payload, with room for the header; g = the position in the stream *)
Definition hdr_at (Dh D : list (list Z)) (hdr : option (nat * nat)) (g : nat) : Prop :=
  exists DA dp DB k, D = DA ++ dp :: DB /\ hdr = Some (length DA, (pgH + k)%nat) /\
    (k + hdr_len <= length dp)%nat /\ ((length Dh + length DA) * P + k = g)%nat.

Lemma hdr_at_grow_last Dh D hdr g f :
  (forall x, (length x <= length (f x))%nat) -> hdr_at Dh D hdr g -> hdr_at Dh (upd_last f D) hdr g.
Proof.
  intros Hf (DA & dp & DB & k & -> & -> & Hk & Hg).
  destruct (snoc_cases DB) as [->|[DB' [t ->]]].
  - rewrite upd_last_snoc. exists DA, (f dp), [], k.
    split; [reflexivity|]. split; [reflexivity|]. split; [|exact Hg]. exact (Nat.le_trans _ _ _ Hk (Hf dp)).
  - replace (DA ++ dp :: DB' ++ [t]) with ((DA ++ dp :: DB') ++ [t]) by (rewrite <- app_assoc; reflexivity).
    rewrite upd_last_snoc. exists DA, dp, (DB' ++ [f t]), k.
    split; [rewrite <- app_assoc; reflexivity|]. split; [reflexivity|]. split; [exact Hk|exact Hg].
Qed.

Lemma hdr_at_snoc Dh D hdr g x : hdr_at Dh D hdr g -> hdr_at Dh (D ++ [x]) hdr g.
Proof.
  intros (DA & dp & DB & k & -> & -> & Hk & Hg). exists DA, dp, (DB ++ [x]), k.
  split; [rewrite <- app_assoc; reflexivity|]. split; [reflexivity|]. split; [exact Hk|exact Hg].
Qed.

(* the buffer invariant: all = payloads of the released pages ++ payloads of the buffer pages; the stream they hold is
   pre ++ open; the header of the open event is the first hdr_len bytes of open *)
Record BI (Dh : list (list Z)) (b : wbuf) (pre open : list Z) : Prop := {
  bi_ne : b_pages b <> [];
  bi_ok : okp (Dh ++ pdata (b_pages b));
  bi_flat : flat P (Dh ++ pdata (b_pages b)) = pre ++ open;
  bi_hdr : hdr_at Dh (pdata (b_pages b)) (b_hdr b) (length pre);
  bi_open : (hdr_len <= length open)%nat }.

Lemma okp_app a b : okp (a ++ b) <-> okp a /\ okp b.
Proof. apply Forall_app. Qed.

Lemma append_byte_BI Dh b pre open x : BI Dh b pre open -> BI Dh (append_byte PS b x) pre (open ++ [x]).
Proof.
  intros [Hne Hok Hflat Hhdr Hopen].
  destruct (snoc_cases (b_pages b)) as [E|[a [t E]]]; [contradiction|].
  unfold append_byte, room. rewrite (tail_len_snoc b a t E).
  assert (Ht : (length (wp_data t) <= P)%nat).
  { rewrite E in Hok. unfold pdata in Hok. rewrite map_app in Hok. apply okp_app in Hok. destruct Hok as [_ Hok].
    apply okp_app in Hok. destruct Hok as [_ Hok]. inversion Hok; assumption. }
  destruct (Nat.eqb_spec (P - length (wp_data t)) 0) as [Hfull|Hroom]; cbn [b_pages b_hdr b_avail b_count advance].
  - (* the page is full: a fresh one *)
    rewrite E. replace ((a ++ [t]) ++ [fresh_wpage]) with ((a ++ [t]) ++ [fresh_wpage]) by reflexivity.
    rewrite upd_last_snoc. split; cbn [b_pages b_hdr].
    + intros H. apply app_eq_nil in H. destruct H as [_ H]. discriminate.
    + rewrite E in Hok. unfold pdata in *. rewrite !map_app in *. cbn [map] in *.
      apply okp_app. apply okp_app in Hok. destruct Hok as [H1 H2]. split; [exact H1|].
      apply okp_app. split; [exact H2|]. constructor; [cbn [length wp_data push set_data fresh_wpage app]; hl; lia | constructor].
    + rewrite E in Hflat. unfold pdata in *. rewrite !map_app in *. cbn [map wp_data push set_data fresh_wpage app] in *.
      rewrite app_assoc. rewrite (app_assoc Dh). rewrite <- (app_assoc Dh (map wp_data a)).
      replace ((Dh ++ map wp_data a ++ [wp_data t]) ++ [[x]]) with ((Dh ++ map wp_data a ++ [wp_data t]) ++ [[] ++ [x]]) by reflexivity.
      rewrite flat_snoc. rewrite <- (app_nil_r (flatpad P (Dh ++ map wp_data a ++ [wp_data t]))) at 1.
      assert (F := flat_advance Dh (map wp_data a) (wp_data t)). rewrite flat_snoc in F.
      rewrite app_nil_r in *. rewrite F. replace (P - length (wp_data t))%nat with O by lia. cbn [zeros].
      rewrite app_nil_r. cbn [app]. rewrite Hflat, <- app_assoc. reflexivity.
    + rewrite E in Hhdr. unfold pdata in *. rewrite !map_app in *. cbn [map wp_data push set_data fresh_wpage app] in *.
      apply hdr_at_snoc. exact Hhdr.
    + rewrite app_length. lia.
  - rewrite E, upd_last_snoc. split; cbn [b_pages b_hdr].
    + intros H. apply app_eq_nil in H. destruct H as [_ H]. discriminate.
    + rewrite E in Hok. unfold pdata in *. rewrite !map_app in *. cbn [map wp_data push set_data] in *.
      apply okp_app. apply okp_app in Hok. destruct Hok as [H1 H2]. split; [exact H1|].
      apply okp_app. apply okp_app in H2. destruct H2 as [H2 _]. split; [exact H2|].
      constructor; [rewrite app_length; cbn; lia | constructor].
    + rewrite E in Hflat. unfold pdata in *. rewrite !map_app in *. cbn [map wp_data push set_data] in *.
      rewrite flat_push, Hflat, <- app_assoc. reflexivity.
    + rewrite E in Hhdr. unfold pdata in *. rewrite !map_app in *. cbn [map wp_data push set_data] in *.
      change (map wp_data a ++ [wp_data t ++ [x]]) with (map wp_data a ++ [(fun d => d ++ [x]) (wp_data t)]).
      rewrite <- upd_last_snoc.
      apply hdr_at_grow_last; [intros d; rewrite app_length; lia | exact Hhdr].
    + rewrite app_length. lia.
Qed.


Lemma append_BI Dh : forall data b pre open, BI Dh b pre open -> BI Dh (append PS b data) pre (open ++ data).
Proof.
  unfold append. induction data as [|x data IH]; intros b pre open H; cbn [fold_left].
  - rewrite app_nil_r. exact H.
  - replace (open ++ x :: data) with ((open ++ [x]) ++ data) by (rewrite <- app_assoc; reflexivity).
    apply IH. apply append_byte_BI. exact H.
Qed.

(* no event is open (between CommitEvent and ReserveHdr; before the first ReserveHdr the buffer may be empty) *)
Record BC (Dh : list (list Z)) (b : wbuf) (all : list Z) : Prop := {
  bc_ok : okp (Dh ++ pdata (b_pages b));
  bc_flat : flat P (Dh ++ pdata (b_pages b)) = all;
  bc_empty : b_pages b = [] -> Dh = [] }.

Lemma pad_at_pos n t : (t <= P)%nat -> pad_at P (n * P + t) = if (P - t <? hdr_len)%nat then (P - t)%nat else O.
Proof.
  intros Ht. hl. unfold pad_at.
  assert (HP0 : P <> O) by lia.
  destruct (Nat.eq_dec t P) as [->|Hne].
  - replace (n * P + P)%nat with (0 + (S n) * P)%nat by lia. rewrite Nat.mod_add by exact HP0.
    rewrite Nat.mod_0_l by exact HP0. rewrite Nat.sub_0_r, Nat.sub_diag.
    destruct (Nat.ltb_spec P hdr_len); [lia|]. destruct (Nat.ltb_spec 0 hdr_len); [reflexivity|lia].
  - rewrite Nat.add_comm, Nat.mod_add by exact HP0. rewrite Nat.mod_small by lia. reflexivity.
Qed.

Lemma reserve_hdr_BI Dh b all : BC Dh b all ->
  BI Dh (reserve_hdr PS b) (all ++ zeros (pad_at P (length all))) (zeros hdr_len).
Proof.
  intros [Hok Hflat Hemp]. hl.
  destruct (snoc_cases (b_pages b)) as [E|[a [t E]]].
  - (* empty buffer *)
    specialize (Hemp E). subst Dh. destruct b as [pg av hd ct]. cbn [b_pages] in *. subst pg. cbn in Hflat. subst all.
    assert (Hpad : pad_at P 0 = O).
    { replace O with (0 * P + 0)%nat at 1 by lia. rewrite pad_at_pos by lia. rewrite Nat.sub_0_r.
      destruct (Nat.ltb_spec P hdr_len); [lia|reflexivity]. }
    cbn [length]. rewrite Hpad. cbn [zeros app].
    unfold reserve_hdr, room, tail_len. cbn [b_pages rev]. rewrite Nat.sub_diag.
    destruct (Nat.ltb_spec 0 hdr_len) as [_|]; [|lia].
    unfold upd_last. cbn [advance b_pages app length Nat.sub upd_nth rev].
    split; cbn [b_pages b_hdr pdata map wp_data push set_data fresh_wpage app].
    + discriminate.
    + constructor; [rewrite zeros_length; lia|constructor].
    + reflexivity.
    + exists [], (zeros hdr_len), [], O.
      split; [reflexivity|]. split; [rewrite Nat.add_0_r; reflexivity|]. split; [rewrite zeros_length; lia|]. cbn. lia.
    + rewrite zeros_length. lia.
  - destruct b as [pg av hd ct]. cbn [b_pages] in *. subst pg.
    assert (Ht : (length (wp_data t) <= P)%nat).
    { unfold pdata in Hok. rewrite map_app in Hok. apply okp_app in Hok. destruct Hok as [_ Hok].
      apply okp_app in Hok. destruct Hok as [_ Hok]. inversion Hok; assumption. }
    assert (HokA : okp (Dh ++ map wp_data a)).
    { unfold pdata in Hok. rewrite map_app in Hok. rewrite app_assoc in Hok. apply okp_app in Hok. tauto. }
    assert (Hlen : length all = ((length Dh + length a) * P + length (wp_data t))%nat).
    { rewrite <- Hflat. unfold pdata. rewrite map_app. cbn [map]. rewrite app_assoc, flat_length by exact HokA.
      rewrite app_length, map_length. reflexivity. }
    rewrite Hlen, pad_at_pos by exact Ht.
    unfold reserve_hdr, room, tail_len. cbn [b_pages]. rewrite rev_app_distr. cbn [rev app].
    destruct (Nat.ltb_spec (P - length (wp_data t)) hdr_len) as [Hsmall|Hbig].
    + (* the header does not fit: fresh page *)
      cbn [advance b_pages b_avail b_hdr b_count]. rewrite rev_app_distr. cbn [rev app wp_data fresh_wpage length].
      rewrite upd_last_snoc.
      split; cbn [b_pages b_hdr].
      * intros H0. apply app_eq_nil in H0. destruct H0 as [_ H0]. discriminate.
      * unfold pdata. rewrite !map_app. cbn [map wp_data push set_data fresh_wpage app].
        apply okp_app. split; [apply okp_app in HokA; tauto|].
        apply okp_app. split; [apply okp_app; split; [apply okp_app in HokA; tauto | constructor; [exact Ht|constructor]]|].
        constructor; [rewrite zeros_length; lia|constructor].
      * unfold pdata. rewrite !map_app. cbn [map wp_data push set_data fresh_wpage app].
        rewrite <- (app_assoc (map wp_data a)). rewrite (app_assoc Dh). rewrite (app_assoc (Dh ++ map wp_data a)).
        rewrite <- (app_assoc Dh). change [zeros hdr_len] with [[] ++ zeros hdr_len].
        rewrite flat_snoc. assert (F := flat_advance Dh (map wp_data a) (wp_data t)). rewrite flat_snoc, app_nil_r in F.
        rewrite F. cbn [app]. rewrite <- Hflat. unfold pdata. rewrite map_app. cbn [map]. rewrite <- app_assoc. reflexivity.
      * unfold pdata. rewrite !map_app. cbn [map wp_data push set_data fresh_wpage app].
        exists (map wp_data a ++ [wp_data t]), (zeros hdr_len), [], O.
        split; [rewrite <- app_assoc; reflexivity|].
        split; [rewrite !app_length, !map_length; cbn [length]; f_equal; f_equal; lia|].
        split; [rewrite zeros_length; lia|].
        rewrite !app_length, zeros_length, map_length. cbn [length]. lia.
      * rewrite zeros_length. lia.
    + cbn [b_pages b_avail b_hdr b_count]. rewrite rev_app_distr. cbn [rev app]. rewrite upd_last_snoc. cbn [zeros]. rewrite app_nil_r.
      split; cbn [b_pages b_hdr].
      * intros H0. apply app_eq_nil in H0. destruct H0 as [_ H0]. discriminate.
      * unfold pdata. rewrite !map_app. cbn [map wp_data push set_data].
        apply okp_app. split; [apply okp_app in HokA; tauto|].
        apply okp_app. split; [apply okp_app in HokA; tauto|].
        constructor; [rewrite app_length, zeros_length; lia|constructor].
      * unfold pdata. rewrite !map_app. cbn [map wp_data push set_data].
        rewrite flat_push. rewrite <- Hflat. unfold pdata. rewrite map_app. reflexivity.
      * unfold pdata. rewrite !map_app. cbn [map wp_data push set_data].
        exists (map wp_data a), (wp_data t ++ zeros hdr_len), [], (length (wp_data t)).
        split; [reflexivity|].
        split; [rewrite app_length, map_length; cbn [length]; f_equal; f_equal; lia|].
        split; [rewrite app_length, zeros_length; lia|].
        rewrite map_length. lia.
      * rewrite zeros_length. lia.
Qed.


Lemma map_upd_nth_comm {A B} (h : A -> B) (f : A -> A) (f' : B -> B) : (forall x, h (f x) = f' (h x)) ->
  forall (l : list A) i, map h (upd_nth i f l) = upd_nth i f' (map h l).
Proof. intros H. induction l as [|x l IH]; intros [|i]; cbn; auto; [rewrite H | rewrite IH]; reflexivity. Qed.

Lemma splice_exact (pre h4 cur src : list Z) : length src = length h4 ->
  splice (length pre) src (pre ++ h4 ++ cur) = pre ++ src ++ cur.
Proof.
  intros H. unfold splice. rewrite firstn_app, Nat.sub_diag, firstn_all. cbn [firstn]. rewrite app_nil_r.
  rewrite skipn_app. rewrite skipn_all2 by lia. replace (length pre + length src - length pre)%nat with (length h4) by lia.
  rewrite skipn_app, skipn_all, Nat.sub_diag. cbn [skipn app]. reflexivity.
Qed.

Lemma set_hdr_size_BI Dh b pre h4 cur sz : length h4 = hdr_len -> BI Dh b pre (h4 ++ cur) ->
  BI Dh (set_hdr_size b sz) pre (le_encode hdr_len sz ++ cur).
Proof.
  intros Hh4 [Hne Hok Hflat Hhdr Hopen].
  destruct Hhdr as (DA & dp & DB & k & HD & Hh & Hk & Hg).
  unfold set_hdr_size. rewrite Hh. replace (pgH + k - pgH)%nat with k by lia.
  set (src := le_encode hdr_len sz). assert (Hsrc : length src = hdr_len) by apply le_encode_length.
  assert (HPD : pdata (upd_nth (length DA) (fun p => set_data p (splice k src (wp_data p))) (b_pages b)) =
                DA ++ splice k src dp :: DB).
  { unfold pdata. rewrite (map_upd_nth_comm wp_data _ (splice k src)) by reflexivity.
    fold (pdata (b_pages b)). rewrite HD. apply upd_nth_app. }
  split; cbn [b_pages b_hdr].
  - intros H0. apply (f_equal (@length _)) in H0. rewrite upd_nth_length in H0. destruct (b_pages b); [contradiction|discriminate].
  - rewrite HPD. rewrite HD in Hok. apply okp_app in Hok. destruct Hok as [H1 H2]. apply okp_app. split; [exact H1|].
    apply okp_app in H2. destruct H2 as [H2 H3]. apply okp_app. split; [exact H2|].
    inversion H3; subst. constructor; [rewrite splice_length by lia; assumption | assumption].
  - rewrite HPD, app_assoc. rewrite flat_splice.
    + rewrite <- app_assoc, <- HD, Hflat. rewrite app_length. rewrite Hg. apply splice_exact. lia.
    + rewrite HD in Hok. rewrite app_assoc in Hok. apply okp_app in Hok. tauto.
    + lia.
  - rewrite HPD. exists DA, (splice k src dp), DB, k.
    split; [reflexivity|]. split; [first [exact Hh | reflexivity]|]. split; [rewrite splice_length by lia; exact Hk | exact Hg].
  - rewrite app_length, Hsrc. lia.
Qed.

Lemma pdata_mark_from : forall l i, pdata (mark_from i l) = pdata l.
Proof. induction l as [|x l IH]; intros [|i]; cbn; auto; f_equal; apply IH. Qed.

Lemma commit_event_pdata b id : pdata (b_pages (commit_event b id)) = pdata (b_pages b).
Proof.
  unfold commit_event. destruct (b_hdr b) as [[i off]|]; [|reflexivity]. cbn [b_pages].
  assert (E1 : forall l, pdata (upd_nth 0 (set_dirty true) l) = pdata l).
  { intros l. unfold pdata. apply map_upd_nth. reflexivity. }
  destruct (i =? 1)%nat; [rewrite E1|]; rewrite pdata_mark_from; unfold pdata; apply map_upd_nth;
    intros x; destruct (wp_off x =? 0)%nat; reflexivity.
Qed.

Lemma commit_event_BC Dh b pre open id : BI Dh b pre open -> BC Dh (commit_event b id) (pre ++ open).
Proof.
  intros [Hne Hok Hflat Hhdr Hopen]. split.
  - rewrite commit_event_pdata. exact Hok.
  - rewrite commit_event_pdata. exact Hflat.
  - intros H0. apply (f_equal pdata) in H0. rewrite commit_event_pdata in H0. destruct (b_pages b); [contradiction|discriminate].
Qed.


(* a flush does not touch the payloads: it moves pages from the buffer to the released ones and changes ids, links, flags *)
Lemma BI_same_data Dh b b' pre open : pdata (b_pages b') = pdata (b_pages b) -> b_hdr b' = b_hdr b ->
  BI Dh b pre open -> BI Dh b' pre open.
Proof.
  intros HD Hh [Hne Hok Hflat Hhdr Hopen]. split; rewrite ?HD, ?Hh; auto.
  intros H0. rewrite H0 in HD. destruct (b_pages b); [contradiction|discriminate].
Qed.

Lemma BI_shift Dh b b' pre open X k i off :
  pdata X = pdata (b_pages b) -> b_hdr b = Some (i, off) -> (k <= i)%nat ->
  b_pages b' = skipn k X -> b_hdr b' = Some ((i - k)%nat, off) ->
  BI Dh b pre open -> BI (Dh ++ pdata (firstn k X)) b' pre open.
Proof.
  intros HX Hh Hk Hp' Hh' [Hne Hok Hflat Hhdr Hopen].
  destruct Hhdr as (DA & dp & DB & k0 & HD & Hh2 & Hk0 & Hg).
  rewrite Hh in Hh2. injection Hh2 as Hi Hoff. subst i.
  assert (HXs : pdata (skipn k X) = skipn k DA ++ dp :: DB).
  { unfold pdata in *. rewrite <- skipn_map, HX, HD, skipn_app. replace (k - length DA)%nat with O by lia. reflexivity. }
  assert (HXf : pdata (firstn k X) = firstn k DA).
  { unfold pdata in *. rewrite <- firstn_map, HX, HD, firstn_app. replace (k - length DA)%nat with O by lia.
    cbn [firstn]. apply app_nil_r. }
  assert (Hall : (Dh ++ pdata (firstn k X)) ++ pdata (b_pages b') = Dh ++ pdata (b_pages b)).
  { rewrite Hp', HXs, HXf, HD, <- app_assoc. f_equal. rewrite app_assoc, firstn_skipn. reflexivity. }
  split.
  - rewrite Hp'. intros H0. apply (f_equal pdata) in H0. rewrite HXs in H0. destruct (skipn k DA); discriminate.
  - rewrite Hall. exact Hok.
  - rewrite Hall. exact Hflat.
  - rewrite Hp', HXs, Hh'. exists (skipn k DA), dp, DB, k0.
    split; [reflexivity|]. split; [rewrite skipn_length, Hoff; reflexivity|]. split; [exact Hk0|].
    rewrite <- Hg, HXf, app_length, firstn_length, skipn_length. f_equal. lia.
  - exact Hopen.
Qed.

End Buf.

Lemma pdata_app a b : pdata (a ++ b) = pdata a ++ pdata b.
Proof. apply map_app. Qed.
Lemma pdata_assign : forall ids l, pdata (assign ids l) = pdata l.
Proof. intros ids l; revert ids. induction l as [|x l IH]; intros [|id ids]; cbn; auto. f_equal. apply IH. Qed.
Lemma pdata_link : forall l, pdata (link l) = pdata l.
Proof. induction l as [|x [|y l] IH]; cbn; auto. f_equal. exact IH. Qed.
Lemma pdata_stale : forall l, pdata (stale_links l) = pdata l.
Proof. induction l as [|x [|y l] IH]; cbn; auto. f_equal. exact IH. Qed.
Lemma pdata_map_flag (f : wpage -> wpage) l : (forall x, wp_data (f x) = wp_data x) -> pdata (map f l) = pdata l.
Proof. intros H. unfold pdata. rewrite map_map. apply map_ext. exact H. Qed.
Lemma pdata_firstn n l : pdata (firstn n l) = firstn n (pdata l).
Proof. symmetry. apply firstn_map. Qed.
Lemma pdata_skipn n l : pdata (skipn n l) = skipn n (pdata l).
Proof. symmetry. apply skipn_map. Qed.

Lemma reset_end_le : forall l i h last, (i <= h)%nat -> (reset_end l i (Some h) last <= h)%nat.
Proof.
  induction l as [|cur [|nxt tl] IH]; intros i h last Hi; cbn [reset_end]; [exact Hi|exact Hi|].
  destruct (Nat.eqb_spec h i) as [->|Hne]; [lia|].
  destruct (wp_dirty nxt || (i =? last)%nat); [exact Hi|]. apply IH. lia.
Qed.



(* ---------- the writer ---------- *)
Section W.
Variable PS : nat.
Notation P := (payload PS).
Hypothesis HP : (hdr_len <= P)%nat.

(* the stream the completed events [done] and the event being written [cur] have to produce, after [base] (what the
   tail page loaded from the file already held) *)
Definition pre_of (base : list Z) (done : list (list Z)) : list Z :=
  let l := layout_from P (length base) done in
  base ++ l ++ zeros (pad_at P (length base + length l)).

Record SI (s : wst) (base : list Z) (done : list (list Z)) (cur : list Z) : Prop := {
  si_bi : exists h4, length h4 = hdr_len /\ BI PS (pdata (ws_hist s)) (ws_buf s) (pre_of base done) (h4 ++ cur);
  si_bytes : ws_evBytes s = Z.of_nat (length cur) }.

Lemma BI_hdr_some Dh b pre open : BI PS Dh b pre open -> exists i off, b_hdr b = Some (i, off).
Proof. intros [_ _ _ (DA & dp & DB & k & _ & Hh & _) _]. eauto. Qed.

Lemma do_flush_SI s fo base done cur : SI s base done cur -> SI (fst (do_flush s fo)) base done cur.
Proof.
  intros [(h4 & Hh4 & HBI) Hbytes].
  unfold do_flush. destruct (flush_range (ws_buf s)) as [n reported].
  destruct n as [|n1]; [split; eauto|].
  destruct (BI_hdr_some _ _ _ _ HBI) as (i & off & Hh).
  set (range := firstn (S n1) (b_pages (ws_buf s))). set (rest := skipn (S n1) (b_pages (ws_buf s))).
  set (u := first_unassigned range).
  assert (Hsplit : pdata range ++ pdata rest = pdata (b_pages (ws_buf s))).
  { unfold range, rest. rewrite <- pdata_app, firstn_skipn. reflexivity. }
  assert (Hr1 : forall ids, pdata (firstn u range ++ assign ids (skipn u range)) = pdata range).
  { intros ids. rewrite pdata_app, pdata_assign, <- pdata_app, firstn_skipn. reflexivity. }
  destruct fo as [ids| |ids]; cbn [fst].
  - (* success *)
    set (range2 := link (firstn u range ++ assign ids (skipn u range))).
    set (clean := map (fun p => set_disk (Some (wp_data p)) (set_dirty false p)) range2 ++ rest).
    assert (Hclean : pdata clean = pdata (b_pages (ws_buf s))).
    { unfold clean, range2. rewrite pdata_app, pdata_map_flag by reflexivity. rewrite pdata_link, Hr1. exact Hsplit. }
    rewrite Hh. cbn [option_map fst].
    set (k := reset_end clean 0 (Some i) n1).
    assert (Hk : (k <= i)%nat) by (apply reset_end_le; lia).
    split; cbn [ws_buf ws_hist ws_evBytes]; [|exact Hbytes].
    exists h4. split; [exact Hh4|]. rewrite pdata_app.
    eapply BI_shift; [exact HP | exact Hclean | exact Hh | exact Hk | reflexivity | reflexivity | exact HBI].
  - split; eauto.
  - split; cbn [with_buf ws_buf ws_hist ws_evBytes]; [|exact Hbytes].
    exists h4. split; [exact Hh4|].
    eapply BI_same_data; [| |exact HBI]; cbn [b_pages b_hdr]; [|reflexivity].
    rewrite pdata_app, pdata_app, pdata_map_flag by reflexivity.
    rewrite <- pdata_app, firstn_skipn, pdata_stale, Hr1. exact Hsplit.
Qed.

Lemma flush_buffer_SI s fo base done cur : SI s base done cur -> SI (fst (flush_buffer s fo)) base done cur.
Proof.
  intros H. unfold flush_buffer. pose proof (do_flush_SI s fo base done cur H) as H1.
  destruct (do_flush s fo) as [s1 r]. cbn [fst] in H1.
  destruct r; cbn [fst]; try exact H1; destruct H1 as [Hb Hy]; split; cbn [ws_buf ws_hist ws_evBytes]; assumption.
Qed.

Definition spec_step (st : list (list Z) * list Z) (o : wop) (r : wres) : list (list Z) * list Z :=
  match o, r with
  | WWrite d _, WErr _ => st                         (* the write was refused: nothing was appended *)
  | WWrite d _, WOk _ => (fst st, snd st ++ d)
  | WNext _, _ => (fst st ++ [snd st], [])           (* the event is complete also when the implicit flush fails *)
  | WFlush _, _ => st
  end.

Lemma pre_of_next base done cur h :
  h = le_encode hdr_len (Z.of_nat (length cur)) ->
  let all := pre_of base done ++ h ++ cur in
  all ++ zeros (pad_at P (length all)) = pre_of base (done ++ [cur]).
Proof.
  intros ->. cbn zeta. unfold pre_of. rewrite layout_from_app. cbn [layout_from]. rewrite app_nil_r.
  unfold frame_event. rewrite <- !app_assoc. f_equal. f_equal.
  set (l := layout_from P (length base) done).
  rewrite !app_length, zeros_length, le_encode_length.
  reflexivity.
Qed.

Theorem w_step_SI s o base done cur : SI s base done cur ->
  let '(s', r) := w_step PS s o in
  let '(done', cur') := spec_step (done, cur) o r in
  SI s' base done' cur'.
Proof.
  intros H. destruct o as [data fo|fo|fo]; cbn [w_step].
  - (* Write *)
    assert (Hgo : forall s1, SI s1 base done cur ->
              SI {| ws_buf := append PS (ws_buf s1) data; ws_evBytes := ws_evBytes s1 + Z.of_nat (length data); ws_evId := ws_evId s1;
                    ws_active := ws_active s1; ws_root := ws_root s1; ws_hist := ws_hist s1 |} base done (cur ++ data)).
    { intros s1 [(h4 & Hh4 & HBI) Hb]. split; cbn [ws_buf ws_hist ws_evBytes].
      - exists h4. split; [exact Hh4|]. rewrite app_assoc. apply append_BI; assumption.
      - rewrite Hb, app_length. lia. }
    destruct (b_avail (ws_buf s) <=? Z.of_nat (length data)).
    + pose proof (flush_buffer_SI s fo base done cur H) as H1.
      destruct (flush_buffer s fo) as [s1 r]. cbn [fst] in H1.
      destruct r; cbn [spec_step fst snd]; [apply Hgo; exact H1 | exact H1].
    + cbn [spec_step fst snd]. apply Hgo. exact H.
  - (* Next *)
    destruct H as [(h4 & Hh4 & HBI) Hb].
    set (b1 := reserve_hdr PS (commit_event (set_hdr_size (ws_buf s) (ws_evBytes s)) (ws_evId s))).
    assert (H1 : SI {| ws_buf := b1; ws_evBytes := 0; ws_evId := ws_evId s + 1; ws_active := ws_active s + 1; ws_root := ws_root s;
                       ws_hist := ws_hist s |} base (done ++ [cur]) []).
    { split; cbn [ws_buf ws_hist ws_evBytes]; [|reflexivity].
      exists (zeros hdr_len). split; [apply zeros_length|]. rewrite app_nil_r.
      rewrite <- (pre_of_next base done cur _ eq_refl). cbn zeta.
      unfold b1. apply reserve_hdr_BI; [exact HP|]. apply commit_event_BC.
      rewrite Hb. first [eapply set_hdr_size_BI; [exact HP | exact Hh4 | exact HBI] | eapply set_hdr_size_BI; [exact Hh4 | exact HBI]]. }
    destruct (b_avail b1 <=? Z.of_nat hdr_len).
    + pose proof (flush_buffer_SI _ fo _ _ _ H1) as H2.
      destruct (flush_buffer _ fo) as [s2 r]. cbn [fst] in H2. cbn [spec_step fst snd]. exact H2.
    + cbn [spec_step fst snd]. exact H1.
  - pose proof (flush_buffer_SI s fo base done cur H) as H1.
    destruct (flush_buffer s fo) as [s1 r]. cbn [fst] in H1. cbn [spec_step]. exact H1.
Qed.

(* the events a sequence of operations produces *)
Fixpoint spec_run (st : list (list Z) * list Z) (ops : list wop) (rs : list wres) : list (list Z) * list Z :=
  match ops, rs with
  | o :: ops', r :: rs' => spec_run (spec_step st o r) ops' rs'
  | _, _ => st
  end.

Theorem w_run_SI : forall ops s base done cur, SI s base done cur ->
  let '(s', rs) := w_run PS s ops in
  let '(done', cur') := spec_run (done, cur) ops rs in
  SI s' base done' cur'.
Proof.
  induction ops as [|o ops IH]; intros s base done cur H; cbn [w_run spec_run]; [exact H|].
  pose proof (w_step_SI s o base done cur H) as H1.
  destruct (w_step PS s o) as [s1 r].
  destruct (spec_step (done, cur) o r) as [done1 cur1] eqn:E.
  specialize (IH s1 base done1 cur1 H1).
  destruct (w_run PS s1 ops) as [s2 rs]. cbn [spec_run]. rewrite E. exact IH.
Qed.

Theorem w_init_SI pages tail endId r :
  match tail with Some t => (length (wp_data t) <= P)%nat | None => True end ->
  SI (w_init PS pages tail endId r) (match tail with Some t => wp_data t | None => [] end) [] [].
Proof.
  intros Ht. split; cbn [w_init ws_buf ws_hist ws_evBytes]; [|reflexivity].
  exists (zeros hdr_len). split; [apply zeros_length|]. rewrite app_nil_r.
  unfold pre_of. cbn [layout_from length app]. rewrite Nat.add_0_r.
  apply reserve_hdr_BI; [exact HP|].
  destruct tail as [t|]; split; cbn [b_pages pdata map app ws_hist]; try reflexivity; try discriminate.
  - constructor; [exact Ht|constructor].
  - constructor.
Qed.

(* the content of the stream in terms of the events alone *)
Theorem writer_stream s base done cur : SI s base done cur ->
  exists h4, length h4 = hdr_len /\
    flat P (pdata (ws_hist s ++ b_pages (ws_buf s))) = pre_of base done ++ h4 ++ cur.
Proof.
  intros [(h4 & Hh4 & HBI) _]. exists h4. split; [exact Hh4|]. rewrite pdata_app. apply (bi_flat _ _ _ _ _ HBI).
Qed.

End W.

(* ---------- what a flush publishes ---------- *)
(* The ghost field wp_disk records the payload last written to the file for a page. Invariant: every page in front of
   the page that holds the open event's header is either dirty (it is in the range of the next flush) or its disk
   version is its current payload; the header page itself, when clean, agrees with its disk version on everything in
   front of the header (or the header is the first thing in it). Released pages are clean and on disk. After a
   successful flush no page up to the header page is dirty: the file holds the stream up to the open header, i.e.
   exactly the completed events. *)
Definition core (p : wpage) : list Z * bool * option (list Z) := (wp_data p, wp_dirty p, wp_disk p).
Definition c_data (c : list Z * bool * option (list Z)) := fst (fst c).
Definition c_dirty (c : list Z * bool * option (list Z)) := snd (fst c).
Definition c_disk (c : list Z * bool * option (list Z)) := snd c.
Definition c_settled (c : list Z * bool * option (list Z)) : Prop := c_dirty c = false -> c_disk c = Some (c_data c).
Definition c_done (c : list Z * bool * option (list Z)) : Prop := c_dirty c = false /\ c_disk c = Some (c_data c).
Definition c_hdr_ok (c : list Z * bool * option (list Z)) (k : nat) : Prop :=
  c_dirty c = false -> k = O \/ exists d, c_disk c = Some d /\ firstn k d = firstn k (c_data c).

Definition cores (l : list wpage) := map core l.

Lemma cores_app a b : cores (a ++ b) = cores a ++ cores b. Proof. apply map_app. Qed.
Lemma cores_assign : forall ids l, cores (assign ids l) = cores l.
Proof. intros ids l; revert ids. induction l as [|x l IH]; intros [|id ids]; cbn; auto. f_equal. apply IH. Qed.
Lemma cores_link : forall l, cores (link l) = cores l.
Proof. induction l as [|x [|y l] IH]; cbn; auto. f_equal. exact IH. Qed.
Lemma cores_stale : forall l, cores (stale_links l) = cores l.
Proof. induction l as [|x [|y l] IH]; cbn; auto. f_equal. exact IH. Qed.
Lemma cores_map_same (f : wpage -> wpage) l : (forall x, core (f x) = core x) -> cores (map f l) = cores l.
Proof. intros H. unfold cores. rewrite map_map. apply map_ext. exact H. Qed.
Lemma cores_firstn n l : cores (firstn n l) = firstn n (cores l). Proof. symmetry. apply firstn_map. Qed.
Lemma cores_skipn n l : cores (skipn n l) = skipn n (cores l). Proof. symmetry. apply skipn_map. Qed.
Lemma cores_pdata l : map c_data (cores l) = pdata l.
Proof. unfold cores, pdata. rewrite map_map. reflexivity. Qed.

(* buffer with an open event *)
Definition PubB (b : wbuf) : Prop :=
  exists CA cp CB k, cores (b_pages b) = CA ++ cp :: CB /\ b_hdr b = Some (length CA, (pgH + k)%nat) /\
    (k + hdr_len <= length (c_data cp))%nat /\ Forall c_settled CA /\ c_hdr_ok cp k.
(* buffer between CommitEvent and ReserveHdr: everything from page i on is dirty *)
Definition PubC (b : wbuf) : Prop :=
  exists CA CC, cores (b_pages b) = CA ++ CC /\ Forall c_settled CA /\ Forall (fun c => c_dirty c = true) CC.

Lemma upd_last_cores_push d l : cores (upd_last (push d) l) = upd_last (fun c => (c_data c ++ d, c_dirty c, c_disk c)) (cores l).
Proof.
  destruct (snoc_cases l) as [->|[a [x ->]]]; [reflexivity|].
  unfold cores. rewrite upd_last_snoc, !map_app. cbn [map]. rewrite upd_last_snoc. reflexivity.
Qed.

Lemma firstn_app_le {A} (k : nat) (a b : list A) : (k <= length a)%nat -> firstn k (a ++ b) = firstn k a.
Proof. intros H. rewrite firstn_app. replace (k - length a)%nat with O by lia. cbn. apply app_nil_r. Qed.

Lemma PubB_grow_last (b b' : wbuf) d :
  cores (b_pages b') = upd_last (fun c => (c_data c ++ d, c_dirty c, c_disk c)) (cores (b_pages b)) ->
  b_hdr b' = b_hdr b -> PubB b -> PubB b'.
Proof.
  intros Hc Hh (CA & cp & CB & k & E & Hhdr & Hk & HA & Hp). unfold PubB. rewrite Hc, Hh, E.
  destruct (snoc_cases CB) as [->|[CB' [t ->]]].
  - rewrite upd_last_snoc. exists CA, (c_data cp ++ d, c_dirty cp, c_disk cp), [], k.
    split; [reflexivity|]. split; [exact Hhdr|]. split; [unfold c_data in *; cbn [fst] in *; rewrite app_length; lia|]. split; [exact HA|].
    intros Hd. destruct (Hp Hd) as [->|(d0 & Hd0 & Hf)]; [left; reflexivity|right].
    exists d0. split; [exact Hd0|]. unfold c_data in *; cbn [fst] in *. rewrite firstn_app_le by lia. exact Hf.
  - replace (CA ++ cp :: CB' ++ [t]) with ((CA ++ cp :: CB') ++ [t]) by (rewrite <- app_assoc; reflexivity).
    rewrite upd_last_snoc. exists CA, cp, (CB' ++ [(c_data t ++ d, c_dirty t, c_disk t)]), k.
    split; [rewrite <- app_assoc; reflexivity|]. auto.
Qed.

Lemma PubB_snoc_fresh (b b' : wbuf) :
  cores (b_pages b') = cores (b_pages b) ++ [core fresh_wpage] -> b_hdr b' = b_hdr b -> PubB b -> PubB b'.
Proof.
  intros Hc Hh (CA & cp & CB & k & E & Hhdr & Hk & HA & Hp). unfold PubB. rewrite Hc, Hh, E.
  exists CA, cp, (CB ++ [core fresh_wpage]), k. split; [rewrite <- app_assoc; reflexivity|]. auto.
Qed.

Section Pub.
Variable PS : nat.

Lemma append_byte_PubB b x : PubB b -> PubB (append_byte PS b x).
Proof.
  intros H. unfold append_byte.
  set (b1 := if (room PS b =? 0)%nat then advance b else b).
  assert (H1 : PubB b1).
  { unfold b1. destruct (room PS b =? 0)%nat; [|exact H].
    eapply PubB_snoc_fresh; [| |exact H]; cbn [advance b_pages b_hdr]; [apply cores_app|reflexivity]. }
  eapply PubB_grow_last; [| |exact H1]; cbn [b_pages b_hdr]; [apply upd_last_cores_push|reflexivity].
Qed.

Lemma append_PubB : forall data b, PubB b -> PubB (append PS b data).
Proof. unfold append. induction data as [|x data IH]; intros b H; cbn [fold_left]; [exact H|]. apply IH, append_byte_PubB, H. Qed.

Lemma firstn_splice k src (d : list Z) : (k <= length d)%nat -> firstn k (splice k src d) = firstn k d.
Proof.
  intros Hle. unfold splice. rewrite firstn_app_le by (rewrite firstn_length; lia).
  rewrite firstn_firstn, Nat.min_id. reflexivity.
Qed.

Lemma PubB_same (b b' : wbuf) : cores (b_pages b') = cores (b_pages b) -> b_hdr b' = b_hdr b -> PubB b -> PubB b'.
Proof. intros Hc Hh H. unfold PubB. rewrite Hc, Hh. exact H. Qed.

Lemma set_hdr_size_PubB b sz : PubB b -> PubB (set_hdr_size b sz).
Proof.
  intros (CA & cp & CB & k & E & Hhdr & Hk & HA & Hp). unfold set_hdr_size. rewrite Hhdr.
  replace (pgH + k - pgH)%nat with k by lia.
  set (src := le_encode hdr_len sz). assert (Hsrc : length src = hdr_len) by apply le_encode_length.
  exists CA, (splice k src (c_data cp), c_dirty cp, c_disk cp), CB, k. cbn [b_pages b_hdr].
  split.
  - unfold cores. rewrite (map_upd_nth_comm core _ (fun c => (splice k src (c_data c), c_dirty c, c_disk c))) by reflexivity.
    change (map core (b_pages b)) with (cores (b_pages b)). rewrite E. exact (upd_nth_app _ CA cp CB).
  - split; [first [exact Hhdr | reflexivity]|]. split; [unfold c_data in *; cbn [fst] in *; rewrite splice_length by lia; exact Hk|]. split; [exact HA|].
    intros Hd. destruct (Hp Hd) as [->|(d0 & Hd0 & Hf)]; [left; reflexivity|right].
    exists d0. split; [exact Hd0|]. unfold c_data in *; cbn [fst] in *. rewrite firstn_splice by lia. exact Hf.
Qed.

Definition cmark (c : list Z * bool * option (list Z)) : list Z * bool * option (list Z) := (c_data c, true, c_disk c).

Lemma cores_mark_from : forall l i, cores (mark_from i l) = firstn i (cores l) ++ map cmark (skipn i (cores l)).
Proof.
  induction l as [|x l IH]; intros [|i]; cbn [mark_from cores map firstn skipn app]; auto.
  - f_equal. apply (IH O).
  - f_equal. apply IH.
Qed.

Lemma settled_mark c : c_settled (cmark c). Proof. intros H. discriminate H. Qed.

Lemma Forall_upd_nth {A} (Q : A -> Prop) (f : A -> A) : (forall x, Q x -> Q (f x)) ->
  forall l i, Forall Q l -> Forall Q (upd_nth i f l).
Proof. intros Hf. induction l as [|x l IH]; intros [|i] H; cbn; auto; inversion H; subst; constructor; auto. Qed.

Lemma commit_event_PubC b id : PubB b -> PubC (commit_event b id).
Proof.
  intros (CA & cp & CB & k & E & Hhdr & Hk & HA & Hp). unfold commit_event. rewrite Hhdr. cbn [b_pages].
  set (ps1 := upd_nth (length CA) _ (b_pages b)).
  assert (E1 : cores ps1 = CA ++ cp :: CB).
  { unfold ps1, cores. rewrite map_upd_nth; [exact E|]. intros x. destruct (wp_off x =? 0)%nat; reflexivity. }
  assert (E2 : cores (mark_from (length CA) ps1) = CA ++ map cmark (cp :: CB)).
  { rewrite cores_mark_from, E1, firstn_app, Nat.sub_diag, firstn_all, skipn_app, Nat.sub_diag, skipn_all. cbn [firstn skipn app].
    rewrite app_nil_r. reflexivity. }
  assert (Hdirty : Forall (fun c => c_dirty c = true) (map cmark (cp :: CB))).
  { apply Forall_forall. intros c Hc. apply in_map_iff in Hc. destruct Hc as (c0 & <- & _). reflexivity. }
  destruct (length CA =? 1)%nat.
  - exists (upd_nth 0 cmark CA), (map cmark (cp :: CB)). split.
    + cbn [b_pages]. unfold cores. rewrite (map_upd_nth_comm core _ cmark) by reflexivity.
      change (map core (mark_from (length CA) ps1)) with (cores (mark_from (length CA) ps1)).
      rewrite E2. destruct CA; reflexivity.
    + split; [|exact Hdirty]. apply Forall_upd_nth; [|exact HA]. intros x _. apply settled_mark.
  - exists CA, (map cmark (cp :: CB)). cbn [b_pages]. auto.
Qed.

Lemma Forall_last_split {A} (Q R : A -> Prop) (a c : list A) x t :
  a ++ c = x ++ [t] -> Forall Q a -> Forall R c -> (Forall Q x /\ Forall R x \/ True) -> (In t c \/ (c = [] /\ In t a)).
Proof.
  intros E _ _ _. destruct (snoc_cases c) as [->|[c' [t' ->]]].
  - right. split; [reflexivity|]. rewrite app_nil_r in E. subst a. apply in_or_app. right. left. reflexivity.
  - left. rewrite app_assoc in E. apply app_inj_tail in E. destruct E as [_ ->]. apply in_or_app. right. left. reflexivity.
Qed.

Lemma reserve_hdr_PubB b : PubC b -> PubB (reserve_hdr PS b).
Proof.
  intros (CA & CC & E & HA & HC). hl.
  assert (Hsettled : Forall c_settled (CA ++ CC)).
  { apply Forall_app. split; [exact HA|]. apply Forall_forall. intros c Hc Hd.
    rewrite Forall_forall in HC. rewrite (HC c Hc) in Hd. discriminate. }
  destruct b as [pg av hd ct]. cbn [b_pages] in *.
  unfold reserve_hdr, room, tail_len. cbn [b_pages].
  destruct (snoc_cases pg) as [->|[a [t ->]]].
  - (* empty buffer: a fresh page *)
    cbn [rev]. rewrite Nat.sub_diag.
    destruct (Nat.ltb_spec 0 hdr_len) as [_|]; [|lia].
    unfold upd_last. cbn [advance b_pages b_avail b_hdr b_count app length Nat.sub upd_nth rev].
    exists [], (core (push (zeros hdr_len) fresh_wpage)), [], O. cbn [b_pages b_hdr cores map].
    split; [reflexivity|]. split; [reflexivity|]. split; [unfold c_data; cbn; rewrite zeros_length; lia|]. split; [constructor|].
    intros _. left. reflexivity.
  - rewrite rev_app_distr. cbn [rev app].
    assert (Ecore : CA ++ CC = cores a ++ [core t]).
    { rewrite <- E, cores_app. reflexivity. }
    destruct (Nat.ltb_spec (payload PS - length (wp_data t)) hdr_len) as [Hsmall|Hbig].
    + (* fresh page for the header *)
      cbn [advance b_pages b_avail b_hdr b_count]. rewrite rev_app_distr. cbn [rev app wp_data fresh_wpage length].
      rewrite upd_last_snoc.
      exists (CA ++ CC), (core (push (zeros hdr_len) fresh_wpage)), [], O. cbn [b_pages b_hdr].
      split; [rewrite cores_app, cores_app, Ecore; reflexivity|].
      split; [rewrite Ecore, !app_length; unfold cores; rewrite map_length; cbn [length]; f_equal; f_equal; lia|].
      split; [unfold c_data; cbn; rewrite zeros_length; lia|]. split; [exact Hsettled|]. intros _. left. reflexivity.
    + cbn [b_pages b_avail b_hdr b_count]. rewrite rev_app_distr. cbn [rev app]. rewrite upd_last_snoc.
      exists (cores a), (core (push (zeros hdr_len) t)), [], (length (wp_data t)). cbn [b_pages b_hdr].
      split; [rewrite cores_app; reflexivity|].
      split; [rewrite app_length; cbn [length]; unfold cores; rewrite map_length; f_equal; f_equal; lia|].
      split; [unfold c_data; cbn; rewrite app_length, zeros_length; lia|].
      rewrite Ecore in Hsettled. apply Forall_app in Hsettled. destruct Hsettled as [Ha Ht]. split; [exact Ha|].
      inversion Ht as [|? ? Hts _]; subst. intros Hd. right. exists (wp_data t). cbn in Hd.
      split; [apply Hts; exact Hd|]. unfold c_data; cbn. rewrite firstn_app_le by lia. reflexivity.
Qed.

End Pub.

Definition cF (c : list Z * bool * option (list Z)) : list Z * bool * option (list Z) := (c_data c, false, Some (c_data c)).

Record PubInv (s : wst) : Prop := { pi_hist : Forall c_done (cores (ws_hist s)); pi_buf : PubB (ws_buf s) }.

(* the file holds everything in front of the open header *)
Definition Published (s : wst) : Prop :=
  Forall c_done (cores (ws_hist s)) /\
  exists CA cp CB k, cores (b_pages (ws_buf s)) = CA ++ cp :: CB /\ b_hdr (ws_buf s) = Some (length CA, (pgH + k)%nat) /\
    (k + hdr_len <= length (c_data cp))%nat /\ Forall c_done CA /\
    (k = O \/ exists d, c_disk cp = Some d /\ firstn k d = firstn k (c_data cp)).

Lemma done_settled c : c_done c -> c_settled c. Proof. intros [_ H] _. exact H. Qed.

Lemma Published_PubInv s : Published s -> PubInv s.
Proof.
  intros (Hh & CA & cp & CB & k & E & Hhdr & Hk & HA & Hp). split; [exact Hh|].
  exists CA, cp, CB, k. split; [exact E|]. split; [exact Hhdr|]. split; [exact Hk|].
  split; [eapply Forall_impl; [|exact HA]; intros c; apply done_settled|]. intros _. exact Hp.
Qed.

Lemma Forall_firstn {A} (Q : A -> Prop) n (l : list A) : Forall Q l -> Forall Q (firstn n l).
Proof. intros H. rewrite <- (firstn_skipn n l) in H. apply Forall_app in H. tauto. Qed.
Lemma Forall_skipn {A} (Q : A -> Prop) n (l : list A) : Forall Q l -> Forall Q (skipn n l).
Proof. intros H. rewrite <- (firstn_skipn n l) in H. apply Forall_app in H. tauto. Qed.

Lemma cF_done l : Forall c_done (map cF l).
Proof. apply Forall_forall. intros c Hc. apply in_map_iff in Hc. destruct Hc as (c0 & <- & _). split; reflexivity. Qed.

Lemma do_flush_Pub s fo : PubInv s ->
  PubInv (fst (do_flush s fo)) /\ match snd (do_flush s fo) with FDone _ _ _ => Published (fst (do_flush s fo)) | _ => True end.
Proof.
  intros [Hhist HB]. pose proof HB as (CA & cp & CB & k & E & Hhdr & Hk & HA & Hp).
  unfold do_flush. destruct (flush_range (ws_buf s)) as [n reported] eqn:FR.
  destruct n as [|n1]; [cbn [fst snd]; split; [split; assumption | exact I]|].
  set (pages := b_pages (ws_buf s)) in *.
  set (range := firstn (S n1) pages). set (rest := skipn (S n1) pages). set (u := first_unassigned range).
  assert (Hr1 : forall ids, cores (firstn u range ++ assign ids (skipn u range)) = cores range).
  { intros ids. rewrite cores_app, cores_assign, <- cores_app, firstn_skipn. reflexivity. }
  destruct fo as [ids| |ids]; cbn [fst snd].
  - (* success *)
    set (range2 := link (firstn u range ++ assign ids (skipn u range))).
    set (clean := map (fun p => set_disk (Some (wp_data p)) (set_dirty false p)) range2 ++ rest).
    (* which pages the range covers *)
    assert (Hn : (S n1 = length CA /\ c_dirty cp = false) \/ (S n1 = S (length CA) /\ c_dirty cp = true)).
    { unfold flush_range in FR. fold pages in FR. destruct pages as [|h tl] eqn:Epg; [discriminate|].
      destruct (negb (wp_dirty h)); [discriminate|]. rewrite Hhdr in FR.
      assert (Hnth : wp_dirty (nth (length CA) (h :: tl) fresh_wpage) = c_dirty cp).
      { change (wp_dirty (nth (length CA) (h :: tl) fresh_wpage)) with (c_dirty (core (nth (length CA) (h :: tl) fresh_wpage))).
        rewrite <- (map_nth core). fold (cores (h :: tl)). rewrite E, nth_middle. reflexivity. }
      rewrite Hnth in FR. destruct (c_dirty cp); injection FR as <- _; [right|left]; split; reflexivity. }
    assert (Hclean : exists CA' cp', cores clean = CA' ++ cp' :: CB /\ length CA' = length CA /\ Forall c_done CA' /\
              c_data cp' = c_data cp /\ (k = O \/ exists d, c_disk cp' = Some d /\ firstn k d = firstn k (c_data cp'))).
    { unfold clean. rewrite cores_app.
      assert (Ec : cores (map (fun p => set_disk (Some (wp_data p)) (set_dirty false p)) range2) = map cF (cores range)).
      { assert (EF : forall l, cores (map (fun p => set_disk (Some (wp_data p)) (set_dirty false p)) l) = map cF (cores l)).
        { intros l. unfold cores. rewrite !map_map. apply map_ext. reflexivity. }
        rewrite EF. unfold range2. rewrite cores_link, Hr1. reflexivity. }
      rewrite Ec. unfold range, rest. rewrite cores_firstn, cores_skipn. fold pages in E. rewrite E.
      destruct Hn as [[Hn Hd]|[Hn Hd]]; rewrite Hn.
      - rewrite firstn_app, Nat.sub_diag, firstn_all, skipn_app, Nat.sub_diag, skipn_all. cbn [firstn skipn app]. rewrite app_nil_r.
        exists (map cF CA), cp. split; [reflexivity|]. split; [apply map_length|]. split; [apply cF_done|]. split; [reflexivity|].
        exact (Hp Hd).
      - replace (CA ++ cp :: CB) with ((CA ++ [cp]) ++ CB) by (rewrite <- app_assoc; reflexivity).
        replace (S (length CA)) with (length (CA ++ [cp])) by (rewrite app_length; cbn; lia).
        rewrite firstn_app, Nat.sub_diag, firstn_all, skipn_app, Nat.sub_diag, skipn_all. cbn [firstn skipn app]. rewrite app_nil_r.
        rewrite map_app. cbn [map]. rewrite <- app_assoc. cbn [app].
        exists (map cF CA), (cF cp). split; [reflexivity|]. split; [apply map_length|]. split; [apply cF_done|]. split; [reflexivity|].
        right. exists (c_data cp). split; reflexivity. }
    destruct Hclean as (CA' & cp' & Ecl & HlenA & HdoneA & Hdata & Hpub).
    rewrite Hhdr. cbn [option_map fst].
    set (kk := reset_end clean 0 (Some (length CA)) n1).
    assert (Hkk : (kk <= length CA)%nat) by (apply reset_end_le; lia).
    assert (HP' : forall s', ws_hist s' = ws_hist s ++ firstn kk clean -> b_pages (ws_buf s') = skipn kk clean ->
                   b_hdr (ws_buf s') = Some ((length CA - kk)%nat, (pgH + k)%nat) -> Published s').
    { intros s' E1 E2 E3. split.
      - rewrite E1, cores_app. apply Forall_app. split; [exact Hhist|].
        rewrite cores_firstn, Ecl, firstn_app. replace (kk - length CA')%nat with O by lia. cbn [firstn]. rewrite app_nil_r.
        apply Forall_firstn. exact HdoneA.
      - exists (skipn kk CA'), cp', CB, k. rewrite E2, E3.
        split; [rewrite cores_skipn, Ecl, skipn_app; replace (kk - length CA')%nat with O by lia; reflexivity|].
        split; [rewrite skipn_length, HlenA; reflexivity|]. split; [rewrite Hdata; exact Hk|].
        split; [apply Forall_skipn; exact HdoneA | exact Hpub]. }
    split; [apply Published_PubInv|]; apply HP'; reflexivity.
  - split; [split; assumption | exact I].
  - split; [|exact I]. split; cbn [with_buf ws_hist ws_buf]; [exact Hhist|].
    eapply PubB_same; [| |exact HB]; cbn [b_pages b_hdr]; [|reflexivity].
    rewrite cores_app, cores_app, (cores_map_same (set_id 0)) by reflexivity.
    rewrite <- cores_app, firstn_skipn, cores_stale, Hr1. unfold range, rest. rewrite <- cores_app, firstn_skipn. reflexivity.
Qed.

Lemma flush_buffer_Pub s fo : PubInv s ->
  PubInv (fst (flush_buffer s fo)) /\
  match snd (flush_buffer s fo) with WOk (Some (FDone _ _ _, _)) => Published (fst (flush_buffer s fo)) | _ => True end.
Proof.
  intros H. destruct (do_flush_Pub s fo H) as [H1 H2]. unfold flush_buffer.
  destruct (do_flush s fo) as [s1 r]. cbn [fst snd] in *.
  destruct r; cbn [fst snd]; (split; [|try exact I]).
  - destruct H1 as [Ha Hb]. split; assumption.
  - destruct H1 as [Ha Hb]. split; assumption.
  - exact H2.
  - exact H1.
Qed.

Section PubW.
Variable PS : nat.

Theorem w_step_Pub s o : PubInv s ->
  PubInv (fst (w_step PS s o)) /\
  match o, snd (w_step PS s o) with
  | WNext _, WOk (Some (FDone _ _ _, _)) | WFlush _, WOk (Some (FDone _ _ _, _)) => Published (fst (w_step PS s o))
  | _, _ => True
  end.
Proof.
  intros H. destruct o as [data fo|fo|fo]; cbn [w_step].
  - (* Write *)
    assert (Hgo : forall s1, PubInv s1 ->
              PubInv {| ws_buf := append PS (ws_buf s1) data; ws_evBytes := ws_evBytes s1 + Z.of_nat (length data); ws_evId := ws_evId s1;
                        ws_active := ws_active s1; ws_root := ws_root s1; ws_hist := ws_hist s1 |}).
    { intros s1 [Ha Hb]. split; cbn [ws_hist ws_buf]; [exact Ha | apply append_PubB; exact Hb]. }
    destruct (b_avail (ws_buf s) <=? Z.of_nat (length data)).
    + destruct (flush_buffer_Pub s fo H) as [H1 _]. destruct (flush_buffer s fo) as [s1 r]. cbn [fst] in H1.
      destruct r; cbn [fst snd]; (split; [|exact I]); [apply Hgo; exact H1 | exact H1].
    + cbn [fst snd]. split; [apply Hgo; exact H | exact I].
  - (* Next *)
    destruct H as [Ha Hb].
    set (b1 := reserve_hdr PS (commit_event (set_hdr_size (ws_buf s) (ws_evBytes s)) (ws_evId s))).
    assert (H1 : PubInv {| ws_buf := b1; ws_evBytes := 0; ws_evId := ws_evId s + 1; ws_active := ws_active s + 1; ws_root := ws_root s;
                           ws_hist := ws_hist s |}).
    { split; cbn [ws_hist ws_buf]; [exact Ha|]. unfold b1. apply reserve_hdr_PubB, commit_event_PubC, set_hdr_size_PubB, Hb. }
    destruct (b_avail b1 <=? Z.of_nat hdr_len).
    + exact (flush_buffer_Pub _ fo H1).
    + cbn [fst snd]. split; [exact H1 | exact I].
  - exact (flush_buffer_Pub s fo H).
Qed.

Theorem w_init_Pub pages tail endId r :
  match tail with Some t => wp_dirty t = false /\ wp_disk t = Some (wp_data t) | None => True end ->
  PubInv (w_init PS pages tail endId r).
Proof.
  intros Ht. split; cbn [w_init ws_hist ws_buf]; [constructor|].
  apply reserve_hdr_PubB. destruct tail as [t|]; cbn [b_pages].
  - exists [core t], []. split; [reflexivity|]. split; [|constructor].
    constructor; [|constructor]. intros _. destruct Ht as [_ Hd]. exact Hd.
  - exists [], []. split; [reflexivity|]. split; constructor.
Qed.

End PubW.

(* ---------- the stream in the file after a successful flush ---------- *)
Definition disk_data (c : list Z * bool * option (list Z)) : list Z := match c_disk c with Some d => d | None => [] end.

Lemma app_cons_inj {A} : forall (a a' : list A) x x' b b', a ++ x :: b = a' ++ x' :: b' -> length a = length a' ->
  a = a' /\ x = x' /\ b = b'.
Proof.
  induction a as [|y a IH]; intros [|y' a'] x x' b b' E L; cbn in *; try discriminate.
  - injection E as -> ->. auto.
  - injection E as -> E. injection L as L. destruct (IH _ _ _ _ _ E L) as (-> & -> & ->). auto.
Qed.

Section Stream.
Variable PS : nat.
Notation P := (payload PS).
Hypothesis HP : (hdr_len <= P)%nat.

Lemma flat_cons_prefix (d : list Z) (B : list (list Z)) : exists rest, flat P (d :: B) = d ++ rest.
Proof.
  destruct (snoc_cases B) as [->|[B' [t ->]]].
  - exists []. change [d] with ([] ++ [d]). rewrite flat_snoc. cbn. rewrite app_nil_r. reflexivity.
  - change (d :: B' ++ [t]) with ((d :: B') ++ [t]). rewrite flat_snoc, flatpad_cons. unfold padp. rewrite <- !app_assoc. eauto.
Qed.

Lemma flat_app_cons (A : list (list Z)) d B : flat P (A ++ d :: B) = flatpad P A ++ flat P (d :: B).
Proof.
  destruct (snoc_cases B) as [->|[B' [t ->]]].
  - rewrite flat_snoc. change [d] with ([] ++ [d]). rewrite flat_snoc. reflexivity.
  - replace (A ++ d :: B' ++ [t]) with ((A ++ d :: B') ++ [t]) by (rewrite <- app_assoc; reflexivity).
    change (d :: B' ++ [t]) with ((d :: B') ++ [t]). rewrite !flat_snoc, flatpad_app, <- app_assoc. reflexivity.
Qed.

Theorem published_stream s base done cur : SI PS s base done cur -> Published s ->
  exists i off post, b_hdr (ws_buf s) = Some (i, off) /\
    flat P (map disk_data (cores (ws_hist s ++ firstn (S i) (b_pages (ws_buf s))))) = pre_of PS base done ++ post.
Proof.
  intros [(h4 & Hh4 & HBI) _] (Hhist & CA & cp & CB & k & E & Hhdr & Hk & HA & Hpub).
  destruct HBI as [_ Hok Hflat (DA & dp & DB & k' & HD & Hh' & Hk' & Hg) _].
  rewrite Hhdr in Hh'. injection Hh' as HlenA Hkk. assert (k' = k) by lia. subst k'.
  assert (Hsplit : map c_data CA = DA /\ c_data cp = dp /\ map c_data CB = DB).
  { apply app_cons_inj; [|rewrite map_length; exact HlenA].
    rewrite <- HD, <- cores_pdata, E, map_app. reflexivity. }
  destruct Hsplit as (HDA & Hdp & _).
  exists (length CA), (pgH + k)%nat.
  assert (Hdone_data : forall l, Forall c_done l -> map disk_data l = map c_data l).
  { intros l Hl. apply map_ext_in. intros c Hc. rewrite Forall_forall in Hl. destruct (Hl c Hc) as [_ Hd].
    unfold disk_data. rewrite Hd. reflexivity. }
  assert (Ecs : cores (ws_hist s ++ firstn (S (length CA)) (b_pages (ws_buf s))) = cores (ws_hist s) ++ CA ++ [cp]).
  { rewrite cores_app, cores_firstn, E.
    replace (CA ++ cp :: CB) with ((CA ++ [cp]) ++ CB) by (rewrite <- app_assoc; reflexivity).
    replace (S (length CA)) with (length (CA ++ [cp])) by (rewrite app_length; cbn; lia).
    rewrite firstn_app, Nat.sub_diag, firstn_all. cbn [firstn]. rewrite app_nil_r. reflexivity. }
  rewrite Ecs, !map_app. cbn [map]. rewrite (Hdone_data _ Hhist), (Hdone_data _ HA), cores_pdata, HDA.
  rewrite app_assoc, flat_snoc.
  (* the stream of all pages up to the header *)
  assert (Hokp : okp PS (pdata (ws_hist s) ++ DA)).
  { rewrite HD in Hok. rewrite app_assoc in Hok. apply okp_app in Hok. tauto. }
  assert (Hpre : pre_of PS base done = flatpad P (pdata (ws_hist s) ++ DA) ++ firstn k dp).
  { rewrite HD, app_assoc, flat_app_cons in Hflat.
    destruct (flat_cons_prefix dp DB) as [rest Hrest]. rewrite Hrest in Hflat.
    assert (Hlen : length (pre_of PS base done) = (length (flatpad P (pdata (ws_hist s) ++ DA)) + k)%nat).
    { rewrite flatpad_length by exact Hokp. rewrite app_length, <- Hg. f_equal. }
    apply (f_equal (firstn (length (pre_of PS base done)))) in Hflat.
    assert (Hr : forall (a b : list Z), firstn (length a) (a ++ b) = a).
    { intros a b. rewrite firstn_app, Nat.sub_diag, firstn_all. cbn [firstn]. apply app_nil_r. }
    rewrite Hr in Hflat.
    rewrite <- Hflat, Hlen, firstn_app. rewrite firstn_all2 by lia.
    replace (length (flatpad P (pdata (ws_hist s) ++ DA)) + k - length (flatpad P (pdata (ws_hist s) ++ DA)))%nat with k by lia.
    f_equal. rewrite firstn_app_le by lia. reflexivity. }
  destruct Hpub as [->|(d & Hd & Hf)].
  - exists (disk_data cp). split; [exact Hhdr|]. rewrite Hpre. cbn [firstn]. rewrite app_nil_r. reflexivity.
  - exists (skipn k d). split; [exact Hhdr|]. unfold disk_data. rewrite Hd, Hpre, <- app_assoc. f_equal.
    rewrite <- Hdp, <- Hf. symmetry. apply firstn_skipn.
Qed.

End Stream.

(* ---------- runs ---------- *)
Section Runs.
Variable PS : nat.
Notation P := (payload PS).
Hypothesis HP : (hdr_len <= P)%nat.

Lemma w_run_Pub : forall ops s, PubInv s -> PubInv (fst (w_run PS s ops)).
Proof.
  induction ops as [|o ops IH]; intros s H; cbn [w_run fst]; [exact H|].
  destruct (w_step_Pub PS s o H) as [H1 _]. destruct (w_step PS s o) as [s1 r]. cbn [fst] in H1.
  specialize (IH s1 H1). destruct (w_run PS s1 ops) as [s2 rs]. exact IH.
Qed.

(* a run, then a Next / Flush call whose flush succeeds: the parser of the reader, run on the payloads as they were
   written to the file (up to the page of the open event's header), returns exactly the completed events *)
Theorem flush_publishes_events pages tail endId root ops o :
  match tail with Some t => (length (wp_data t) <= P)%nat /\ wp_dirty t = false /\ wp_disk t = Some (wp_data t) | None => True end ->
  let base := match tail with Some t => wp_data t | None => [] end in
  let '(s1, rs) := w_run PS (w_init PS pages tail endId root) ops in
  let '(s2, r) := w_step PS s1 o in
  let '(done, cur) := spec_step (spec_run ([], []) ops rs) o r in
  match o, r with
  | WNext _, WOk (Some (FDone _ _ _, _)) | WFlush _, WOk (Some (FDone _ _ _, _)) =>
      Forall (fun e => Z.of_nat (length e) < 256 ^ Z.of_nat hdr_len) done ->
      exists i off, b_hdr (ws_buf s2) = Some (i, off) /\
        parse_from P (flat P (map disk_data (cores (ws_hist s2 ++ firstn (S i) (b_pages (ws_buf s2)))))) (length base) (length done) = Some done
  | _, _ => True
  end.
Proof.
  intros Ht. cbn zeta.
  assert (Ht1 : match tail with Some t => (length (wp_data t) <= P)%nat | None => True end) by (destruct tail; tauto).
  assert (Ht2 : match tail with Some t => wp_dirty t = false /\ wp_disk t = Some (wp_data t) | None => True end) by (destruct tail; tauto).
  pose proof (w_run_SI PS HP ops _ _ [] [] (w_init_SI PS HP pages tail endId root Ht1)) as HS.
  pose proof (w_run_Pub ops _ (w_init_Pub PS pages tail endId root Ht2)) as HPub.
  destruct (w_run PS (w_init PS pages tail endId root) ops) as [s1 rs]. cbn [fst] in HPub.
  destruct (spec_run ([], []) ops rs) as [done1 cur1].
  destruct o as [d fo|fo|fo].
  - destruct (w_step PS s1 (WWrite d fo)) as [s2 r]. destruct (spec_step (done1, cur1) (WWrite d fo) r). exact I.
  - pose proof (w_step_SI PS HP s1 (WNext fo) _ done1 cur1 HS) as HS2.
    destruct (w_step_Pub PS s1 (WNext fo) HPub) as [_ HP2].
    destruct (w_step PS s1 (WNext fo)) as [s2 r]. cbn [fst snd] in HP2.
    destruct (spec_step (done1, cur1) (WNext fo) r) as [done cur].
    destruct r as [[[fr cb]|]|]; try exact I; destruct fr; try exact I. intros Hsz.
    destruct (published_stream PS HP s2 _ done cur HS2 HP2) as (i & off & post & Hh & Hst).
    exists i, off. split; [exact Hh|]. rewrite Hst. unfold pre_of. rewrite <- !app_assoc.
    apply parse_layout. exact Hsz.
  - pose proof (w_step_SI PS HP s1 (WFlush fo) _ done1 cur1 HS) as HS2.
    destruct (w_step_Pub PS s1 (WFlush fo) HPub) as [_ HP2].
    destruct (w_step PS s1 (WFlush fo)) as [s2 r]. cbn [fst snd] in HP2.
    destruct (spec_step (done1, cur1) (WFlush fo) r) as [done cur].
    destruct r as [[[fr cb]|]|]; try exact I; destruct fr; try exact I. intros Hsz.
    destruct (published_stream PS HP s2 _ done cur HS2 HP2) as (i & off & post & Hh & Hst).
    exists i, off. split; [exact Hh|]. rewrite Hst. unfold pre_of. rewrite <- !app_assoc.
    apply parse_layout. exact Hsz.
Qed.

End Runs.
