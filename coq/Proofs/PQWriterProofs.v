(* The queue writer (Model/PQWriter.v) refines the framing of the event stream: whatever the producer's Write chunks
   are and whenever the buffer is flushed (successfully or not), the payload areas of all pages ever filled -
   released ones and the ones still in the buffer - hold exactly the layout of the completed events followed by the
   frame of the event being written. *)
From VF Require Import PQ PQWriter BytesProofs PQProofs.
From Coq Require Import Lia ZifyBool ZifyNat.

(* ---------- lists ---------- *)
Lemma upd_nth_app {A} (f : A -> A) (a : list A) x b : upd_nth (length a) f (a ++ x :: b) = a ++ f x :: b.
Proof. induction a as [|y a IH]; cbn; [reflexivity | rewrite IH; reflexivity]. Qed.

Lemma upd_last_snoc {A} (f : A -> A) (a : list A) x : upd_last f (a ++ [x]) = a ++ [f x].
Proof.
  unfold upd_last. rewrite app_length. cbn [length]. replace (length a + 1 - 1)%nat with (length a) by lia.
  apply upd_nth_app.
Qed.

Lemma upd_nth_length {A} (f : A -> A) : forall (l : list A) i, length (upd_nth i f l) = length l.
Proof. induction l as [|x l IH]; intros [|i]; cbn; auto. Qed.

Lemma map_upd_nth {A B} (g : A -> B) (f : A -> A) : (forall x, g (f x) = g x) ->
  forall (l : list A) i, map g (upd_nth i f l) = map g l.
Proof. intros H. induction l as [|x l IH]; intros [|i]; cbn; auto; [rewrite H | rewrite IH]; reflexivity. Qed.

Lemma snoc_cases {A} (l : list A) : l = [] \/ exists a x, l = a ++ [x].
Proof. destruct l as [|y l]; [left; reflexivity | right]. exists (removelast (y :: l)), (last (y :: l) y). apply app_removelast_last. discriminate. Qed.

(* ---------- the stream held by a list of page payloads ---------- *)
Section Flat.
Variable P : nat.

Definition padp (d : list Z) : list Z := d ++ zeros (P - length d).
Definition flatpad (l : list (list Z)) : list Z := concat (map padp l).
Definition flat (l : list (list Z)) : list Z := flatpad (removelast l) ++ last l [].

Lemma flat_nil : flat [] = [].
Proof. reflexivity. Qed.

Lemma flat_snoc a d : flat (a ++ [d]) = flatpad a ++ d.
Proof. unfold flat. rewrite removelast_last, last_last. reflexivity. Qed.

Lemma flatpad_app a b : flatpad (a ++ b) = flatpad a ++ flatpad b.
Proof. unfold flatpad. rewrite map_app, concat_app. reflexivity. Qed.

Lemma flatpad_cons d b : flatpad (d :: b) = padp d ++ flatpad b.
Proof. reflexivity. Qed.

Lemma padp_length d : (length d <= P)%nat -> length (padp d) = P.
Proof. intros H. unfold padp. rewrite app_length, zeros_length. lia. Qed.

Lemma flatpad_length a : Forall (fun d => (length d <= P)%nat) a -> length (flatpad a) = (length a * P)%nat.
Proof.
  induction 1 as [|d a Hd _ IH]; [reflexivity|].
  unfold flatpad in *. cbn [map concat length]. rewrite app_length, IH, padp_length by exact Hd. lia.
Qed.

Lemma padp_full d : length d = P -> padp d = d.
Proof. intros H. unfold padp. rewrite H, Nat.sub_diag. cbn. apply app_nil_r. Qed.

Lemma flat_length a d : Forall (fun d => (length d <= P)%nat) a -> length (flat (a ++ [d])) = (length a * P + length d)%nat.
Proof. intros H. rewrite flat_snoc, app_length, flatpad_length by exact H. reflexivity. Qed.

(* overwriting bytes inside one page *)
Lemma splice_app_l (k : nat) src (d rest : list Z) : (k + length src <= length d)%nat ->
  splice k src (d ++ rest) = splice k src d ++ rest.
Proof.
  intros H. unfold splice. rewrite firstn_app, skipn_app.
  replace (k - length d)%nat with O by lia. replace (k + length src - length d)%nat with O by lia.
  cbn [firstn skipn]. rewrite app_nil_r, <- !app_assoc. reflexivity.
Qed.

Lemma splice_app_r (pre : list Z) k src d : splice (length pre + k) src (pre ++ d) = pre ++ splice k src d.
Proof.
  unfold splice. rewrite firstn_app, skipn_app.
  rewrite firstn_all2 by lia. rewrite skipn_all2 by lia.
  replace (length pre + k - length pre)%nat with k by lia.
  replace (length pre + k + length src - length pre)%nat with (k + length src)%nat by lia.
  cbn [app]. rewrite <- app_assoc. reflexivity.
Qed.

Lemma splice_length k src d : (k + length src <= length d)%nat -> length (splice k src d) = length d.
Proof. intros H. unfold splice. rewrite !app_length, firstn_length, skipn_length. lia. Qed.

Lemma padp_splice k src d : (k + length src <= length d)%nat -> padp (splice k src d) = splice k src (padp d).
Proof. intros H. unfold padp. rewrite splice_length by exact H. symmetry. apply splice_app_l. exact H. Qed.

Lemma flat_splice a d b k src :
  Forall (fun d => (length d <= P)%nat) a -> (k + length src <= length d)%nat ->
  flat (a ++ splice k src d :: b) = splice (length a * P + k) src (flat (a ++ d :: b)).
Proof.
  intros Ha Hk.
  destruct (snoc_cases b) as [->|[b' [t ->]]].
  - rewrite !flat_snoc. rewrite <- (flatpad_length a Ha). apply eq_sym, splice_app_r.
  - replace (a ++ splice k src d :: b' ++ [t]) with ((a ++ splice k src d :: b') ++ [t]) by (rewrite <- app_assoc; reflexivity).
    replace (a ++ d :: b' ++ [t]) with ((a ++ d :: b') ++ [t]) by (rewrite <- app_assoc; reflexivity).
    rewrite !flat_snoc, !flatpad_app, !flatpad_cons.
    rewrite padp_splice by exact Hk. rewrite <- (flatpad_length a Ha).
    rewrite <- !app_assoc. rewrite splice_app_r. f_equal.
    apply eq_sym, splice_app_l. unfold padp. rewrite app_length. lia.
Qed.

End Flat.
