(* A committed transaction makes exactly its own writes visible: for every sequence of page writes, flushes
   and checkpoints, after the commit every page reads as the last value the transaction wrote to it, every
   other page as before. *)
From VF Require Import TxCore.
From Coq Require Import Lia.

Section P.
Variable V : Type.
Notation wget := TxCore.wget. Notation wdel := TxCore.wdel. Notation wset := TxCore.wset.
Notation aget := (TxCore.aget V). Notation adel := (TxCore.adel V).

(* ---------- association lists ---------- *)
Lemma wget_wdel_same m id : wget (wdel m id) id = None.
Proof. induction m as [|[k w] m IH]; cbn; [reflexivity|]. destruct (k =? id) eqn:E; [exact IH|]. cbn. rewrite E. exact IH. Qed.
Lemma wget_wdel_other m id x : x <> id -> wget (wdel m id) x = wget m x.
Proof.
  intros H. induction m as [|[k w] m IH]; cbn; [reflexivity|]. destruct (k =? id) eqn:E.
  - rewrite IH. assert (k = id) by lia. subst k. replace (id =? x) with false by lia. reflexivity.
  - cbn. rewrite IH. reflexivity.
Qed.
Lemma wget_wset m id w x : wget (wset m id w) x = if id =? x then Some w else wget m x.
Proof. unfold wset. cbn. destruct (id =? x) eqn:E; [reflexivity|]. apply wget_wdel_other. lia. Qed.
Lemma wget_app a b x : wget (a ++ b) x = match wget a x with Some w => Some w | None => wget b x end.
Proof. induction a as [|[k w] a IH]; cbn; [reflexivity|]. destruct (k =? x); [reflexivity | exact IH]. Qed.
Lemma wget_filter (f : Z -> bool) m x :
  wget (filter (fun '(id, _) => f id) m) x = if f x then wget m x else None.
Proof.
  induction m as [|[k w] m IH]; cbn; [destruct (f x); reflexivity|].
  destruct (f k) eqn:Ek; cbn.
  - destruct (k =? x) eqn:E; [assert (k = x) by lia; subst; rewrite Ek; reflexivity | exact IH].
  - rewrite IH. destruct (k =? x) eqn:E; [assert (k = x) by lia; subst; rewrite Ek; reflexivity | reflexivity].
Qed.
Lemma wget_in m id w : wget m id = Some w -> In (id, w) m.
Proof. induction m as [|[k w0] m IH]; cbn; [discriminate|]. destruct (k =? id) eqn:E; [intros [= <-]; left; f_equal; lia | intros H; right; exact (IH H)]. Qed.
Lemma wget_none_keys m id : wget m id = None <-> ~ In id (map fst m).
Proof.
  induction m as [|[k w] m IH]; cbn; [tauto|]. destruct (k =? id) eqn:E.
  - split; [discriminate | intros H; exfalso; apply H; left; lia].
  - rewrite IH. split; [intros H [X|X]; [lia | exact (H X)] | intros H X; apply H; right; exact X].
Qed.

Lemma aget_adel_other m id x : x <> id -> aget (adel m id) x = aget m x.
Proof.
  intros H. induction m as [|[k v] m IH]; cbn; [reflexivity|]. destruct (k =? id) eqn:E.
  - rewrite IH. replace (k =? x) with false by lia. reflexivity.
  - cbn. rewrite IH. reflexivity.
Qed.
Lemma mem_in id l : TxCore.mem id l = true <-> In id l.
Proof.
  unfold TxCore.mem. rewrite existsb_exists. split; [intros (x & H1 & H2); assert (x = id) by lia; subst; exact H1 | intros H; exists id; split; [exact H | lia]].
Qed.
Lemma mem_false id l : TxCore.mem id l = false <-> ~ In id l.
Proof. rewrite <- mem_in. destruct (TxCore.mem id l); split; congruence. Qed.

(* ---------- the writer: last scheduled write per page wins ---------- *)
Lemma apply_snoc (d : Z -> V) ws p v q :
  TxCore.apply_writes V d (ws ++ [(p, v)]) q = if q =? p then v else TxCore.apply_writes V d ws q.
Proof. unfold TxCore.apply_writes. rewrite fold_left_app. cbn. unfold TxCore.upd. reflexivity. Qed.
Lemma apply_app_untouched (d : Z -> V) ws ws2 q :
  ~ In q (map fst ws2) -> TxCore.apply_writes V d (ws ++ ws2) q = TxCore.apply_writes V d ws q.
Proof.
  revert ws. induction ws2 as [|[p v] ws2 IH]; intros ws H; [rewrite app_nil_r; reflexivity|].
  replace (ws ++ (p, v) :: ws2) with ((ws ++ [(p, v)]) ++ ws2) by (rewrite <- app_assoc; reflexivity).
  rewrite IH by (intros X; apply H; right; exact X).
  rewrite apply_snoc. cbn in H. replace (q =? p) with false by lia. reflexivity.
Qed.

(* ---------- setting ---------- *)
Variable s : TxCore.fstate V.
Variable fresh0 : list Z.
Notation old := (TxCore.f_wal V s).
Notation okeys := (map fst old).
Notation ovals := (map snd old).
Notation txs := (TxCore.txs V).

Definition data_id (id : Z) : Prop := ~ In id ovals /\ ~ In id fresh0.

Record WF : Prop := {
  wf_keys : NoDup okeys;
  wf_vals : NoDup (ovals ++ fresh0);
  wf_disj : forall k, In k okeys -> data_id k }.
Hypothesis wf : WF.

Definition curmap (t : txs) := TxCore.mapping_update V old t.
Definition rdphys (t : txs) (id : Z) : V :=
  TxCore.apply_writes V (TxCore.f_disk V s) (TxCore.t_sched V t) (TxCore.phys (curmap t) id).

Lemma curmap_get t id :
  wget (curmap t) id =
  match wget (TxCore.t_newmap V t) id with
  | Some w => Some w
  | None => if TxCore.mem id (TxCore.t_free V t) then None else wget old id
  end.
Proof.
  unfold curmap, TxCore.mapping_update. rewrite wget_app.
  destruct (wget (TxCore.t_newmap V t) id) as [w|] eqn:E; [reflexivity|].
  rewrite (wget_filter (fun id => negb (TxCore.mem id (TxCore.t_free V t)) &&
                                  match wget (TxCore.t_newmap V t) id with Some _ => false | None => true end)).
  rewrite E. destruct (TxCore.mem id (TxCore.t_free V t)); reflexivity.
Qed.

Lemma old_get_val id w : wget old id = Some w -> In w ovals /\ In id okeys.
Proof. intros H. apply wget_in in H. split; [apply (in_map snd) in H | apply (in_map fst) in H]; exact H. Qed.

(* ---------- the invariant of a running transaction ---------- *)
Record TI (t : txs) : Prop := {
  ti_fresh : exists used, fresh0 = used ++ TxCore.t_fresh V t;
  ti_nm : forall id w, wget (TxCore.t_newmap V t) id = Some w ->
            data_id id /\ ~ In id okeys /\ In id (TxCore.t_flushed V t) /\ In w fresh0 /\ ~ In w (TxCore.t_fresh V t);
  ti_nm_inj : forall id1 id2 w, wget (TxCore.t_newmap V t) id1 = Some w -> wget (TxCore.t_newmap V t) id2 = Some w -> id1 = id2;
  ti_dirty_data : forall id v, aget (TxCore.t_dirty V t) id = Some v -> data_id id;
  ti_flushed : forall id, In id (TxCore.t_flushed V t) -> exists v, aget (TxCore.t_dirty V t) id = Some v;
  ti_free : forall id, In id (TxCore.t_free V t) -> In id okeys;
  ti_flushed_old : forall id, In id (TxCore.t_flushed V t) -> In id okeys -> In id (TxCore.t_free V t);
  ti_new : forall id, In id (TxCore.t_new V t) -> ~ In id okeys /\ wget (TxCore.t_newmap V t) id = None;
  ti_ckpt : TxCore.t_ckpt V t = true -> forall id, In id okeys ->
              In id (TxCore.t_free V t) \/ exists v, aget (TxCore.t_dirty V t) id = Some v;
  ti_p1 : forall id, data_id id -> aget (TxCore.t_dirty V t) id = None -> rdphys t id = TxCore.f_read V s id;
  ti_p2 : forall id v, aget (TxCore.t_dirty V t) id = Some v -> In id (TxCore.t_flushed V t) -> rdphys t id = v }.

Lemma ti_begin : TI (TxCore.tx_begin V fresh0).
Proof.
  constructor.
  - exists []. reflexivity.
  - cbn. intros id w H. discriminate.
  - cbn. intros id1 id2 w H. discriminate.
  - cbn. intros id v H. discriminate.
  - cbn. intros id [].
  - cbn. intros id [].
  - cbn. intros id [].
  - cbn. intros id [].
  - cbn. discriminate.
  - intros id Hd _. unfold rdphys, TxCore.phys. rewrite curmap_get. cbn. reflexivity.
  - cbn. intros id v H. discriminate.
Qed.

(* the physical location of a data page (or of a flushed page) is never the target of a write to another page *)
Lemma phys_cases t id : TI t ->
  let p := TxCore.phys (curmap t) id in
  p = id \/ (exists w, wget (TxCore.t_newmap V t) id = Some w /\ p = w) \/ (In p ovals /\ wget old id = Some p).
Proof.
  intros T. cbv zeta. unfold TxCore.phys. rewrite curmap_get.
  destruct (wget (TxCore.t_newmap V t) id) as [w|] eqn:E; [right; left; exists w; split; reflexivity|].
  destruct (TxCore.mem id (TxCore.t_free V t)); [left; reflexivity|].
  destruct (wget old id) as [w|] eqn:E2; [|left; reflexivity].
  right. right. split; [apply (old_get_val id w E2) | reflexivity].
Qed.

(* after a write was appended to the schedule: reading a location that is not the target is unchanged *)
Lemma rd_snoc (d : Z -> V) ws p v q : q <> p -> TxCore.apply_writes V d (ws ++ [(p, v)]) q = TxCore.apply_writes V d ws q.
Proof. intros H. rewrite apply_snoc. replace (q =? p) with false by lia. reflexivity. Qed.

Lemma nodup_app_disj {A} (a b : list A) x : NoDup (a ++ b) -> In x a -> In x b -> False.
Proof.
  induction a as [|y a IH]; intros N Ha Hb; [destruct Ha|]. inversion N as [|? ? Hn N']; subst.
  destruct Ha as [->|Ha]; [apply Hn; apply in_or_app; right; exact Hb | exact (IH N' Ha Hb)].
Qed.
Lemma nodup_app_r {A} (a b : list A) : NoDup (a ++ b) -> NoDup b.
Proof. induction a as [|y a IH]; intros N; [exact N|]. inversion N; subst. apply IH. assumption. Qed.

(* ---------- Page.doFlush keeps the invariant ---------- *)
Lemma flush_inv t id : TI t -> TI (TxCore.do_flush V s t id).
Proof.
  intros T. unfold TxCore.do_flush.
  destruct (aget (TxCore.t_dirty V t) id) as [v|] eqn:Ed; [|exact T].
  destruct (TxCore.mem id (TxCore.t_flushed V t)) eqn:Ef; [exact T|].
  apply mem_false in Ef.
  pose proof (ti_dirty_data t T id v Ed) as [Hdv Hdf].
  assert (TT0: TI t) by exact T.
  destruct T as [[used Hused] Tnm Tinj Tdd Tfl Tfr Tfo Tnew Tck Tp1 Tp2].
  assert (Hnmid: wget (TxCore.t_newmap V t) id = None).
  { destruct (wget (TxCore.t_newmap V t) id) as [w|] eqn:E; [|reflexivity]. destruct (Tnm id w E) as (_ & _ & F & _). contradiction. }
  (* a location read for page x <> id is not hit by a write to [id] *)
  assert (Hnot_id: forall x, x <> id -> TxCore.phys (curmap t) x <> id).
  { intros x Hx Hp. pose proof (phys_cases t x) as Hc.
    destruct (Hc TT0) as [H|[(w & Hw & H)|[H _]]].
    - rewrite Hp in H. congruence.
    - rewrite Hp in H. subst w. destruct (Tnm x id Hw) as (_ & _ & _ & Hin & _). contradiction.
    - rewrite Hp in H. contradiction. }
  destruct (TxCore.mem id (TxCore.t_new V t)) eqn:En.
  - (* a new page: written directly *)
    apply mem_in in En. destruct (Tnew id En) as [Hnk _].
    constructor; cbn [TxCore.t_fresh TxCore.t_newmap TxCore.t_flushed TxCore.t_dirty TxCore.t_free TxCore.t_new TxCore.t_ckpt].
    + exists used. exact Hused.
    + intros x w H. destruct (Tnm x w H) as (A & B & C & D & E). split; [exact A|]. split; [exact B|]. split; [right; exact C|]. split; [exact D | exact E].
    + exact Tinj.
    + exact Tdd.
    + intros x [<-|H]; [exists v; exact Ed | apply Tfl; exact H].
    + exact Tfr.
    + intros x [<-|H] Hk; [contradiction | apply Tfo; assumption].
    + exact Tnew.
    + exact Tck.
    + intros x Hx Hnd. unfold rdphys. cbn [TxCore.t_sched]. 
      assert (Hne: x <> id) by (intros ->; congruence).
      replace (curmap _) with (curmap t) by reflexivity.
      rewrite rd_snoc by (apply Hnot_id; exact Hne). apply (Tp1 x Hx Hnd).
    + intros x v' Hd [<-|Hf].
      * unfold rdphys. cbn [TxCore.t_sched]. replace (curmap _) with (curmap t) by reflexivity.
        assert (Hp: TxCore.phys (curmap t) id = id).
        { unfold TxCore.phys. rewrite curmap_get, Hnmid.
          destruct (TxCore.mem id (TxCore.t_free V t)); [reflexivity|].
          destruct (wget old id) as [w|] eqn:E; [|reflexivity]. destruct (old_get_val id w E) as [_ K]. contradiction. }
        rewrite Hp, apply_snoc, Z.eqb_refl. congruence.
      * unfold rdphys. cbn [TxCore.t_sched]. replace (curmap _) with (curmap t) by reflexivity.
        assert (Hne: x <> id) by (intros ->; contradiction).
        rewrite rd_snoc by (apply Hnot_id; exact Hne). apply (Tp2 x v' Hd Hf).
  - apply mem_false in En.
    destruct (wget old id) as [w0|] eqn:Eo.
    + (* already in the WAL: in place, released *)
      destruct (old_get_val id w0 Eo) as [Hw0 Hk].
      assert (Hcm: forall x, x <> id -> wget (TxCore.mapping_update V old
                 {| TxCore.t_dirty := TxCore.t_dirty V t; TxCore.t_flushed := id :: TxCore.t_flushed V t; TxCore.t_new := TxCore.t_new V t;
                    TxCore.t_free := id :: TxCore.t_free V t; TxCore.t_newmap := wdel (TxCore.t_newmap V t) id;
                    TxCore.t_sched := TxCore.t_sched V t ++ [(id, v)]; TxCore.t_fresh := TxCore.t_fresh V t; TxCore.t_ckpt := TxCore.t_ckpt V t |}) x
                 = wget (curmap t) x).
      { intros x Hx. fold (curmap {| TxCore.t_dirty := TxCore.t_dirty V t; TxCore.t_flushed := id :: TxCore.t_flushed V t; TxCore.t_new := TxCore.t_new V t;
                    TxCore.t_free := id :: TxCore.t_free V t; TxCore.t_newmap := wdel (TxCore.t_newmap V t) id;
                    TxCore.t_sched := TxCore.t_sched V t ++ [(id, v)]; TxCore.t_fresh := TxCore.t_fresh V t; TxCore.t_ckpt := TxCore.t_ckpt V t |}).
        rewrite !curmap_get. cbn [TxCore.t_newmap TxCore.t_free].
        rewrite wget_wdel_other by exact Hx. unfold TxCore.mem. cbn [existsb]. replace (x =? id) with false by lia. reflexivity. }
      constructor; cbn [TxCore.t_fresh TxCore.t_newmap TxCore.t_flushed TxCore.t_dirty TxCore.t_free TxCore.t_new TxCore.t_ckpt].
      * exists used. exact Hused.
      * intros x w H. destruct (Z.eq_dec x id) as [->|Hx]; [rewrite wget_wdel_same in H; discriminate|].
        rewrite wget_wdel_other in H by exact Hx. destruct (Tnm x w H) as (A & B & C & D & E). split; [exact A|]. split; [exact B|]. split; [right; exact C|]. split; [exact D | exact E].
      * intros x1 x2 w H1 H2.
        destruct (Z.eq_dec x1 id) as [->|Hx1]; [rewrite wget_wdel_same in H1; discriminate|].
        destruct (Z.eq_dec x2 id) as [->|Hx2]; [rewrite wget_wdel_same in H2; discriminate|].
        rewrite wget_wdel_other in H1, H2 by assumption. eapply Tinj; eauto.
      * exact Tdd.
      * intros x [<-|H]; [exists v; exact Ed | apply Tfl; exact H].
      * intros x [<-|H]; [exact Hk | apply Tfr; exact H].
      * intros x [<-|H] Hkx; [left; reflexivity | right; apply Tfo; assumption].
      * intros x H. destruct (Tnew x H) as [A B]. split; [exact A|].
        destruct (Z.eq_dec x id) as [->|Hx]; [apply wget_wdel_same | rewrite wget_wdel_other by exact Hx; exact B].
      * intros Hc x Hkx. destruct (Tck Hc x Hkx) as [H|H]; [left; right; exact H | right; exact H].
      * intros x Hx Hnd. unfold rdphys, TxCore.phys, curmap. cbn [TxCore.t_sched].
        assert (Hne: x <> id) by (intros ->; congruence).
        rewrite (Hcm x Hne). fold (TxCore.phys (curmap t) x).
        rewrite rd_snoc by (apply Hnot_id; exact Hne). apply (Tp1 x Hx Hnd).
      * intros x v' Hd [<-|Hf].
        -- unfold rdphys, TxCore.phys. rewrite curmap_get. cbn [TxCore.t_sched TxCore.t_newmap TxCore.t_free].
           rewrite wget_wdel_same. unfold TxCore.mem. cbn [existsb]. rewrite Z.eqb_refl. cbn [orb].
           rewrite apply_snoc, Z.eqb_refl. congruence.
        -- unfold rdphys, TxCore.phys, curmap. cbn [TxCore.t_sched].
           assert (Hne: x <> id) by (intros ->; contradiction).
           rewrite (Hcm x Hne). fold (TxCore.phys (curmap t) x).
           rewrite rd_snoc by (apply Hnot_id; exact Hne). apply (Tp2 x v' Hd Hf).
    + (* not in the WAL: a fresh overwrite page *)
      destruct (TxCore.t_fresh V t) as [|w fr] eqn:Efr.
      { exact TT0. }
      assert (Hwf0: In w fresh0) by (rewrite Hused; apply in_or_app; right; left; reflexivity).
      assert (Nf: NoDup fresh0) by (apply (nodup_app_r ovals); apply (wf_vals wf)).
      assert (Hwfr: ~ In w fr /\ ~ In w used).
      { rewrite Hused in Nf. split.
        - apply nodup_app_r in Nf. inversion Nf; assumption.
        - intros X. apply (nodup_app_disj used (w :: fr) w Nf X). left. reflexivity. }
      assert (Hwov: ~ In w ovals) by (intros X; exact (nodup_app_disj _ _ w (wf_vals wf) X Hwf0)).
      assert (Hknot: ~ In id okeys) by (apply wget_none_keys; exact Eo).
      assert (Hnot_w: forall x, data_id x \/ In x (TxCore.t_flushed V t) -> x <> id -> TxCore.phys (curmap t) x <> w).
      { intros x Hxd Hx Hp. pose proof (phys_cases t x) as Hc.
        destruct (Hc TT0) as [H|[(w' & Hw' & H)|[H _]]].
        - rewrite Hp in H. subst x. destruct Hxd as [[_ A]|A]; [contradiction|].
          destruct (Tfl w A) as (vv & Hvv). destruct (Tdd w vv Hvv) as [_ B]. contradiction.
        - rewrite Hp in H. subst w'. destruct (Tnm x w Hw') as (_ & _ & _ & _ & E). apply E. left. reflexivity.
        - rewrite Hp in H. contradiction. }
      assert (Hcm: forall x, x <> id -> wget (curmap
                 {| TxCore.t_dirty := TxCore.t_dirty V t; TxCore.t_flushed := id :: TxCore.t_flushed V t; TxCore.t_new := TxCore.t_new V t;
                    TxCore.t_free := TxCore.t_free V t; TxCore.t_newmap := wset (TxCore.t_newmap V t) id w;
                    TxCore.t_sched := TxCore.t_sched V t ++ [(w, v)]; TxCore.t_fresh := fr; TxCore.t_ckpt := TxCore.t_ckpt V t |}) x
                 = wget (curmap t) x).
      { intros x Hx. rewrite !curmap_get. cbn [TxCore.t_newmap TxCore.t_free]. rewrite wget_wset. replace (id =? x) with false by lia. reflexivity. }
      constructor; cbn [TxCore.t_fresh TxCore.t_newmap TxCore.t_flushed TxCore.t_dirty TxCore.t_free TxCore.t_new TxCore.t_ckpt].
      * exists (used ++ [w]). rewrite <- app_assoc. exact Hused.
      * intros x w' H. rewrite wget_wset in H. destruct (id =? x) eqn:E.
        -- assert (x = id) by lia. subst x. injection H as <-. split; [split; assumption|]. split; [exact Hknot|]. split; [left; reflexivity|]. split; [exact Hwf0 | apply Hwfr].
        -- destruct (Tnm x w' H) as (A & B & C & D & E'). split; [exact A|]. split; [exact B|]. split; [right; exact C|]. split; [exact D|].
           intros X. apply E'. right. exact X.
      * intros x1 x2 w' H1 H2. rewrite wget_wset in H1, H2.
        destruct (id =? x1) eqn:E1; destruct (id =? x2) eqn:E2; try lia.
        -- injection H1 as <-. destruct (Tnm x2 w H2) as (_ & _ & _ & _ & E'). exfalso. apply E'. left. reflexivity.
        -- injection H2 as <-. destruct (Tnm x1 w H1) as (_ & _ & _ & _ & E'). exfalso. apply E'. left. reflexivity.
        -- eapply Tinj; eauto.
      * exact Tdd.
      * intros x [<-|H]; [exists v; exact Ed | apply Tfl; exact H].
      * exact Tfr.
      * intros x [<-|H] Hkx; [contradiction | apply Tfo; assumption].
      * intros x H. destruct (Tnew x H) as [A B]. split; [exact A|]. rewrite wget_wset.
        destruct (id =? x) eqn:E; [assert (x = id) by lia; subst; contradiction | exact B].
      * exact Tck.
      * intros x Hx Hnd. unfold rdphys, TxCore.phys. cbn [TxCore.t_sched].
        assert (Hne: x <> id) by (intros ->; congruence).
        rewrite (Hcm x Hne). fold (TxCore.phys (curmap t) x).
        rewrite rd_snoc by (apply Hnot_w; [left; exact Hx | exact Hne]). apply (Tp1 x Hx Hnd).
      * intros x v' Hd [<-|Hf].
        -- unfold rdphys, TxCore.phys. rewrite curmap_get. cbn [TxCore.t_sched TxCore.t_newmap TxCore.t_free].
           rewrite wget_wset, Z.eqb_refl, apply_snoc, Z.eqb_refl. congruence.
        -- unfold rdphys, TxCore.phys. cbn [TxCore.t_sched].
           assert (Hne: x <> id) by (intros ->; contradiction).
           rewrite (Hcm x Hne). fold (TxCore.phys (curmap t) x).
           rewrite rd_snoc by (apply Hnot_w; [right; exact Hf | exact Hne]). apply (Tp2 x v' Hd Hf).
Qed.

Lemma flush_all_inv t : TI t -> TI (TxCore.flush_all V s t).
Proof.
  unfold TxCore.flush_all. generalize (TxCore.t_dirty V t) at 1. intros l. revert t.
  induction l as [|[id v] l IH]; intros t T; cbn [fold_left]; [exact T|]. apply IH. apply flush_inv. exact T.
Qed.

(* ---------- SetBytes / Alloc ---------- *)
Lemma set_inv t id v : TI t -> data_id id -> TI (TxCore.tx_step V s t (TxCore.OSet V id v)).
Proof.
  intros T Hd. cbn [TxCore.tx_step]. destruct (TxCore.mem id (TxCore.t_flushed V t)) eqn:Ef; [exact T|].
  apply mem_false in Ef.
  destruct T as [Tused Tnm Tinj Tdd Tfl Tfr Tfo Tnew Tck Tp1 Tp2].
  assert (Hag: forall x, x <> id -> aget ((id, v) :: adel (TxCore.t_dirty V t) id) x = aget (TxCore.t_dirty V t) x).
  { intros x Hx. cbn [TxCore.aget]. replace (id =? x) with false by lia. apply aget_adel_other. exact Hx. }
  assert (Hid: aget ((id, v) :: adel (TxCore.t_dirty V t) id) id = Some v) by (cbn [TxCore.aget]; rewrite Z.eqb_refl; reflexivity).
  constructor; cbn [TxCore.t_fresh TxCore.t_newmap TxCore.t_flushed TxCore.t_dirty TxCore.t_free TxCore.t_new TxCore.t_ckpt]; try assumption.
  - intros x v' H. destruct (Z.eq_dec x id) as [->|Hx]; [exact Hd | rewrite Hag in H by exact Hx; eapply Tdd; eauto].
  - intros x H. assert (Hx: x <> id) by (intros ->; contradiction). rewrite Hag by exact Hx. apply Tfl. exact H.
  - intros Hc x Hk. destruct (Tck Hc x Hk) as [H|[v' H]]; [left; exact H|]. right.
    destruct (Z.eq_dec x id) as [->|Hx]; [exists v; exact Hid | exists v'; rewrite Hag by exact Hx; exact H].
  - intros x Hx Hn. assert (Hne: x <> id) by (intros ->; congruence). rewrite Hag in Hn by exact Hne. exact (Tp1 x Hx Hn).
  - intros x v' H Hf. assert (Hne: x <> id) by (intros ->; contradiction). rewrite Hag in H by exact Hne. exact (Tp2 x v' H Hf).
Qed.

Lemma alloc_inv t id : TI t -> ~ In id okeys -> aget (TxCore.t_dirty V t) id = None ->
  TI (TxCore.tx_step V s t (TxCore.OAlloc V id)).
Proof.
  intros T Hk Hnd. cbn [TxCore.tx_step].
  destruct T as [Tused Tnm Tinj Tdd Tfl Tfr Tfo Tnew Tck Tp1 Tp2].
  constructor; cbn [TxCore.t_fresh TxCore.t_newmap TxCore.t_flushed TxCore.t_dirty TxCore.t_free TxCore.t_new TxCore.t_ckpt]; try assumption.
  intros x [<-|H]; [|apply Tnew; exact H]. split; [exact Hk|].
  destruct (wget (TxCore.t_newmap V t) id) as [w|] eqn:E; [|reflexivity].
  destruct (Tnm id w E) as (_ & _ & F & _). destruct (Tfl id F) as (v & Hv). congruence.
Qed.

(* ---------- Tx.doCheckpointWAL ---------- *)
Lemma fold_wdel_noop : forall (ents : TxCore.wmap) m,
  (forall id w, In (id, w) ents -> wget m id = None) ->
  forall x, wget (fold_left (fun m '(id, _) => wdel m id) ents m) x = wget m x.
Proof.
  induction ents as [|[id w] ents IH]; intros m H x; cbn [fold_left]; [reflexivity|].
  assert (Hstep: forall y, wget (wdel m id) y = wget m y).
  { intros y. destruct (Z.eq_dec y id) as [->|Hy]; [rewrite wget_wdel_same; symmetry; apply (H id w); left; reflexivity | apply wget_wdel_other; exact Hy]. }
  rewrite IH; [apply Hstep|]. intros id' w' Hin. rewrite Hstep. apply (H id' w'). right. exact Hin.
Qed.

Lemma wget_of_in (m : TxCore.wmap) id w : NoDup (map fst m) -> In (id, w) m -> wget m id = Some w.
Proof.
  induction m as [|[k w0] m IH]; intros N H; [destruct H|]. cbn in N. inversion N as [|? ? Hn N']; subst. cbn.
  destruct H as [H|H].
  - injection H as -> ->. rewrite Z.eqb_refl. reflexivity.
  - destruct (k =? id) eqn:E; [exfalso; assert (k = id) by lia; subst; apply Hn; apply (in_map fst) in H; exact H | apply IH; assumption].
Qed.

Lemma copies_last (d : Z -> V) (f : Z -> V) : forall (ents : TxCore.wmap) ws x w,
  NoDup (map fst ents) -> In (x, w) ents ->
  TxCore.apply_writes V d (ws ++ map (fun '(id, w) => (id, f w)) ents) x = f w.
Proof.
  induction ents as [|[k w0] ents IH]; intros ws x w N H; [destruct H|].
  cbn in N. inversion N as [|? ? Hn N']; subst. cbn [map].
  replace (ws ++ (k, f w0) :: map (fun '(id, w1) => (id, f w1)) ents)
    with ((ws ++ [(k, f w0)]) ++ map (fun '(id, w1) => (id, f w1)) ents) by (rewrite <- app_assoc; reflexivity).
  destruct H as [H|H].
  - injection H as -> ->. rewrite apply_app_untouched.
    + rewrite apply_snoc, Z.eqb_refl. reflexivity.
    + rewrite map_map. intros X. apply Hn. apply in_map_iff in X as ([a b] & E & Hin). cbn in E. subst a.
      apply (in_map fst) in Hin. exact Hin.
  - apply IH; assumption.
Qed.

Lemma filter_keys_nodup (f : Z * Z -> bool) (m : TxCore.wmap) : NoDup (map fst m) -> NoDup (map fst (filter f m)).
Proof.
  induction m as [|e m IH]; intros N; [constructor|]. cbn in N. inversion N as [|? ? Hn N']; subst. cbn [filter].
  destruct (f e); [|apply IH; exact N']. cbn [map]. constructor; [|apply IH; exact N'].
  intros X. apply Hn. apply in_map_iff in X as (e' & E & Hin). apply filter_In in Hin as [Hin _]. rewrite <- E. apply in_map. exact Hin.
Qed.

Lemma checkpoint_inv t : TI t -> TI (TxCore.do_checkpoint V s t).
Proof.
  intros T. unfold TxCore.do_checkpoint. destruct (TxCore.t_ckpt V t) eqn:Ec; [exact T|].
  set (keep := fun '((id, _) : Z * Z) => match aget (TxCore.t_dirty V t) id with Some _ => false | None => true end).
  set (ents := filter keep old).
  assert (TT0: TI t) by exact T.
  destruct T as [Tused Tnm Tinj Tdd Tfl Tfr Tfo Tnew Tck Tp1 Tp2].
  assert (Hents: forall id w, In (id, w) ents <-> In (id, w) old /\ aget (TxCore.t_dirty V t) id = None).
  { intros id w. unfold ents. rewrite filter_In. unfold keep. destruct (aget (TxCore.t_dirty V t) id); split; intros [A B]; split; congruence. }
  assert (Nents: NoDup (map fst ents)) by (apply filter_keys_nodup; apply (wf_keys wf)).
  assert (Hnm: forall x, wget (fold_left (fun m '(id, _) => wdel m id) ents (TxCore.t_newmap V t)) x = wget (TxCore.t_newmap V t) x).
  { apply fold_wdel_noop. intros id w Hin. apply Hents in Hin as [Hin _].
    destruct (wget (TxCore.t_newmap V t) id) as [w'|] eqn:E; [|reflexivity].
    destruct (Tnm id w' E) as (_ & K & _). exfalso. apply K. apply (in_map fst) in Hin. exact Hin. }
  assert (Hkeys: forall x, In x (map fst ents) <-> In x okeys /\ aget (TxCore.t_dirty V t) x = None).
  { intros x. split.
    - intros H. apply in_map_iff in H as ([a b] & E & Hin). cbn in E. subst a. apply Hents in Hin as [A B]. split; [apply (in_map fst) in A; exact A | exact B].
    - intros [A B]. apply in_map_iff in A as ([a b] & E & Hin). cbn in E. subst a. apply in_map_iff. exists (x, b). split; [reflexivity | apply Hents; split; assumption]. }
  set (t' := {| TxCore.t_dirty := TxCore.t_dirty V t; TxCore.t_flushed := TxCore.t_flushed V t; TxCore.t_new := TxCore.t_new V t;
               TxCore.t_free := map fst ents ++ TxCore.t_free V t;
               TxCore.t_newmap := fold_left (fun m '(id, _) => wdel m id) ents (TxCore.t_newmap V t);
               TxCore.t_sched := TxCore.t_sched V t ++ map (fun '(id, w) => (id, TxCore.f_disk V s w)) ents;
               TxCore.t_fresh := TxCore.t_fresh V t; TxCore.t_ckpt := true |}).
  assert (Hcm: forall x, wget (curmap t') x =
                match wget (TxCore.t_newmap V t) x with Some w => Some w
                | None => if TxCore.mem x (map fst ents) || TxCore.mem x (TxCore.t_free V t) then None else wget old x end).
  { intros x. rewrite curmap_get. unfold t'. cbn [TxCore.t_newmap TxCore.t_free]. rewrite Hnm.
    destruct (wget (TxCore.t_newmap V t) x); [reflexivity|]. unfold TxCore.mem. rewrite existsb_app. reflexivity. }
  assert (Htargets: forall p, In p (map fst (map (fun '(id, w) => (id, TxCore.f_disk V s w)) ents)) -> In p (map fst ents)).
  { intros p H. rewrite map_map in H. apply in_map_iff in H as ([a b] & E & Hin). cbn in E. subst a. apply (in_map fst) in Hin. exact Hin. }
  constructor; fold t'; cbn [TxCore.t_fresh TxCore.t_newmap TxCore.t_flushed TxCore.t_dirty TxCore.t_free TxCore.t_new TxCore.t_ckpt t'].
  - exact Tused.
  - intros x w H. rewrite Hnm in H. exact (Tnm x w H).
  - intros x1 x2 w H1 H2. rewrite Hnm in H1, H2. eapply Tinj; eauto.
  - exact Tdd.
  - exact Tfl.
  - intros x H. apply in_app_or in H as [H|H]; [apply Hkeys in H; tauto | apply Tfr; exact H].
  - intros x H Hk. apply in_or_app. right. apply Tfo; assumption.
  - intros x H. destruct (Tnew x H) as [A B]. split; [exact A | rewrite Hnm; exact B].
  - intros _ x Hk. destruct (aget (TxCore.t_dirty V t) x) as [v|] eqn:E; [right; exists v; reflexivity|].
    left. apply in_or_app. left. apply Hkeys. split; assumption.
  - (* pages the transaction did not write *)
    intros x Hx Hnd. unfold rdphys, TxCore.phys. rewrite Hcm. unfold t'. cbn [TxCore.t_sched].
    assert (Hnmx: wget (TxCore.t_newmap V t) x = None).
    { destruct (wget (TxCore.t_newmap V t) x) as [w|] eqn:E; [|reflexivity].
      destruct (Tnm x w E) as (_ & _ & F & _). destruct (Tfl x F) as (v & Hv). congruence. }
    rewrite Hnmx.
    destruct (TxCore.mem x (map fst ents)) eqn:Em.
    + (* copied back by this checkpoint *)
      cbn [orb]. apply mem_in in Em. apply in_map_iff in Em as ([a w] & E & Hin). cbn in E. subst a.
      rewrite (copies_last _ (TxCore.f_disk V s) ents _ x w Nents Hin).
      unfold TxCore.f_read, TxCore.phys. apply Hents in Hin as [Hin _]. rewrite (wget_of_in old x w (wf_keys wf) Hin). reflexivity.
    + cbn [orb]. apply mem_false in Em.
      assert (Hnk: ~ In x okeys) by (intros K; apply Em; apply Hkeys; split; assumption).
      assert (Hox: wget old x = None) by (apply wget_none_keys; exact Hnk).
      rewrite Hox. replace (if TxCore.mem x (TxCore.t_free V t) then None else None) with (@None Z) by (destruct (TxCore.mem x (TxCore.t_free V t)); reflexivity).
      rewrite apply_app_untouched by (intros X; apply Em; apply Htargets; exact X).
      pose proof (Tp1 x Hx Hnd) as H. unfold rdphys, TxCore.phys in H. rewrite curmap_get, Hnmx, Hox in H.
      replace (if TxCore.mem x (TxCore.t_free V t) then None else None) with (@None Z) in H by (destruct (TxCore.mem x (TxCore.t_free V t)); reflexivity).
      exact H.
  - (* pages it wrote and flushed *)
    intros x v Hd Hf. unfold rdphys. unfold t' at 1. cbn [TxCore.t_sched].
    assert (Hnx: ~ In x (map fst ents)) by (intros X; apply Hkeys in X as [_ X]; congruence).
    assert (Hphys: TxCore.phys (curmap t') x = TxCore.phys (curmap t) x).
    { unfold TxCore.phys. rewrite Hcm, curmap_get. apply mem_false in Hnx. rewrite Hnx. reflexivity. }
    rewrite Hphys.
    rewrite apply_app_untouched; [exact (Tp2 x v Hd Hf)|].
    intros X. apply Htargets in X. apply Hkeys in X as [Xk Xd].
    pose proof (phys_cases t x TT0) as Hc. cbv zeta in Hc.
    destruct Hc as [H|[(w & Hw & H)|[H _]]].
    + rewrite H in Xd. congruence.
    + rewrite H in Xk. destruct (Tnm x w Hw) as (_ & _ & _ & Hin & _). destruct (wf_disj wf w Xk) as [_ K]. contradiction.
    + destruct (wf_disj wf _ Xk) as [K _]. contradiction.
Qed.

(* ---------- whole transactions ---------- *)
Definition op_ok (t : txs) (o : TxCore.top V) : Prop :=
  match o with
  | TxCore.OAlloc _ id => ~ In id okeys /\ aget (TxCore.t_dirty V t) id = None   (* a page the allocator just handed out *)
  | TxCore.OSet _ id _ => data_id id                                            (* user pages are never overwrite pages *)
  | _ => True
  end.
Fixpoint ops_ok (t : txs) (ops : list (TxCore.top V)) : Prop :=
  match ops with
  | [] => True
  | o :: r => op_ok t o /\ ops_ok (TxCore.tx_step V s t o) r
  end.

Lemma step_inv t o : TI t -> op_ok t o -> TI (TxCore.tx_step V s t o).
Proof.
  intros T H. destruct o as [id|id v|id| |].
  - destruct H as [A B]. apply alloc_inv; assumption.
  - apply set_inv; assumption.
  - apply flush_inv. exact T.
  - apply flush_all_inv. exact T.
  - apply checkpoint_inv. exact T.
Qed.

Lemma run_inv : forall ops t, TI t -> ops_ok t ops -> TI (TxCore.tx_run V s t ops).
Proof.
  unfold TxCore.tx_run. induction ops as [|o ops IH]; intros t T H; cbn [fold_left]; [exact T|].
  destruct H as [H1 H2]. apply IH; [apply step_inv; assumption | exact H2].
Qed.

Lemma flush_dirty t id : TxCore.t_dirty V (TxCore.do_flush V s t id) = TxCore.t_dirty V t.
Proof.
  unfold TxCore.do_flush. destruct (aget (TxCore.t_dirty V t) id); [|reflexivity].
  destruct (TxCore.mem id (TxCore.t_flushed V t)); [reflexivity|].
  destruct (TxCore.mem id (TxCore.t_new V t)); [reflexivity|].
  destruct (wget old id); [reflexivity|]. destruct (TxCore.t_fresh V t); reflexivity.
Qed.
Lemma flush_all_dirty t : TxCore.t_dirty V (TxCore.flush_all V s t) = TxCore.t_dirty V t.
Proof.
  unfold TxCore.flush_all. generalize (TxCore.t_dirty V t) at 1. intros l. revert t.
  induction l as [|[id v] l IH]; intros t; cbn [fold_left]; [reflexivity|]. rewrite IH. apply flush_dirty.
Qed.
Lemma checkpoint_dirty_flushed t :
  TxCore.t_dirty V (TxCore.do_checkpoint V s t) = TxCore.t_dirty V t /\
  TxCore.t_flushed V (TxCore.do_checkpoint V s t) = TxCore.t_flushed V t /\
  TxCore.t_ckpt V (TxCore.do_checkpoint V s t) = true.
Proof. unfold TxCore.do_checkpoint. destruct (TxCore.t_ckpt V t) eqn:E; [repeat split; exact E | repeat split]. Qed.

(* For EVERY sequence of page allocations, page writes, page flushes, transaction flushes and manual checkpoints,
   every overwrite-page limit: after the commit (whose own flush found enough overwrite pages) every page reads
   as the last value the transaction wrote to it, and every page it did not write reads as before. The reads go
   through the new mapping to the bytes the writer leaves on disk when it executes the scheduled writes in
   schedule order. *)
Theorem commit_reads ops limit :
  ops_ok (TxCore.tx_begin V fresh0) ops ->
  let t := TxCore.tx_run V s (TxCore.tx_begin V fresh0) ops in
  let t1 := TxCore.flush_all V s t in
  (forall id v, aget (TxCore.t_dirty V t1) id = Some v -> In id (TxCore.t_flushed V t1)) ->
  forall id, data_id id ->
  TxCore.f_read V (TxCore.tx_commit V s t limit) id =
  match aget (TxCore.t_dirty V t) id with Some v => v | None => TxCore.f_read V s id end.
Proof.
  intros Hok t t1 Hall id Hid.
  assert (T: TI t) by (apply run_inv; [apply ti_begin | exact Hok]).
  assert (T1: TI t1) by (apply flush_all_inv; exact T).
  assert (Hd1: TxCore.t_dirty V t1 = TxCore.t_dirty V t) by apply flush_all_dirty.
  assert (Hgoal1: rdphys t1 id = match aget (TxCore.t_dirty V t) id with Some v => v | None => TxCore.f_read V s id end).
  { rewrite <- Hd1. destruct (aget (TxCore.t_dirty V t1) id) as [v|] eqn:E.
    - apply (ti_p2 t1 T1 id v E). apply (Hall id v E).
    - apply (ti_p1 t1 T1 id Hid E). }
  unfold TxCore.tx_commit. fold t1.
  destruct (negb (TxCore.tx_updated_wal V t1)) eqn:Eu.
  - (* the mapping is unchanged *)
    rewrite <- Hgoal1. unfold TxCore.f_read, rdphys, TxCore.phys. cbn [TxCore.f_disk TxCore.f_wal].
    rewrite curmap_get. unfold TxCore.tx_updated_wal in Eu.
    destruct (TxCore.t_free V t1) eqn:Ef; [|destruct (TxCore.t_newmap V t1); discriminate].
    destruct (TxCore.t_newmap V t1) eqn:En; [|discriminate]. cbn. reflexivity.
  - destruct ((0 <? limit) && (limit <=? Z.of_nat (length (TxCore.mapping_update V old t1)))) eqn:El.
    + (* automatic checkpoint *)
      set (t2 := TxCore.do_checkpoint V s t1).
      assert (T2: TI t2) by (apply checkpoint_inv; exact T1).
      destruct (checkpoint_dirty_flushed t1) as (D2 & F2 & C2). fold t2 in D2, F2, C2.
      assert (Hgoal2: rdphys t2 id = match aget (TxCore.t_dirty V t) id with Some v => v | None => TxCore.f_read V s id end).
      { rewrite <- Hd1, <- D2. destruct (aget (TxCore.t_dirty V t2) id) as [v|] eqn:E.
        - apply (ti_p2 t2 T2 id v E). rewrite F2. apply (Hall id v). rewrite <- D2. exact E.
        - apply (ti_p1 t2 T2 id Hid E). }
      rewrite <- Hgoal2. unfold TxCore.f_read, rdphys, TxCore.phys. cbn [TxCore.f_disk TxCore.f_wal].
      rewrite curmap_get.
      destruct (wget (TxCore.t_newmap V t2) id) as [w|] eqn:En; [reflexivity|].
      destruct (TxCore.mem id (TxCore.t_free V t2)) eqn:Em; [reflexivity|].
      destruct (wget old id) as [w0|] eqn:Eo; [|reflexivity].
      exfalso. apply mem_false in Em. destruct (old_get_val id w0 Eo) as [_ Hk].
      destruct (ti_ckpt t2 T2 C2 id Hk) as [H|[v H]]; [exact (Em H)|].
      apply Em. apply (ti_flushed_old t2 T2 id); [|exact Hk]. rewrite F2. apply (Hall id v). rewrite <- D2. exact H.
    + rewrite <- Hgoal1. reflexivity.
Qed.

(* ---------- a transaction that does not commit ---------- *)
(* every page write it scheduled goes to a page it allocated itself, to a fresh overwrite page, or to the original
   location of a page whose committed contents live in an overwrite page: never to a location the committed
   state reads *)
Definition target_ok (t : txs) (p : Z) : Prop :=
  In p (TxCore.t_new V t) \/ In p fresh0 \/ In p okeys.

Lemma sched_targets_flush t id :
  (forall p, In p (map fst (TxCore.t_sched V t)) -> target_ok t p) ->
  (exists used, fresh0 = used ++ TxCore.t_fresh V t) ->
  (forall p, In p (map fst (TxCore.t_sched V (TxCore.do_flush V s t id))) -> target_ok (TxCore.do_flush V s t id) p) /\
  (exists used, fresh0 = used ++ TxCore.t_fresh V (TxCore.do_flush V s t id)) /\
  TxCore.t_new V (TxCore.do_flush V s t id) = TxCore.t_new V t.
Proof.
  intros H [used Hu]. unfold TxCore.do_flush.
  destruct (aget (TxCore.t_dirty V t) id) as [v|]; [|split; [exact H | split; [exists used; exact Hu | reflexivity]]].
  destruct (TxCore.mem id (TxCore.t_flushed V t)); [split; [exact H | split; [exists used; exact Hu | reflexivity]]|].
  destruct (TxCore.mem id (TxCore.t_new V t)) eqn:En.
  - apply mem_in in En. split; [|split; [exists used; exact Hu | reflexivity]].
    cbn [TxCore.t_sched]. intros p Hp. rewrite map_app in Hp. apply in_app_or in Hp as [Hp|[<-|[]]]; [apply H; exact Hp | left; exact En].
  - destruct (wget old id) as [w0|] eqn:Eo.
    + split; [|split; [exists used; exact Hu | reflexivity]].
      cbn [TxCore.t_sched]. intros p Hp. rewrite map_app in Hp. apply in_app_or in Hp as [Hp|[<-|[]]]; [apply H; exact Hp|].
      right. right. apply (old_get_val id w0 Eo).
    + destruct (TxCore.t_fresh V t) as [|w fr] eqn:Ef; [split; [exact H | split; [exists used; rewrite Ef; exact Hu | reflexivity]]|].
      split; [|split; [exists (used ++ [w]); rewrite <- app_assoc; exact Hu | reflexivity]].
      cbn [TxCore.t_sched]. intros p Hp. rewrite map_app in Hp. apply in_app_or in Hp as [Hp|[<-|[]]]; [apply H; exact Hp|].
      right. left. rewrite Hu. apply in_or_app. right. left. reflexivity.
Qed.

Lemma sched_targets_run : forall ops t,
  (forall p, In p (map fst (TxCore.t_sched V t)) -> target_ok t p) ->
  (exists used, fresh0 = used ++ TxCore.t_fresh V t) ->
  let t' := TxCore.tx_run V s t ops in
  forall p, In p (map fst (TxCore.t_sched V t')) -> target_ok t' p.
Proof.
  unfold TxCore.tx_run.
  assert (Hfa: forall (l : list (Z * V)) t, (forall p, In p (map fst (TxCore.t_sched V t)) -> target_ok t p) ->
            (exists used, fresh0 = used ++ TxCore.t_fresh V t) ->
            let t' := fold_left (fun t (e : Z * V) => let '(id, _) := e in TxCore.do_flush V s t id) l t in
            (forall p, In p (map fst (TxCore.t_sched V t')) -> target_ok t' p) /\ (exists used, fresh0 = used ++ TxCore.t_fresh V t')).
  { induction l as [|[id v] l IH]; intros t H U; cbn [fold_left]; [split; assumption|].
    destruct (sched_targets_flush t id H U) as (A & B & _). apply IH; assumption. }
  induction ops as [|o ops IH]; intros t H U; cbn [fold_left]; [exact H|].
  assert (Hstep: (forall p, In p (map fst (TxCore.t_sched V (TxCore.tx_step V s t o))) -> target_ok (TxCore.tx_step V s t o) p) /\
                 (exists used, fresh0 = used ++ TxCore.t_fresh V (TxCore.tx_step V s t o))).
  { destruct o as [id|id v|id| |]; cbn [TxCore.tx_step].
    - split; [|exact U]. cbn [TxCore.t_sched]. intros p Hp. destruct (H p Hp) as [A|[A|A]]; [left; right; exact A | right; left; exact A | right; right; exact A].
    - destruct (TxCore.mem id (TxCore.t_flushed V t)); [split; assumption|]. split; [exact H | exact U].
    - destruct (sched_targets_flush t id H U) as (A & B & _). split; assumption.
    - apply Hfa; assumption.
    - unfold TxCore.do_checkpoint. destruct (TxCore.t_ckpt V t); [split; assumption|]. split; [|exact U].
      cbn [TxCore.t_sched]. intros p Hp. rewrite map_app in Hp. apply in_app_or in Hp as [Hp|Hp]; [apply H; exact Hp|].
      right. right. rewrite map_map in Hp. apply in_map_iff in Hp as ([a b] & E & Hin). cbn in E. subst a.
      apply filter_In in Hin as [Hin _]. apply (in_map fst) in Hin. exact Hin. }
  destruct Hstep as [A B]. apply IH; assumption.
Qed.

(* Whatever an aborted transaction has already flushed (or checkpointed): a reader of the committed state sees
   every page that existed before exactly as before. *)
Theorem aborted_tx_invisible ops id :
  let t := TxCore.tx_run V s (TxCore.tx_begin V fresh0) ops in
  (forall p, In p (TxCore.t_new V t) -> ~ In p ovals) ->     (* the allocator hands out no overwrite page in use (C04) *)
  data_id id -> ~ In id (TxCore.t_new V t) ->
  TxCore.f_read V {| TxCore.f_disk := TxCore.apply_writes V (TxCore.f_disk V s) (TxCore.t_sched V t); TxCore.f_wal := old |} id
  = TxCore.f_read V s id.
Proof.
  intros t Hnew [Hv Hf] Hn. unfold TxCore.f_read. cbn [TxCore.f_disk TxCore.f_wal].
  replace (TxCore.t_sched V t) with ([] ++ TxCore.t_sched V t) by reflexivity.
  rewrite apply_app_untouched; [reflexivity|].
  intros Hp.
  assert (Ht: target_ok t (TxCore.phys old id)).
  { apply (sched_targets_run ops (TxCore.tx_begin V fresh0)); [cbn; intros p [] | exists []; reflexivity | exact Hp]. }
  unfold TxCore.phys in *. destruct (wget old id) as [w|] eqn:E.
  - destruct (old_get_val id w E) as [Hw Hk].
    destruct Ht as [A|[A|A]].
    + exact (Hnew w A Hw).
    + exact (nodup_app_disj _ _ w (wf_vals wf) Hw A).
    + destruct (wf_disj wf w A) as [K _]. exact (K Hw).
  - destruct Ht as [A|[A|A]]; [exact (Hn A) | exact (Hf A) | apply (wget_none_keys old id) in E; exact (E A)].
Qed.
End P.
