(* A commit that fails after its allocation step (fileCommitPrepare, release of the old free-list pages,
   fileCommitAlloc have run; then an I/O error) is rolled back by tx.go. Nothing of the commit preparation is
   left in the allocator: the state after the rollback is the state the transaction began with (C07: "Commit
   returning an error"). The commit preparation only performs steps a transaction can perform itself (meta
   frees, one meta allocation), so the rollback theorem for reachable transaction states applies. *)
From VF Require Import Region Freelist Alloc RegionProofs AllocProofs TxAllocProofs MetaAllocProofs HistoryProofs OverflowProofs.
From Coq Require Import Lia ZifyBool.

Lemma treach_meta_free_ids a0 p a : forall ids t, treach a0 p a t -> treach a0 p a (fold_left meta_free ids t).
Proof. induction ids as [|id ids IH]; intros t R; cbn [fold_left]; [exact R|]. apply IH. apply tr_mfree. exact R. Qed.

Lemma rollback_stats a t da df ma mf ofr tm : rollback a (tx_stats t da df ma mf 0 ofr tm) = rollback a t.
Proof. unfold rollback, tx_stats. cbn [st_ovf_alloc moveToMeta tdata tmeta]. rewrite Z.add_0_r. reflexivity. Qed.

Theorem commit_fail_exact a0 p a t extra r :
  Inv0 a0 -> treach a0 p a t -> metaTotal a < 2^28 ->
  commit_n a (if tx_updated t then meta_free_regions t (flPages a) else t) < 2^28 ->
  (forall a' t', treach a0 p a' t' -> a_end (meta a') - a_end (data a0) < 2^32) ->
  commit_fail_step a t extra = CoOk r ->
  maxPages r = maxPages a0 /\ pageSize r = pageSize a0 /\ flRoot r = flRoot a0 /\ flPages r = flPages a0 /\
  metaTotal r = metaTotal a0 /\
  a_end (meta r) = a_end (meta a0) /\ wff 2 (a_free (meta r)) /\
  (forall id, inl id (Mset r) <-> inl id (Mset a0)) /\ avail (a_free (meta r)) = avail (a_free (meta a0)) /\
  a_end (data r) = a_end (data a0) /\ wff 2 (a_free (data r)) /\
  (forall id, inl id (Dset r) <-> inl id (Dset a0)) /\ avail (a_free (data r)) = avail (a_free (data a0)).
Proof.
  intros I0 R Htot Hn Hsmall. unfold commit_fail_step.
  set (t1 := if tx_updated t then meta_free_regions t (flPages a) else t) in *.
  assert (R1: treach a0 p a t1).
  { unfold t1. destruct (tx_updated t); [|exact R]. unfold meta_free_regions. apply treach_meta_free_ids. exact R. }
  pose proof (commit_n_nonneg a t1) as Hn0.
  unfold commit_alloc. cbv zeta.
  destruct (tx_updated t || extra); cbn [negb].
  - set (n := p_count _).
    assert (Hnn: n = commit_n a t1) by reflexivity.
    destruct (0 <? n) eqn:En.
    + destruct (meta_alloc_regions a t1 n) as [[[regs a1] t1']|] eqn:Em; [|discriminate].
      cbn [andb]. destruct regs as [|r0 regs0] eqn:Eregs; [discriminate|]. rewrite <- Eregs in *.
      destruct (commit_ends _ _ _ _ _) as [[[[[ml dl] de] me] of_] df].
      intros [= <-]. rewrite rollback_stats.
      assert (Hb: 0 <= n < 2^28) by lia.
      assert (R2: treach a0 p a1 t1') by exact (tr_meta a0 p a t1 n regs a1 t1' R1 Hb Htot Em).
      exact (rollback_exact_full a0 p a1 t1' I0 R2 (Hsmall _ _ R2)).
    + cbn [andb]. destruct (commit_ends _ _ _ _ _) as [[[[[ml dl] de] me] of_] df].
      intros [= <-]. rewrite rollback_stats.
      exact (rollback_exact_full a0 p a t1 I0 R1 (Hsmall _ _ R1)).
  - intros [= <-]. exact (rollback_exact_full a0 p a t1 I0 R1 (Hsmall _ _ R1)).
Qed.

(* non-vacuity: a transaction allocates three pages (two from the free list, one from the end of the file), frees
   a committed page, and its commit fails after the free-list pages were allocated: the allocator is back at the
   state the transaction began with *)
Example commit_fail_ex :
  let a0 := ovf_ex in
  let '(regs, cnt, a1, t1) := data_alloc_regions a0 (make_tx a0 false 0) 3 in
  regs = [{| rid := 10; rcount := 2 |}; {| rid := 60; rcount := 1 |}] /\
  match data_free a1 t1 20 with
  | Some (a2, t2) => commit_fail_step a2 t2 false = CoOk a0
  | None => False
  end.
Proof. vm_compute. split; reflexivity. Qed.
