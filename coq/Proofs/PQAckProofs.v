(* What an ACK frees: exactly the pages before the page in which the last ACKed event starts. *)
From VF Require Import PQAck.
From Coq Require Import Lia.

Inductive mono : list nat -> Prop :=
| mono_nil : mono []
| mono_cons x l : (forall y, In y l -> x <= y) -> mono l -> mono (x :: l).

Lemma cnt_le_cons x l k : cnt_le (x :: l) k = (if x <=? k then 1 else 0) + cnt_le l k.
Proof. unfold cnt_le. cbn [filter]. destruct (x <=? k); reflexivity. Qed.
Lemma cnt_lt_cons x l k : cnt_lt (x :: l) k = (if x <? k then 1 else 0) + cnt_lt l k.
Proof. unfold cnt_lt. cbn [filter]. destruct (x <? k); reflexivity. Qed.

Lemma cnt_le_none l k : (forall y, In y l -> k < y) -> cnt_le l k = 0.
Proof.
  induction l as [|x l IH]; intros H; [reflexivity|]. rewrite cnt_le_cons.
  replace (x <=? k) with false by (symmetry; apply Nat.leb_gt; apply H; left; reflexivity).
  apply IH. intros y Hy. apply H. right. exact Hy.
Qed.
Lemma cnt_lt_none l k : (forall y, In y l -> k <= y) -> cnt_lt l k = 0.
Proof.
  induction l as [|x l IH]; intros H; [reflexivity|]. rewrite cnt_lt_cons.
  replace (x <? k) with false by (symmetry; apply Nat.ltb_ge; apply H; left; reflexivity).
  apply IH. intros y Hy. apply H. right. exact Hy.
Qed.

(* in a non-decreasing list the elements <= k (resp. < k) are exactly a prefix *)
Lemma cnt_le_prefix : forall l k i, mono l -> i < length l -> (nth i l 0 <= k <-> i < cnt_le l k).
Proof.
  induction l as [|x l IH]; intros k i M Hi; [cbn in Hi; lia|].
  inversion M as [|? ? Hx Ml]; subst. rewrite cnt_le_cons.
  destruct (x <=? k) eqn:E.
  - apply Nat.leb_le in E. destruct i as [|i]; cbn [nth]; [split; lia|].
    cbn in Hi. rewrite (IH k i Ml ltac:(lia)). lia.
  - apply Nat.leb_gt in E. rewrite cnt_le_none by (intros y Hy; specialize (Hx y Hy); lia).
    destruct i as [|i]; cbn [nth]; [split; lia|].
    assert (In (nth i l 0) l) by (apply nth_In; cbn in Hi; lia). specialize (Hx _ H). split; lia.
Qed.
Lemma cnt_lt_prefix : forall l k i, mono l -> i < length l -> (nth i l 0 < k <-> i < cnt_lt l k).
Proof.
  induction l as [|x l IH]; intros k i M Hi; [cbn in Hi; lia|].
  inversion M as [|? ? Hx Ml]; subst. rewrite cnt_lt_cons.
  destruct (x <? k) eqn:E.
  - apply Nat.ltb_lt in E. destruct i as [|i]; cbn [nth]; [split; lia|].
    cbn in Hi. rewrite (IH k i Ml ltac:(lia)). lia.
  - apply Nat.ltb_ge in E. rewrite cnt_lt_none by (intros y Hy; specialize (Hx y Hy); lia).
    destruct i as [|i]; cbn [nth]; [split; lia|].
    assert (In (nth i l 0) l) by (apply nth_In; cbn in Hi; lia). specialize (Hx _ H). split; lia.
Qed.

Lemma starts_in_spec ps k : starts_in ps k = true <-> In k ps.
Proof.
  unfold starts_in. rewrite existsb_exists. split.
  - intros (x & Hx & E). apply Nat.eqb_eq in E. subst. exact Hx.
  - intros H. exists k. split; [exact H | apply Nat.eqb_refl].
Qed.

Section Ack.
Variables (ps : list nat) (h T N : nat).
Hypothesis Hmono : mono ps.
Hypothesis Hrange : forall p, In p ps -> h <= p <= T.
Hypothesis HN : 1 <= N <= length ps.

Let estar := nth (N - 1) ps 0.       (* the page in which the last ACKed event starts *)

Lemma estar_in : In estar ps.
Proof. apply nth_In. lia. Qed.

Lemma keep_iff k : N <= cnt_le ps k <-> estar <= k.
Proof. unfold estar. rewrite (cnt_le_prefix ps k (N - 1) Hmono ltac:(lia)). lia. Qed.

Lemma collect_spec : forall fuel k,
  k <= estar -> T - k < fuel -> collect fuel ps T N k = (estar, false).
Proof.
  pose proof (Hrange _ estar_in) as [_ HeT].
  induction fuel as [|f IH]; intros k Hk Hf; [lia|]. cbn [collect].
  destruct (starts_in ps k) eqn:Es.
  - destruct (k =? T) eqn:Ek; cbn [orb].
    + apply Nat.eqb_eq in Ek. f_equal. lia.
    + apply Nat.eqb_neq in Ek. destruct (N <=? cnt_le ps k) eqn:El.
      * apply Nat.leb_le in El. apply keep_iff in El. f_equal. lia.
      * apply Nat.leb_gt in El. assert (~ estar <= k) by (intros X; apply keep_iff in X; lia).
        apply IH; lia.
  - assert (Hne: k <> estar).
    { intros ->. assert (starts_in ps estar = true) by (apply starts_in_spec; apply estar_in). congruence. }
    destruct (k =? T) eqn:Ek.
    + apply Nat.eqb_eq in Ek. lia.
    + apply Nat.eqb_neq in Ek. apply IH; lia.
Qed.

(* The ACK keeps the page in which the last ACKed event starts and everything after it, frees all pages before
   it, and never takes the "clean all" exit. *)
Theorem ack_pages_spec : ack_pages ps h T N = (estar, false).
Proof.
  unfold ack_pages. apply collect_spec; [|lia].
  apply (Hrange _ estar_in).
Qed.

(* no freed page holds a byte of the last ACKed event or of any event after it (an event lies in the page its
   header starts in and in later pages), and the write page is never freed *)
Corollary ack_frees_only_acked_pages :
  let kept := fst (ack_pages ps h T N) in
  h <= kept <= T /\ forall i, N - 1 <= i < length ps -> kept <= nth i ps 0.
Proof.
  rewrite ack_pages_spec. cbn [fst]. split; [apply (Hrange _ estar_in)|].
  intros i Hi. destruct (Nat.lt_ge_cases (nth i ps 0) estar) as [Hlt|]; [|assumption]. exfalso.
  (* nth i < estar would put i before N-1 *)
  assert (H1: i < cnt_le ps (nth i ps 0)) by (apply (cnt_le_prefix ps _ i Hmono); lia).
  assert (H2: ~ N - 1 < cnt_le ps (nth i ps 0)).
  { intros X. apply (cnt_le_prefix ps _ (N - 1) Hmono ltac:(lia)) in X. fold estar in X. lia. }
  lia.
Qed.

(* the walk that finds the new read position starts at the first event of the kept page; all events it skips
   start in that page (no page change between two of their headers), and it skips exactly up to event N *)
Corollary ack_skips_spec :
  let kept := fst (ack_pages ps h T N) in
  cnt_lt ps kept + ack_skips ps kept N = N /\
  forall i, cnt_lt ps kept <= i < N -> nth i ps 0 = kept.
Proof.
  rewrite ack_pages_spec. cbn [fst]. unfold ack_skips.
  assert (Hle: cnt_lt ps estar <= N - 1).
  { destruct (Nat.le_gt_cases (cnt_lt ps estar) (N - 1)) as [|Hgt]; [assumption|]. exfalso.
    apply (cnt_lt_prefix ps estar (N - 1) Hmono ltac:(lia)) in Hgt. fold estar in Hgt. lia. }
  split; [lia|].
  intros i Hi.
  assert (Hge: ~ nth i ps 0 < estar).
  { intros X. apply (cnt_lt_prefix ps estar i Hmono ltac:(lia)) in X. lia. }
  assert (Hle2: nth i ps 0 <= estar).
  { apply (cnt_le_prefix ps estar i Hmono ltac:(lia)).
    assert (N - 1 < cnt_le ps estar) by (apply (cnt_le_prefix ps estar (N - 1) Hmono ltac:(lia)); fold estar; lia). lia. }
  lia.
Qed.
End Ack.
