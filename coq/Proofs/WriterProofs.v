From VF Require Import Writer.
From Coq Require Import Lia Sorting.Permutation.

Lemma apply_msgs_app d a b : apply_msgs d (a ++ b) = apply_msgs (apply_msgs d a) b.
Proof. unfold apply_msgs. apply fold_left_app. Qed.

(* last message for page p in l, if any *)
Fixpoint last_for (p : Z) (l : list wmsg) (acc : option (list Z)) : option (list Z) :=
  match l with
  | [] => acc
  | m :: tl => last_for p tl (if p =? w_id m then Some (w_buf m) else acc)
  end.

Lemma apply_msgs_last l : forall d p, apply_msgs d l p = last_for p l (d p).
Proof.
  induction l as [|m tl IH]; intros d p; [reflexivity|].
  cbn [apply_msgs fold_left last_for]. fold (apply_msgs (disk_write d m) tl).
  rewrite IH. unfold disk_write. reflexivity.
Qed.

(* messages of page p, in order *)
Definition on_page (p : Z) (l : list wmsg) : list wmsg := filter (fun m => p =? w_id m) l.

Lemma last_for_filter p l : forall acc, last_for p l acc = last_for p (on_page p l) acc.
Proof.
  induction l as [|m tl IH]; intros acc; [reflexivity|].
  cbn [last_for on_page filter]. destruct (p =? w_id m) eqn:E.
  - cbn [last_for]. rewrite E. apply IH.
  - apply IH.
Qed.

(* the stable sort keeps the relative order of the messages of every single page *)
Lemma on_page_insert p m l : on_page p (insert_msg m l) = if p =? w_id m then m :: on_page p l else on_page p l.
Proof.
  induction l as [|x tl IH].
  - cbn. destruct (p =? w_id m); reflexivity.
  - cbn [insert_msg]. destruct (w_id m <=? w_id x) eqn:L.
    + cbn [on_page filter]. destruct (p =? w_id m); reflexivity.
    + cbn [on_page filter]. fold (on_page p (insert_msg m tl)). fold (on_page p tl).
      rewrite IH. destruct (p =? w_id m) eqn:Em, (p =? w_id x) eqn:Ex; try reflexivity.
      exfalso. lia.
Qed.

Lemma on_page_sort p l : on_page p (sort_batch l) = on_page p l.
Proof.
  induction l as [|m tl IH]; [reflexivity|].
  cbn [sort_batch fold_right]. fold (sort_batch tl). rewrite on_page_insert, IH.
  cbn [on_page filter]. destruct (p =? w_id m); reflexivity.
Qed.

(* applying a sorted batch = applying the batch in schedule order *)
Lemma apply_sorted_batch d b : forall p, apply_msgs d (sort_batch b) p = apply_msgs d b p.
Proof.
  intros p. rewrite !apply_msgs_last, (last_for_filter p (sort_batch b)), (last_for_filter p b), on_page_sort.
  reflexivity.
Qed.

Lemma apply_msgs_ext l : forall d d', (forall p, d p = d' p) -> forall p, apply_msgs d l p = apply_msgs d' l p.
Proof. intros d d' H p. rewrite !apply_msgs_last, H. reflexivity. Qed.

(* last write wins: however the queue is split into batches, the disk ends up as if all queued
   page writes had been applied one by one in the order they were scheduled *)
Theorem writer_last_write_wins bs : forall d p, run_batches d bs p = spec_disk d (concat bs) p.
Proof.
  induction bs as [|b rest IH]; intros d p; [reflexivity|].
  cbn [run_batches concat]. unfold spec_disk in *. rewrite IH, apply_msgs_app.
  apply apply_msgs_ext. intros q. apply apply_sorted_batch.
Qed.

(* with an UNSTABLE sort (sort.Slice, the source before the repair of D4) this is false: two
   queued writes to one page may be swapped *)
Definition unstable_example : list wmsg := [{| w_id := 5; w_buf := [1] |}; {| w_id := 5; w_buf := [2] |}].
Lemma unstable_sort_refuted :
  exists (perm : list wmsg),
    Permutation perm unstable_example /\
    (forall i j x y, nth_error perm i = Some x -> nth_error perm j = Some y -> (i <= j)%nat -> w_id x <= w_id y) /\
    apply_msgs (fun _ => None) perm 5 <> spec_disk (fun _ => None) unstable_example 5.
Proof.
  exists [{| w_id := 5; w_buf := [2] |}; {| w_id := 5; w_buf := [1] |}]. split; [|split].
  - apply perm_swap.
  - intros i j x y Hi Hj _.
    destruct i as [|[|i]], j as [|[|j]]; cbn in *; try discriminate;
      try (injection Hi as <-; injection Hj as <-; cbn; lia);
      try (destruct i; discriminate); try (destruct j; discriminate).
  - cbn. discriminate.
Qed.
