(* Extraction of the executable models to OCaml (ExtrOcamlBasic only; N/Z/positive stay inductive). *)
From VF Require Import Bytes Meta Lock.
From Coq Require Import ExtrOcamlBasic.
Extraction Language OCaml.
Set Extraction KeepSingleton.
Extraction "model.ml"
  Z.add Z.mul Z.sub Z.div Z.modulo Z.of_nat Z.to_nat Z.eqb Z.ltb Z.leb Z.quotrem
  le_encode le_decode
  lock_apply run_labels thread_step lk_idle
  valid_slot checksum_of read_valid_meta read_valid_meta_win choose decode_header encode_header.
