(* Extraction of the executable models to OCaml (ExtrOcamlBasic only; N/Z/positive stay inductive). *)
From VF Require Import Bytes Meta Lock Region Freelist Alloc PageBuf Writer WriterQueue Truncate Api OpenLock Pages Recover CrashModel Monitor PQ TxCore PQAck PQWriter Commit.
From Coq Require Import ExtrOcamlBasic.
Extraction Language OCaml.
Set Extraction KeepSingleton.
Extraction "model.ml"
  Z.add Z.mul Z.sub Z.div Z.modulo Z.of_nat Z.to_nat Z.eqb Z.ltb Z.leb Z.quotrem
  le_encode le_decode
  encode_region decode_region region_enc_size optimize merge_region_lists
  fl_alloc_regions fl_alloc_cont fl_add_region fl_add_regions fl_remove_region release_overflow
  make_tx data_alloc_regions data_alloc_cont data_free wal_alloc meta_free meta_alloc_regions meta_free_regions
  commit_step commit_fail_step grow_data_end max_pages_of rollback quota data_avail tx_updated
  page_load page_set_bytes page_modify page_mark_dirty page_bytes page_free page_flush fresh_page existing_page
  run_batches spec_disk sort_batch
  wq_init wq_schedule wq_sync wq_next
  check_truncate rollback_truncate
  tx_result tx_next page_result page_next writer_result reader_result ack_result
  open_step close_step
  tx_begin tx_run tx_commit f_wal ack_pages ack_skips
  parse_from layout starts_fromZ rd_run cur_adv aq_run aq_pending aq_contents write_position parse_position id_less
  mon_init mon_step mon_recover chase_full hdr_of image_disk
  read_freelist read_wal write_freelists write_wal recover_image protected_page wal_lookup pred_add pred_add_all
  lock_apply run_labels thread_step lk_idle
  w_init w_step commit_events
  valid_slot checksum_of read_valid_meta read_valid_meta_win choose decode_header encode_header.
