(* page.go: the per-transaction page write buffer (flags new / freed / flushed / cached / dirty). *)
From VF Require Export Bytes.

Record pflags := { f_new : bool; f_freed : bool; f_flushed : bool; f_cached : bool; f_dirty : bool }.

Record pagest := {
  pg_flags : pflags;
  pg_bytes : option (list Z);      (* p.bytes; None = nil *)
  pg_disk : list Z }.              (* what tx.access(ondiskID) returns (mmapped contents) *)

Inductive perr := EInvalidOp | EInvalidParam | ETxFinished | ETxReadOnly.
Inductive pres (A : Type) := POk (a : A) | PErr (e : perr).
Arguments POk {A}. Arguments PErr {A}.

Definition set_flags (p : pagest) (f : pflags) : pagest := {| pg_flags := f; pg_bytes := pg_bytes p; pg_disk := pg_disk p |}.
Definition fl_dirty (f : pflags) : pflags := {| f_new := f_new f; f_freed := f_freed f; f_flushed := f_flushed f; f_cached := f_cached f; f_dirty := true |}.
Definition fl_cached (f : pflags) : pflags := {| f_new := f_new f; f_freed := f_freed f; f_flushed := f_flushed f; f_cached := true; f_dirty := f_dirty f |}.
Definition fl_flushed (f : pflags) : pflags := {| f_new := f_new f; f_freed := f_freed f; f_flushed := true; f_cached := f_cached f; f_dirty := f_dirty f |}.
Definition fl_freed (f : pflags) : pflags := {| f_new := f_new f; f_freed := true; f_flushed := f_flushed f; f_cached := f_cached f; f_dirty := f_dirty f |}.

(* Page.canWrite on an active writable transaction *)
Definition can_write (p : pagest) : bool := negb (f_freed (pg_flags p)) && negb (f_flushed (pg_flags p)).

(* Page.loadBytes (with the repair of D8: a new page keeps the buffer it already has) *)
Definition load_bytes (pageSize : nat) (p : pagest) : pagest :=
  let f := pg_flags p in
  if f_cached f then p
  else if f_new f then
    {| pg_flags := fl_cached f;
       pg_bytes := match pg_bytes p with Some b => Some b | None => Some (zeros pageSize) end;
       pg_disk := pg_disk p |}
  else if f_dirty f then set_flags p (fl_cached f)
  else
    {| pg_flags := fl_cached f;
       pg_bytes := Some (match pg_bytes p with Some b => b | None => pg_disk p end);
       pg_disk := pg_disk p |}.

(* Page.Load *)
Definition page_load (pageSize : nat) (p : pagest) : pres pagest :=
  if can_write p then POk (load_bytes pageSize p) else PErr EInvalidOp.

(* Page.SetBytes *)
Definition page_set_bytes (pageSize : nat) (p : pagest) (c : list Z) : pres pagest :=
  if negb (can_write p) then PErr EInvalidOp
  else if (pageSize <? length c)%nat then PErr EInvalidParam
  else if (length c <? pageSize)%nat then
    let p1 := load_bytes pageSize p in
    let b := match pg_bytes p1 with Some b => b | None => [] end in
    POk {| pg_flags := fl_dirty (pg_flags p1); pg_bytes := Some (c ++ skipn (length c) b); pg_disk := pg_disk p1 |}
  else POk {| pg_flags := fl_dirty (pg_flags p); pg_bytes := Some c; pg_disk := pg_disk p |}.

(* in-place modification of the buffer returned by Bytes() after Load(), followed by MarkDirty *)
Definition page_modify (p : pagest) (off : nat) (c : list Z) : pres pagest :=
  if negb (can_write p) then PErr EInvalidOp
  else match pg_bytes p with
       | Some b => POk {| pg_flags := fl_dirty (pg_flags p); pg_bytes := Some (splice off c b); pg_disk := pg_disk p |}
       | None => PErr EInvalidOp
       end.

(* Page.MarkDirty (with the repair of D35: a page whose contents were never loaded has no buffer that could be written
   back; it is loaded first. Before the repair the page became dirty without a buffer and the commit wrote nothing
   into its new location: page_mark_dirty_v1) *)
Definition page_mark_dirty (pageSize : nat) (p : pagest) : pres pagest :=
  if negb (can_write p) then PErr EInvalidOp
  else
    let p1 := match pg_bytes p with None => load_bytes pageSize p | Some _ => p end in
    POk (set_flags p1 (fl_dirty (pg_flags p1))).
Definition page_mark_dirty_v1 (p : pagest) : pres pagest :=
  if negb (can_write p) then PErr EInvalidOp else POk (set_flags p (fl_dirty (pg_flags p))).

(* Page.Bytes *)
Definition page_bytes (p : pagest) : pres (list Z) :=
  match pg_bytes p with
  | Some b => POk b
  | None => if f_new (pg_flags p) then PErr EInvalidOp else POk (pg_disk p)
  end.

(* Page.Free *)
Definition page_free (p : pagest) : pres pagest :=
  if negb (can_write p) then PErr EInvalidOp
  else if f_dirty (pg_flags p) then PErr EInvalidOp
  else POk (set_flags p (fl_freed (pg_flags p))).

(* Page.Flush: (new state, bytes scheduled for writing) *)
Definition page_flush (p : pagest) : pres (pagest * option (list Z)) :=
  if negb (can_write p) then PErr EInvalidOp
  else if negb (f_dirty (pg_flags p)) then POk (p, None)
  else POk (set_flags p (fl_flushed (pg_flags p)), pg_bytes p).

(* the specification: the logical content of the page *)
Definition content (p : pagest) : list Z :=
  match pg_bytes p with Some b => b | None => pg_disk p end.

Definition fresh_page : pagest :=
  {| pg_flags := {| f_new := true; f_freed := false; f_flushed := false; f_cached := false; f_dirty := false |};
     pg_bytes := None; pg_disk := [] |}.
Definition existing_page (disk : list Z) : pagest :=
  {| pg_flags := {| f_new := false; f_freed := false; f_flushed := false; f_cached := false; f_dirty := false |};
     pg_bytes := None; pg_disk := disk |}.
