(* freelist.go: free list of an allocation area. *)
From VF Require Export Region.

Record freelist := { avail : Z; fregions : regions }.
Definition fl_empty : freelist := {| avail := 0; fregions := [] |}.

(* allocFromBeginning: regions are taken from the front; the last one is split (its first N pages) *)
Fixpoint take_front (l : regions) (N : Z) : regions * regions :=
  match l with
  | [] => ([], [])
  | r :: tl =>
      if N <=? rcount r then
        ([{| rid := rid r; rcount := N |}],
         if rcount r - N =? 0 then tl else {| rid := rid r + N; rcount := rcount r - N |} :: tl)
      else let '(a, rest) := take_front tl (N - rcount r) in (r :: a, rest)
  end.

(* allocFromEnd: regions are taken from the back; the first one used (seen from the front) is split
   (its last pages). The source walks the list backwards and accumulates counts; the same result is
   computed here from the front using the page count of the remaining suffix.
   Result: (allocated, ascending; kept list, ascending) *)
Fixpoint take_back (l : regions) (N : Z) : regions * regions :=
  match l with
  | [] => ([], [])
  | r :: tl =>
      let c := count_pages tl in
      if N <=? c then let '(a, k) := take_back tl N in (a, r :: k)
      else
        let m := N - c in   (* pages needed from the end of r *)
        ({| rid := rid r + (rcount r - m); rcount := m |} :: tl,
         if rcount r - m =? 0 then [] else [{| rid := rid r; rcount := rcount r - m |}])
  end.

(* freelist.AllocRegionsWith: nothing happens if n = 0 or n > avail *)
Definition fl_alloc_regions (fromEnd : bool) (f : freelist) (n : Z) : regions * freelist :=
  if (n =? 0) || (avail f <? n) then ([], f)
  else let '(a, rest) := if fromEnd then take_back (fregions f) n else take_front (fregions f) n in
       (a, {| avail := avail f - n; fregions := rest |}).

(* best fit: the first region in iteration order with the smallest count >= n *)
Fixpoint best_fit (l : regions) (n : Z) (idx : nat) (best : option (nat * Z)) : option (nat * Z) :=
  match l with
  | [] => best
  | r :: tl =>
      let c := rcount r in
      let bsz := match best with Some (_, s) => s | None => u32max end in
      if (n <=? c) && (c <? bsz) then
        if c =? n then Some (idx, c) else best_fit tl n (S idx) (Some (idx, c))
      else best_fit tl n (S idx) best
  end.

Fixpoint replace_nth (l : regions) (i : nat) (f : region -> option region) : regions :=
  match l, i with
  | [], _ => []
  | r :: tl, O => match f r with Some r' => r' :: tl | None => tl end
  | r :: tl, S j => r :: replace_nth tl j f
  end.

(* freelist.AllocContinuousRegion; None = empty region returned *)
Definition fl_alloc_cont (fromEnd : bool) (f : freelist) (n : Z) : option region * freelist :=
  if (avail f <? n) || ((avail f =? n) && (1 <? Z.of_nat (length (fregions f)))) || (u32max <? n) then (None, f)
  else
    let L := length (fregions f) in
    let found := if fromEnd
                 then match best_fit (rev (fregions f)) n O None with
                      | Some (j, c) => Some ((L - 1 - j)%nat, c) | None => None end
                 else best_fit (fregions f) n O None in
    match found with
    | None => (None, f)
    | Some (i, _) =>
        match nth_error (fregions f) i with
        | None => (None, f)
        | Some sel =>
            let alloc := if fromEnd then {| rid := rid sel + (rcount sel - n); rcount := n |}
                         else {| rid := rid sel; rcount := n |} in
            let rest := if fromEnd then {| rid := rid sel; rcount := rcount sel - n |}
                        else {| rid := rid sel + n; rcount := rcount sel - n |} in
            (Some alloc,
             {| avail := avail f - n;
                fregions := replace_nth (fregions f) i (fun _ => if rcount rest =? 0 then None else Some rest) |})
        end
    end.

(* freelist.AddRegion *)
Fixpoint add_region_l (l : regions) (reg : region) : regions :=
  match l with
  | [] => [reg]
  | r :: tl =>
      if rid reg <? rend r then
        (if mergeable reg r then merge reg r :: tl else reg :: r :: tl)
      else
        match tl with
        | [] => if mergeable r reg then [merge r reg] else [r; reg]
        | r2 :: tl2 =>
            if rid reg <? rend r2 then
              let mb := mergeable r reg in
              let reg1 := if mb then merge r reg else reg in
              let ma := mergeable reg1 r2 in
              match mb, ma with
              | true, true => merge reg1 r2 :: tl2
              | true, false => reg1 :: r2 :: tl2
              | false, true => r :: merge reg1 r2 :: tl2
              | false, false => r :: reg :: r2 :: tl2
              end
            else r :: add_region_l tl reg
        end
  end.
Definition fl_add_region (f : freelist) (reg : region) : freelist :=
  {| avail := avail f + rcount reg; fregions := add_region_l (fregions f) reg |}.

(* freelist.AddRegions *)
Definition fl_add_regions (f : freelist) (l : regions) : freelist :=
  let c := count_pages l in
  if 0 <? c then {| avail := avail f + c; fregions := merge_region_lists (fregions f) l |} else f.

(* freelist.RemoveRegion: remove all pages of [rs, re) from the list; returns (list, removed count) *)
Fixpoint remove_range (l : regions) (rs re : Z) : regions * Z :=
  match l with
  | [] => ([], 0)
  | cur :: tl =>
      if re <=? rs then (l, 0)
      else
        let rs1 := Z.max rs (rid cur) in
        if re <=? rs1 then (l, 0)
        else if rs1 =? rid cur then
          let c := Z.min (re - rs1) (rcount cur) in
          let cur' := {| rid := rid cur + c; rcount := rcount cur - c |} in
          let '(tl', t) := remove_range tl (rs1 + c) re in
          (if rcount cur' =? 0 then tl' else cur' :: tl', t + c)
        else
          let keep := rs1 - rid cur in
          if rcount cur <=? keep then
            (* removed range starts at or after the end of cur *)
            let '(tl', t) := remove_range tl rs1 re in (cur :: tl', t)
          else
            let lc := rcount cur - keep in
            let c := Z.min (re - rs1) lc in
            let left := {| rid := rs1 + c; rcount := lc - c |} in
            let cur' := {| rid := rid cur; rcount := keep |} in
            if 0 <? rcount left then (cur' :: left :: tl, c)
            else let '(tl', t) := remove_range tl (rs1 + c) re in (cur' :: tl', t + c)
  end.
Definition fl_remove_region (f : freelist) (reg : region) : freelist :=
  let '(l, t) := remove_range (fregions f) (rid reg) (rend reg) in
  {| avail := avail f - t; fregions := l |}.

Definition last_region (l : regions) : region := last l {| rid := 0; rcount := 0 |}.

(* releaseOverflowPages *)
Fixpoint release_rev (rl : regions) (ostart oend : Z) : regions * Z :=
  match rl with
  | [] => ([], 0)
  | r :: tl =>
      if rend r <? oend then (rl, 0)
      else if rid r <? ostart then
        ({| rid := rid r; rcount := ostart - rid r |} :: tl, rend r - ostart)
        (* the source continues the loop with overflowEnd = overflowStart; every earlier region
           ends before it unless it touches overflowStart exactly *)
      else let '(tl', t) := release_rev tl ostart (rid r) in (tl', t + rcount r)
  end.

Definition release_overflow (l : regions) (maxPages endMarker : Z) : regions * Z :=
  if (maxPages =? 0) || (endMarker <=? maxPages) then (l, 0)
  else let '(rl, t) := release_rev (rev l) maxPages endMarker in (rev rl, t).

(* freelistEncPagePrediction *)
Record prediction := { p_count : Z; p_avail : Z }.
Definition pred_add (payload : Z) (p : prediction) (r : region) : prediction :=
  let sz := region_enc_size r in
  if p_avail p <? sz then {| p_count := p_count p + 1; p_avail := payload - sz |}
  else {| p_count := p_count p; p_avail := p_avail p - sz |}.
Definition pred_add_all (payload : Z) (p : prediction) (l : regions) : prediction :=
  fold_left (pred_add payload) l p.
