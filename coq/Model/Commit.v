(* tx.go tryCommitChangesToFile / syncNewMeta: what a commit sends to the file, in order - the page writes of the
   transaction (data pages, overwrite pages, copies of a checkpoint), the pages of the new overwrite mapping and of the
   new free lists, a sync, the new header page into the inactive slot, a sync; then Commit returns. The serialisation of
   the two lists is Model/Pages.v, the header codec Model/Meta.v, the events are the ones the write-discipline monitor
   (Model/Monitor.v, hypothesis of the crash theorem) reads. *)
From VF Require Export Monitor.

Definition wev (w : Z * page) : mev := W (fst w) (Some (snd w)).

Definition commit_events (ps : Z) (slot : bool) (sched : list (Z * page))
    (walIds : list Z) (mapping : list (Z * Z)) (flIds : list Z) (metaL dataL : regions) (h : header) : option (list mev) :=
  match write_wal ps walIds mapping, write_freelists ps flIds metaL dataL with
  | Some wp, Some fp =>
      Some (map wev sched ++ map wev wp ++ map wev fp ++ [S; W (slotp slot) (Some (encode_header h)); S; CommitOk])
  | _, _ => None
  end.
