(* Linked meta pages (util.go pagingWriter, freelist.go readFreeList/writeFreeLists,
   wal.go readWAL/writeWAL): a list page = header (next u64, count u32) + entries. *)
From VF Require Export Region.

Definition page := list Z.
Definition pdisk := Z -> option page.     (* page id -> contents; None = not within the mapped file *)

Definition lp_next (pg : page) : Z := get_le (Z.to_nat off_list_next) 8 pg.
Definition lp_count (pg : page) : Z := get_le (Z.to_nat off_list_count) 4 pg.
Definition lp_payload (pg : page) : list Z := skipn (Z.to_nat listPageHeaderSize) pg.

(* ---- free-list pages ---- *)
(* n entries from the payload; None when the payload is too short (the source would panic) *)
Fixpoint decode_entries (n : nat) (payload : list Z) : option (list (bool * region)) :=
  match n with
  | O => Some []
  | S n' =>
      if (length payload <? 8)%nat then None
      else
        let '(m, r, sz) := decode_region payload in
        if (length payload <? Z.to_nat sz)%nat then None
        else match decode_entries n' (skipn (Z.to_nat sz) payload) with
             | Some es => Some ((m, r) :: es)
             | None => None
             end
  end.

(* the entry count of a page header is data: an entry takes at least 8 bytes, so a count beyond the payload
   length cannot be decoded (the source reports InvalidMetaPage; before the repair of D19 it read past the
   end of the page and panicked). The guard also keeps a garbage count out of the unary numbers. *)
Definition decode_entries_z (cnt : Z) (payload : list Z) : option (list (bool * region)) :=
  if Z.of_nat (length payload) <? cnt then None else decode_entries (Z.to_nat cnt) payload.

(* readFreeList: (page ids of the chain, entries); fuel bounds the chain length (the source detects
   cycles; both answer "error" on a cyclic chain). None = error *)
Fixpoint read_freelist (fuel : nat) (d : pdisk) (pid : Z) : option (list Z * list (bool * region)) :=
  if pid =? 0 then Some ([], [])
  else match fuel with
       | O => None
       | S f =>
           match d pid with
           | None => None
           | Some pg =>
               match decode_entries_z (lp_count pg) (lp_payload pg) with
               | None => None
               | Some es =>
                   match read_freelist f d (lp_next pg) with
                   | Some (ids, es') => Some (pid :: ids, es ++ es')
                   | None => None
                   end
               end
           end
       end.

(* ---- overwrite mapping pages: 14-byte entries, 7 bytes key + 7 bytes value ---- *)
Fixpoint decode_wal_entries (n : nat) (payload : list Z) : option (list (Z * Z)) :=
  match n with
  | O => Some []
  | S n' =>
      if (length payload <? 14)%nat then None
      else match decode_wal_entries n' (skipn 14 payload) with
           | Some es => Some ((get_le 0 7 payload, get_le 7 7 payload) :: es)
           | None => None
           end
  end.

Definition decode_wal_entries_z (cnt : Z) (payload : list Z) : option (list (Z * Z)) :=
  if Z.of_nat (length payload) <? cnt then None else decode_wal_entries (Z.to_nat cnt) payload.

Fixpoint read_wal (fuel : nat) (d : pdisk) (pid : Z) : option (list Z * list (Z * Z)) :=
  if pid =? 0 then Some ([], [])
  else match fuel with
       | O => None
       | S f =>
           match d pid with
           | None => None
           | Some pg =>
               match decode_wal_entries_z (lp_count pg) (lp_payload pg) with
               | None => None
               | Some es =>
                   match read_wal f d (lp_next pg) with
                   | Some (ids, es') => Some (pid :: ids, es ++ es')
                   | None => None
                   end
               end
           end
       end.

(* later entries of the mapping win (Go map assignment) *)
Fixpoint wal_lookup (m : list (Z * Z)) (id : Z) : Z :=
  match m with
  | [] => 0
  | (k, v) :: rest => let r := wal_lookup rest id in if (k =? id) && (r =? 0) then v else r
  end.

(* ---- the paging writer ---- *)
(* fill pages of [payloadSize] bytes with the entries in order; an entry never straddles two pages.
   result: per page the list of entries placed in it *)
Fixpoint fill_pages (payloadSize : Z) (entries : list (list Z)) (cur : list (list Z)) (used : Z) : list (list (list Z)) :=
  match entries with
  | [] => [rev cur]
  | e :: rest =>
      let l := Z.of_nat (length e) in
      if payloadSize - used <? l then rev cur :: fill_pages payloadSize rest [e] l
      else fill_pages payloadSize rest (e :: cur) (used + l)
  end.

Definition make_page (pageSize : Z) (next : Z) (es : list (list Z)) : page :=
  let body := le_encode 8 next ++ le_encode 4 (Z.of_nat (length es)) ++ concat es in
  body ++ zeros (Z.to_nat pageSize - length body).

(* pages are pre-linked: every page but the last names its successor, also pages that stay empty;
   None = "Not enough pages pre-allocated" *)
Fixpoint link_pages (pageSize : Z) (ids : list Z) (groups : list (list (list Z))) : option (list (Z * page)) :=
  match ids with
  | [] => match groups with [] => Some [] | [[]] => Some [] | _ => None end
  | id :: ids' =>
      let next := match ids' with [] => 0 | n :: _ => n end in
      let '(g, gs) := match groups with [] => ([], []) | g :: gs => (g, gs) end in
      match link_pages pageSize ids' gs with
      | Some rest => Some ((id, make_page pageSize next g) :: rest)
      | None => None
      end
  end.

Definition write_list (pageSize : Z) (ids : list Z) (entries : list (list Z)) : option (list (Z * page)) :=
  match ids with
  | [] => Some []      (* newPagingWriter returns nil: nothing is written *)
  | _ => link_pages pageSize ids (fill_pages (pageSize - listPageHeaderSize) entries [] 0)
  end.

Definition write_freelists (pageSize : Z) (ids : list Z) (metaList dataList : regions) : option (list (Z * page)) :=
  write_list pageSize ids (map (encode_region true) metaList ++ map (encode_region false) dataList).

Definition wal_entry (kv : Z * Z) : list Z := le_encode 7 (fst kv) ++ le_encode 7 (snd kv).
Definition write_wal (pageSize : Z) (ids : list Z) (mapping : list (Z * Z)) : option (list (Z * page)) :=
  write_list pageSize ids (map wal_entry mapping).
