(* tx.go / page.go / wal.go: how the pages written by a transaction reach the file. The committed state is
   the disk plus the overwrite mapping (original page id -> overwrite page); a transaction flushes dirty pages
   (into a fresh overwrite page, in place when the page already has an overwrite page, or directly when the
   page is new), may copy overwrite pages back (checkpoint), and publishes a new mapping at commit. All page
   writes go through the writer in schedule order (per page id the last scheduled write wins: Model/Writer.v). *)
From Coq Require Export ZArith List Bool.
Export ListNotations.
Open Scope Z_scope.

Section TxCore.
Variable V : Type.                         (* page contents *)

Definition wmap := list (Z * Z).           (* association list, first match wins; keys kept distinct *)
Fixpoint wget (m : wmap) (id : Z) : option Z :=
  match m with [] => None | (k, w) :: r => if k =? id then Some w else wget r id end.
Fixpoint wdel (m : wmap) (id : Z) : wmap :=
  match m with [] => [] | (k, w) :: r => if k =? id then wdel r id else (k, w) :: wdel r id end.
Definition wset (m : wmap) (id w : Z) : wmap := (id, w) :: wdel m id.
Definition mem (id : Z) (l : list Z) : bool := existsb (Z.eqb id) l.

Fixpoint aget (m : list (Z * V)) (id : Z) : option V :=
  match m with [] => None | (k, v) :: r => if k =? id then Some v else aget r id end.
Fixpoint adel (m : list (Z * V)) (id : Z) : list (Z * V) :=
  match m with [] => [] | (k, v) :: r => if k =? id then adel r id else (k, v) :: adel r id end.

Record fstate := { f_disk : Z -> V; f_wal : wmap }.
Definition phys (m : wmap) (id : Z) : Z := match wget m id with Some w => w | None => id end.
(* what a reader of the committed state sees *)
Definition f_read (s : fstate) (id : Z) : V := f_disk s (phys (f_wal s) id).

Definition upd (d : Z -> V) (p : Z) (v : V) : Z -> V := fun q => if q =? p then v else d q.
Definition apply_writes (d : Z -> V) (ws : list (Z * V)) : Z -> V := fold_left (fun d '(p, v) => upd d p v) ws d.

Record txs := {
  t_dirty : list (Z * V);      (* pages written by the transaction: latest contents *)
  t_flushed : list Z;          (* ... already handed to the writer *)
  t_new : list Z;              (* pages allocated by the transaction *)
  t_free : list Z;             (* txWalState.free: original ids whose overwrite page is released *)
  t_newmap : wmap;             (* txWalState.new *)
  t_sched : list (Z * V);      (* page writes scheduled so far, in order *)
  t_fresh : list Z;            (* overwrite pages the wal allocator will hand out *)
  t_ckpt : bool }.             (* CheckpointWAL already executed *)

Definition tx_begin (fresh : list Z) : txs :=
  {| t_dirty := []; t_flushed := []; t_new := []; t_free := []; t_newmap := []; t_sched := [];
     t_fresh := fresh; t_ckpt := false |}.

Inductive top := OAlloc (id : Z) | OSet (id : Z) (v : V) | OFlush (id : Z) | OFlushAll | OCheckpoint.

(* Page.doFlush; the overwrite page of a page is looked up in the COMMITTED mapping (Tx.getPage) *)
Definition do_flush (s : fstate) (t : txs) (id : Z) : txs :=
  match aget (t_dirty t) id with
  | None => t
  | Some v =>
      if mem id (t_flushed t) then t
      else if mem id (t_new t) then
        {| t_dirty := t_dirty t; t_flushed := id :: t_flushed t; t_new := t_new t; t_free := t_free t;
           t_newmap := t_newmap t; t_sched := t_sched t ++ [(id, v)]; t_fresh := t_fresh t; t_ckpt := t_ckpt t |}
      else
        match wget (f_wal s) id with
        | None =>
            match t_fresh t with
            | [] => t                                    (* out of space: the flush fails, nothing happens *)
            | w :: fr =>
                {| t_dirty := t_dirty t; t_flushed := id :: t_flushed t; t_new := t_new t; t_free := t_free t;
                   t_newmap := wset (t_newmap t) id w; t_sched := t_sched t ++ [(w, v)]; t_fresh := fr; t_ckpt := t_ckpt t |}
            end
        | Some _ =>                                      (* already in the WAL: write in place, release *)
            {| t_dirty := t_dirty t; t_flushed := id :: t_flushed t; t_new := t_new t; t_free := id :: t_free t;
               t_newmap := wdel (t_newmap t) id; t_sched := t_sched t ++ [(id, v)]; t_fresh := t_fresh t; t_ckpt := t_ckpt t |}
        end
  end.

Definition flush_all (s : fstate) (t : txs) : txs :=
  fold_left (fun t '(id, _) => do_flush s t id) (t_dirty t) t.

(* Tx.doCheckpointWAL: every entry of the committed mapping whose page is not dirty is copied back *)
Definition do_checkpoint (s : fstate) (t : txs) : txs :=
  if t_ckpt t then t
  else
    let ents := filter (fun '(id, _) => match aget (t_dirty t) id with Some _ => false | None => true end) (f_wal s) in
    {| t_dirty := t_dirty t; t_flushed := t_flushed t; t_new := t_new t;
       t_free := map fst ents ++ t_free t;
       t_newmap := fold_left (fun m '(id, _) => wdel m id) ents (t_newmap t);
       t_sched := t_sched t ++ map (fun '(id, w) => (id, f_disk s w)) ents;
       t_fresh := t_fresh t; t_ckpt := true |}.

Definition tx_step (s : fstate) (t : txs) (o : top) : txs :=
  match o with
  | OAlloc id =>
      {| t_dirty := t_dirty t; t_flushed := t_flushed t; t_new := id :: t_new t; t_free := t_free t;
         t_newmap := t_newmap t; t_sched := t_sched t; t_fresh := t_fresh t; t_ckpt := t_ckpt t |}
  | OSet id v =>
      if mem id (t_flushed t) then t              (* InvalidOp: page is already flushed *)
      else {| t_dirty := (id, v) :: adel (t_dirty t) id; t_flushed := t_flushed t; t_new := t_new t; t_free := t_free t;
              t_newmap := t_newmap t; t_sched := t_sched t; t_fresh := t_fresh t; t_ckpt := t_ckpt t |}
  | OFlush id => do_flush s t id
  | OFlushAll => flush_all s t
  | OCheckpoint => do_checkpoint s t
  end.
Definition tx_run (s : fstate) (t : txs) (ops : list top) : txs := fold_left (tx_step s) ops t.

(* createMappingUpdate *)
Definition tx_updated_wal (t : txs) : bool := match t_free t, t_newmap t with [], [] => false | _, _ => true end.
Definition mapping_update (old : wmap) (t : txs) : wmap :=
  t_newmap t ++ filter (fun '(id, _) => negb (mem id (t_free t)) && match wget (t_newmap t) id with Some _ => false | None => true end) old.

(* commit: flush what is dirty, build the new mapping, checkpoint automatically at the limit, apply the writes *)
Definition tx_commit (s : fstate) (t : txs) (walLimit : Z) : fstate :=
  let t1 := flush_all s t in
  if negb (tx_updated_wal t1) then {| f_disk := apply_writes (f_disk s) (t_sched t1); f_wal := f_wal s |}
  else
    let nw := mapping_update (f_wal s) t1 in
    if (0 <? walLimit) && (walLimit <=? Z.of_nat (length nw)) then
      let t2 := do_checkpoint s t1 in
      {| f_disk := apply_writes (f_disk s) (t_sched t2); f_wal := t_newmap t2 |}
    else {| f_disk := apply_writes (f_disk s) (t_sched t1); f_wal := nw |}.
End TxCore.
