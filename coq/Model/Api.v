(* Lifecycle x method matrices of the public API (tx.go, page.go, pq): what an operation returns in
   every lifecycle state of its receiver. *)
From Coq Require Export List Bool.
Export ListNotations.

Inductive ekind := KOk
  | KInvalidOp | KInvalidPageID | KInvalidParam | KTxCommitFail | KTxRollbackFail | KTxFinished | KTxReadOnly
  | KQueueClosed | KReaderClosed | KWriterClosed | KACKEmptyQueue | KACKTooMany | KInactiveTx | KUnexpectedActiveTx.

(* ---- transactions ---- *)
Inductive txstate := TxRW | TxRO | TxDoneRW | TxDoneRO.
Inductive txmethod := MCommit | MRollback | MClose | MAlloc | MAllocN | MFlush | MCheckpoint
  | MPage | MPageOutOfBounds | MPageFreed | MRootPage.

Definition tx_can_write (s : txstate) : ekind :=
  match s with
  | TxRW => KOk
  | TxRO | TxDoneRO => KTxReadOnly      (* the read-only test comes last and wins *)
  | TxDoneRW => KTxFinished
  end.

Definition tx_result (s : txstate) (m : txmethod) : ekind :=
  match m with
  | MCommit => match s with TxDoneRW | TxDoneRO => KTxCommitFail | _ => KOk end
  | MRollback => match s with TxDoneRW | TxDoneRO => KTxRollbackFail | _ => KOk end
  | MClose => KOk
  | MAlloc | MAllocN | MFlush | MCheckpoint => tx_can_write s
  | MPage | MRootPage => match s with TxDoneRW | TxDoneRO => KTxFinished | _ => KOk end
  | MPageOutOfBounds => match s with TxDoneRW | TxDoneRO => KTxFinished | _ => KInvalidPageID end
  | MPageFreed => match s with TxDoneRW | TxDoneRO => KTxFinished | TxRW => KInvalidOp | TxRO => KOk end
  end.

(* the lifecycle after the call: only Commit / Rollback / Close of an active transaction finish it *)
Definition tx_next (s : txstate) (m : txmethod) : txstate :=
  match s, m with
  | TxRW, (MCommit | MRollback | MClose) => TxDoneRW
  | TxRO, (MCommit | MRollback | MClose) => TxDoneRO
  | _, _ => s
  end.

(* ---- pages (of a write transaction unless stated otherwise) ---- *)
Inductive pstate := PNew | PNewDirty | PClean | PDirty | PFlushed | PFreed.
Inductive pmethod := PBytes | PLoad | PSetBytes | PSetBytesOversize | PMarkDirty | PFree | PFlush.

Definition page_can_write (ts : txstate) (p : pstate) : ekind :=
  match tx_can_write ts with
  | KOk => match p with PFreed | PFlushed => KInvalidOp | _ => KOk end
  | e => e
  end.

Definition page_result (ts : txstate) (p : pstate) (m : pmethod) : ekind :=
  match m with
  | PBytes => match ts with
              | TxDoneRW | TxDoneRO => KTxFinished
              | _ => match p with PNew => KInvalidOp | _ => KOk end
              end
  | PLoad | PSetBytes | PMarkDirty | PFlush => page_can_write ts p
  | PSetBytesOversize => match page_can_write ts p with KOk => KInvalidParam | e => e end
  | PFree => match page_can_write ts p with
             | KOk => match p with PDirty | PNewDirty => KInvalidOp | _ => KOk end
             | e => e
             end
  end.

Definition page_next (ts : txstate) (p : pstate) (m : pmethod) : pstate :=
  match page_result ts p m with
  | KOk =>
      match m, p with
      | PSetBytes, PNew => PNewDirty
      | PSetBytes, PClean => PDirty
      | PMarkDirty, PNew => PNewDirty
      | PMarkDirty, PClean => PDirty
      | PFree, _ => PFreed
      | PFlush, (PDirty | PNewDirty) => PFlushed
      | _, _ => p
      end
  | _ => p
  end.

(* ---- queue ---- *)
Inductive wstate := WOpen | WClosed.
Inductive wmethod := QWrite | QNext | QFlush.
Definition writer_result (s : wstate) (m : wmethod) : ekind := match s with WOpen => KOk | WClosed => KWriterClosed end.

Inductive rstate := RIdle | RInTx | RClosed.
Inductive rmethod := QBegin | QDone | QRead | QRNext | QAvailable.
Definition reader_result (s : rstate) (m : rmethod) : ekind :=
  match m with
  | QDone => KOk
  | QBegin => match s with RClosed => KReaderClosed | RInTx => KUnexpectedActiveTx | RIdle => KOk end
  | QRead | QRNext | QAvailable => match s with RClosed => KReaderClosed | RIdle => KInactiveTx | RInTx => KOk end
  end.

(* ACK n on a queue with [pending] un-ACKed events *)
Definition ack_result (closed : bool) (empty : bool) (tooMany : bool) (zero : bool) : ekind :=
  if closed then KQueueClosed else if zero then KOk else if empty then KACKEmptyQueue else if tooMany then KACKTooMany else KOk.

(* which calls are misuse *)
Definition tx_misuse (s : txstate) (m : txmethod) : bool :=
  match tx_result s m with KOk => false | _ => true end.
