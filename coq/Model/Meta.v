(* File header (meta page) model: layout.go metaPage, file.go readValidMeta. *)
From VF Require Export Bytes Consts.

(* FNV-32a, hash/fnv New32a *)
Definition fnv_M := 2^32.
Definition fnv_prime := 16777619.
Definition fnv_offset := 2166136261.
Definition fnv_step (h b : Z) : Z := ((Z.lxor h b) * fnv_prime) mod fnv_M.
Definition fnv (l : list Z) (h : Z) : Z := fold_left fnv_step l h.

Record header := {
  h_magic : Z; h_version : Z; h_pageSize : Z; h_maxSize : Z; h_flags : Z;
  h_root : Z; h_txid : Z; h_freelist : Z; h_wal : Z;
  h_dataEnd : Z; h_metaEnd : Z; h_metaTotal : Z; h_checksum : Z }.

Definition nat_of (z : Z) : nat := Z.to_nat z.

(* decoding uses the field offsets generated from the source *)
Definition decode_header (l : list Z) : header :=
  {| h_magic := get_le (nat_of off_magic) 4 l;
     h_version := get_le (nat_of off_version) 4 l;
     h_pageSize := get_le (nat_of off_pageSize) 4 l;
     h_maxSize := get_le (nat_of off_maxSize) 8 l;
     h_flags := get_le (nat_of off_flags) 4 l;
     h_root := get_le (nat_of off_root) 8 l;
     h_txid := get_le (nat_of off_txid) 8 l;
     h_freelist := get_le (nat_of off_freelist) 8 l;
     h_wal := get_le (nat_of off_wal) 8 l;
     h_dataEnd := get_le (nat_of off_dataEndMarker) 8 l;
     h_metaEnd := get_le (nat_of off_metaEndMarker) 8 l;
     h_metaTotal := get_le (nat_of off_metaTotal) 8 l;
     h_checksum := get_le (nat_of off_checksum) 4 l |}.

(* the packed encoding (field order as in the struct) without checksum *)
Definition encode_body (h : header) : list Z :=
  le_encode 4 (h_magic h) ++ le_encode 4 (h_version h) ++ le_encode 4 (h_pageSize h) ++
  le_encode 8 (h_maxSize h) ++ le_encode 4 (h_flags h) ++ le_encode 8 (h_root h) ++
  le_encode 8 (h_txid h) ++ le_encode 8 (h_freelist h) ++ le_encode 8 (h_wal h) ++
  le_encode 8 (h_dataEnd h) ++ le_encode 8 (h_metaEnd h) ++ le_encode 8 (h_metaTotal h).

Definition checksum_of (l : list Z) : Z := fnv (firstn (nat_of off_checksum) l) fnv_offset.

(* Finalize: body ++ checksum *)
Definition encode_header (h : header) : list Z :=
  let b := encode_body h in b ++ le_encode 4 (checksum_of b).

(* metaPage.Validate *)
Definition valid_slot (l : list Z) : bool :=
  let h := decode_header l in
  (h_magic h =? magic) && (h_version h =? version) && (h_checksum h =? checksum_of l).

Inductive sel := SelErr | SelOk (active : Z) (txid : Z).

(* int64(tx0 - tx1) > 0 on uint64 values *)
Definition txid_newer (tx0 tx1 : Z) : bool :=
  let d := (tx0 - tx1) mod 2^64 in (0 <? d) && (d <? 2^63).

Definition choose (s0 s1 : list Z) : sel :=
  let v0 := valid_slot s0 in
  let v1 := valid_slot s1 in
  let t0 := h_txid (decode_header s0) in
  let t1 := h_txid (decode_header s1) in
  match v0, v1 with
  | false, false => SelErr
  | true, false => SelOk 0 t0
  | false, true => SelOk 1 t1
  | true, true => if txid_newer t0 t1 then SelOk 0 t0 else SelOk 1 t1
  end.

Definition hdr_size : nat := nat_of metaPageHeaderSize.

(* outcome of reading hdr_size bytes at some offset *)
Inductive rdres := RdEOF | RdMissing | RdOk (s : list Z).

(* findSecondMeta: the first meta page is damaged, search the second one at every supported page
   size (powers of two from minPageSize up to 2^31); stop at the end of the file *)
Fixpoint find_second (rd : Z -> rdres) (fuel : nat) (sz : Z) : option (option (list Z)) :=
  match fuel with
  | O => Some None
  | S fuel' =>
      if 2^32 <=? sz then Some None
      else match rd sz with
           | RdEOF => Some None
           | RdMissing => None
           | RdOk s =>
               if valid_slot s && (h_pageSize (decode_header s) =? sz) then Some (Some s)
               else find_second rd fuel' (2 * sz)
           end
  end.

(* readValidMeta over an abstract reader; None = the reader could not answer (window missing) *)
Definition read_valid_meta_with (rd : Z -> rdres) : option sel :=
  match rd 0 with
  | RdEOF => Some SelErr
  | RdMissing => None
  | RdOk s0 =>
      if valid_slot s0 then
        match rd (h_pageSize (decode_header s0)) with
        | RdEOF => Some SelErr
        | RdMissing => None
        | RdOk s1 => Some (choose s0 s1)
        end
      else
        match find_second rd 40 minPageSize with
        | None => None
        | Some None => Some SelErr
        | Some (Some s1) => Some (SelOk 1 (h_txid (decode_header s1)))
        end
  end.

(* ReadAt of hdr_size bytes at off: fails when the file is too short *)
Definition read_slot (file : list Z) (off : Z) : rdres :=
  let s := slice (nat_of off) hdr_size file in
  if (length s =? hdr_size)%nat then RdOk s else RdEOF.

(* the bytes of the selected header slot *)
Definition selected_slot (rd : Z -> rdres) : option (list Z) :=
  match rd 0 with
  | RdOk s0 =>
      if valid_slot s0 then
        match rd (h_pageSize (decode_header s0)) with
        | RdOk s1 => match choose s0 s1 with
                     | SelOk a _ => Some (if a =? 0 then s0 else s1)
                     | SelErr => None
                     end
        | _ => None
        end
      else match find_second rd 40 minPageSize with
           | Some (Some s1) => Some s1
           | _ => None
           end
  | _ => None
  end.

Definition read_valid_meta (file : list Z) : sel :=
  match read_valid_meta_with (read_slot file) with Some r => r | None => SelErr end.

(* Windowed reader used by the correspondence check on large images: the caller supplies the file
   size and the hdr_size bytes found at a set of offsets; a request outside that set is reported. *)
Fixpoint lookup_win (wins : list (Z * list Z)) (off : Z) : option (list Z) :=
  match wins with
  | [] => None
  | (o, w) :: rest => if o =? off then Some w else lookup_win rest off
  end.

Definition read_win (size : Z) (wins : list (Z * list Z)) (off : Z) : rdres :=
  if size <? off + Z.of_nat hdr_size then RdEOF
  else match lookup_win wins off with Some w => RdOk w | None => RdMissing end.

Definition read_valid_meta_win (size : Z) (wins : list (Z * list Z)) : option sel :=
  read_valid_meta_with (read_win size wins).
