(* Little-endian integer codecs over byte lists (bytes are Z in [0,256)). *)
From Coq Require Export ZArith List Bool.
Export ListNotations.
Open Scope Z_scope.

Fixpoint le_encode (n : nat) (v : Z) : list Z :=
  match n with
  | O => []
  | S n' => (v mod 256) :: le_encode n' (v / 256)
  end.

Fixpoint le_decode (l : list Z) : Z :=
  match l with
  | [] => 0
  | b :: l' => b + 256 * le_decode l'
  end.

Definition slice (off len : nat) (l : list Z) : list Z := firstn len (skipn off l).

Definition get_le (off len : nat) (l : list Z) : Z := le_decode (slice off len l).

Definition is_byte (b : Z) : bool := (0 <=? b) && (b <? 256).
Definition bytes (l : list Z) : Prop := Forall (fun b => 0 <= b < 256) l.

(* overwrite [len src] bytes of [dst] at offset [off] (dst long enough) *)
Definition splice (off : nat) (src dst : list Z) : list Z :=
  firstn off dst ++ src ++ skipn (off + length src) dst.

Fixpoint zeros (n : nat) : list Z := match n with O => [] | S n' => 0 :: zeros n' end.
