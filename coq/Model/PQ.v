(* Persistent queue (pq): event framing over the payload stream of linked pages, position encoding,
   event id order, and the abstract queue the implementation has to refine. *)
From VF Require Export Bytes Consts.
From Coq Require Import Lia.

(* ---------- framing (pq/buffer.go Append / ReserveHdr, pq/reader.go, pq/cursor.go) ---------- *)
(* P = payload bytes per page (page size - szEventPageHeader). The payload areas of the linked pages
   form one byte stream. An event = 4-byte little-endian size + bytes. An event header never straddles
   a page end: if fewer than 4 bytes are left in the page the writer skips them (padding); event bytes
   run across page ends freely. *)
Definition hdr_len : nat := Z.to_nat pq_szEventHeader.

Definition pad_at (P pos : nat) : nat :=
  let room := (P - pos mod P)%nat in if (room <? hdr_len)%nat then room else O.

Definition frame_event (P pos : nat) (e : list Z) : list Z :=
  zeros (pad_at P pos) ++ le_encode hdr_len (Z.of_nat (length e)) ++ e.

Fixpoint layout_from (P pos : nat) (evs : list (list Z)) : list Z :=
  match evs with
  | [] => []
  | e :: rest => let f := frame_event P pos e in f ++ layout_from P (pos + length f) rest
  end.
Definition layout (P : nat) (evs : list (list Z)) : list Z := layout_from P 0 evs.

(* page index (relative to the page of stream position 0) in which the header of each event starts *)
Fixpoint starts_from (P pos : nat) (evs : list (list Z)) : list nat :=
  match evs with
  | [] => []
  | e :: rest => ((pos + pad_at P pos) / P)%nat :: starts_from P (pos + length (frame_event P pos e))%nat rest
  end.
Definition starts (P : nat) (evs : list (list Z)) : list nat := starts_from P 0 evs.

(* the same on binary numbers, from the event sizes only (this is what the correspondence check runs: positions in
   a chain of hundreds of pages are too big for unary numbers); equal to starts_from: Proofs/PQLayoutProofs.v *)
Fixpoint starts_fromZ (P pos : Z) (lens : list Z) : list Z :=
  match lens with
  | [] => []
  | l :: rest =>
      let room := P - pos mod P in
      let pad := if room <? pq_szEventHeader then room else 0 in
      ((pos + pad) / P) :: starts_fromZ P (pos + pad + pq_szEventHeader + l) rest
  end.

(* the reader: n events from stream position pos; None = stream too short *)
Fixpoint parse_from (P : nat) (stream : list Z) (pos : nat) (n : nat) : option (list (list Z)) :=
  match n with
  | O => Some []
  | S n' =>
      let p1 := (pos + pad_at P pos)%nat in
      let hdr := slice p1 hdr_len stream in
      if (length hdr <? hdr_len)%nat then None
      else
        let L := Z.to_nat (le_decode hdr) in
        let body := slice (p1 + hdr_len) L stream in
        if (length body <? L)%nat then None
        else match parse_from P stream (p1 + hdr_len + L) n' with
             | Some rest => Some (body :: rest)
             | None => None
             end
  end.

(* ---------- positions (pq/access.go ParsePosition / WritePosition) ---------- *)
(* an on-disk position is a file offset; page offset 0 stands for "end of page" *)
Definition write_position (pageSize page off : Z) : Z :=
  page * pageSize + (if off =? pageSize then 0 else off).
Definition parse_position (pageSize offset : Z) : Z * Z :=
  let page := offset / pageSize in
  let off := offset - page * pageSize in
  (page, if (negb (page =? 0)) && (off =? 0) then pageSize else off).

(* ---------- event ids (pq/util.go idLess): order modulo 2^64 ---------- *)
Definition id_less (a b : Z) : bool := 2^63 <=? (a - b) mod 2^64.     (* int64(a-b) < 0 *)
Definition id_less_eq (a b : Z) : bool := (a mod 2^64 =? b mod 2^64) || id_less a b.

(* ---------- the abstract queue ---------- *)
(* durable state: all events ever flushed, number of ACKed events; volatile: the writer's completed but
   unflushed events, the consumer's snapshot and cursor *)
Record aq := {
  q_flushed : list (list Z);     (* in append order *)
  q_acked : nat;
  q_buffered : list (list Z) }.

Definition aq_empty : aq := {| q_flushed := []; q_acked := 0; q_buffered := [] |}.
Definition aq_pending (q : aq) : nat := (length (q_flushed q) - q_acked q)%nat.
Definition aq_contents (q : aq) : list (list Z) := skipn (q_acked q) (q_flushed q).

Inductive aqop := AAppend (e : list Z) | AFlush | AFlushFail | AAck (n : nat).

(* ACK n is refused (state unchanged) when n exceeds the pending events *)
Definition aq_step (q : aq) (o : aqop) : aq :=
  match o with
  | AAppend e => {| q_flushed := q_flushed q; q_acked := q_acked q; q_buffered := q_buffered q ++ [e] |}
  | AFlush => {| q_flushed := q_flushed q ++ q_buffered q; q_acked := q_acked q; q_buffered := [] |}
  | AFlushFail => q
  | AAck n => if (n <=? aq_pending q)%nat
              then {| q_flushed := q_flushed q; q_acked := (q_acked q + n)%nat; q_buffered := q_buffered q |}
              else q
  end.
Definition aq_run (q : aq) (ops : list aqop) : aq := fold_left aq_step ops q.

(* header counters kept by the implementation: tail id = events flushed, read id = events ACKed *)
Definition aq_tail_id (q : aq) : nat := length (q_flushed q).
Definition aq_read_id (q : aq) : nat := q_acked q.

(* ---------- the reader as a state machine over the payload stream (pq/reader.go Next / Read) ---------- *)
(* r_pos: stream position of the cursor; r_left: unread bytes of the current event (None: between events,
   eventBytes = -1 in the source); r_id: events left behind. N = number of events in the stream known to the
   reader (endID - first id). *)
Record rst := { r_pos : nat; r_left : option nat; r_id : nat }.
Inductive rop := RNext | RRead (n : nat).

(* output: Next reports a size (0 = no more events), Read returns bytes *)
Definition rd_step (P : nat) (stream : list Z) (N : nat) (st : rst) (o : rop) : option nat * list Z * rst :=
  match o with
  | RNext =>
      let p1 := (r_pos st + match r_left st with Some k => k | None => 0 end)%nat in   (* Skip the rest *)
      let id1 := match r_left st with Some _ => S (r_id st) | None => r_id st end in
      if (N <=? id1)%nat then (Some O, [], {| r_pos := p1; r_left := None; r_id := id1 |})
      else
        let p2 := (p1 + pad_at P p1)%nat in                                            (* header does not fit: next page *)
        let L := Z.to_nat (le_decode (slice p2 hdr_len stream)) in
        (Some L, [], {| r_pos := (p2 + hdr_len)%nat; r_left := Some L; r_id := id1 |})
  | RRead n =>
      match r_left st with
      | None => (None, [], st)
      | Some k =>
          let m := Nat.min n k in
          (None, slice (r_pos st) m stream,
           {| r_pos := (r_pos st + m)%nat;
              r_left := if (k <=? n)%nat then None else Some (k - m)%nat;
              r_id := if (k <=? n)%nat then S (r_id st) else r_id st |})
      end
  end.

Fixpoint rd_run (P : nat) (stream : list Z) (N : nat) (st : rst) (ops : list rop) : list (option nat * list Z) :=
  match ops with
  | [] => []
  | o :: rest => let '(sz, bs, st') := rd_step P stream N st o in (sz, bs) :: rd_run P stream N st' rest
  end.

(* the same operations on the list of events itself: what a consumer is entitled to see *)
Record sst := { s_rest : list (list Z); s_cur : option (list Z) }.
Definition sp_step (s : sst) (o : rop) : option nat * list Z * sst :=
  match o with
  | RNext => match s_rest s with
             | [] => (Some O, [], {| s_rest := []; s_cur := None |})
             | e :: r => (Some (length e), [], {| s_rest := r; s_cur := Some e |})
             end
  | RRead n => match s_cur s with
               | None => (None, [], s)
               | Some b => (None, firstn n b,
                            {| s_rest := s_rest s; s_cur := if (length b <=? n)%nat then None else Some (skipn n b) |})
               end
  end.
Fixpoint sp_run (s : sst) (ops : list rop) : list (option nat * list Z) :=
  match ops with
  | [] => []
  | o :: rest => let '(sz, bs, s') := sp_step s o in (sz, bs) :: sp_run s' rest
  end.

(* ---------- the page-level cursor (pq/cursor.go Skip / readInto): page index in the chain, offset in the
   payload area (0..P); moving by n bytes ---------- *)
Fixpoint cur_adv (fuel P : nat) (pg off n : nat) : nat * nat :=
  match fuel with
  | O => (pg, off)
  | S f =>
      match n with
      | O => (pg, off)
      | _ =>
          let '(pg1, off1) := if (P - off =? 0)%nat then (S pg, O) else (pg, off) in   (* PageBytes() == 0: next page *)
          let mx := Nat.min n (P - off1) in
          cur_adv f P pg1 (off1 + mx)%nat (n - mx)%nat
      end
  end.
Definition cur_lin (P pg off : nat) : nat := (pg * P + off)%nat.
