(* In-process file lock (lock.go) and the lock usage of transactions (tx.go, file.go). *)
From Coq Require Export List Arith Bool.
Export ListNotations.

Record lk := { shared : nat; pending : bool; reserved : bool }.
Definition lk_idle : lk := {| shared := 0; pending := false; reserved := false |}.

(* operations of the lock object; None = the caller would block (or, for an unlock of a lock
   that is not held, the Go runtime would panic) *)
Inductive lop := SharedLock | SharedUnlock | ReservedLock | ReservedUnlock
               | PendingLock | PendingUnlock | ExclusiveLock | ExclusiveUnlock.

Definition lock_apply (l : lk) (o : lop) : option lk :=
  match o with
  | SharedLock => if pending l then None
                  else Some {| shared := S (shared l); pending := pending l; reserved := reserved l |}
  | SharedUnlock => match shared l with
                    | O => None
                    | S n => Some {| shared := n; pending := pending l; reserved := reserved l |}
                    end
  | ReservedLock => if reserved l then None
                    else Some {| shared := shared l; pending := pending l; reserved := true |}
  | ReservedUnlock => if reserved l then Some {| shared := shared l; pending := pending l; reserved := false |}
                      else None
  | PendingLock => Some {| shared := shared l; pending := true; reserved := reserved l |}
  | PendingUnlock => Some {| shared := shared l; pending := false; reserved := reserved l |}
  | ExclusiveLock => match shared l with O => Some l | S _ => None end
  | ExclusiveUnlock => Some l
  end.

(* program counters of a thread running one transaction:
   reader: R0 not begun, R1 v active (saw committed version v), R2 closed
   writer: W0 not begun, W1 active (Reserved), W2 Pending held / commit I/O, W3 past Exclusive,
           W4 switched, W5 Pending released, Wd done *)
Inductive pc := R0 | R1 (v : nat) | R2 | W0 | W1 | W2 | W3 | W4 | W5 | Wd.

(* what a thread may do next *)
Inductive label := LBegin | LWork | LClose      (* reader: BeginReadonly / page access / Close *)
  | LWBegin | LWWork | LRollback                 (* writer: Begin / alloc, write, flush... / Rollback, Close *)
  | LPend | LIO | LFail                          (* Commit: Pending.Lock / write+sync / error path *)
  | LExcl | LSwitch | LNoSwitch                  (* Exclusive.Lock / publish new state / (File.Close, late failure) *)
  | LUnpend | LRelease.                          (* Pending.Unlock / Reserved.Unlock *)

Definition bind {A B} (o : option A) (f : A -> option B) : option B :=
  match o with Some a => f a | None => None end.

(* one atomic step of one thread on (lock, committed version, pc) *)
Definition thread_step (l : lk) (v : nat) (p : pc) (lab : label) : option (lk * nat * pc) :=
  match p, lab with
  | R0, LBegin => bind (lock_apply l SharedLock) (fun l' => Some (l', v, R1 v))
  | R1 w, LWork => Some (l, v, R1 w)
  | R1 w, LClose => bind (lock_apply l SharedUnlock) (fun l' => Some (l', v, R2))
  | W0, LWBegin => bind (lock_apply l ReservedLock) (fun l' => Some (l', v, W1))
  | W1, LWWork => Some (l, v, W1)
  | W1, LRollback => bind (lock_apply l ReservedUnlock) (fun l' => Some (l', v, Wd))
  | W1, LPend => bind (lock_apply l PendingLock) (fun l' => Some (l', v, W2))
  | W2, LIO => Some (l, v, W2)
  | W3, LIO => Some (l, v, W3)
  | W2, LFail => bind (lock_apply l PendingUnlock) (fun l' => Some (l', v, W5))
  | W2, LExcl => bind (lock_apply l ExclusiveLock) (fun l' => Some (l', v, W3))
  | W3, LSwitch => Some (l, S v, W4)
  | W3, LNoSwitch => Some (l, v, W4)
  | W4, LUnpend => bind (bind (lock_apply l ExclusiveUnlock) (fun l' => lock_apply l' PendingUnlock))
                        (fun l' => Some (l', v, W5))
  | W5, LRelease => bind (lock_apply l ReservedUnlock) (fun l' => Some (l', v, Wd))
  | _, _ => None
  end.

(* the label sequences executed by the API calls (as written in tx.go / file.go) *)
Definition prog_begin_readonly := [LBegin].
Definition prog_reader_close := [LClose].
Definition prog_begin := [LWBegin].
Definition prog_rollback := [LRollback].                                  (* Rollback, Close of a write tx *)
Definition prog_commit_ok := [LPend; LIO; LExcl; LSwitch; LUnpend; LRelease].
Definition prog_commit_fail := [LPend; LIO; LFail; LRelease].             (* error before the exclusive lock *)
Definition prog_commit_fail_late := [LPend; LIO; LExcl; LSwitch; LUnpend; LRelease]. (* mmap/truncate error after the switch *)
Definition prog_init_tx_ok := [LWBegin; LPend; LExcl; LIO; LSwitch; LUnpend; LRelease].   (* withInitTx *)
Definition prog_init_tx_fail := [LWBegin; LPend; LExcl; LIO; LNoSwitch; LUnpend; LRelease].
Definition prog_file_close := [LWBegin; LPend; LExcl; LNoSwitch; LUnpend; LRelease].

Fixpoint run_labels (l : lk) (v : nat) (p : pc) (labs : list label) : option (lk * nat * pc) :=
  match labs with
  | [] => Some (l, v, p)
  | lab :: rest =>
      match thread_step l v p lab with
      | Some (l', v', p') => run_labels l' v' p' rest
      | None => None
      end
  end.
