(* pq/ack.go: which pages an ACK frees and where the new head is (collectFreePages / the head part of
   findNewStartPositions), over the page structure of the queue.

   The events still referenced by the page chain are numbered 0, 1, 2, .. from the first event that starts in the
   head page (events before the read pointer that share the head page included). [ps] gives, for each of them
   in order, the index (in the chain, head page = index h) of the page its header starts in; an event whose
   header does not fit into the rest of a page starts in the next one, so the list is non-decreasing. T is the
   index of the last page of the chain (the page the writer appends to), N the number of these events that are
   ACKed after the call (already ACKed ones + n).

   Page header of page k as the writer maintains it: off = 0 iff no event starts in k; otherwise first / last are
   the ids of the first / last event starting in k: first = id0 + cnt_lt k, last = id0 + cnt_le k - 1. *)
From Coq Require Export Arith List Bool.
Export ListNotations.

Definition cnt_le (ps : list nat) (k : nat) : nat := length (filter (fun p => p <=? k) ps).
Definition cnt_lt (ps : list nat) (k : nat) : nat := length (filter (fun p => p <? k) ps).
Definition starts_in (ps : list nat) (k : nat) : bool := existsb (Nat.eqb k) ps.

(* the page the walk stops at (it and all later pages are kept, all pages before it are freed);
   the boolean is the "cleanAll" outcome (the walk ran into the write page without finding the event) *)
Fixpoint collect (fuel : nat) (ps : list nat) (T N k : nat) : nat * bool :=
  match fuel with
  | O => (k, false)
  | S f =>
      if starts_in ps k then
        (* lastID+1 = id0 + cnt_le k: keep the page if it is the write page or the first un-ACKed event id
           id0 + N is <= last + 1 *)
        if (k =? T) || (N <=? cnt_le ps k) then (k, false) else collect f ps T N (S k)
      else if k =? T then (k, true) else collect f ps T N (S k)
  end.

(* pages freed by the ACK: h .. kept-1 *)
Definition ack_pages (ps : list nat) (h T N : nat) : nat * bool := collect (S (T - h)) ps T N h.

(* new read position, as an index into the events: the walk of findNewStartPositions starts at the first event of
   the kept page and skips events up to number N *)
Definition ack_skips (ps : list nat) (kept N : nat) : nat := N - cnt_lt ps kept.
