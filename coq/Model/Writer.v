(* write.go: the asynchronous page writer. Page writes and sync requests are queued; the writer
   goroutine consumes them in batches (at most up to the next sync), sorts each batch by page id and
   applies it. *)
From VF Require Export Bytes.
From Coq Require Import Sorting.Permutation.

Record wmsg := { w_id : Z; w_buf : list Z }.
Definition disk := Z -> option (list Z).
Definition disk_write (d : disk) (m : wmsg) : disk :=
  fun p => if p =? w_id m then Some (w_buf m) else d p.
Definition apply_msgs (d : disk) (l : list wmsg) : disk := fold_left disk_write l d.

(* stable insertion sort by page id (sort.SliceStable) *)
Fixpoint insert_msg (m : wmsg) (l : list wmsg) : list wmsg :=
  match l with
  | [] => [m]
  | x :: tl => if w_id m <=? w_id x then m :: l else x :: insert_msg m tl
  end.
Definition sort_batch (l : list wmsg) : list wmsg := fold_right insert_msg [] l.

(* a batching is a split of the queue into consecutive batches *)
Fixpoint run_batches (d : disk) (bs : list (list wmsg)) : disk :=
  match bs with
  | [] => d
  | b :: rest => run_batches (apply_msgs d (sort_batch b)) rest
  end.

(* the sequential specification: the queue applied in schedule order *)
Definition spec_disk (d : disk) (queue : list wmsg) : disk := apply_msgs d queue.
