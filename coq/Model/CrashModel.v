(* Abstract disk / recovery / write-discipline definitions of the crash-atomicity theorem
   (proofs: Proofs/Crash.v; concrete instance: Model/Monitor.v). *)
From Coq Require Import ZArith List Bool.
Import ListNotations.
Open Scope Z_scope.

Section Defs.
Variable C H St : Type.                           (* page slot content, decoded header, recovered view *)
Definition disk := Z -> C.
Variable hdr : C -> option (Z * H).               (* Some (txid, header) iff the slot validates *)
Variable chase : disk -> H -> option (St * list Z).  (* recovered view + pages read for it *)
Variable newer : Z -> Z -> bool.                  (* order of transaction ids *)
Variable nxt : Z -> Z.

Definition slotp (s:bool) : Z := if s then 1 else 0.

Definition select (d:disk) : option (bool * Z * H) :=
  match hdr (d 0), hdr (d 1) with
  | None, None => None
  | Some (t,h), None => Some (false,t,h)
  | None, Some (t,h) => Some (true,t,h)
  | Some (t0,h0), Some (t1,h1) => if newer t0 t1 then Some (false,t0,h0) else Some (true,t1,h1)
  end.
Definition recover (d:disk) : option St :=
  match select d with None => None | Some (_,_,h) => option_map fst (chase d h) end.

Inductive ev := W (p:Z) (c:C) | S | CommitOk.
Definition upd (d:disk) p c : disk := fun q => if Z.eqb q p then c else d q.
Fixpoint apply (ws: list (Z*C)) (d:disk) : disk :=
  match ws with [] => d | (p,c)::r => apply r (upd d p c) end.

Record mst := { dd : disk; pend : list (Z*C); act : bool; txid : Z; cst : St; cfp : list Z;
                infl : option (C * H * St * list Z) }.

Definition step (m:mst) (e:ev) : option mst :=
 match e with
 | W p c =>
    if Z.eqb p (slotp (negb (act m))) then
       match infl m, pend m, hdr c with
       | None, [], Some (t,h) =>
           if Z.eqb t (nxt (txid m)) then
             match chase (dd m) h with
             | Some (st,fp) => Some {| dd := dd m; pend := [(p,c)]; act:=act m; txid:=txid m; cst:=cst m; cfp:=cfp m; infl := Some (c,h,st,fp) |}
             | None => None end
           else None
       | _,_,_ => None end
    else if Z.eqb p (slotp (act m)) then None
    else if Z.ltb p 2 then None
    else match infl m with
       | Some _ => None
       | None => if existsb (Z.eqb p) (cfp m) then None
                 else Some {| dd := dd m; pend := pend m ++ [(p,c)]; act:=act m; txid:=txid m; cst:=cst m; cfp:=cfp m; infl := None |}
       end
 | S => Some {| dd := apply (pend m) (dd m); pend := []; act:=act m; txid:=txid m; cst:=cst m; cfp:=cfp m; infl := infl m |}
 | CommitOk => match infl m, pend m with
      | Some (c,h,st,fp), [] => Some {| dd := dd m; pend := []; act := negb (act m); txid := nxt (txid m); cst := st; cfp := fp; infl := None |}
      | _,_ => None end
 end.

Fixpoint run (m:mst) (evs:list ev) : option mst :=
  match evs with [] => Some m | e::r => match step m e with Some m' => run m' r | None => None end end.

End Defs.

Arguments W {C}. Arguments S {C}. Arguments CommitOk {C}.
Arguments dd {C H St}. Arguments pend {C H St}. Arguments act {C H St}. Arguments txid {C H St}.
Arguments cst {C H St}. Arguments cfp {C H St}. Arguments infl {C H St}. Arguments Build_mst {C H St}.
