(* write.go: the queue between the transactions and the writer goroutine - Schedule (a page write), Sync (a sync
   request: "after everything scheduled so far") and nextCommand, which hands the writer goroutine the next batch:
   at most B queued writes (B = the size of its buffer, 1024), cut at the next sync request, and that sync request
   when all writes scheduled before it are in this or an earlier batch. *)
From Coq Require Export List Arith Bool.
Export ListNotations.

Section Q.
Variable A : Type.            (* a queued page write (page id, buffer) *)

Inductive ev := EW (a : A) | ES.

Record wq := {
  q_sched : list A;         (* queued page writes, oldest first *)
  q_fsync : list nat;       (* queued sync requests: number of writes scheduled between the previous request and this one *)
  q_pending : nat;          (* writes scheduled since the last sync request *)
  q_published : nat }.      (* writes handed to the goroutine since the last sync it executed *)

Definition wq_init : wq := {| q_sched := []; q_fsync := []; q_pending := 0; q_published := 0 |}.

Definition wq_schedule (s : wq) (id : A) : wq :=
  {| q_sched := q_sched s ++ [id]; q_fsync := q_fsync s; q_pending := S (q_pending s); q_published := q_published s |}.

Definition wq_sync (s : wq) : wq :=
  {| q_sched := q_sched s; q_fsync := q_fsync s ++ [q_pending s]; q_pending := 0; q_published := q_published s |}.

(* nextCommand(buf) with len(buf) = B: None = nothing queued (the goroutine waits); otherwise the page writes of the
   batch, whether the batch ends with a sync, and the new state *)
Definition wq_next (B : nat) (s : wq) : option (list A * bool * wq) :=
  let max0 := length (q_sched s) in
  match q_sched s, q_fsync s with
  | [], [] => None
  | _, _ =>
      let max1 := Nat.min B max0 in
      let '(max2, do_sync, fs') :=
        match q_fsync s with
        | c :: rest =>
            let outstanding := c - q_published s in
            if outstanding <=? max1 then (outstanding, true, rest) else (max1, false, q_fsync s)
        | [] => (max1, false, [])
        end in
      let taken := firstn max2 (q_sched s) in
      Some (taken, do_sync,
            {| q_sched := skipn max2 (q_sched s); q_fsync := fs'; q_pending := q_pending s;
               q_published := if do_sync then 0 else q_published s + length taken |})
  end.

(* what the goroutine does with a command: the writes (sorted by page id inside the batch: Model/Writer.v), then the sync *)
Definition cmd_events (taken : list A) (do_sync : bool) : list ev :=
  map EW taken ++ (if do_sync then [ES] else []).

(* a run: the transactions schedule writes and syncs, the goroutine asks for commands with any buffer size >= 1 *)
Inductive qop := QW (id : A) | QS | QN (B : nat).

Fixpoint wq_run (s : wq) (ops : list qop) : wq * list ev (* executed *) * list ev (* scheduled *) :=
  match ops with
  | [] => (s, [], [])
  | QW id :: rest => let '(s', out, inp) := wq_run (wq_schedule s id) rest in (s', out, EW id :: inp)
  | QS :: rest => let '(s', out, inp) := wq_run (wq_sync s) rest in (s', out, ES :: inp)
  | QN B :: rest =>
      match wq_next B s with
      | None => wq_run s rest
      | Some (taken, do_sync, s1) => let '(s', out, inp) := wq_run s1 rest in (s', cmd_events taken do_sync ++ out, inp)
      end
  end.

(* the variant of seeded change C01f: the test "is the next sync due" looks at all queued writes, the clamp to the
   buffer size comes afterwards *)
Definition wq_next_late_clamp (B : nat) (s : wq) : option (list A * bool * wq) :=
  let max0 := length (q_sched s) in
  match q_sched s, q_fsync s with
  | [], [] => None
  | _, _ =>
      let '(max2, do_sync, fs') :=
        match q_fsync s with
        | c :: rest =>
            let outstanding := c - q_published s in
            if outstanding <=? max0 then (outstanding, true, rest) else (max0, false, q_fsync s)
        | [] => (max0, false, [])
        end in
      let taken := firstn (Nat.min B max2) (q_sched s) in
      Some (taken, do_sync,
            {| q_sched := skipn (Nat.min B max2) (q_sched s); q_fsync := fs'; q_pending := q_pending s;
               q_published := if do_sync then 0 else q_published s + length taken |})
  end.

(* the commands of a run as batches: (page writes, ends with a sync) *)
Fixpoint wq_cmds (s : wq) (ops : list qop) : list (list A * bool) :=
  match ops with
  | [] => []
  | QW id :: rest => wq_cmds (wq_schedule s id) rest
  | QS :: rest => wq_cmds (wq_sync s) rest
  | QN B :: rest =>
      match wq_next B s with
      | None => wq_cmds s rest
      | Some (taken, do_sync, s1) => (taken, do_sync) :: wq_cmds s1 rest
      end
  end.
End Q.

Arguments EW {A}. Arguments ES {A}.
Arguments q_sched {A}. Arguments q_fsync {A}. Arguments q_pending {A}. Arguments q_published {A}.
Arguments wq_init {A}. Arguments wq_schedule {A}. Arguments wq_sync {A}. Arguments wq_next {A}.
Arguments cmd_events {A}. Arguments QW {A}. Arguments QS {A}. Arguments QN {A}. Arguments wq_run {A}.
Arguments wq_next_late_clamp {A}. Arguments wq_cmds {A}.
