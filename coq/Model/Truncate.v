(* tx.go checkTruncate: how far a commit may truncate a bounded file. The header of the PREVIOUS commit is the
   fall-back when the new header is damaged (C16) or does not reach the disk (C01): the file has to stay long enough
   for the state of both. *)
From Coq Require Export ZArith Bool.
Open Scope Z_scope.

(* lastEnd: max(data end, meta end) of the previous commit (in pages); sz: current file size; mmapSz: what the new
   commit needs (its end marker * page size); maxSz: the size limit (0 = unbounded). Result: (new size, truncate?) *)
Definition check_truncate (lastEnd sz mmapSz maxSz pageSize : Z) : Z * bool :=
  if maxSz <=? 0 then (0, false)
  else
    let expected := Z.max mmapSz maxSz in
    if sz <=? expected then (0, false)
    else
      let lastExpected := Z.max (lastEnd * pageSize) maxSz in
      let e := Z.max expected lastExpected in
      (e, e <? sz).

(* the variant of seeded change C16i: the previous commit's need is clamped to the limit *)
Definition check_truncate_clamped (lastEnd sz mmapSz maxSz pageSize : Z) : Z * bool :=
  if maxSz <=? 0 then (0, false)
  else
    let expected := Z.max mmapSz maxSz in
    if sz <=? expected then (0, false)
    else
      let lastExpected := Z.min (lastEnd * pageSize) maxSz in
      let e := Z.max expected lastExpected in
      (e, e <? sz).

(* tx.go rollbackChanges: after the allocator was rolled back a bounded file (maxPages > 0) is truncated, if it is
   longer, to the end of the restored state - max(meta end marker, data end marker) pages - or to the end of the state
   of the OTHER header page (otherEnd: the larger of its two end markers, 0 if that page is not valid), whichever is
   larger (fix D33: the other header is the fall-back of Open). Result: the new size. *)
Definition rollback_truncate (metaEnd dataEnd otherEnd sz pageSize maxPages : Z) : option Z :=
  if maxPages =? 0 then None
  else let e := Z.max (Z.max metaEnd dataEnd) otherEnd * pageSize in
       if e <? sz then Some e else None.

(* the code before fix D33: the other header page is ignored *)
Definition rollback_truncate_v1 (metaEnd dataEnd sz pageSize maxPages : Z) : option Z :=
  rollback_truncate metaEnd dataEnd 0 sz pageSize maxPages.

(* the variant of seeded change C02j: truncate to the DATA end marker the transaction saw at Begin *)
Definition rollback_truncate_dataend (dataEnd sz pageSize maxPages : Z) : option Z :=
  if maxPages =? 0 then None
  else let e := dataEnd * pageSize in
       if e <? sz then Some e else None.
