(* alloc.go: the page allocator (data area, meta area, overflow area) and the per-transaction
   undo/redo record. *)
From VF Require Export Freelist.

Record area := { a_end : Z; a_free : freelist }.

Record allocst := {
  maxPages : Z; pageSize : Z;
  meta : area; metaTotal : Z;
  data : area;
  flRoot : Z; flPages : regions }.

Record txarea := { t_end : Z; t_allocated : list Z; t_new : list Z; t_freed : list Z }.

Record txst := {
  moveToMeta : regions;
  tdata : txarea; tmeta : txarea;
  ovf : bool; pct : Z;
  st_data_alloc : Z; st_data_freed : Z; st_meta_alloc : Z; st_meta_freed : Z;
  st_ovf_alloc : Z; st_ovf_freed : Z; st_toMeta : Z }.

Definition noLimit : Z := 2^64 - 1.

(* makeTxAllocState *)
Definition make_tx (a : allocst) (withOverflow : bool) (growPct : Z) : txst :=
  {| moveToMeta := [];
     tdata := {| t_end := a_end (data a); t_allocated := []; t_new := []; t_freed := [] |};
     tmeta := {| t_end := a_end (meta a); t_allocated := []; t_new := []; t_freed := [] |};
     ovf := withOverflow; pct := if growPct <=? 0 then defaultMetaGrowPercentage else growPct;
     st_data_alloc := 0; st_data_freed := 0; st_meta_alloc := 0; st_meta_freed := 0;
     st_ovf_alloc := 0; st_ovf_freed := 0; st_toMeta := 0 |}.

(* record update helpers *)
Definition set_data (a : allocst) (d : area) : allocst :=
  {| maxPages := maxPages a; pageSize := pageSize a; meta := meta a; metaTotal := metaTotal a;
     data := d; flRoot := flRoot a; flPages := flPages a |}.
Definition set_meta (a : allocst) (m : area) (mt : Z) : allocst :=
  {| maxPages := maxPages a; pageSize := pageSize a; meta := m; metaTotal := mt;
     data := data a; flRoot := flRoot a; flPages := flPages a |}.
Definition tx_with (t : txst) (mv : regions) (d m : txarea) : txst :=
  {| moveToMeta := mv; tdata := d; tmeta := m; ovf := ovf t; pct := pct t;
     st_data_alloc := st_data_alloc t; st_data_freed := st_data_freed t;
     st_meta_alloc := st_meta_alloc t; st_meta_freed := st_meta_freed t;
     st_ovf_alloc := st_ovf_alloc t; st_ovf_freed := st_ovf_freed t; st_toMeta := st_toMeta t |}.
Definition tx_stats (t : txst) (da df ma mf oa ofr tm : Z) : txst :=
  {| moveToMeta := moveToMeta t; tdata := tdata t; tmeta := tmeta t; ovf := ovf t; pct := pct t;
     st_data_alloc := st_data_alloc t + da; st_data_freed := st_data_freed t + df;
     st_meta_alloc := st_meta_alloc t + ma; st_meta_freed := st_meta_freed t + mf;
     st_ovf_alloc := st_ovf_alloc t + oa; st_ovf_freed := st_ovf_freed t + ofr; st_toMeta := st_toMeta t + tm |}.
Definition ta_allocated (x : txarea) (ids : list Z) : txarea :=
  {| t_end := t_end x; t_allocated := set_add_all ids (t_allocated x); t_new := t_new x; t_freed := t_freed x |}.
Definition ta_new (x : txarea) (ids : list Z) : txarea :=
  {| t_end := t_end x; t_allocated := t_allocated x; t_new := set_add_all ids (t_new x); t_freed := t_freed x |}.
Definition ta_freed (x : txarea) (id : Z) : txarea :=
  {| t_end := t_end x; t_allocated := t_allocated x; t_new := t_new x; t_freed := set_add id (t_freed x) |}.

(* dataAllocator.Avail *)
Definition data_avail (a : allocst) : Z :=
  if maxPages a =? 0 then noLimit
  else avail (a_free (data a)) + (if a_end (data a) <? maxPages a then maxPages a - a_end (data a) else 0).

(* allocFromArea: count pages from the end marker (regions of at most 2^32-1 pages) *)
Fixpoint area_regions (fuel : nat) (id count : Z) : regions :=
  match fuel with
  | O => []
  | S f => if count <=? 0 then []
           else let n := Z.min count u32max in {| rid := id; rcount := n |} :: area_regions f (id + n) (count - n)
  end.

(* allocFromFreelist (count = min(max, avail)) *)
Definition alloc_from_freelist (fromEnd : bool) (f : freelist) (x : txarea) (max : Z) : regions * freelist * txarea * Z :=
  let count := Z.min max (avail f) in
  let '(regs, f') := fl_alloc_regions fromEnd f count in
  (regs, f', ta_allocated x (regions_ids regs), count).

(* dataAllocator.AllocRegionsWith: returns (regions handed out, count (0 = failure)) *)
Definition data_alloc_regions (a : allocst) (t : txst) (n : Z) : regions * Z * allocst * txst :=
  if data_avail a <? n then ([], 0, a, t)
  else
    let '(regs1, f', td, got) := alloc_from_freelist false (a_free (data a)) (tdata t) n in
    let rest := n - got in
    let regs2 := if 0 <? rest then area_regions 4 (a_end (data a)) rest else [] in
    let dend := if 0 <? rest then a_end (data a) + rest else a_end (data a) in
    let td2 := ta_new td (regions_ids regs2) in
    let mend := if (0 <? rest) && (a_end (meta a) <? dend) then dend else a_end (meta a) in
    let a1 := set_data a {| a_end := dend; a_free := f' |} in
    let a2 := set_meta a1 {| a_end := mend; a_free := a_free (meta a1) |} (metaTotal a1) in
    (regs1 ++ regs2, n, a2, tx_stats (tx_with t (moveToMeta t) td2 (tmeta t)) n 0 0 0 0 0 0).

(* dataAllocator.AllocContinuousRegion *)
Definition data_alloc_cont (a : allocst) (t : txst) (n : Z) : option region * allocst * txst :=
  if data_avail a <? n then (None, a, t)
  else
    match fl_alloc_cont false (a_free (data a)) n with
    | (Some reg, f') =>
        let td := ta_new (tdata t) (region_ids reg) in
        (Some reg, set_data a {| a_end := a_end (data a); a_free := f' |},
         tx_stats (tx_with t (moveToMeta t) td (tmeta t)) n 0 0 0 0 0 0)
    | (None, _) =>
        (* bounded file: maxPages - endMarker pages are left in the area, none when the end marker is at or past
           the limit (limit lowered on open, former overflow area); an unbounded file has no limit. (Before the
           repair of D17 the source computed maxPages - endMarker in unsigned arithmetic without the guard.) *)
        let av := if a_end (data a) <? maxPages a then maxPages a - a_end (data a) else 0 in
        if (0 <? maxPages a) && (av <? n) then (None, a, t)
        else
          let regs := area_regions 4 (a_end (data a)) n in
          let reg := last regs {| rid := 0; rcount := 0 |} in
          let dend := a_end (data a) + n in
          let td := ta_new (tdata t) (regions_ids regs) in
          let mend := if a_end (meta a) <? dend then dend else a_end (meta a) in
          let a1 := set_data a {| a_end := dend; a_free := a_free (data a) |} in
          let a2 := set_meta a1 {| a_end := mend; a_free := a_free (meta a1) |} (metaTotal a1) in
          (Some reg, a2, tx_stats (tx_with t (moveToMeta t) td (tmeta t)) n 0 0 0 0 0 0)
    end.

(* nextPowerOf2(u) > u *)
Fixpoint next_pow2_from (fuel : nat) (p u : Z) : Z :=
  match fuel with O => p | S f => if u <? p then p else next_pow2_from f (2 * p) u end.
Definition next_pow2 (u : Z) : Z := next_pow2_from 70 1 u.

(* metaAreaTargetQuota; the float comparison 100*used/max > pct is modelled as 100*used > pct*max *)
Definition quota (total used shrinkPct growPct : Z) : Z * Z :=
  let mx0 := Z.max (next_pow2 used) total in
  let grow := (growPct * mx0 <? 100 * used) || ((mx0 <? total) && (shrinkPct * mx0 <? 100 * used)) in
  let mn := Z.max used total in
  (mn, if grow then 2 * mx0 else mx0).

(* metaManager.transferToMeta *)
Definition transfer_to_meta (a : allocst) (t : txst) (reg : region) : allocst * txst :=
  let n := rcount reg in
  (set_meta a {| a_end := a_end (meta a); a_free := fl_add_region (a_free (meta a)) reg |} (metaTotal a + n),
   tx_stats (tx_with t (moveToMeta t ++ [reg]) (tdata t) (tmeta t)) 0 0 0 0 0 0 n).
Definition transfer_all (a : allocst) (t : txst) (regs : regions) : allocst * txst :=
  fold_left (fun '(a, t) r => transfer_to_meta a t r) regs (a, t).

(* metaManager.tryGrow *)
Definition try_grow (a : allocst) (t : txst) (count : Z) (withOverflow : bool) : bool * allocst * txst :=
  let av := data_avail a in
  if count =? 0 then (true, a, t)
  else if av <? count then
    if negb withOverflow then (false, a, t)
    else
      let '(regs, _, a1, t1) := data_alloc_regions a t av in
      let '(a2, t2) := transfer_all a1 t1 regs in
      let required := count - av in
      let oregs := area_regions 4 (a_end (meta a2)) required in
      (* allocFromArea(&st.meta, &mm.meta.endMarker, required, ...) *)
      let tm := ta_new (tmeta t2) (regions_ids oregs) in
      let f := fold_left fl_add_region oregs (a_free (meta a2)) in
      let a3 := set_meta a2 {| a_end := a_end (meta a2) + (if 0 <? required then required else 0); a_free := f |}
                         (metaTotal a2 + (if 0 <? required then required else 0)) in
      let t3 := tx_stats (tx_with t2 (moveToMeta t2) (tdata t2) tm) 0 0 0 0 required 0 required in
      let a4 := if (maxPages a3 =? 0) && (a_end (data a3) <? a_end (meta a3))
                then set_data a3 {| a_end := a_end (meta a3); a_free := a_free (data a3) |} else a3 in
      (true, a4, t3)
  else
    match data_alloc_cont a t count with
    | (Some reg, a1, t1) => let '(a2, t2) := transfer_to_meta a1 t1 reg in (true, a2, t2)
    | (None, _, _) =>
        let '(regs, n, a1, t1) := data_alloc_regions a t count in
        let '(a2, t2) := transfer_all a1 t1 regs in
        (n =? count, a2, t2)
    end.

(* metaManager.Ensure; None = an invariant.Check of the source fails (panic) *)
Definition ensure (a : allocst) (t : txst) (n : Z) : option (bool * allocst * txst) :=
  let total := metaTotal a in
  let av := avail (a_free (meta a)) in
  if total <? av then None
  else
    let used := total - av in
    let targetUsed := used + n in
    let pctGrow := pct t in
    let pctShrink := pctGrow / 2 in
    let '(szMin, szMax) := quota total targetUsed pctShrink pctGrow in
    if szMax <? szMin then None
    else if szMax =? total then Some (true, a, t)
    else if szMax <? total then None
    else
      match try_grow a t (szMax - total) false with
      | (true, a1, t1) => Some (true, a1, t1)
      | (false, a1, t1) => Some (try_grow a1 t1 (szMin - total) (ovf t))
      end.

(* walAllocator.Alloc: 0 = failure *)
Definition wal_alloc (a : allocst) (t : txst) : option (Z * allocst * txst) :=
  match ensure a t 1 with
  | None => None
  | Some (false, a1, t1) => Some (0, a1, t1)
  | Some (true, a1, t1) =>
      match fl_alloc_cont false (a_free (meta a1)) 1 with
      | (None, _) => Some (0, a1, t1)
      | (Some reg, f') =>
          Some (rid reg,
                set_meta a1 {| a_end := a_end (meta a1); a_free := f' |} (metaTotal a1),
                tx_stats (tx_with t1 (moveToMeta t1) (tdata t1) (ta_allocated (tmeta t1) [rid reg])) 0 0 1 0 0 0 0)
      end
  end.

(* metaAllocator.AllocRegions: [] = failure (nil) *)
Definition meta_alloc_regions (a : allocst) (t : txst) (n : Z) : option (regions * allocst * txst) :=
  match ensure a t n with
  | None => None
  | Some (false, a1, t1) => Some ([], a1, t1)
  | Some (true, a1, t1) =>
      let '(regs, f', tm, count) := alloc_from_freelist true (a_free (meta a1)) (tmeta t1) n in
      let a2 := set_meta a1 {| a_end := a_end (meta a1); a_free := f' |} (metaTotal a1) in
      let t2 := tx_stats (tx_with t1 (moveToMeta t1) (tdata t1) tm) 0 0 1 0 0 0 0 in
      Some (if count =? 0 then [] else regs, a2, t2)
  end.

(* metaManager.Free (wal / meta allocators) *)
Definition meta_free (t : txst) (id : Z) : txst :=
  tx_stats (tx_with t (moveToMeta t) (tdata t) (ta_freed (tmeta t) id)) 0 0 0 1 0 0 0.
Definition meta_free_regions (t : txst) (regs : regions) : txst :=
  fold_left meta_free (regions_ids regs) t.

(* end of dataAllocator.Free: the data end marker moves back to [start]; without an overflow area
   (meta end = data end) the file end marker follows (repair of D14) *)
Definition shrink_end (a : allocst) (start : Z) (f : freelist) : allocst :=
  let mend := if a_end (meta a) =? a_end (data a) then start else a_end (meta a) in
  set_meta (set_data a {| a_end := start; a_free := f |}) {| a_end := mend; a_free := a_free (meta a) |} (metaTotal a).

(* dataAllocator.Free; None = panic (id out of bounds) *)
Definition data_free (a : allocst) (t : txst) (id : Z) : option (allocst * txst) :=
  if (id <? 2) || (a_end (data a) <=? id) then None
  else
    let t0 := tx_stats t 0 1 0 0 0 0 0 in
    if negb (set_mem id (t_new (tdata t))) then
      Some (a, tx_with t0 (moveToMeta t0) (ta_freed (tdata t0) id) (tmeta t0))
    else
      let f := fl_add_region (a_free (data a)) {| rid := id; rcount := 1 |} in
      let a1 := set_data a {| a_end := a_end (data a); a_free := f |} in
      if id <=? t_end (tdata t) then Some (a1, t0)
      else
        let lr := last_region (fregions f) in
        if rend lr <? a_end (data a) then Some (a1, t0)
        else
          let old := t_end (tdata t) in
          if rid lr <? old then
            (* keep [start, old) of the last region *)
            let c := rend lr - old in
            let regs := removelast (fregions f) ++ [{| rid := rid lr; rcount := rcount lr - c |}] in
            Some (shrink_end a old {| avail := avail f - c; fregions := regs |}, t0)
          else
            Some (shrink_end a (rid lr) {| avail := avail f - rcount lr; fregions := removelast (fregions f) |}, t0).

Definition tx_area_updated (x : txarea) : bool :=
  match t_allocated x, t_new x, t_freed x with [], [], [] => false | _, _, _ => true end.
Definition tx_updated (t : txst) : bool := tx_area_updated (tmeta t) || tx_area_updated (tdata t).

(* allocCommitState after fileCommitAlloc *)
Record commitst := {
  c_updated : bool; c_allocRegions : regions;
  c_dataEnd : Z; c_metaEnd : Z; c_metaList : regions; c_dataList : regions;
  c_dataFreed : Z; c_ovfFreed : Z }.

Inductive cres := CPanic | COutOfMemory (a : allocst) (t : txst) | COk (c : commitst) (a : allocst) (t : txst).

(* the tail of fileCommitAlloc: pages at the end of the file beyond the size limit are released (the file is
   truncated to the new end marker after the commit); result: new meta list, new data list, new data end
   marker, new meta end marker, overflow pages freed, data pages freed *)
Definition commit_ends (newData newMeta : regions) (mx dEnd mEnd : Z) : regions * regions * Z * Z * Z * Z :=
  let '(metaList, ovfFreed) := release_overflow newMeta mx mEnd in
  let newEnd := mEnd - ovfFreed in
  let dEnd1 := if (0 <? ovfFreed) && (dEnd <? mEnd) then newEnd else dEnd in
  let mEnd1 := if 0 <? ovfFreed then newEnd else mEnd in
  (* pages at the end of the data area are given back only when no overflow area follows it (repair of D18;
     before, the release was unconditional and the meta end marker followed the data end marker) *)
  let '(dataList, dataFreedN) := if mEnd1 <=? dEnd1 then release_overflow newData mx dEnd1 else (newData, 0) in
  let dEnd2 := dEnd1 - dataFreedN in
  let mEnd2 := if (0 <? dataFreedN) && (dEnd2 <=? mEnd1) then dEnd2 else mEnd1 in
  (metaList, dataList, dEnd2, mEnd2, ovfFreed, dataFreedN).

(* fileCommitPrepare + freeMetaRegions(freelistPages) + fileCommitAlloc
   (updated0: csAlloc.updated as set by the caller, incl. the "wal pages allocated" case) *)
Definition commit_alloc (a : allocst) (t : txst) (updated : bool) : cres :=
  if negb updated then
    COk {| c_updated := false; c_allocRegions := []; c_dataEnd := 0; c_metaEnd := 0;
           c_metaList := []; c_dataList := []; c_dataFreed := 0; c_ovfFreed := 0 |} a t
  else
    let dataFreed := ids_regions (t_freed (tdata t)) in
    let metaFreed := ids_regions (t_freed (tmeta t)) in
    let payload := pageSize a - listPageHeaderSize in
    let p0 := {| p_count := 0; p_avail := 0 |} in
    let p1 := pred_add_all payload (pred_add_all payload (pred_add_all payload (pred_add_all payload p0 dataFreed) metaFreed)
                                      (fregions (a_free (data a)))) (fregions (a_free (meta a))) in
    let dummy := {| rid := 1; rcount := u32max |} in
    let p2 := if 0 <? p_count p1 then pred_add payload (pred_add payload p1 dummy) dummy else p1 in
    let n := p_count p2 in
    let alloc := if 0 <? n then meta_alloc_regions a t n else Some ([], a, t) in
    match alloc with
    | None => CPanic
    | Some (regs, a1, t1) =>
        if (0 <? n) && (match regs with [] => true | _ => false end) then COutOfMemory a1 t1
        else
          let newData := merge_region_lists (fregions (a_free (data a1))) dataFreed in
          let newMeta := merge_region_lists (fregions (a_free (meta a1))) metaFreed in
          let '(metaList, dataList, dEnd2, mEnd2, ovfFreed, dataFreedN) :=
            commit_ends newData newMeta (maxPages a1) (a_end (data a1)) (a_end (meta a1)) in
          COk {| c_updated := true; c_allocRegions := regs; c_dataEnd := dEnd2; c_metaEnd := mEnd2;
                 c_metaList := metaList; c_dataList := dataList; c_dataFreed := dataFreedN; c_ovfFreed := ovfFreed |}
              a1 (tx_stats t1 0 0 0 0 0 ovfFreed 0)
    end.

(* allocator.Commit *)
Definition commit_apply (a : allocst) (c : commitst) : allocst :=
  if c_updated c then
    {| maxPages := maxPages a; pageSize := pageSize a;
       meta := {| a_end := c_metaEnd c; a_free := {| avail := count_pages (c_metaList c); fregions := c_metaList c |} |};
       metaTotal := metaTotal a - c_ovfFreed c;
       data := {| a_end := c_dataEnd c; a_free := {| avail := count_pages (c_dataList c); fregions := c_dataList c |} |};
       flRoot := match c_allocRegions c with [] => 0 | r :: _ => rid r end;
       flPages := c_allocRegions c |}
  else a.

(* allocArea.rollback (with the repair of D9: entries past the restored end marker are dropped) *)
Definition area_rollback (ar : area) (x : txarea) : area :=
  let allocated := filter (fun id => id <? t_end x) (t_allocated x) in
  let f1 := if t_end x <? a_end ar
            then fl_remove_region (a_free ar) {| rid := t_end x; rcount := (a_end ar - t_end x) mod 2^32 |}
            else a_free ar in
  {| a_end := t_end x; a_free := fl_add_regions f1 (ids_regions allocated) |}.

(* allocator.Rollback *)
Definition rollback (a : allocst) (t : txst) : allocst :=
  let m1 := area_rollback (meta a) (tmeta t) in
  let mt1 := metaTotal a - st_ovf_alloc t in
  let '(mf, mt, dalloc) :=
    fold_left (fun '(mf, mt, dalloc) reg =>
                 (fl_remove_region mf reg, mt - rcount reg,
                  if rid reg <? t_end (tdata t) then set_add_all (region_ids reg) dalloc else dalloc))
              (moveToMeta t) (a_free m1, mt1, t_allocated (tdata t)) in
  let td := {| t_end := t_end (tdata t); t_allocated := dalloc; t_new := t_new (tdata t); t_freed := t_freed (tdata t) |} in
  {| maxPages := maxPages a; pageSize := pageSize a;
     meta := {| a_end := a_end m1; a_free := mf |}; metaTotal := mt;
     data := area_rollback (data a) td;
     flRoot := flRoot a; flPages := flPages a |}.

(* the allocator part of a commit as driven by tx.go: commitPrepareAlloc (release of the old
   free-list pages when the transaction changed the allocator), csAlloc.updated ||= extra,
   fileCommitAlloc, Commit *)
Inductive commit_outcome := CoOk (a : allocst) | CoOOM (a : allocst) (t : txst) | CoPanic.
Definition commit_step (a : allocst) (t : txst) (extra : bool) : commit_outcome :=
  let upd := tx_updated t in
  let t1 := if upd then meta_free_regions t (flPages a) else t in
  match commit_alloc a t1 (upd || extra) with
  | CPanic => CoPanic
  | COutOfMemory a2 t2 => CoOOM a2 t2
  | COk c a2 t2 => CoOk (commit_apply a2 c)
  end.

(* a commit that fails after its allocation step (an I/O error while the free-list pages, the header or the data
   pages are written): tx.go rolls the transaction back; nothing of fileCommitPrepare / fileCommitAlloc may be left
   in the allocator *)
Definition commit_fail_step (a : allocst) (t : txst) (extra : bool) : commit_outcome :=
  let upd := tx_updated t in
  let t1 := if upd then meta_free_regions t (flPages a) else t in
  match commit_alloc a t1 (upd || extra) with
  | CPanic => CoPanic
  | COutOfMemory a2 t2 => CoOOM a2 t2
  | COk c a2 t2 => CoOk (rollback a2 t2)
  end.

(* file.go initTxMaxSize (open with FlagUpdMaxSize, the limit grows or is removed): the data end marker committed by
   the transaction that updates the limit (repairs D12 and D20) *)
Definition grow_data_end (oldMax newMax dataEnd metaEnd : Z) : Z :=
  if (0 <? oldMax) && (oldMax <? metaEnd) && ((newMax =? 0) || (oldMax <? newMax))
  then Z.max dataEnd (if (0 <? newMax) && (newMax <? metaEnd) then newMax else metaEnd)
  else dataEnd.

(* alloc.go readAllocatorState: the number of pages of a bounded file = the COMPLETE pages below the maximum size
   (0: unbounded); max_pages_ceil is the rounding of seeded change C11j (as computeMmapSize rounds) *)
Definition max_pages_of (maxSize pageSize : Z) : Z := if 0 <? maxSize then maxSize / pageSize else 0.
Definition max_pages_ceil (maxSize pageSize : Z) : Z := if 0 <? maxSize then (maxSize + pageSize - 1) / pageSize else 0.
