(* The write discipline of the commit protocol as an executable monitor over the disk trace of an
   execution (page writes, completed syncs, "Commit returned success"), and the recovery view it
   protects. Instantiates the abstract crash theorem (Proofs/Crash.v). *)
From VF Require Export Recover CrashModel.

Definition cell := option page.           (* content of one page slot of the disk *)
Definition cdisk := Z -> cell.

(* a valid header page: (txid, decoded header) *)
Definition hdr_of (c : cell) : option (Z * header) :=
  match c with
  | Some pg => if valid_slot pg then Some (h_txid (decode_header pg), decode_header pg) else None
  | None => None
  end.

Definition all_ge2 (l : list Z) : bool := forallb (fun p => 2 <=? p) l.

(* what a reader of the recovered state can reach: the allocator/mapping state plus the content of
   every protected page (live user pages at their physical location, overwrite pages, meta pages);
   footprint = the pages that were read for that *)
Definition view := (rstate * list cell)%type.

Definition chase_full (fuel : nat) (d : cdisk) (h : header) : option (view * list Z) :=
  match chase fuel d h with
  | None => None
  | Some (st, mfp) =>
      if negb (all_ge2 mfp) then None
      else
        let top := Z.max (r_dataEnd st) (r_metaEnd st) in
        let prot := filter (protected_page st) (seqZ 2 (Z.to_nat (top - 2))) in
        Some ((st, map d prot), mfp ++ prot)
  end.

Definition nxt_txid (t : Z) : Z := (t + 1) mod 2^64.

(* ---- the monitor: the abstract discipline instantiated with the concrete header / recovery ---- *)
Definition mon := mst cell header view.
Definition mev := ev cell.

Definition mon_step (fuel : nat) : mon -> mev -> option mon :=
  step cell header view hdr_of (chase_full fuel) nxt_txid.
Definition mon_run (fuel : nat) : mon -> list mev -> option mon :=
  run cell header view hdr_of (chase_full fuel) nxt_txid.
Definition mon_recover (fuel : nat) : cdisk -> option view :=
  recover cell header view hdr_of (chase_full fuel) txid_newer.

(* older: strictly older in the modular order used by readValidMeta *)
Definition older_txid (t' t : Z) : bool := txid_newer t t' && negb (txid_newer t' t).

(* initial monitor state from a synced disk (after file creation or after an open): the newest valid
   header is active, the other slot must be invalid or strictly older *)
Definition mon_init (fuel : nat) (base : cdisk) : option mon :=
  let pick (a : bool) :=
    match hdr_of (base (slotp a)) with
    | Some (t, h) =>
        let other_ok := match hdr_of (base (slotp (negb a))) with
                        | None => true
                        | Some (t', _) => older_txid t' t
                        end in
        if other_ok then
          match chase_full fuel base h with
          | Some (v, fp) => Some {| dd := base; pend := []; act := a; txid := t; cst := v; cfp := fp; infl := None |}
          | None => None
          end
        else None
    | None => None
    end in
  match pick false with Some m => Some m | None => pick true end.
