(* file.go init / readWALMapping / readAllocatorState: the state recovered from a disk image. *)
From VF Require Export Meta Pages Freelist.

Record rstate := {
  r_root : Z; r_txid : Z; r_maxSize : Z;
  r_wal : list (Z * Z);          (* overwrite mapping entries in file order *)
  r_walpages : list Z;           (* pages holding the mapping *)
  r_flpages : list Z;            (* pages holding the free lists *)
  r_metaFree : regions; r_dataFree : regions;
  r_dataEnd : Z; r_metaEnd : Z; r_metaTotal : Z }.

Definition split_entries (es : list (bool * region)) : regions * regions :=
  (map snd (filter (fun e => fst e) es), map snd (filter (fun e => negb (fst e)) es)).

(* follow both chains named by a header. Result: recovered state + the pages that were read *)
Definition chase (fuel : nat) (d : pdisk) (h : header) : option (rstate * list Z) :=
  match read_wal fuel d (h_wal h) with
  | None => None
  | Some (wids, wes) =>
      match read_freelist fuel d (h_freelist h) with
      | None => None
      | Some (fids, fes) =>
          let '(mf, df) := split_entries fes in
          Some ({| r_root := h_root h; r_txid := h_txid h; r_maxSize := h_maxSize h;
                   r_wal := wes; r_walpages := wids; r_flpages := fids;
                   r_metaFree := optimize mf; r_dataFree := optimize df;
                   r_dataEnd := h_dataEnd h; r_metaEnd := h_metaEnd h; r_metaTotal := h_metaTotal h |},
                wids ++ fids)
      end
  end.

(* the pages a reader of the recovered state may touch / that must not be written while the state is
   the committed one: everything below the end markers that is neither free nor the shadowed original
   location of an overwritten page *)
Fixpoint in_regions (id : Z) (l : regions) : bool :=
  match l with [] => false | r :: tl => ((rid r <=? id) && (id <? rend r)) || in_regions id tl end.

Definition shadowed (st : rstate) (id : Z) : bool := negb (wal_lookup (r_wal st) id =? 0).

Definition protected_page (st : rstate) (id : Z) : bool :=
  (2 <=? id) && (id <? Z.max (r_dataEnd st) (r_metaEnd st)) &&
  negb (in_regions id (r_metaFree st)) && negb (in_regions id (r_dataFree st)) && negb (shadowed st id).

(* a disk image as page store: pages inside the image hold its bytes, pages beyond it but inside the
   memory mapping read as zeroes, pages beyond the mapping are out of bounds *)
Definition image_disk (ps : nat) (mappedPages : Z) (img : list Z) : pdisk :=
  fun id =>
    if (id <? 0) || (mappedPages <=? id) then None
    else let p := slice (Z.to_nat id * ps) ps img in
         Some (p ++ zeros (ps - length p)).

Inductive recovered := RecErr | RecOk (active : Z) (st : rstate) (fp : list Z).

(* the open path on an image: header selection, then both chains *)
Definition recover_image (ps : nat) (mappedPages : Z) (img : list Z) : recovered :=
  match read_valid_meta img, selected_slot (read_slot img) with
  | SelOk act _, Some slot =>
      match chase (S (Z.to_nat mappedPages)) (image_disk ps mappedPages img) (decode_header slot) with
      | None => RecErr
      | Some (st, fp) => RecOk act st fp
      end
  | _, _ => RecErr
  end.
