(* write.go: error handling of the asynchronous writer. The first failing disk call makes the error
   sticky: later page writes and syncs are not attempted at all, every pending request is answered
   with the error, and only a sync carrying the reset flag (issued by the commit that failed, or by
   its cleanup) clears it. *)
From Coq Require Export ZArith List Bool.
Export ListNotations.
Open Scope Z_scope.

Inductive wop := WWrite (id : Z) | WSync (reset : bool).

(* outcome of one queued request *)
Record wres := { r_op : wop; r_attempted : bool; r_effective : bool; r_reported_err : bool }.

(* plan k = true: the k-th disk call that is actually attempted fails *)
Fixpoint run_writer (plan : nat -> bool) (ops : list wop) (err : bool) (k : nat) : list wres * bool * nat :=
  match ops with
  | [] => ([], err, k)
  | op :: rest =>
      match op with
      | WWrite id =>
          if err then
            let '(rs, e, k') := run_writer plan rest true k in
            ({| r_op := op; r_attempted := false; r_effective := false; r_reported_err := true |} :: rs, e, k')
          else
            let failed := plan k in
            let '(rs, e, k') := run_writer plan rest failed (S k) in
            ({| r_op := op; r_attempted := true; r_effective := negb failed; r_reported_err := failed |} :: rs, e, k')
      | WSync reset =>
          if err then
            let '(rs, e, k') := run_writer plan rest (if reset then false else true) k in
            ({| r_op := op; r_attempted := false; r_effective := false; r_reported_err := true |} :: rs, e, k')
          else
            let failed := plan k in
            let '(rs, e, k') := run_writer plan rest (if reset then false else failed) (S k) in
            ({| r_op := op; r_attempted := true; r_effective := negb failed; r_reported_err := failed |} :: rs, e, k')
      end
  end.

(* the requests of one commit: page writes, sync, header write, sync with reset *)
Definition commit_prog (pages : list Z) (hdr : Z) : list wop :=
  map WWrite pages ++ [WSync false; WWrite hdr; WSync true].

(* a commit reports success iff the last request (the final sync) reports no error; since the error
   is sticky this is the same as "no request of the commit reported an error" *)
Definition commit_reports_error (rs : list wres) : bool := existsb r_reported_err rs.

(* a transaction that is rolled back / closed after Tx.Flush or Page.Flush scheduled page writes. Since the
   repair of D16 Rollback and Close wait for these writes and, if one of them reported an error, issue a sync
   request with the reset flag. *)
Definition abort_prog (pages : list Z) : list wop := map WWrite pages.
Definition run_abort (fixed : bool) (plan : nat -> bool) (pages : list Z) (err : bool) (k : nat) : list wres * bool * nat :=
  let '(rs, e, k') := run_writer plan (abort_prog pages) err k in
  if fixed && existsb r_reported_err rs then
    let '(rs2, e2, k2) := run_writer plan [WSync true] e k' in (rs ++ rs2, e2, k2)
  else (rs, e, k').
