(* file.go Open: exit paths over an abstract exclusive per-path lock (osfs/lock.go: flock on
   <path>.lock, non blocking unless FlagWaitLock). *)
From Coq Require Export List Bool.
Export ListNotations.

(* what can go wrong in one Open call (decided by the caller's options / the file's contents / the OS) *)
Record open_env := {
  opts_valid : bool;      (* Options.Validate *)
  os_open_ok : bool;      (* osfs.Open *)
  init_ok : bool }.       (* openWith: size / header validation / mmap / max-size update *)

Inductive open_result := OpenOk | OpenErrLock | OpenErrOther.

(* state: is the path lock held (by an open File)? *)
Definition open_step (held : bool) (e : open_env) : open_result * bool :=
  if negb (opts_valid e) then (OpenErrOther, held)
  else if negb (os_open_ok e) then (OpenErrOther, held)
  else if held then (OpenErrLock, held)                (* file.Lock fails; the new handle is closed *)
  else if negb (init_ok e) then (OpenErrOther, false)  (* deferred Unlock + Close *)
  else (OpenOk, true).

Definition close_step (held : bool) : bool := false.   (* File.Close: Unlock + Close *)

Inductive pop := DoOpen (e : open_env) | DoClose.

(* a run: the list of results of the Open calls, and the final lock state. A Close is only issued
   for a File that is open (n = number of open Files, 0 or 1) *)
Fixpoint run (held : bool) (ops : list pop) : list open_result * bool :=
  match ops with
  | [] => ([], held)
  | DoOpen e :: rest => let '(r, h) := open_step held e in let '(rs, hf) := run h rest in (r :: rs, hf)
  | DoClose :: rest => run (if held then close_step held else held) rest
  end.
