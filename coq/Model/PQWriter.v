(* pq/buffer.go + pq/writer.go: the queue writer. The write buffer is a list of in-memory pages (head .. tail); events
   are appended to the tail page (Append, ReserveHdr, CommitEvent), a flush (doFlush) selects the range of pages to
   publish (Pages), assigns page ids to the pages that have none, links them, writes them in one transaction together
   with the queue header (head / tail positions, page count), and releases the pages that are no longer needed
   (Reset). A flush may fail before the page allocation (nothing changes) or after it (the ids are taken back).
   The model keeps the released pages (ws_hist) and emits the page images of every successful flush, so that the
   theorems can talk about the complete chain of pages ever written. *)
From VF Require Export PQ.
From Coq Require Import Lia.

Definition pgH : nat := Z.to_nat pq_szEventPageHeader.

(* wp_data: the payload bytes written so far (Meta.EndOff = pgH + length); wp_next: the link in the page header
   bytes (SetNext); -1 = a link left behind by a failed flush (its target id was taken back) *)
(* wp_disk (ghost, not part of the implementation's state): the payload as it was last written to the file for this
   page object; None = never written *)
Record wpage := { wp_id : Z; wp_first : Z; wp_last : Z; wp_off : nat; wp_dirty : bool; wp_next : Z; wp_data : list Z;
                  wp_disk : option (list Z) }.

Definition fresh_wpage : wpage :=
  {| wp_id := 0; wp_first := 0; wp_last := 0; wp_off := 0; wp_dirty := false; wp_next := 0; wp_data := []; wp_disk := None |}.

Definition set_data (p : wpage) (d : list Z) : wpage :=
  {| wp_id := wp_id p; wp_first := wp_first p; wp_last := wp_last p; wp_off := wp_off p; wp_dirty := wp_dirty p;
     wp_next := wp_next p; wp_data := d; wp_disk := wp_disk p |}.
Definition set_dirty (v : bool) (p : wpage) : wpage :=
  {| wp_id := wp_id p; wp_first := wp_first p; wp_last := wp_last p; wp_off := wp_off p; wp_dirty := v;
     wp_next := wp_next p; wp_data := wp_data p; wp_disk := wp_disk p |}.
Definition set_id (v : Z) (p : wpage) : wpage :=
  {| wp_id := v; wp_first := wp_first p; wp_last := wp_last p; wp_off := wp_off p; wp_dirty := wp_dirty p;
     wp_next := wp_next p; wp_data := wp_data p; wp_disk := wp_disk p |}.
Definition set_next (v : Z) (p : wpage) : wpage :=
  {| wp_id := wp_id p; wp_first := wp_first p; wp_last := wp_last p; wp_off := wp_off p; wp_dirty := wp_dirty p;
     wp_next := v; wp_data := wp_data p; wp_disk := wp_disk p |}.
Definition set_disk (v : option (list Z)) (p : wpage) : wpage :=
  {| wp_id := wp_id p; wp_first := wp_first p; wp_last := wp_last p; wp_off := wp_off p; wp_dirty := wp_dirty p;
     wp_next := wp_next p; wp_data := wp_data p; wp_disk := v |}.

Fixpoint upd_nth {A} (i : nat) (f : A -> A) (l : list A) : list A :=
  match l, i with
  | [], _ => []
  | x :: r, O => f x :: r
  | x :: r, S j => x :: upd_nth j f r
  end.
Definition upd_last {A} (f : A -> A) (l : list A) : list A := upd_nth (length l - 1) f l.

(* b_hdr: (index of the page that holds the header of the event being written, offset of that header in the page) *)
Record wbuf := { b_pages : list wpage; b_avail : Z; b_hdr : option (nat * nat); b_count : Z }.

Section Writer.
Variable PS : nat.                                  (* page size *)
Definition payload : nat := (PS - pgH)%nat.

Definition tail_len (b : wbuf) : nat :=
  match rev (b_pages b) with [] => payload | t :: _ => length (wp_data t) end.
Definition room (b : wbuf) : nat := (payload - tail_len b)%nat.      (* len(b.payload) *)

Definition advance (b : wbuf) : wbuf :=
  {| b_pages := b_pages b ++ [fresh_wpage]; b_avail := b_avail b; b_hdr := b_hdr b; b_count := b_count b + 1 |}.

Definition push (d : list Z) (p : wpage) : wpage := set_data p (wp_data p ++ d).

(* Append copies as much as fits into the current page and continues on a fresh one: byte by byte this is *)
Definition append_byte (b : wbuf) (x : Z) : wbuf :=
  let b1 := if (room b =? 0)%nat then advance b else b in
  {| b_pages := upd_last (push [x]) (b_pages b1); b_avail := b_avail b1 - 1; b_hdr := b_hdr b1; b_count := b_count b1 |}.
Definition append (b : wbuf) (data : list Z) : wbuf := fold_left append_byte data b.

Definition reserve_hdr (b : wbuf) : wbuf :=
  let b1 := if (room b <? hdr_len)%nat then advance b else b in
  {| b_pages := upd_last (push (zeros hdr_len)) (b_pages b1); b_avail := b_avail b1 - Z.of_nat hdr_len;
     b_hdr := Some ((length (b_pages b1) - 1)%nat, (pgH + tail_len b1)%nat); b_count := b_count b1 |}.

(* Writer.Next: hdr.sz.Set(eventBytes) into the reserved header bytes *)
Definition set_hdr_size (b : wbuf) (sz : Z) : wbuf :=
  match b_hdr b with
  | None => b
  | Some (i, off) =>
      {| b_pages := upd_nth i (fun p => set_data p (splice (off - pgH) (le_encode hdr_len sz) (wp_data p))) (b_pages b);
         b_avail := b_avail b; b_hdr := b_hdr b; b_count := b_count b |}
  end.

Fixpoint mark_from (i : nat) (l : list wpage) : list wpage :=
  match l, i with
  | [], _ => []
  | x :: r, O => set_dirty true x :: mark_from O r
  | x :: r, S j => x :: mark_from j r
  end.

Definition commit_event (b : wbuf) (id : Z) : wbuf :=
  match b_hdr b with
  | None => b
  | Some (i, off) =>
      let ps1 := upd_nth i (fun p =>
                   if (wp_off p =? 0)%nat
                   then {| wp_id := wp_id p; wp_first := id; wp_last := id; wp_off := off; wp_dirty := wp_dirty p;
                           wp_next := wp_next p; wp_data := wp_data p; wp_disk := wp_disk p |}
                   else {| wp_id := wp_id p; wp_first := wp_first p; wp_last := id; wp_off := wp_off p; wp_dirty := wp_dirty p;
                           wp_next := wp_next p; wp_data := wp_data p; wp_disk := wp_disk p |}) (b_pages b) in
      let ps2 := mark_from i ps1 in
      let ps3 := if (i =? 1)%nat then upd_nth 0 (set_dirty true) ps2 else ps2 in     (* head not yet linked to the event's page *)
      {| b_pages := ps3; b_avail := b_avail b; b_hdr := None; b_count := b_count b |}
  end.

(* buffer.Pages: number of pages (from the head) to publish, and the count reported to the caller *)
Fixpoint first_clean (l : list wpage) : nat :=
  match l with [] => O | x :: r => if wp_dirty x then S (first_clean r) else O end.

Definition flush_range (b : wbuf) : nat * Z :=
  match b_pages b with
  | [] => (O, 0)
  | h :: _ =>
      if negb (wp_dirty h) then (O, 0)
      else match b_hdr b with
           | None =>
               match rev (b_pages b) with
               | t :: _ => if wp_dirty t then (length (b_pages b), b_count b)
                           else let k := first_clean (b_pages b) in (k, Z.of_nat k)
               | [] => (O, 0)
               end
           | Some (i, _) =>
               let e := if wp_dirty (nth i (b_pages b) fresh_wpage) then S i else i in (e, Z.of_nat e)
           end
  end.

(* buffer.Reset(last): number of pages released from the head *)
Fixpoint reset_end (l : list wpage) (i : nat) (hdr : option nat) (last : nat) : nat :=
  match l with
  | cur :: ((nxt :: _) as tl) =>
      if match hdr with Some h => (h =? i)%nat | None => false end then i
      else if wp_dirty nxt || (i =? last)%nat then i
      else reset_end tl (S i) hdr last
  | _ => i
  end.

Fixpoint sum_data (l : list wpage) : Z :=
  match l with [] => 0 | x :: r => Z.of_nat (length (wp_data x)) + sum_data r end.

Fixpoint first_unassigned (l : list wpage) : nat :=
  match l with [] => O | x :: r => if wp_id x =? 0 then O else S (first_unassigned r) end.

(* allocatePages: ids for the pages u .. of the flushed range, in order *)
Fixpoint assign (ids : list Z) (l : list wpage) : list wpage :=
  match l, ids with
  | x :: r, id :: ids' => set_id id x :: assign ids' r
  | _, _ => l
  end.
(* linkPages: every page of the range but the last one names its successor *)
Fixpoint link (l : list wpage) : list wpage :=
  match l with
  | x :: ((y :: _) as r) => set_next (wp_id y) x :: link r
  | _ => l
  end.
Fixpoint stale_links (l : list wpage) : list wpage :=
  match l with
  | x :: ((y :: _) as r) => set_next (-1) x :: stale_links r
  | _ => l
  end.

(* queue header fields the writer maintains: positions are (page id, offset in the page, event id) *)
Record qroot := { q_head : option (Z * nat * Z); q_tail : Z * nat * Z; q_inuse : Z }.

(* what a successful flush writes: the page images (id, next, first id, last id, first offset, payload written) *)
Definition wimage := (Z * Z * Z * Z * nat * list Z)%type.
Definition image_of (p : wpage) : wimage := (wp_id p, wp_next p, wp_first p, wp_last p, wp_off p, wp_data p).

Record wst := { ws_buf : wbuf; ws_evBytes : Z; ws_evId : Z; ws_active : Z; ws_root : qroot; ws_hist : list wpage }.

Inductive foutcome := FOk (ids : list Z) | FFailEarly | FFailLate (ids : list Z).
(* result of a flush: None = nothing to do; Some (ok, images, pages, allocated) *)
Inductive fresult := FNothing | FDone (imgs : list wimage) (pages allocated : Z) | FFailed (pages allocated : Z).

Definition with_buf (s : wst) (b : wbuf) : wst :=
  {| ws_buf := b; ws_evBytes := ws_evBytes s; ws_evId := ws_evId s; ws_active := ws_active s; ws_root := ws_root s; ws_hist := ws_hist s |}.

Definition do_flush (s : wst) (fo : foutcome) : wst * fresult :=
  let b := ws_buf s in
  let '(n, reported) := flush_range b in
  match n with
  | O => (s, FNothing)
  | S n1 =>
      let range := firstn n (b_pages b) in
      let rest := skipn n (b_pages b) in
      let u := first_unassigned range in
      let allocated := Z.of_nat (n - u) in
      match fo with
      | FFailEarly => (s, FFailed reported allocated)
      | FFailLate ids =>
          let range1 := firstn u range ++ assign ids (skipn u range) in
          let range2 := stale_links range1 in
          let range3 := firstn u range2 ++ map (set_id 0) (skipn u range2) in
          (with_buf s {| b_pages := range3 ++ rest; b_avail := b_avail b; b_hdr := b_hdr b; b_count := b_count b |},
           FFailed reported allocated)
      | FOk ids =>
          let range1 := firstn u range ++ assign ids (skipn u range) in
          let range2 := link range1 in
          let first := nth O range2 fresh_wpage in
          let last := nth n1 range2 fresh_wpage in
          let endOff := match b_hdr b with
                        | Some (i, off) => if (i =? n1)%nat then off else (pgH + length (wp_data last))%nat
                        | None => (pgH + length (wp_data last))%nat
                        end in
          let r := ws_root s in
          let root' := {| q_head := match q_head r with Some h => Some h
                                    | None => Some (wp_id first, wp_off first, wp_first first) end;
                          q_tail := (wp_id last, endOff, ws_evId s);
                          q_inuse := q_inuse r + allocated |} in
          let clean := map (fun p => set_disk (Some (wp_data p)) (set_dirty false p)) range2 ++ rest in
          let k := reset_end clean O (option_map fst (b_hdr b)) n1 in
          let b' := {| b_pages := skipn k clean;
                       b_avail := b_avail b + sum_data (firstn k clean);
                       b_hdr := match b_hdr b with Some (i, off) => Some ((i - k)%nat, off) | None => None end;
                       b_count := b_count b - Z.of_nat k |} in
          ({| ws_buf := b'; ws_evBytes := ws_evBytes s; ws_evId := ws_evId s; ws_active := ws_active s; ws_root := root';
              ws_hist := ws_hist s ++ firstn k clean |},
           FDone (map image_of range2) reported allocated)
      end
  end.

(* flushBuffer: statistics are reset and the Flushed callback is invoked only when the flush did not fail
   (also when there was nothing to write) *)
Inductive wres := WOk (flushed : option (fresult * Z)) | WErr (flushed : fresult).

Definition flush_buffer (s : wst) (fo : foutcome) : wst * wres :=
  let '(s1, r) := do_flush s fo in
  match r with
  | FFailed _ _ => (s1, WErr r)
  | _ => ({| ws_buf := ws_buf s1; ws_evBytes := ws_evBytes s1; ws_evId := ws_evId s1; ws_active := 0; ws_root := ws_root s1;
             ws_hist := ws_hist s1 |}, WOk (Some (r, ws_active s)))
  end.

Inductive wop := WWrite (data : list Z) (fo : foutcome) | WNext (fo : foutcome) | WFlush (fo : foutcome).

Definition w_step (s : wst) (o : wop) : wst * wres :=
  match o with
  | WWrite data fo =>
      let go (s1 : wst) :=
        {| ws_buf := append (ws_buf s1) data; ws_evBytes := ws_evBytes s1 + Z.of_nat (length data); ws_evId := ws_evId s1;
           ws_active := ws_active s1; ws_root := ws_root s1; ws_hist := ws_hist s1 |} in
      if b_avail (ws_buf s) <=? Z.of_nat (length data) then
        match flush_buffer s fo with
        | (s1, WErr r) => (s1, WErr r)
        | (s1, ok) => (go s1, ok)
        end
      else (go s, WOk None)
  | WNext fo =>
      let b1 := reserve_hdr (commit_event (set_hdr_size (ws_buf s) (ws_evBytes s)) (ws_evId s)) in
      let s1 := {| ws_buf := b1; ws_evBytes := 0; ws_evId := ws_evId s + 1; ws_active := ws_active s + 1; ws_root := ws_root s;
                   ws_hist := ws_hist s |} in
      if b_avail b1 <=? Z.of_nat hdr_len then flush_buffer s1 fo else (s1, WOk None)
  | WFlush fo => flush_buffer s fo
  end.

Fixpoint w_run (s : wst) (ops : list wop) : wst * list wres :=
  match ops with
  | [] => (s, [])
  | o :: rest => let '(s1, r) := w_step s o in let '(s2, rs) := w_run s1 rest in (s2, r :: rs)
  end.

(* newWriter / newBuffer: [pages] = write buffer size in pages (at least defaultMinPages), tail = the last page of
   the queue as read from the file (payload bytes up to the persisted end offset), endId = id of the next event *)
Definition w_init (pages : Z) (tail : option wpage) (endId : Z) (r : qroot) : wst :=
  let b0 := match tail with
            | None => {| b_pages := []; b_avail := Z.of_nat payload * pages; b_hdr := None; b_count := 0 |}
            | Some t => {| b_pages := [t]; b_avail := Z.of_nat payload * pages - Z.of_nat (length (wp_data t));
                           b_hdr := None; b_count := 1 |}
            end in
  {| ws_buf := reserve_hdr b0; ws_evBytes := 0; ws_evId := endId; ws_active := 0; ws_root := r; ws_hist := [] |}.

End Writer.
