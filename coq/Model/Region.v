(* region.go: regions, region lists, run-length codec of free-list entries. *)
From VF Require Export Bytes Consts.

Record region := { rid : Z; rcount : Z }.            (* count is a uint32 in the source *)
Definition rend (r : region) : Z := rid r + rcount r.
Definition regions := list region.

Definition u32max : Z := 2^32 - 1.

(* regionsMergable: a directly precedes b (after ordering by id) and the counter does not overflow *)
Definition mergeable (a b : region) : bool :=
  let '(x, y) := if rid a <? rid b then (a, b) else (b, a) in
  (rend x =? rid y) && (rcount x <? (rcount x + rcount y) mod 2^32).
Definition merge (a b : region) : region := {| rid := rid a; rcount := (rcount a + rcount b) mod 2^32 |}.

(* regionList.MergeAdjacent *)
Fixpoint merge_adjacent_from (cur : region) (l : regions) : regions :=
  match l with
  | [] => [cur]
  | r :: tl => if mergeable cur r then merge_adjacent_from (merge cur r) tl
               else cur :: merge_adjacent_from r tl
  end.
Definition merge_adjacent (l : regions) : regions :=
  match l with [] => [] | r :: tl => merge_adjacent_from r tl end.

(* mergeRegionLists: merge of two sorted lists (ties: element of b first), then MergeAdjacent *)
Fixpoint merge_sorted (a : regions) : regions -> regions :=
  fix inner (b : regions) : regions :=
    match a, b with
    | [], _ => b
    | _, [] => a
    | x :: a', y :: b' => if rid x <? rid y then x :: merge_sorted a' b else y :: inner b'
    end.
Definition merge_region_lists (a b : regions) : regions := merge_adjacent (merge_sorted a b).

Fixpoint insert_region (r : region) (l : regions) : regions :=
  match l with
  | [] => [r]
  | x :: tl => if rid r <? rid x then r :: l else x :: insert_region r tl
  end.
Definition sort_regions (l : regions) : regions := fold_right insert_region [] l.
(* optimizeRegionList *)
Definition optimize (l : regions) : regions := merge_adjacent (sort_regions l).

Definition count_pages (l : regions) : Z := fold_left (fun acc r => acc + rcount r) l 0.

Fixpoint seqZ (start : Z) (n : nat) : list Z :=
  match n with O => [] | S n' => start :: seqZ (start + 1) n' end.
Definition region_ids (r : region) : list Z := seqZ (rid r) (Z.to_nat (rcount r)).
Definition regions_ids (l : regions) : list Z := flat_map region_ids l.

(* sorted duplicate free id sets (pageSet) *)
Fixpoint set_add (x : Z) (s : list Z) : list Z :=
  match s with
  | [] => [x]
  | y :: tl => if x <? y then x :: s else if x =? y then s else y :: set_add x tl
  end.
Fixpoint set_mem (x : Z) (s : list Z) : bool :=
  match s with [] => false | y :: tl => (x =? y) || set_mem x tl end.
Definition set_add_all (xs s : list Z) : list Z := fold_left (fun acc x => set_add x acc) xs s.
(* pageSet.Regions / idList.Regions: one region per id, sorted, merged *)
Definition ids_regions (s : list Z) : regions := optimize (map (fun id => {| rid := id; rcount := 1 |}) s).

(* ---- codec ---- *)
Definition entry_shift : Z := 64 - entryBits.
Definition meta_flag : Z := 2^63.

Definition region_enc_size (r : region) : Z := if rcount r <? entryOverflow then 8 else 12.

Definition encode_region (isMeta : bool) (r : region) : list Z :=
  let flag := if isMeta then meta_flag else 0 in
  if rcount r <? entryOverflow then
    le_encode 8 (Z.lor (Z.lor flag (Z.shiftl (rcount r) entry_shift)) (rid r))
  else
    le_encode 8 (Z.lor (Z.lor flag (Z.shiftl entryOverflow entry_shift)) (rid r)) ++ le_encode 4 (rcount r).

(* returns (isMeta, region, bytes consumed) *)
Definition decode_region (buf : list Z) : bool * region * Z :=
  let value := get_le 0 8 buf in
  let id := (value * 2^entryBits) mod 2^64 / 2^entryBits in
  let isMeta := Z.land meta_flag value =? meta_flag in
  let count := Z.land (Z.shiftr value entry_shift) (2^(entryBits - 1) - 1) in
  if count =? 0 then (isMeta, {| rid := id; rcount := 1 |}, 8)
  else if count =? entryOverflow then (isMeta, {| rid := id; rcount := get_le 8 4 buf |}, 12)
  else (isMeta, {| rid := id; rcount := count |}, 8).
