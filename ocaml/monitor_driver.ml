(* driver for the crash monitor: state kept between requests *)
open Model
open Driver_util

let cur : mon option ref = ref None
let fuel = ref (nat_of_int 4096)

(* mon_init <pageSize> <mappedPages> <image hex> *)
let init (a : string list) : string =
  match a with
  | [ps; mp; img] ->
    let psn = nat_of_int (int_of_string ps) in
    let base = image_disk psn (z_of_string mp) (bytes_of_tok img) in
    fuel := nat_of_int (int_of_string mp + 64);
    (match mon_init !fuel base with
     | Some m -> cur := Some m; "ok " ^ (if m.act then "1" else "0") ^ " " ^ string_of_z m.txid ^ " " ^ string_of_int (List.length m.cfp)
     | None -> cur := None; "REJECT no valid initial state")
  | _ -> failwith "args"

let why (m : mon) (p : z) : string =
  let pi = int_of_z p in
  let inact = if m.act then 0 else 1 in
  if pi = inact then
    (match m.infl, m.pend with
     | Some _, _ -> "a header write is already in flight"
     | None, _ :: _ -> "header written while earlier page writes are not yet synced"
     | None, [] -> "header is invalid, has the wrong txid, or the state it describes is not recoverable from the durable disk")
  else if pi = 1 - inact then "write to the ACTIVE header slot"
  else if pi < 2 then "bad page id"
  else (match m.infl with
        | Some _ -> "page write between the header write and the end of the commit"
        | None -> if List.exists (fun q -> int_of_z q = pi) m.cfp
          then "write to a page the committed state can reach (meta page, live page, overwrite page)"
          else "?")

let event (a : string list) : string =
  match !cur with
  | None -> "REJECT no monitor state"
  | Some m ->
    let e = (match a with
      | ["w"; p; h] -> W (z_of_string p, Some (bytes_of_tok h))
      | ["s"] -> S0
      | ["c"] -> CommitOk
      | _ -> failwith "bad monitor event") in
    (match mon_step !fuel m e with
     | Some m' -> cur := Some m'; "ok"
     | None ->
       (match a with
        | ["w"; p; _] -> "REJECT " ^ why m (z_of_string p)
        | ["c"] -> "REJECT Commit returned without a completed header write + sync"
        | _ -> "REJECT"))

let register (reg : string -> (string list -> string) -> unit) =
  reg "mon_init" init;
  reg "mon_ev" event;
  (* pending header in flight? / number of pending writes *)
  reg "mon_state" (fun _ -> match !cur with
    | None -> "none"
    | Some m -> Printf.sprintf "act=%s txid=%s pend=%d infl=%s fp=%d" (if m.act then "1" else "0") (string_of_z m.txid)
                  (List.length m.pend) (match m.infl with Some _ -> "1" | None -> "0") (List.length m.cfp))
