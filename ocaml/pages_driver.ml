(* driver for the meta page list and recovery models *)
open Model
open Driver_util
open Alloc_driver

let rec chunk (n : int) (l : 'a list) : 'a list list =
  if l = [] then [] else
  let rec take k acc l = if k = 0 then (List.rev acc, l) else (match l with [] -> (List.rev acc, []) | x :: tl -> take (k-1) (x :: acc) tl) in
  let (a, rest) = take n [] l in a :: chunk n rest

let pairs_tok l = tok_of_list (List.concat_map (fun (k, v) -> [k; v]) l)
let rec pairs_of_flat l = match l with k :: v :: tl -> (k, v) :: pairs_of_flat tl | [] -> [] | _ -> failwith "odd"

let sort_pairs l = List.sort (fun (a, _) (b, _) -> compare (int_of_z a) (int_of_z b)) l

let register (reg : string -> (string list -> string) -> unit) =
  (* writefl <pageSize> <ids list> <meta regions> <data regions> -> ok id hex id hex ... | err *)
  reg "writefl" (fun a -> match a with
    | [ps; ids; ml; dl] ->
      (match write_freelists (z_of_string ps) (list_of_tok ids) (regions_tok ml) (regions_tok dl) with
       | None -> "err"
       | Some pages -> "ok " ^ String.concat " " (List.map (fun (id, pg) -> string_of_z id ^ " " ^ tok_of_bytes pg) pages))
    | _ -> failwith "args");
  reg "writewal" (fun a -> match a with
    | [ps; ids; kv] ->
      (match write_wal (z_of_string ps) (list_of_tok ids) (pairs_of_flat (list_of_tok kv)) with
       | None -> "err"
       | Some pages -> "ok " ^ String.concat " " (List.map (fun (id, pg) -> string_of_z id ^ " " ^ tok_of_bytes pg) pages))
    | _ -> failwith "args");
  (* readfl <root> id hex id hex ... -> ok [ids] [meta regions] [data regions] | err *)
  let disk_of rest =
    let rec go l = match l with id :: h :: tl -> (z_of_string id, bytes_of_tok h) :: go tl | [] -> [] | _ -> failwith "odd pages" in
    let pages = go rest in
    (fun id -> List.assoc_opt id pages), List.length pages in
  reg "readfl" (fun a -> match a with
    | root :: rest ->
      let (d, n) = disk_of rest in
      (match read_freelist (nat_of_int (n + 1)) d (z_of_string root) with
       | None -> "err"
       | Some (ids, es) ->
         let ml = List.filter_map (fun (m, r) -> if m then Some r else None) es in
         let dl = List.filter_map (fun (m, r) -> if m then None else Some r) es in
         "ok " ^ tok_of_list ids ^ " " ^ tok_regions ml ^ " " ^ tok_regions dl)
    | _ -> failwith "args");
  reg "readwal" (fun a -> match a with
    | root :: rest ->
      let (d, n) = disk_of rest in
      (match read_wal (nat_of_int (n + 1)) d (z_of_string root) with
       | None -> "err"
       | Some (ids, es) ->
         (* the implementation fills a map: later entries win; report sorted by key *)
         let keys = List.sort_uniq compare (List.map (fun (k, _) -> int_of_z k) es) in
         "ok " ^ tok_of_list ids ^ " " ^ pairs_tok (List.map (fun k -> (z_of_int k, wal_lookup es (z_of_int k))) keys))
    | _ -> failwith "args");
  (* recover <pageSize> <mappedPages> <image hex> *)
  reg "recover" (fun a -> match a with
    | [ps; mp; img] ->
      (match recover_image (nat_of_int (int_of_string ps)) (z_of_string mp) (bytes_of_tok img) with
       | RecErr -> "err"
       | RecOk (act, st, fp) ->
         let keys = List.sort_uniq compare (List.map (fun (k, _) -> int_of_z k) st.r_wal) in
         String.concat " " [ "ok"; string_of_z act; string_of_z st.r_txid; string_of_z st.r_root; string_of_z st.r_maxSize;
           string_of_z st.r_dataEnd; string_of_z st.r_metaEnd; string_of_z st.r_metaTotal;
           pairs_tok (List.map (fun k -> (z_of_int k, wal_lookup st.r_wal (z_of_int k))) keys);
           tok_of_list (List.map z_of_int (List.sort compare (List.map int_of_z st.r_walpages)));
           tok_of_list (List.map z_of_int (List.sort compare (List.map int_of_z st.r_flpages))); tok_regions st.r_metaFree; tok_regions st.r_dataFree ])
    | _ -> failwith "args")
;;
(* commitk1 <pageSize> <slot 0|1> <wal page ids> <mapping k,v,...> <free-list page ids> <meta regions> <data regions> <header hex>
   -> the events of Model/Commit.v for a commit without data page writes: "W id hex ... S W slot hex S C" | err *)
let commit_register (reg : string -> (string list -> string) -> unit) =
  reg "commitk1" (fun a -> match a with
    | [ps; slot; wids; kv; fids; ml; dl; hdr] ->
      let h = decode_header (bytes_of_tok hdr) in
      (match commit_events (z_of_string ps) (slot = "1") [] (list_of_tok wids) (pairs_of_flat (list_of_tok kv)) (list_of_tok fids)
               (regions_tok ml) (regions_tok dl) h with
       | None -> "err"
       | Some evs ->
         String.concat " " (List.map (fun e -> match e with
           | W (p, Some pg) -> "W " ^ string_of_z p ^ " " ^ tok_of_bytes pg
           | W (p, None) -> "W " ^ string_of_z p ^ " -"
           | S0 -> "S"
           | CommitOk -> "C") evs))
    | _ -> failwith "args")

