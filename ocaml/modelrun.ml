(* modelrun: evaluates the extracted Coq model on requests read from stdin, one per line;
   prints one response line per request. *)
open Model
open Driver_util

let handlers : (string, string list -> string) Hashtbl.t = Hashtbl.create 64
let reg name f = Hashtbl.replace handlers name f

let () =
  reg "valid" (fun a -> match a with [h] -> bool_tok (valid_slot (bytes_of_tok h)) | _ -> failwith "args");
  reg "checksum" (fun a -> match a with [h] -> string_of_z (checksum_of (bytes_of_tok h)) | _ -> failwith "args");
  reg "readmeta" (fun a -> match a with
    | [f] -> (match read_valid_meta (bytes_of_tok f) with
        | SelErr -> "err"
        | SelOk (a, t) -> "ok " ^ string_of_z a ^ " " ^ string_of_z t)
    | _ -> failwith "args");
  reg "readmeta_win" (fun a -> match a with
    | size :: rest ->
      let rec pairs l = (match l with
        | o :: w :: tl -> (z_of_string o, bytes_of_tok w) :: pairs tl
        | [] -> [] | _ -> failwith "odd window list") in
      (match read_valid_meta_win (z_of_string size) (pairs rest) with
        | None -> "ERROR missing window"
        | Some SelErr -> "err"
        | Some (SelOk (a, t)) -> "ok " ^ string_of_z a ^ " " ^ string_of_z t)
    | _ -> failwith "args")

let () =
  Modelrun_ext.register reg;
  Alloc_driver.register reg;
  Pages_driver.register reg;
  Pages_driver.commit_register reg;
  Monitor_driver.register reg;
  Pqw_driver.register reg;
  try
    while true do
      let line = input_line stdin in
      let toks = List.filter (fun s -> s <> "") (String.split_on_char ' ' line) in
      (match toks with
       | [] -> print_string "\n"
       | cmd :: args ->
         let r = (try (match Hashtbl.find_opt handlers cmd with
                       | Some f -> f args
                       | None -> "ERROR unknown command " ^ cmd)
                  with e -> "ERROR " ^ Printexc.to_string e) in
         print_string r; print_char '\n');
      flush stdout
    done
  with End_of_file -> ()
