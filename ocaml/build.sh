#!/bin/sh
# extract the model and build bin/modelrun
set -e
cd "$(dirname "$0")"
coqc -R ../coq VF ../coq/Extract/Extract.v > extract.log 2>&1 || { cat extract.log; exit 1; }
ocamlfind ocamlopt -O2 -w -a -o ../bin/modelrun model.mli model.ml driver_util.ml modelrun_ext.ml alloc_driver.ml pages_driver.ml monitor_driver.ml pqw_driver.ml modelrun.ml 2>/dev/null || \
ocamlfind ocamlopt -w -a -o ../bin/modelrun model.mli model.ml driver_util.ml modelrun_ext.ml alloc_driver.ml pages_driver.ml monitor_driver.ml pqw_driver.ml modelrun.ml
