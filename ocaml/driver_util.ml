(* helpers shared by the model driver: conversion between text tokens and extracted Coq values *)
open Model

let rec pos_of_int (n : int) : positive =
  if n = 1 then XH else if n land 1 = 0 then XO (pos_of_int (n lsr 1)) else XI (pos_of_int (n lsr 1))
let z_of_int (n : int) : z = if n = 0 then Z0 else if n > 0 then Zpos (pos_of_int n) else Zneg (pos_of_int (-n))
let z10 = z_of_int 10

(* decimal string -> Z (arbitrary size) *)
let z_of_string (s : string) : z =
  let neg = String.length s > 0 && s.[0] = '-' in
  let acc = ref Z0 in
  String.iteri (fun i c -> if not (i = 0 && neg) then
    acc := Z.add (Z.mul !acc z10) (z_of_int (Char.code c - 48))) s;
  if neg then Z.sub Z0 !acc else !acc

let rec int_of_pos (p : positive) : int = match p with XH -> 1 | XO q -> 2 * int_of_pos q | XI q -> 2 * int_of_pos q + 1
let int_of_z (x : z) : int = match x with Z0 -> 0 | Zpos p -> int_of_pos p | Zneg p -> - (int_of_pos p)

let string_of_z (x : z) : string =
  match x with
  | Z0 -> "0"
  | _ ->
    let neg, x = (match x with Zneg p -> true, Zpos p | _ -> false, x) in
    let buf = Buffer.create 24 in
    let cur = ref x in
    while !cur <> Z0 do
      let (q, r) = Z.quotrem !cur z10 in
      Buffer.add_char buf (Char.chr (48 + int_of_z r));
      cur := q
    done;
    let s = Buffer.contents buf in
    let n = String.length s in
    let r = String.init n (fun i -> s.[n - 1 - i]) in
    if neg then "-" ^ r else r

let rec nat_of_int (n : int) : nat = if n <= 0 then O else S (nat_of_int (n - 1))
let rec int_of_nat (n : nat) : int = match n with O -> 0 | S m -> 1 + int_of_nat m

(* tokens: decimal ints, x<hex> byte strings, [a,b,c] int lists *)
let hexval c = match c with
  | '0'..'9' -> Char.code c - 48 | 'a'..'f' -> Char.code c - 87 | 'A'..'F' -> Char.code c - 55
  | _ -> failwith "bad hex"
let bytes_of_tok (t : string) : z list =
  if String.length t = 0 || t.[0] <> 'x' then failwith ("expected hex token: " ^ t);
  let n = (String.length t - 1) / 2 in
  List.init n (fun i -> z_of_int (16 * hexval t.[1 + 2*i] + hexval t.[2 + 2*i]))
let tok_of_bytes (l : z list) : string =
  let b = Buffer.create (2 * List.length l + 1) in
  Buffer.add_char b 'x';
  List.iter (fun x -> Buffer.add_string b (Printf.sprintf "%02x" (int_of_z x))) l;
  Buffer.contents b
let list_of_tok (t : string) : z list =
  let n = String.length t in
  if n < 2 || t.[0] <> '[' || t.[n-1] <> ']' then failwith ("expected list token: " ^ t);
  if n = 2 then [] else List.map z_of_string (String.split_on_char ',' (String.sub t 1 (n - 2)))
let tok_of_list (l : z list) : string = "[" ^ String.concat "," (List.map string_of_z l) ^ "]"
let bool_tok b = if b then "1" else "0"
let tok_bool t = (t = "1")
