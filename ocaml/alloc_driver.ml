(* driver for the allocator model: state is kept between requests *)
open Model
open Driver_util

let rec regions_of_flat (l : z list) : region list = match l with
  | id :: c :: tl -> { rid = id; rcount = c } :: regions_of_flat tl
  | [] -> [] | _ -> failwith "odd region list"
let flat_of_regions (l : region list) : z list = List.concat_map (fun r -> [r.rid; r.rcount]) l
let tok_regions l = tok_of_list (flat_of_regions l)
let regions_tok t = regions_of_flat (list_of_tok t)

let cur_a : allocst option ref = ref None
let cur_t : txst option ref = ref None

let state_string () =
  match !cur_a with
  | None -> "nostate"
  | Some a ->
    let base = String.concat " " [
      string_of_z a.maxPages; string_of_z a.pageSize;
      string_of_z a.meta.a_end; string_of_z a.metaTotal; string_of_z a.meta.a_free.avail; tok_regions a.meta.a_free.fregions;
      string_of_z a.data.a_end; string_of_z a.data.a_free.avail; tok_regions a.data.a_free.fregions;
      string_of_z a.flRoot; tok_regions a.flPages ] in
    (match !cur_t with
     | None -> base ^ " 0"
     | Some t ->
       base ^ " 1 " ^ String.concat " " [
         tok_regions t.moveToMeta;
         string_of_z t.tdata.t_end; tok_of_list t.tdata.t_allocated; tok_of_list t.tdata.t_new; tok_of_list t.tdata.t_freed;
         string_of_z t.tmeta.t_end; tok_of_list t.tmeta.t_allocated; tok_of_list t.tmeta.t_new; tok_of_list t.tmeta.t_freed;
         bool_tok t.ovf; string_of_z t.pct;
         tok_of_list [t.st_data_alloc; t.st_data_freed; t.st_meta_alloc; t.st_meta_freed; t.st_ovf_alloc; t.st_ovf_freed; t.st_toMeta] ])

let set_state (a : string list) =
  match a with
  | mp :: ps :: mend :: mtot :: mav :: mfree :: dend :: dav :: dfree :: root :: flp :: has :: rest ->
    let z = z_of_string in
    cur_a := Some { maxPages = z mp; pageSize = z ps;
                    meta = { a_end = z mend; a_free = { avail = z mav; fregions = regions_tok mfree } };
                    metaTotal = z mtot;
                    data = { a_end = z dend; a_free = { avail = z dav; fregions = regions_tok dfree } };
                    flRoot = z root; flPages = regions_tok flp };
    (match has, rest with
     | "0", _ -> cur_t := None
     | "1", [mv; de; dal; dnw; dfr; me; mal; mnw; mfr; ovf; pct; stats] ->
       (match list_of_tok stats with
        | [s1; s2; s3; s4; s5; s6; s7] ->
          cur_t := Some { moveToMeta = regions_tok mv;
                          tdata = { t_end = z de; t_allocated = list_of_tok dal; t_new = list_of_tok dnw; t_freed = list_of_tok dfr };
                          tmeta = { t_end = z me; t_allocated = list_of_tok mal; t_new = list_of_tok mnw; t_freed = list_of_tok mfr };
                          ovf = tok_bool ovf; pct = z pct;
                          st_data_alloc = s1; st_data_freed = s2; st_meta_alloc = s3; st_meta_freed = s4;
                          st_ovf_alloc = s5; st_ovf_freed = s6; st_toMeta = s7 }
        | _ -> failwith "stats")
     | _ -> failwith "bad tx part")
  | _ -> failwith "bad state"

let get () = match !cur_a with Some a -> a | None -> failwith "no allocator state"
let gett () = match !cur_t with Some t -> t | None -> failwith "no transaction state"

let op (args : string list) : string =
  let a = get () in
  let res = (match args with
    | ["begin"; ovf; pct] -> cur_t := Some (make_tx a (tok_bool ovf) (z_of_string pct)); "ok"
    | ["dalloc"; n] ->
      let (((regs, cnt), a'), t') = data_alloc_regions a (gett ()) (z_of_string n) in
      cur_a := Some a'; cur_t := Some t'; tok_regions regs ^ " " ^ string_of_z cnt
    | ["dcont"; n] ->
      let ((r, a'), t') = data_alloc_cont a (gett ()) (z_of_string n) in
      cur_a := Some a'; cur_t := Some t';
      (match r with Some r -> string_of_z r.rid ^ " " ^ string_of_z r.rcount | None -> "0 0")
    | ["dfree"; id] ->
      (match data_free a (gett ()) (z_of_string id) with
       | Some (a', t') -> cur_a := Some a'; cur_t := Some t'; "ok"
       | None -> "panic")
    | ["walloc"] ->
      (match wal_alloc a (gett ()) with
       | Some ((id, a'), t') -> cur_a := Some a'; cur_t := Some t'; string_of_z id
       | None -> "panic")
    | ["wfree"; id] -> cur_t := Some (meta_free (gett ()) (z_of_string id)); "ok"
    | ["malloc"; n] ->
      (match meta_alloc_regions a (gett ()) (z_of_string n) with
       | Some ((regs, a'), t') -> cur_a := Some a'; cur_t := Some t'; tok_regions regs
       | None -> "panic")
    | ["mfree"; regs] -> cur_t := Some (meta_free_regions (gett ()) (regions_tok regs)); "ok"
    | ["commit"; extra] ->
      (match commit_step a (gett ()) (tok_bool extra) with
       | CoOk a' -> cur_a := Some a'; cur_t := None; "ok"
       | CoOOM (a', t') -> cur_a := Some a'; cur_t := Some t'; "oom"
       | CoPanic -> "panic")
    | ["commitfail"; extra] ->
      (match commit_fail_step a (gett ()) (tok_bool extra) with
       | CoOk a' -> cur_a := Some a'; cur_t := None; "ok"
       | CoOOM (a', t') -> cur_a := Some a'; cur_t := Some t'; "oom"
       | CoPanic -> "panic")
    | ["rollback"] -> cur_a := Some (rollback a (gett ())); cur_t := None; "ok"
    | _ -> failwith "bad alloc op") in
  res ^ " ; " ^ state_string ()

let register (reg : string -> (string list -> string) -> unit) =
  reg "alloc_set" (fun a -> set_state a; "ok");
  reg "alloc_state" (fun _ -> state_string ());
  reg "alloc_op" op;
  reg "growend" (fun a -> match a with
    | [o; n; d; m] -> string_of_z (grow_data_end (z_of_string o) (z_of_string n) (z_of_string d) (z_of_string m))
    | _ -> failwith "args");
  reg "quota" (fun a -> match a with
    | [t; u; s; g] -> let (mn, mx) = quota (z_of_string t) (z_of_string u) (z_of_string s) (z_of_string g) in
      string_of_z mn ^ " " ^ string_of_z mx
    | _ -> failwith "args");
  (* region codec *)
  reg "encregion" (fun a -> match a with
    | [m; id; c] -> tok_of_bytes (encode_region (tok_bool m) { rid = z_of_string id; rcount = z_of_string c })
    | _ -> failwith "args");
  reg "decregion" (fun a -> match a with
    | [b] -> let ((m, r), n) = decode_region (bytes_of_tok b) in
      bool_tok m ^ " " ^ string_of_z r.rid ^ " " ^ string_of_z r.rcount ^ " " ^ string_of_z n
    | _ -> failwith "args");
  (* freelist scripts: state = avail + regions; flop <avail> <regions> <op> args -> result ; avail regions *)
  reg "flop" (fun a -> match a with
    | av :: regs :: rest ->
      let f = { avail = z_of_string av; fregions = regions_tok regs } in
      let show f = string_of_z f.avail ^ " " ^ tok_regions f.fregions in
      (match rest with
       | ["alloc"; fromEnd; n] -> let (r, f') = fl_alloc_regions (tok_bool fromEnd) f (z_of_string n) in tok_regions r ^ " ; " ^ show f'
       | ["cont"; fromEnd; n] -> let (r, f') = fl_alloc_cont (tok_bool fromEnd) f (z_of_string n) in
         (match r with Some r -> string_of_z r.rid ^ " " ^ string_of_z r.rcount | None -> "0 0") ^ " ; " ^ show f'
       | ["add"; id; c] -> "ok ; " ^ show (fl_add_region f { rid = z_of_string id; rcount = z_of_string c })
       | ["addall"; l] -> "ok ; " ^ show (fl_add_regions f (regions_tok l))
       | ["remove"; id; c] -> "ok ; " ^ show (fl_remove_region f { rid = z_of_string id; rcount = z_of_string c })
       | ["release"; mp; em] -> let (l, t) = release_overflow f.fregions (z_of_string mp) (z_of_string em) in
         string_of_z t ^ " ; " ^ tok_regions l
       | ["optimize"] -> "ok ; " ^ tok_regions (optimize f.fregions)
       | _ -> failwith "bad flop")
    | _ -> failwith "args")
