(* further command handlers are registered here as the model grows *)
open Model
open Driver_util

let lop_of_string s = match s with
  | "shared.lock" -> SharedLock | "shared.unlock" -> SharedUnlock
  | "reserved.lock" -> ReservedLock | "reserved.unlock" -> ReservedUnlock
  | "pending.lock" -> PendingLock | "pending.unlock" -> PendingUnlock
  | "exclusive.lock" -> ExclusiveLock | "exclusive.unlock" -> ExclusiveUnlock
  | _ -> failwith ("bad lock op " ^ s)

let label_of_string s = match s with
  | "begin" -> LBegin | "work" -> LWork | "close" -> LClose
  | "wbegin" -> LWBegin | "wwork" -> LWWork | "rollback" -> LRollback
  | "pend" -> LPend | "io" -> LIO | "fail" -> LFail
  | "excl" -> LExcl | "switch" -> LSwitch | "noswitch" -> LNoSwitch
  | "unpend" -> LUnpend | "release" -> LRelease
  | _ -> failwith ("bad label " ^ s)

let pc_of_string s = match s with
  | "R0" -> R0 | "R2" -> R2 | "W0" -> W0 | "W1" -> W1 | "W2" -> W2 | "W3" -> W3 | "W4" -> W4 | "W5" -> W5 | "Wd" -> Wd
  | _ -> if String.length s > 2 && s.[0] = 'R' && s.[1] = '1' then R1 (nat_of_int (int_of_string (String.sub s 3 (String.length s - 3))))
         else failwith ("bad pc " ^ s)
let string_of_pc p = match p with
  | R0 -> "R0" | R1 v -> "R1:" ^ string_of_int (int_of_nat v) | R2 -> "R2"
  | W0 -> "W0" | W1 -> "W1" | W2 -> "W2" | W3 -> "W3" | W4 -> "W4" | W5 -> "W5" | Wd -> "Wd"

let mk_lk s p r = { shared = nat_of_int (int_of_string s); pending = tok_bool p; reserved = tok_bool r }
let string_of_lk l = Printf.sprintf "%d,%s,%s" (int_of_nat l.shared) (bool_tok l.pending) (bool_tok l.reserved)

(* pagescript <pageSize> <fresh|existing> <disk hex> ops...   ops: setb:<hex> load mod:<off>:<hex> bytes flush free
   output: one token per op *)
let perr_string e = match e with EInvalidOp -> "EInvalidOp" | EInvalidParam -> "EInvalidParam" | ETxFinished -> "ETxFinished" | ETxReadOnly -> "ETxReadOnly"
let pagescript (a : string list) : string =
  match a with
  | ps :: kind :: disk :: ops ->
    let ps = nat_of_int (int_of_string ps) in
    let st = ref (if kind = "fresh" then fresh_page else existing_page (bytes_of_tok disk)) in
    String.concat " " (List.map (fun o ->
      match String.split_on_char ':' o with
      | ["setb"; h] -> (match page_set_bytes ps !st (bytes_of_tok h) with POk p -> st := p; "ok" | PErr e -> perr_string e)
      | ["load"] -> (match page_load ps !st with POk p -> st := p; "ok" | PErr e -> perr_string e)
      | ["markdirty"] -> (match page_mark_dirty ps !st with
                          | POk p -> st := p; (match p.pg_bytes with Some _ -> "ok:buf=1" | None -> "ok:buf=0")
                          | PErr e -> perr_string e)
      | ["mod"; off; h] -> (match page_modify !st (nat_of_int (int_of_string off)) (bytes_of_tok h) with POk p -> st := p; "ok" | PErr e -> perr_string e)
      | ["bytes"] -> (match page_bytes !st with POk b -> tok_of_bytes b | PErr e -> perr_string e)
      | ["flush"] -> (match page_flush !st with
                      | POk (p, w) -> st := p; (match w with Some b -> "w" ^ tok_of_bytes b | None -> "nop")
                      | PErr e -> perr_string e)
      | ["free"] -> (match page_free !st with POk p -> st := p; "ok" | PErr e -> perr_string e)
      | _ -> failwith ("bad page op " ^ o)) ops)
  | _ -> failwith "args"

let ekind_string k = match k with
  | KOk -> "ok" | KInvalidOp -> "InvalidOp" | KInvalidPageID -> "InvalidPageID" | KInvalidParam -> "InvalidParam"
  | KTxCommitFail -> "TxCommitFail" | KTxRollbackFail -> "TxRollbackFail" | KTxFinished -> "TxFinished" | KTxReadOnly -> "TxReadOnly"
  | KQueueClosed -> "QueueClosed" | KReaderClosed -> "ReaderClosed" | KWriterClosed -> "WriterClosed"
  | KACKEmptyQueue -> "ACKEmptyQueue" | KACKTooMany -> "ACKTooMany" | KInactiveTx -> "InactiveTx" | KUnexpectedActiveTx -> "UnexpectedActiveTx"
let txstate_of s = match s with "rw" -> TxRW | "ro" -> TxRO | "done-rw" -> TxDoneRW | "done-ro" -> TxDoneRO | _ -> failwith ("txstate " ^ s)
let txmethod_of s = match s with
  | "commit" -> MCommit | "rollback" -> MRollback | "close" -> MClose | "alloc" -> MAlloc | "allocn" -> MAllocN
  | "flush" -> MFlush | "checkpoint" -> MCheckpoint | "page" -> MPage | "page-oob" -> MPageOutOfBounds
  | "page-freed" -> MPageFreed | "rootpage" -> MRootPage | _ -> failwith ("txmethod " ^ s)
let pstate_of s = match s with "new" -> PNew | "new-dirty" -> PNewDirty | "clean" -> PClean | "dirty" -> PDirty
  | "flushed" -> PFlushed | "freed" -> PFreed | _ -> failwith ("pstate " ^ s)
let pmethod_of s = match s with "bytes" -> PBytes | "load" -> PLoad | "setbytes" -> PSetBytes | "setbytes-oversize" -> PSetBytesOversize
  | "markdirty" -> PMarkDirty | "free" -> PFree | "flush" -> PFlush | _ -> failwith ("pmethod " ^ s)

(* wqscript tok...   tokens: w<id> (Schedule), s (Sync), n<B> (nextCommand with a buffer of B entries)
   output: one token per n-op: "none" or "<id,id,..>:<0|1>", then the final state "len(sched) len(fsync) pending published" *)
let wqscript (a : string list) : string =
  let st = ref wq_init in
  let outs = ref [] in
  List.iter (fun tok ->
    let arg () = int_of_string (String.sub tok 1 (String.length tok - 1)) in
    match tok.[0] with
    | 'w' -> st := wq_schedule !st (nat_of_int (arg ()))
    | 's' -> st := wq_sync !st
    | 'n' ->
      (match wq_next (nat_of_int (arg ())) !st with
       | None -> outs := "none" :: !outs
       | Some ((taken, sy), s1) ->
         st := s1;
         outs := (String.concat "," (List.map (fun x -> string_of_int (int_of_nat x)) taken) ^ ":" ^ (if sy then "1" else "0")) :: !outs)
    | _ -> failwith "bad wq token") a;
  let s = !st in
  String.concat " " (List.rev !outs) ^ " ; " ^
  Printf.sprintf "%d %d %d %d" (List.length s.q_sched) (List.length s.q_fsync) (int_of_nat s.q_pending) (int_of_nat s.q_published)

let register (reg : string -> (string list -> string) -> unit) =
  reg "api_tx" (fun a -> match a with [s; m] -> ekind_string (tx_result (txstate_of s) (txmethod_of m)) | _ -> failwith "args");
  reg "api_page" (fun a -> match a with [ts; p; m] -> ekind_string (page_result (txstate_of ts) (pstate_of p) (pmethod_of m)) | _ -> failwith "args");
  reg "api_writer" (fun a -> match a with [s; _] -> ekind_string (writer_result (if s = "open" then WOpen else WClosed) QWrite) | _ -> failwith "args");
  reg "api_reader" (fun a -> match a with
    | [s; m] -> ekind_string (reader_result (match s with "idle" -> RIdle | "intx" -> RInTx | _ -> RClosed)
                                (match m with "begin" -> QBegin | "done" -> QDone | "read" -> QRead | "next" -> QRNext | _ -> QAvailable))
    | _ -> failwith "args");
  reg "api_ack" (fun a -> match a with
    | [c; e; t; z] -> ekind_string (ack_result (tok_bool c) (tok_bool e) (tok_bool t) (tok_bool z)) | _ -> failwith "args");
  (* openstep <held> <opts_valid> <os_ok> <init_ok> -> result held' *)
  reg "openstep" (fun a -> match a with
    | [h; v; o; i] ->
      let (r, h') = open_step (tok_bool h) { opts_valid = tok_bool v; os_open_ok = tok_bool o; init_ok = tok_bool i } in
      (match r with OpenOk -> "ok" | OpenErrLock -> "lock" | OpenErrOther -> "error") ^ " " ^ bool_tok h'
    | _ -> failwith "args");
  (* pqparse <P> <pos> <n> <stream hex> : the model reader on a payload stream *)
  reg "pqparse" (fun a -> match a with
    | [pp; pos; n; st] ->
      (match parse_from (nat_of_int (int_of_string pp)) (bytes_of_tok st) (nat_of_int (int_of_string pos)) (nat_of_int (int_of_string n)) with
       | Some evs -> "ok " ^ String.concat " " (List.map tok_of_bytes evs)
       | None -> "short")
    | _ -> failwith "args");
  (* rdrun <P> <pos> <N> <stream hex> op... : the model reader (state machine) on a payload stream;
     op = n (Next) | r<k> (Read into a buffer of k bytes); one result per op: s<size> | b<hex> *)
  reg "rdrun" (fun a -> match a with
    | pp :: pos :: n :: st :: ops ->
      let ops' = List.map (fun o -> if o = "n" then RNext else RRead (nat_of_int (int_of_string (String.sub o 1 (String.length o - 1))))) ops in
      let st0 = { r_pos = nat_of_int (int_of_string pos); r_left = None; r_id = O } in
      let outs = rd_run (nat_of_int (int_of_string pp)) (bytes_of_tok st) (nat_of_int (int_of_string n)) st0 ops' in
      String.concat " " (List.map (fun ((sz, bs) : (nat option * z list)) ->
        match sz with Some k -> "s" ^ string_of_int (int_of_nat k) | None -> "b" ^ tok_of_bytes bs) outs)
    | _ -> failwith "args");
  (* curadv <P> <pg> <off> <n> : the page-level cursor moved by n bytes *)
  reg "curadv" (fun a -> match a with
    | [pp; pg; off; n] ->
      let k = nat_of_int (int_of_string n) in
      let (pg', off') = cur_adv k (nat_of_int (int_of_string pp)) (nat_of_int (int_of_string pg)) (nat_of_int (int_of_string off)) k in
      string_of_int (int_of_nat pg') ^ " " ^ string_of_int (int_of_nat off')
    | _ -> failwith "args");
  (* walscript <limit> <[k1,w1,k2,w2,..] committed mapping> op... : the overwrite mapping after the commit of a
     transaction; op = a<id> (Alloc) | s<id> (page written) | f<id> (Page.Flush) | F (Tx.Flush) | c (CheckpointWAL);
     answer: the sorted original page ids that have an overwrite page afterwards *)
  reg "walscript" (fun a -> match a with
    | limit :: mp :: ops ->
      let rec pairs l = match l with k :: w :: r -> (k, w) :: pairs r | _ -> [] in
      let s0 = { f_disk = (fun _ -> Z0); f_wal = pairs (list_of_tok mp) } in
      let fresh = List.init 4000 (fun i -> z_of_int (1000000000 + i)) in
      let idof o = z_of_string (String.sub o 1 (String.length o - 1)) in
      let ops' = List.map (fun o -> match o.[0] with
        | 'a' -> OAlloc (idof o) | 's' -> OSet (idof o, Z0) | 'f' -> OFlush (idof o)
        | 'F' -> OFlushAll | 'c' -> OCheckpoint | _ -> failwith "op") ops in
      let t = tx_run s0 (tx_begin fresh) ops' in
      let s1 = tx_commit s0 t (z_of_string limit) in
      let keys = List.sort compare (List.map (fun (k, _) -> int_of_z k) s1.f_wal) in
      "[" ^ String.concat "," (List.map string_of_int keys) ^ "]"
    | _ -> failwith "args");
  (* ackpages <[page index of every event]> <T> <N> : kept page, clean-all flag, events skipped to the new read position *)
  reg "ackpages" (fun a -> match a with
    | [ps; t; n] ->
      let psl = List.map (fun z -> nat_of_int (int_of_z z)) (list_of_tok ps) in
      let nn = nat_of_int (int_of_string n) in
      let (kept, clean) = ack_pages psl O (nat_of_int (int_of_string t)) nn in
      string_of_int (int_of_nat kept) ^ " " ^ bool_tok clean ^ " " ^ string_of_int (int_of_nat (ack_skips psl kept nn))
    | _ -> failwith "args");
  (* starts <P> <pos> <len> <len> ... : page index in which the header of each event starts *)
  reg "starts" (fun a -> match a with
    | ps :: pos :: lens ->
      String.concat "," (List.map string_of_z (starts_fromZ (z_of_string ps) (z_of_string pos) (List.map z_of_string lens)))
    | _ -> failwith "args");
  reg "pagescript" pagescript;
  reg "wqscript" wqscript;
  reg "maxpages" (fun a -> match a with
    | [ms; ps] -> string_of_z (max_pages_of (z_of_string ms) (z_of_string ps))
    | _ -> failwith "args");
  reg "rollbacktruncate" (fun a -> match a with
    | [me; de; oe; sz; ps; mp] ->
      (match rollback_truncate (z_of_string me) (z_of_string de) (z_of_string oe) (z_of_string sz) (z_of_string ps) (z_of_string mp) with
       | Some n -> string_of_z n | None -> "none")
    | _ -> failwith "args");
  reg "checktruncate" (fun a -> match a with
    | [l; s; mm; mx; ps] ->
      let (e, t) = check_truncate (z_of_string l) (z_of_string s) (z_of_string mm) (z_of_string mx) (z_of_string ps) in
      string_of_z e ^ " " ^ bool_tok t
    | _ -> failwith "args");
  (* lockscript s p r op... : per op the new state, or B when the op would block (state unchanged) *)
  reg "lockscript" (fun a -> match a with
    | s :: p :: r :: ops ->
      let st = ref (mk_lk s p r) in
      String.concat " " (List.map (fun o ->
        match lock_apply !st (lop_of_string o) with
        | Some l -> st := l; string_of_lk l
        | None -> "B") ops)
    | _ -> failwith "args");
  (* runlabels s p r version pc label... : resulting lock state, version and pc, or none *)
  reg "runlabels" (fun a -> match a with
    | s :: p :: r :: v :: pc :: labs ->
      (match run_labels (mk_lk s p r) (nat_of_int (int_of_string v)) (pc_of_string pc) (List.map label_of_string labs) with
       | Some ((l, v'), pc') -> string_of_lk l ^ " " ^ string_of_int (int_of_nat v') ^ " " ^ string_of_pc pc'
       | None -> "none")
    | _ -> failwith "args")
