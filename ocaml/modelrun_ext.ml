(* further command handlers are registered here as the model grows *)
open Model
open Driver_util
let register (_reg : string -> (string list -> string) -> unit) = ()
