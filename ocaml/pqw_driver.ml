(* driver for the queue writer model (Model/PQWriter.v): the state is kept between requests; an operation is first
   tried (pqw_try: result + state after it) and adopted by pqw_commit *)
open Model
open Driver_util

let cur : (nat * wst) option ref = ref None        (* page size, state *)
let tried : wst option ref = ref None

let z = z_of_string
let nat_tok t = nat_of_int (int_of_string t)
let split c s = String.split_on_char c s

let pos_of_tok t = match split ',' t with
  | [p; o; i] -> ((z p, nat_tok o), z i)
  | _ -> failwith ("bad position " ^ t)
let tok_of_pos ((p, o), i) = Printf.sprintf "%s,%d,%s" (string_of_z p) (int_of_nat o) (string_of_z i)

let root_of head tail inuse =
  { q_head = (if head = "-" then None else Some (pos_of_tok head)); q_tail = pos_of_tok tail; q_inuse = z inuse }

let page_string (p : wpage) =
  Printf.sprintf "%s,%s,%s,%d,%d,%s,%s,%s" (string_of_z p.wp_id) (string_of_z p.wp_first) (string_of_z p.wp_last)
    (int_of_nat p.wp_off) (int_of_nat pgH + List.length p.wp_data) (bool_tok p.wp_dirty) (string_of_z p.wp_next) (tok_of_bytes p.wp_data)

let state_string (s : wst) =
  let b = s.ws_buf in
  let hdr = (match b.b_hdr with None -> "-1 -1" | Some (i, o) -> Printf.sprintf "%d %d" (int_of_nat i) (int_of_nat o)) in
  let r = s.ws_root in
  Printf.sprintf "%s %s %s %s %s %s | %s %s %s | %s"
    (string_of_z b.b_avail) (string_of_z b.b_count) hdr (string_of_z s.ws_evBytes) (string_of_z s.ws_evId) (string_of_z s.ws_active)
    (match r.q_head with None -> "-" | Some h -> tok_of_pos h) (tok_of_pos r.q_tail) (string_of_z r.q_inuse)
    (String.concat ";" (List.map page_string b.b_pages))

let image_string ((((((id, next), first), last), off), data) : wimage) =
  Printf.sprintf "%s,%s,%s,%s,%d,%s" (string_of_z id) (string_of_z next) (string_of_z first) (string_of_z last) (int_of_nat off) (tok_of_bytes data)

let fres_string (r : fresult) = match r with
  | FNothing -> "nothing"
  | FDone (imgs, pages, alloc) -> Printf.sprintf "done %s %s %s" (string_of_z pages) (string_of_z alloc) (String.concat ";" (List.map image_string imgs))
  | FFailed (pages, alloc) -> Printf.sprintf "failed %s %s" (string_of_z pages) (string_of_z alloc)

let wres_string (r : wres) = match r with
  | WOk None -> "ok noflush"
  | WOk (Some (fr, n)) -> Printf.sprintf "ok cb=%s %s" (string_of_z n) (fres_string fr)
  | WErr fr -> "err " ^ fres_string fr

let fo_of toks = match toks with
  | ["ok"; ids] -> FOk (list_of_tok ids)
  | ["early"] -> FFailEarly
  | ["late"] -> FFailLate []
  | _ -> failwith "bad flush outcome"

let get () = match !cur with Some c -> c | None -> failwith "no writer state"

let register reg =
  reg "pqw_init" (fun a -> match a with
    | [ps; pages; endid; head; tail; inuse; tp] ->
      let t = (if tp = "-" then None else
        (match split ',' tp with
         | [id; first; last; off; next; data] ->
           Some { wp_id = z id; wp_first = z first; wp_last = z last; wp_off = nat_tok off; wp_dirty = false; wp_next = z next; wp_data = bytes_of_tok data; wp_disk = Some (bytes_of_tok data) }
         | _ -> failwith "bad tail page")) in
      let ps = nat_tok ps in
      let s = w_init ps (z pages) t (z endid) (root_of head tail inuse) in
      cur := Some (ps, s); tried := None; state_string s
    | _ -> failwith "args");
  reg "pqw_setroot" (fun a -> match a with
    | [head; tail; inuse] ->
      let (ps, s) = get () in
      cur := Some (ps, { s with ws_root = root_of head tail inuse }); "ok"
    | _ -> failwith "args");
  reg "pqw_try" (fun a ->
    let (ps, s) = get () in
    let op = (match a with
      | "write" :: data :: fo -> WWrite (bytes_of_tok data, fo_of fo)
      | "next" :: fo -> WNext (fo_of fo)
      | "flush" :: fo -> WFlush (fo_of fo)
      | _ -> failwith "bad writer op") in
    let (s1, r) = w_step ps s op in
    tried := Some s1;
    wres_string r ^ " | " ^ state_string s1);
  reg "pqw_commit" (fun _ -> match !tried with
    | Some s1 -> let (ps, _) = get () in cur := Some (ps, s1); tried := None; "ok"
    | None -> failwith "nothing tried")
