// Package simdisk implements a simulated disk for driving go-txfile:
// an operation log, crash images, fault injection, gates and poisoned
// memory maps.
package simdisk

import (
	"errors"
	"fmt"
	"io"
	"sync"
)

type OpKind int

const (
	OpWrite OpKind = iota
	OpSync
	OpTruncate
	OpMMap
	OpMUnmap
	OpSize
	OpRead
	OpMarker
)

func (k OpKind) String() string {
	return [...]string{"write", "sync", "truncate", "mmap", "munmap", "size", "read", "marker"}[k]
}

// Op is one logged disk operation.
type Op struct {
	Kind     OpKind
	Off      int64  // write offset
	Data     []byte // bytes that took effect (after a short write: the prefix)
	Size     int64  // truncate size / mmap size
	DataOnly bool
	Failed   bool   // call returned an error
	Tag      string // marker text
}

// FaultAction tells the disk what to do with one call.
type FaultAction int

const (
	FaultNone     FaultAction = iota
	FaultErr                  // error before any effect
	FaultShortErr             // (writes) half of the bytes take effect, then error
)

// ErrInjected is the error returned by injected faults.
var ErrInjected = errors.New("simdisk: injected I/O fault")

// Disk is a simulated file.
type Disk struct {
	mu sync.Mutex

	name      string
	buf       []byte // backing store; len(buf) = capacity; aliased by maps
	size      int64
	mapped    int // number of live mappings
	locked    bool
	closed    bool
	init      []byte // content at creation (for images)
	Log       []Op
	count     [8]int
	MaxExtent int64
	Poison    bool

	// Hook is called (without the disk lock) before every operation with the
	// kind and the per-kind index of the call. It may block (gates).
	Hook     func(kind OpKind, idx int)
	lastSize int64
	// Fault decides about fault injection; called with the per-kind index.
	Fault func(kind OpKind, idx int) FaultAction
}

const defaultCap = 8 << 20

// New creates an empty disk.
func New(name string) *Disk {
	return &Disk{name: name, buf: make([]byte, defaultCap), Poison: true}
}

// FromImage creates a disk holding the given bytes.
func FromImage(name string, img []byte) *Disk {
	c := 1 << 17
	for c < len(img) {
		c *= 2
	}
	d := &Disk{name: name, buf: make([]byte, c), size: int64(len(img)), Poison: true}
	copy(d.buf, img)
	d.init = append([]byte(nil), img...)
	d.MaxExtent = d.size
	return d
}

func (d *Disk) pre(kind OpKind) (int, FaultAction) {
	d.mu.Lock()
	idx := d.count[kind]
	d.count[kind]++
	d.mu.Unlock()
	if h := d.Hook; h != nil {
		h(kind, idx)
	}
	act := FaultNone
	if f := d.Fault; f != nil {
		act = f(kind, idx)
	}
	return idx, act
}

func (d *Disk) grow(n int64) {
	if n <= int64(len(d.buf)) {
		return
	}
	if d.mapped > 0 {
		panic(fmt.Sprintf("simdisk: file grows beyond backing capacity (%d > %d) while mapped", n, len(d.buf)))
	}
	c := len(d.buf)
	for int64(c) < n {
		c *= 2
	}
	nb := make([]byte, c)
	copy(nb, d.buf)
	d.buf = nb
}

func (d *Disk) Name() string { return d.name }

// Count returns how many calls of the given kind have been started.
func (d *Disk) Count(kind OpKind) int {
	d.mu.Lock()
	defer d.mu.Unlock()
	return d.count[kind]
}

// FaultRule fails calls [From, From+Len) of one kind.
type FaultRule struct {
	Kind  OpKind
	From  int
	Len   int
	Short bool // writes: short write then error
}

// SetFaults installs a fault plan (replaces Fault).
func (d *Disk) SetFaults(rules []FaultRule) {
	d.Fault = func(kind OpKind, idx int) FaultAction {
		for _, r := range rules {
			if r.Kind == kind && idx >= r.From && idx < r.From+r.Len {
				if r.Short && kind == OpWrite {
					return FaultShortErr
				}
				return FaultErr
			}
		}
		return FaultNone
	}
}

func (d *Disk) Close() error {
	d.mu.Lock()
	defer d.mu.Unlock()
	d.closed = true
	d.locked = false
	return nil
}

func (d *Disk) Closed() bool {
	d.mu.Lock()
	defer d.mu.Unlock()
	return d.closed
}

func (d *Disk) WriteAt(p []byte, off int64) (int, error) {
	_, act := d.pre(OpWrite)
	d.mu.Lock()
	defer d.mu.Unlock()
	n := len(p)
	var err error
	switch act {
	case FaultErr:
		d.Log = append(d.Log, Op{Kind: OpWrite, Off: off, Failed: true})
		return 0, ErrInjected
	case FaultShortErr:
		n = len(p) / 2
		err = ErrInjected
	}
	end := off + int64(n)
	if end > int64(len(d.buf)) {
		// growing beyond capacity while mapped: the mapping can not cover this
		// area anyway; copy into a bigger store lazily at next (re)map
		if d.mapped > 0 {
			// keep aliasing for the mapped prefix: extend by allocating an
			// overflow tail. To keep things simple we require capacity.
			panic(fmt.Sprintf("simdisk: write beyond backing capacity off=%d len=%d cap=%d", off, n, len(d.buf)))
		}
		d.grow(end)
	}
	copy(d.buf[off:end], p[:n])
	if end > d.size {
		d.size = end
	}
	if d.size > d.MaxExtent {
		d.MaxExtent = d.size
	}
	d.Log = append(d.Log, Op{Kind: OpWrite, Off: off, Data: append([]byte(nil), p[:n]...), Failed: err != nil})
	return n, err
}

func (d *Disk) ReadAt(p []byte, off int64) (int, error) {
	d.pre(OpRead)
	d.mu.Lock()
	defer d.mu.Unlock()
	if off >= d.size {
		return 0, io.EOF
	}
	n := copy(p, d.buf[off:d.size])
	if n < len(p) {
		return n, io.EOF
	}
	return n, nil
}

func (d *Disk) Size() (int64, error) {
	_, act := d.pre(OpSize)
	d.mu.Lock()
	defer d.mu.Unlock()
	if act != FaultNone {
		d.Log = append(d.Log, Op{Kind: OpSize, Failed: true})
		return 0, ErrInjected
	}
	d.lastSize = d.size
	return d.size, nil
}

// LastSizeResult returns what the most recent successful Size call reported.
func (d *Disk) LastSizeResult() int64 {
	d.mu.Lock()
	defer d.mu.Unlock()
	return d.lastSize
}

// CurSize returns the current size without logging or faults.
func (d *Disk) CurSize() int64 {
	d.mu.Lock()
	defer d.mu.Unlock()
	return d.size
}

func (d *Disk) Truncate(sz int64) error {
	_, act := d.pre(OpTruncate)
	d.mu.Lock()
	defer d.mu.Unlock()
	if act != FaultNone {
		d.Log = append(d.Log, Op{Kind: OpTruncate, Size: sz, Failed: true})
		return ErrInjected
	}
	if sz > int64(len(d.buf)) {
		d.grow(sz)
	}
	if sz < d.size {
		for i := sz; i < d.size; i++ {
			d.buf[i] = 0
		}
	}
	d.size = sz
	if d.size > d.MaxExtent {
		d.MaxExtent = d.size
	}
	d.Log = append(d.Log, Op{Kind: OpTruncate, Size: sz})
	return nil
}

func (d *Disk) Lock(exclusive, blocking bool) error {
	d.mu.Lock()
	defer d.mu.Unlock()
	if d.locked {
		return errors.New("simdisk: already locked")
	}
	d.locked = true
	return nil
}

// Locked reports whether the path lock is held.
func (d *Disk) Locked() bool {
	d.mu.Lock()
	defer d.mu.Unlock()
	return d.locked
}

func (d *Disk) Unlock() error {
	d.mu.Lock()
	defer d.mu.Unlock()
	if !d.locked {
		return errors.New("simdisk: not locked")
	}
	d.locked = false
	return nil
}

func (d *Disk) MMap(sz int) ([]byte, error) {
	_, act := d.pre(OpMMap)
	d.mu.Lock()
	defer d.mu.Unlock()
	if act != FaultNone {
		d.Log = append(d.Log, Op{Kind: OpMMap, Size: int64(sz), Failed: true})
		return nil, ErrInjected
	}
	if sz > len(d.buf) {
		d.grow(int64(sz))
	}
	d.mapped++
	d.Log = append(d.Log, Op{Kind: OpMMap, Size: int64(sz)})
	return d.buf[:sz:sz], nil
}

func (d *Disk) MUnmap(b []byte) error {
	_, act := d.pre(OpMUnmap)
	d.mu.Lock()
	defer d.mu.Unlock()
	if act != FaultNone {
		d.Log = append(d.Log, Op{Kind: OpMUnmap, Failed: true})
		return ErrInjected
	}
	if len(b) == 0 {
		// like munmap(2) through golang.org/x/sys: EINVAL for an empty / nil mapping
		d.Log = append(d.Log, Op{Kind: OpMUnmap, Failed: true})
		return errors.New("simdisk: munmap: invalid argument")
	}
	if b != nil && d.mapped > 0 {
		d.mapped--
		if d.Poison && d.mapped == 0 {
			// Move the store; garbage the old one so stale references to the
			// unmapped view become visible.
			nb := make([]byte, len(d.buf))
			copy(nb, d.buf)
			old := d.buf
			d.buf = nb
			for i := range old {
				old[i] = 0xDB
			}
		}
	}
	d.Log = append(d.Log, Op{Kind: OpMUnmap})
	return nil
}

func (d *Disk) Sync(dataOnly bool) error {
	_, act := d.pre(OpSync)
	d.mu.Lock()
	defer d.mu.Unlock()
	if act != FaultNone {
		d.Log = append(d.Log, Op{Kind: OpSync, DataOnly: dataOnly, Failed: true})
		return ErrInjected
	}
	d.Log = append(d.Log, Op{Kind: OpSync, DataOnly: dataOnly})
	return nil
}

// Marker appends a marker to the operation log.
func (d *Disk) Marker(tag string) {
	d.mu.Lock()
	defer d.mu.Unlock()
	d.Log = append(d.Log, Op{Kind: OpMarker, Tag: tag})
}

// LogLen returns the current length of the operation log.
func (d *Disk) LogLen() int {
	d.mu.Lock()
	defer d.mu.Unlock()
	return len(d.Log)
}

// Snapshot returns a copy of the current file content.
func (d *Disk) Snapshot() []byte {
	d.mu.Lock()
	defer d.mu.Unlock()
	return append([]byte(nil), d.buf[:d.size]...)
}

// LogCopy returns a copy of the log (the ops' data slices are shared, they
// are never mutated).
func (d *Disk) LogCopy() []Op {
	d.mu.Lock()
	defer d.mu.Unlock()
	return append([]Op(nil), d.Log...)
}

// Init returns the initial content.
func (d *Disk) Init() []byte { return d.init }

// ---------------------------------------------------------------------------
// crash images

// Chunk is one page-granular piece of a logged write (or a truncate).
type Chunk struct {
	OpIdx    int
	Truncate bool
	Off      int64
	Data     []byte
	Size     int64
	Durable  bool // covered by a successful sync (first sync after it succeeded)
}

// Chunks splits the first k log entries into page granular chunks and
// classifies them as durable / not durable.
func Chunks(log []Op, k int, pageSize int64) []Chunk {
	if k > len(log) {
		k = len(log)
	}
	var out []Chunk
	start := 0 // first chunk not yet classified
	for i := 0; i < k; i++ {
		op := log[i]
		switch op.Kind {
		case OpWrite:
			off, data := op.Off, op.Data
			for len(data) > 0 {
				n := pageSize - off%pageSize
				if int64(len(data)) < n {
					n = int64(len(data))
				}
				out = append(out, Chunk{OpIdx: i, Off: off, Data: data[:n]})
				off += n
				data = data[n:]
			}
		case OpTruncate:
			if !op.Failed {
				out = append(out, Chunk{OpIdx: i, Truncate: true, Size: op.Size})
			}
		case OpSync:
			if !op.Failed {
				for j := start; j < len(out); j++ {
					out[j].Durable = true
				}
			}
			// after a failed sync the earlier writes stay in limbo for ever
			start = len(out)
		}
	}
	return out
}

// BuildImage applies the durable chunks and those non durable chunks selected
// by keep (indexed by position in chunks) to the initial content. tear >= 0
// applies only the first tear bytes of chunk tearIdx.
func BuildImage(init []byte, chunks []Chunk, keep func(i int) bool, tearIdx, tear int) []byte {
	img := append([]byte(nil), init...)
	for i, c := range chunks {
		if !c.Durable && !(keep != nil && keep(i)) {
			continue
		}
		if c.Truncate {
			if int64(len(img)) > c.Size {
				img = img[:c.Size]
			} else {
				img = append(img, make([]byte, c.Size-int64(len(img)))...)
			}
			continue
		}
		data := c.Data
		if i == tearIdx && tear >= 0 && tear < len(data) {
			data = data[:tear]
		}
		end := c.Off + int64(len(data))
		if int64(len(img)) < end {
			img = append(img, make([]byte, end-int64(len(img)))...)
		}
		copy(img[c.Off:end], data)
	}
	return img
}
