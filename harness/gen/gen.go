// Package gen generates operation histories from a single PRNG.
package gen

import (
	"math/rand"

	"verifharness/engine"
)

// Profile tunes the history generator.
type Profile struct {
	MaxTx       int
	MaxBody     int
	Readers     bool
	Reopen      bool
	Overflow    bool // allow EnableOverflowArea transactions
	AbortPct    int  // percentage of transactions ending in rollback/close
	WALLimits   []uint
	BigAllocPct int
	MaxAlloc    int
}

func DefaultProfile() Profile {
	return Profile{MaxTx: 12, MaxBody: 10, Readers: true, Reopen: true, Overflow: true, AbortPct: 20,
		WALLimits: []uint{0, 1, 2, 3, 1000}, BigAllocPct: 10, MaxAlloc: 6}
}

// Configs is the pool of file configurations.
func Configs() []engine.Config {
	return []engine.Config{
		{PageSize: 1024, MaxSize: 64 * 1024},
		{PageSize: 1024, MaxSize: 64 * 1024, InitMetaArea: 4},
		{PageSize: 1024, MaxSize: 128 * 1024, InitMetaArea: 8},
		{PageSize: 1024, MaxSize: 256 * 1024, InitMetaArea: 1},
		{PageSize: 1024, MaxSize: 0},
		{PageSize: 1024, MaxSize: 0, InitMetaArea: 4},
		{PageSize: 1024, MaxSize: 96 * 1024, Prealloc: true},
		{PageSize: 4096, MaxSize: 256 * 1024, InitMetaArea: 2},
	}
}

func PickConfig(r *rand.Rand) engine.Config {
	c := Configs()
	return c[r.Intn(len(c))]
}

// History generates a transaction structured history.
func History(r *rand.Rand, p Profile) []engine.Op {
	var ops []engine.Op
	ntx := 1 + r.Intn(p.MaxTx)
	for t := 0; t < ntx; t++ {
		if p.Readers && r.Intn(4) == 0 {
			ops = append(ops, engine.Op{Kind: "rbegin"})
		}
		b := engine.Op{Kind: "begin", WALLimit: p.WALLimits[r.Intn(len(p.WALLimits))]}
		if p.Overflow && r.Intn(5) == 0 {
			b.Overflow = true
		}
		if r.Intn(6) == 0 {
			b.GrowPct = []int{10, 50, 80, 100}[r.Intn(4)]
		}
		ops = append(ops, b)
		nb := r.Intn(p.MaxBody + 1)
		for i := 0; i < nb; i++ {
			ops = append(ops, BodyOp(r, p))
			if p.Readers && r.Intn(12) == 0 {
				ops = append(ops, engine.Op{Kind: []string{"rbegin", "rread", "rclose"}[r.Intn(3)], R: r.Intn(4)})
			}
		}
		// all readers must be gone before a commit can finish
		x := r.Intn(100)
		switch {
		case x < p.AbortPct/2:
			ops = append(ops, engine.Op{Kind: "rollback"})
		case x < p.AbortPct:
			ops = append(ops, engine.Op{Kind: "close"})
		default:
			ops = append(ops, engine.Op{Kind: "rcloseall"}, engine.Op{Kind: "commit"})
		}
		if r.Intn(3) == 0 {
			ops = append(ops, engine.Op{Kind: "verify"})
		}
		if p.Reopen && r.Intn(6) == 0 {
			ops = append(ops, engine.Op{Kind: "rcloseall"}, engine.Op{Kind: "reopen"}, engine.Op{Kind: "verify"})
		}
	}
	ops = append(ops, engine.Op{Kind: "rcloseall"}, engine.Op{Kind: "verify"})
	return ops
}

// BodyOp generates one operation for the body of a write transaction.
func BodyOp(r *rand.Rand, p Profile) engine.Op {
	x := r.Intn(100)
	seed := 1 + r.Intn(1<<20)
	pg := r.Intn(1 << 16)
	switch {
	case x < 22:
		n := 1 + r.Intn(p.MaxAlloc)
		if r.Intn(100) < p.BigAllocPct {
			n = 8 + r.Intn(24)
		}
		return engine.Op{Kind: "alloc", N: n}
	case x < 42:
		return engine.Op{Kind: "setfull", P: pg, Seed: seed}
	case x < 52:
		return engine.Op{Kind: "setpart", P: pg, Seed: seed, Len: r.Intn(1 << 12)}
	case x < 62:
		return engine.Op{Kind: "loadmark", P: pg, Seed: seed, Off: r.Intn(1 << 12), Len: r.Intn(1 << 12)}
	case x < 68:
		return engine.Op{Kind: "read", P: pg}
	case x < 70:
		// Load without MarkDirty: the page gets a write buffer but stays clean
		return engine.Op{Kind: "load", P: pg}
	case x < 72:
		// MarkDirty without Load: the page is written back as it is
		return engine.Op{Kind: "markdirty", P: pg}
	case x < 84:
		return engine.Op{Kind: "free", P: pg}
	case x < 89:
		return engine.Op{Kind: "flushpage", P: pg}
	case x < 92:
		return engine.Op{Kind: "flush"}
	case x < 95:
		return engine.Op{Kind: "checkpoint"}
	default:
		return engine.Op{Kind: "setroot", P: pg}
	}
}
