// Package model talks to the extracted Coq model (bin/modelrun).
package model

import (
	"bufio"
	"encoding/hex"
	"fmt"
	"io"
	"os"
	"os/exec"
	"path/filepath"
	"strings"
)

type Client struct {
	cmd *exec.Cmd
	in  io.WriteCloser
	out *bufio.Reader
	N   int
}

func binDir() string {
	if d := os.Getenv("VERIF_BIN"); d != "" {
		return d
	}
	exe, _ := os.Executable()
	return filepath.Dir(exe)
}

func Start() (*Client, error) {
	cmd := exec.Command(filepath.Join(binDir(), "modelrun"))
	in, err := cmd.StdinPipe()
	if err != nil {
		return nil, err
	}
	out, err := cmd.StdoutPipe()
	if err != nil {
		return nil, err
	}
	cmd.Stderr = os.Stderr
	if err := cmd.Start(); err != nil {
		return nil, err
	}
	return &Client{cmd: cmd, in: in, out: bufio.NewReaderSize(out, 1<<20)}, nil
}

// Ask sends one request line and returns the response line.
func (c *Client) Ask(req string) string {
	c.N++
	if _, err := io.WriteString(c.in, req+"\n"); err != nil {
		return "ERROR write: " + err.Error()
	}
	line, err := c.out.ReadString('\n')
	if err != nil {
		return "ERROR read: " + err.Error()
	}
	return strings.TrimRight(line, "\n")
}

func (c *Client) Close() {
	c.in.Close()
	c.cmd.Wait()
}

func Hex(b []byte) string { return "x" + hex.EncodeToString(b) }

func List(l []uint64) string {
	s := make([]string, len(l))
	for i, v := range l {
		s[i] = fmt.Sprint(v)
	}
	return "[" + strings.Join(s, ",") + "]"
}
