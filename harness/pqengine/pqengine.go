// Package pqengine executes producer / consumer histories against the real persistent queue (pq)
// on a txfile on the simulated disk and keeps a slice-of-events model of what the queue must contain.
package pqengine

import (
	"bytes"
	"fmt"
	"sync"

	txfile "github.com/elastic/go-txfile"
	"github.com/elastic/go-txfile/pq"
	"github.com/elastic/go-txfile/txerr"

	"verifharness/simdisk"
)

type Config struct {
	PageSize    uint32
	MaxSize     uint64
	WriteBuffer uint
	// RootOff != 0: the queue header lives at this byte offset of the root page (Delegate.Root returns a page id
	// AND an offset); a second queue (the neighbour, 2 events) keeps its header at offset 0 of the same page
	RootOff uintptr `json:",omitempty"`
	// WALLimit != 0: the queue's write / cleanup transactions use this overwrite-page limit instead of the standalone
	// delegate's 3 (an application may embed the queue with its own transaction options): with 1 or 2 the automatic
	// checkpoint runs inside the commits that rewrite the queue header
	WALLimit uint `json:",omitempty"`
}

// limitDelegate is a delegate whose transactions use their own overwrite-page limit.
type limitDelegate struct {
	pq.Delegate
	file  *txfile.File
	limit uint
}

func (d *limitDelegate) BeginWrite() (*txfile.Tx, error) {
	return d.file.BeginWith(txfile.TxOptions{WALLimit: d.limit})
}
func (d *limitDelegate) BeginCleanup() (*txfile.Tx, error) {
	return d.file.BeginWith(txfile.TxOptions{EnableOverflowArea: true, WALLimit: d.limit})
}

// offsetDelegate is a standalone delegate whose queue header sits at a byte offset of the root page.
type offsetDelegate struct {
	pq.Delegate
	page txfile.PageID
	off  uintptr
}

func (d *offsetDelegate) Root() (txfile.PageID, uintptr) { return d.page, d.off }

// offsetQueue prepares the queue header at cfg.RootOff (first open: plus the neighbour queue at offset 0).
func (e *Engine) offsetQueue(base pq.Delegate) (pq.Delegate, error) {
	rootID, _ := base.Root()
	off := e.Cfg.RootOff
	tx, err := e.File.Begin()
	if err != nil {
		return nil, err
	}
	defer tx.Close()
	page, err := tx.Page(rootID)
	if err != nil {
		return nil, err
	}
	if err := page.Load(); err != nil {
		return nil, err
	}
	buf, err := page.Bytes()
	if err != nil {
		return nil, err
	}
	fresh := true
	for _, b := range buf[off : off+uintptr(pq.SzRoot)] {
		if b != 0 {
			fresh = false
		}
	}
	if fresh {
		hdr := pq.MakeRoot()
		copy(buf[off:], hdr[:])
		if err := page.MarkDirty(); err != nil {
			return nil, err
		}
		if err := tx.Commit(); err != nil {
			return nil, err
		}
		// the neighbour: two events in the queue at offset 0
		nq, err := pq.New(base, pq.Settings{WriteBuffer: 0})
		if err != nil {
			return nil, err
		}
		w, err := nq.Writer()
		if err != nil {
			return nil, err
		}
		for i := 0; i < 2; i++ {
			if _, err := w.Write([]byte("neighbour")); err != nil {
				return nil, err
			}
			if err := w.Next(); err != nil {
				return nil, err
			}
		}
		if err := w.Flush(); err != nil {
			return nil, err
		}
		if err := nq.Close(); err != nil {
			return nil, err
		}
	}
	return &offsetDelegate{Delegate: base, page: rootID, off: off}, nil
}

func (c Config) String() string {
	if c.WALLimit != 0 {
		return fmt.Sprintf("ps=%d max=%d wbuf=%d rootoff=%d wallimit=%d", c.PageSize, c.MaxSize, c.WriteBuffer, c.RootOff, c.WALLimit)
	}
	if c.RootOff != 0 {
		return fmt.Sprintf("ps=%d max=%d wbuf=%d rootoff=%d", c.PageSize, c.MaxSize, c.WriteBuffer, c.RootOff)
	}
	return fmt.Sprintf("ps=%d max=%d wbuf=%d", c.PageSize, c.MaxSize, c.WriteBuffer)
}

// Op is one step of a queue history.
type Op struct {
	Kind string `json:"k"`
	N    int    `json:"n,omitempty"`    // bytes to write / read, events to ack
	Seed int    `json:"seed,omitempty"` // content seed
}

func (o Op) String() string {
	switch o.Kind {
	case "write", "read", "ack", "event", "readgap", "ackbad":
		return fmt.Sprintf("%s(%d)", o.Kind, o.N)
	}
	return o.Kind
}

// Engine runs queue histories.
type Engine struct {
	Cfg   Config
	Disk  *simdisk.Disk
	File  *txfile.File
	Queue *pq.Queue
	W     *pq.Writer
	R     *pq.Reader

	// model
	Events  [][]byte // all completed events, in order (index = event number)
	Cur     []byte   // bytes of the event being written
	Flushed int      // events known durable (successful flush)
	Acked   int      // events ACKed successfully
	// reader model
	InTx       bool
	VisibleEnd int // events visible to the open read transaction
	ReadPos    int // next event the reader will deliver
	InEvent    bool
	EventLeft  []byte // unread bytes of the event being read
	Consumed   int    // events fully read or skipped by the reader in this session
	// callbacks
	CbFlushed, CbAcked uint
	cbMu               sync.Mutex

	// pages held by the application that shares the file with the queue (ops appfill / apprelease)
	AppPages []txfile.PageID

	Failures []string
	Log      []string
	OpIndex  int
	Stats    map[string]int
	fmu      sync.Mutex

	// AfterOp is called after every op
	AfterOp func(e *Engine, op Op, res string)
	// WriterHook is called right before ("before") and right after ("after") every call of Writer.Write / Next / Flush
	WriterHook func(e *Engine, phase, kind string, data []byte, err error)
	// AckHook is called after every successful ACK with the queue structure before and after it
	AckHook func(e *Engine, n int, before, after ChainState)
	// Snaps: model state after every completed op (for crash exploration)
	Snaps []Snap

	// Concurrent: producer and consumer run in different goroutines (no automatic rdone)
	Concurrent bool

	// AllowFlushErr: out-of-space errors of Write/Next/Flush are legitimate (bounded files)
	FlushErrors int
}

// Snap is the durable queue state (events [Acked:Flushed) of Events) at a position of the disk log.
type Snap struct {
	LogIndex       int
	Flushed, Acked int
}

// Content returns the bytes of event number [event] (first n bytes).
func Content(event int, seed int, n int) []byte { return content(event, seed, n) }

func content(event int, seed int, n int) []byte {
	b := make([]byte, n)
	x := uint64(event)*0x9E3779B97F4A7C15 + uint64(seed)*0xBF58476D1CE4E5B9 + 12345
	for i := range b {
		x ^= x << 13
		x ^= x >> 7
		x ^= x << 17
		b[i] = byte(x)
	}
	return b
}

func (e *Engine) fail(format string, args ...interface{}) {
	e.fmu.Lock()
	defer e.fmu.Unlock()
	e.Failures = append(e.Failures, fmt.Sprintf("op#%d: ", e.OpIndex)+fmt.Sprintf(format, args...))
}

// Fail records an oracle failure found by a campaign.
func (e *Engine) Fail(format string, args ...interface{}) { e.fail(format, args...) }

func New(cfg Config) (*Engine, error) {
	e := &Engine{Cfg: cfg, Disk: simdisk.New("pq"), Stats: map[string]int{}}
	if err := e.open(true); err != nil {
		return nil, err
	}
	return e, nil
}

func (e *Engine) open(create bool) (err error) {
	defer func() {
		if r := recover(); r != nil {
			err = fmt.Errorf("PANIC while opening the queue: %v", r)
		}
	}()
	opts := txfile.Options{}
	if create {
		opts = txfile.Options{PageSize: e.Cfg.PageSize, MaxSize: e.Cfg.MaxSize}
	}
	e.Disk.Marker("open")
	f, err := txfile.VerifOpen(e.Disk, opts)
	if err != nil {
		return err
	}
	e.File = f
	return e.attach()
}

func (e *Engine) attach() error {
	del, err := pq.NewStandaloneDelegate(e.File)
	if err != nil {
		return err
	}
	if e.Cfg.RootOff != 0 {
		if del, err = e.offsetQueue(del); err != nil {
			return err
		}
	}
	if e.Cfg.WALLimit != 0 {
		del = &limitDelegate{Delegate: del, file: e.File, limit: e.Cfg.WALLimit}
	}
	q, err := pq.New(del, pq.Settings{
		WriteBuffer: e.Cfg.WriteBuffer,
		Flushed: func(n uint) {
			e.cbMu.Lock()
			e.CbFlushed += n
			e.cbMu.Unlock()
		},
		ACKed: func(ev, pages uint) {
			e.cbMu.Lock()
			e.CbAcked += ev
			e.cbMu.Unlock()
		},
	})
	if err != nil {
		return err
	}
	e.Queue = q
	e.Disk.Marker("pq-ready")
	e.Snaps = append(e.Snaps, Snap{LogIndex: e.Disk.LogLen(), Flushed: e.Flushed, Acked: e.Acked})
	w, err := q.Writer()
	if err != nil {
		return err
	}
	e.W = w
	e.R = q.Reader()
	return nil
}

// Attach opens an existing image with a given expected content (events [acked:flushed) of evs).
func Attach(cfg Config, disk *simdisk.Disk, events [][]byte, acked, flushed int) (*Engine, error) {
	e := &Engine{Cfg: cfg, Disk: disk, Stats: map[string]int{}}
	e.Events = append([][]byte(nil), events[:flushed]...)
	e.Flushed, e.Acked, e.ReadPos = flushed, acked, acked
	e.CbFlushed, e.CbAcked = uint(flushed), uint(acked)
	if err := e.open(false); err != nil {
		return nil, err
	}
	return e, nil
}

func isOOM(err error) bool {
	return err != nil && (txerr.Is(txfile.OutOfMemory, err) || txerr.Is(txfile.NoDiskSpace, err))
}

// IsFull: the error says that the file is full (legitimate on bounded files).
func IsFull(err error) bool { return isOOM(err) }

func pqKind(err error) string {
	if err == nil {
		return ""
	}
	if isOOM(err) {
		return "oom"
	}
	if k := txerr.GetKind(err); k != nil {
		return fmt.Sprintf("%v", k)
	}
	return "error"
}

// Apply executes one op.
func (e *Engine) Apply(op Op) (res string) {
	e.OpIndex++
	defer func() {
		if r := recover(); r != nil {
			res = fmt.Sprintf("PANIC: %v", r)
			e.fail("%v panicked: %v", op, r)
		}
		e.Stats[op.Kind]++
		if res != "" {
			e.Stats["err:"+op.Kind]++
		}
		e.Log = append(e.Log, fmt.Sprintf("%v => %q", op, res))
		e.Snaps = append(e.Snaps, Snap{LogIndex: e.Disk.LogLen(), Flushed: e.Flushed, Acked: e.Acked})
		if e.AfterOp != nil {
			e.AfterOp(e, op, res)
		}
	}()
	return e.apply(op)
}

// flushedNow: a successful flush makes all completed events durable.
func (e *Engine) noteFlushOK() { e.Flushed = len(e.Events) }

func (e *Engine) apply(op Op) string {
	// single threaded histories: a flush (also an implicit one) is a write transaction whose commit
	// waits for open read transactions - the reader's transaction must be closed first
	switch op.Kind {
	case "write", "next", "flush", "event":
		if e.InTx && !e.Concurrent {
			e.apply(Op{Kind: "rdone"})
		}
	}
	switch op.Kind {
	case "write":
		// append n bytes to the current event
		n := op.N
		chunk := content(len(e.Events), op.Seed, len(e.Cur)+n)[len(e.Cur):]
		e.Disk.Marker("pq-op-begin")
		before := e.cbFlushed()
		if e.WriterHook != nil {
			e.WriterHook(e, "before", "write", chunk, nil)
		}
		k, err := e.W.Write(chunk)
		if e.WriterHook != nil {
			e.WriterHook(e, "after", "write", chunk, err)
		}
		after := e.cbFlushed()
		if err != nil {
			e.Disk.Marker("pq-op-fail")
			if !isOOM(err) && e.Disk.Fault == nil {
				e.fail("Write(%d bytes) failed: %v", n, err)
			}
			if k != 0 {
				e.fail("Write returned an error but claims %d bytes written", k)
			}
			e.FlushErrors++
			return pqKind(err)
		}
		e.Disk.Marker("pq-op-ok")
		if after != before {
			e.noteFlushOK()
		}
		if k != n {
			e.fail("Write(%d bytes) wrote %d", n, k)
		}
		e.Cur = append(e.Cur, chunk...)
		return ""

	case "next":
		e.Disk.Marker("pq-op-begin")
		before := e.cbFlushed()
		if e.WriterHook != nil {
			e.WriterHook(e, "before", "next", nil, nil)
		}
		err := e.W.Next()
		if e.WriterHook != nil {
			e.WriterHook(e, "after", "next", nil, err)
		}
		after := e.cbFlushed()
		// the event is complete (and buffered) even if the implicit flush failed
		e.Events = append(e.Events, e.Cur)
		e.Cur = nil
		if after != before {
			e.noteFlushOK()
		}
		if err != nil {
			e.Disk.Marker("pq-op-fail")
			if !isOOM(err) && e.Disk.Fault == nil {
				e.fail("Next failed: %v", err)
			}
			e.FlushErrors++
			return pqKind(err)
		}
		e.Disk.Marker("pq-op-ok")
		return ""

	case "event":
		// a complete event of n bytes in one or several writes
		// (a producer whose Write failed does not complete the event)
		if res := e.apply(Op{Kind: "write", N: op.N, Seed: op.Seed}); res != "" {
			return res
		}
		return e.apply(Op{Kind: "next"})

	case "flush":
		e.Disk.Marker("pq-op-begin")
		if e.WriterHook != nil {
			e.WriterHook(e, "before", "flush", nil, nil)
		}
		err := e.W.Flush()
		if e.WriterHook != nil {
			e.WriterHook(e, "after", "flush", nil, err)
		}
		if err != nil {
			e.Disk.Marker("pq-op-fail")
			if !isOOM(err) && e.Disk.Fault == nil {
				e.fail("Flush failed: %v", err)
			}
			e.FlushErrors++
			return pqKind(err)
		}
		e.Disk.Marker("pq-op-ok")
		e.noteFlushOK()
		return ""

	case "rbegin":
		if e.InTx {
			return "skipped"
		}
		if err := e.R.Begin(); err != nil {
			e.fail("Reader.Begin failed: %v", err)
			return pqKind(err)
		}
		e.InTx = true
		e.VisibleEnd = e.Flushed
		return ""

	case "rdone":
		if !e.InTx {
			return "skipped"
		}
		e.R.Done()
		e.InTx = false
		return ""

	case "rnext":
		if !e.InTx {
			return "skipped"
		}
		if e.InEvent {
			// skip the rest of the current event
			e.InEvent = false
			e.ReadPos++
		}
		sz, err := e.R.Next()
		if err != nil {
			e.fail("Reader.Next failed: %v", err)
			return pqKind(err)
		}
		if id, end, pg, off, eb := pq.VerifReaderState(e.R); int(id) != e.ReadPos {
			e.fail("reader-cursor-diverged: after Next (size %d) the reader is at event id %d (endID %d, page %d off %d, eventBytes %d), the model at event #%d of %d visible", sz, id, end, pg, off, eb, e.ReadPos, e.VisibleEnd)
		}
		if e.ReadPos >= e.VisibleEnd {
			if sz != 0 {
				e.fail("Reader.Next returns an event of %d bytes, but all %d visible events were delivered", sz, e.VisibleEnd)
			}
			return ""
		}
		want := e.Events[e.ReadPos]
		if sz != len(want) {
			e.fail("Reader.Next: event #%d has %d bytes, reader says %d", e.ReadPos, len(want), sz)
			return "mismatch"
		}
		// (an empty event: Next reports size 0 like for "no more events", the reader stands in the event - no bytes
		// left - and moves on with the following Next)
		e.InEvent = true
		e.EventLeft = want
		return ""

	case "readgap":
		// partial read that stops op.N (1..5) bytes before the end of the reader's current page
		if !e.InTx || !e.InEvent {
			return "skipped"
		}
		_, _, _, off, _ := pq.VerifReaderState(e.R)
		k := int(e.Cfg.PageSize) - off - op.N
		if k <= 0 || k >= len(e.EventLeft) {
			return "skipped"
		}
		e.Stats["readgap-hit"]++
		return e.apply(Op{Kind: "read", N: k})

	case "read":
		if !e.InTx {
			return "skipped"
		}
		buf := make([]byte, op.N)
		k, err := e.R.Read(buf)
		if err != nil {
			e.fail("Reader.Read failed: %v", err)
			return pqKind(err)
		}
		if !e.InEvent || len(e.EventLeft) == 0 {
			if k != 0 {
				e.fail("Reader.Read returns %d bytes outside of an event / in an empty event", k)
			}
			return ""
		}
		wantN := op.N
		if wantN > len(e.EventLeft) {
			wantN = len(e.EventLeft)
		}
		if k != wantN {
			e.fail("Reader.Read(%d) of event #%d returned %d bytes, expected %d", op.N, e.ReadPos, k, wantN)
			return "mismatch"
		}
		if !bytes.Equal(buf[:k], e.EventLeft[:k]) {
			e.fail("Reader.Read: bytes of event #%d differ from what was written", e.ReadPos)
		}
		e.EventLeft = e.EventLeft[k:]
		if len(e.EventLeft) == 0 {
			e.InEvent = false
			e.ReadPos++
		}
		if id, _, pg, off, eb := pq.VerifReaderState(e.R); int(id) != e.ReadPos {
			e.fail("reader-cursor-diverged: after reading %d bytes the reader is at event id %d (page %d off %d, eventBytes %d), the model at event #%d", k, id, pg, off, eb, e.ReadPos)
		}
		return ""

	case "readall":
		// read every visible event completely
		if !e.InTx {
			return "skipped"
		}
		for guard := 0; guard < 1<<20; guard++ {
			if !e.InEvent || len(e.EventLeft) == 0 {
				before := e.ReadPos
				e.apply(Op{Kind: "rnext"})
				if !e.InEvent && e.ReadPos == before {
					break
				}
				if !e.InEvent || len(e.EventLeft) == 0 {
					continue
				}
			}
			e.apply(Op{Kind: "read", N: len(e.EventLeft)})
		}
		return ""

	case "ack":
		// ACK n events (only events the reader has consumed in the model)
		n := op.N
		if max := e.ReadPos - e.Acked; n > max {
			n = max
		}
		if n <= 0 {
			return "skipped"
		}
		if e.InTx {
			// the ACK needs the write lock; the reader's transaction must be closed first
			e.apply(Op{Kind: "rdone"})
		}
		var before ChainState
		var berr error
		if e.AckHook != nil {
			before, berr = e.Chain()
		}
		e.Disk.Marker("pq-op-begin")
		err := e.Queue.ACK(uint(n))
		if err != nil {
			e.Disk.Marker("pq-op-fail")
			e.fail("ACK(%d) failed with %d events pending: %v", n, e.Flushed-e.Acked, err)
			return pqKind(err)
		}
		e.Disk.Marker("pq-op-ok")
		e.Acked += n
		if e.AckHook != nil && berr == nil {
			if after, aerr := e.Chain(); aerr == nil {
				e.AckHook(e, n, before, after)
			}
		}
		return ""

	case "ackbad":
		// an ACK for more events than are pending (or on an empty queue): must be refused and change nothing
		if e.InTx {
			e.apply(Op{Kind: "rdone"})
		}
		pend := e.Flushed - e.Acked
		n := pend + 1 + op.N%5
		err := e.Queue.ACK(uint(n))
		if err == nil {
			e.fail("ACK(%d) succeeded although only %d events are pending", n, pend)
			return "accepted"
		}
		e.CheckCounters(fmt.Sprintf("after the refused ACK(%d) with %d events pending", n, pend))
		return pqKind(err)

	case "counters":
		e.CheckCounters("counters")
		return ""

	case "fault":
		// fail the N-th next write (P = 0) / sync (P = 1) call of the file and the Len - 1 calls after it
		k := simdisk.OpWrite
		if op.Seed%2 == 1 {
			k = simdisk.OpSync
		}
		l := op.N
		if l <= 0 {
			l = 1
		}
		e.Disk.SetFaults([]simdisk.FaultRule{{Kind: k, From: e.Disk.Count(k), Len: l}})
		return ""

	case "nofault":
		e.Disk.Fault = nil
		return ""

	case "appfill":
		// the application that shares the file with the queue takes every page that is left (keeping N of them free)
		if e.InTx {
			e.apply(Op{Kind: "rdone"})
		}
		tx, err := e.File.Begin()
		if err != nil {
			e.fail("appfill: Begin failed: %v", err)
			return "begin-failed"
		}
		var got []txfile.PageID
		for {
			p, err := tx.Alloc()
			if err != nil {
				break
			}
			got = append(got, p.ID())
			if len(got) > 1<<16 {
				break
			}
		}
		keep := op.N
		if keep > len(got) {
			keep = len(got)
		}
		for _, id := range got[len(got)-keep:] {
			if p, err := tx.Page(id); err == nil {
				p.Free()
			}
		}
		got = got[:len(got)-keep]
		if err := tx.Commit(); err != nil {
			tx.Close()
			return "commit-failed"
		}
		e.AppPages = append(e.AppPages, got...)
		if op.Seed > 0 {
			// ... and overwrites its pages (each overwrite takes an overwrite page out of the meta area) until the meta area
			// is used up as well
			buf := make([]byte, e.File.PageSize())
			for i, id := range e.AppPages {
				tx, err := e.File.BeginWith(txfile.TxOptions{WALLimit: 1 << 20})
				if err != nil {
					break
				}
				p, err := tx.Page(id)
				if err == nil {
					buf[0] = byte(i)
					err = p.SetBytes(buf)
				}
				if err == nil {
					err = tx.Commit()
				}
				tx.Close()
				if err != nil {
					e.Stats["appfill-overwrites"] += i
					e.Log = append(e.Log, fmt.Sprintf("appfill: overwrite #%d stopped: %v", i, err))
					break
				}
			}
		}
		return ""

	case "apprelease":
		if e.InTx {
			e.apply(Op{Kind: "rdone"})
		}
		if len(e.AppPages) == 0 {
			return "skipped"
		}
		tx, err := e.File.BeginWith(txfile.TxOptions{EnableOverflowArea: true})
		if err != nil {
			e.fail("apprelease: Begin failed: %v", err)
			return "begin-failed"
		}
		for _, id := range e.AppPages {
			if p, err := tx.Page(id); err == nil {
				p.Free()
			}
		}
		if err := tx.Commit(); err != nil {
			tx.Close()
			e.fail("apprelease: Commit failed: %v", err)
			return "commit-failed"
		}
		e.AppPages = nil
		return ""

	case "reopen":
		if e.InTx {
			e.apply(Op{Kind: "rdone"})
		}
		e.Disk.Marker("pq-op-begin")
		err := e.Queue.Close()
		if err != nil {
			e.Disk.Marker("pq-op-fail")
			if !isOOM(err) {
				e.fail("Queue.Close failed: %v", err)
			}
			// the buffered events are dropped with the writer: the history ends here
			e.File.Close()
			e.File, e.Queue = nil, nil
			return "close-failed"
		}
		e.Disk.Marker("pq-op-ok")
		e.noteFlushOK()
		// a partially written event is lost with the writer
		e.Cur = nil
		if err := e.File.Close(); err != nil {
			e.fail("File.Close failed: %v", err)
		}
		e.File, e.Queue = nil, nil
		if err := e.open(false); err != nil {
			e.fail("reopen failed: %v", err)
			return "reopen-failed"
		}
		// reading resumes at the first un-ACKed event
		e.ReadPos, e.InEvent, e.EventLeft = e.Acked, false, nil
		return ""
	}
	panic("unknown pq op " + op.Kind)
}

func (e *Engine) cbFlushed() uint {
	e.cbMu.Lock()
	defer e.cbMu.Unlock()
	return e.CbFlushed
}

// CheckCounters compares Pending / Active / Available / callbacks with the model.
// CheckMetaAccounting: every page of the file's meta area is accounted for - free, an overwrite page, a mapping page or
// a free-list page (between two queue operations no write transaction is open). A page the queue's transactions
// drop without returning it (seeded change C12m: the overwrite page of a freed queue page) shows up here long before
// the file runs out of space.
func (e *Engine) CheckMetaAccounting(what string) {
	if e.File == nil || e.Concurrent {
		return
	}
	s := txfile.VerifSnapshot(e.File)
	count := func(l []txfile.VerifRegion) (n uint64) {
		for _, r := range l {
			n += uint64(r.Count)
		}
		return n
	}
	inUse := uint64(len(s.WalMapping)) + count(s.WalMetaPages) + count(s.FreelistPages)
	if uint64(s.MetaTotal) != count(s.MetaFree)+inUse {
		e.fail("meta-area-accounting: %s: meta area of %d pages, but %d free + %d overwrite pages + %d mapping pages + %d free-list pages = %d", what,
			s.MetaTotal, count(s.MetaFree), len(s.WalMapping), count(s.WalMetaPages), count(s.FreelistPages), count(s.MetaFree)+inUse)
	}
}

func (e *Engine) CheckCounters(what string) {
	if e.Queue == nil {
		return
	}
	defer func() {
		if r := recover(); r != nil {
			e.fail("%s: a counter query panicked: %v", what, r)
		}
	}()
	e.CheckMetaAccounting(what)
	pend := e.Flushed - e.Acked
	if p, err := e.Queue.Pending(); err != nil || p != pend {
		e.fail("%s: Pending() = %d (%v), flushed %d - acked %d = %d", what, p, err, e.Flushed, e.Acked, pend)
	}
	if a, err := e.Queue.Active(); err != nil || int(a) != pend {
		e.fail("%s: Active() = %d (%v), expected %d", what, a, err, pend)
	}
	if e.InTx {
		// Available: visible events not yet consumed by the reader
		want := e.VisibleEnd - e.ReadPos
		if e.InEvent {
			// the event being read is not counted as consumed yet
		}
		if a, err := e.R.Available(); err == nil && int(a) != want && !(e.ReadPos == e.Acked && want == 0) {
			e.fail("%s: Reader.Available() = %d, visible %d - consumed %d = %d", what, a, e.VisibleEnd, e.ReadPos, want)
		}
	}
	e.cbMu.Lock()
	cf, ca := e.CbFlushed, e.CbAcked
	e.cbMu.Unlock()
	if int(cf) != e.Flushed {
		e.fail("%s: Flushed callbacks reported %d events in total, %d were flushed", what, cf, e.Flushed)
	}
	if int(ca) != e.Acked {
		e.fail("%s: ACKed callbacks reported %d events in total, %d were ACKed", what, ca, e.Acked)
	}
}

// Drain reads everything that is pending in a fresh read transaction and compares it with the model.
func (e *Engine) Drain(what string) {
	if e.Queue == nil {
		return
	}
	defer func() {
		if r := recover(); r != nil {
			e.fail("%s: the reader panicked while draining the queue: %v", what, r)
		}
	}()
	if e.InTx {
		e.apply(Op{Kind: "rdone"})
	}
	e.apply(Op{Kind: "rbegin"})
	e.apply(Op{Kind: "readall"})
	if e.ReadPos != e.Flushed {
		e.fail("%s: after draining the reader delivered events up to #%d, %d were flushed", what, e.ReadPos, e.Flushed)
	}
	e.apply(Op{Kind: "rdone"})
}

// Close closes queue and file.
func (e *Engine) Close() {
	defer func() { recover() }()
	if e.InTx && e.R != nil {
		e.R.Done()
	}
	if e.Queue != nil {
		e.Queue.Close()
	}
	if e.File != nil {
		e.File.Close()
	}
	e.Queue, e.File = nil, nil
}

// DataPagesInUse returns FileStats-like accounting from the file: pages that are neither free nor meta.
func (e *Engine) DataPagesInUse() int {
	s := txfile.VerifSnapshot(e.File)
	end := s.DataEnd
	if s.MetaEnd > end {
		end = s.MetaEnd
	}
	return int(end) - 2 - int(s.MetaTotal) - int(s.DataAvail)
}

// RawStream walks the page chain of the queue from its head page in a read transaction and returns
// the concatenated payload areas, the payload size, the stream position of the first un-ACKed event,
// the number of flushed un-ACKed events, and the number of pages in the chain.
func (e *Engine) RawStream() (stream []byte, payload, startPos, events, pages int, err error) {
	tx, err := e.File.BeginReadonly()
	if err != nil {
		return nil, 0, 0, 0, 0, err
	}
	defer tx.Close()
	ps := tx.PageSize()
	payload = ps - 28
	rootPage, err := tx.Page(tx.Root())
	if err != nil {
		return nil, 0, 0, 0, 0, err
	}
	rb, err := rootPage.Bytes()
	if err != nil {
		return nil, 0, 0, 0, 0, err
	}
	rb = rb[e.Cfg.RootOff:]
	le := func(b []byte) uint64 {
		var v uint64
		for i := 7; i >= 0; i-- {
			v = v<<8 | uint64(b[i])
		}
		return v
	}
	headOff, tailID := le(rb[4:12]), le(rb[28:36])
	readOff, readID := le(rb[36:44]), le(rb[44:52])
	headID := le(rb[12:20])
	if headOff == 0 {
		return nil, payload, 0, 0, 0, nil
	}
	startOff, startID := headOff, headID
	if readOff != 0 {
		startOff, startID = readOff, readID
	}
	headPage := headOff / uint64(ps)
	// position of the first un-ACKed event relative to the start of the head page's payload
	startPage := startOff / uint64(ps)
	inPage := int(startOff % uint64(ps))
	if inPage == 0 {
		inPage = ps
	}
	id := headPage
	idx := 0
	found := false
	for id != 0 {
		p, err := tx.Page(txfile.PageID(id))
		if err != nil {
			return nil, 0, 0, 0, 0, err
		}
		b, err := p.Bytes()
		if err != nil {
			return nil, 0, 0, 0, 0, err
		}
		if id == startPage {
			startPos = idx*payload + inPage - 28
			found = true
		}
		stream = append(stream, b[28:]...)
		id = le(b[0:8])
		idx++
		if idx > 1<<16 {
			return nil, 0, 0, 0, 0, fmt.Errorf("page chain too long (cycle?)")
		}
	}
	if !found {
		return nil, 0, 0, 0, 0, fmt.Errorf("the read position (page %d) is not on the page chain", startPage)
	}
	return stream, payload, startPos, int(tailID - startID), idx, nil
}

// PageInfo is the header of one event page of the chain.
type PageInfo struct {
	ID, First, Last uint64
	Off             uint32
}

// ChainState is the queue root plus the headers of the page chain (from the head page).
type ChainState struct {
	HeadPage, HeadID, ReadPage, ReadID, TailID, InUse uint64
	ReadOff                                           int
	Pages                                             []PageInfo
}

// Chain reads the queue root and walks the page chain in a read transaction.
func (e *Engine) Chain() (cs ChainState, err error) {
	tx, err := e.File.BeginReadonly()
	if err != nil {
		return cs, err
	}
	defer tx.Close()
	ps := uint64(tx.PageSize())
	rootPage, err := tx.Page(tx.Root())
	if err != nil {
		return cs, err
	}
	rb, err := rootPage.Bytes()
	if err != nil {
		return cs, err
	}
	rb = rb[e.Cfg.RootOff:]
	le := func(b []byte) uint64 {
		var v uint64
		for i := len(b) - 1; i >= 0; i-- {
			v = v<<8 | uint64(b[i])
		}
		return v
	}
	headOff, readOff := le(rb[4:12]), le(rb[36:44])
	cs.HeadPage, cs.HeadID = headOff/ps, le(rb[12:20])
	cs.ReadPage, cs.ReadOff, cs.ReadID = readOff/ps, int(readOff%ps), le(rb[44:52])
	cs.TailID, cs.InUse = le(rb[28:36]), le(rb[52:60])
	for id := cs.HeadPage; id != 0; {
		p, err := tx.Page(txfile.PageID(id))
		if err != nil {
			return cs, err
		}
		b, err := p.Bytes()
		if err != nil {
			return cs, err
		}
		cs.Pages = append(cs.Pages, PageInfo{ID: id, First: le(b[8:16]), Last: le(b[16:24]), Off: uint32(le(b[24:28]))})
		id = le(b[0:8])
		if len(cs.Pages) > 1<<16 {
			return cs, fmt.Errorf("page chain too long (cycle?)")
		}
	}
	return cs, nil
}
