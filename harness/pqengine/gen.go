package pqengine

import "math/rand"

// Profile tunes the queue history generator.
type Profile struct {
	Steps    int
	MaxEvent int  // max event size in bytes
	Boundary bool // prefer sizes around page / header boundaries
	Reopen   bool
	PageSize int
	AckPct   int
	Empty    bool // now and then an event without contents (Next without Write)
}

func eventSize(r *rand.Rand, p Profile) int {
	payload := p.PageSize - 28
	if p.Boundary && r.Intn(3) == 0 {
		// sizes that end exactly on / around page and header boundaries
		base := []int{payload, payload - 4, payload - 8, 2*payload - 4, 2 * payload, 3*payload - 4, payload/2 - 4}[r.Intn(7)]
		n := base + r.Intn(9) - 4
		if n < 1 {
			n = 1
		}
		return n
	}
	switch r.Intn(10) {
	case 0:
		return 1 + r.Intn(8)
	case 1, 2:
		return 1 + r.Intn(p.MaxEvent)
	default:
		return 1 + r.Intn(p.PageSize)
	}
}

// History generates a producer / consumer history.
func History(r *rand.Rand, p Profile) []Op {
	var ops []Op
	for i := 0; i < p.Steps; i++ {
		switch x := r.Intn(100); {
		case x < 35:
			if p.Empty && r.Intn(20) == 0 {
				ops = append(ops, Op{Kind: "next"})
				continue
			}
			// one event, written in 1..4 chunks
			n := eventSize(r, p)
			chunks := 1
			if r.Intn(3) == 0 {
				chunks = 2 + r.Intn(3)
			}
			if r.Intn(15) == 0 {
				chunks = n // byte by byte
				if chunks > 40 {
					chunks = 40
				}
			}
			left := n
			for c := 0; c < chunks && left > 0; c++ {
				k := left
				if c < chunks-1 {
					k = 1 + r.Intn(left)
				}
				ops = append(ops, Op{Kind: "write", N: k, Seed: i})
				left -= k
				if r.Intn(12) == 0 {
					ops = append(ops, Op{Kind: "flush"}) // flush in the middle of an event
				}
			}
			ops = append(ops, Op{Kind: "next"})
		case x < 45:
			ops = append(ops, Op{Kind: "flush"})
		case x < 55:
			ops = append(ops, Op{Kind: "rbegin"})
		case x < 65:
			ops = append(ops, Op{Kind: "rnext"})
		case x < 68:
			// leave an event a few bytes before the end of a page
			ops = append(ops, Op{Kind: "rnext"}, Op{Kind: "readgap", N: 1 + r.Intn(5)}, Op{Kind: "rnext"})
		case x < 78:
			ops = append(ops, Op{Kind: "read", N: 1 + r.Intn(2*p.PageSize)})
		case x < 83:
			ops = append(ops, Op{Kind: "readall"})
		case x < 88:
			ops = append(ops, Op{Kind: "rdone"})
		case x < 88+p.AckPct:
			ops = append(ops, Op{Kind: "ack", N: 1 + r.Intn(6)})
		case x < 95:
			ops = append(ops, Op{Kind: "counters"})
		case x < 97:
			ops = append(ops, Op{Kind: "ackbad", N: r.Intn(5)})
		default:
			if p.Reopen {
				ops = append(ops, Op{Kind: "reopen"})
			}
		}
	}
	return ops
}
