// Package engine executes operation histories against the real txfile
// implementation on a simulated disk and keeps a sequential map model of what
// the file must contain (the direct oracle).
package engine

import (
	"bytes"
	"encoding/binary"
	"fmt"
	"os"
	"runtime/debug"
	"sort"
	"strings"
	"sync"
	"time"

	txfile "github.com/elastic/go-txfile"
	"github.com/elastic/go-txfile/txerr"

	"verifharness/simdisk"
)

// Config describes how a file is created.
type Config struct {
	PageSize     uint32
	MaxSize      uint64 // 0 = unbounded
	InitMetaArea uint32
	Prealloc     bool
	Observer     txfile.Observer
	SyncNone     bool // Options.Sync = SyncNone (the writer issues no fsync)
}

func (c Config) Options() txfile.Options {
	mode := txfile.SyncDefault
	if c.SyncNone {
		mode = txfile.SyncNone
	}
	return txfile.Options{
		MaxSize: c.MaxSize, PageSize: c.PageSize, InitMetaArea: c.InitMetaArea,
		Prealloc: c.Prealloc, Sync: mode, Observer: c.Observer,
	}
}

func (c Config) String() string {
	if c.SyncNone {
		return fmt.Sprintf("ps=%d max=%d meta=%d prealloc=%v sync=none", c.PageSize, c.MaxSize, c.InitMetaArea, c.Prealloc)
	}
	return fmt.Sprintf("ps=%d max=%d meta=%d prealloc=%v", c.PageSize, c.MaxSize, c.InitMetaArea, c.Prealloc)
}

// Op is one step of a history.
type Op struct {
	Kind     string `json:"k"`
	N        int    `json:"n,omitempty"`   // alloc count / generic
	P        int    `json:"p,omitempty"`   // logical page index
	Off      int    `json:"off,omitempty"` // offset for load+mark
	Len      int    `json:"len,omitempty"` // length for partial writes
	Seed     int    `json:"seed,omitempty"`
	Overflow bool   `json:"ovf,omitempty"`
	WALLimit uint   `json:"wal,omitempty"`
	GrowPct  int    `json:"pct,omitempty"`
	R        int    `json:"r,omitempty"` // reader index
	MaxSize  uint64 `json:"max,omitempty"`
	Flags    uint64 `json:"flags,omitempty"`
	Prealloc bool   `json:"prealloc,omitempty"`
}

func (o Op) String() string {
	switch o.Kind {
	case "begin":
		return fmt.Sprintf("begin(ovf=%v,wal=%d,pct=%d)", o.Overflow, o.WALLimit, o.GrowPct)
	case "alloc":
		return fmt.Sprintf("alloc(%d)", o.N)
	case "setfull", "read", "free", "flushpage", "setroot", "load", "markdirty":
		return fmt.Sprintf("%s(p%d,s%d)", o.Kind, o.P, o.Seed)
	case "setpart":
		return fmt.Sprintf("setpart(p%d,len=%d,s%d)", o.P, o.Len, o.Seed)
	case "loadmark":
		return fmt.Sprintf("loadmark(p%d,off=%d,len=%d,s%d)", o.P, o.Off, o.Len, o.Seed)
	case "reopen", "reopen-under-faults":
		return fmt.Sprintf("%s(max=%d,flags=%d,prealloc=%v)", o.Kind, o.MaxSize, o.Flags, o.Prealloc)
	case "fault":
		return fmt.Sprintf("fault(%s,+%d,x%d)", [...]string{"write", "sync", "truncate", "mmap", "size", "shortwrite"}[o.P%6], o.N, o.Len)
	case "rbegin", "rread", "rclose":
		return fmt.Sprintf("%s(r%d,p%d)", o.Kind, o.R, o.P)
	}
	return o.Kind
}

// Result describes what one op did.
type Result struct {
	Err      string   // "" or error kind / text
	ErrText  string   // full error message (diagnosis)
	IDs      []uint64 // allocated ids
	Skipped  bool     // op not applicable in current state
	Panicked bool
}

// State is a committed logical state.
type State struct {
	Root  uint64
	Pages map[uint64][]byte
	Txid  uint64 // header txid that describes this state (0 if unknown)
}

func (s State) Clone() State {
	c := State{Root: s.Root, Pages: make(map[uint64][]byte, len(s.Pages)), Txid: s.Txid}
	for k, v := range s.Pages {
		c.Pages[k] = v
	}
	return c
}

type reader struct {
	tx    *txfile.Tx
	state State
	// the byte slices the reader obtained from Page.Bytes the first time it looked at a page: they alias the
	// memory mapping and must stay valid and unchanged until the reader is closed (a commit may only remap or
	// truncate the file when no reader is open)
	held map[uint64][]byte
}

// Engine runs histories.
// RollbackTrunc records what a rollback did to the file: sizes in bytes, NewSize -1 = not truncated.
type RollbackTrunc struct {
	SzBefore           int64
	MetaEnd, DataEnd   uint64
	OtherEnd           uint64 // end of the state of the other header page (0: that page is not valid)
	MaxPages, PageSize uint
	NewSize            int64
	Failed             bool // the size query or the truncate call itself failed (fault injection)
}

type Engine struct {
	Cfg  Config
	Disk *simdisk.Disk
	File *txfile.File

	// Attempt: the state a failed Commit tried to commit (nil if none since the last successful
	// commit). After a reopen the file may legitimately show it when the failure was the final sync.
	Attempts []State
	// RollbackTruncs: the truncation (or none) of every Rollback / Close of a write transaction
	RollbackTruncs []RollbackTrunc
	// OpenAttempt: an open-time transaction (max-size update) ran while I/O calls failed - the disk may show its
	// attempt while the process goes on with the state before it (until its next successful commit)
	OpenAttempt bool

	// LastErrText: full text of the last Commit error
	LastErrText string

	// LastID: the page id the last operation with a logical page index resolved to
	LastID uint64

	// Dead: the File lost its memory mapping (a remap failed); nothing can be done with it any more
	Dead bool

	Committed State   // sequential model of the committed state
	History   []State // committed states, oldest first (History[len-1] == Committed)

	Tx        *txfile.Tx
	txPages   map[uint64]*txfile.Page
	txW       map[uint64][]byte // contents written in tx (nil value: allocated, no content yet)
	txNew     map[uint64]bool
	txFreed   map[uint64]bool
	txFlushed map[uint64]bool
	txRoot    uint64
	txOpts    Op

	readers []*reader
	fmu     sync.Mutex
	rmu     sync.Mutex // guards readers and Failures when a campaign uses several goroutines

	// KeepReaders: commit does not close open readers first (the campaign closes them from
	// another goroutine while Commit waits for the exclusive lock).
	KeepReaders bool

	// DetFlush: before Flush and Commit the dirty pages are flushed one by one in ascending id
	// order, so that the assignment of overwrite pages does not depend on Go's map iteration order
	// (needed where two executions are compared exactly).
	DetFlush bool

	Failures []string // oracle violations
	Log      []string // executed ops with results
	OpIndex  int

	// hooks
	BeforeOp func(e *Engine, op Op)
	AfterOp  func(e *Engine, op Op, res Result)

	Stats map[string]int
}

// ErrKind extracts the txfile error kind name of an error ("" if nil).
func ErrKind(err error) string {
	if err == nil {
		return ""
	}
	if txerr.Is(txfile.OutOfMemory, err) {
		return "oom"
	}
	if k := txerr.GetKind(err); k != nil {
		if ek, ok := k.(txfile.ErrKind); ok {
			return fmt.Sprintf("kind%d", int(ek))
		}
		return "kind:" + k.Error()
	}
	return "error"
}

// New creates a fresh file on a fresh disk.
func New(cfg Config) (*Engine, error) {
	e := &Engine{Cfg: cfg, Disk: simdisk.New("sim"), Stats: map[string]int{}}
	e.Committed = State{Pages: map[uint64][]byte{}}
	if err := e.open(cfg.Options()); err != nil {
		return nil, err
	}
	e.Committed.Txid = e.headerTxid()
	e.History = []State{e.Committed.Clone()}
	return e, nil
}

// Attach opens an existing disk image with the given expected state.
func Attach(cfg Config, disk *simdisk.Disk, st State, opts txfile.Options) (*Engine, error) {
	e := &Engine{Cfg: cfg, Disk: disk, Stats: map[string]int{}}
	e.Committed = st.Clone()
	if err := e.open(opts); err != nil {
		return nil, err
	}
	e.History = []State{e.Committed.Clone()}
	return e, nil
}

func (e *Engine) open(opts txfile.Options) (err error) {
	defer func() {
		if r := recover(); r != nil {
			err = fmt.Errorf("PANIC in open: %v", r)
			if os.Getenv("VERIF_STACK") != "" {
				fmt.Fprintf(os.Stderr, "%s\n", debug.Stack())
			}
		}
	}()
	e.Disk.Marker("open")
	f, err := txfile.VerifOpen(e.Disk, opts)
	if err != nil {
		return err
	}
	e.File = f
	return nil
}

func (e *Engine) headerTxid() uint64 {
	s := txfile.VerifSnapshot(e.File)
	return s.Hdr[s.MetaActive].Txid
}

func (e *Engine) fail(format string, args ...interface{}) {
	msg := fmt.Sprintf("op#%d: ", e.OpIndex) + fmt.Sprintf(format, args...)
	e.fmu.Lock()
	e.Failures = append(e.Failures, msg)
	e.fmu.Unlock()
}

// Fail records an oracle failure found by a campaign.
func (e *Engine) Fail(format string, args ...interface{}) { e.fail(format, args...) }

// NumReaders returns the number of open read transactions.
func (e *Engine) NumReaders() int {
	e.rmu.Lock()
	defer e.rmu.Unlock()
	return len(e.readers)
}

// VerifyReaders re-reads the complete view of every open reader.
func (e *Engine) VerifyReaders(what string) {
	e.rmu.Lock()
	defer e.rmu.Unlock()
	for _, r := range e.readers {
		e.checkReader(r, what)
	}
}

// CloseReaders verifies and closes all readers.
func (e *Engine) CloseReaders(what string) {
	e.rmu.Lock()
	defer e.rmu.Unlock()
	for _, r := range e.readers {
		e.checkReader(r, what)
		if err := r.tx.Close(); err != nil {
			e.fail("reader Close failed: %v", err)
		}
	}
	e.readers = nil
}

// Pattern produces deterministic page contents.
func Pattern(id uint64, seed int, n int) []byte {
	b := make([]byte, n)
	x := id*0x9E3779B97F4A7C15 + uint64(seed)*0xBF58476D1CE4E5B9 + 1
	for i := 0; i < n; i += 8 {
		x ^= x << 13
		x ^= x >> 7
		x ^= x << 17
		var tmp [8]byte
		binary.LittleEndian.PutUint64(tmp[:], x)
		copy(b[i:], tmp[:])
	}
	if n >= 16 {
		binary.LittleEndian.PutUint64(b[0:], id)
		binary.LittleEndian.PutUint64(b[8:], uint64(seed))
	}
	return b
}

// live returns the sorted list of page ids addressable by the current
// transaction (or the committed state if none).
func (e *Engine) live() []uint64 {
	set := map[uint64]bool{}
	for id := range e.Committed.Pages {
		set[id] = true
	}
	if e.Tx != nil {
		for id := range e.txW {
			set[id] = true
		}
		for id := range e.txFreed {
			delete(set, id)
		}
	}
	ids := make([]uint64, 0, len(set))
	for id := range set {
		ids = append(ids, id)
	}
	sort.Slice(ids, func(i, j int) bool { return ids[i] < ids[j] })
	return ids
}

func (e *Engine) pick(p int) (uint64, bool) {
	ids := e.live()
	if len(ids) == 0 {
		return 0, false
	}
	if p < 0 {
		p = -p
	}
	e.LastID = ids[p%len(ids)]
	return e.LastID, true
}

// expected content of page id inside the running tx; ok=false when the page
// has no content yet (fresh allocation).
func (e *Engine) expect(id uint64) ([]byte, bool) {
	if e.Tx != nil {
		if b, ok := e.txW[id]; ok {
			return b, b != nil
		}
	}
	b, ok := e.Committed.Pages[id]
	return b, ok
}

func (e *Engine) page(id uint64) (*txfile.Page, error) {
	if p := e.txPages[id]; p != nil {
		return p, nil
	}
	p, err := e.Tx.Page(txfile.PageID(id))
	if err != nil {
		return nil, err
	}
	e.txPages[id] = p
	return p, nil
}

func (e *Engine) detFlush() error {
	if !e.DetFlush {
		return nil
	}
	ids := make([]uint64, 0, len(e.txW))
	for id, b := range e.txW {
		if b != nil && !e.txFlushed[id] {
			ids = append(ids, id)
		}
	}
	sort.Slice(ids, func(i, j int) bool { return ids[i] < ids[j] })
	for _, id := range ids {
		p, err := e.page(id)
		if err != nil {
			return err
		}
		if err := p.Flush(); err != nil {
			return err
		}
		e.txFlushed[id] = true
	}
	return nil
}

// headerWrittenSince reports whether a write to one of the two header pages took effect after the
// last marker with the given tag.
func (e *Engine) headerWrittenSince(tag string) bool {
	log := e.Disk.LogCopy()
	start := 0
	for i, op := range log {
		if op.Kind == simdisk.OpMarker && op.Tag == tag {
			start = i
		}
	}
	ps := int64(e.File.PageSize())
	for _, op := range log[start:] {
		if op.Kind == simdisk.OpWrite && len(op.Data) > 0 && op.Off < 2*ps {
			return true
		}
	}
	return false
}

func (e *Engine) resetTx() {
	e.Tx = nil
	e.txPages, e.txW, e.txNew, e.txFreed, e.txFlushed = nil, nil, nil, nil, nil
}

// Apply executes one op, updating the model and checking the oracle.
func (e *Engine) Apply(op Op) (res Result) {
	e.OpIndex++
	if e.BeforeOp != nil {
		e.BeforeOp(e, op)
	}
	defer func() {
		if r := recover(); r != nil {
			res.Panicked = true
			res.Err = fmt.Sprintf("PANIC: %v", r)
			e.fail("%v panicked: %v", op, r)
		}
		e.Stats[op.Kind]++
		if res.Skipped {
			e.Stats["skipped"]++
		}
		if res.Err != "" {
			e.Stats["err:"+op.Kind]++
		}
		e.Log = append(e.Log, fmt.Sprintf("%v => err=%q ids=%v skipped=%v", op, res.Err, res.IDs, res.Skipped))
		if e.AfterOp != nil {
			e.AfterOp(e, op, res)
		}
	}()
	if e.Dead && op.Kind != "fault" {
		return Result{Skipped: true}
	}
	res = e.apply(op)
	if res.Err != "" && (op.Kind == "commit" || op.Kind == "reopen") && e.File != nil {
		if s := txfile.VerifSnapshot(e.File); s.MappedLen == 0 {
			e.Dead = true
			e.fail("mapping-lost-after-failed-remap: %v returned an error (%s) after the file had been unmapped; the File has no memory mapping any more (header pointers dangle), every later access fails or reads garbage", op, res.Err)
		}
	}
	return res
}

func (e *Engine) apply(op Op) Result {
	ps := int(e.File.PageSize())
	needTx := func() bool { return e.Tx != nil }
	switch op.Kind {
	case "begin":
		if e.Tx != nil {
			return Result{Skipped: true}
		}
		tx, err := e.File.BeginWith(txfile.TxOptions{
			EnableOverflowArea: op.Overflow, WALLimit: op.WALLimit, MetaAreaGrowPercentage: op.GrowPct,
		})
		if err != nil {
			e.fail("begin failed: %v", err)
			return Result{Err: ErrKind(err)}
		}
		e.Tx = tx
		e.txPages = map[uint64]*txfile.Page{}
		e.txW = map[uint64][]byte{}
		e.txNew = map[uint64]bool{}
		e.txFreed = map[uint64]bool{}
		e.txFlushed = map[uint64]bool{}
		e.txRoot = e.Committed.Root
		e.txOpts = op
		if got := uint64(tx.Root()); got != e.Committed.Root {
			e.fail("tx.Root()=%d, model root=%d", got, e.Committed.Root)
		}
		return Result{}

	case "alloc":
		if !needTx() {
			return Result{Skipped: true}
		}
		pages, err := e.Tx.AllocN(op.N)
		if err != nil {
			return Result{Err: ErrKind(err)}
		}
		var ids []uint64
		for _, p := range pages {
			id := uint64(p.ID())
			ids = append(ids, id)
			e.checkFresh(id)
			e.txPages[id] = p
			e.txW[id] = nil
			e.txNew[id] = true
			delete(e.txFreed, id)
		}
		return Result{IDs: ids}

	case "setfull", "setpart":
		if !needTx() {
			return Result{Skipped: true}
		}
		id, ok := e.pick(op.P)
		if !ok || e.txFlushed[id] {
			return Result{Skipped: true}
		}
		p, err := e.page(id)
		if err != nil {
			e.fail("Page(%d) failed: %v", id, err)
			return Result{Err: ErrKind(err)}
		}
		n := ps
		if op.Kind == "setpart" {
			n = op.Len % ps
		}
		content := Pattern(id, op.Seed, ps)[:n]
		want := make([]byte, ps)
		if old, has := e.expect(id); has {
			copy(want, old)
		}
		copy(want, content)
		if err := p.SetBytes(content); err != nil {
			e.fail("SetBytes(%d,len=%d) failed: %v", id, n, err)
			return Result{Err: ErrKind(err)}
		}
		e.txW[id] = want
		return Result{}

	case "loadmark":
		if !needTx() {
			return Result{Skipped: true}
		}
		id, ok := e.pick(op.P)
		if !ok || e.txFlushed[id] {
			return Result{Skipped: true}
		}
		p, err := e.page(id)
		if err != nil {
			e.fail("Page(%d) failed: %v", id, err)
			return Result{Err: ErrKind(err)}
		}
		if err := p.Load(); err != nil {
			e.fail("Load(%d) failed: %v", id, err)
			return Result{Err: ErrKind(err)}
		}
		buf, err := p.Bytes()
		if err != nil {
			e.fail("Bytes(%d) after Load failed: %v", id, err)
			return Result{Err: ErrKind(err)}
		}
		want := make([]byte, ps)
		if old, has := e.expect(id); has {
			copy(want, old)
		}
		if !bytes.Equal(buf, want) {
			e.fail("Load(%d): buffer differs from expected content (first diff at %d)", id, firstDiff(buf, want))
		}
		off := op.Off % ps
		n := op.Len % (ps - off + 1)
		pat := Pattern(id, op.Seed, ps)
		copy(buf[off:off+n], pat[off:off+n])
		copy(want[off:off+n], pat[off:off+n])
		if err := p.MarkDirty(); err != nil {
			e.fail("MarkDirty(%d) failed: %v", id, err)
			return Result{Err: ErrKind(err)}
		}
		e.txW[id] = want
		return Result{}

	case "markdirty":
		// MarkDirty on a page of the committed state that the transaction has not loaded: the page is written back as
		// it is - its contents must not change (D35)
		if !needTx() {
			return Result{Skipped: true}
		}
		id, ok := e.pick(op.P)
		if !ok || e.txFlushed[id] {
			return Result{Skipped: true}
		}
		want, has := e.expect(id)
		if !has {
			return Result{Skipped: true}
		}
		p, err := e.page(id)
		if err != nil {
			e.fail("Page(%d) failed: %v", id, err)
			return Result{Err: ErrKind(err)}
		}
		if err := p.MarkDirty(); err != nil {
			e.fail("MarkDirty(%d) failed: %v", id, err)
			return Result{Err: ErrKind(err)}
		}
		e.txW[id] = append([]byte(nil), want...)
		return Result{}

	case "load":
		// Load without MarkDirty / SetBytes: nothing changes, the page must keep reading as before, also after
		// the commit (and a checkpoint that runs in it)
		if !needTx() {
			return Result{Skipped: true}
		}
		id, ok := e.pick(op.P)
		if !ok || e.txFlushed[id] {
			return Result{Skipped: true}
		}
		want, has := e.expect(id)
		if !has {
			return Result{Skipped: true}
		}
		p, err := e.page(id)
		if err != nil {
			e.fail("Page(%d) failed: %v", id, err)
			return Result{Err: ErrKind(err)}
		}
		if err := p.Load(); err != nil {
			e.fail("Load(%d) failed: %v", id, err)
			return Result{Err: ErrKind(err)}
		}
		buf, err := p.Bytes()
		if err != nil {
			e.fail("Bytes(%d) after Load failed: %v", id, err)
			return Result{Err: ErrKind(err)}
		}
		if !bytes.Equal(buf, want) {
			e.fail("Load(%d): buffer differs from expected content (first diff at %d)", id, firstDiff(buf, want))
		}
		return Result{}

	case "read":
		if !needTx() {
			return Result{Skipped: true}
		}
		id, ok := e.pick(op.P)
		if !ok {
			return Result{Skipped: true}
		}
		p, err := e.page(id)
		if err != nil {
			e.fail("Page(%d) failed: %v", id, err)
			return Result{Err: ErrKind(err)}
		}
		want, has := e.expect(id)
		buf, err := p.Bytes()
		if !has {
			if err == nil {
				e.fail("Bytes(%d) of a fresh page without content succeeded", id)
			}
			return Result{Err: ErrKind(err)}
		}
		if err != nil {
			e.fail("Bytes(%d) failed: %v", id, err)
			return Result{Err: ErrKind(err)}
		}
		if !bytes.Equal(buf, want) {
			e.fail("read(%d) in write tx: content differs from model (first diff at %d)", id, firstDiff(buf, want))
		}
		return Result{}

	case "free":
		if !needTx() {
			return Result{Skipped: true}
		}
		id, ok := e.pick(op.P)
		if !ok || e.txFlushed[id] {
			return Result{Skipped: true}
		}
		// freeing a dirty page is a documented error: only free clean pages
		if b, w := e.txW[id]; w && b != nil {
			return Result{Skipped: true}
		}
		p, err := e.page(id)
		if err != nil {
			e.fail("Page(%d) failed: %v", id, err)
			return Result{Err: ErrKind(err)}
		}
		if err := p.Free(); err != nil {
			e.fail("Free(%d) failed: %v", id, err)
			return Result{Err: ErrKind(err)}
		}
		e.txFreed[id] = true
		delete(e.txW, id)
		delete(e.txPages, id)
		if e.txRoot == id {
			e.txRoot = 0
			e.Tx.SetRoot(0)
		}
		return Result{}

	case "flushpage":
		if !needTx() {
			return Result{Skipped: true}
		}
		id, ok := e.pick(op.P)
		if !ok || e.txFlushed[id] {
			return Result{Skipped: true}
		}
		b, w := e.txW[id]
		if !w || b == nil {
			return Result{Skipped: true}
		}
		p, err := e.page(id)
		if err != nil {
			return Result{Err: ErrKind(err)}
		}
		if err := p.Flush(); err != nil {
			return Result{Err: ErrKind(err)}
		}
		e.txFlushed[id] = true
		return Result{}

	case "flush":
		if !needTx() {
			return Result{Skipped: true}
		}
		if err := e.detFlush(); err != nil {
			return Result{Err: ErrKind(err)}
		}
		if err := e.Tx.Flush(); err != nil {
			// a Flush that fails (no overwrite page left) has flushed some of the dirty pages and not others:
			// none of them is written to again in this transaction
			for id, b := range e.txW {
				if b != nil {
					e.txFlushed[id] = true
				}
			}
			return Result{Err: ErrKind(err)}
		}
		for id, b := range e.txW {
			if b != nil {
				e.txFlushed[id] = true
			}
		}
		return Result{}

	case "drain":
		// wait until the background writer has executed everything scheduled so far (the disk log does not
		// grow any more): the next request reaches an idle writer
		last, stable := e.Disk.LogLen(), 0
		for i := 0; i < 200 && stable < 4; i++ {
			time.Sleep(500 * time.Microsecond)
			if n := e.Disk.LogLen(); n == last {
				stable++
			} else {
				last, stable = n, 0
			}
		}
		return Result{}

	case "checkpoint":
		if !needTx() {
			return Result{Skipped: true}
		}
		if err := e.Tx.CheckpointWAL(); err != nil {
			e.fail("CheckpointWAL failed: %v", err)
			return Result{Err: ErrKind(err)}
		}
		return Result{}

	case "setroot":
		if !needTx() {
			return Result{Skipped: true}
		}
		id, ok := e.pick(op.P)
		if !ok {
			return Result{Skipped: true}
		}
		e.Tx.SetRoot(txfile.PageID(id))
		e.txRoot = id
		return Result{}

	case "commit":
		if !needTx() {
			return Result{Skipped: true}
		}
		// a page allocated but never written has undefined content: give it one
		for id, b := range e.txW {
			if b == nil {
				p, err := e.page(id)
				if err == nil {
					c := Pattern(id, 0, ps)
					if err := p.SetBytes(c); err == nil {
						e.txW[id] = c
					}
				}
			}
		}
		// single-threaded histories: a commit would wait for open readers for ever
		if len(e.readers) > 0 && !e.KeepReaders {
			e.apply(Op{Kind: "rcloseall"})
		}
		if err := e.detFlush(); err != nil {
			// out of space while flushing: the transaction can only be abandoned
			e.Tx.Close()
			e.resetTx()
			return Result{Err: ErrKind(err)}
		}
		e.Disk.Marker("commit-begin")
		err := e.Tx.Commit()
		if err != nil {
			e.LastErrText = fmt.Sprintf("%+v", err)
			e.Disk.Marker("commit-fail")
			att := e.Committed.Clone()
			for id := range e.txFreed {
				delete(att.Pages, id)
			}
			for id, b := range e.txW {
				att.Pages[id] = b
			}
			att.Root = e.txRoot
			att.Txid = e.Committed.Txid + 1
			// only an attempt whose header write was issued can ever be seen again
			if e.headerWrittenSince("commit-begin") {
				e.Attempts = append(e.Attempts, att)
			}
			e.resetTx()
			return Result{Err: ErrKind(err)}
		}
		e.Attempts = nil
		e.OpenAttempt = false
		e.Disk.Marker("commit-ok")
		for id := range e.txFreed {
			delete(e.Committed.Pages, id)
		}
		for id, b := range e.txW {
			e.Committed.Pages[id] = b
		}
		e.Committed.Root = e.txRoot
		e.resetTx()
		e.Committed.Txid = e.headerTxid()
		e.History = append(e.History, e.Committed.Clone())
		e.CheckAllocator("after commit")
		return Result{}

	case "rollback", "close":
		if !needTx() {
			return Result{Skipped: true}
		}
		szBefore, logAt, sizeCalls := e.Disk.CurSize(), e.Disk.LogLen(), e.Disk.Count(simdisk.OpSize)
		var err error
		if op.Kind == "rollback" {
			err = e.Tx.Rollback()
		} else {
			err = e.Tx.Close()
		}
		if len(e.RollbackTruncs) < 32 && e.File != nil {
			// what the rollback did to the file size (compared with the Coq model rollback_truncate by campaigns
			// that have a model client)
			sn := txfile.VerifSnapshot(e.File)
			if e.Disk.Count(simdisk.OpSize) > sizeCalls {
				// (writes scheduled by Flush may still have extended the file inside the call: the size that counts
				// is the one the rollback asked for)
				szBefore = e.Disk.LastSizeResult()
			}
			var otherEnd uint64
			if h := sn.Hdr[1-sn.MetaActive]; h.Valid {
				otherEnd = h.DataEndMarker
				if h.MetaEndMarker > otherEnd {
					otherEnd = h.MetaEndMarker
				}
			}
			rt := RollbackTrunc{OtherEnd: otherEnd, SzBefore: szBefore, MetaEnd: sn.MetaEnd, DataEnd: sn.DataEnd, MaxPages: sn.MaxPages, PageSize: sn.PageSize, NewSize: -1}
			for _, d := range e.Disk.LogCopy()[logAt:] {
				if d.Kind == simdisk.OpTruncate {
					rt.NewSize, rt.Failed = d.Size, d.Failed
				}
				if d.Kind == simdisk.OpSize && d.Failed {
					rt.Failed = true
				}
			}
			e.RollbackTruncs = append(e.RollbackTruncs, rt)
		}
		e.resetTx()
		if err != nil {
			e.fail("%s failed: %v", op.Kind, err)
			return Result{Err: ErrKind(err)}
		}
		return Result{}

	case "fault":
		// fail the N-th next call (0 = the very next) of a kind, for Len consecutive calls
		kinds := map[string]simdisk.OpKind{"write": simdisk.OpWrite, "sync": simdisk.OpSync, "truncate": simdisk.OpTruncate,
			"mmap": simdisk.OpMMap, "size": simdisk.OpSize, "shortwrite": simdisk.OpWrite}
		kname := [...]string{"write", "sync", "truncate", "mmap", "size", "shortwrite"}[op.P%6]
		k := kinds[kname]
		l := op.Len
		if l <= 0 {
			l = 1
		}
		e.Disk.SetFaults([]simdisk.FaultRule{{Kind: k, From: e.Disk.Count(k) + op.N, Len: l, Short: kname == "shortwrite"}})
		return Result{}

	case "verify":
		if e.Tx != nil {
			return Result{Skipped: true}
		}
		e.VerifyCommitted("verify")
		return Result{}

	case "rbegin":
		tx, err := e.File.BeginReadonly()
		if err != nil {
			e.fail("BeginReadonly failed: %v", err)
			return Result{Err: ErrKind(err)}
		}
		e.rmu.Lock()
		e.readers = append(e.readers, &reader{tx: tx, state: e.Committed.Clone()})
		e.rmu.Unlock()
		if got := uint64(tx.Root()); got != e.Committed.Root {
			e.fail("reader Root()=%d, model root=%d", got, e.Committed.Root)
		}
		return Result{}

	case "rread":
		// (the disk hook of some campaigns verifies the readers from the writer goroutine: same lock)
		e.rmu.Lock()
		defer e.rmu.Unlock()
		if len(e.readers) == 0 {
			return Result{Skipped: true}
		}
		r := e.readers[op.R%len(e.readers)]
		e.checkReader(r, "rread")
		return Result{}

	case "rclose":
		e.rmu.Lock()
		defer e.rmu.Unlock()
		if len(e.readers) == 0 {
			return Result{Skipped: true}
		}
		i := op.R % len(e.readers)
		r := e.readers[i]
		e.checkReader(r, "rclose")
		if err := r.tx.Close(); err != nil {
			e.fail("reader Close failed: %v", err)
		}
		// every second reader is finished once more (defer tx.Rollback() after an explicit Close is a common
		// pattern): an error is documented, and it must not release anything a second time
		e.Stats["rclose"]++
		if e.Stats["rclose"]%2 == 0 {
			func() {
				defer func() {
					if p := recover(); p != nil {
						e.fail("second finish of a closed reader panicked: %v", p)
					}
				}()
				if err := r.tx.Rollback(); err == nil {
					e.fail("Rollback of a closed reader returned no error")
				}
			}()
			if sh, _, _ := txfile.VerifLockState(e.File); sh != uint(len(e.readers)-1) {
				e.fail("after finishing a closed reader a second time the file lock counts %d readers, %d are open", sh, len(e.readers)-1)
				e.Dead = true // every later commit would wait for ever (or not wait at all)
			}
		}
		e.readers = append(e.readers[:i], e.readers[i+1:]...)
		return Result{}

	case "rcloseall":
		e.CloseReaders("rcloseall")
		return Result{}

	case "reopen", "reopen-under-faults":
		if e.Tx != nil || len(e.readers) > 0 {
			return Result{Skipped: true}
		}
		if err := e.File.Close(); err != nil {
			e.fail("File.Close failed: %v", err)
		}
		// a plain reopen passes no options at all: everything is read from the file header
		opts := txfile.Options{Observer: e.Cfg.Observer}
		if e.Cfg.SyncNone {
			opts.Sync = txfile.SyncNone
		}
		if op.Flags != 0 {
			opts.Flags = txfile.Flag(op.Flags)
			opts.MaxSize = op.MaxSize
			opts.Prealloc = op.Prealloc
		} else if op.MaxSize != 0 {
			// a maximum size in the options WITHOUT FlagUpdMaxSize: the size stored in a bounded file wins
			opts.MaxSize = op.MaxSize
		}
		e.File = nil
		logAt := e.Disk.LogLen()
		err := e.open(opts)
		if op.Flags != 0 && e.Disk.Fault == nil {
			// the transactions Open runs itself (new maximum size, release of the pages behind it) follow the commit
			// discipline of the crash theorem: when a header page is written, every page write before it has been
			// synced (monitor rule "header only when nothing is pending"), and the header write is synced before the
			// next page write
			ps := int64(e.Cfg.PageSize)
			pending, hdrPending := 0, false
			for k, d := range e.Disk.LogCopy()[logAt:] {
				switch {
				case d.Kind == simdisk.OpSync && !d.Failed:
					pending, hdrPending = 0, false
				case d.Kind == simdisk.OpWrite && !d.Failed && d.Off < 2*ps:
					if pending > 0 {
						e.fail("open-time-commit-discipline: Open with flags %d writes a header page (disk call #%d of the open) while %d page write(s) before it are not synced yet", op.Flags, k, pending)
					}
					hdrPending = true
				case d.Kind == simdisk.OpWrite && !d.Failed:
					if hdrPending {
						e.fail("open-time-commit-discipline: Open with flags %d writes page %d (disk call #%d of the open) after a header page that is not synced yet", op.Flags, d.Off/ps, k)
					}
					pending++
				}
			}
		}
		if op.Kind == "reopen-under-faults" {
			for _, d := range e.Disk.LogCopy()[logAt:] {
				if d.Failed {
					// an open-time transaction may have failed at its final sync only: its header is on disk, the
					// process goes on with the state before it (until its next commit)
					e.OpenAttempt = true
				}
			}
		}
		if err != nil && op.Kind == "reopen-under-faults" {
			// Open may fail while I/O calls fail (it reports the error); once the failures have stopped the file opens
			e.Stats["open-failed-under-faults"]++
			e.Disk.Fault = nil
			e.File = nil
			err = e.open(txfile.Options{Observer: e.Cfg.Observer})
		}
		if err != nil {
			if len(e.Attempts) > 0 {
				e.fail("failed-commit-attempt-visible-but-incomplete: a commit attempt that had reported an error left its header on disk, and the file can not be opened any more: %v", err)
			} else {
				e.fail("reopen failed: %v", err)
			}
			return Result{Err: ErrKind(err)}
		}
		if tx := e.headerTxid(); len(e.Attempts) > 0 && tx == e.Committed.Txid+1 {
			// the file shows a commit attempt that reported a failure (its header write reached the
			// disk, its final sync failed): allowed, but then the state must be COMPLETE
			adopted := false
			var firstFail string
			for i := len(e.Attempts) - 1; i >= 0 && !adopted; i-- {
				var fails []string
				VerifyFileState(e.File, e.Attempts[i], func(m string) { fails = append(fails, m) })
				if len(fails) == 0 {
					e.Committed = e.Attempts[i].Clone()
					e.History = append(e.History, e.Committed.Clone())
					adopted = true
				} else if firstFail == "" {
					firstFail = fails[0]
				}
			}
			e.Stats["reopen-shows-failed-attempt"]++
			if !adopted {
				e.fail("failed-commit-attempt-visible-but-incomplete: after the reopen the header of a commit attempt that had reported an error is the newest one, but its state is not complete: %s", firstFail)
			} else {
				// complete also means: its free lists and mapping pages are there (they may have been cut off or reused
				// when the process rolled the attempt back)
				e.fmu.Lock()
				n := len(e.Failures)
				e.fmu.Unlock()
				e.CheckAllocator("after the reopen")
				e.fmu.Lock()
				var msg string
				if len(e.Failures) > n {
					msg = e.Failures[n]
					e.Failures = e.Failures[:n]
				}
				e.fmu.Unlock()
				if msg != "" {
					e.fail("failed-commit-attempt-visible-but-incomplete: after the reopen the header of a commit attempt that had reported an error is the newest one, its pages are complete but its allocator state is not: %s", msg)
				}
			}
		}
		e.Attempts = nil
		e.Committed.Txid = e.headerTxid()
		return Result{}
	}
	panic("unknown op kind " + op.Kind)
}

func firstDiff(a, b []byte) int {
	n := len(a)
	if len(b) < n {
		n = len(b)
	}
	for i := 0; i < n; i++ {
		if a[i] != b[i] {
			return i
		}
	}
	if len(a) != len(b) {
		return n
	}
	return -1
}

// checkFresh verifies the ownership oracle for a newly allocated id.
func (e *Engine) checkFresh(id uint64) {
	if id < 2 {
		e.fail("allocated page id %d < 2", id)
	}
	if _, live := e.Committed.Pages[id]; live {
		if e.txFreed[id] {
			e.fail("allocated page %d that was freed by this transaction but is live in the committed state", id)
		} else {
			e.fail("allocated page %d that is live in the committed state", id)
		}
	}
	if _, inTx := e.txW[id]; inTx {
		e.fail("allocated page %d twice within the transaction", id)
	}
	if e.File != nil {
		s := txfile.VerifSnapshot(e.File)
		for _, r := range s.FreelistPages {
			if id >= r.ID && id < r.ID+uint64(r.Count) {
				e.fail("allocated page %d is a free-list page of the committed state", id)
			}
		}
		for _, r := range s.WalMetaPages {
			if id >= r.ID && id < r.ID+uint64(r.Count) {
				e.fail("allocated page %d is a mapping page of the committed state", id)
			}
		}
		for _, w := range s.WalMapping {
			if w == id {
				e.fail("allocated page %d is an overwrite page of the committed state", id)
			}
		}
		for _, r := range s.MetaFree {
			if id >= r.ID && id < r.ID+uint64(r.Count) {
				e.fail("allocated page %d is a free page of the meta area", id)
			}
		}
	}
}

// CheckAllocator checks, with no write transaction open, that the allocator's view partitions the file:
// the two free lists are disjoint, lie below their end markers, and contain no page that is in use (live
// data page, free-list page, mapping page, overwrite page).
func (e *Engine) CheckAllocator(what string) {
	if e.File == nil || e.Tx != nil || e.Dead {
		return
	}
	s := txfile.VerifSnapshot(e.File)
	free := map[uint64]string{}
	add := func(l []txfile.VerifRegion, name string, end uint64) {
		for _, r := range l {
			for id := r.ID; id < r.ID+uint64(r.Count); id++ {
				if other, dup := free[id]; dup {
					e.fail("allocator-partition: %s: page %d is in the %s free list and in the %s free list", what, id, other, name)
					return
				}
				free[id] = name
				if id < 2 || id >= end {
					e.fail("allocator-partition: %s: page %d of the %s free list is outside [2, %d)", what, id, name, end)
					return
				}
			}
		}
	}
	add(s.DataFree, "data", s.DataEnd)
	metaEnd := s.MetaEnd
	if s.DataEnd > metaEnd {
		metaEnd = s.DataEnd
	}
	add(s.MetaFree, "meta", metaEnd)
	used := func(id uint64, as string) {
		if name, isFree := free[id]; isFree {
			e.fail("allocator-partition: %s: page %d is %s and at the same time in the %s free list", what, id, as, name)
		}
	}
	for id := range e.Committed.Pages {
		used(id, "a live data page")
	}
	for _, r := range s.FreelistPages {
		for id := r.ID; id < r.ID+uint64(r.Count); id++ {
			used(id, "a free-list page")
		}
	}
	for _, r := range s.WalMetaPages {
		for id := r.ID; id < r.ID+uint64(r.Count); id++ {
			used(id, "a mapping page")
		}
	}
	for _, w := range s.WalMapping {
		used(w, "an overwrite page")
	}
	// every page of the meta area is accounted for: free, an overwrite page, a mapping page or a free-list page
	count := func(l []txfile.VerifRegion) (n uint64) {
		for _, r := range l {
			n += uint64(r.Count)
		}
		return n
	}
	// the free lists' page counters
	if uint64(s.DataAvail) != count(s.DataFree) || uint64(s.MetaAvail) != count(s.MetaFree) {
		e.fail("free-list-accounting: %s: data free list holds %d pages, its counter says %d; meta free list holds %d pages, its counter says %d", what,
			count(s.DataFree), s.DataAvail, count(s.MetaFree), s.MetaAvail)
	}
	inUse := uint64(len(s.WalMapping)) + count(s.WalMetaPages) + count(s.FreelistPages)
	if uint64(s.MetaTotal) != count(s.MetaFree)+inUse {
		e.fail("meta-area-accounting: %s: meta area of %d pages, but %d free + %d overwrite pages + %d mapping pages + %d free-list pages = %d", what,
			s.MetaTotal, count(s.MetaFree), len(s.WalMapping), count(s.WalMetaPages), count(s.FreelistPages), count(s.MetaFree)+inUse)
	}
}

// CheckAgainstDisk: at a quiescent point the allocator state and the mapping the process works with are the ones
// a fresh Open of the current file contents computes (the process keeps seeing exactly the last committed state -
// also after failed commits, rollbacks, and open-time transactions that failed). Not applicable while a commit
// attempt that reported an error may be visible on disk (finding F2).
func (e *Engine) CheckAgainstDisk(what string) {
	if e.File == nil || e.Tx != nil || e.Dead || len(e.Attempts) > 0 || e.OpenAttempt || e.Disk.Fault != nil {
		return
	}
	defer func() {
		if r := recover(); r != nil {
			e.fail("process-vs-disk: %s: PANIC while opening a copy of the file: %v", what, r)
		}
	}()
	d2 := simdisk.FromImage("cmp", e.Disk.Snapshot())
	f2, err := txfile.VerifOpen(d2, txfile.Options{})
	if err != nil {
		e.fail("process-vs-disk: %s: a copy of the current file contents can not be opened: %v", what, err)
		return
	}
	defer f2.Close()
	a, b := txfile.VerifSnapshot(e.File), txfile.VerifSnapshot(f2)
	pages := func(l []txfile.VerifRegion) string {
		var ids []uint64
		for _, r := range l {
			for id := r.ID; id < r.ID+uint64(r.Count); id++ {
				ids = append(ids, id)
			}
		}
		sort.Slice(ids, func(i, j int) bool { return ids[i] < ids[j] })
		// as ranges
		var sb strings.Builder
		for i := 0; i < len(ids); {
			j := i
			for j+1 < len(ids) && ids[j+1] == ids[j]+1 {
				j++
			}
			fmt.Fprintf(&sb, "[%d,%d)", ids[i], ids[j]+1)
			i = j + 1
		}
		return sb.String()
	}
	diff := func(name string, x, y interface{}) {
		if fmt.Sprint(x) != fmt.Sprint(y) {
			e.fail("process-vs-disk: %s: %s of the process is %v, a fresh open of the same file has %v", what, name, x, y)
		}
	}
	diff("data end marker", a.DataEnd, b.DataEnd)
	diff("meta end marker", a.MetaEnd, b.MetaEnd)
	diff("meta area size", a.MetaTotal, b.MetaTotal)
	diff("max pages", a.MaxPages, b.MaxPages)
	diff("data free pages", pages(a.DataFree), pages(b.DataFree))
	diff("meta free pages", pages(a.MetaFree), pages(b.MetaFree))
	diff("data avail counter", a.DataAvail, b.DataAvail)
	diff("meta avail counter", a.MetaAvail, b.MetaAvail)
	diff("free-list pages", pages(a.FreelistPages), pages(b.FreelistPages))
	diff("mapping pages", pages(a.WalMetaPages), pages(b.WalMetaPages))
	diff("overwrite mapping", a.WalMapping, b.WalMapping)
}

func (e *Engine) checkReader(r *reader, what string) {
	if got := uint64(r.tx.Root()); got != r.state.Root {
		e.fail("%s: reader root %d != snapshot root %d", what, got, r.state.Root)
	}
	for id, want := range r.state.Pages {
		p, err := r.tx.Page(txfile.PageID(id))
		if err != nil {
			e.fail("%s: reader Page(%d) failed: %v", what, id, err)
			continue
		}
		b, err := p.Bytes()
		if err != nil {
			e.fail("%s: reader Bytes(%d) failed: %v", what, id, err)
			continue
		}
		if !bytes.Equal(b, want) {
			e.fail("%s: reader sees page %d different from its snapshot (first diff at %d)", what, id, firstDiff(b, want))
		}
		if h, ok := r.held[id]; !ok {
			if r.held == nil {
				r.held = map[uint64][]byte{}
			}
			r.held[id] = b
		} else if !bytes.Equal(h, want) {
			e.fail("%s: the bytes a reader obtained earlier for page %d changed while the reader is open (first diff at %d): the file was remapped or rewritten under it", what, id, firstDiff(h, want))
			delete(r.held, id)
		}
	}
}

// VerifyCommitted opens a read transaction and compares root and all live
// pages against the model.
func (e *Engine) VerifyCommitted(what string) {
	VerifyFileState(e.File, e.Committed, func(msg string) { e.fail("%s: %s", what, msg) })
	e.CheckAllocator(what)
	e.CheckAgainstDisk(what)
}

// VerifyFileState compares a file against an expected state via a read tx.
func VerifyFileState(f *txfile.File, st State, fail func(string)) {
	defer func() {
		if r := recover(); r != nil {
			fail(fmt.Sprintf("PANIC while verifying: %v", r))
		}
	}()
	tx, err := f.BeginReadonly()
	if err != nil {
		fail(fmt.Sprintf("BeginReadonly failed: %v", err))
		return
	}
	defer tx.Close()
	if got := uint64(tx.Root()); got != st.Root {
		fail(fmt.Sprintf("root %d != expected root %d", got, st.Root))
	}
	ids := make([]uint64, 0, len(st.Pages))
	for id := range st.Pages {
		ids = append(ids, id)
	}
	sort.Slice(ids, func(i, j int) bool { return ids[i] < ids[j] })
	for _, id := range ids {
		want := st.Pages[id]
		p, err := tx.Page(txfile.PageID(id))
		if err != nil {
			fail(fmt.Sprintf("Page(%d) failed: %v", id, err))
			continue
		}
		b, err := p.Bytes()
		if err != nil {
			fail(fmt.Sprintf("Bytes(%d) failed: %v", id, err))
			continue
		}
		if !bytes.Equal(b, want) {
			fail(fmt.Sprintf("page %d differs from expected content (first diff at %d)", id, firstDiff(b, want)))
		}
	}
}

// Close finishes all open transactions and closes the file.
func (e *Engine) Close() {
	defer func() { recover() }()
	if e.Dead {
		e.Tx, e.File = nil, nil
		return
	}
	if e.Tx != nil {
		e.Tx.Close()
		e.resetTx()
	}
	for _, r := range e.readers {
		r.tx.Close()
	}
	e.readers = nil
	if e.File != nil {
		e.File.Close()
		e.File = nil
	}
}
