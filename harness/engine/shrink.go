package engine

// Shrink minimises an op list by delta debugging: fails reports whether a
// candidate history still shows the failure of interest.
func Shrink(ops []Op, fails func([]Op) bool) []Op {
	cur := append([]Op(nil), ops...)
	n := 2
	for len(cur) >= 2 {
		chunk := (len(cur) + n - 1) / n
		reduced := false
		for start := 0; start < len(cur); start += chunk {
			end := start + chunk
			if end > len(cur) {
				end = len(cur)
			}
			cand := append(append([]Op(nil), cur[:start]...), cur[end:]...)
			if len(cand) > 0 && fails(cand) {
				cur = cand
				if n > 2 {
					n--
				}
				reduced = true
				break
			}
		}
		if !reduced {
			if n >= len(cur) {
				break
			}
			n *= 2
			if n > len(cur) {
				n = len(cur)
			}
		}
	}
	return cur
}

// RunHistory executes ops on a fresh file and returns the engine.
func RunHistory(cfg Config, ops []Op, setup func(*Engine)) (*Engine, error) {
	e, err := New(cfg)
	if err != nil {
		return nil, err
	}
	if setup != nil {
		setup(e)
	}
	for _, op := range ops {
		e.Apply(op)
	}
	return e, nil
}
