package main

import (
	"encoding/binary"
	"fmt"
	"math/rand"
	"os"
	"runtime"
	"strings"
	"sync"
	"sync/atomic"
	"time"

	txfile "github.com/elastic/go-txfile"

	"verifharness/engine"
	"verifharness/gen"
	"verifharness/model"
	"verifharness/simdisk"
)

// C09 / C02 campaigns: the in-process lock.
//
//  A (K1)  random scripts of lock operations on the bare lock object, each step compared with the
//          Coq model's lock_apply (state and would-block).
//  B (K2)  histories through the real File/Tx API; after every API call the sampled lock state must
//          equal the state the model reaches by running the label program of that call; during a
//          commit every disk operation samples the lock (phase sampling).
//  C       open-time option combinations (flags x max size x prealloc) after a prior history, then
//          BeginReadonly / Begin / Close under a watchdog that is confirmed by the lock state hook.
//  D       (race build) N readers, M writers, final Close; readers check snapshot consistency.

var lockOps = []string{"shared.lock", "shared.unlock", "reserved.lock", "reserved.unlock", "pending.lock", "pending.unlock", "exclusive.lock", "exclusive.unlock"}

type lockReplay struct {
	Ops    []string `json:"ops"`
	Step   int      `json:"step"`
	Impl   string   `json:"impl"`
	Model  string   `json:"model"`
	Detail string   `json:"detail,omitempty"`
}

func lkString(s uint, p, r bool) string {
	b := func(x bool) string {
		if x {
			return "1"
		}
		return "0"
	}
	return fmt.Sprintf("%d,%s,%s", s, b(p), b(r))
}

func c09PartA(rep *Report, m *model.Client, r *rand.Rand, n int) {
	for i := 0; i < n; i++ {
		l := txfile.NewVerifLock()
		var ops []string
		var impl []string
		shared, reserved := 0, false
		k := 5 + r.Intn(40)
		for j := 0; j < k; j++ {
			op := lockOps[r.Intn(len(lockOps))]
			// unlocking something that is not held is a caller bug (Go panics / counter underflow): not generated
			if op == "shared.unlock" && shared == 0 {
				continue
			}
			if op == "reserved.unlock" && !reserved {
				continue
			}
			ok := l.Try(op)
			ops = append(ops, op)
			if !ok {
				impl = append(impl, "B")
				rep.count("A:blocked:"+op, 1)
				continue
			}
			switch op {
			case "shared.lock":
				shared++
			case "shared.unlock":
				shared--
			case "reserved.lock":
				reserved = true
			case "reserved.unlock":
				reserved = false
			}
			impl = append(impl, lkString(l.State()))
		}
		rep.Evaluations++
		rep.count("A:scripts", 1)
		mod := m.Ask("lockscript 0 0 0 " + strings.Join(ops, " "))
		got := strings.Join(impl, " ")
		rep.nontrivial("A/" + got)
		if i == 0 {
			rep.sample(map[string]interface{}{"part": "A", "ops": ops, "impl": got, "model": mod})
		}
		if mod != got {
			step := 0
			ms := strings.Fields(mod)
			for step < len(impl) && step < len(ms) && impl[step] == ms[step] {
				step++
			}
			rep.violate(Violation{Kind: "correspondence", Sig: "lock-object/" + ops[min(step, len(ops)-1)],
				Detail: fmt.Sprintf("lock object differs from model at step %d (%v): impl=%q model=%q", step, ops, got, mod),
				Replay: lockReplay{Ops: ops, Step: step, Impl: got, Model: mod}})
		}
	}
}

// lockTracker follows the model's lock state through API calls.
type lockTracker struct {
	m       *model.Client
	state   string // "s,p,r"
	version int
	bad     []string
}

func (t *lockTracker) run(pc string, labels ...string) {
	f := strings.Split(t.state, ",")
	res := t.m.Ask(fmt.Sprintf("runlabels %s %s %s %d %s %s", f[0], f[1], f[2], t.version, pc, strings.Join(labels, " ")))
	if res == "none" || strings.HasPrefix(res, "ERROR") {
		t.bad = append(t.bad, fmt.Sprintf("model can not run %v from %s at %s: %s", labels, pc, t.state, res))
		return
	}
	fs := strings.Fields(res)
	t.state = fs[0]
	fmt.Sscan(fs[1], &t.version)
}

func c09PartB(rep *Report, m *model.Client, r *rand.Rand, n int) {
	for i := 0; i < n; i++ {
		hseed := r.Int63()
		hr := rand.New(rand.NewSource(hseed))
		cfg := gen.PickConfig(hr)
		prof := gen.DefaultProfile()
		ops := gen.History(hr, prof)
		if i%5 == 4 {
			// a completely full bounded file: overwriting a committed page needs an overwrite page that can not
			// be allocated - the Commit fails while flushing its pages (before any I/O of the commit sequence)
			cfg = engine.Config{PageSize: 1024, MaxSize: uint64(64+hr.Intn(32)) * 1024, InitMetaArea: uint32(hr.Intn(2) * 2)}
			ops = fillAllOps(hr)
			ops = append(ops, engine.Op{Kind: "begin"})
			for k := 1 + hr.Intn(4); k > 0; k-- {
				ops = append(ops, engine.Op{Kind: "setfull", P: hr.Intn(1 << 16), Seed: 1 + hr.Intn(1000)})
			}
			ops = append(ops, engine.Op{Kind: "commit"}, engine.Op{Kind: "rbegin"}, engine.Op{Kind: "rread", R: 0, P: 1}, engine.Op{Kind: "rclose", R: 0},
				engine.Op{Kind: "begin"}, engine.Op{Kind: "free", P: 3}, engine.Op{Kind: "commit"}, engine.Op{Kind: "verify"})
			rep.count("B:scenario:commit-fails-while-flushing-on-a-full-file", 1)
		}
		c09TrackedHistory(rep, m, cfg, ops, hseed)
	}
}

func c09TrackedHistory(rep *Report, m *model.Client, cfg engine.Config, ops []engine.Op, hseed int64) {
	tr := &lockTracker{m: m, state: "0,0,0"}
	var mism, idle []string
	inCommit := false
	setup := func(e *engine.Engine) {
		e.Disk.Hook = func(kind simdisk.OpKind, idx int) {
			// page writes of an earlier Flush may still be in the writer's queue when Commit starts; syncs are
			// only ever issued (and awaited) by the commit sequence itself, after Pending was taken
			if inCommit && kind == simdisk.OpSync && e.File != nil {
				s, p, rs := txfile.VerifLockState(e.File)
				if !p || !rs {
					mism = append(mism, fmt.Sprintf("during commit I/O (%v #%d) the lock is (%s): pending and reserved must be held", kind, idx, lkString(s, p, rs)))
				}
				rep.count("B:phase-samples", 1)
			}
		}
		readers := 0
		e.BeforeOp = func(e *engine.Engine, op engine.Op) {
			if op.Kind == "commit" && e.Tx != nil {
				// engine closes the readers first
				for ; readers > 0; readers-- {
					tr.run("R1:0", "close")
				}
				inCommit = true
			}
		}
		e.AfterOp = func(e *engine.Engine, op engine.Op, res engine.Result) {
			inCommit = false
			if res.Skipped || res.Panicked {
				return
			}
			switch op.Kind {
			case "begin":
				if res.Err == "" {
					tr.run("W0", "wbegin")
				}
			case "commit":
				if res.Err == "" {
					tr.run("W1", "pend", "io", "excl", "switch", "unpend", "release")
				} else {
					tr.run("W1", "pend", "io", "fail", "release")
				}
			case "rollback", "close":
				tr.run("W1", "rollback")
			case "rbegin":
				if res.Err == "" {
					tr.run("R0", "begin")
					readers++
				}
			case "rclose":
				tr.run("R1:0", "close")
				readers--
			case "rcloseall":
				for ; readers > 0; readers-- {
					tr.run("R1:0", "close")
				}
			case "reopen":
				// File.Close program, then a fresh lock
				tr.run("W0", "wbegin", "pend", "excl", "noswitch", "unpend", "release")
				if tr.state != "0,0,0" {
					mism = append(mism, "model: lock not idle after File.Close program: "+tr.state)
				}
				tr.state = "0,0,0"
				if op.Flags != 0 {
					tr.run("W0", "wbegin", "pend", "excl", "io", "switch", "unpend", "release")
				}
			default:
				return
			}
			if e.File == nil {
				return
			}
			s, p, rs := txfile.VerifLockState(e.File)
			if got := lkString(s, p, rs); got != tr.state {
				mism = append(mism, fmt.Sprintf("after %v: lock is (%s), model says (%s)", op, got, tr.state))
			}
			if e.Tx == nil && readers == 0 && e.NumReaders() == 0 {
				if got := lkString(s, p, rs); got != "0,0,0" {
					idle = append(idle, fmt.Sprintf("after %v (err=%q) no transaction is open but the lock is (%s): the next BeginReadonly / Begin / Close would block", op, res.Err, got))
				}
			}
			rep.count("B:api-samples", 1)
		}
	}
	var e *engine.Engine
	var err error
	rep.guard(60*time.Second, Violation{Kind: "oracle", Sig: "lock-usage/history-does-not-return",
		Detail: fmt.Sprintf("an API call of a single-goroutine history blocks for ever on %s; lock-state findings so far: %v; history: %s", cfg, idle, trunc(opKinds(ops), 500)),
		Replay: histReplay{Config: cfg, Ops: ops, Seed: hseed, Mode: "lock-tracking"}},
		func() { e, err = engine.RunHistory(cfg, ops, setup) })
	rep.Evaluations++
	if err != nil {
		return
	}
	// final File.Close: must return promptly, lock idle before
	e.Apply(engine.Op{Kind: "rcloseall"})
	if e.Tx != nil {
		e.Apply(engine.Op{Kind: "rollback"})
	}
	if e.File != nil {
		s, p, rs := txfile.VerifLockState(e.File)
		if got := lkString(s, p, rs); got != "0,0,0" {
			mism = append(mism, "quiescent file (no open transaction): lock is ("+got+"), expected idle")
		}
	}
	e.Close()
	rep.Traces++
	rep.nontrivial(fmt.Sprintf("B/%v", e.Stats))
	mism = append(mism, tr.bad...)
	if len(idle) > 0 {
		rep.violate(Violation{Kind: "oracle", Sig: "lock-usage/lock-not-idle-with-no-transaction-open",
			Detail: idle[0] + " on " + cfg.String() + "; history: " + trunc(opKinds(ops), 400),
			Replay: histReplay{Config: cfg, Ops: ops, Failures: idle, Seed: hseed, Mode: "lock-tracking"}})
	}
	if len(mism) > 0 {
		rep.violate(Violation{Kind: "correspondence", Sig: "lock-usage/" + failSig(mism[0]),
			Detail: mism[0] + " on " + cfg.String(),
			Replay: histReplay{Config: cfg, Ops: ops, Failures: mism, Seed: hseed, Mode: "lock-tracking"}})
	}
}

// watchdog runs fn; if it does not return within d the hang is reported.
// txfileStacks returns the stacks of all goroutines that are inside go-txfile (diagnosis of hangs).
func txfileStacks() string {
	buf := make([]byte, 1<<20)
	buf = buf[:runtime.Stack(buf, true)]
	var out []string
	for _, g := range strings.Split(string(buf), "\n\n") {
		if strings.Contains(g, "go-txfile") && !strings.Contains(g, "txfileStacks") {
			if len(g) > 1500 {
				g = g[:1500]
			}
			out = append(out, g)
		}
	}
	return strings.Join(out, "\n\n")
}

// watchdog runs fn and reports whether it returned. A call that is still running after d gets twice that
// time again before it is declared stuck (a loaded machine must not look like a deadlock).
func watchdog(d time.Duration, fn func()) bool {
	done := make(chan struct{})
	go func() { defer close(done); defer func() { recover() }(); fn() }()
	select {
	case <-done:
		return true
	case <-time.After(d):
	}
	select {
	case <-done:
		return true
	case <-time.After(2 * d):
		return false
	}
}

type openReplay struct {
	Config   engine.Config `json:"config"`
	Ops      []engine.Op   `json:"ops"`
	Flags    uint64        `json:"flags"`
	MaxSize  uint64        `json:"max_size"`
	Prealloc bool          `json:"prealloc"`
	Detail   string        `json:"detail"`
}

// c09PartE: File.Close is called while a write transaction is open (and not committing). Close has to wait for
// the writer; meanwhile the writer's goroutine starts a read transaction (a writer may need one before it
// commits): Close waits for the writer, the writer for the reader - the reader must not wait for Close.
func c09PartE(rep *Report, r *rand.Rand, n int) {
	for i := 0; i < n; i++ {
		cfg := engine.Config{PageSize: 1024, MaxSize: uint64(r.Intn(2)) * 256 * 1024, InitMetaArea: uint32(r.Intn(2) * 4)}
		d := simdisk.New("close-while-writing")
		f, err := txfile.VerifOpen(d, cfg.Options())
		if err != nil {
			continue
		}
		rep.Evaluations++
		rep.count("E:close-while-a-writer-is-open", 1)
		rep.nontrivial(fmt.Sprintf("E/%s/%d", cfg, i%3))
		tx, err := f.Begin()
		if err != nil {
			f.Close()
			continue
		}
		if p, err := tx.Alloc(); err == nil {
			p.SetBytes(make([]byte, 1024))
		}
		closed := make(chan struct{})
		go func() { f.Close(); close(closed) }()
		time.Sleep(time.Duration(1+r.Intn(20)) * time.Millisecond)
		var fails []string
		if !watchdog(3*time.Second, func() {
			if rd, err := f.BeginReadonly(); err == nil {
				rd.Close()
			}
		}) {
			s, p, rs := txfile.VerifLockState(f)
			fails = append(fails, fmt.Sprintf("deadlock: File.Close waits for the open write transaction, a BeginReadonly issued meanwhile blocks although the writer is not committing; lock state (%s)", lkString(s, p, rs)))
		}
		switch i % 3 {
		case 0:
			tx.Rollback()
		case 1:
			tx.Commit()
		default:
			tx.Close()
		}
		select {
		case <-closed:
		case <-time.After(15 * time.Second):
			fails = append(fails, "File.Close does not return after the write transaction has finished")
		}
		if len(fails) > 0 {
			rep.violate(Violation{Kind: "oracle", Sig: "close-while-writing/" + failSig(fails[0]),
				Detail: fails[0] + " on " + cfg.String(),
				Replay: map[string]interface{}{"config": cfg, "scenario": "Begin; Alloc; go Close(); BeginReadonly; finish the writer", "failures": fails}})
			return // blocked goroutines stay blocked
		}
	}
}

func c09PartC(rep *Report, r *rand.Rand, n int) {
	for i := 0; i < n; i++ {
		hseed := r.Int63()
		hr := rand.New(rand.NewSource(hseed))
		cfg := gen.PickConfig(hr)
		prof := gen.DefaultProfile()
		prof.Readers = false
		prof.MaxTx = 4
		ops := gen.History(hr, prof)
		e, err := engine.RunHistory(cfg, ops, nil)
		if err != nil {
			continue
		}
		e.Close()
		img := e.Disk.Snapshot()
		flagsSet := []uint64{0, uint64(txfile.FlagUpdMaxSize), uint64(txfile.FlagUpdMaxSize | txfile.FlagUnboundMaxSize)}
		sizes := []uint64{cfg.MaxSize, cfg.MaxSize * 2, cfg.MaxSize / 2, 0, 1 << 20, 64 * 1024}
		for _, fl := range flagsSet {
			for _, ms := range sizes {
				for _, pre := range []bool{false, true} {
					rep.Evaluations++
					rep.count(fmt.Sprintf("C:flags=%d", fl), 1)
					detail := c09OpenCase(cfg, img, fl, ms, pre)
					rep.nontrivial(fmt.Sprintf("C/%d/%d/%v/%v", fl, ms, pre, detail == ""))
					if detail != "" {
						rep.violate(Violation{Kind: "oracle", Sig: "open-options/" + failSig(detail),
							Detail: fmt.Sprintf("open(flags=%d,max=%d,prealloc=%v) after history on %s: %s", fl, ms, pre, cfg, detail),
							Replay: openReplay{Config: cfg, Ops: ops, Flags: fl, MaxSize: ms, Prealloc: pre, Detail: detail}})
					}
				}
			}
		}
	}
}

func c09OpenCase(cfg engine.Config, img []byte, flags, maxSize uint64, prealloc bool) (detail string) {
	d := simdisk.FromImage("open", img)
	opts := cfg.Options()
	opts.Flags = txfile.Flag(flags)
	opts.MaxSize = maxSize
	opts.Prealloc = prealloc
	var f *txfile.File
	var err error
	okOpen := watchdog(5*time.Second, func() {
		defer func() {
			if r := recover(); r != nil {
				err = fmt.Errorf("PANIC in open: %v", r)
			}
		}()
		f, err = txfile.VerifOpen(d, opts)
	})
	if !okOpen {
		return "Open hangs"
	}
	if err != nil {
		if strings.HasPrefix(err.Error(), "PANIC") {
			return err.Error()
		}
		return "" // a refused option combination is fine
	}
	stuck := func(what string) string {
		s, p, rs := txfile.VerifLockState(f)
		return fmt.Sprintf("%s does not return; lock state (%s) with no transaction open", what, lkString(s, p, rs))
	}
	if s, p, rs := txfile.VerifLockState(f); s != 0 || p || rs {
		return "lock not idle after Open: (" + lkString(s, p, rs) + ")"
	}
	if !watchdog(5*time.Second, func() {
		tx, err := f.BeginReadonly()
		if err == nil {
			tx.Close()
		}
	}) {
		return stuck("BeginReadonly after Open")
	}
	if !watchdog(5*time.Second, func() {
		tx, err := f.Begin()
		if err == nil {
			tx.Rollback()
		}
	}) {
		return stuck("Begin after Open")
	}
	if !watchdog(5*time.Second, func() { f.Close() }) {
		return "File.Close does not return"
	}
	return ""
}

// ---------------------------------------------------------------------------
// D: concurrent stress

type stressReplay struct {
	Seed     int64    `json:"seed"`
	Readers  int      `json:"readers"`
	Writers  int      `json:"writers"`
	Failures []string `json:"failures"`
}

// stressOnce runs writers and readers concurrently on one file. Every committed state stamps all
// pages with one version number; a reader must see one version on all pages, twice.
func stressOnce(seed int64, nReaders, nWriters, txPerWriter int, withObserver bool) []string {
	var mu sync.Mutex
	var fails []string
	fail := func(f string, a ...interface{}) {
		mu.Lock()
		fails = append(fails, fmt.Sprintf(f, a...))
		mu.Unlock()
	}
	cfg := engine.Config{PageSize: 1024, MaxSize: 256 * 1024, InitMetaArea: 4}
	// every third run: an unbounded file that append-only transactions grow past its mapping (remaps while
	// readers come and go)
	appendOnly := seed%3 == 0
	if appendOnly {
		cfg.MaxSize = 0
	}
	if withObserver {
		cfg.Observer = nopObserver{}
	}
	d := simdisk.New("stress")
	f, err := txfile.VerifOpen(d, cfg.Options())
	if err != nil {
		return []string{"open failed: " + err.Error()}
	}
	const npages = 6
	var ids [npages]txfile.PageID
	stamp := func(tx *txfile.Tx, version uint64) error {
		for _, id := range ids {
			p, err := tx.Page(id)
			if err != nil {
				return err
			}
			buf := make([]byte, 1024)
			binary.LittleEndian.PutUint64(buf, version)
			binary.LittleEndian.PutUint64(buf[512:], version)
			if err := p.SetBytes(buf); err != nil {
				return err
			}
		}
		return nil
	}
	{
		tx, _ := f.Begin()
		pages, err := tx.AllocN(npages)
		if err != nil {
			return []string{"alloc failed"}
		}
		for i, p := range pages {
			ids[i] = p.ID()
		}
		tx.SetRoot(ids[0])
		stamp(tx, 1)
		if err := tx.Commit(); err != nil {
			return []string{"initial commit failed: " + err.Error()}
		}
	}
	var committed uint64 = 1 // highest version whose Commit is known (to this harness) to have returned
	var attempted uint64 = 1 // highest version any commit attempt has tried to publish
	var writersActive int32
	var wg, wgW sync.WaitGroup
	stop := make(chan struct{})
	readOnce := func(tx *txfile.Tx) (uint64, bool) {
		var v uint64
		for i, id := range ids {
			p, err := tx.Page(id)
			if err != nil {
				fail("reader Page(%d): %v", id, err)
				return 0, false
			}
			b, err := p.Bytes()
			if err != nil {
				fail("reader Bytes(%d): %v", id, err)
				return 0, false
			}
			a, c := binary.LittleEndian.Uint64(b), binary.LittleEndian.Uint64(b[512:])
			if a != c {
				fail("reader sees a torn page %d: %d/%d", id, a, c)
				return 0, false
			}
			if i == 0 {
				v = a
			} else if a != v {
				fail("reader sees a mixture of commits: page %d has version %d, page %d has version %d", ids[0], v, id, a)
				return 0, false
			}
		}
		return v, true
	}
	for w := 0; w < nWriters; w++ {
		wgW.Add(1)
		go func(w int) {
			defer wgW.Done()
			r := rand.New(rand.NewSource(seed + int64(w)*7919))
			for t := 0; t < txPerWriter; t++ {
				before := atomic.LoadUint64(&committed)
				tx, err := f.Begin()
				if err != nil {
					fail("Begin: %v", err)
					return
				}
				if n := atomic.AddInt32(&writersActive, 1); n != 1 {
					fail("%d write transactions active at the same time", n)
				}
				// inside the write tx we are alone: read the current version from the root page
				p, _ := tx.Page(ids[0])
				b, _ := p.Bytes()
				cur := binary.LittleEndian.Uint64(b)
				// (another writer's Commit may have completed without this harness having recorded it yet)
				if att := atomic.LoadUint64(&attempted); cur < before || cur > att {
					fail("writer sees version %d, commits completed before its Begin: %d, highest attempted: %d", cur, before, att)
				}
				if appendOnly && t%2 == 1 {
					// a transaction that touches no existing page: new pages only (no overwrite page, no new mapping)
					if pages, err := tx.AllocN(24 + r.Intn(40)); err == nil {
						buf := make([]byte, 1024)
						for _, pg := range pages[:4] {
							pg.SetBytes(buf)
						}
					}
					atomic.AddInt32(&writersActive, -1)
					if err := tx.Commit(); err != nil {
						fail("Commit (append only): %v", err)
					}
					continue
				}
				stamp(tx, cur+1)
				if r.Intn(3) == 0 {
					tx.Flush()
				}
				atomic.AddInt32(&writersActive, -1)
				if r.Intn(4) == 0 {
					tx.Rollback()
				} else {
					// committed is advanced before Commit returns to other goroutines only after success;
					// readers tolerate cur+1 while the commit is in flight
					atomic.StoreUint64(&attempted, cur+1) // single writer: versions only grow
					if err := tx.Commit(); err != nil {
						fail("Commit: %v", err)
					} else {
						for {
							c := atomic.LoadUint64(&committed)
							if c >= cur+1 || atomic.CompareAndSwapUint64(&committed, c, cur+1) {
								break
							}
						}
					}
				}
			}
		}(w)
	}
	for rd := 0; rd < nReaders; rd++ {
		wg.Add(1)
		go func(rd int) {
			defer wg.Done()
			for {
				select {
				case <-stop:
					return
				default:
				}
				before := atomic.LoadUint64(&committed)
				tx, err := f.BeginReadonly()
				if err != nil {
					fail("BeginReadonly: %v", err)
					return
				}
				v1, ok := readOnce(tx)
				if ok {
					// the slice of the first page stays valid and unchanged while the reader is open
					var held []byte
					if p0, err := tx.Page(ids[0]); err == nil {
						held, _ = p0.Bytes()
					}
					time.Sleep(time.Duration(rd%3) * 50 * time.Microsecond)
					if held != nil && binary.LittleEndian.Uint64(held) != v1 {
						fail("the bytes a reader obtained from Page.Bytes changed while the reader is open (version %d, now %d)", v1, binary.LittleEndian.Uint64(held))
					}
					v2, ok2 := readOnce(tx)
					if ok2 && v1 != v2 {
						fail("reader view changed while open: %d then %d", v1, v2)
					}
					if att := atomic.LoadUint64(&attempted); v1 > att {
						fail("reader sees version %d that no commit has attempted yet (%d)", v1, att)
					}
					if v1 < before {
						fail("reader sees version %d older than commit %d completed before it began", v1, before)
					}
				}
				tx.Close()
			}
		}(rd)
	}
	// wait for writers, then stop readers, then Close (must return promptly)
	if !watchdog(60*time.Second, wgW.Wait) {
		s, p, rs := txfile.VerifLockState(f)
		fail("writer goroutines do not finish (deadlock?); lock state (%s)", lkString(s, p, rs))
		fail("stacks: %s", txfileStacks())
		close(stop)
		return fails
	}
	close(stop)
	if !watchdog(30*time.Second, wg.Wait) {
		s, p, rs := txfile.VerifLockState(f)
		fail("reader goroutines do not finish (deadlock?); lock state (%s)", lkString(s, p, rs))
		fail("stacks: %s", txfileStacks())
		return fails
	}
	if s, p, rs := txfile.VerifLockState(f); s != 0 || p || rs {
		fail("lock not idle when all transactions are closed: (%s)", lkString(s, p, rs))
	}
	if !watchdog(10*time.Second, func() { f.Close() }) {
		fail("File.Close does not return")
		fail("stacks: %s", txfileStacks())
	}
	mu.Lock()
	defer mu.Unlock()
	return fails
}

type nopObserver struct{}

func (nopObserver) OnOpen(txfile.FileStats)                    {}
func (nopObserver) OnTxBegin(bool)                             {}
func (nopObserver) OnTxClose(txfile.FileStats, txfile.TxStats) {}

func runStress(rep *Report, r *rand.Rand, n int) {
	hung := 0
	for i := 0; i < n; i++ {
		if rep.outOfTime() {
			break
		}
		seed := r.Int63()
		nr, nw := 1+r.Intn(4), 1+r.Intn(3)
		fails := stressOnce(seed, nr, nw, 6+r.Intn(10), i%2 == 0)
		rep.Evaluations++
		rep.count("D:stress-runs", 1)
		rep.nontrivial(fmt.Sprintf("D/%d/%d/%d", nr, nw, seed%7))
		if len(fails) > 0 {
			rep.violate(Violation{Kind: "oracle", Sig: "stress/" + failSig(fails[0]),
				Detail: fmt.Sprintf("stress (readers=%d writers=%d seed=%d): %s", nr, nw, seed, fails[0]),
				Replay: stressReplay{Seed: seed, Readers: nr, Writers: nw, Failures: fails}})
			// goroutines that are stuck stay stuck: every further run would only wait for its watchdogs
			stuck := 0
			for _, fl := range fails {
				if strings.Contains(fl, "do not finish") || strings.Contains(fl, "does not return") {
					stuck++
				}
			}
			if stuck > 0 {
				if hung++; hung >= 2 {
					rep.count("D:stress-stopped-after-hangs", 1)
					return
				}
			}
		}
	}
}

func init() {
	register("c09", func(args []string) int {
		f := parseFlags("c09", args)
		rep := newReport("C09", f)
		rep.Rule = "A: random scripts over the 8 operations of the bare lock object vs. the Coq lock_apply (state + would-block after every step); " +
			"B: random API histories (write tx commit/rollback/close/failing commit, readers, reopen) - after every API call the sampled lock state equals the model state after the call's label program; every disk op of a commit samples pending+reserved; " +
			"C: open-time option combinations (3 flag sets x 6 max sizes x prealloc) after prior histories, then BeginReadonly/Begin/Close under a watchdog; " +
			"E: File.Close called while a write transaction is open: a read transaction begun meanwhile must be admitted, Close returns when the writer is done; D: goroutine stress (race build) with N readers, M writers, final Close. Non-trivial: distinct lock-state traces / distinct op statistics / distinct option combos."
		m, err := model.Start()
		if err != nil {
			fmt.Fprintln(os.Stderr, err)
			return 2
		}
		defer m.Close()
		r := rand.New(rand.NewSource(f.seed))
		nA, nB, nC, nD := 400, 120, 6, 30
		if f.tier == "thorough" {
			nA, nB, nC, nD = 20000, 3000, 200, 1500
		}
		if f.replay != "" {
			rp, err := loadHistReplay(f.replay)
			if err == nil && len(rp.Ops) > 0 {
				c09TrackedHistory(rep, m, rp.Config, rp.Ops, rp.Seed)
			}
			return rep.finish(f)
		}
		c09PartA(rep, m, r, nA)
		c09PartB(rep, m, r, nB)
		c09PartC(rep, r, nC)
		c09PartE(rep, r, nC+4)
		runStress(rep, r, nD)
		rep.ModelCalls = m.N
		return rep.finish(f)
	})
	// stress only (built with -race by the check driver)
	register("stress", func(args []string) int {
		f := parseFlags("stress", args)
		rep := newReport("stress", f)
		r := rand.New(rand.NewSource(f.seed))
		n := 40
		if f.tier == "thorough" {
			n = 1500
		}
		if f.n > 0 {
			n = f.n
		}
		runStress(rep, r, n)
		return rep.finish(f)
	})
}
