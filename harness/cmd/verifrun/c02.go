package main

import (
	"fmt"
	"math/rand"
	"os"
	"sync"
	"sync/atomic"
	"time"

	txfile "github.com/elastic/go-txfile"

	"verifharness/engine"
	"verifharness/gen"
	"verifharness/simdisk"
)

// C02: snapshot isolation. Writer histories run in the main goroutine; read transactions are begun
// at API boundaries (rbegin ops) and stay open across the following writer steps; at EVERY disk
// operation of the history (page writes of Flush / checkpoint / commit, both syncs, the header write,
// truncate / remap) and at every API boundary all open readers re-read their complete view, which
// must equal the committed state at their Begin. When a Commit is reached with readers open, the
// commit blocks waiting for them; a second goroutine watches the lock, re-verifies the readers once
// the commit has written and synced its header (the new state is on disk, but not yet switched to),
// checks that a new reader is NOT admitted while Pending is held, and then closes the readers.

func c02History(rep *Report, cfg engine.Config, ops []engine.Op, hseed int64, shrink bool) *engine.Engine {
	run := func(o []engine.Op) *engine.Engine {
		var verifications int64
		setup := func(e *engine.Engine) {
			e.KeepReaders = true
			var inHook int32
			var probes, releasers sync.WaitGroup
			var commitDone int32
			e.Disk.Hook = func(kind simdisk.OpKind, idx int) {
				if kind == simdisk.OpRead || kind == simdisk.OpSize {
					return
				}
				if e.NumReaders() == 0 || !atomic.CompareAndSwapInt32(&inHook, 0, 1) {
					return
				}
				defer atomic.StoreInt32(&inHook, 0)
				e.VerifyReaders(fmt.Sprintf("at disk %v #%d", kind, idx))
				atomic.AddInt64(&verifications, 1)
			}
			e.BeforeOp = func(e *engine.Engine, op engine.Op) {
				if op.Kind == "commit" && e.Tx != nil && e.NumReaders() > 0 {
					atomic.StoreInt32(&commitDone, 0)
					// Commit will block on the exclusive lock: release it from a second goroutine
					// (the main goroutine waits for it after the commit: it never touches a closed File)
					releasers.Add(1)
					go func(f *txfile.File) {
						defer releasers.Done()
						deadline := time.Now().Add(10 * time.Second)
						for time.Now().Before(deadline) && atomic.LoadInt32(&commitDone) == 0 {
							_, pend, _ := txfile.VerifLockState(f)
							if pend {
								break
							}
							time.Sleep(50 * time.Microsecond)
						}
						// let the commit do its I/O (the hook verifies at every disk op); then, while it waits:
						time.Sleep(300 * time.Microsecond)
						_, pend, _ := txfile.VerifLockState(f)
						if pend {
							// a new reader must not be admitted while Pending is held: it is admitted only
							// after the commit has released Pending (the main goroutine waits for the probe)
							probes.Add(1)
							go func() {
								defer probes.Done()
								tx, err := f.BeginReadonly()
								if err != nil {
									return
								}
								if atomic.LoadInt32(&commitDone) == 0 {
									if _, p2, _ := txfile.VerifLockState(f); p2 {
										e.Fail("a read transaction was admitted while a commit holds the pending lock")
									}
								}
								tx.Close()
							}()
							time.Sleep(200 * time.Microsecond)
						}
						e.VerifyReaders("while Commit waits for readers")
						e.CloseReaders("before Commit can switch")
					}(e.File)
				}
			}
			e.AfterOp = func(e *engine.Engine, op engine.Op, res engine.Result) {
				if op.Kind == "commit" {
					atomic.StoreInt32(&commitDone, 1)
					releasers.Wait()
					probes.Wait()
				}
				if op.Kind != "rbegin" && op.Kind != "rclose" && op.Kind != "rcloseall" && op.Kind != "rread" {
					e.VerifyReaders("after " + op.String())
				}
			}
		}
		e, err := engine.RunHistory(cfg, o, setup)
		if err != nil {
			return nil
		}
		e.CloseReaders("end")
		e.Close()
		e.Stats["reader-verifications"] = int(verifications)
		return e
	}
	e := run(ops)
	rep.Evaluations++
	if e == nil {
		return nil
	}
	rep.Traces++
	rep.count("reader-verifications-at-disk-ops", e.Stats["reader-verifications"])
	rep.count("readers-begun", e.Stats["rbegin"])
	if len(e.Failures) == 0 {
		return e
	}
	sig := failSig(e.Failures[0])
	min := ops
	if shrink && !rep.distinct["viol/"+sig] {
		failing := func(c []engine.Op) bool {
			for try := 0; try < 2; try++ {
				if e2 := run(c); e2 != nil && len(e2.Failures) > 0 && failSig(e2.Failures[0]) == sig {
					return true
				}
			}
			return false
		}
		min = engine.Shrink(ops, failing)
	}
	e3 := run(min)
	if e3 == nil || len(e3.Failures) == 0 {
		e3, min = e, ops
	}
	rep.violate(Violation{Kind: "oracle", Sig: sig,
		Detail: fmt.Sprintf("%s on %s; minimal history: %s", e3.Failures[0], cfg, opKinds(min)),
		Replay: histReplay{Config: cfg, Ops: min, Failures: e3.Failures, Log: e3.Log, Seed: hseed, Mode: "c02"}})
	return e
}

func init() {
	register("c02", func(args []string) int {
		f := parseFlags("c02", args)
		rep := newReport("C02", f)
		rep.Rule = "random writer histories with read transactions begun at API boundaries and held open across later writer steps; every open reader re-reads its complete view (root + every page of the state committed at its Begin) at EVERY disk operation (page writes, syncs, header write, truncate, remap) and after every API call; commits reached with readers open block, a second goroutine verifies the readers while the commit waits, checks that no reader is admitted under Pending, then closes them; files include unbounded ones growing past the mapped size; directed: append-only / SetRoot-only / alloc+free commits with open readers that grow the file past its mapping (remap), readers keep the byte slices obtained before; a write transaction that ends without commit on a full bounded file whose committed state lives partly in an overflow area, with readers open. Non-trivial: history with >= 1 reader verification at a disk op; distinct by op statistics."
		if f.replay != "" {
			rp, err := loadHistReplay(f.replay)
			if err != nil {
				fmt.Fprintln(os.Stderr, err)
				return 2
			}
			c02History(rep, rp.Config, rp.Ops, rp.Seed, false)
			return rep.finish(f)
		}
		r := rand.New(rand.NewSource(f.seed))
		n := 150
		if f.tier == "thorough" {
			n = 4000
		}
		if f.n > 0 {
			n = f.n
		}
		// directed: commits that do not touch any existing page (append-only, SetRoot-only, alloc + free) while readers
		// are open; the append grows an unbounded file past its mapping (remap). The readers keep the byte slices they
		// obtained before the commit.
		for i := 0; i < 12; i++ {
			grow := []int{70, 130, 20, 300}[i%4]
			ops := []engine.Op{{Kind: "begin"}, {Kind: "alloc", N: 8}}
			for k := 0; k < 8; k++ {
				ops = append(ops, engine.Op{Kind: "setfull", P: k, Seed: 40 + k})
			}
			ops = append(ops, engine.Op{Kind: "setroot", P: 3}, engine.Op{Kind: "commit"},
				engine.Op{Kind: "rbegin"}, engine.Op{Kind: "rbegin"}, engine.Op{Kind: "rread", R: 0}, engine.Op{Kind: "begin"})
			switch i % 3 {
			case 0: // append only
				ops = append(ops, engine.Op{Kind: "alloc", N: grow}, engine.Op{Kind: "setfull", P: 8 + grow/2, Seed: 77}, engine.Op{Kind: "setfull", P: 8 + grow - 1, Seed: 78})
			case 1: // append + new root
				ops = append(ops, engine.Op{Kind: "alloc", N: grow}, engine.Op{Kind: "setfull", P: 9, Seed: 79}, engine.Op{Kind: "setroot", P: 9})
			default: // append, free one of the old pages
				ops = append(ops, engine.Op{Kind: "alloc", N: grow}, engine.Op{Kind: "setfull", P: 10, Seed: 80}, engine.Op{Kind: "free", P: 2})
			}
			ops = append(ops, engine.Op{Kind: "commit"}, engine.Op{Kind: "rbegin"}, engine.Op{Kind: "verify"},
				engine.Op{Kind: "begin"}, engine.Op{Kind: "alloc", N: grow}, engine.Op{Kind: "commit"}, engine.Op{Kind: "rcloseall"}, engine.Op{Kind: "verify"})
			cfg := engine.Config{PageSize: 1024, MaxSize: []uint64{0, 0, 1 << 20}[i%3], InitMetaArea: uint32(4 * (i % 2))}
			c02History(rep, cfg, ops, int64(500+i), false)
			rep.count("scenario:append-only-commit-with-open-readers", 1)
		}
		// directed: a full bounded file whose last commit put its overwrite / mapping / free-list pages into an overflow
		// area behind the size limit; readers are open; a write transaction that ends without a commit (Rollback, Close,
		// failed allocation first, with or without overflow area of its own) truncates the file to the committed end -
		// the readers' pages in the overflow area must stay
		for i := 0; i < 16; i++ {
			hr := rand.New(rand.NewSource(int64(700 + i)))
			cfg := engine.Config{PageSize: 1024, MaxSize: uint64(64+8*(i%3)) * 1024, InitMetaArea: uint32((i % 2) * 2)}
			ops := fillAllOps(hr)
			ops = append(ops, engine.Op{Kind: "begin", Overflow: true, WALLimit: 1000})
			for k := 2 + i%5; k > 0; k-- {
				ops = append(ops, engine.Op{Kind: "setfull", P: hr.Intn(1 << 16), Seed: 1 + hr.Intn(1000)})
			}
			ops = append(ops, engine.Op{Kind: "commit"}, engine.Op{Kind: "rbegin"}, engine.Op{Kind: "rbegin"}, engine.Op{Kind: "rread", R: 0},
				engine.Op{Kind: "begin", Overflow: i%4 == 3})
			switch i % 4 {
			case 1:
				ops = append(ops, engine.Op{Kind: "alloc", N: 3}) // fails: the file is full
			case 2:
				ops = append(ops, engine.Op{Kind: "setfull", P: hr.Intn(1 << 16), Seed: 5}, engine.Op{Kind: "flush"})
			case 3:
				ops = append(ops, engine.Op{Kind: "alloc", N: 2}, engine.Op{Kind: "setfull", P: hr.Intn(1 << 16), Seed: 6}, engine.Op{Kind: "flush"})
			}
			ops = append(ops, engine.Op{Kind: []string{"rollback", "close"}[(i/4)%2]}, engine.Op{Kind: "verify"}, engine.Op{Kind: "rread", R: 1},
				engine.Op{Kind: "rbegin"}, engine.Op{Kind: "rread", R: 2}, engine.Op{Kind: "rcloseall"}, engine.Op{Kind: "verify"})
			c02History(rep, cfg, ops, int64(700+i), false)
			rep.count("scenario:aborted-writer-on-a-full-file-with-an-overflow-area-under-readers", 1)
		}
		for i := 0; i < n; i++ {
			if rep.outOfTime() {
				break
			}
			hseed := r.Int63()
			hr := rand.New(rand.NewSource(hseed))
			cfg := gen.PickConfig(hr)
			prof := gen.DefaultProfile()
			prof.Readers = true
			if i%3 == 0 { // grow unbounded files past the initial mapping (64 KiB) to force remaps
				cfg = engine.Config{PageSize: 1024, MaxSize: 0, InitMetaArea: uint32(hr.Intn(5))}
				prof.BigAllocPct = 60
				prof.MaxTx = 8
			}
			ops := c02Readers(hr, gen.History(hr, prof))
			e := c02History(rep, cfg, ops, hseed, true)
			if e != nil && e.Stats["reader-verifications"] > 0 {
				rep.nontrivial(fmt.Sprintf("%s/%v", cfg, e.Stats))
			}
			if i < 2 {
				rep.sample(map[string]interface{}{"config": cfg.String(), "ops": opKinds(ops)})
			}
		}
		return rep.finish(f)
	})
}

// c02Readers removes the generator's "rcloseall" before commits in half of the cases (so that
// commits have to wait for readers) and adds readers at more places.
func c02Readers(r *rand.Rand, ops []engine.Op) []engine.Op {
	var out []engine.Op
	for i, op := range ops {
		if op.Kind == "rcloseall" && i+1 < len(ops) && ops[i+1].Kind == "commit" && r.Intn(2) == 0 {
			continue
		}
		out = append(out, op)
		if r.Intn(5) == 0 {
			out = append(out, engine.Op{Kind: "rbegin"})
		}
	}
	return out
}
